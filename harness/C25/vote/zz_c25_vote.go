package consensus_vote

// C25 (vote router): only current consensus validators may vote, each counts once, and the message is
// released exactly once, at the first vote that brings the number of distinct current consensus
// validators who voted to ceil(2N/3). Everything runs for real (CheckVotes, VoteHandler.MakeDepositProposal,
// node_manager pool readers, VoteInfo codec, CheckDoneTx/PutDoneTx); no overrides, natively replayable.

import (
	"bytes"

	"github.com/polynetwork/poly/common"
	"github.com/polynetwork/poly/common/config"
	cstates "github.com/polynetwork/poly/core/states"
	"github.com/polynetwork/poly/core/types"
	"github.com/polynetwork/poly/native"
	scom "github.com/polynetwork/poly/native/service/cross_chain_manager/common"
	"github.com/polynetwork/poly/native/service/governance/node_manager"
	"github.com/polynetwork/poly/native/service/utils"
	"github.com/polynetwork/poly/native/storage"
	"github.com/polynetwork/poly/zzsym"
)

// ceil(2n/3) written without the code's formula
func zzQuorum(n int) int {
	q := 0
	for 3*q < 2*n {
		q++
	}
	return q
}

func zzVoteState(db *storage.CacheDB, id []byte) *VoteInfo {
	vi, err := getVoteInfo(zzNative(db, nil), id)
	if err != nil {
		panic("zz: getVoteInfo")
	}
	return vi
}

// ZZ_C25_VoteStep: one vote against an arbitrary stored state. Pool of N members, each in consensus or
// candidate status and each with or without a recorded vote; optionally a recorded vote of a non-member;
// released flag set or not; the voter is any pool member or a non-member.
func ZZ_C25_VoteStep() {
	N := 1 + zzsym.Choose("n", zzsym.Param("NMAX"))
	db := zzNewCacheDB()
	cons := make([]bool, N)
	voted := make([]bool, N)
	st := make([]node_manager.Status, N)
	pre := &VoteInfo{VoteInfo: map[string]bool{}}
	for i := 0; i < N; i++ {
		cons[i] = zzsym.Bool("consensus")
		voted[i] = zzsym.Bool("voted")
		st[i] = node_manager.CandidateStatus
		if cons[i] {
			st[i] = node_manager.ConsensusStatus
		}
		if voted[i] {
			a := zzValidatorAddr(i)
			pre.VoteInfo[a.ToBase58()] = true
		}
	}
	zzPutPeerPool(db, 1, st)
	// PeerPoolItem.Address is the wallet that registered the peer; validators vote with their node keys.
	// own wallet each / one non-validator wallet (the stranger voter below) for all peers / rotated
	if pat := zzsym.Choose("owners", 3); pat != 0 {
		m := &node_manager.PeerPoolMap{PeerPoolMap: make(map[string]*node_manager.PeerPoolItem)}
		for i := range st {
			owner := zzValidatorAddr(6)
			if pat == 2 {
				owner = zzValidatorAddr((i + 1) % N)
			}
			pk := zzValidatorKeyHex[i]
			m.PeerPoolMap[pk] = &node_manager.PeerPoolItem{Index: uint32(i + 1), PeerPubkey: pk, Address: owner, Status: st[i]}
		}
		sink := common.NewZeroCopySink(nil)
		m.Serialization(sink)
		db.Put(utils.ConcatKey(utils.NodeManagerContractAddress, []byte(node_manager.PEER_POOL), utils.GetUint32Bytes(1)), cstates.GenRawStorageItem(sink.Bytes()))
		zzsym.Cover("foreign-owner-wallets")
	}
	if zzsym.Bool("strangerVoteRecorded") {
		a := zzValidatorAddr(7)
		pre.VoteInfo[a.ToBase58()] = true
	}
	pre.Status = zzsym.Bool("released")
	id := zzsym.Bytes("id", 32)
	putVoteInfo(zzNative(db, nil), id, pre)

	v := zzsym.Choose("voter", N+1) // N = key 6, not in the pool
	voter := zzValidatorAddr(6)
	if v < N {
		voter = zzValidatorAddr(v)
	}
	before := zzWriteSet(db)
	ok, err := CheckVotes(zzNative(db, nil), id, voter)
	post := zzVoteState(db, id)

	if pre.Status {
		zzsym.Assert(!ok && err == nil, "a message that was already released is never released again")
		zzsym.Assert(zzSameWriteSet(before, zzWriteSet(db)), "a vote after the release changes nothing")
		zzsym.Cover("already-released")
		return
	}
	if v == N || !cons[v] {
		zzsym.Assert(err != nil && !ok, "only current consensus validators may vote")
		zzsym.Assert(zzSameWriteSet(before, zzWriteSet(db)), "a refused vote changes nothing")
		zzsym.Cover("outsider")
		return
	}
	zzsym.Assert(err == nil, "a consensus validator's vote is accepted")
	S, cnt := 0, 0
	for i := 0; i < N; i++ {
		if cons[i] {
			S++
			if voted[i] || i == v {
				cnt++
			}
		}
	}
	zzsym.Assert(ok == (cnt >= zzQuorum(S)), "released iff the distinct current consensus validators who voted reach ceil(2N/3); candidates, strangers and repeats do not count")
	zzsym.Assert(post.Status == ok, "the released flag is set exactly when the message is released")
	a := voter
	_, rec := post.VoteInfo[a.ToBase58()]
	zzsym.Assert(rec, "the vote is recorded")
	want := len(pre.VoteInfo)
	if !voted[v] {
		want++
	}
	zzsym.Assert(len(post.VoteInfo) == want, "a vote adds at most the voter's own entry")
	if ok {
		zzsym.Cover("released")
	} else {
		zzsym.Cover("pending")
	}
	if voted[v] {
		zzsym.Cover("repeat-voter")
	}
}

func ZZ_C25_VoteStep_witness() {
	db := zzNewCacheDB()
	zzConsensusPool(db, 4)
	id := zzsym.Bytes("id", 32)
	pre := &VoteInfo{VoteInfo: map[string]bool{}}
	for i := 0; i < 2; i++ {
		if zzsym.Bool("voted") {
			a := zzValidatorAddr(i)
			pre.VoteInfo[a.ToBase58()] = true
		}
	}
	putVoteInfo(zzNative(db, nil), id, pre)
	ok, _ := CheckVotes(zzNative(db, nil), id, zzValidatorAddr(2))
	zzsym.Assert(!ok, "witness: two earlier votes plus this one reach 3 of 4")
}

// ZZ_C25_VoteThreshold: N = 1..8 consensus validators, the first k already voted, then one new or one
// repeated vote: the arithmetic of the threshold for every N the key table allows.
func ZZ_C25_VoteThreshold() {
	N := 1 + zzsym.Choose("n", 8)
	k := zzsym.Choose("k", N) // 0..N-1 earlier distinct voters
	db := zzNewCacheDB()
	zzConsensusPool(db, N)
	id := zzsym.Bytes("id", 32)
	released := false
	for i := 0; i < k; i++ {
		ok, err := CheckVotes(zzNative(db, nil), id, zzValidatorAddr(i))
		zzsym.Assert(err == nil, "a consensus validator's vote is accepted")
		zzsym.Assert(ok == (!released && i+1 >= zzQuorum(N)), "released exactly at the vote that reaches ceil(2N/3)")
		if ok {
			released = true
		}
	}
	repeat := k > 0 && zzsym.Bool("repeat")
	voter, cnt := zzValidatorAddr(k), k+1
	if repeat {
		voter, cnt = zzValidatorAddr(0), k
	}
	ok, err := CheckVotes(zzNative(db, nil), id, voter)
	zzsym.Assert(err == nil, "a consensus validator's vote is accepted")
	zzsym.Assert(ok == (!released && !repeat && cnt >= zzQuorum(N)), "released exactly once, at the first vote that reaches ceil(2N/3) distinct validators")
	if ok {
		zzsym.Cover("released")
	}
	if repeat {
		zzsym.Cover("repeat")
	}
	zzsym.Cover("threshold-done")
}

func ZZ_C25_VoteThreshold_witness() {
	db := zzNewCacheDB()
	zzConsensusPool(db, 7)
	id := zzsym.Bytes("id", 32)
	ok := false
	for i := 0; i < 5; i++ {
		ok, _ = CheckVotes(zzNative(db, nil), id, zzValidatorAddr(i))
	}
	zzsym.Assert(!ok, "witness: the fifth of seven votes releases")
}

// ZZ_C25_VoteSequence: T votes by arbitrary voters (pool members in any order with repeats, a candidate
// and a stranger) on a fixed pool of N consensus validators plus one candidate: exactly one vote returns
// true, the one at which the set of distinct consensus voters first reaches ceil(2N/3).
func ZZ_C25_VoteSequence() {
	N := 1 + zzsym.Choose("n", zzsym.Param("NMAX"))
	T := zzsym.Param("T")
	db := zzNewCacheDB()
	st := make([]node_manager.Status, N+1)
	for i := 0; i < N; i++ {
		st[i] = node_manager.ConsensusStatus
	}
	st[N] = node_manager.CandidateStatus
	zzPutPeerPool(db, 1, st)
	id := zzsym.Bytes("id", 32)
	votedSet := make([]bool, N)
	distinct, releases := 0, 0
	for t := 0; t < T; t++ {
		v := zzsym.Choose("voter", N+2) // N: the candidate, N+1: a stranger (key 7)
		who := zzValidatorAddr(7)
		if v <= N {
			who = zzValidatorAddr(v)
		}
		before := zzWriteSet(db)
		ok, err := CheckVotes(zzNative(db, nil), id, who)
		if releases > 0 {
			zzsym.Assert(!ok && err == nil && zzSameWriteSet(before, zzWriteSet(db)), "after the release no vote has any effect")
			zzsym.Cover("vote-after-release")
			continue
		}
		if v >= N {
			zzsym.Assert(err != nil && !ok && zzSameWriteSet(before, zzWriteSet(db)), "votes of candidates and strangers are refused and change nothing")
			continue
		}
		zzsym.Assert(err == nil, "a consensus validator's vote is accepted")
		first := !votedSet[v]
		if first {
			votedSet[v] = true
			distinct++
		}
		zzsym.Assert(ok == (first && distinct >= zzQuorum(N)), "released exactly at the first vote that brings the distinct consensus voters to ceil(2N/3)")
		if ok {
			releases++
		}
	}
	zzsym.Assert(releases <= 1, "the message is released at most once")
	zzsym.Assert((releases == 1) == (distinct >= zzQuorum(N)), "the message is released once the quorum has voted")
	if releases == 1 {
		zzsym.Cover("released")
	}
	zzsym.Cover("sequence-done")
}

func ZZ_C25_VoteSequence_witness() {
	db := zzNewCacheDB()
	zzConsensusPool(db, 3)
	id := zzsym.Bytes("id", 32)
	n := 0
	for t := 0; t < 2; t++ {
		ok, _ := CheckVotes(zzNative(db, nil), id, zzValidatorAddr(zzsym.Choose("voter", 3)))
		if ok {
			n++
		}
	}
	zzsym.Assert(n == 0, "witness: two distinct votes of three release")
}

// ---- the handler ---------------------------------------------------------------------------------

func zzVoteInput(src uint64, height uint32, extra []byte, relayer common.Address) []byte {
	p := &scom.EntranceParam{SourceChainID: src, Height: height, Extra: extra, RelayerAddress: relayer[:]}
	sink := common.NewZeroCopySink(nil)
	p.Serialization(sink)
	return sink.Bytes()
}

func zzVoteService(db *storage.CacheDB, input []byte, height uint32, signers ...common.Address) *native.NativeService {
	tx := &types.Transaction{SignedAddr: signers}
	ns, err := native.NewNativeService(db, tx, 0, height, common.Uint256{}, 0, input, false)
	if err != nil {
		panic("zz: NewNativeService")
	}
	return ns
}

// ZZ_C25_VoteHandler: VoteHandler.MakeDepositProposal on main net, 4 consensus validators (quorum 3).
// PRE+T submissions of the same subject (source chain, height, message) by arbitrary validators, each
// witnessed by its relayer address, or naming a validator but witnessed by an arbitrary other address; then a second subject carrying
// the same cross-chain id is voted through: it must hit the done mark.
func ZZ_C25_VoteHandler() {
	T := zzsym.Param("T")
	config.DefConfig.P2PNode.NetworkId = config.NETWORK_ID_MAIN_NET
	db := zzNewCacheDB()
	zzConsensusPool(db, 4)
	src := zzsym.U64("src")
	relay := zzsym.U32("relayHeight") // relay-chain height of the block carrying the votes: any (main net has no exemption)
	height := zzsym.U32("height")
	height2 := zzsym.U32("height2") // height of the second subject (used at the end)
	zzsym.Assume(height2 != height)
	msg := &scom.MakeTxParam{TxHash: zzsym.Bytes("m.txhash", 2), CrossChainID: zzsym.Bytes("m.ccid", 4), FromContractAddress: zzsym.Bytes("m.from", 1),
		ToChainID: zzsym.U64("m.to"), ToContractAddress: zzsym.Bytes("m.toaddr", 1), Method: "unlock", Args: zzsym.Bytes("m.args", 1)}
	sink := common.NewZeroCopySink(nil)
	msg.Serialization(sink)
	extra := sink.Bytes()
	h := NewVoteHandler()

	var votedSet [4]bool
	distinct, releases := 0, 0
	PRE := zzsym.Param("PRE") // the first PRE votes are cast by validators 0..PRE-1 (saves paths in the quick tier)
	for t := 0; t < PRE+T; t++ {
		v := t
		if t >= PRE {
			v = zzsym.Choose("voter", 6) // 4: stranger (key 7); 5: validator 3 named as relayer, witnessed by somebody else
		}
		forged := v == 5
		if forged {
			v = 3
		}
		who := zzValidatorAddr(7)
		if v < 4 {
			who = zzValidatorAddr(v)
		}
		signer := who
		if forged {
			copy(signer[:], zzsym.Bytes("signer", 20))
			zzsym.Assume(signer != who)
		}
		before := zzWriteSet(db)
		p, err := h.MakeDepositProposal(zzVoteService(db, zzVoteInput(src, height, extra, who), relay, signer))
		if forged {
			zzsym.Assert(err != nil && p == nil && zzSameWriteSet(before, zzWriteSet(db)), "a vote must be witnessed by the voting validator itself")
			zzsym.Cover("forged-witness")
			continue
		}
		if releases > 0 {
			zzsym.Assert(p == nil && err == nil && zzSameWriteSet(before, zzWriteSet(db)), "after the release no further vote releases the message or changes anything")
			zzsym.Cover("vote-after-release")
			continue
		}
		if v == 4 {
			zzsym.Assert(err != nil && p == nil && zzSameWriteSet(before, zzWriteSet(db)), "a stranger's vote is refused and changes nothing")
			continue
		}
		zzsym.Assert(err == nil, "a consensus validator's vote is accepted")
		first := !votedSet[v]
		if first {
			votedSet[v] = true
			distinct++
		}
		zzsym.Assert((p != nil) == (first && distinct >= 3), "the message is released exactly at the third distinct validator of four")
		if p != nil {
			releases++
			zzsym.Assert(bytes.Equal(p.CrossChainID, msg.CrossChainID) && bytes.Equal(p.TxHash, msg.TxHash) && p.ToChainID == msg.ToChainID &&
				bytes.Equal(p.Args, msg.Args) && bytes.Equal(p.ToContractAddress, msg.ToContractAddress) && bytes.Equal(p.FromContractAddress, msg.FromContractAddress) && p.Method == msg.Method,
				"the released message is the voted one")
			zzsym.Assert(scom.CheckDoneTx(zzNative(db, nil), msg.CrossChainID, src) != nil, "the released message is marked done")
		} else {
			zzsym.Assert(scom.CheckDoneTx(zzNative(db, nil), msg.CrossChainID, src) == nil, "a message that is not yet released is not marked done")
		}
	}
	zzsym.Assert(releases <= 1, "the message is released at most once")
	if releases == 0 {
		zzsym.Cover("not-released")
		return
	}
	zzsym.Cover("released")
	// a different subject (other height) that carries the same cross-chain id: three validators vote it through
	var err error
	var p *scom.MakeTxParam
	for i := 0; i < 3; i++ {
		who := zzValidatorAddr(i)
		p, err = h.MakeDepositProposal(zzVoteService(db, zzVoteInput(src, height2, extra, who), 101, who))
		if i < 2 {
			zzsym.Assert(p == nil && err == nil, "two of four votes do not release")
		}
	}
	zzsym.Assert(p == nil && err != nil, "a cross-chain id that was executed is refused when voted through under another subject")
	zzsym.Cover("replayed-id-refused")
}

func ZZ_C25_VoteHandler_witness() {
	config.DefConfig.P2PNode.NetworkId = config.NETWORK_ID_MAIN_NET
	db := zzNewCacheDB()
	zzConsensusPool(db, 4)
	msg := &scom.MakeTxParam{TxHash: []byte{1}, CrossChainID: zzsym.Bytes("m.ccid", 4), Method: "unlock"}
	sink := common.NewZeroCopySink(nil)
	msg.Serialization(sink)
	h := NewVoteHandler()
	var p *scom.MakeTxParam
	for i := 0; i < 3; i++ {
		who := zzValidatorAddr(zzsym.Choose("voter", 4))
		p, _ = h.MakeDepositProposal(zzVoteService(db, zzVoteInput(9, 5, sink.Bytes(), who), 100, who))
	}
	zzsym.Assert(p == nil, "witness: three distinct validators release the message")
}
