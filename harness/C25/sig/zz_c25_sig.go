package signature_manager

// C25 (collected validator signatures): only current consensus validators may add a signature, each
// validator counts once, and the quorum event is emitted exactly once, by the signature that brings the
// number of distinct current consensus signers to ceil(2N/3). Everything runs for real (AddSignature,
// CheckSigns, SigInfo codec, node_manager pool readers); no overrides, natively replayable.

import (
	"bytes"

	"github.com/polynetwork/poly/common"
	"github.com/polynetwork/poly/native/service/governance/node_manager"
	"github.com/polynetwork/poly/native/service/utils"
	"github.com/polynetwork/poly/native/storage"
	"github.com/polynetwork/poly/zzsym"
)

// ceil(2n/3) written without the code's formula
func zzQuorum(n int) int {
	q := 0
	for 3*q < 2*n {
		q++
	}
	return q
}

func zzSigState(db *storage.CacheDB, id []byte) *SigInfo {
	si, err := getSigInfo(zzNative(db, nil), id)
	if err != nil {
		panic("zz: getSigInfo")
	}
	return si
}

// ZZ_C25_SigStep: one CheckSigns call against an arbitrary stored state (see ZZ_C25_VoteStep).
func ZZ_C25_SigStep() {
	N := 1 + zzsym.Choose("n", zzsym.Param("NMAX"))
	db := zzNewCacheDB()
	cons := make([]bool, N)
	signed := make([]bool, N)
	st := make([]node_manager.Status, N)
	pre := &SigInfo{SigInfo: map[string][]byte{}}
	for i := 0; i < N; i++ {
		cons[i] = zzsym.Bool("consensus")
		signed[i] = zzsym.Bool("signed")
		st[i] = node_manager.CandidateStatus
		if cons[i] {
			st[i] = node_manager.ConsensusStatus
		}
		if signed[i] {
			a := zzValidatorAddr(i)
			pre.SigInfo[a.ToBase58()] = []byte{byte(i), 0xaa}
		}
	}
	zzPutPeerPool(db, 1, st)
	if zzsym.Bool("strangerSigRecorded") {
		a := zzValidatorAddr(7)
		pre.SigInfo[a.ToBase58()] = []byte{7}
	}
	pre.Status = zzsym.Bool("quorumSeen")
	id := zzsym.Bytes("id", 32)
	putSigInfo(zzNative(db, nil), id, pre)

	v := zzsym.Choose("signer", N+1) // N = key 6, not in the pool
	signer := zzValidatorAddr(6)
	if v < N {
		signer = zzValidatorAddr(v)
	}
	sig := zzsym.Bytes("sig", 3)
	before := zzWriteSet(db)
	emit, err := CheckSigns(zzNative(db, nil), id, sig, signer)
	post := zzSigState(db, id)

	if v == N || !cons[v] {
		zzsym.Assert(err != nil && !emit, "only current consensus validators may add a signature")
		zzsym.Assert(zzSameWriteSet(before, zzWriteSet(db)), "a refused signature changes nothing")
		zzsym.Cover("outsider")
		return
	}
	zzsym.Assert(err == nil, "a consensus validator's signature is accepted")
	S, cnt := 0, 0
	for i := 0; i < N; i++ {
		if cons[i] {
			S++
			if signed[i] || i == v {
				cnt++
			}
		}
	}
	reached := cnt >= zzQuorum(S)
	zzsym.Assert(emit == (reached && !pre.Status), "the quorum event is emitted iff the distinct current consensus signers reach ceil(2N/3) and it was not emitted before")
	zzsym.Assert(post.Status == (pre.Status || reached), "the quorum flag is set exactly when the quorum is reached")
	a := signer
	got, rec := post.SigInfo[a.ToBase58()]
	zzsym.Assert(rec, "the signature is recorded")
	if signed[v] {
		zzsym.Assert(bytes.Equal(got, []byte{byte(v), 0xaa}), "a validator's first signature is kept; a repeat does not count again")
		zzsym.Assert(len(post.SigInfo) == len(pre.SigInfo), "a repeated signer adds no entry")
		zzsym.Cover("repeat-signer")
	} else {
		zzsym.Assert(bytes.Equal(got, sig), "the recorded signature is the submitted one")
		zzsym.Assert(len(post.SigInfo) == len(pre.SigInfo)+1, "a new signer adds exactly its own entry")
	}
	if emit {
		zzsym.Cover("emitted")
	} else if pre.Status {
		zzsym.Cover("after-quorum")
	} else {
		zzsym.Cover("pending")
	}
}

func ZZ_C25_SigStep_witness() {
	db := zzNewCacheDB()
	zzConsensusPool(db, 4)
	id := zzsym.Bytes("id", 32)
	pre := &SigInfo{SigInfo: map[string][]byte{}}
	for i := 0; i < 2; i++ {
		if zzsym.Bool("signed") {
			a := zzValidatorAddr(i)
			pre.SigInfo[a.ToBase58()] = []byte{1}
		}
	}
	putSigInfo(zzNative(db, nil), id, pre)
	emit, _ := CheckSigns(zzNative(db, nil), id, []byte{2}, zzValidatorAddr(2))
	zzsym.Assert(!emit, "witness: two earlier signatures plus this one reach 3 of 4")
}

func zzAddSigInput(who common.Address, chain uint64, subject, sig []byte) []byte {
	p := &AddSignatureParam{Address: who, SideChainID: chain, Subject: subject, Signature: sig}
	sink := common.NewZeroCopySink(nil)
	p.Serialization(sink)
	return sink.Bytes()
}

// ZZ_C25_AddSignatureSequence: T AddSignature transactions on one subject by arbitrary signers (pool
// members in any order with repeats, a candidate, a stranger, validator 0 named but witnessed by an arbitrary other address)
// on a pool of N consensus validators plus one candidate: exactly one transaction emits the
// AddSignatureQuorum event, the one at which the distinct consensus signers first reach ceil(2N/3).
func ZZ_C25_AddSignatureSequence() {
	N := 1 + zzsym.Choose("n", zzsym.Param("NMAX"))
	T := zzsym.Param("T")
	db := zzNewCacheDB()
	st := make([]node_manager.Status, N+1)
	for i := 0; i < N; i++ {
		st[i] = node_manager.ConsensusStatus
	}
	st[N] = node_manager.CandidateStatus
	zzPutPeerPool(db, 1, st)
	subject := zzsym.Bytes("subject", 5)
	chain := zzsym.U64("chain")
	signedSet := make([]bool, N)
	distinct, events := 0, 0
	for t := 0; t < T; t++ {
		v := zzsym.Choose("signer", N+3) // N: the candidate, N+1: a stranger (key 7), N+2: validator 0 named, witnessed by somebody else
		forged := v == N+2
		if forged {
			v = 0
		}
		who := zzValidatorAddr(7)
		if v <= N {
			who = zzValidatorAddr(v)
		}
		witness := who
		if forged {
			copy(witness[:], zzsym.Bytes("witness", 20))
			zzsym.Assume(witness != who)
		}
		before := zzWriteSet(db)
		ns := zzNative(db, zzAddSigInput(who, chain, subject, zzsym.Bytes("sig", 2)), witness)
		ret, err := AddSignature(ns)
		n := len(ns.GetNotify())
		if forged || v >= N {
			zzsym.Assert(err != nil && bytes.Equal(ret, utils.BYTE_FALSE) && n == 0 && zzSameWriteSet(before, zzWriteSet(db)),
				"signatures not witnessed by their signer, and signatures of candidates or strangers, are refused and change nothing")
			zzsym.Cover("refused")
			continue
		}
		zzsym.Assert(err == nil && bytes.Equal(ret, utils.BYTE_TRUE), "a consensus validator's signature is accepted")
		first := !signedSet[v]
		if first {
			signedSet[v] = true
			distinct++
		}
		want := 0
		if events == 0 && first && distinct >= zzQuorum(N) {
			want = 1
		}
		zzsym.Assert(n == want, "the quorum event is emitted exactly by the first signature that brings the distinct consensus signers to ceil(2N/3)")
		events += n
		if want == 0 && events == 1 {
			zzsym.Cover("signature-after-quorum")
		}
	}
	zzsym.Assert(events <= 1, "the quorum event is emitted at most once")
	zzsym.Assert((events == 1) == (distinct >= zzQuorum(N)), "the quorum event is emitted once the quorum has signed")
	if events == 1 {
		zzsym.Cover("emitted")
	}
	zzsym.Cover("sequence-done")
}

func ZZ_C25_AddSignatureSequence_witness() {
	db := zzNewCacheDB()
	zzConsensusPool(db, 3)
	subject := zzsym.Bytes("subject", 5)
	n := 0
	for t := 0; t < 2; t++ {
		who := zzValidatorAddr(zzsym.Choose("signer", 3))
		ns := zzNative(db, zzAddSigInput(who, 1, subject, []byte{1}), who)
		AddSignature(ns)
		n += len(ns.GetNotify())
	}
	zzsym.Assert(n == 0, "witness: two distinct signers of three emit the event")
}

// ZZ_C25_SigThreshold: N = 1..8 consensus validators sign one after the other: the event comes exactly
// with signer number ceil(2N/3).
func ZZ_C25_SigThreshold() {
	N := 1 + zzsym.Choose("n", 8)
	db := zzNewCacheDB()
	zzConsensusPool(db, N)
	id := zzsym.Bytes("id", 32)
	for i := 0; i < N; i++ {
		emit, err := CheckSigns(zzNative(db, nil), id, []byte{byte(i)}, zzValidatorAddr(i))
		zzsym.Assert(err == nil, "a consensus validator's signature is accepted")
		zzsym.Assert(emit == (i+1 == zzQuorum(N)), "the event is emitted exactly by signer number ceil(2N/3)")
	}
	post := zzSigState(db, id)
	zzsym.Assert(len(post.SigInfo) == N && post.Status, "all signatures are collected")
	zzsym.Cover("threshold-done")
}

func ZZ_C25_SigThreshold_witness() {
	db := zzNewCacheDB()
	zzConsensusPool(db, 7)
	id := zzsym.Bytes("id", 32)
	emit := false
	for i := 0; i < 5; i++ {
		emit, _ = CheckSigns(zzNative(db, nil), id, []byte{byte(i)}, zzValidatorAddr(i))
	}
	zzsym.Assert(!emit, "witness: the fifth of seven signatures emits the event")
}
