package ledgerstore

// C15: transaction execution is atomic. The REAL LedgerStoreImp.executeBlock / handleTransaction /
// StateStore.HandleInvokeTransaction / NativeService.Invoke / CacheDB / OverlayDB run a block of transactions
// against a harness-registered native contract that interprets a symbolic script (put / delete / emit event +
// cross-chain record / read / fail). The result is compared with a model that applies only the successful
// transactions. The ledger is built around a harness in-memory PersistStore (StateStore.store is an interface).

import (
	"bytes"
	"crypto/sha256"
	"errors"

	"github.com/polynetwork/poly/common"
	"github.com/polynetwork/poly/core/payload"
	scom "github.com/polynetwork/poly/core/store/common"
	"github.com/polynetwork/poly/core/types"
	"github.com/polynetwork/poly/merkle"
	"github.com/polynetwork/poly/native"
	"github.com/polynetwork/poly/native/event"
	"github.com/polynetwork/poly/native/states"
	"github.com/polynetwork/poly/zzsym"
)

// ---- harness PersistStore (not under test): unordered slice + write batch ------------------

type zz15Store struct {
	keys, vals [][]byte
	bkeys      [][]byte
	bvals      [][]byte // nil value = delete
}

func (s *zz15Store) find(key []byte) int {
	for i := range s.keys {
		if bytes.Equal(s.keys[i], key) {
			return i
		}
	}
	return -1
}
func (s *zz15Store) Put(key []byte, value []byte) error {
	k := append([]byte(nil), key...)
	v := append([]byte(nil), value...)
	if i := s.find(key); i >= 0 {
		s.vals[i] = v
	} else {
		s.keys = append(s.keys, k)
		s.vals = append(s.vals, v)
	}
	return nil
}
func (s *zz15Store) Has(key []byte) (bool, error) { return s.find(key) >= 0, nil }
func (s *zz15Store) Get(key []byte) ([]byte, error) {
	if i := s.find(key); i >= 0 {
		return s.vals[i], nil
	}
	return nil, scom.ErrNotFound
}
func (s *zz15Store) Delete(key []byte) error {
	if i := s.find(key); i >= 0 {
		s.keys = append(s.keys[:i], s.keys[i+1:]...)
		s.vals = append(s.vals[:i], s.vals[i+1:]...)
	}
	return nil
}
func (s *zz15Store) NewBatch() { s.bkeys, s.bvals = nil, nil }
func (s *zz15Store) BatchPut(key []byte, value []byte) {
	s.bkeys = append(s.bkeys, append([]byte(nil), key...))
	s.bvals = append(s.bvals, append([]byte{}, value...))
}
func (s *zz15Store) BatchDelete(key []byte) {
	s.bkeys = append(s.bkeys, append([]byte(nil), key...))
	s.bvals = append(s.bvals, nil)
}
func (s *zz15Store) BatchCommit() error {
	for i := range s.bkeys {
		if s.bvals[i] == nil {
			s.Delete(s.bkeys[i])
		} else {
			s.Put(s.bkeys[i], s.bvals[i])
		}
	}
	s.bkeys, s.bvals = nil, nil
	return nil
}
func (s *zz15Store) Close() error { return nil }

type zz15StoreIter struct {
	keys, vals [][]byte
	pos        int
}

func (s *zz15Store) NewIterator(prefix []byte) scom.StoreIterator {
	it := &zz15StoreIter{pos: -1}
	for i := range s.keys {
		if bytes.HasPrefix(s.keys[i], prefix) {
			it.keys = append(it.keys, s.keys[i])
			it.vals = append(it.vals, s.vals[i])
		}
	}
	for i := 1; i < len(it.keys); i++ {
		for j := i; j > 0 && bytes.Compare(it.keys[j], it.keys[j-1]) < 0; j-- {
			it.keys[j], it.keys[j-1] = it.keys[j-1], it.keys[j]
			it.vals[j], it.vals[j-1] = it.vals[j-1], it.vals[j]
		}
	}
	return it
}
func (it *zz15StoreIter) Next() bool  { it.pos++; return it.pos < len(it.keys) }
func (it *zz15StoreIter) First() bool { it.pos = 0; return len(it.keys) > 0 }
func (it *zz15StoreIter) Key() []byte {
	if it.pos < 0 || it.pos >= len(it.keys) {
		return nil // like goleveldb: an exhausted iterator yields nil
	}
	return it.keys[it.pos]
}
func (it *zz15StoreIter) Value() []byte {
	if it.pos < 0 || it.pos >= len(it.keys) {
		return nil
	}
	return it.vals[it.pos]
}
func (it *zz15StoreIter) Release()     {}
func (it *zz15StoreIter) Error() error { return nil }


// ---- the scripted native contract ----------------------------------------------------------------------

var zz15Contract = common.Address{0xC1, 0x5C}

const (
	zz15Put    = iota // put k v
	zz15Del           // delete k
	zz15Emit          // AddNotify(v) + PutMerkleVal(k‖v)
	zz15Get           // read k, remember what was seen
	zz15Fail          // return an error
	zz15Call          // NativeCall(self, "run", [put k v; emit k v]) and propagate its error
	zz15CallF         // NativeCall(self, "run", [put k v; emit k v; fail]) and propagate its error
	// ordinary steps draw from the first OPS (spec parameter: 4 = never fail, 5 = may fail) operations; with
	// TAILFAIL=1 every script additionally ends in "fail" or not (so a failing transaction always did something first);
	// the two call ops are used by the nested-call harness only
)

// every read the contract performs, in execution order (checked against the model afterwards)
var zz15Seen [][]byte

func zz15Key(k byte) []byte { return []byte{'k', k} }

func zz15Run(ns *native.NativeService) ([]byte, error) {
	in := ns.GetInput()
	db := ns.GetCacheDB()
	for i := 0; i+2 < len(in); i += 3 {
		op, k, v := in[i], in[i+1], in[i+2]
		switch op {
		case zz15Put:
			db.Put(zz15Key(k), []byte{v})
		case zz15Del:
			db.Delete(zz15Key(k))
		case zz15Emit:
			ns.AddNotify(&event.NotifyEventInfo{ContractAddress: zz15Contract, States: v})
			ns.PutMerkleVal([]byte{k, v})
		case zz15Get:
			got, err := db.Get(zz15Key(k))
			if err != nil {
				return nil, err
			}
			zz15Seen = append(zz15Seen, append([]byte(nil), got...))
		case zz15Fail:
			return nil, errors.New("scripted failure")
		case zz15Call, zz15CallF:
			sub := []byte{zz15Put, k, v, zz15Emit, k, v}
			if op == zz15CallF {
				sub = append(sub, zz15Fail, 0, 0)
			}
			if _, err := ns.NativeCall(zz15Contract, "run", sub); err != nil {
				return nil, err
			}
		}
	}
	return []byte{1}, nil
}

func zz15Register() {
	native.Contracts[zz15Contract] = func(ns *native.NativeService) { ns.Register("run", zz15Run) }
}

func zz15Tx(script []byte) *types.Transaction {
	sink := common.NewZeroCopySink(nil)
	(&states.ContractInvokeParam{Address: zz15Contract, Method: "run", Args: script}).Serialization(sink)
	return &types.Transaction{TxType: types.Invoke, Payload: &payload.InvokeCode{Code: sink.Bytes()}}
}

// ---- the model --------------------------------------------------------------------------------------------

type zz15Entry struct{ key, val []byte } // val empty = tombstone

type zz15Map struct{ ents []zz15Entry }

func (m *zz15Map) find(k []byte) int {
	for i := range m.ents {
		if bytes.Equal(m.ents[i].key, k) {
			return i
		}
	}
	return -1
}

func (m *zz15Map) put(k, v []byte) {
	if i := m.find(k); i >= 0 {
		m.ents[i].val = v
	} else {
		m.ents = append(m.ents, zz15Entry{k, v})
	}
}

func (m *zz15Map) sorted() []zz15Entry {
	out := append([]zz15Entry(nil), m.ents...)
	for i := 1; i < len(out); i++ {
		for j := i; j > 0 && bytes.Compare(out[j].key, out[j-1].key) < 0; j-- {
			out[j], out[j-1] = out[j-1], out[j]
		}
	}
	return out
}

type zz15Model struct {
	persisted *zz15Map // rows already in the store before the block
	block     *zz15Map // net write set of the committed transactions
	seen      [][]byte
	notify    [][]byte         // per transaction: the event payloads it must report (nil for a failed tx)
	ok        []bool           // per transaction: success?
	cross     []common.Uint256 // cross-chain record hashes of the successful transactions, in order
}

func zz15Raw(k byte) []byte { return append([]byte{byte(scom.ST_STORAGE)}, zz15Key(k)...) }

// run one transaction's script on the model
func (m *zz15Model) exec(script []byte) {
	tx := &zz15Map{}
	var notes []byte
	var cross []common.Uint256
	ok := true
	var step func(s []byte) bool
	step = func(s []byte) bool {
		for i := 0; i+2 < len(s); i += 3 {
			op, k, v := s[i], s[i+1], s[i+2]
			switch op {
			case zz15Put:
				tx.put(zz15Raw(k), []byte{v})
			case zz15Del:
				tx.put(zz15Raw(k), nil)
			case zz15Emit:
				notes = append(notes, v)
				cross = append(cross, merkle.HashLeaf([]byte{k, v}))
			case zz15Get:
				var val []byte
				if j := tx.find(zz15Raw(k)); j >= 0 {
					val = tx.ents[j].val
				} else if j := m.block.find(zz15Raw(k)); j >= 0 {
					val = m.block.ents[j].val
				} else if j := m.persisted.find(zz15Raw(k)); j >= 0 {
					val = m.persisted.ents[j].val
				}
				m.seen = append(m.seen, val)
			case zz15Fail:
				return false
			case zz15Call, zz15CallF:
				sub := []byte{zz15Put, k, v, zz15Emit, k, v}
				if op == zz15CallF {
					sub = append(sub, zz15Fail, 0, 0)
				}
				// NativeService.Invoke returns the callee's records BEFORE the caller's earlier ones
				before := cross
				cross = nil
				if !step(sub) {
					return false
				}
				cross = append(cross, before...)
			}
		}
		return true
	}
	ok = step(script)
	m.ok = append(m.ok, ok)
	if ok {
		for _, e := range tx.ents {
			m.block.put(e.key, e.val)
		}
		m.notify = append(m.notify, notes)
		m.cross = append(m.cross, cross...)
	} else {
		m.notify = append(m.notify, nil)
	}
}

// ---- harness ------------------------------------------------------------------------------------------------

func zz15Script(steps, ops int) []byte {
	var s []byte
	for i := 0; i < steps; i++ {
		op := byte(zzsym.Choose("op", ops))
		k := zzsym.U8("k")
		if d := zzsym.Param("KDOM"); d > 0 { // quick tier: keys from a d-letter alphabet (fewer key orderings)
			zzsym.Assume(int(k) < d)
		}
		s = append(s, op, k, zzsym.U8("v"))
	}
	if zzsym.Param("TAILFAIL") == 1 && zzsym.Choose("tailfail", 2) == 1 {
		s = append(s, zz15Fail, 0, 0)
	}
	return s
}

func zz15Ledger(m *zz15Model) *LedgerStoreImp {
	st := &zz15Store{}
	for i := 0; i < zzsym.Param("B"); i++ { // state persisted by earlier blocks
		k, v := zz15Raw(zzsym.U8("pk")), []byte{zzsym.U8("pv")}
		st.Put(k, v)
		m.persisted.put(k, v)
	}
	ss := &StateStore{store: st, merkleTree: merkle.NewTree(0, nil, nil), deltaMerkleTree: merkle.NewTree(0, nil, nil)}
	return &LedgerStoreImp{stateStore: ss}
}

func zz15Check(scripts [][]byte) {
	zz15Register()
	zz15Seen = nil
	m := &zz15Model{persisted: &zz15Map{}, block: &zz15Map{}}
	ls := zz15Ledger(m)
	block := &types.Block{Header: &types.Header{Height: 1}}
	for _, s := range scripts {
		block.Transactions = append(block.Transactions, zz15Tx(s))
		m.exec(s)
	}

	res, err := ls.executeBlock(block)
	zzsym.Assert(err == nil, "a block of invoke transactions executes (a failing transaction does not abort the block)")
	if err != nil {
		return
	}

	// events: one ExecuteNotify per transaction; success state and events only for successful transactions
	zzsym.Assert(len(res.Notify) == len(scripts), "one execution record per transaction")
	for i, n := range res.Notify {
		if m.ok[i] {
			zzsym.Assert(n.State == event.CONTRACT_STATE_SUCCESS, "a successful transaction is recorded as successful")
			zzsym.Assert(len(n.Notify) == len(m.notify[i]), "a successful transaction keeps all of its events, and only its own")
			for j := range n.Notify {
				if j < len(m.notify[i]) {
					zzsym.Assert(n.Notify[j].States.(byte) == m.notify[i][j], "events are reported in emission order with their payload")
				}
			}
			zzsym.Cover("tx-succeeds")
		} else {
			zzsym.Assert(n.State == event.CONTRACT_STATE_FAIL, "a failed transaction is recorded as failed")
			zzsym.Assert(len(n.Notify) == 0, "a failed transaction contributes no success events")
			zzsym.Cover("tx-fails")
		}
	}

	// cross-chain records: exactly those of the successful transactions
	zzsym.Assert(len(res.CrossHashes) == len(m.cross), "failed transactions contribute no cross-chain records, successful ones keep all of theirs")
	for i := range res.CrossHashes {
		if i < len(m.cross) {
			zzsym.Assert(res.CrossHashes[i] == m.cross[i], "cross-chain records are those of the successful transactions, in transaction order")
		}
	}
	if len(m.cross) == 0 {
		zzsym.Assert(res.CrossStatesRoot == common.UINT256_EMPTY, "no cross-chain records => empty cross-states root")
	} else {
		zzsym.Assert(res.CrossStatesRoot == merkle.TreeHasher{}.HashFullTreeWithLeafHash(m.cross), "cross-states root commits to exactly the successful transactions' records")
		zzsym.Cover("cross-records")
	}

	// contract state: the block write set is exactly the net effect of the successful transactions
	want := m.block.sorted()
	i := 0
	res.WriteSet.ForEach(func(key, val []byte) {
		zzsym.Assert(len(key) > 0 && key[0] == byte(scom.ST_STORAGE), "transaction execution writes only contract-storage keys")
		zzsym.Assert(i < len(want), "a failed transaction leaves no trace in the block write set")
		if i < len(want) {
			zzsym.Assert(bytes.Equal(key, want[i].key) && bytes.Equal(val, want[i].val), "the block write set is exactly the net effect of the successful transactions")
		}
		i++
	})
	zzsym.Assert(i == len(want), "a successful transaction keeps all of its writes")
	h := sha256.New()
	for _, e := range want {
		h.Write(e.key)
		h.Write(e.val)
	}
	var ref common.Uint256
	h.Sum(ref[:0])
	zzsym.Assert(res.Hash == ref, "the state-change digest covers exactly the successful transactions' net writes")

	// isolation: every read saw the persisted state + committed predecessors + the transaction's own writes
	zzsym.Assert(len(zz15Seen) == len(m.seen), "every scripted read executed")
	for j := range zz15Seen {
		if j < len(m.seen) {
			zzsym.Assert(bytes.Equal(zz15Seen[j], m.seen[j]), "a transaction sees exactly the committed writes of its predecessors and its own earlier writes (nothing of a failed transaction)")
		}
	}
	if len(m.seen) > 0 {
		zzsym.Cover("read")
	}
	zzsym.Cover("block-done")
}

func zz15Block() {
	N, S := zzsym.Param("N"), zzsym.Param("S")
	var scripts [][]byte
	for t := 0; t < N; t++ {
		scripts = append(scripts, zz15Script(S, zzsym.Param("OPS")))
	}
	if zzsym.Param("PROBE") == 1 { // a final transaction that reads one key: what did the block leave behind?
		scripts = append(scripts, []byte{zz15Get, zzsym.U8("probe"), 0})
	}
	zz15Check(scripts)
}

// N transactions of S scripted steps each.
func ZZ_C15_BlockAtomicity() { zz15Block() }

// same body: more transactions, one non-failing step each, then fail or not
func ZZ_C15_ManyTransactions() { zz15Block() }

// same body: one long transaction (failure injected at every position of the script)
func ZZ_C15_LongScript() { zz15Block() }

// Nested contract calls: tx0 = [step, call(put,emit[,fail]), step], tx1 = [get k]; the nested failure must roll
// back the caller's earlier writes, events and records as well.
func ZZ_C15_NestedCall() {
	callOp := byte(zz15Call)
	if zzsym.Bool("nested-fails") {
		callOp = zz15CallF
	}
	first := zz15Script(1, 3) // put / delete / emit
	tx0 := append(first, callOp, zzsym.U8("ck"), zzsym.U8("cv"))
	tx0 = append(tx0, zz15Script(1, 3)...)
	tx1 := []byte{zz15Get, zzsym.U8("gk"), 0}
	zz15Check([][]byte{tx0, tx1})
	zzsym.Cover("nested-done")
}

// Witness: a failed transaction's write must NOT be visible - so claiming it is visible is violable.
func ZZ_C15_BlockAtomicity_witness() {
	zz15Register()
	zz15Seen = nil
	m := &zz15Model{persisted: &zz15Map{}, block: &zz15Map{}}
	ls := zz15Ledger(m)
	k := zzsym.U8("k")
	tx0 := []byte{zz15Put, k, 7, byte(zzsym.Choose("then", 2)) * zz15Fail, 0, 0} // put then (put k=0 | fail)
	tx1 := []byte{zz15Get, k, 0}
	block := &types.Block{Header: &types.Header{Height: 1}, Transactions: []*types.Transaction{zz15Tx(tx0), zz15Tx(tx1)}}
	_, err := ls.executeBlock(block)
	zzsym.Assert(err == nil && len(zz15Seen) == 1 && bytes.Equal(zz15Seen[0], []byte{7}), "witness: tx1 sees tx0's write only if tx0 succeeded")
}
