package ledgerstore

import (
	"bytes"
	"errors"
	"os"
	"path/filepath"

	"github.com/polynetwork/poly/common"
	scom "github.com/polynetwork/poly/core/store/common"
	"github.com/polynetwork/poly/core/store/leveldbstore"
	"github.com/polynetwork/poly/core/types"
	"github.com/polynetwork/poly/merkle"
	"github.com/polynetwork/poly/zzsym"
)

// ---- engine-side model of LevelDBStore (spec "overrides"); natively the real in-memory goleveldb runs ----

type zzKV struct {
	keys, vals [][]byte
	bk, bv     [][]byte // pending batch; nil value = delete
}

var zzDBs = map[*leveldbstore.LevelDBStore]*zzKV{}

func zzLdbNew() (*leveldbstore.LevelDBStore, error) {
	s := new(leveldbstore.LevelDBStore)
	zzDBs[s] = &zzKV{}
	return s, nil
}
func (d *zzKV) find(key []byte) int {
	for i := range d.keys {
		if bytes.Equal(d.keys[i], key) {
			return i
		}
	}
	return -1
}
func (d *zzKV) put(key, value []byte) {
	k := append([]byte(nil), key...)
	v := append([]byte{}, value...)
	if i := d.find(key); i >= 0 {
		d.vals[i] = v
	} else {
		d.keys = append(d.keys, k)
		d.vals = append(d.vals, v)
	}
}
func (d *zzKV) del(key []byte) {
	if i := d.find(key); i >= 0 {
		d.keys = append(d.keys[:i], d.keys[i+1:]...)
		d.vals = append(d.vals[:i], d.vals[i+1:]...)
	}
}
func zzLdbPut(self *leveldbstore.LevelDBStore, key []byte, value []byte) error {
	zzDBs[self].put(key, value)
	return nil
}
func zzLdbGet(self *leveldbstore.LevelDBStore, key []byte) ([]byte, error) {
	d := zzDBs[self]
	if i := d.find(key); i >= 0 {
		return append([]byte{}, d.vals[i]...), nil
	}
	return nil, scom.ErrNotFound
}
func zzLdbHas(self *leveldbstore.LevelDBStore, key []byte) (bool, error) {
	return zzDBs[self].find(key) >= 0, nil
}
func zzLdbDelete(self *leveldbstore.LevelDBStore, key []byte) error {
	zzDBs[self].del(key)
	return nil
}
func zzLdbNewBatch(self *leveldbstore.LevelDBStore) { d := zzDBs[self]; d.bk, d.bv = nil, nil }
func zzLdbBatchPut(self *leveldbstore.LevelDBStore, key []byte, value []byte) {
	d := zzDBs[self]
	d.bk = append(d.bk, append([]byte(nil), key...))
	d.bv = append(d.bv, append([]byte{}, value...))
}
func zzLdbBatchDelete(self *leveldbstore.LevelDBStore, key []byte) {
	d := zzDBs[self]
	d.bk = append(d.bk, append([]byte(nil), key...))
	d.bv = append(d.bv, nil)
}
func zzLdbBatchCommit(self *leveldbstore.LevelDBStore) error {
	d := zzDBs[self]
	for i := range d.bk {
		if d.bv[i] == nil {
			d.del(d.bk[i])
		} else {
			d.put(d.bk[i], d.bv[i])
		}
	}
	d.bk, d.bv = nil, nil
	return nil
}

type zzIter struct {
	keys, vals [][]byte
	pos        int
}

func zzLdbNewIterator(self *leveldbstore.LevelDBStore, prefix []byte) scom.StoreIterator {
	d := zzDBs[self]
	it := &zzIter{pos: -1}
	for i := range d.keys {
		if bytes.HasPrefix(d.keys[i], prefix) {
			it.keys = append(it.keys, d.keys[i])
			it.vals = append(it.vals, d.vals[i])
		}
	}
	for i := 1; i < len(it.keys); i++ {
		for j := i; j > 0 && bytes.Compare(it.keys[j], it.keys[j-1]) < 0; j-- {
			it.keys[j], it.keys[j-1] = it.keys[j-1], it.keys[j]
			it.vals[j], it.vals[j-1] = it.vals[j-1], it.vals[j]
		}
	}
	return it
}
func (it *zzIter) Next() bool  { it.pos++; return it.pos < len(it.keys) }
func (it *zzIter) First() bool { it.pos = 0; return len(it.keys) > 0 }
func (it *zzIter) Key() []byte {
	if it.pos < 0 || it.pos >= len(it.keys) {
		return nil
	}
	return it.keys[it.pos]
}
func (it *zzIter) Value() []byte {
	if it.pos < 0 || it.pos >= len(it.keys) {
		return nil
	}
	return it.vals[it.pos]
}
func (it *zzIter) Release()     {}
func (it *zzIter) Error() error { return nil }

func zzNoFileStore(name string, treeSize uint32) (merkle.HashStore, error) {
	return nil, errors.New("zz: no merkle hash file in the symbolic run")
}

// ---- ledger construction / restart --------------------------------------------------------------

type zzDisk struct {
	block, state, event *leveldbstore.LevelDBStore
	merklePath          string
}

func zzNewDisk(tag string) *zzDisk {
	b, _ := leveldbstore.NewMemLevelDBStore()
	s, _ := leveldbstore.NewMemLevelDBStore()
	e, _ := leveldbstore.NewMemLevelDBStore()
	d := &zzDisk{block: b, state: s, event: e}
	if !zzsym.Symbolic() {
		dir, err := os.MkdirTemp("", "zzc12")
		if err != nil {
			panic(err)
		}
		d.merklePath = filepath.Join(dir, tag+"merkle.db")
	}
	return d
}

// zzOpen is the process start: fresh in-memory objects over whatever the stores hold.
func zzOpen(d *zzDisk) *LedgerStoreImp {
	l := &LedgerStoreImp{
		headerIndex:          make(map[uint32]common.Uint256),
		headerCache:          make(map[common.Uint256]*types.Header),
		vbftPeerInfoheader:   make(map[string]uint32),
		vbftPeerInfoblock:    make(map[string]uint32),
		savingBlockSemaphore: make(chan bool, 1),
	}
	l.blockStore = &BlockStore{store: d.block}
	l.eventStore = &EventStore{store: d.event}
	st := &StateStore{store: d.state, merklePath: d.merklePath}
	_, h, err := st.GetCurrentBlock()
	if err != nil && err != scom.ErrNotFound {
		panic("zz: state GetCurrentBlock")
	}
	if err := st.init(h); err != nil {
		zzsym.Assert(false, "state store opens after restart (merkle tree size consistent with state height)")
		panic("zz: state init: " + err.Error())
	}
	l.stateStore = st
	return l
}

type zzCrash struct{}

// zzCommit runs the real executeBlock + submitBlock; returns false if the process "crashed" at crash point p.
func zzCommit(l *LedgerStoreImp, blk *types.Block, crashAt int) (ok bool) {
	CrashHook = func(p int) {
		if p == crashAt {
			panic(zzCrash{})
		}
	}
	defer func() {
		CrashHook = nil
		if r := recover(); r != nil {
			if _, is := r.(zzCrash); is {
				ok = false
				return
			}
			panic(r)
		}
	}()
	res, err := l.executeBlock(blk)
	if err != nil {
		panic("zz: executeBlock: " + err.Error())
	}
	if err := l.submitBlock(blk, res); err != nil {
		panic("zz: submitBlock: " + err.Error())
	}
	return true
}

func zzBlock(l *LedgerStoreImp, height uint32, prev common.Uint256, salt []byte) *types.Block {
	h := &types.Header{Height: height, PrevBlockHash: prev, Timestamp: 1000 + height, ConsensusPayload: salt}
	if height > 0 {
		h.BlockRoot = l.GetBlockRootWithPreBlockHashes(height, []common.Uint256{prev})
	}
	// SHA-256 is uninterpreted under the engine: exclude the all-zero block hash, which the ledger treats
	// as "no hash" (a real header hashing to zero would be a 2^-256 event)
	zzsym.Assume(h.Hash() != common.UINT256_EMPTY)
	return &types.Block{Header: h}
}

// Crash at any of the four points of any block of a short chain, restart, recover: block and state
// heights agree, the block-merkle tree and state roots equal those of a crash-free run, and the next
// block is accepted.
func ZZ_C12_CrashRecovery() {
	H := zzsym.Param("H") // blocks 0..H are submitted; block K crashes
	K := 1 + zzsym.Choose("crashblock", H)
	P := zzsym.Choose("crashpoint", 4)
	disk := zzNewDisk("a")
	ref := zzNewDisk("b")
	l := zzOpen(disk)
	r := zzOpen(ref)
	var prev common.Uint256
	var blocks []*types.Block
	crashed := false
	for h := 0; h <= K; h++ {
		salt := zzsym.Bytes("salt", 2)
		blk := zzBlock(l, uint32(h), prev, salt)
		blocks = append(blocks, blk)
		at := -1
		if h == K {
			at = P
		}
		if !zzCommit(l, blk, at) {
			crashed = true
		}
		prev = blk.Hash()
	}
	zzsym.Assert(crashed, "harness: the crash was injected")
	// the block survives iff its block-store commit completed (crash points 1..3)
	survive := K
	if P == 0 {
		survive = K - 1
	}
	for h := 0; h <= survive; h++ {
		if !zzCommit(r, blocks[h], -1) {
			panic("zz: reference run crashed")
		}
	}
	// restart
	l2 := zzOpen(disk)
	err := l2.init()
	if err != nil {
		zzsym.Event("init error: " + err.Error())
	}
	zzsym.Assert(err == nil, "ledger re-opens after the crash")
	if err != nil {
		return
	}
	zzsym.Assert(l2.GetCurrentBlockHeight() == uint32(survive), "block height after recovery")
	_, sh, err := l2.stateStore.GetCurrentBlock()
	zzsym.Assert(err == nil && sh == uint32(survive), "state height equals block height after recovery (no block skipped or applied twice)")
	zzsym.Assert(l2.stateStore.merkleTree.TreeSize() == r.stateStore.merkleTree.TreeSize(), "block-merkle tree has one leaf per applied block")
	zzsym.Assert(l2.stateStore.merkleTree.Root() == r.stateStore.merkleTree.Root(), "block-merkle root equals that of a crash-free run")
	a, e1 := l2.stateStore.GetStateMerkleRoot(uint32(survive))
	b, e2 := r.stateStore.GetStateMerkleRoot(uint32(survive))
	zzsym.Assert(e1 == nil && e2 == nil && a == b, "state-merkle root equals that of a crash-free run")
	// the next block is accepted by both and leads to the same roots
	nh := uint32(survive + 1)
	tip := blocks[survive].Hash()
	salt := zzsym.Bytes("nextsalt", 2)
	nb := zzBlock(l2, nh, tip, salt)
	nr := zzBlock(r, nh, tip, salt)
	zzsym.Assert(nb.Header.BlockRoot == nr.Header.BlockRoot, "recovered ledger computes the same next block root")
	func() {
		defer func() {
			if x := recover(); x != nil {
				zzsym.Assert(false, "recovered ledger accepts the next block")
			}
		}()
		zzCommit(l2, nb, -1)
		zzCommit(r, nr, -1)
	}()
	zzsym.Assert(l2.GetCurrentBlockHeight() == nh && l2.stateStore.merkleTree.Root() == r.stateStore.merkleTree.Root(), "after the next block both ledgers agree")
	// and a second restart still works
	l3 := zzOpen(disk)
	zzsym.Assert(l3.init() == nil, "ledger re-opens again")
	zzsym.Cover("recovered")
}

func ZZ_C12_CrashRecovery_witness() {
	disk := zzNewDisk("w")
	l := zzOpen(disk)
	blk := zzBlock(l, 0, common.Uint256{}, zzsym.Bytes("salt", 1))
	ok := zzCommit(l, blk, zzsym.Choose("p", 5)-1)
	zzsym.Assert(ok, "witness: a crash point is hit")
}
