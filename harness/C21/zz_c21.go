package cross_chain_manager

// C21: imports are gated by the chain registry and the blacklist.
//
// Code under test (all real): ImportExTransfer, GetChainHandler, scom.CheckIfChainBlacked,
// side_chain_manager.GetSideChain/PutSideChain, utils.CheckRouterStartBlock, BlackChain, WhiteChain,
// MakeTransaction/PutRequest. The only replaced code is every chain handler's MakeDepositProposal
// (the proof verifier, third-party trie/rlp/amino code): spec "overrides" map each of them to
// zzStubProposal below, which answers what the harness chose up front (accept with a symbolic
// MakeTxParam / reject / "vote still pending").

import (
	"bytes"

	"github.com/polynetwork/poly/common"
	"github.com/polynetwork/poly/common/config"
	scom "github.com/polynetwork/poly/native/service/cross_chain_manager/common"
	"github.com/polynetwork/poly/native/service/utils"
	"github.com/polynetwork/poly/zzsym"
)

// ZZ_C21_ImportGates: one import against an arbitrary registry / blacklist pre-state.
// Source router: ETH (a plain proof router), VOTE (may answer "pending") or 13 (no handler).
func ZZ_C21_ImportGates() {
	config.DefConfig.P2PNode.NetworkId = config.NETWORK_ID_MAIN_NET
	db := zzNewCacheDB()
	zzConsensusPool(db, 1)
	op := zzOperator(db)

	src, dst := zzChainIDs("src", "dst")
	router := []uint64{utils.ETH_ROUTER, utils.VOTE_ROUTER, 13}[zzsym.Choose("router", 3)]
	dstRouter := utils.BSC_ROUTER
	srcReg, dstReg := zzsym.Bool("srcRegistered"), zzsym.Bool("dstRegistered")
	srcBlack, dstBlack := zzsym.Bool("srcBlacked"), zzsym.Bool("dstBlacked")
	same := src == dst
	if same {
		// one chain: a single registry entry and a single blacklist flag
		zzsym.Assume(srcReg == dstReg && srcBlack == dstBlack)
		dstRouter = router
	}

	// pre-state through the real writers
	if srcReg {
		zzRegister(db, src, router)
	}
	if dstReg && !same {
		zzRegister(db, dst, dstRouter)
	}
	if srcBlack {
		_, err := BlackChain(zzService(db, zzTx(1, op), 100, zzChainInput(src)))
		zzsym.Assert(err == nil, "the consensus operator can blacklist a chain")
	}
	if dstBlack && !same {
		_, err := BlackChain(zzService(db, zzTx(2, op), 100, zzChainInput(dst)))
		zzsym.Assert(err == nil, "the consensus operator can blacklist a chain")
	}

	zzStub.reject = zzsym.Bool("proofRejected")
	zzStub.pending = zzsym.Bool("votePending")
	// only the vote and ripple handlers answer (nil, nil) ("not enough votes yet")
	zzsym.Assume(!zzStub.pending || router == utils.VOTE_ROUTER)
	zzStub.param = zzSymParam(dst)

	out := zzImport(db, zzTx(zzsym.U32("nonce")), src, zzsym.U32("height"))

	srcOK := srcReg && !srcBlack && zzRouterSupported(router)
	dstOK := dstReg && !dstBlack
	if out.err == nil {
		zzsym.Assert(bytes.Equal(out.ret, utils.BYTE_TRUE), "an accepted import returns true")
		zzsym.Assert(srcReg, "accepted import => source chain registered")
		zzsym.Assert(!srcBlack, "accepted import => source chain not blacklisted")
		zzsym.Assert(zzRouterSupported(router), "accepted import => source router has a handler")
		zzsym.Assert(zzStub.calls == 1 && !zzStub.reject, "accepted import => the source proof was verified exactly once and accepted")
		if zzStub.pending {
			zzsym.Assert(out.same && out.hashes == 0, "a pending vote commits nothing")
			zzsym.Cover("pending")
			return
		}
		zzsym.Assert(dstReg, "accepted import => destination chain registered")
		zzsym.Assert(!dstBlack, "accepted import => destination chain not blacklisted")
		zzsym.Assert(out.hashes == 1 && !out.same, "accepted import commits its request")
		zzsym.Cover("accepted")
		return
	}
	zzsym.Assert(bytes.Equal(out.ret, utils.BYTE_FALSE), "a rejected import returns false")
	zzsym.Assert(out.same, "rejected import leaves the store unchanged")
	zzsym.Assert(out.hashes == 0, "rejected import commits no cross-state leaf")
	zzsym.Assert(out.notifies == 0, "rejected import emits no event")
	if !srcOK {
		zzsym.Assert(zzStub.calls == 0, "the proof verifier is not consulted for a gated source chain")
	}
	// no over-rejection: with every gate open and the proof accepted the import goes through
	zzsym.Assert(!(srcOK && dstOK && !zzStub.reject), "an import whose chains are registered, not blacklisted and active is accepted")
	if !srcReg {
		zzsym.Cover("src-unregistered")
	} else if srcBlack {
		zzsym.Cover("src-blacked")
	} else if !zzRouterSupported(router) {
		zzsym.Cover("router-unsupported")
	} else if zzStub.reject {
		zzsym.Cover("proof-rejected")
	} else if !dstReg {
		zzsym.Cover("dst-unregistered")
	} else if dstBlack {
		zzsym.Cover("dst-blacked")
	}
}

func ZZ_C21_ImportGates_witness() {
	config.DefConfig.P2PNode.NetworkId = config.NETWORK_ID_MAIN_NET
	db := zzNewCacheDB()
	zzConsensusPool(db, 1)
	src, dst := zzChainIDs("src", "dst")
	zzsym.Assume(src != dst)
	zzRegister(db, src, utils.ETH_ROUTER)
	zzRegister(db, dst, utils.BSC_ROUTER)
	zzStub.reject = zzsym.Bool("proofRejected")
	zzStub.param = zzSymParam(dst)
	out := zzImport(db, zzTx(zzsym.U32("nonce")), src, zzsym.U32("height"))
	zzsym.Assert(out.err != nil, "witness: some import is accepted")
}

// ZZ_C21_RouterGate: both chains registered and not blacklisted, proof accepted; the source router ranges
// over every router number 0..24, both networks, symbolic height: accepted <=> the router has a handler
// and is active at the current height.
func ZZ_C21_RouterGate() {
	net := []uint32{config.NETWORK_ID_MAIN_NET, config.NETWORK_ID_TEST_NET}[zzsym.Choose("net", 2)]
	config.DefConfig.P2PNode.NetworkId = net
	db := zzNewCacheDB()
	router := zzRouters[zzsym.Choose("router", len(zzRouters))]
	height := zzsym.U32("height")
	zzRegister(db, 5, router)
	zzRegister(db, 6, utils.ETH_ROUTER)
	zzStub.param = zzSymParam(6)
	out := zzImport(db, zzTx(7), 5, height)
	want := zzRouterSupported(router) && zzRouterActive(router, height, net)
	zzsym.Assert((out.err == nil) == want, "an otherwise valid import is accepted iff the source router has a handler and is active at the current height")
	if out.err != nil {
		zzsym.Assert(out.same && out.hashes == 0 && zzStub.calls == 0, "an import over an unsupported or inactive router changes nothing and never reaches the proof verifier")
		if zzRouterSupported(router) {
			zzsym.Cover("router-inactive")
		} else {
			zzsym.Cover("router-unsupported")
		}
	} else {
		zzsym.Cover("router-ok")
	}
}

func ZZ_C21_RouterGate_witness() {
	config.DefConfig.P2PNode.NetworkId = config.NETWORK_ID_MAIN_NET
	db := zzNewCacheDB()
	zzRegister(db, 5, utils.HSC_ROUTER)
	zzRegister(db, 6, utils.ETH_ROUTER)
	zzStub.param = zzSymParam(6)
	out := zzImport(db, zzTx(7), 5, zzsym.U32("height"))
	zzsym.Assert(out.err != nil, "witness: at some height the HSC router is active")
}

// ZZ_C21_BlackWhiteHistory: T operations out of {blacklist c, whitelist c, import c -> other} on two
// registered chains; the blacklist model is a pair of flags.
func ZZ_C21_BlackWhiteHistory() {
	T := zzsym.Param("T")
	config.DefConfig.P2PNode.NetworkId = config.NETWORK_ID_MAIN_NET
	db := zzNewCacheDB()
	zzConsensusPool(db, 1)
	op := zzOperator(db)
	var chain [2]uint64
	chain[0], chain[1] = zzChainIDs("a", "b")
	zzsym.Assume(chain[0] != chain[1])
	zzRegister(db, chain[0], utils.ETH_ROUTER)
	zzRegister(db, chain[1], utils.BSC_ROUTER)
	var blacked [2]bool
	imports := 0
	for t := 0; t < T; t++ {
		c := zzsym.Choose("chain", 2)
		switch zzsym.Choose("op", 3) {
		case 0:
			_, err := BlackChain(zzService(db, zzTx(uint32(t), op), 100, zzChainInput(chain[c])))
			zzsym.Assert(err == nil, "the consensus operator can blacklist a chain")
			blacked[c] = true
		case 1:
			_, err := WhiteChain(zzService(db, zzTx(uint32(t), op), 100, zzChainInput(chain[c])))
			zzsym.Assert(err == nil, "the consensus operator can whitelist a chain")
			blacked[c] = false
			zzsym.Cover("white")
		case 2:
			// import chain[c] -> chain[1-c]
			zzStub.reject, zzStub.pending, zzStub.calls = false, false, 0
			zzStub.param = zzSymParam(chain[1-c])
			out := zzImport(db, zzTx(uint32(100+t)), chain[c], 100)
			if blacked[0] || blacked[1] {
				zzsym.Assert(out.err != nil, "imports from or to a blacklisted chain are rejected until it is whitelisted")
				zzsym.Assert(out.same && out.hashes == 0, "rejected import leaves the store unchanged")
				zzsym.Cover("import-blocked")
			} else {
				zzsym.Assert(out.err == nil, "imports between chains that are not (or no longer) blacklisted are accepted")
				if imports > 0 {
					zzsym.Cover("import-after-import")
				}
			}
			imports++
		}
		b0, err0 := scom.CheckIfChainBlacked(zzNative(db, nil), chain[0])
		b1, err1 := scom.CheckIfChainBlacked(zzNative(db, nil), chain[1])
		zzsym.Assert(err0 == nil && err1 == nil && b0 == blacked[0] && b1 == blacked[1], "CheckIfChainBlacked reports exactly the chains blacklisted and not whitelisted since")
	}
	zzsym.Cover("history-done")
}

func ZZ_C21_BlackWhiteHistory_witness() {
	config.DefConfig.P2PNode.NetworkId = config.NETWORK_ID_MAIN_NET
	db := zzNewCacheDB()
	zzConsensusPool(db, 1)
	op := zzOperator(db)
	a, b := zzChainIDs("a", "b")
	zzRegister(db, a, utils.ETH_ROUTER)
	zzRegister(db, b, utils.BSC_ROUTER)
	_, err := BlackChain(zzService(db, zzTx(0, op), 100, zzChainInput(zzsym.U64("c"))))
	zzsym.Assert(err == nil, "the consensus operator can blacklist a chain")
	zzStub.param = zzSymParam(b)
	out := zzImport(db, zzTx(1), a, 100)
	zzsym.Assert(out.err == nil, "witness: the blacklisted chain may be an endpoint of the import")
}

// ZZ_C21_BlacklistNeedsOperator: BlackChain / WhiteChain witnessed by anybody but the consensus operator
// fail and change nothing.
func ZZ_C21_BlacklistNeedsOperator() {
	db := zzNewCacheDB()
	zzConsensusPool(db, 1+zzsym.Choose("validators", 4))
	op := zzOperator(db)
	c, _ := zzChainIDs("c", "unused")
	if zzsym.Bool("alreadyBlacked") {
		_, err := BlackChain(zzService(db, zzTx(0, op), 100, zzChainInput(c)))
		zzsym.Assert(err == nil, "the consensus operator can blacklist a chain")
	}
	var who common.Address
	copy(who[:], zzsym.Bytes("who", 20))
	before := zzWriteSet(db)
	var err error
	if zzsym.Bool("tryWhite") {
		_, err = WhiteChain(zzService(db, zzTx(1, who), 100, zzChainInput(c)))
	} else {
		_, err = BlackChain(zzService(db, zzTx(1, who), 100, zzChainInput(c)))
	}
	if who != op {
		zzsym.Assert(err != nil, "only the consensus operator may change the blacklist")
		zzsym.Assert(zzSameWriteSet(before, zzWriteSet(db)), "a refused blacklist change leaves the store unchanged")
		zzsym.Cover("refused")
	} else {
		zzsym.Assert(err == nil, "the consensus operator may change the blacklist")
		zzsym.Cover("operator")
	}
}

func ZZ_C21_BlacklistNeedsOperator_witness() {
	db := zzNewCacheDB()
	zzConsensusPool(db, 2)
	var who common.Address
	copy(who[:], zzsym.Bytes("who", 20))
	_, err := BlackChain(zzService(db, zzTx(1, who), 100, zzChainInput(3)))
	zzsym.Assert(err != nil, "witness: who may be the operator")
}

// ZZ_C21_BlacklistDirect (no overrides, replayed natively): BlackChain / WhiteChain / CheckIfChainBlacked
// with fully symbolic chain ids against a set model.
func ZZ_C21_BlacklistDirect() {
	T := zzsym.Param("T")
	db := zzNewCacheDB()
	zzConsensusPool(db, 1)
	op := zzOperator(db)
	var ids []uint64
	var black []bool
	for t := 0; t < T; t++ {
		c := zzsym.U64("c")
		isBlack := zzsym.Bool("black")
		var err error
		if isBlack {
			_, err = BlackChain(zzService(db, zzTx(uint32(t), op), 100, zzChainInput(c)))
		} else {
			_, err = WhiteChain(zzService(db, zzTx(uint32(t), op), 100, zzChainInput(c)))
			zzsym.Cover("white")
		}
		zzsym.Assert(err == nil, "the consensus operator can change the blacklist")
		ids = append(ids, c)
		black = append(black, isBlack)
	}
	q := zzsym.U64("q")
	want := false
	for i := range ids {
		if ids[i] == q {
			want = black[i] // the last operation on q decides
		}
	}
	got, err := scom.CheckIfChainBlacked(zzNative(db, nil), q)
	zzsym.Assert(err == nil && got == want, "a chain is blacklisted iff the last blacklist operation on it was BlackChain")
	zzsym.Cover("direct-done")
}

func ZZ_C21_BlacklistDirect_witness() {
	db := zzNewCacheDB()
	zzConsensusPool(db, 1)
	op := zzOperator(db)
	_, err := BlackChain(zzService(db, zzTx(0, op), 100, zzChainInput(zzsym.U64("c"))))
	zzsym.Assert(err == nil, "the consensus operator can change the blacklist")
	got, _ := scom.CheckIfChainBlacked(zzNative(db, nil), zzsym.U64("q"))
	zzsym.Assert(!got, "witness: q may be the blacklisted chain")
}
