package cross_chain_manager

// C21: imports are gated by the chain registry and the blacklist.
//
// Code under test (all real): ImportExTransfer, GetChainHandler, scom.CheckIfChainBlacked,
// side_chain_manager.GetSideChain/PutSideChain, utils.CheckRouterStartBlock, BlackChain, WhiteChain,
// MakeTransaction/PutRequest. The only replaced code is every chain handler's MakeDepositProposal
// (the proof verifier, third-party trie/rlp/amino code): spec "overrides" map each of them to
// zzStubProposal below, which answers what the harness chose up front (accept with a symbolic
// MakeTxParam / reject / "vote still pending").

import (
	"bytes"
	"errors"

	"github.com/polynetwork/poly/common"
	"github.com/polynetwork/poly/common/config"
	"github.com/polynetwork/poly/core/payload"
	"github.com/polynetwork/poly/core/types"
	"github.com/polynetwork/poly/native"
	scom "github.com/polynetwork/poly/native/service/cross_chain_manager/common"
	"github.com/polynetwork/poly/native/service/governance/node_manager"
	"github.com/polynetwork/poly/native/service/governance/side_chain_manager"
	"github.com/polynetwork/poly/native/service/utils"
	"github.com/polynetwork/poly/native/storage"
	"github.com/polynetwork/poly/zzsym"
)

// ---- proof-verifier stub ---------------------------------------------------------------------

var zzStub struct {
	reject  bool              // the source-chain proof does not verify
	pending bool              // vote / ripple router: quorum not reached yet, (nil, nil)
	param   *scom.MakeTxParam // the verified message otherwise
	calls   int
}

func zzStubProposal(ns *native.NativeService) (*scom.MakeTxParam, error) {
	zzStub.calls++
	if zzStub.reject {
		return nil, errors.New("zz: source proof rejected")
	}
	if zzStub.pending {
		return nil, nil
	}
	return zzStub.param, nil
}

// zzSymParam: a verified message with symbolic content; byte strings of length <= L each.
func zzSymParam(toChain uint64, L int) *scom.MakeTxParam {
	return &scom.MakeTxParam{
		TxHash:              zzsym.BytesChoose("p.txhash", L),
		CrossChainID:        zzsym.BytesChoose("p.ccid", L),
		FromContractAddress: zzsym.BytesChoose("p.from", L),
		ToChainID:           toChain,
		ToContractAddress:   zzsym.BytesChoose("p.to", L),
		Method:              "unlock",
		Args:                zzsym.BytesChoose("p.args", L),
	}
}

// ---- transaction / service construction ------------------------------------------------------

// zzTx: a real immutable transaction (hash = sha256(sha256(unsigned bytes))) with the given nonce.
func zzTx(nonce uint32, signers ...common.Address) *types.Transaction {
	mt := &types.Transaction{TxType: types.Invoke, Nonce: nonce, Payload: &payload.InvokeCode{Code: []byte{1}}, CoinType: types.ONG}
	sink := common.NewZeroCopySink(nil)
	if err := mt.Serialization(sink); err != nil {
		panic("zz: tx serialization")
	}
	tx, err := types.TransactionFromRawBytes(sink.Bytes())
	if err != nil {
		panic("zz: tx decode")
	}
	tx.SignedAddr = signers
	return tx
}

func zzService(db *storage.CacheDB, tx *types.Transaction, height uint32, input []byte) *native.NativeService {
	ns, err := native.NewNativeService(db, tx, 0, height, common.Uint256{}, 0, input, false)
	if err != nil {
		panic("zz: NewNativeService")
	}
	return ns
}

func zzEntranceInput(src uint64, height uint32) []byte {
	p := &scom.EntranceParam{SourceChainID: src, Height: height, Proof: []byte{1}, Extra: []byte{2}}
	sink := common.NewZeroCopySink(nil)
	p.Serialization(sink)
	return sink.Bytes()
}

func zzChainInput(chain uint64) []byte {
	p := &scom.BlackChainParam{ChainID: chain}
	sink := common.NewZeroCopySink(nil)
	p.Serialization(sink)
	return sink.Bytes()
}

func zzRegister(db *storage.CacheDB, chain, router uint64) {
	sc := &side_chain_manager.SideChain{ChainId: chain, Router: router, Name: "c", BlocksToWait: 1, CCMCAddress: []byte{7}}
	if err := side_chain_manager.PutSideChain(zzNative(db, nil), sc); err != nil {
		panic("zz: PutSideChain")
	}
}

func zzOperator(db *storage.CacheDB) common.Address {
	op, err := node_manager.GetCurConOperator(zzNative(db, nil))
	if err != nil {
		panic("zz: operator")
	}
	return op
}

// routers offered to the source chain: every router GetChainHandler knows and three it does not
var zzRouters = []uint64{
	utils.VOTE_ROUTER, utils.BTC_ROUTER, utils.ETH_ROUTER, utils.ONT_ROUTER, utils.NEO_ROUTER, utils.COSMOS_ROUTER,
	utils.BSC_ROUTER, utils.HECO_ROUTER, utils.QUORUM_ROUTER, utils.ZILLIQA_LEGACY_ROUTER, utils.MSC_ROUTER,
	utils.NEO3_LEGACY_ROUTER, utils.OKEX_ROUTER, 13, utils.NEO3_ROUTER, utils.POLYGON_HEIMDALL_ROUTER,
	utils.POLYGON_BOR_ROUTER, utils.ZILLIQA_ROUTER, utils.STARCOIN_ROUTER, utils.PIXIECHAIN_ROUTER, utils.HSC_ROUTER,
	utils.HARMONY_ROUTER, utils.BYTOM_ROUTER, utils.RIPPLE_ROUTER, 24,
}

// the routers that have a cross-chain handler (utils/params.go; NEO3_LEGACY and POLYGON_HEIMDALL are header-sync only)
func zzRouterSupported(r uint64) bool {
	return r <= utils.RIPPLE_ROUTER && r != 13 && r != utils.NEO3_LEGACY_ROUTER && r != utils.POLYGON_HEIMDALL_ROUTER
}

// "router active at the current height": HARMONY/HSC/BYTOM start at main-net block 18823000
func zzRouterActive(r uint64, height uint32, net uint32) bool {
	late := r == utils.HARMONY_ROUTER || r == utils.HSC_ROUTER || r == utils.BYTOM_ROUTER
	return !(late && net == config.NETWORK_ID_MAIN_NET && height < 18823000)
}

func zzIsAccountBased(r uint64) bool { return r != utils.BTC_ROUTER && r != utils.RIPPLE_ROUTER }

type zzOutcome struct {
	err      error
	ret      []byte
	hashes   int
	notifies int
	same     bool // write set unchanged
}

func zzImport(db *storage.CacheDB, tx *types.Transaction, src uint64, height uint32) zzOutcome {
	before := zzWriteSet(db)
	ns := zzService(db, tx, height, zzEntranceInput(src, height))
	ret, err := ImportExTransfer(ns)
	return zzOutcome{err: err, ret: ret, hashes: len(ns.GetCrossHashes()), notifies: len(ns.GetNotify()), same: zzSameWriteSet(before, zzWriteSet(db))}
}

// ZZ_C21_ImportGates: one import against an arbitrary registry / blacklist pre-state.
func ZZ_C21_ImportGates() {
	net := []uint32{config.NETWORK_ID_MAIN_NET, config.NETWORK_ID_TEST_NET}[zzsym.Choose("net", 2)]
	config.DefConfig.P2PNode.NetworkId = net
	db := zzNewCacheDB()
	zzConsensusPool(db, 1)
	op := zzOperator(db)

	src, dst := zzsym.U64("src"), zzsym.U64("dst")
	router := zzRouters[zzsym.Choose("router", len(zzRouters))]
	dstRouter := []uint64{utils.ETH_ROUTER, utils.ONT_ROUTER, utils.VOTE_ROUTER}[zzsym.Choose("dstRouter", 3)]
	height := zzsym.U32("height")
	srcReg, dstReg := zzsym.Bool("srcRegistered"), zzsym.Bool("dstRegistered")
	srcBlack, dstBlack := zzsym.Bool("srcBlacked"), zzsym.Bool("dstBlacked")
	same := src == dst
	if same {
		// one chain: a single registry entry and a single blacklist flag
		zzsym.Assume(srcReg == dstReg && srcBlack == dstBlack)
		// sending to oneself over a UTXO router is the BTC/Ripple MakeTransaction path (outside C21/C22)
		zzsym.Assume(zzIsAccountBased(router))
		dstRouter = router
	}

	// pre-state through the real writers
	if srcReg {
		zzRegister(db, src, router)
	}
	if dstReg && !same {
		zzRegister(db, dst, dstRouter)
	}
	if srcBlack {
		_, err := BlackChain(zzService(db, zzTx(1, op), 100, zzChainInput(src)))
		zzsym.Assert(err == nil, "the consensus operator can blacklist a chain")
	}
	if dstBlack && !same {
		_, err := BlackChain(zzService(db, zzTx(2, op), 100, zzChainInput(dst)))
		zzsym.Assert(err == nil, "the consensus operator can blacklist a chain")
	}

	zzStub.reject = zzsym.Bool("proofRejected")
	zzStub.pending = zzsym.Bool("votePending")
	// only the vote and ripple handlers answer (nil, nil) ("not enough votes yet")
	zzsym.Assume(!zzStub.pending || router == utils.VOTE_ROUTER || router == utils.RIPPLE_ROUTER)
	zzStub.param = zzSymParam(dst, 1)

	out := zzImport(db, zzTx(zzsym.U32("nonce")), src, height)

	srcOK := srcReg && !srcBlack && zzRouterSupported(router) && zzRouterActive(router, height, net)
	dstOK := dstReg && !dstBlack
	if out.err == nil {
		zzsym.Assert(bytes.Equal(out.ret, utils.BYTE_TRUE), "an accepted import returns true")
		zzsym.Assert(srcReg, "accepted import => source chain registered")
		zzsym.Assert(!srcBlack, "accepted import => source chain not blacklisted")
		zzsym.Assert(zzRouterSupported(router), "accepted import => source router has a handler")
		zzsym.Assert(zzRouterActive(router, height, net), "accepted import => source router active at the current height")
		zzsym.Assert(zzStub.calls == 1 && !zzStub.reject, "accepted import => the source proof was verified exactly once and accepted")
		if zzStub.pending {
			zzsym.Assert(out.same && out.hashes == 0, "a pending vote commits nothing")
			zzsym.Cover("pending")
			return
		}
		zzsym.Assert(dstReg, "accepted import => destination chain registered")
		zzsym.Assert(!dstBlack, "accepted import => destination chain not blacklisted")
		zzsym.Assert(out.hashes == 1 && !out.same, "accepted import commits its request")
		zzsym.Cover("accepted")
		return
	}
	zzsym.Assert(bytes.Equal(out.ret, utils.BYTE_FALSE), "a rejected import returns false")
	zzsym.Assert(out.same, "rejected import leaves the store unchanged")
	zzsym.Assert(out.hashes == 0, "rejected import commits no cross-state leaf")
	zzsym.Assert(out.notifies == 0, "rejected import emits no event")
	zzsym.Assert(srcOK || zzStub.calls == 0, "the proof verifier is not consulted for a gated source chain")
	// no over-rejection: with every gate open and the proof accepted the import goes through
	zzsym.Assert(!(srcOK && dstOK && !zzStub.reject), "an import whose chains are registered, not blacklisted and active is accepted")
	if !srcReg {
		zzsym.Cover("src-unregistered")
	} else if srcBlack {
		zzsym.Cover("src-blacked")
	} else if !zzRouterSupported(router) {
		zzsym.Cover("router-unsupported")
	} else if !zzRouterActive(router, height, net) {
		zzsym.Cover("router-inactive")
	} else if zzStub.reject {
		zzsym.Cover("proof-rejected")
	} else if !dstReg {
		zzsym.Cover("dst-unregistered")
	} else if dstBlack {
		zzsym.Cover("dst-blacked")
	}
}

func ZZ_C21_ImportGates_witness() {
	config.DefConfig.P2PNode.NetworkId = config.NETWORK_ID_MAIN_NET
	db := zzNewCacheDB()
	zzConsensusPool(db, 1)
	src, dst := zzsym.U64("src"), zzsym.U64("dst")
	zzsym.Assume(src != dst)
	router := zzRouters[zzsym.Choose("router", len(zzRouters))]
	zzRegister(db, src, router)
	zzRegister(db, dst, utils.ETH_ROUTER)
	zzStub.reject = zzsym.Bool("proofRejected")
	zzStub.param = zzSymParam(dst, 1)
	out := zzImport(db, zzTx(zzsym.U32("nonce")), src, zzsym.U32("height"))
	zzsym.Assert(out.err != nil, "witness: some import is accepted")
}

// ZZ_C21_BlackWhiteHistory: T operations out of {blacklist c, whitelist c, import a->b, import b->a,
// blacklist attempt by a non-operator} on two registered chains; the blacklist model is a pair of flags.
func ZZ_C21_BlackWhiteHistory() {
	T := zzsym.Param("T")
	config.DefConfig.P2PNode.NetworkId = config.NETWORK_ID_MAIN_NET
	db := zzNewCacheDB()
	zzConsensusPool(db, 1)
	op := zzOperator(db)
	var chain [2]uint64
	chain[0], chain[1] = zzsym.U64("a"), zzsym.U64("b")
	zzsym.Assume(chain[0] != chain[1])
	zzRegister(db, chain[0], utils.ETH_ROUTER)
	zzRegister(db, chain[1], utils.BSC_ROUTER)
	var blacked [2]bool
	imports := 0
	for t := 0; t < T; t++ {
		c := zzsym.Choose("chain", 2)
		switch zzsym.Choose("op", 4) {
		case 0:
			_, err := BlackChain(zzService(db, zzTx(uint32(t), op), 100, zzChainInput(chain[c])))
			zzsym.Assert(err == nil, "the consensus operator can blacklist a chain")
			blacked[c] = true
		case 1:
			_, err := WhiteChain(zzService(db, zzTx(uint32(t), op), 100, zzChainInput(chain[c])))
			zzsym.Assert(err == nil, "the consensus operator can whitelist a chain")
			blacked[c] = false
			zzsym.Cover("white")
		case 2:
			// somebody else tries to change the blacklist
			var who common.Address
			copy(who[:], zzsym.Bytes("who", 20))
			zzsym.Assume(who != op)
			before := zzWriteSet(db)
			var err error
			if zzsym.Bool("tryWhite") {
				_, err = WhiteChain(zzService(db, zzTx(uint32(t), who), 100, zzChainInput(chain[c])))
			} else {
				_, err = BlackChain(zzService(db, zzTx(uint32(t), who), 100, zzChainInput(chain[c])))
			}
			zzsym.Assert(err != nil, "only the consensus operator may change the blacklist")
			zzsym.Assert(zzSameWriteSet(before, zzWriteSet(db)), "a refused blacklist change leaves the store unchanged")
		case 3:
			// import chain[c] -> chain[1-c]
			zzStub.reject, zzStub.pending, zzStub.calls = false, false, 0
			zzStub.param = zzSymParam(chain[1-c], 0)
			zzStub.param.CrossChainID = []byte{byte(t)}
			out := zzImport(db, zzTx(uint32(100+t)), chain[c], 100)
			if blacked[0] || blacked[1] {
				zzsym.Assert(out.err != nil, "imports from or to a blacklisted chain are rejected until it is whitelisted")
				zzsym.Assert(out.same && out.hashes == 0, "rejected import leaves the store unchanged")
				zzsym.Cover("import-blocked")
			} else {
				zzsym.Assert(out.err == nil, "imports between chains that are not (or no longer) blacklisted are accepted")
				if imports > 0 {
					zzsym.Cover("import-restored-or-repeated")
				}
			}
			imports++
		}
		b0, err0 := scom.CheckIfChainBlacked(zzNative(db, nil), chain[0])
		b1, err1 := scom.CheckIfChainBlacked(zzNative(db, nil), chain[1])
		zzsym.Assert(err0 == nil && err1 == nil && b0 == blacked[0] && b1 == blacked[1], "CheckIfChainBlacked reports exactly the chains blacklisted and not whitelisted since")
	}
	zzsym.Cover("history-done")
}

func ZZ_C21_BlackWhiteHistory_witness() {
	config.DefConfig.P2PNode.NetworkId = config.NETWORK_ID_MAIN_NET
	db := zzNewCacheDB()
	zzConsensusPool(db, 1)
	op := zzOperator(db)
	a, b := zzsym.U64("a"), zzsym.U64("b")
	zzRegister(db, a, utils.ETH_ROUTER)
	zzRegister(db, b, utils.BSC_ROUTER)
	_, err := BlackChain(zzService(db, zzTx(0, op), 100, zzChainInput(zzsym.U64("c"))))
	zzsym.Assert(err == nil, "the consensus operator can blacklist a chain")
	zzStub.param = zzSymParam(b, 0)
	out := zzImport(db, zzTx(1), a, 100)
	zzsym.Assert(out.err == nil, "witness: the blacklisted chain may be an endpoint of the import")
}

// ZZ_C21_BlacklistDirect (no overrides, replayed natively): BlackChain / WhiteChain / CheckIfChainBlacked
// with fully symbolic chain ids against a set model.
func ZZ_C21_BlacklistDirect() {
	T := zzsym.Param("T")
	db := zzNewCacheDB()
	zzConsensusPool(db, 1)
	op := zzOperator(db)
	var ids []uint64
	var black []bool
	for t := 0; t < T; t++ {
		c := zzsym.U64("c")
		isBlack := zzsym.Bool("black")
		var err error
		if isBlack {
			_, err = BlackChain(zzService(db, zzTx(uint32(t), op), 100, zzChainInput(c)))
		} else {
			_, err = WhiteChain(zzService(db, zzTx(uint32(t), op), 100, zzChainInput(c)))
			zzsym.Cover("white")
		}
		zzsym.Assert(err == nil, "the consensus operator can change the blacklist")
		ids = append(ids, c)
		black = append(black, isBlack)
	}
	q := zzsym.U64("q")
	want := false
	for i := range ids {
		if ids[i] == q {
			want = black[i] // the last operation on q decides
		}
	}
	got, err := scom.CheckIfChainBlacked(zzNative(db, nil), q)
	zzsym.Assert(err == nil && got == want, "a chain is blacklisted iff the last blacklist operation on it was BlackChain")
	zzsym.Cover("direct-done")
}

func ZZ_C21_BlacklistDirect_witness() {
	db := zzNewCacheDB()
	zzConsensusPool(db, 1)
	op := zzOperator(db)
	_, err := BlackChain(zzService(db, zzTx(0, op), 100, zzChainInput(zzsym.U64("c"))))
	zzsym.Assert(err == nil, "the consensus operator can change the blacklist")
	got, _ := scom.CheckIfChainBlacked(zzNative(db, nil), zzsym.U64("q"))
	zzsym.Assert(!got, "witness: q may be the blacklisted chain")
}
