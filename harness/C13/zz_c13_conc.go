package ledgerstore

import (
	"github.com/ontio/ontology-crypto/keypair"
	"github.com/polynetwork/poly/common"
	"github.com/polynetwork/poly/common/config"
	vconfig "github.com/polynetwork/poly/consensus/vbft/config"
	"github.com/polynetwork/poly/core/types"
	"github.com/polynetwork/poly/zzsym"
)

// ---- two concurrent submitters, interleaved at the saving-block lock --------------------------------------
//
// The ledger's writers serialise on savingBlockSemaphore. The spec overrides getSavingBlockLock and
// tryGetSavingBlockLock by the wrappers below: when the first submitter ("A") arrives at the lock, the scheduler
// may run the second submitter ("B") to completion before A acquires it — the schedule "A is descheduled just
// before taking the lock, B runs, A resumes", which two goroutines calling SubmitBlock / AddBlock can always
// produce (consensus commit and block sync both submit the same next block). Everything A read before that
// point is then stale. Only this class of schedules (one switch, at lock acquisition) is explored.

var zzPreempt func()

func zzSavingLock(l *LedgerStoreImp) {
	if f := zzPreempt; f != nil {
		zzPreempt = nil
		f()
	}
	l.getSavingBlockLock()
}

func zzTrySavingLock(l *LedgerStoreImp) bool {
	if f := zzPreempt; f != nil {
		zzPreempt = nil
		f()
	}
	return l.tryGetSavingBlockLock()
}

func zzSuccessor(l *LedgerStoreImp, tip *types.Block, cdata uint64) *types.Block {
	h := &types.Header{Height: tip.Header.Height + 1, Timestamp: tip.Header.Timestamp + 1, ConsensusPayload: []byte("{}"),
		PrevBlockHash: tip.Hash(), ConsensusData: cdata}
	h.BlockRoot = l.GetBlockRootWithPreBlockHashes(h.Height, []common.Uint256{tip.Hash()})
	h.Bookkeepers = []keypair.PublicKey{zzsym.PubKey(0)}
	hash := h.Hash()
	zzsym.Assume(hash != common.UINT256_EMPTY)
	h.SigData = [][]byte{zzsym.Signature("sig", 0, hash[:])}
	return &types.Block{Header: h}
}

func ZZ_C13_ConcurrentSubmit() {
	config.DefConfig.Genesis.ConsensusType = "vbft"
	disk := zzNewDisk("k")
	l := zzOpen(disk)
	l.vbftPeerInfoblock[vconfig.PubkeyID(zzsym.PubKey(0))] = 1
	g := zzBlock(l, 0, common.Uint256{}, zzsym.Bytes("salt", 1))
	zzCommit(l, g, -1)
	// two valid successors of the tip: the same block twice (consensus + sync) or two different proposals
	candA := zzSuccessor(l, g, zzsym.U64("cdataA"))
	candB := candA
	if zzsym.Choose("same-block", 2) == 0 {
		candB = zzSuccessor(l, g, zzsym.U64("cdataB"))
	}
	resA, errA := l.executeBlock(candA)
	resB, errB := l.executeBlock(candB)
	if errA != nil || errB != nil {
		panic("zz: executeBlock")
	}
	viaAddA := zzsym.Choose("A-via-AddBlock", 2) == 1
	viaAddB := zzsym.Choose("B-via-AddBlock", 2) == 1
	submit := func(viaAdd bool, b *types.Block, resMerkle common.Uint256, run func() error) error { return run() }
	_ = submit

	var afterB [][2][]byte
	var afterBState [][2][]byte
	var errOfB error
	ranB := false
	zzPreempt = func() {
		ranB = true
		if viaAddB {
			errOfB = l.AddBlock(candB, resB.MerkleRoot)
		} else {
			errOfB = l.SubmitBlock(candB, resB)
		}
		afterB, afterBState = zzDump(disk.block), zzDump(disk.state)
	}
	var errOfA error
	if viaAddA {
		errOfA = l.AddBlock(candA, resA.MerkleRoot)
	} else {
		errOfA = l.SubmitBlock(candA, resA)
	}
	zzsym.Assert(ranB, "the first submitter reaches the saving lock (the second one ran)")
	zzsym.Assert(errOfB == nil, "the submitter that runs first commits its valid successor")
	zzsym.Assert(l.GetCurrentBlockHeight() == 1, "two concurrent submissions for the next height advance the ledger by exactly one block")
	zzsym.Assert(l.GetCurrentBlockHash() == candB.Hash(), "the block committed first stays the tip")
	zzsym.Assert(zzSameDump(afterB, zzDump(disk.block)) && zzSameDump(afterBState, zzDump(disk.state)),
		"a submission that lost the race for an already committed height changes nothing")
	got, e := l.GetBlockByHeight(1)
	zzsym.Assert(e == nil && got != nil && got.Hash() == candB.Hash(), "lookup by height returns the committed block")
	_ = errOfA
	zzsym.Cover("concurrent-done")
	if viaAddA {
		zzsym.Cover("loser-via-AddBlock")
	} else {
		zzsym.Cover("loser-via-SubmitBlock")
	}
}

// witness: the second submitter really runs inside the first one's call and really commits
func ZZ_C13_ConcurrentSubmit_witness() {
	config.DefConfig.Genesis.ConsensusType = "vbft"
	disk := zzNewDisk("kw")
	l := zzOpen(disk)
	l.vbftPeerInfoblock[vconfig.PubkeyID(zzsym.PubKey(0))] = 1
	g := zzBlock(l, 0, common.Uint256{}, []byte{1})
	zzCommit(l, g, -1)
	candA := zzSuccessor(l, g, zzsym.U64("cdataA"))
	candB := zzSuccessor(l, g, zzsym.U64("cdataB"))
	resA, _ := l.executeBlock(candA)
	resB, _ := l.executeBlock(candB)
	zzPreempt = func() { l.SubmitBlock(candB, resB) }
	l.SubmitBlock(candA, resA)
	zzsym.Assert(l.GetCurrentBlockHash() != candB.Hash(), "witness: the preempting submitter's block becomes the tip")
}
