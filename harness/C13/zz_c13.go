package ledgerstore

import (
	"bytes"

	"github.com/ontio/ontology-crypto/keypair"
	"github.com/polynetwork/poly/common"
	"github.com/polynetwork/poly/common/config"
	vconfig "github.com/polynetwork/poly/consensus/vbft/config"
	scom "github.com/polynetwork/poly/core/store/common"
	"github.com/polynetwork/poly/core/types"
	"github.com/polynetwork/poly/zzsym"
)

// JSON consensus payload: see harness/C14 (marker bytes under the engine, real JSON natively)
func zzVbftBlock13(header *types.Header) (*vconfig.VbftBlockInfo, error) {
	return &vconfig.VbftBlockInfo{Proposer: 1}, nil
}

func zzDump(s scom.PersistStore) [][2][]byte {
	var out [][2][]byte
	it := s.NewIterator(nil)
	for it.Next() {
		out = append(out, [2][]byte{append([]byte(nil), it.Key()...), append([]byte(nil), it.Value()...)})
	}
	it.Release()
	return out
}

func zzSameDump(a, b [][2][]byte) bool {
	if len(a) != len(b) {
		return false
	}
	for i := range a {
		if !bytes.Equal(a[i][0], b[i][0]) || !bytes.Equal(a[i][1], b[i][1]) {
			return false
		}
	}
	return true
}

// The ledger grows only by a valid successor of its tip: candidate blocks with arbitrary height, parent
// hash, timestamp and block root are submitted through the public SubmitBlock.
func ZZ_C13_OnlyValidSuccessors() {
	config.DefConfig.Genesis.ConsensusType = "vbft"
	disk := zzNewDisk("a")
	l := zzOpen(disk)
	l.vbftPeerInfoblock[vconfig.PubkeyID(zzsym.PubKey(0))] = 1
	g := zzBlock(l, 0, common.Uint256{}, zzsym.Bytes("salt", 1))
	zzCommit(l, g, -1)
	b1 := zzBlock(l, 1, g.Hash(), zzsym.Bytes("salt", 1))
	zzCommit(l, b1, -1)
	tip := b1
	payload := []byte("{}")
	// candidate
	h := &types.Header{Height: zzsym.U32("height"), Timestamp: zzsym.U32("ts"), ConsensusPayload: payload}
	wantRoot := l.GetBlockRootWithPreBlockHashes(2, []common.Uint256{tip.Hash()})
	// parent hash / block root: the interesting exact values are offered by kind (so that a model replays
	// natively, where hashes are real), plus a fully symbolic alternative
	switch zzsym.Choose("prevkind", 3) {
	case 0:
		h.PrevBlockHash = tip.Hash()
	case 1:
		h.PrevBlockHash = g.Hash()
	default:
		copy(h.PrevBlockHash[:], zzsym.Bytes("prev", 32))
	}
	switch zzsym.Choose("rootkind", 4) {
	case 0:
		h.BlockRoot = wantRoot
	case 1:
		h.BlockRoot = common.UINT256_EMPTY
	case 2:
		h.BlockRoot = tip.Header.BlockRoot
	default:
		copy(h.BlockRoot[:], zzsym.Bytes("blockroot", 32))
	}
	h.Bookkeepers = []keypair.PublicKey{zzsym.PubKey(0)}
	hash := h.Hash()
	zzsym.Assume(hash != common.UINT256_EMPTY)
	h.SigData = [][]byte{zzsym.Signature("sig", 0, hash[:])}
	cand := &types.Block{Header: h}
	res, err := l.executeBlock(cand)
	if err != nil {
		panic("zz: executeBlock")
	}
	bBefore, sBefore := zzDump(disk.block), zzDump(disk.state)
	err = l.SubmitBlock(cand, res)
	if l.GetCurrentBlockHeight() == 2 {
		zzsym.Assert(err == nil, "commit implies success")
		zzsym.Assert(h.Height == 2, "committed only at the next height")
		zzsym.Assert(h.PrevBlockHash == tip.Hash(), "committed block's parent is the current tip")
		zzsym.Assert(h.Timestamp > tip.Header.Timestamp, "committed block has a strictly later timestamp")
		zzsym.Assert(h.BlockRoot == wantRoot, "committed block's root is the accumulator root over all earlier block hashes")
		got, e := l.GetBlockByHeight(2)
		zzsym.Assert(e == nil && got != nil && got.Hash() == hash, "lookup by height returns the committed block")
		got2, e2 := l.GetBlockByHash(hash)
		zzsym.Assert(e2 == nil && got2 != nil && got2.Header.Height == 2, "lookup by hash returns the committed block")
		zzsym.Assert(l.GetCurrentBlockHash() == hash, "tip moves to the committed block")
		// re-submitting a committed height changes nothing
		b2, s2 := zzDump(disk.block), zzDump(disk.state)
		e3 := l.SubmitBlock(cand, res)
		zzsym.Assert(e3 == nil && zzSameDump(b2, zzDump(disk.block)) && zzSameDump(s2, zzDump(disk.state)) && l.GetCurrentBlockHeight() == 2, "re-submitting a committed height changes nothing")
		zzsym.Cover("committed")
	} else {
		zzsym.Assert(l.GetCurrentBlockHeight() == 1 && l.GetCurrentBlockHash() == tip.Hash(), "a rejected block leaves the tip unchanged")
		zzsym.Assert(zzSameDump(bBefore, zzDump(disk.block)) && zzSameDump(sBefore, zzDump(disk.state)), "a rejected block leaves the stores unchanged")
		zzsym.Cover("rejected")
	}
}

// completeness: a well-formed successor with any later timestamp is committed
func ZZ_C13_ValidSuccessorAccepted() {
	config.DefConfig.Genesis.ConsensusType = "vbft"
	disk := zzNewDisk("c")
	l := zzOpen(disk)
	l.vbftPeerInfoblock[vconfig.PubkeyID(zzsym.PubKey(0))] = 1
	g := zzBlock(l, 0, common.Uint256{}, zzsym.Bytes("salt", 1))
	zzCommit(l, g, -1)
	ts := zzsym.U32("ts")
	zzsym.Assume(ts > g.Header.Timestamp)
	h := &types.Header{Height: 1, Timestamp: ts, ConsensusPayload: []byte("{}"), PrevBlockHash: g.Hash(), ConsensusData: zzsym.U64("cdata")}
	h.BlockRoot = l.GetBlockRootWithPreBlockHashes(1, []common.Uint256{g.Hash()})
	h.Bookkeepers = []keypair.PublicKey{zzsym.PubKey(0)}
	hash := h.Hash()
	zzsym.Assume(hash != common.UINT256_EMPTY)
	h.SigData = [][]byte{zzsym.Signature("sig", 0, hash[:])}
	cand := &types.Block{Header: h}
	res, _ := l.executeBlock(cand)
	err := l.SubmitBlock(cand, res)
	zzsym.Assert(err == nil && l.GetCurrentBlockHeight() == 1 && l.GetCurrentBlockHash() == hash, "a valid successor is accepted")
	zzsym.Cover("valid-accepted")
}

func ZZ_C13_OnlyValidSuccessors_witness() {
	config.DefConfig.Genesis.ConsensusType = "vbft"
	disk := zzNewDisk("w")
	l := zzOpen(disk)
	l.vbftPeerInfoblock[vconfig.PubkeyID(zzsym.PubKey(0))] = 1
	g := zzBlock(l, 0, common.Uint256{}, []byte{1})
	zzCommit(l, g, -1)
	h := &types.Header{Height: 1, Timestamp: zzsym.U32("ts"), ConsensusPayload: []byte("{}"), PrevBlockHash: g.Hash()}
	h.BlockRoot = l.GetBlockRootWithPreBlockHashes(1, []common.Uint256{g.Hash()})
	h.Bookkeepers = []keypair.PublicKey{zzsym.PubKey(0)}
	hash := h.Hash()
	h.SigData = [][]byte{zzsym.Signature("sig", 0, hash[:])}
	cand := &types.Block{Header: h}
	res, _ := l.executeBlock(cand)
	l.SubmitBlock(cand, res)
	zzsym.Assert(l.GetCurrentBlockHeight() == 0, "witness: a valid successor is committed")
}
