package ont

import (
	"github.com/ontio/ontology-crypto/keypair"
	ocommon "github.com/ontio/ontology/common"
	otypes "github.com/ontio/ontology/core/types"
	"github.com/polynetwork/poly/common"
	vconfig "github.com/polynetwork/poly/consensus/vbft/config"
	cstates "github.com/polynetwork/poly/core/states"
	"github.com/polynetwork/poly/merkle"
	scom "github.com/polynetwork/poly/native/service/cross_chain_manager/common"
	"github.com/polynetwork/poly/native/service/governance/side_chain_manager"
	hscommon "github.com/polynetwork/poly/native/service/header_sync/common"
	hsont "github.com/polynetwork/poly/native/service/header_sync/ont"
	"github.com/polynetwork/poly/native/service/utils"
	"github.com/polynetwork/poly/zzsym"
)

// Handler level (two steps): a genuine cross-chain message for height 10 has been accepted and stored.
// A relayer then submits a deposit whose Merkle proof only verifies against a DIFFERENT state root,
// together with a message (any height in {10, 11}) carrying that root, any bookkeeper list and any
// signers. Acceptance requires ceil(N/3) distinct tracked signers of that message.
func ZZ_C24_OntDepositNeedsSignedRoot() {
	N := 1 + zzsym.Choose("N", zzsym.Param("NMAX"))
	B := zzsym.Choose("B", zzsym.Param("BMAX")+1)
	db := zzNewCacheDB()
	ns0 := zzNative(db, nil)
	chainID := uint64(3)
	// tracked validator set at key height 0 (storage layout of header_sync/ont)
	peers := &hsont.ConsensusPeers{ChainID: chainID, Height: 0, PeerMap: make(map[string]*hsont.Peer)}
	for i := 0; i < N; i++ {
		id := vconfig.PubkeyID(zzsym.PubKey(i))
		peers.PeerMap[id] = &hsont.Peer{Index: uint32(i + 1), PeerPubkey: id}
	}
	sink := common.NewZeroCopySink(nil)
	peers.Serialization(sink)
	db.Put(utils.ConcatKey(utils.HeaderSyncContractAddress, []byte(hscommon.CONSENSUS_PEER), utils.GetUint64Bytes(chainID), utils.GetUint32Bytes(0)), cstates.GenRawStorageItem(sink.Bytes()))
	hsont.PutKeyHeights(ns0, chainID, &hsont.KeyHeights{HeightList: []uint32{0}})
	if err := side_chain_manager.PutSideChain(ns0, &side_chain_manager.SideChain{ChainId: chainID, Router: 3, Name: "ont", BlocksToWait: 1}); err != nil {
		panic("zz: PutSideChain")
	}
	// step 1: the genuine message of height 10 is already stored
	genuine := &otypes.CrossChainMsg{Version: 0, Height: 10}
	copy(genuine.StatesRoot[:], zzsym.Bytes("genuineroot", 32))
	hsont.PutCrossChainMsg(ns0, chainID, genuine)
	// step 2: the relayer's deposit
	txp := &scom.MakeTxParam{TxHash: []byte{1}, CrossChainID: zzsym.Bytes("ccid", 2), FromContractAddress: []byte{2}, ToChainID: 7, ToContractAddress: []byte{3}, Method: "m", Args: []byte{4}}
	vs := common.NewZeroCopySink(nil)
	txp.Serialization(vs)
	value := vs.Bytes()
	forgedRoot := merkle.HashLeaf(value)
	zzsym.Assume(ocommon.Uint256(forgedRoot) != genuine.StatesRoot) // the proof does not verify against the genuine root
	ps := common.NewZeroCopySink(nil)
	ps.WriteVarBytes(value)
	msgHeight := uint32(10 + zzsym.Choose("msgheight", 2))
	forged := &otypes.CrossChainMsg{Version: 0, Height: msgHeight, StatesRoot: ocommon.Uint256(forgedRoot)}
	h := forged.Hash()
	signer := make([]int, B)
	var bks []keypair.PublicKey
	for j := 0; j < B; j++ {
		bks = append(bks, zzsym.PubKey(zzsym.Choose("bk", N+1)))
		signer[j] = zzsym.Int("signer")
		zzsym.Assume(signer[j] >= -1 && signer[j] <= N)
		forged.SigData = append(forged.SigData, zzsym.Signature("sig", signer[j], h[:]))
	}
	ms := ocommon.NewZeroCopySink(nil)
	forged.Serialization(ms)
	ms.WriteVarUint(uint64(len(bks)))
	for _, k := range bks {
		ms.WriteVarBytes(keypair.SerializePublicKey(k))
	}
	entrance := &scom.EntranceParam{SourceChainID: chainID, Height: uint32(10 + zzsym.Choose("paramheight", 2)), Proof: ps.Bytes(), RelayerAddress: []byte{9}, Extra: nil, HeaderOrCrossChainMsg: ms.Bytes()}
	es := common.NewZeroCopySink(nil)
	entrance.Serialization(es)
	_, err := NewONTHandler().MakeDepositProposal(zzNative(db, es.Bytes()))
	if err == nil {
		distinct := 0
		for v := 0; v < N; v++ {
			signed := false
			for j := 0; j < B; j++ {
				if signer[j] == v {
					signed = true
				}
			}
			if signed {
				distinct++
			}
		}
		zzsym.Assert(distinct*3 >= N, "a deposit proven against a root other than the stored one is accepted only with ceil(N/3) distinct tracked signers of that root")
		zzsym.Cover("accepted")
	} else {
		zzsym.Cover("rejected")
	}
}

func ZZ_C24_OntDepositNeedsSignedRoot_witness() {
	db := zzNewCacheDB()
	ns0 := zzNative(db, nil)
	chainID := uint64(3)
	peers := &hsont.ConsensusPeers{ChainID: chainID, Height: 0, PeerMap: make(map[string]*hsont.Peer)}
	id := vconfig.PubkeyID(zzsym.PubKey(0))
	peers.PeerMap[id] = &hsont.Peer{Index: 1, PeerPubkey: id}
	sink := common.NewZeroCopySink(nil)
	peers.Serialization(sink)
	db.Put(utils.ConcatKey(utils.HeaderSyncContractAddress, []byte(hscommon.CONSENSUS_PEER), utils.GetUint64Bytes(chainID), utils.GetUint32Bytes(0)), cstates.GenRawStorageItem(sink.Bytes()))
	hsont.PutKeyHeights(ns0, chainID, &hsont.KeyHeights{HeightList: []uint32{0}})
	side_chain_manager.PutSideChain(ns0, &side_chain_manager.SideChain{ChainId: chainID, Router: 3, Name: "ont", BlocksToWait: 1})
	txp := &scom.MakeTxParam{TxHash: []byte{1}, CrossChainID: []byte{5}, FromContractAddress: []byte{2}, ToChainID: 7, ToContractAddress: []byte{3}, Method: "m", Args: []byte{4}}
	vs := common.NewZeroCopySink(nil)
	txp.Serialization(vs)
	ps := common.NewZeroCopySink(nil)
	ps.WriteVarBytes(vs.Bytes())
	msg := &otypes.CrossChainMsg{Version: 0, Height: 11, StatesRoot: ocommon.Uint256(merkle.HashLeaf(vs.Bytes()))}
	h := msg.Hash()
	s := zzsym.Int("signer")
	zzsym.Assume(s >= -1 && s <= 1)
	msg.SigData = [][]byte{zzsym.Signature("sig", s, h[:])}
	ms := ocommon.NewZeroCopySink(nil)
	msg.Serialization(ms)
	ms.WriteVarUint(1)
	ms.WriteVarBytes(keypair.SerializePublicKey(zzsym.PubKey(0)))
	entrance := &scom.EntranceParam{SourceChainID: chainID, Height: 11, Proof: ps.Bytes(), RelayerAddress: []byte{9}, HeaderOrCrossChainMsg: ms.Bytes()}
	es := common.NewZeroCopySink(nil)
	entrance.Serialization(es)
	_, err := NewONTHandler().MakeDepositProposal(zzNative(db, es.Bytes()))
	zzsym.Assert(err != nil, "witness: a properly signed deposit is accepted")
}
