package ont

import (
	"github.com/ontio/ontology-crypto/keypair"
	ocommon "github.com/ontio/ontology/common"
	otypes "github.com/ontio/ontology/core/types"
	vconfig "github.com/polynetwork/poly/consensus/vbft/config"
	"github.com/polynetwork/poly/zzsym"
)

// A cross-chain message of the Ontology router is accepted only if at least ceil(N/3) DISTINCT tracked
// validators signed its hash. The relayer supplies the bookkeeper list; the tracked set is what
// header sync recorded (written here with the real putConsensusPeers).
func ZZ_C24_OntCrossChainMsgQuorum() {
	N := 1 + zzsym.Choose("N", zzsym.Param("NMAX"))
	B := zzsym.Choose("B", zzsym.Param("BMAX")+1)
	db := zzNewCacheDB()
	ns := zzNative(db, nil)
	chainID := uint64(3)
	peers := &ConsensusPeers{ChainID: chainID, Height: 0, PeerMap: make(map[string]*Peer)}
	for i := 0; i < N; i++ {
		id := vconfig.PubkeyID(zzsym.PubKey(i))
		// peer indices are whatever the Ontology chain assigned: any 32-bit value
		peers.PeerMap[id] = &Peer{Index: zzsym.U32("peerindex"), PeerPubkey: id}
	}
	if err := putConsensusPeers(ns, peers); err != nil {
		panic("zz: putConsensusPeers")
	}
	msg := &otypes.CrossChainMsg{Version: 0, Height: 10}
	copy(msg.StatesRoot[:], zzsym.Bytes("root", 32))
	h := msg.Hash()
	hash := ocommon.Uint256(h)
	// relayer-chosen bookkeeper list (any table key, tracked or not, repeats allowed) and signatures
	listed := make([]int, B)
	var bks []keypair.PublicKey
	signer := make([]int, B)
	for j := 0; j < B; j++ {
		listed[j] = zzsym.Choose("bk", N+1) // index N = a real key that is not tracked
		bks = append(bks, zzsym.PubKey(listed[j]))
		signer[j] = zzsym.Int("signer")
		zzsym.Assume(signer[j] >= -1 && signer[j] <= N)
		msg.SigData = append(msg.SigData, zzsym.Signature("sig", signer[j], hash[:]))
	}
	err := VerifyCrossChainMsg(ns, chainID, msg, bks)
	if err == nil {
		// count distinct tracked validators that produced one of the supplied signatures
		distinct := 0
		for v := 0; v < N; v++ {
			signed := false
			for j := 0; j < B; j++ {
				if signer[j] == v {
					signed = true
				}
			}
			if signed {
				distinct++
			}
		}
		zzsym.Assert(distinct*3 >= N, "accepted message carries valid signatures of at least ceil(N/3) distinct tracked validators")
		zzsym.Cover("accepted")
	} else {
		zzsym.Cover("rejected")
	}
}

func ZZ_C24_OntCrossChainMsgQuorum_witness() {
	db := zzNewCacheDB()
	ns := zzNative(db, nil)
	peers := &ConsensusPeers{ChainID: 3, Height: 0, PeerMap: make(map[string]*Peer)}
	id := vconfig.PubkeyID(zzsym.PubKey(0))
	peers.PeerMap[id] = &Peer{Index: 1, PeerPubkey: id}
	putConsensusPeers(ns, peers)
	msg := &otypes.CrossChainMsg{Version: 0, Height: 10}
	h := msg.Hash()
	s := zzsym.Int("signer")
	zzsym.Assume(s >= -1 && s <= 1)
	msg.SigData = append(msg.SigData, zzsym.Signature("sig", s, h[:]))
	err := VerifyCrossChainMsg(ns, 3, msg, []keypair.PublicKey{zzsym.PubKey(0)})
	zzsym.Assert(err != nil, "witness: a properly signed message is accepted")
}
