package overlaydb

import (
	"bytes"

	"github.com/polynetwork/poly/zzsym"
	"github.com/syndtr/goleveldb/leveldb/util"
)

type zzEntry struct {
	key, val []byte
	deleted  bool
}

// reference model: unordered association list with tombstones
type zzModel struct{ ents []zzEntry }

func (m *zzModel) find(k []byte) int {
	for i := range m.ents {
		if bytes.Equal(m.ents[i].key, k) {
			return i
		}
	}
	return -1
}

func (m *zzModel) put(k, v []byte) {
	e := zzEntry{key: k, val: v, deleted: len(v) == 0}
	if i := m.find(k); i >= 0 {
		m.ents[i] = e
	} else {
		m.ents = append(m.ents, e)
	}
}

// sorted returns the entries in ascending key order (insertion sort by bytes.Compare)
func (m *zzModel) sorted() []zzEntry {
	out := append([]zzEntry(nil), m.ents...)
	for i := 1; i < len(out); i++ {
		for j := i; j > 0 && bytes.Compare(out[j].key, out[j-1].key) < 0; j-- {
			out[j], out[j-1] = out[j-1], out[j]
		}
	}
	return out
}

func zzKeyBytes(name string, maxLen int) []byte {
	n := 1 + zzsym.Choose(name+".len", maxLen)
	return zzsym.Bytes(name, n)
}

func zzCheckGet(db *MemDB, m *zzModel, k []byte) {
	v, unknown := db.Get(k)
	i := m.find(k)
	if i < 0 {
		zzsym.Assert(unknown && v == nil, "Get of a never-written key reports unknown")
		return
	}
	zzsym.Assert(!unknown, "Get of a written key is known")
	if m.ents[i].deleted {
		zzsym.Assert(len(v) == 0, "Get of a deleted key returns the tombstone (no value)")
	} else {
		zzsym.Assert(bytes.Equal(v, m.ents[i].val), "Get returns the last value written")
	}
}

func zzCheckScan(db *MemDB, m *zzModel) {
	want := m.sorted()
	it := db.NewIterator(nil)
	i := 0
	for ok := it.First(); ok; ok = it.Next() {
		zzsym.Assert(i < len(want), "scan yields no extra entries")
		if i < len(want) {
			zzsym.Assert(bytes.Equal(it.Key(), want[i].key), "scan yields keys in ascending byte order")
			if want[i].deleted {
				zzsym.Assert(len(it.Value()) == 0, "scan shows tombstones as empty values")
			} else {
				zzsym.Assert(bytes.Equal(it.Value(), want[i].val), "scan yields the last value written")
			}
		}
		i++
	}
	it.Release()
	zzsym.Assert(i == len(want), "scan yields every entry")
	zzsym.Assert(db.Len() == len(want), "Len counts distinct keys ever written (tombstones included)")
	// backward scan
	it = db.NewIterator(nil)
	j := len(want) - 1
	for ok := it.Last(); ok; ok = it.Prev() {
		zzsym.Assert(j >= 0 && bytes.Equal(it.Key(), want[j].key), "backward scan yields keys in descending order")
		j--
	}
	it.Release()
	zzsym.Assert(j == -1, "backward scan yields every entry")
	// ForEach agrees
	k := 0
	db.ForEach(func(key, val []byte) {
		if k < len(want) {
			zzsym.Assert(bytes.Equal(key, want[k].key), "ForEach in key order")
		}
		k++
	})
	zzsym.Assert(k == len(want), "ForEach visits every entry")
}

func ZZ_C09_OpsAgainstModel() {
	T := zzsym.Param("T")
	KL := zzsym.Param("KL")
	db := NewMemDB(64, 8)
	m := &zzModel{}
	for t := 0; t < T; t++ {
		k := zzKeyBytes("k", KL)
		switch zzsym.Choose("op", 3) {
		case 0:
			v := zzsym.Bytes("v", 1+zzsym.Choose("v.len", 2))
			db.Put(k, v)
			m.put(k, v)
		case 1:
			db.Delete(k)
			m.put(k, nil)
			zzsym.Cover("delete")
		case 2:
			zzCheckGet(db, m, k)
		}
	}
	q := zzKeyBytes("q", KL)
	zzCheckGet(db, m, q)
	zzCheckScan(db, m)
	zzsym.Cover("ops-done")
}

// Seek / range iteration: keys within [start, limit) in order.
func ZZ_C09_RangeScan() {
	T := zzsym.Param("T")
	db := NewMemDB(64, 8)
	m := &zzModel{}
	for t := 0; t < T; t++ {
		k := zzKeyBytes("k", 1)
		if zzsym.Bool("del") {
			db.Delete(k)
			m.put(k, nil)
		} else {
			v := zzsym.Bytes("v", 1)
			db.Put(k, v)
			m.put(k, v)
		}
	}
	start := zzKeyBytes("start", 2)
	limit := zzKeyBytes("limit", 2)
	want := m.sorted()
	it := db.NewIterator(&util.Range{Start: start, Limit: limit})
	i := 0
	for i < len(want) && bytes.Compare(want[i].key, start) < 0 {
		i++
	}
	for ok := it.First(); ok; ok = it.Next() {
		zzsym.Assert(i < len(want) && bytes.Compare(want[i].key, limit) < 0, "range scan stays below the limit")
		if i < len(want) {
			zzsym.Assert(bytes.Equal(it.Key(), want[i].key), "range scan yields the model's keys in order")
		}
		i++
	}
	it.Release()
	zzsym.Assert(i >= len(want) || bytes.Compare(want[i].key, limit) >= 0, "range scan yields every key in range")
	// Seek
	s := zzKeyBytes("seek", 2)
	it = db.NewIterator(nil)
	ok := it.Seek(s)
	j := 0
	for j < len(want) && bytes.Compare(want[j].key, s) < 0 {
		j++
	}
	zzsym.Assert(ok == (j < len(want)), "Seek finds the first key >= target iff one exists")
	if ok && j < len(want) {
		zzsym.Assert(bytes.Equal(it.Key(), want[j].key), "Seek lands on the first key >= target")
	}
	it.Release()
	// Find
	rk, _, err := db.Find(s)
	zzsym.Assert((err == nil) == (j < len(want)), "Find agrees with Seek")
	if err == nil && j < len(want) {
		zzsym.Assert(bytes.Equal(rk, want[j].key), "Find returns the first key >= target")
	}
	zzsym.Cover("range-done")
}

// Reset discards everything.
func ZZ_C09_Reset() {
	db := NewMemDB(64, 8)
	k1 := zzKeyBytes("k1", 2)
	k2 := zzKeyBytes("k2", 2)
	db.Put(k1, zzsym.Bytes("v1", 1))
	db.Delete(k2)
	db.Reset()
	_, u1 := db.Get(k1)
	_, u2 := db.Get(k2)
	zzsym.Assert(u1 && u2 && db.Len() == 0 && db.Size() == 0, "Reset discards all buffered changes")
	v := zzsym.Bytes("v3", 1)
	db.Put(k2, v)
	got, u := db.Get(k2)
	zzsym.Assert(!u && bytes.Equal(got, v), "buffer usable after Reset")
	zzsym.Cover("reset-done")
}

// Reset after enough insertions to have built skip-list towers (with the code's fixed random sequence
// the 5th inserted node is the first tall one), then refill and look up: no stale link may survive.
func ZZ_C09_ResetAfterTowers() {
	K := zzsym.Param("K")
	db := NewMemDB(64, 8)
	m := &zzModel{}
	for i := 0; i < K; i++ {
		db.Put([]byte{byte('a' + i)}, zzsym.Bytes("v", 1))
	}
	db.Reset()
	zzsym.Assert(db.Len() == 0, "Reset empties the buffer")
	for i := 0; i < K; i++ {
		k := []byte{byte('a' + i)}
		v := zzsym.Bytes("w", 1)
		db.Put(k, v)
		m.put(k, v)
	}
	q := zzKeyBytes("q", 1)
	zzCheckGet(db, m, q)
	zzCheckScan(db, m)
	zzsym.Cover("reset-towers-done")
}

func ZZ_C09_witness() {
	db := NewMemDB(64, 8)
	k := zzKeyBytes("k", 2)
	db.Put(k, zzsym.Bytes("v", 1))
	q := zzKeyBytes("q", 2)
	_, unknown := db.Get(q)
	zzsym.Assert(unknown, "witness: q may equal k")
}
