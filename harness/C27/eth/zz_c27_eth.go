package eth

// C27 (Ethereum router): after any sequence of header submissions
//   (A) every stored header other than the trust root has its parent stored, a height one above its parent
//       and a total difficulty equal to its parent's plus its own;
//   (B) the canonical index is a gap-free, parent-linked chain from the trust root to the head;
//   (C) the head's total difficulty is maximal among stored headers (ties: the header seen first stays head);
//   (D) re-submitting a known header changes nothing.
//
// Real code under test: ETHHandler.SyncGenesisHeader / SyncBlockHeader (existence test, parent lookup, height
// and parent-hash checks, time / gas checks, difficulty-sum arithmetic, head selection), putGenesisBlockHeader,
// putBlockHeader, appendHeader2Main, RestructChain, GetCurrentHeader(Height), GetHeaderByHeight/Hash,
// IsHeaderExist, VerifyGaslimit, on the real CacheDB/OverlayDB/MemDB stack.
//
// Replaced through spec "overrides" (so: not replayed natively):
//   encoding/json.Unmarshal / Marshal  reflection based. Model: an exact round-trip codec. A submitted header is
//                                      the token {'H', i} naming zzSubmitted[i]; a stored record is the token
//                                      {'R', j} naming zzRecords[j] (a deep copy taken when Marshal was called).
//   (*Header).Hash                     rlp (reflection) + keccak. Model: sha256 over (parent hash, number, extra);
//                                      every header made by this harness carries a unique id in Extra, so on the
//                                      headers that occur the model is a collision-free function of the header.
//   (*ETHHandler).verifyHeader         the ethash seal; this is the property's "seal acceptance switch"
//                                      (zzSealOK). The ethash arithmetic is not examined.
//   difficultyCalculator,              return a value chosen by the harness per header (zzExpected): the header
//   makeDifficultyCalculator           carries exactly that value (or not, for the rejected kind). The rules
//   VerifyEip1559Header                themselves are the subject of C28. Because any difficulty is allowed
//                                      for any (parent, time), the explored behaviours include the real ones.
//
// Symbolic: the difficulty of the trust root and of every submitted header (any 64-bit value; totals are
// unbounded integers). Enumerated: which stored header is the parent, the kind of submission (valid, unknown
// parent, height off by one in either direction, bad seal, wrong difficulty, re-submission of a stored header),
// the rule era / root height variant.

import (
	"bytes"
	"crypto/sha256"
	"errors"
	"math/big"

	ethcommon "github.com/ethereum/go-ethereum/common"
	"github.com/ethereum/go-ethereum/core/types"
	"github.com/polynetwork/poly/common"
	"github.com/polynetwork/poly/native/service/governance/node_manager"
	scom "github.com/polynetwork/poly/native/service/header_sync/common"
	"github.com/polynetwork/poly/native/service/utils"
	"github.com/polynetwork/poly/native/storage"
	"github.com/polynetwork/poly/zzsym"
)

const zzChain = uint64(2)

var (
	zzSubmitted []Header                  // headers named by the JSON token {'H', i}
	zzRecords   []HeaderWithDifficultySum // stored records named by the JSON token {'R', j}
	zzExpected  map[uint64]*big.Int       // what the (overridden) difficulty calculators answer, per header time
	zzSealOK    bool                      // what the (overridden) seal check answers
)

// ---- spec overrides ---------------------------------------------------------------------------------

func zzNoInit() {}

func zzCloneBig(x *big.Int) *big.Int {
	if x == nil {
		return nil
	}
	return new(big.Int).Set(x)
}

func zzCloneHeader(h *Header) Header {
	c := *h
	c.Difficulty, c.Number, c.BaseFee = zzCloneBig(h.Difficulty), zzCloneBig(h.Number), zzCloneBig(h.BaseFee)
	c.Extra = append([]byte(nil), h.Extra...)
	return c
}

func zzJSONUnmarshal(data []byte, v interface{}) error {
	switch t := v.(type) {
	case *Header:
		if len(data) != 2 || data[0] != 'H' || int(data[1]) >= len(zzSubmitted) {
			return errors.New("zz: malformed header JSON")
		}
		*t = zzCloneHeader(&zzSubmitted[data[1]])
		return nil
	case *HeaderWithDifficultySum:
		if len(data) != 2 || data[0] != 'R' || int(data[1]) >= len(zzRecords) {
			return errors.New("zz: malformed stored record")
		}
		r := &zzRecords[data[1]]
		t.Header, t.DifficultySum = zzCloneHeader(&r.Header), zzCloneBig(r.DifficultySum)
		return nil
	}
	return errors.New("zz: json.Unmarshal target not modelled")
}

func zzJSONMarshal(v interface{}) ([]byte, error) {
	r, ok := v.(*HeaderWithDifficultySum)
	if !ok {
		return nil, errors.New("zz: json.Marshal value not modelled")
	}
	zzRecords = append(zzRecords, HeaderWithDifficultySum{Header: zzCloneHeader(&r.Header), DifficultySum: zzCloneBig(r.DifficultySum)})
	return []byte{'R', byte(len(zzRecords) - 1)}, nil
}

func zzHeaderHash(h *Header) ethcommon.Hash {
	b := append([]byte{}, h.ParentHash[:]...)
	b = append(b, h.Number.Bytes()...)
	b = append(b, 0xff)
	b = append(b, h.Extra...)
	return ethcommon.Hash(sha256.Sum256(b))
}

func zzVerifySeal(this *ETHHandler, header *Header, caches *Caches) error {
	if zzSealOK {
		return nil
	}
	return errors.New("zz: invalid proof-of-work")
}

// Every header made by the harness has its own timestamp, so "the difficulty the rules demand for a child of
// `parent` at time `time`" is a table indexed by the time; the harness fills it with the value the header
// carries (or a different one for the wrong-difficulty kind).
func zzDemanded(time uint64) *big.Int {
	if d, ok := zzExpected[time]; ok {
		return d
	}
	return big.NewInt(131072)
}

func zzDifficultyCalculator(time *big.Int, parent *Header) *big.Int { return zzDemanded(time.Uint64()) }

func zzMakeDifficultyCalculator(bombDelay *big.Int) func(time uint64, parent *Header) *big.Int {
	return func(time uint64, parent *Header) *big.Int { return zzDemanded(time) }
}

// EIP-1559 gas-limit/base-fee rule: accepted (C28 examines it).
func zzVerifyEip1559Header(parent, header *Header) error { return nil }

// ---- building blocks ----------------------------------------------------------------------------------

type zzNode struct {
	h      Header
	parent int // index into the node list, -1 for the trust root
	token  byte
}

var zzNextID byte

func zzReset(variant int) {
	zzSubmitted, zzRecords, zzNextID = nil, nil, 0
	zzExpected, zzSealOK = map[uint64]*big.Int{}, true
	isTest = true
	if variant == 0 {
		testLondonHeight = ^uint64(0) // legacy rules: VerifyGaslimit (real) + difficultyCalculator
	} else {
		testLondonHeight = 0 // London rules: VerifyEip1559Header + makeDifficultyCalculator
	}
}

// zzMake creates a header with a fresh identity and registers it as a submittable token.
func zzMake(parentHash ethcommon.Hash, number uint64, difficulty *big.Int) (Header, byte) {
	time := 1000 + 13*uint64(zzNextID) // later headers are younger: always above the parent's time, unique per header
	zzExpected[time] = difficulty
	h := Header{ParentHash: parentHash, UncleHash: types.EmptyUncleHash, Number: new(big.Int).SetUint64(number),
		Difficulty: difficulty, Time: time, GasLimit: 8000000, GasUsed: 21000, Extra: []byte{'z', 'z', zzNextID}}
	zzNextID++
	zzSubmitted = append(zzSubmitted, h)
	return h, byte(len(zzSubmitted) - 1)
}

func zzSymDifficulty(name string) *big.Int { return new(big.Int).SetUint64(zzsym.U64(name)) }

func zzInstallRoot(db *storage.CacheDB, number uint64) zzNode {
	var someParent ethcommon.Hash
	someParent[0] = 0xaa
	h, tok := zzMake(someParent, number, zzSymDifficulty("root.difficulty"))
	p := &scom.SyncGenesisHeaderParam{ChainID: zzChain, GenesisHeader: []byte{'H', tok}}
	sink := common.NewZeroCopySink(nil)
	p.Serialization(sink)
	op, err := node_manager.GetCurConOperator(zzNative(db, nil))
	if err != nil {
		panic("zz: operator")
	}
	if err := NewETHHandler().SyncGenesisHeader(zzNative(db, sink.Bytes(), op)); err != nil {
		panic("zz: genesis installation failed")
	}
	return zzNode{h: h, parent: -1, token: tok}
}

func zzSubmit(db *storage.CacheDB, tokens ...byte) error {
	p := &scom.SyncBlockHeaderParam{ChainID: zzChain}
	for _, t := range tokens {
		p.Headers = append(p.Headers, []byte{'H', t})
	}
	sink := common.NewZeroCopySink(nil)
	p.Serialization(sink)
	return NewETHHandler().SyncBlockHeader(zzNative(db, sink.Bytes()))
}

// ---- the invariants (A) (B) (C), observed through the contract's own getters ------------------------------

type zzStoredHeader struct {
	hash []byte
	h    *Header
	td   *big.Int
}

// zzStoredHeaders lists every HEADER_INDEX record of the chain.
func zzStoredHeaders(db *storage.CacheDB) []zzStoredHeader {
	ns := zzNative(db, nil)
	prefix := utils.ConcatKey(utils.HeaderSyncContractAddress, []byte(scom.HEADER_INDEX), utils.GetUint64Bytes(zzChain))
	var keys [][]byte
	it := db.NewIterator(prefix)
	for ok := it.First(); ok; ok = it.Next() {
		keys = append(keys, append([]byte(nil), it.Key()...))
	}
	it.Release()
	var out []zzStoredHeader
	for _, k := range keys {
		hash := k[len(prefix):]
		h, td, err := GetHeaderByHash(ns, hash, zzChain)
		zzsym.Assert(err == nil, "every HEADER_INDEX record can be read back")
		zzsym.Assert(bytes.Equal(h.Hash().Bytes(), hash), "a header is stored under its own hash")
		out = append(out, zzStoredHeader{hash: hash, h: h, td: td})
	}
	return out
}

func zzCheckInvariants(db *storage.CacheDB, root *Header) []zzStoredHeader {
	ns := zzNative(db, nil)
	rootHash := root.Hash()
	stored := zzStoredHeaders(db)

	// (A) stored headers form a tree below the trust root with consistent heights and total difficulties
	// The total-difficulty comparisons are symbolic; each clause is collected over all stored headers and decided
	// by ONE solver query: big.Int.Cmp yields -1/0/+1, so the bitwise OR of the results is 0 iff all are 0 and is
	// negative iff one of them is -1.
	rootSeen := false
	tdMismatch, headBelow := 0, 0
	for _, s := range stored {
		if bytes.Equal(s.hash, rootHash.Bytes()) {
			rootSeen = true
			zzsym.Assert(s.td.Cmp(s.h.Difficulty) == 0, "the trust root's total difficulty is its own difficulty")
			continue
		}
		exist, err := IsHeaderExist(ns, s.h.ParentHash.Bytes(), zzChain)
		zzsym.Assert(err == nil && exist, "every stored header other than the trust root has its parent stored")
		if !exist {
			continue
		}
		p, ptd, err := GetHeaderByHash(ns, s.h.ParentHash.Bytes(), zzChain)
		zzsym.Assert(err == nil, "the parent of a stored header can be read")
		zzsym.Assert(s.h.Number.Uint64() == p.Number.Uint64()+1, "a stored header's height is one above its parent's")
		tdMismatch |= s.td.Cmp(new(big.Int).Add(ptd, s.h.Difficulty))
	}
	zzsym.Assert(tdMismatch == 0, "a stored header's total difficulty is its parent's plus its own")
	zzsym.Assert(rootSeen, "the trust root stays stored")

	// (B) canonical index: gap-free and parent-linked from the trust root to the head
	height, err := GetCurrentHeaderHeight(ns, zzChain)
	zzsym.Assert(err == nil, "the current height is readable")
	head, headTD, err := GetCurrentHeader(ns, zzChain)
	zzsym.Assert(err == nil, "the current header is readable")
	zzsym.Assert(height >= root.Number.Uint64(), "the head is not below the trust root")
	zzsym.Assert(head.Number.Uint64() == height, "the head's height is the current height")
	prev, _, err := GetHeaderByHeight(ns, root.Number.Uint64(), zzChain)
	zzsym.Assert(err == nil && prev.Hash() == rootHash, "the canonical index starts at the trust root")
	for n := root.Number.Uint64() + 1; n <= height && err == nil; n++ {
		var cur *Header
		cur, _, err = GetHeaderByHeight(ns, n, zzChain)
		zzsym.Assert(err == nil, "the canonical index has no gap between the trust root and the head")
		if err != nil {
			break
		}
		zzsym.Assert(cur.Number.Uint64() == n, "the canonical entry at height n is a header of height n")
		zzsym.Assert(cur.ParentHash == prev.Hash(), "each canonical entry is the child of the entry below it")
		prev = cur
	}
	zzsym.Assert(prev.Hash() == head.Hash(), "the canonical index ends at the head")

	// (C) the head is a heaviest stored header
	for _, s := range stored {
		headBelow |= headTD.Cmp(s.td)
	}
	zzsym.Assert(headBelow >= 0, "the head's total difficulty is maximal among stored headers")
	return stored
}

// ---- main harness: one submission per call, invariants after every step ----------------------------------

const (
	zzValid = iota
	zzUnknownParent
	zzHeightTooHigh
	zzHeightTooLow
	zzBadSeal
	zzWrongDifficulty
	zzResubmit
	zzKinds
)

func zzTree(T int, witness bool) {
	variant := zzsym.Choose("variant", 2)
	zzReset(variant)
	db := zzNewCacheDB()
	zzConsensusPool(db, 1)
	rootNumber := uint64(0)
	if variant == 1 {
		rootNumber = 1000
	}
	nodes := []zzNode{zzInstallRoot(db, rootNumber)}
	root := &nodes[0].h
	zzCheckInvariants(db, root)
	zzsym.Cover("root-installed")
	headIdx := 0                       // reference model: index of the expected head
	tds := []*big.Int{root.Difficulty} // reference model: total difficulty per node
	ns := zzNative(db, nil)

	for step := 0; step < T; step++ {
		kind := zzsym.Choose("kind", zzKinds)
		if kind == zzResubmit {
			// (D) a known header again (a fresh JSON document with the same content)
			j := zzsym.Choose("which", len(nodes))
			zzSubmitted = append(zzSubmitted, zzCloneHeader(&nodes[j].h))
			before := zzWriteSet(db)
			err := zzSubmit(db, byte(len(zzSubmitted)-1))
			zzsym.Assert(err == nil, "re-submitting a known header is not an error")
			zzsym.Assert(zzSameWriteSet(before, zzWriteSet(db)), "re-submitting a known header changes nothing")
			zzsym.Cover("resubmitted")
			return // state unchanged (just asserted): the continuation is the shorter history
		}
		var pHash ethcommon.Hash
		pi := -1
		number := uint64(5)
		if kind == zzUnknownParent {
			pHash[0], pHash[1] = 0xee, byte(step)
		} else {
			if kind == zzBadSeal || kind == zzWrongDifficulty {
				pi = headIdx // these refusals do not depend on the position in the tree: one position is explored
			} else {
				pi = zzsym.Choose("parent", len(nodes))
			}
			pHash = nodes[pi].h.Hash()
			number = nodes[pi].h.Number.Uint64() + 1
		}
		if kind == zzHeightTooHigh {
			number++
		}
		if kind == zzHeightTooLow {
			number--
		}
		d := zzSymDifficulty("difficulty")
		h, tok := zzMake(pHash, number, d)
		zzSealOK = kind != zzBadSeal
		if kind == zzWrongDifficulty {
			zzExpected[h.Time] = new(big.Int).Add(d, big.NewInt(1))
		}
		before := zzWriteSet(db)
		err := zzSubmit(db, tok)
		zzSealOK = true
		stored := zzCheckInvariants(db, root)

		if kind != zzValid {
			exist, _ := IsHeaderExist(ns, h.Hash().Bytes(), zzChain)
			zzsym.Assert(!exist, "a header with an unknown parent, a wrong height, a bad seal or a wrong difficulty is not stored")
			zzsym.Assert(len(stored) == len(nodes), "a refused header adds no record")
			if err != nil && zzSameWriteSet(before, zzWriteSet(db)) {
				zzsym.Cover("refused-unchanged")
			}
			return // nothing was stored: the continuation is the shorter history
		}
		if err != nil {
			zzsym.Cover("valid-header-refused") // not a C27 matter (safety property); the mandatory covers below guard against vacuity
			return
		}
		nodes = append(nodes, zzNode{h: h, parent: pi, token: tok})
		tds = append(tds, new(big.Int).Add(tds[pi], d))
		zzsym.Assert(len(stored) == len(nodes), "exactly the accepted headers are stored")

		// reference model of the head: a child of the head becomes head; a header elsewhere becomes head iff
		// it is strictly heavier (ties: first seen stays)
		me := len(nodes) - 1
		prevHead := headIdx
		if pi == headIdx {
			headIdx = me
			zzsym.Cover("extends-head")
		} else if tds[me].Cmp(tds[headIdx]) > 0 {
			headIdx = me
			if nodes[me].h.Number.Uint64() > nodes[prevHead].h.Number.Uint64() {
				zzsym.Cover("reorg-to-longer-fork")
			} else if nodes[me].h.Number.Uint64() < nodes[prevHead].h.Number.Uint64() {
				zzsym.Cover("reorg-to-shorter-fork")
			} else {
				zzsym.Cover("reorg-same-height")
			}
		} else {
			zzsym.Cover("fork-kept-aside")
		}
		cur, curTD, err := GetCurrentHeader(ns, zzChain)
		zzsym.Assert(err == nil && cur.Hash() == nodes[headIdx].h.Hash(), "the head is the heaviest header, the first seen among equally heavy ones")
		zzsym.Assert(curTD.Cmp(tds[headIdx]) == 0, "the head's recorded total difficulty is the sum along its branch")
		if witness && step == 1 {
			zzsym.Assert(headIdx == me, "witness: the latest header is always the head (must be violable: a light fork stays aside)")
		}
	}
	zzsym.Cover("all-steps")
}

func ZZ_C27_EthHeaviestChain() { zzTree(zzsym.Param("T"), false) }

func ZZ_C27_EthHeaviestChain_witness() { zzTree(2, true) }

// ---- batch harness: all headers of a tree in ONE SyncBlockHeader call ----------------------------------------

func ZZ_C27_EthBatch() {
	T := zzsym.Param("T")
	zzReset(0)
	db := zzNewCacheDB()
	zzConsensusPool(db, 1)
	nodes := []zzNode{zzInstallRoot(db, 0)}
	root := &nodes[0].h
	var tokens []byte
	for i := 0; i < T; i++ {
		pi := zzsym.Choose("parent", len(nodes)) // the trust root or an earlier header of the same batch
		h, tok := zzMake(nodes[pi].h.Hash(), nodes[pi].h.Number.Uint64()+1, zzSymDifficulty("difficulty"))
		nodes = append(nodes, zzNode{h: h, parent: pi, token: tok})
		tokens = append(tokens, tok)
	}
	if zzsym.Choose("repeat", 2) == 1 {
		tokens = append(tokens, tokens[0]) // the batch names its first header twice
	}
	err := zzSubmit(db, tokens...)
	if err != nil {
		zzsym.Cover("batch-refused")
		return
	}
	stored := zzCheckInvariants(db, root)
	zzsym.Assert(len(stored) == len(nodes), "exactly the trust root and the batch members are stored")
	zzsym.Cover("batch-stored")
}
