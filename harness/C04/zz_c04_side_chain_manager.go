package side_chain_manager

// C04 (side_chain_manager): call parameters and side-chain records decode back to the value that was encoded,
// records holding a map encode to the same bytes whatever the map iteration order, and the decoders never
// panic on arbitrary bytes. Types with a math/big field (UpdateFeeParam, Fee, FeeInfo, RippleExtraInfo) take
// part only in the no-panic harness (big.Int.SetBytes replaced by a no-op).

import (
	"bytes"
	"math/big"

	"github.com/polynetwork/poly/common"
	"github.com/polynetwork/poly/zzsym"
)

func zzC04Addr(tag string) common.Address {
	var a common.Address
	copy(a[:], zzsym.Bytes(tag, common.ADDR_LEN))
	return a
}

// zzC04Len gives field number i its length under length pattern pat: the patterns 0..L rotate the lengths
// 0..L over the fields, so every field takes every length and neighbouring fields always differ in length.
// A negative pattern gives every field the full length L (used for map keys in the map-order harnesses, so
// that the order of two keys is decided by their symbolic content).
func zzC04Len(pat, i, L int) int {
	if pat < 0 {
		return L
	}
	return (pat + i) % (L + 1)
}

// zzC04Enc encodes with a fresh sink.
func zzC04Enc(ser func(*common.ZeroCopySink)) []byte {
	sink := common.NewZeroCopySink(nil)
	ser(sink)
	return sink.Bytes()
}

// zzC04Dec decodes raw and checks the two structural clauses shared by every type:
// the decoder accepts what the encoder wrote and consumes exactly those bytes.
func zzC04Dec(raw []byte, de func(*common.ZeroCopySource) error) bool {
	src := common.NewZeroCopySource(raw)
	err := de(src)
	zzsym.Assert(err == nil, "the decoder accepts every encoding produced by the encoder")
	if err != nil {
		return false
	}
	zzsym.Assert(src.Len() == 0, "the decoder consumes exactly the encoded bytes")
	return true
}

// zzC04Decoder names one decoder under test; B_<name> in the spec is the buffer bound used for it.
type zzC04Decoder struct {
	name string
	dec  func(*common.ZeroCopySource) error
}

// zzC04NoPanic: arbitrary bytes (any length up to B_<type>) are accepted or rejected, never a panic, and the
// decoder never moves past the end of the buffer. ONLY >= 0 restricts the run to one decoder (tuning aid).
func zzC04NoPanic(ds []zzC04Decoder) {
	i := zzsym.Param("ONLY")
	if i < 0 {
		i = zzsym.Choose("type", len(ds))
	}
	d := ds[i]
	buf := zzsym.BytesUpTo("buf", zzsym.Param("B_"+d.name))
	if first := zzsym.Param("FIRST"); first >= 0 {
		// input class "buffers whose byte at offset AT is FIRST" (e.g. 0xFF where a count starts: a 9-byte count
		// prefix), used where the fully arbitrary buffer of that size has too many paths
		at := zzsym.Param("AT")
		zzsym.Assume(len(buf) > at && buf[at] == byte(first))
	}
	src := common.NewZeroCopySource(buf)
	err := d.dec(src)
	zzsym.Assert(src.Pos() <= uint64(len(buf)), "the decoder never reads past the buffer")
	if err == nil {
		zzsym.Cover("decoded-" + d.name)
	} else {
		zzsym.Cover("rejected-" + d.name)
	}
}

func zzC04BytesList(tag string, n, pat, L int) [][]byte {
	var l [][]byte
	for i := 0; i < n; i++ {
		l = append(l, zzsym.Bytes(tag, zzC04Len(pat, i+1, L)))
	}
	return l
}

func zzC04AssertSameList(a, b [][]byte) {
	zzsym.Assert(len(a) == len(b), "byte-string list round trip: same number of elements")
	for i := range a {
		if i < len(b) {
			zzsym.Assert(bytes.Equal(a[i], b[i]), "byte-string list round trip: element unchanged")
		}
	}
}

// zzC04BigSetBytes replaces (*big.Int).SetBytes in this spec: math/big is not modelled by the engine; the
// no-panic harness never looks at the numeric value.
func zzC04BigSetBytes(z *big.Int, buf []byte) *big.Int { return z }

// zzC04VarU64 is a symbolic uint64 confined to one of the four size classes of the variable-length integer
// encoding (1, 3, 5 or 9 bytes). The class of field i under magnitude pattern mag is (mag+i)%4, so over the four
// patterns every field takes every class and neighbouring fields differ; the encoder/decoder then do not fork per field.
func zzC04VarU64(tag string, mag, i int) uint64 {
	v := zzsym.U64(tag)
	switch (mag + i) % 4 {
	case 0:
		zzsym.Assume(v < 0xFD)
	case 1:
		zzsym.Assume(v >= 0xFD && v <= 0xFFFF)
	case 2:
		zzsym.Assume(v > 0xFFFF && v <= 0xFFFFFFFF)
	default:
		zzsym.Assume(v > 0xFFFFFFFF)
	}
	return v
}

// zzC04U64Map: n entries; key i lies in size class mag+step*i (step 0: all keys in one class).
func zzC04U64Map(tag string, n, pat, L, mag, step int) map[uint64][]byte {
	m := make(map[uint64][]byte)
	for i := 0; i < n; i++ {
		m[zzC04VarU64(tag+".key", mag, step*i)] = zzsym.Bytes(tag+".val", zzC04Len(pat, i, L))
	}
	return m
}

func zzC04AssertSameU64Map(a, b map[uint64][]byte) {
	zzsym.Assert(len(a) == len(b), "uint64-keyed map round trip: same number of entries")
	for k, v := range a {
		w, ok := b[k]
		zzsym.Assert(ok && bytes.Equal(v, w), "uint64-keyed map round trip: entry present and unchanged")
	}
}

func zzC04StrMap(tag string, n, pat, L int) map[string][]byte {
	m := make(map[string][]byte)
	for i := 0; i < n; i++ {
		m[string(zzsym.Bytes(tag+".key", zzC04Len(pat, i, L)))] = zzsym.Bytes(tag+".val", zzC04Len(pat, i+1, L))
	}
	return m
}

func zzC04EncE(ser func(*common.ZeroCopySink) error) func(*common.ZeroCopySink) {
	return func(s *common.ZeroCopySink) {
		zzsym.Assert(ser(s) == nil, "the encoder reports no error")
	}
}

// ZZ_C04_SCM_RoundTrip: decode(encode(v)) == v and nothing is left over.
func ZZ_C04_SCM_RoundTrip() {
	L := zzsym.Param("L")
	N := zzsym.Param("N")
	pat := zzsym.Choose("pat", L+1)
	mag := zzsym.Choose("mag", 4)
	switch zzsym.Choose("type", 10) {
	case 0:
		p := &RegisterSideChainParam{Address: zzC04Addr("addr"), ChainId: zzC04VarU64("chain", mag, 0), Router: zzC04VarU64("router", mag, 1),
			Name: string(zzsym.Bytes("name", zzC04Len(pat, 0, L))), BlocksToWait: zzC04VarU64("wait", mag, 2),
			CCMCAddress: zzsym.Bytes("ccmc", zzC04Len(pat, 1, L)), ExtraInfo: zzsym.Bytes("extra", zzC04Len(pat, 2, L))}
		// the decoder deliberately rejects BlocksToWait == 0 ("minimal value of BlocksToWait is 1")
		zzsym.Assume(p.BlocksToWait != 0)
		q := new(RegisterSideChainParam)
		if zzC04Dec(zzC04Enc(zzC04EncE(p.Serialization)), q.Deserialization) {
			zzsym.Assert(q.Address == p.Address && q.ChainId == p.ChainId && q.Router == p.Router && q.Name == p.Name && q.BlocksToWait == p.BlocksToWait,
				"RegisterSideChainParam round trip: address, chain id, router, name, blocks to wait")
			zzsym.Assert(bytes.Equal(q.CCMCAddress, p.CCMCAddress) && bytes.Equal(q.ExtraInfo, p.ExtraInfo), "RegisterSideChainParam round trip: CCMC address and extra info")
			zzsym.Cover("rt-RegisterSideChainParam")
		}
	case 1:
		p := &ChainidParam{Chainid: zzC04VarU64("chain", mag, 0), Address: zzC04Addr("addr")}
		q := new(ChainidParam)
		if zzC04Dec(zzC04Enc(p.Serialization), q.Deserialization) {
			zzsym.Assert(*q == *p, "ChainidParam round trip")
			zzsym.Cover("rt-ChainidParam")
		}
	case 2:
		n := zzsym.Choose("n", N+1)
		p := &RegisterRedeemParam{RedeemChainID: zzC04VarU64("rchain", mag, 0), ContractChainID: zzC04VarU64("cchain", mag, 1), Redeem: zzsym.Bytes("redeem", zzC04Len(pat, 0, L)),
			CVersion: zzC04VarU64("cver", mag, 2), ContractAddress: zzsym.Bytes("contract", zzC04Len(pat, 4, L)), Signs: zzC04BytesList("sign", n, pat, L)}
		q := new(RegisterRedeemParam)
		if zzC04Dec(zzC04Enc(p.Serialization), q.Deserialization) {
			zzsym.Assert(q.RedeemChainID == p.RedeemChainID && q.ContractChainID == p.ContractChainID && q.CVersion == p.CVersion &&
				bytes.Equal(q.Redeem, p.Redeem) && bytes.Equal(q.ContractAddress, p.ContractAddress), "RegisterRedeemParam round trip: scalar fields, redeem script, contract")
			zzC04AssertSameList(p.Signs, q.Signs)
			if n == N {
				zzsym.Cover("rt-RegisterRedeemParam-full")
			}
			zzsym.Cover("rt-RegisterRedeemParam")
		}
	case 3:
		p := &BtcTxParamDetial{PVersion: zzC04VarU64("pver", mag, 1), FeeRate: zzC04VarU64("feerate", mag, 2), MinChange: zzC04VarU64("minchange", mag, 3)}
		q := new(BtcTxParamDetial)
		if zzC04Dec(zzC04Enc(p.Serialization), q.Deserialization) {
			zzsym.Assert(*q == *p, "BtcTxParamDetial round trip")
			zzsym.Cover("rt-BtcTxParamDetial")
		}
	case 4:
		n := zzsym.Choose("n", N+1)
		p := &BtcTxParam{Redeem: zzsym.Bytes("redeem", zzC04Len(pat, 0, L)), RedeemChainId: zzC04VarU64("rchain", mag, 0), Sigs: zzC04BytesList("sig", n, pat, L),
			Detial: &BtcTxParamDetial{PVersion: zzC04VarU64("pver", mag, 1), FeeRate: zzC04VarU64("feerate", mag, 2), MinChange: zzC04VarU64("minchange", mag, 3)}}
		q := new(BtcTxParam)
		if zzC04Dec(zzC04Enc(p.Serialization), q.Deserialization) {
			zzsym.Assert(bytes.Equal(q.Redeem, p.Redeem) && q.RedeemChainId == p.RedeemChainId && *q.Detial == *p.Detial, "BtcTxParam round trip: redeem script, chain id, detail")
			zzC04AssertSameList(p.Sigs, q.Sigs)
			if n == N {
				zzsym.Cover("rt-BtcTxParam-full")
			}
			zzsym.Cover("rt-BtcTxParam")
		}
	case 5:
		n := zzsym.Choose("nasset", N+1)
		m := N - n // complementary sizes: both maps take every size 0..N
		p := &RegisterAssetParam{OperatorAddress: zzC04Addr("addr"), ChainId: zzC04VarU64("chain", mag, 3), AssetMap: zzC04U64Map("asset", n, pat, L, mag, 1), LockProxyMap: zzC04U64Map("proxy", m, pat+1, L, mag+1, 1)}
		raw := zzC04Enc(p.Serialization)
		q := new(RegisterAssetParam)
		if zzC04Dec(raw, q.Deserialization) {
			zzsym.Assert(q.OperatorAddress == p.OperatorAddress && q.ChainId == p.ChainId, "RegisterAssetParam round trip: operator and chain id")
			zzC04AssertSameU64Map(p.AssetMap, q.AssetMap)
			zzC04AssertSameU64Map(p.LockProxyMap, q.LockProxyMap)
			zzsym.Assert(bytes.Equal(zzC04Enc(q.Serialization), raw), "RegisterAssetParam: re-encoding the decoded value gives the same bytes")
			if len(p.AssetMap) == N || len(p.LockProxyMap) == N {
				zzsym.Cover("rt-RegisterAssetParam-full")
			}
			zzsym.Cover("rt-RegisterAssetParam")
		}
	case 6:
		n := zzsym.Choose("nasset", N+1)
		m := N - n
		p := &AssetBind{AssetMap: zzC04U64Map("asset", n, pat, L, mag, 1), LockProxyMap: zzC04U64Map("proxy", m, pat+1, L, mag+1, 1)}
		raw := zzC04Enc(p.Serialization)
		q := new(AssetBind)
		if zzC04Dec(raw, q.Deserialization) {
			zzC04AssertSameU64Map(p.AssetMap, q.AssetMap)
			zzC04AssertSameU64Map(p.LockProxyMap, q.LockProxyMap)
			zzsym.Assert(bytes.Equal(zzC04Enc(q.Serialization), raw), "AssetBind: re-encoding the decoded value gives the same bytes")
			if len(p.AssetMap) == N || len(p.LockProxyMap) == N {
				zzsym.Cover("rt-AssetBind-full")
			}
			zzsym.Cover("rt-AssetBind")
		}
	case 7:
		p := &SideChain{Address: zzC04Addr("addr"), ChainId: zzC04VarU64("chain", mag, 0), Router: zzC04VarU64("router", mag, 1),
			Name: string(zzsym.Bytes("name", zzC04Len(pat, 0, L))), BlocksToWait: zzC04VarU64("wait", mag, 2),
			CCMCAddress: zzsym.Bytes("ccmc", zzC04Len(pat, 1, L)), ExtraInfo: zzsym.Bytes("extra", zzC04Len(pat, 2, L))}
		q := new(SideChain)
		if zzC04Dec(zzC04Enc(zzC04EncE(p.Serialization)), q.Deserialization) {
			zzsym.Assert(q.Address == p.Address && q.ChainId == p.ChainId && q.Router == p.Router && q.Name == p.Name && q.BlocksToWait == p.BlocksToWait,
				"SideChain round trip: address, chain id, router, name, blocks to wait")
			zzsym.Assert(bytes.Equal(q.CCMCAddress, p.CCMCAddress) && bytes.Equal(q.ExtraInfo, p.ExtraInfo), "SideChain round trip: CCMC address and extra info")
			zzsym.Cover("rt-SideChain")
		}
	case 8:
		n := zzsym.Choose("n", N+1)
		p := &BindSignInfo{BindSignInfo: zzC04StrMap("sign", n, pat, L)}
		raw := zzC04Enc(p.Serialization)
		q := new(BindSignInfo)
		if zzC04Dec(raw, q.Deserialization) {
			zzsym.Assert(len(q.BindSignInfo) == len(p.BindSignInfo), "BindSignInfo round trip: same number of signers")
			for k, v := range p.BindSignInfo {
				w, ok := q.BindSignInfo[k]
				zzsym.Assert(ok && bytes.Equal(v, w), "BindSignInfo round trip: signature present and unchanged")
			}
			zzsym.Assert(bytes.Equal(zzC04Enc(q.Serialization), raw), "BindSignInfo: re-encoding the decoded value gives the same bytes")
			if len(p.BindSignInfo) == N {
				zzsym.Cover("rt-BindSignInfo-full")
			}
			zzsym.Cover("rt-BindSignInfo")
		}
	case 9:
		p := &ContractBinded{Contract: zzsym.Bytes("contract", zzC04Len(pat, 0, L)), Ver: zzsym.U64("ver")}
		q := new(ContractBinded)
		if zzC04Dec(zzC04Enc(p.Serialization), q.Deserialization) {
			zzsym.Assert(bytes.Equal(q.Contract, p.Contract) && q.Ver == p.Ver, "ContractBinded round trip")
			zzsym.Cover("rt-ContractBinded")
		}
	}
}

func ZZ_C04_SCM_RoundTrip_witness() {
	p := &ContractBinded{Contract: zzsym.Bytes("contract", 2), Ver: zzsym.U64("ver")}
	q := new(ContractBinded)
	if zzC04Dec(zzC04Enc(p.Serialization), q.Deserialization) {
		zzsym.Assert(q.Ver != 7 || q.Contract[1] != 0x55, "witness: a version-7 binding round-trips")
	}
}

// ZZ_C04_SCM_MapOrder: run under all_map_orders. The same value is encoded twice; every pair of Go map
// iteration orders is explored and the bytes must be identical.
func ZZ_C04_SCM_MapOrder() {
	L := zzsym.Param("L")
	N := zzsym.Param("N")
	switch zzsym.Choose("type", 3) {
	case 0:
		// all keys in one size class (chosen by mag): the order of two keys is decided by their symbolic value
		mag := zzsym.Choose("mag", 4)
		p := &RegisterAssetParam{OperatorAddress: zzC04Addr("addr"), ChainId: 7, AssetMap: zzC04U64Map("asset", N, 0, L, mag, 0), LockProxyMap: zzC04U64Map("proxy", N, 1, L, mag, 0)}
		a := append([]byte(nil), zzC04Enc(p.Serialization)...)
		zzsym.Assert(bytes.Equal(a, zzC04Enc(p.Serialization)), "RegisterAssetParam encodes to the same bytes regardless of map iteration order")
		if len(p.AssetMap) == N && len(p.LockProxyMap) == N {
			zzsym.Cover("order-RegisterAssetParam")
		}
	case 1:
		mag := zzsym.Choose("mag", 4)
		p := &AssetBind{AssetMap: zzC04U64Map("asset", N, 0, L, mag, 0), LockProxyMap: zzC04U64Map("proxy", N, 1, L, mag, 0)}
		a := append([]byte(nil), zzC04Enc(p.Serialization)...)
		zzsym.Assert(bytes.Equal(a, zzC04Enc(p.Serialization)), "AssetBind encodes to the same bytes regardless of map iteration order")
		if len(p.AssetMap) == N && len(p.LockProxyMap) == N {
			zzsym.Cover("order-AssetBind")
		}
	case 2:
		NB := zzsym.Param("NB") // own bound: one map instead of two, so one more entry is affordable
		p := &BindSignInfo{BindSignInfo: zzC04StrMap("sign", NB, -1, L)}
		a := append([]byte(nil), zzC04Enc(p.Serialization)...)
		zzsym.Assert(bytes.Equal(a, zzC04Enc(p.Serialization)), "BindSignInfo encodes to the same bytes regardless of map iteration order")
		if len(p.BindSignInfo) == NB {
			zzsym.Cover("order-BindSignInfo")
		}
	}
}

func ZZ_C04_SCM_MapOrder_witness() {
	m := map[uint64][]byte{1: nil, 2: nil}
	first := uint64(0)
	for k := range m {
		first = k
		break
	}
	zzsym.Assert(first == 1, "witness: iteration can start at the second key")
}

func zzC04SCMDecoders() []zzC04Decoder {
	return []zzC04Decoder{
		{"RegisterSideChainParam", new(RegisterSideChainParam).Deserialization},
		{"ChainidParam", new(ChainidParam).Deserialization},
		{"RegisterRedeemParam", new(RegisterRedeemParam).Deserialization},
		{"BtcTxParamDetial", new(BtcTxParamDetial).Deserialization},
		{"RegisterAssetParam", new(RegisterAssetParam).Deserialization},
		{"AssetBind", new(AssetBind).Deserialization},
		{"SideChain", new(SideChain).Deserialization},
		{"BindSignInfo", new(BindSignInfo).Deserialization},
		{"ContractBinded", new(ContractBinded).Deserialization},
		{"UpdateFeeParam", new(UpdateFeeParam).Deserialization},
		{"Fee", new(Fee).Deserialization},
		{"FeeInfo", new(FeeInfo).Deserialization},
	}
}

func ZZ_C04_SCM_DecodeNoPanic() { zzC04NoPanic(zzC04SCMDecoders()) }

func ZZ_C04_SCM_DecodeNoPanic_witness() {
	buf := zzsym.BytesUpTo("buf", 12)
	p := new(ContractBinded)
	err := p.Deserialization(common.NewZeroCopySource(buf))
	zzsym.Assert(err != nil || p.Ver != 0x1234 || len(p.Contract) != 2, "witness: some buffer decodes to a version-0x1234 binding of a two-byte contract")
}

// The two decoders below allocate make([][]byte, l) with l read from the input: kept in harnesses of their own.
// CLASS=1 restricts the input to buffers that start with an empty redeem script (00) and a one-byte chain id,
// i.e. the signature count starts at offset 2 (combined with AT=2, FIRST=255: a 9-byte count).
func ZZ_C04_SCM_DecodeNoPanic_BtcTxParam() {
	class := zzsym.Param("CLASS")
	zzC04NoPanic([]zzC04Decoder{{"BtcTxParam", func(src *common.ZeroCopySource) error {
		if b := src.Bytes(); class == 1 {
			zzsym.Assume(len(b) >= 2 && b[0] == 0 && b[1] < 0xFD)
		}
		return new(BtcTxParam).Deserialization(src)
	}}})
}

func ZZ_C04_SCM_DecodeNoPanic_RippleExtraInfo() {
	zzC04NoPanic([]zzC04Decoder{{"RippleExtraInfo", new(RippleExtraInfo).Deserialization}})
}

func ZZ_C04_SCM_DecodeNoPanic_BtcTxParam_witness() {
	buf := zzsym.BytesUpTo("buf", 7)
	p := new(BtcTxParam)
	err := p.Deserialization(common.NewZeroCopySource(buf))
	zzsym.Assert(err != nil || len(p.Sigs) != 1 || p.Detial.FeeRate != 9, "witness: some buffer decodes to a one-signature parameter with fee rate 9")
}

func ZZ_C04_SCM_DecodeNoPanic_RippleExtraInfo_witness() {
	buf := zzsym.BytesUpTo("buf", 48)
	p := new(RippleExtraInfo)
	err := p.Deserialization(common.NewZeroCopySource(buf))
	zzsym.Assert(err != nil || p.Quorum != 3 || len(p.Pks) != 1, "witness: some buffer decodes to a quorum-3 record with one key")
}
