package common

// C04 (cross_chain_manager/common): entrance parameters and outbound request records decode back to the value
// that was encoded, and the decoders never panic on arbitrary bytes.

import (
	"bytes"

	ethcommon "github.com/ethereum/go-ethereum/common"
	"github.com/polynetwork/poly/common"
	"github.com/polynetwork/poly/zzsym"
)

func zzC04Addr(tag string) common.Address {
	var a common.Address
	copy(a[:], zzsym.Bytes(tag, common.ADDR_LEN))
	return a
}

// zzC04Len gives field number i its length under length pattern pat: the patterns 0..L rotate the lengths
// 0..L over the fields, so every field takes every length and neighbouring fields always differ in length.
// A negative pattern gives every field the full length L (used for map keys in the map-order harnesses, so
// that the order of two keys is decided by their symbolic content).
func zzC04Len(pat, i, L int) int {
	if pat < 0 {
		return L
	}
	return (pat + i) % (L + 1)
}

// zzC04Enc encodes with a fresh sink.
func zzC04Enc(ser func(*common.ZeroCopySink)) []byte {
	sink := common.NewZeroCopySink(nil)
	ser(sink)
	return sink.Bytes()
}

// zzC04Dec decodes raw and checks the two structural clauses shared by every type:
// the decoder accepts what the encoder wrote and consumes exactly those bytes.
func zzC04Dec(raw []byte, de func(*common.ZeroCopySource) error) bool {
	src := common.NewZeroCopySource(raw)
	err := de(src)
	zzsym.Assert(err == nil, "the decoder accepts every encoding produced by the encoder")
	if err != nil {
		return false
	}
	zzsym.Assert(src.Len() == 0, "the decoder consumes exactly the encoded bytes")
	return true
}

// zzC04Decoder names one decoder under test; B_<name> in the spec is the buffer bound used for it.
type zzC04Decoder struct {
	name string
	dec  func(*common.ZeroCopySource) error
}

// zzC04NoPanic: arbitrary bytes (any length up to B_<type>) are accepted or rejected, never a panic, and the
// decoder never moves past the end of the buffer. ONLY >= 0 restricts the run to one decoder (tuning aid).
func zzC04NoPanic(ds []zzC04Decoder) {
	i := zzsym.Param("ONLY")
	if i < 0 {
		i = zzsym.Choose("type", len(ds))
	}
	d := ds[i]
	buf := zzsym.BytesUpTo("buf", zzsym.Param("B_"+d.name))
	if first := zzsym.Param("FIRST"); first >= 0 {
		// input class "buffers whose byte at offset AT is FIRST" (e.g. 0xFF where a count starts: a 9-byte count
		// prefix), used where the fully arbitrary buffer of that size has too many paths
		at := zzsym.Param("AT")
		zzsym.Assume(len(buf) > at && buf[at] == byte(first))
	}
	src := common.NewZeroCopySource(buf)
	err := d.dec(src)
	zzsym.Assert(src.Pos() <= uint64(len(buf)), "the decoder never reads past the buffer")
	if err == nil {
		zzsym.Cover("decoded-" + d.name)
	} else {
		zzsym.Cover("rejected-" + d.name)
	}
}

func zzC04BytesList(tag string, n, pat, L int) [][]byte {
	var l [][]byte
	for i := 0; i < n; i++ {
		l = append(l, zzsym.Bytes(tag, zzC04Len(pat, i+1, L)))
	}
	return l
}

func zzC04AssertSameList(a, b [][]byte) {
	zzsym.Assert(len(a) == len(b), "byte-string list round trip: same number of elements")
	for i := range a {
		if i < len(b) {
			zzsym.Assert(bytes.Equal(a[i], b[i]), "byte-string list round trip: element unchanged")
		}
	}
}

func zzC04MakeTx(pat, L int) *MakeTxParam {
	return &MakeTxParam{
		TxHash:              zzsym.Bytes("txhash", zzC04Len(pat, 0, L)),
		CrossChainID:        zzsym.Bytes("ccid", zzC04Len(pat, 1, L)),
		FromContractAddress: zzsym.Bytes("from", zzC04Len(pat, 2, L)),
		ToChainID:           zzsym.U64("tochain"),
		ToContractAddress:   zzsym.Bytes("to", zzC04Len(pat, 3, L)),
		Method:              string(zzsym.Bytes("method", zzC04Len(pat, 4, L))),
		Args:                zzsym.Bytes("args", zzC04Len(pat, 5, L)),
	}
}

func zzC04AssertSameMakeTx(p, q *MakeTxParam) {
	zzsym.Assert(bytes.Equal(q.TxHash, p.TxHash) && bytes.Equal(q.CrossChainID, p.CrossChainID) &&
		bytes.Equal(q.FromContractAddress, p.FromContractAddress), "MakeTxParam round trip: tx hash, cross-chain id, source contract")
	zzsym.Assert(q.ToChainID == p.ToChainID && bytes.Equal(q.ToContractAddress, p.ToContractAddress) &&
		q.Method == p.Method && bytes.Equal(q.Args, p.Args), "MakeTxParam round trip: target chain, target contract, method, args")
}

// ZZ_C04_CCM_RoundTrip: decode(encode(v)) == v and nothing is left over, for every parameter/record type of the package.
func ZZ_C04_CCM_RoundTrip() {
	L := zzsym.Param("L")
	N := zzsym.Param("N")
	pat := zzsym.Choose("pat", L+1)
	switch zzsym.Choose("type", 7) {
	case 0:
		p := &InitRedeemScriptParam{RedeemScript: string(zzsym.Bytes("redeem", zzC04Len(pat, 0, L)))}
		q := new(InitRedeemScriptParam)
		if zzC04Dec(zzC04Enc(p.Serialization), q.Deserialization) {
			zzsym.Assert(*q == *p, "InitRedeemScriptParam round trip")
			zzsym.Cover("rt-InitRedeemScriptParam")
		}
	case 1:
		p := &EntranceParam{
			SourceChainID:         zzsym.U64("chain"),
			Height:                zzsym.U32("height"),
			Proof:                 zzsym.Bytes("proof", zzC04Len(pat, 0, L)),
			RelayerAddress:        zzsym.Bytes("relayer", zzC04Len(pat, 1, L)),
			Extra:                 zzsym.Bytes("extra", zzC04Len(pat, 2, L)),
			HeaderOrCrossChainMsg: zzsym.Bytes("header", zzC04Len(pat, 3, L)),
		}
		q := new(EntranceParam)
		if zzC04Dec(zzC04Enc(p.Serialization), q.Deserialization) {
			zzsym.Assert(q.SourceChainID == p.SourceChainID && q.Height == p.Height, "EntranceParam round trip: chain id and height")
			zzsym.Assert(bytes.Equal(q.Proof, p.Proof) && bytes.Equal(q.RelayerAddress, p.RelayerAddress) &&
				bytes.Equal(q.Extra, p.Extra) && bytes.Equal(q.HeaderOrCrossChainMsg, p.HeaderOrCrossChainMsg), "EntranceParam round trip: proof, relayer, extra, header")
			zzsym.Cover("rt-EntranceParam")
		}
	case 2:
		p := zzC04MakeTx(pat, L)
		q := new(MakeTxParam)
		if zzC04Dec(zzC04Enc(p.Serialization), q.Deserialization) {
			zzC04AssertSameMakeTx(p, q)
			zzsym.Cover("rt-MakeTxParam")
		}
	case 3:
		p := &MakeTxParamWithSender{MakeTxParam: *zzC04MakeTx(pat, L)}
		copy(p.Sender[:], zzsym.Bytes("sender", ethcommon.AddressLength))
		raw, err := p.Serialization()
		zzsym.Assert(err == nil, "MakeTxParamWithSender encodes")
		q := new(MakeTxParamWithSender)
		err = q.Deserialization(raw)
		zzsym.Assert(err == nil, "the decoder accepts every encoding produced by the encoder")
		if err == nil {
			zzsym.Assert(q.Sender == p.Sender, "MakeTxParamWithSender round trip: sender")
			zzC04AssertSameMakeTx(&p.MakeTxParam, &q.MakeTxParam)
			raw2, _ := q.Serialization()
			zzsym.Assert(bytes.Equal(raw2, raw), "MakeTxParamWithSender: re-encoding the decoded value gives the same bytes")
			zzsym.Cover("rt-MakeTxParamWithSender")
		}
	case 4:
		n := zzsym.Choose("n", N+1)
		p := &MultiSignParam{
			ChainID:   zzsym.U64("chain"),
			RedeemKey: string(zzsym.Bytes("redeemkey", zzC04Len(pat, 0, L))),
			TxHash:    zzsym.Bytes("txhash", zzC04Len(pat, 1, L)),
			Address:   string(zzsym.Bytes("address", zzC04Len(pat, 2, L))),
			Signs:     zzC04BytesList("sign", n, pat, L),
		}
		q := new(MultiSignParam)
		if zzC04Dec(zzC04Enc(p.Serialization), q.Deserialization) {
			zzsym.Assert(q.ChainID == p.ChainID && q.RedeemKey == p.RedeemKey && bytes.Equal(q.TxHash, p.TxHash) && q.Address == p.Address,
				"MultiSignParam round trip: chain id, redeem key, tx hash, address")
			zzC04AssertSameList(p.Signs, q.Signs)
			if n == N {
				zzsym.Cover("rt-MultiSignParam-full")
			}
			zzsym.Cover("rt-MultiSignParam")
		}
	case 5:
		p := &ToMerkleValue{TxHash: zzsym.Bytes("mvhash", zzC04Len(pat, 6, L)), FromChainID: zzsym.U64("fromchain"), MakeTxParam: zzC04MakeTx(pat, L)}
		q := new(ToMerkleValue)
		if zzC04Dec(zzC04Enc(p.Serialization), q.Deserialization) {
			zzsym.Assert(bytes.Equal(q.TxHash, p.TxHash) && q.FromChainID == p.FromChainID, "ToMerkleValue round trip: tx hash and source chain")
			zzC04AssertSameMakeTx(p.MakeTxParam, q.MakeTxParam)
			zzsym.Cover("rt-ToMerkleValue")
		}
	case 6:
		p := &BlackChainParam{ChainID: zzsym.U64("chain")}
		q := new(BlackChainParam)
		if zzC04Dec(zzC04Enc(p.Serialization), q.Deserialization) {
			zzsym.Assert(*q == *p, "BlackChainParam round trip")
			zzsym.Cover("rt-BlackChainParam")
		}
	}
}

func ZZ_C04_CCM_RoundTrip_witness() {
	p := zzC04MakeTx(1, 2)
	q := new(MakeTxParam)
	if zzC04Dec(zzC04Enc(p.Serialization), q.Deserialization) {
		zzsym.Assert(q.ToChainID != 7 || q.Method != "ab", "witness: a request to chain 7 with method ab round-trips")
	}
}

func zzC04CCMDecoders() []zzC04Decoder {
	return []zzC04Decoder{
		{"InitRedeemScriptParam", new(InitRedeemScriptParam).Deserialization},
		{"EntranceParam", new(EntranceParam).Deserialization},
		{"MakeTxParam", new(MakeTxParam).Deserialization},
		{"MakeTxParamWithSender", func(s *common.ZeroCopySource) error {
			return new(MakeTxParamWithSender).Deserialization(s.OffBytes())
		}},
		{"MultiSignParam", new(MultiSignParam).Deserialization},
		{"ToMerkleValue", new(ToMerkleValue).Deserialization},
		{"BlackChainParam", new(BlackChainParam).Deserialization},
	}
}

func ZZ_C04_CCM_DecodeNoPanic() { zzC04NoPanic(zzC04CCMDecoders()) }

func ZZ_C04_CCM_DecodeNoPanic_witness() {
	buf := zzsym.BytesUpTo("buf", 12)
	p := new(BlackChainParam)
	err := p.Deserialization(common.NewZeroCopySource(buf))
	zzsym.Assert(err != nil || p.ChainID != 0x1234, "witness: some buffer decodes to chain id 0x1234")
}
