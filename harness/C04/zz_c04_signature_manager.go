package signature_manager

// C04 (signature_manager): the signature ledger record decodes back to the value that was encoded, encodes to the
// same bytes whatever the map iteration order, and its decoder never panics on arbitrary bytes.

import (
	"bytes"

	"github.com/polynetwork/poly/common"
	"github.com/polynetwork/poly/zzsym"
)

func zzC04Addr(tag string) common.Address {
	var a common.Address
	copy(a[:], zzsym.Bytes(tag, common.ADDR_LEN))
	return a
}

// zzC04Len gives field number i its length under length pattern pat: the patterns 0..L rotate the lengths
// 0..L over the fields, so every field takes every length and neighbouring fields always differ in length.
// A negative pattern gives every field the full length L (used for map keys in the map-order harnesses, so
// that the order of two keys is decided by their symbolic content).
func zzC04Len(pat, i, L int) int {
	if pat < 0 {
		return L
	}
	return (pat + i) % (L + 1)
}

// zzC04Enc encodes with a fresh sink.
func zzC04Enc(ser func(*common.ZeroCopySink)) []byte {
	sink := common.NewZeroCopySink(nil)
	ser(sink)
	return sink.Bytes()
}

// zzC04Dec decodes raw and checks the two structural clauses shared by every type:
// the decoder accepts what the encoder wrote and consumes exactly those bytes.
func zzC04Dec(raw []byte, de func(*common.ZeroCopySource) error) bool {
	src := common.NewZeroCopySource(raw)
	err := de(src)
	zzsym.Assert(err == nil, "the decoder accepts every encoding produced by the encoder")
	if err != nil {
		return false
	}
	zzsym.Assert(src.Len() == 0, "the decoder consumes exactly the encoded bytes")
	return true
}

// zzC04Decoder names one decoder under test; B_<name> in the spec is the buffer bound used for it.
type zzC04Decoder struct {
	name string
	dec  func(*common.ZeroCopySource) error
}

// zzC04NoPanic: arbitrary bytes (any length up to B_<type>) are accepted or rejected, never a panic, and the
// decoder never moves past the end of the buffer. ONLY >= 0 restricts the run to one decoder (tuning aid).
func zzC04NoPanic(ds []zzC04Decoder) {
	i := zzsym.Param("ONLY")
	if i < 0 {
		i = zzsym.Choose("type", len(ds))
	}
	d := ds[i]
	buf := zzsym.BytesUpTo("buf", zzsym.Param("B_"+d.name))
	if first := zzsym.Param("FIRST"); first >= 0 {
		// input class "buffers whose byte at offset AT is FIRST" (e.g. 0xFF where a count starts: a 9-byte count
		// prefix), used where the fully arbitrary buffer of that size has too many paths
		at := zzsym.Param("AT")
		zzsym.Assume(len(buf) > at && buf[at] == byte(first))
	}
	src := common.NewZeroCopySource(buf)
	err := d.dec(src)
	zzsym.Assert(src.Pos() <= uint64(len(buf)), "the decoder never reads past the buffer")
	if err == nil {
		zzsym.Cover("decoded-" + d.name)
	} else {
		zzsym.Cover("rejected-" + d.name)
	}
}

func zzC04BytesList(tag string, n, pat, L int) [][]byte {
	var l [][]byte
	for i := 0; i < n; i++ {
		l = append(l, zzsym.Bytes(tag, zzC04Len(pat, i+1, L)))
	}
	return l
}

func zzC04AssertSameList(a, b [][]byte) {
	zzsym.Assert(len(a) == len(b), "byte-string list round trip: same number of elements")
	for i := range a {
		if i < len(b) {
			zzsym.Assert(bytes.Equal(a[i], b[i]), "byte-string list round trip: element unchanged")
		}
	}
}

func zzC04SigInfo(n, pat, L int) *SigInfo {
	p := &SigInfo{Status: zzsym.Bool("status"), SigInfo: make(map[string][]byte)}
	for i := 0; i < n; i++ {
		p.SigInfo[string(zzsym.Bytes("signer", zzC04Len(pat, i, L)))] = zzsym.Bytes("sig", zzC04Len(pat, i+1, L))
	}
	return p
}

// ZZ_C04_SIG_RoundTrip: decode(encode(v)) == v, nothing left over, re-encoding gives the same bytes.
func ZZ_C04_SIG_RoundTrip() {
	L := zzsym.Param("L")
	N := zzsym.Param("N")
	p := zzC04SigInfo(zzsym.Choose("n", N+1), zzsym.Choose("pat", L+1), L)
	raw := zzC04Enc(p.Serialization)
	q := new(SigInfo)
	if zzC04Dec(raw, q.Deserialization) {
		zzsym.Assert(q.Status == p.Status && len(q.SigInfo) == len(p.SigInfo), "SigInfo round trip: status and number of signers")
		for k, v := range p.SigInfo {
			w, ok := q.SigInfo[k]
			zzsym.Assert(ok && bytes.Equal(v, w), "SigInfo round trip: signature present and unchanged")
		}
		zzsym.Assert(bytes.Equal(zzC04Enc(q.Serialization), raw), "SigInfo: re-encoding the decoded value gives the same bytes")
		if len(p.SigInfo) == N {
			zzsym.Cover("rt-SigInfo-full")
		}
		zzsym.Cover("rt-SigInfo")
	}
}

func ZZ_C04_SIG_RoundTrip_witness() {
	p := zzC04SigInfo(1, 1, 2)
	q := new(SigInfo)
	if zzC04Dec(zzC04Enc(p.Serialization), q.Deserialization) {
		zzsym.Assert(!q.Status || len(q.SigInfo["k"]) != 2, "witness: a finished ledger with signer k round-trips")
	}
}

// ZZ_C04_SIG_MapOrder: run under all_map_orders; the same value encoded twice gives identical bytes for every pair of iteration orders.
func ZZ_C04_SIG_MapOrder() {
	L := zzsym.Param("L")
	N := zzsym.Param("N")
	p := zzC04SigInfo(N, -1, L)
	a := append([]byte(nil), zzC04Enc(p.Serialization)...)
	zzsym.Assert(bytes.Equal(a, zzC04Enc(p.Serialization)), "SigInfo encodes to the same bytes regardless of map iteration order")
	if len(p.SigInfo) == N {
		zzsym.Cover("order-SigInfo")
	}
}

func ZZ_C04_SIG_MapOrder_witness() {
	m := map[string][]byte{"a": nil, "b": nil}
	first := ""
	for k := range m {
		first = k
		break
	}
	zzsym.Assert(first == "a", "witness: iteration can start at the second key")
}

func ZZ_C04_SIG_DecodeNoPanic() {
	zzC04NoPanic([]zzC04Decoder{{"SigInfo", new(SigInfo).Deserialization}})
}

func ZZ_C04_SIG_DecodeNoPanic_witness() {
	buf := zzsym.BytesUpTo("buf", 12)
	p := new(SigInfo)
	err := p.Deserialization(common.NewZeroCopySource(buf))
	zzsym.Assert(err != nil || !p.Status || len(p.SigInfo) != 1, "witness: some buffer decodes to a finished one-signer ledger")
}
