package relayer_manager

// C04 (relayer_manager): relayer registry call parameters decode back to the value that was encoded,
// and the decoders never panic on arbitrary bytes.

import (
	"bytes"

	"github.com/polynetwork/poly/common"
	"github.com/polynetwork/poly/zzsym"
)

func zzC04Addr(tag string) common.Address {
	var a common.Address
	copy(a[:], zzsym.Bytes(tag, common.ADDR_LEN))
	return a
}

// zzC04Len gives field number i its length under length pattern pat: the patterns 0..L rotate the lengths
// 0..L over the fields, so every field takes every length and neighbouring fields always differ in length.
// A negative pattern gives every field the full length L (used for map keys in the map-order harnesses, so
// that the order of two keys is decided by their symbolic content).
func zzC04Len(pat, i, L int) int {
	if pat < 0 {
		return L
	}
	return (pat + i) % (L + 1)
}

// zzC04Enc encodes with a fresh sink.
func zzC04Enc(ser func(*common.ZeroCopySink)) []byte {
	sink := common.NewZeroCopySink(nil)
	ser(sink)
	return sink.Bytes()
}

// zzC04Dec decodes raw and checks the two structural clauses shared by every type:
// the decoder accepts what the encoder wrote and consumes exactly those bytes.
func zzC04Dec(raw []byte, de func(*common.ZeroCopySource) error) bool {
	src := common.NewZeroCopySource(raw)
	err := de(src)
	zzsym.Assert(err == nil, "the decoder accepts every encoding produced by the encoder")
	if err != nil {
		return false
	}
	zzsym.Assert(src.Len() == 0, "the decoder consumes exactly the encoded bytes")
	return true
}

// zzC04Decoder names one decoder under test; B_<name> in the spec is the buffer bound used for it.
type zzC04Decoder struct {
	name string
	dec  func(*common.ZeroCopySource) error
}

// zzC04NoPanic: arbitrary bytes (any length up to B_<type>) are accepted or rejected, never a panic, and the
// decoder never moves past the end of the buffer. ONLY >= 0 restricts the run to one decoder (tuning aid).
func zzC04NoPanic(ds []zzC04Decoder) {
	i := zzsym.Param("ONLY")
	if i < 0 {
		i = zzsym.Choose("type", len(ds))
	}
	d := ds[i]
	buf := zzsym.BytesUpTo("buf", zzsym.Param("B_"+d.name))
	if first := zzsym.Param("FIRST"); first >= 0 {
		// input class "buffers whose byte at offset AT is FIRST" (e.g. 0xFF where a count starts: a 9-byte count
		// prefix), used where the fully arbitrary buffer of that size has too many paths
		at := zzsym.Param("AT")
		zzsym.Assume(len(buf) > at && buf[at] == byte(first))
	}
	src := common.NewZeroCopySource(buf)
	err := d.dec(src)
	zzsym.Assert(src.Pos() <= uint64(len(buf)), "the decoder never reads past the buffer")
	if err == nil {
		zzsym.Cover("decoded-" + d.name)
	} else {
		zzsym.Cover("rejected-" + d.name)
	}
}

func zzC04BytesList(tag string, n, pat, L int) [][]byte {
	var l [][]byte
	for i := 0; i < n; i++ {
		l = append(l, zzsym.Bytes(tag, zzC04Len(pat, i+1, L)))
	}
	return l
}

func zzC04AssertSameList(a, b [][]byte) {
	zzsym.Assert(len(a) == len(b), "byte-string list round trip: same number of elements")
	for i := range a {
		if i < len(b) {
			zzsym.Assert(bytes.Equal(a[i], b[i]), "byte-string list round trip: element unchanged")
		}
	}
}

// ZZ_C04_RM_RoundTrip: decode(encode(v)) == v and nothing is left over.
func ZZ_C04_RM_RoundTrip() {
	N := zzsym.Param("N")
	switch zzsym.Choose("type", 2) {
	case 0:
		n := zzsym.Choose("n", N+1)
		p := &RelayerListParam{Address: zzC04Addr("addr")}
		for i := 0; i < n; i++ {
			p.AddressList = append(p.AddressList, zzC04Addr("relayer"))
		}
		q := new(RelayerListParam)
		if zzC04Dec(zzC04Enc(p.Serialization), q.Deserialization) {
			zzsym.Assert(q.Address == p.Address && len(q.AddressList) == n, "RelayerListParam round trip: operator address and list length")
			for i := 0; i < n && i < len(q.AddressList); i++ {
				zzsym.Assert(q.AddressList[i] == p.AddressList[i], "RelayerListParam round trip: list element")
			}
			if n == N {
				zzsym.Cover("rt-RelayerListParam-full")
			}
			zzsym.Cover("rt-RelayerListParam")
		}
	case 1:
		p := &ApproveRelayerParam{ID: zzsym.U64("id"), Address: zzC04Addr("addr")}
		q := new(ApproveRelayerParam)
		if zzC04Dec(zzC04Enc(p.Serialization), q.Deserialization) {
			zzsym.Assert(*q == *p, "ApproveRelayerParam round trip")
			zzsym.Cover("rt-ApproveRelayerParam")
		}
	}
}

func ZZ_C04_RM_RoundTrip_witness() {
	p := &ApproveRelayerParam{ID: zzsym.U64("id"), Address: zzC04Addr("addr")}
	q := new(ApproveRelayerParam)
	if zzC04Dec(zzC04Enc(p.Serialization), q.Deserialization) {
		zzsym.Assert(q.ID != 0x12345 || q.Address[3] != 9, "witness: approval 0x12345 round-trips")
	}
}

func zzC04RMDecoders() []zzC04Decoder {
	return []zzC04Decoder{
		{"RelayerListParam", new(RelayerListParam).Deserialization},
		{"ApproveRelayerParam", new(ApproveRelayerParam).Deserialization},
	}
}

func ZZ_C04_RM_DecodeNoPanic() { zzC04NoPanic(zzC04RMDecoders()) }

func ZZ_C04_RM_DecodeNoPanic_witness() {
	buf := zzsym.BytesUpTo("buf", 24)
	p := new(ApproveRelayerParam)
	err := p.Deserialization(common.NewZeroCopySource(buf))
	zzsym.Assert(err != nil || p.ID != 0x12, "witness: some buffer decodes to approval id 0x12")
}
