package btc

// C04 (cross_chain_manager/btc): BTC proof, UTXO and multisign records decode back to the value that was encoded,
// the multisign ledger encodes to the same bytes whatever the map iteration order, and the decoders never
// panic on arbitrary bytes.

import (
	"bytes"

	"github.com/polynetwork/poly/common"
	"github.com/polynetwork/poly/zzsym"
)

func zzC04Addr(tag string) common.Address {
	var a common.Address
	copy(a[:], zzsym.Bytes(tag, common.ADDR_LEN))
	return a
}

// zzC04Len gives field number i its length under length pattern pat: the patterns 0..L rotate the lengths
// 0..L over the fields, so every field takes every length and neighbouring fields always differ in length.
// A negative pattern gives every field the full length L (used for map keys in the map-order harnesses, so
// that the order of two keys is decided by their symbolic content).
func zzC04Len(pat, i, L int) int {
	if pat < 0 {
		return L
	}
	return (pat + i) % (L + 1)
}

// zzC04Enc encodes with a fresh sink.
func zzC04Enc(ser func(*common.ZeroCopySink)) []byte {
	sink := common.NewZeroCopySink(nil)
	ser(sink)
	return sink.Bytes()
}

// zzC04Dec decodes raw and checks the two structural clauses shared by every type:
// the decoder accepts what the encoder wrote and consumes exactly those bytes.
func zzC04Dec(raw []byte, de func(*common.ZeroCopySource) error) bool {
	src := common.NewZeroCopySource(raw)
	err := de(src)
	zzsym.Assert(err == nil, "the decoder accepts every encoding produced by the encoder")
	if err != nil {
		return false
	}
	zzsym.Assert(src.Len() == 0, "the decoder consumes exactly the encoded bytes")
	return true
}

// zzC04Decoder names one decoder under test; B_<name> in the spec is the buffer bound used for it.
type zzC04Decoder struct {
	name string
	dec  func(*common.ZeroCopySource) error
}

// zzC04NoPanic: arbitrary bytes (any length up to B_<type>) are accepted or rejected, never a panic, and the
// decoder never moves past the end of the buffer. ONLY >= 0 restricts the run to one decoder (tuning aid).
func zzC04NoPanic(ds []zzC04Decoder) {
	i := zzsym.Param("ONLY")
	if i < 0 {
		i = zzsym.Choose("type", len(ds))
	}
	d := ds[i]
	buf := zzsym.BytesUpTo("buf", zzsym.Param("B_"+d.name))
	if first := zzsym.Param("FIRST"); first >= 0 {
		// input class "buffers whose byte at offset AT is FIRST" (e.g. 0xFF where a count starts: a 9-byte count
		// prefix), used where the fully arbitrary buffer of that size has too many paths
		at := zzsym.Param("AT")
		zzsym.Assume(len(buf) > at && buf[at] == byte(first))
	}
	src := common.NewZeroCopySource(buf)
	err := d.dec(src)
	zzsym.Assert(src.Pos() <= uint64(len(buf)), "the decoder never reads past the buffer")
	if err == nil {
		zzsym.Cover("decoded-" + d.name)
	} else {
		zzsym.Cover("rejected-" + d.name)
	}
}

func zzC04BytesList(tag string, n, pat, L int) [][]byte {
	var l [][]byte
	for i := 0; i < n; i++ {
		l = append(l, zzsym.Bytes(tag, zzC04Len(pat, i+1, L)))
	}
	return l
}

func zzC04AssertSameList(a, b [][]byte) {
	zzsym.Assert(len(a) == len(b), "byte-string list round trip: same number of elements")
	for i := range a {
		if i < len(b) {
			zzsym.Assert(bytes.Equal(a[i], b[i]), "byte-string list round trip: element unchanged")
		}
	}
}

func zzC04Utxo(pat, i, L int) *Utxo {
	return &Utxo{Op: &OutPoint{Hash: zzsym.Bytes("op.hash", zzC04Len(pat, i, L)), Index: zzsym.U32("op.index")},
		AtHeight: zzsym.U32("height"), Value: zzsym.U64("value"), ScriptPubkey: zzsym.Bytes("script", zzC04Len(pat, i+1, L))}
}

func zzC04AssertSameUtxo(p, q *Utxo) {
	zzsym.Assert(bytes.Equal(q.Op.Hash, p.Op.Hash) && q.Op.Index == p.Op.Index, "Utxo round trip: outpoint")
	zzsym.Assert(q.AtHeight == p.AtHeight && q.Value == p.Value && bytes.Equal(q.ScriptPubkey, p.ScriptPubkey), "Utxo round trip: height, value, script")
}

func zzC04MultiSign(n, m, pat, L int) *MultiSignInfo {
	p := &MultiSignInfo{MultiSignInfo: make(map[string][][]byte)}
	for i := 0; i < n; i++ {
		p.MultiSignInfo[string(zzsym.Bytes("signer", zzC04Len(pat, i, L)))] = zzC04BytesList("sig", m, pat+i, L)
	}
	return p
}

// ZZ_C04_BTC_RoundTrip: decode(encode(v)) == v and nothing is left over.
func ZZ_C04_BTC_RoundTrip() {
	L := zzsym.Param("L")
	N := zzsym.Param("N")
	pat := zzsym.Choose("pat", L+1)
	switch zzsym.Choose("type", 7) {
	case 0:
		p := &BtcProof{Tx: zzsym.Bytes("tx", zzC04Len(pat, 0, L)), Proof: zzsym.Bytes("proof", zzC04Len(pat, 1, L)), Height: zzsym.U32("height"), BlocksToWait: zzsym.U64("wait")}
		q := new(BtcProof)
		if zzC04Dec(zzC04Enc(p.Serialization), q.Deserialization) {
			zzsym.Assert(bytes.Equal(q.Tx, p.Tx) && bytes.Equal(q.Proof, p.Proof) && q.Height == p.Height && q.BlocksToWait == p.BlocksToWait, "BtcProof round trip")
			zzsym.Cover("rt-BtcProof")
		}
	case 1:
		n := zzsym.Choose("n", N+1)
		p := &Utxos{}
		for i := 0; i < n; i++ {
			p.Utxos = append(p.Utxos, zzC04Utxo(pat, i, L))
		}
		q := new(Utxos)
		if zzC04Dec(zzC04Enc(p.Serialization), q.Deserialization) {
			zzsym.Assert(len(q.Utxos) == n, "Utxos round trip: same number of outputs")
			for i := 0; i < n && i < len(q.Utxos); i++ {
				zzC04AssertSameUtxo(p.Utxos[i], q.Utxos[i])
			}
			if n == N {
				zzsym.Cover("rt-Utxos-full")
			}
			zzsym.Cover("rt-Utxos")
		}
	case 2:
		p := zzC04Utxo(pat, 0, L)
		q := new(Utxo)
		if zzC04Dec(zzC04Enc(p.Serialization), q.Deserialization) {
			zzC04AssertSameUtxo(p, q)
			zzsym.Cover("rt-Utxo")
		}
	case 3:
		p := &OutPoint{Hash: zzsym.Bytes("hash", zzC04Len(pat, 0, L)), Index: zzsym.U32("index")}
		q := new(OutPoint)
		if zzC04Dec(zzC04Enc(p.Serialization), q.Deserialization) {
			zzsym.Assert(bytes.Equal(q.Hash, p.Hash) && q.Index == p.Index, "OutPoint round trip")
			zzsym.Cover("rt-OutPoint")
		}
	case 4:
		n := zzsym.Choose("n", N+1)
		m := zzsym.Choose("m", N+1)
		p := zzC04MultiSign(n, m, pat, L)
		raw := zzC04Enc(p.Serialization)
		q := new(MultiSignInfo)
		if zzC04Dec(raw, q.Deserialization) {
			zzsym.Assert(len(q.MultiSignInfo) == len(p.MultiSignInfo), "MultiSignInfo round trip: same number of signers")
			for k, v := range p.MultiSignInfo {
				w, ok := q.MultiSignInfo[k]
				zzsym.Assert(ok, "MultiSignInfo round trip: signer present")
				if ok {
					zzC04AssertSameList(v, w)
				}
			}
			zzsym.Assert(bytes.Equal(zzC04Enc(q.Serialization), raw), "MultiSignInfo: re-encoding the decoded value gives the same bytes")
			if len(p.MultiSignInfo) == N && m == N {
				zzsym.Cover("rt-MultiSignInfo-full")
			}
			zzsym.Cover("rt-MultiSignInfo")
		}
	case 5:
		p := &Args{ToChainID: zzsym.U64("tochain"), Fee: zzsym.I64("fee"), Address: zzsym.Bytes("address", zzC04Len(pat, 0, L))}
		q := new(Args)
		if zzC04Dec(zzC04Enc(p.Serialization), q.Deserialization) {
			zzsym.Assert(q.ToChainID == p.ToChainID && q.Fee == p.Fee && bytes.Equal(q.Address, p.Address), "Args round trip")
			zzsym.Cover("rt-Args")
		}
	case 6:
		p := &BtcFromInfo{FromTxHash: zzsym.Bytes("fromtx", zzC04Len(pat, 0, L)), FromChainID: zzsym.U64("fromchain")}
		q := new(BtcFromInfo)
		if zzC04Dec(zzC04Enc(p.Serialization), q.Deserialization) {
			zzsym.Assert(bytes.Equal(q.FromTxHash, p.FromTxHash) && q.FromChainID == p.FromChainID, "BtcFromInfo round trip")
			zzsym.Cover("rt-BtcFromInfo")
		}
	}
}

func ZZ_C04_BTC_RoundTrip_witness() {
	p := zzC04Utxo(1, 0, 2)
	q := new(Utxo)
	if zzC04Dec(zzC04Enc(p.Serialization), q.Deserialization) {
		zzsym.Assert(q.Value != 5000 || q.Op.Index != 3 || q.ScriptPubkey[1] != 0x87, "witness: a 5000-satoshi output round-trips")
	}
}

// ZZ_C04_BTC_MapOrder: run under all_map_orders; the same ledger encoded twice gives identical bytes for every pair of iteration orders.
func ZZ_C04_BTC_MapOrder() {
	L := zzsym.Param("L")
	N := zzsym.Param("N")
	p := zzC04MultiSign(N, 1, -1, L)
	a := append([]byte(nil), zzC04Enc(p.Serialization)...)
	zzsym.Assert(bytes.Equal(a, zzC04Enc(p.Serialization)), "MultiSignInfo encodes to the same bytes regardless of map iteration order")
	if len(p.MultiSignInfo) == N {
		zzsym.Cover("order-MultiSignInfo")
	}
}

func ZZ_C04_BTC_MapOrder_witness() {
	m := map[string]bool{"a": true, "b": true}
	first := ""
	for k := range m {
		first = k
		break
	}
	zzsym.Assert(first == "a", "witness: iteration can start at the second key")
}

func zzC04BTCDecoders() []zzC04Decoder {
	return []zzC04Decoder{
		{"BtcProof", new(BtcProof).Deserialization},
		{"Utxos", new(Utxos).Deserialization},
		{"Utxo", new(Utxo).Deserialization},
		{"OutPoint", new(OutPoint).Deserialization},
		{"MultiSignInfo", new(MultiSignInfo).Deserialization},
		{"Args", new(Args).Deserialization},
		{"BtcFromInfo", new(BtcFromInfo).Deserialization},
	}
}

func ZZ_C04_BTC_DecodeNoPanic() { zzC04NoPanic(zzC04BTCDecoders()) }

func ZZ_C04_BTC_DecodeNoPanic_witness() {
	buf := zzsym.BytesUpTo("buf", 12)
	p := new(OutPoint)
	err := p.Deserialization(common.NewZeroCopySource(buf))
	zzsym.Assert(err != nil || p.Index != 0x1234 || len(p.Hash) != 2, "witness: some buffer decodes to output 0x1234 of a two-byte hash")
}
