package states

// C04 (core/states): a stored item (state version byte + value) decodes back to the value that was encoded,
// GenRawStorageItem / GetValueFromRawStorageItem are inverse, and the decoder never panics on arbitrary bytes.

import (
	"bytes"

	"github.com/polynetwork/poly/zzsym"
)

// ZZ_C04_CS_RoundTrip: StorageItem.Serialize/Deserialize and the raw helpers.
func ZZ_C04_CS_RoundTrip() {
	L := zzsym.Param("L")
	val := zzsym.BytesChoose("value", L)
	p := &StorageItem{Value: val}
	p.StateVersion = zzsym.U8("version")
	var w bytes.Buffer
	zzsym.Assert(p.Serialize(&w) == nil, "StorageItem encodes")
	raw := w.Bytes()
	zzsym.Assert(bytes.Equal(raw, p.ToArray()), "ToArray is the streaming encoding")
	q := new(StorageItem)
	r := bytes.NewReader(raw)
	err := q.Deserialize(r)
	zzsym.Assert(err == nil, "the decoder accepts every encoding produced by the encoder")
	if err == nil {
		zzsym.Assert(r.Len() == 0, "the decoder consumes exactly the encoded bytes")
		zzsym.Assert(q.StateVersion == p.StateVersion && bytes.Equal(q.Value, p.Value), "StorageItem round trip")
		zzsym.Cover("rt-StorageItem")
	}
	// the raw helpers used by every native contract
	g := GenRawStorageItem(val)
	zzsym.Assert(len(g) >= 1 && g[0] == 0, "GenRawStorageItem writes state version 0")
	v, err := GetValueFromRawStorageItem(g)
	zzsym.Assert(err == nil && bytes.Equal(v, val), "GetValueFromRawStorageItem(GenRawStorageItem(v)) == v")
	zzsym.Cover("rt-raw")
}

func ZZ_C04_CS_RoundTrip_witness() {
	val := zzsym.Bytes("value", 2)
	v, err := GetValueFromRawStorageItem(GenRawStorageItem(val))
	zzsym.Assert(err != nil || len(v) != 2 || v[1] != 0x77, "witness: a two-byte value ending in 0x77 round-trips")
}

// ZZ_C04_CS_DecodeNoPanic: arbitrary bytes are accepted or rejected by GetValueFromRawStorageItem, never a panic;
// an accepted value is no longer than the buffer.
func ZZ_C04_CS_DecodeNoPanic() {
	buf := zzsym.BytesUpTo("buf", zzsym.Param("B_StorageItem"))
	v, err := GetValueFromRawStorageItem(buf)
	if err == nil {
		zzsym.Assert(uint64(len(v)) < uint64(len(buf)), "a decoded value lies inside the buffer")
		zzsym.Cover("decoded-StorageItem")
	} else {
		zzsym.Cover("rejected-StorageItem")
	}
}

func ZZ_C04_CS_DecodeNoPanic_witness() {
	buf := zzsym.BytesUpTo("buf", 8)
	v, err := GetValueFromRawStorageItem(buf)
	zzsym.Assert(err != nil || len(v) != 3, "witness: some buffer decodes to a three-byte value")
}
