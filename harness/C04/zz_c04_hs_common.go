package common

// C04 (header_sync/common): header-sync call parameters decode back to the value that was encoded,
// and the decoders never panic on arbitrary bytes.

import (
	"bytes"

	"github.com/polynetwork/poly/common"
	"github.com/polynetwork/poly/zzsym"
)

func zzC04Addr(tag string) common.Address {
	var a common.Address
	copy(a[:], zzsym.Bytes(tag, common.ADDR_LEN))
	return a
}

// zzC04Len gives field number i its length under length pattern pat: the patterns 0..L rotate the lengths
// 0..L over the fields, so every field takes every length and neighbouring fields always differ in length.
// A negative pattern gives every field the full length L (used for map keys in the map-order harnesses, so
// that the order of two keys is decided by their symbolic content).
func zzC04Len(pat, i, L int) int {
	if pat < 0 {
		return L
	}
	return (pat + i) % (L + 1)
}

// zzC04Enc encodes with a fresh sink.
func zzC04Enc(ser func(*common.ZeroCopySink)) []byte {
	sink := common.NewZeroCopySink(nil)
	ser(sink)
	return sink.Bytes()
}

// zzC04Dec decodes raw and checks the two structural clauses shared by every type:
// the decoder accepts what the encoder wrote and consumes exactly those bytes.
func zzC04Dec(raw []byte, de func(*common.ZeroCopySource) error) bool {
	src := common.NewZeroCopySource(raw)
	err := de(src)
	zzsym.Assert(err == nil, "the decoder accepts every encoding produced by the encoder")
	if err != nil {
		return false
	}
	zzsym.Assert(src.Len() == 0, "the decoder consumes exactly the encoded bytes")
	return true
}

// zzC04Decoder names one decoder under test; B_<name> in the spec is the buffer bound used for it.
type zzC04Decoder struct {
	name string
	dec  func(*common.ZeroCopySource) error
}

// zzC04NoPanic: arbitrary bytes (any length up to B_<type>) are accepted or rejected, never a panic, and the
// decoder never moves past the end of the buffer. ONLY >= 0 restricts the run to one decoder (tuning aid).
func zzC04NoPanic(ds []zzC04Decoder) {
	i := zzsym.Param("ONLY")
	if i < 0 {
		i = zzsym.Choose("type", len(ds))
	}
	d := ds[i]
	buf := zzsym.BytesUpTo("buf", zzsym.Param("B_"+d.name))
	if first := zzsym.Param("FIRST"); first >= 0 {
		// input class "buffers whose byte at offset AT is FIRST" (e.g. 0xFF where a count starts: a 9-byte count
		// prefix), used where the fully arbitrary buffer of that size has too many paths
		at := zzsym.Param("AT")
		zzsym.Assume(len(buf) > at && buf[at] == byte(first))
	}
	src := common.NewZeroCopySource(buf)
	err := d.dec(src)
	zzsym.Assert(src.Pos() <= uint64(len(buf)), "the decoder never reads past the buffer")
	if err == nil {
		zzsym.Cover("decoded-" + d.name)
	} else {
		zzsym.Cover("rejected-" + d.name)
	}
}

func zzC04BytesList(tag string, n, pat, L int) [][]byte {
	var l [][]byte
	for i := 0; i < n; i++ {
		l = append(l, zzsym.Bytes(tag, zzC04Len(pat, i+1, L)))
	}
	return l
}

func zzC04AssertSameList(a, b [][]byte) {
	zzsym.Assert(len(a) == len(b), "byte-string list round trip: same number of elements")
	for i := range a {
		if i < len(b) {
			zzsym.Assert(bytes.Equal(a[i], b[i]), "byte-string list round trip: element unchanged")
		}
	}
}

// ZZ_C04_HS_RoundTrip: decode(encode(v)) == v and nothing is left over.
func ZZ_C04_HS_RoundTrip() {
	L := zzsym.Param("L")
	N := zzsym.Param("N")
	pat := zzsym.Choose("pat", L+1)
	switch zzsym.Choose("type", 3) {
	case 0:
		p := &SyncGenesisHeaderParam{ChainID: zzsym.U64("chain"), GenesisHeader: zzsym.Bytes("genesis", zzC04Len(pat, 0, L))}
		q := new(SyncGenesisHeaderParam)
		if zzC04Dec(zzC04Enc(p.Serialization), q.Deserialization) {
			zzsym.Assert(q.ChainID == p.ChainID && bytes.Equal(q.GenesisHeader, p.GenesisHeader), "SyncGenesisHeaderParam round trip")
			zzsym.Cover("rt-SyncGenesisHeaderParam")
		}
	case 1:
		n := zzsym.Choose("n", N+1)
		p := &SyncBlockHeaderParam{ChainID: zzsym.U64("chain"), Address: zzC04Addr("addr"), Headers: zzC04BytesList("header", n, pat, L)}
		q := new(SyncBlockHeaderParam)
		if zzC04Dec(zzC04Enc(p.Serialization), q.Deserialization) {
			zzsym.Assert(q.ChainID == p.ChainID && q.Address == p.Address, "SyncBlockHeaderParam round trip: chain id and address")
			zzC04AssertSameList(p.Headers, q.Headers)
			if n == N {
				zzsym.Cover("rt-SyncBlockHeaderParam-full")
			}
			zzsym.Cover("rt-SyncBlockHeaderParam")
		}
	case 2:
		n := zzsym.Choose("n", N+1)
		p := &SyncCrossChainMsgParam{ChainID: zzsym.U64("chain"), Address: zzC04Addr("addr"), CrossChainMsgs: zzC04BytesList("msg", n, pat, L)}
		q := new(SyncCrossChainMsgParam)
		if zzC04Dec(zzC04Enc(p.Serialization), q.Deserialization) {
			zzsym.Assert(q.ChainID == p.ChainID && q.Address == p.Address, "SyncCrossChainMsgParam round trip: chain id and address")
			zzC04AssertSameList(p.CrossChainMsgs, q.CrossChainMsgs)
			if n == N {
				zzsym.Cover("rt-SyncCrossChainMsgParam-full")
			}
			zzsym.Cover("rt-SyncCrossChainMsgParam")
		}
	}
}

func ZZ_C04_HS_RoundTrip_witness() {
	p := &SyncBlockHeaderParam{ChainID: zzsym.U64("chain"), Address: zzC04Addr("addr"), Headers: zzC04BytesList("header", 2, 0, 2)}
	q := new(SyncBlockHeaderParam)
	if zzC04Dec(zzC04Enc(p.Serialization), q.Deserialization) {
		zzsym.Assert(q.ChainID != 2 || len(q.Headers) != 2 || len(q.Headers[1]) != 2 || q.Headers[1][1] != 0x55, "witness: a two-header request for chain 2 round-trips")
	}
}

func zzC04HSDecoders() []zzC04Decoder {
	return []zzC04Decoder{
		{"SyncGenesisHeaderParam", new(SyncGenesisHeaderParam).Deserialization},
		{"SyncBlockHeaderParam", new(SyncBlockHeaderParam).Deserialization},
		{"SyncCrossChainMsgParam", new(SyncCrossChainMsgParam).Deserialization},
	}
}

func ZZ_C04_HS_DecodeNoPanic() { zzC04NoPanic(zzC04HSDecoders()) }

func ZZ_C04_HS_DecodeNoPanic_witness() {
	buf := zzsym.BytesUpTo("buf", 12)
	p := new(SyncGenesisHeaderParam)
	err := p.Deserialization(common.NewZeroCopySource(buf))
	zzsym.Assert(err != nil || p.ChainID != 0x1234 || len(p.GenesisHeader) != 2, "witness: some buffer decodes to chain id 0x1234 with a two-byte header")
}
