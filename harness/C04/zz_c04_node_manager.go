package node_manager

// C04 (node_manager): every call parameter and stored record of the node-manager contract decodes back to
// the value that was encoded, records holding a map encode to the same bytes whatever the map iteration
// order, and the decoders never panic on arbitrary bytes.

import (
	"bytes"
	"encoding/hex"

	"github.com/polynetwork/poly/common"
	"github.com/polynetwork/poly/zzsym"
)

func zzC04Addr(tag string) common.Address {
	var a common.Address
	copy(a[:], zzsym.Bytes(tag, common.ADDR_LEN))
	return a
}

// zzC04ToHex replaces (*common.Address).ToHexString (fmt.Sprintf("%x", reversed bytes)) under the engine, where
// Sprintf cannot format symbolic bytes: lower-case hex of the reversed address, computed arithmetically.
// ZZ_C04_NM_HexModel checks it against the real function on concrete addresses.
func zzC04ToHex(self *common.Address) string {
	out := make([]byte, 0, 2*common.ADDR_LEN)
	for i := common.ADDR_LEN - 1; i >= 0; i-- {
		hi, lo := self[i]>>4, self[i]&15
		// digit d -> '0'+d for d<10, 'a'+d-10 otherwise; (d+6)>>4 is 1 exactly when d >= 10
		out = append(out, '0'+hi+39*((hi+6)>>4), '0'+lo+39*((lo+6)>>4))
	}
	return string(out)
}

func zzC04Str(tag string, L int) string { return string(zzsym.BytesChoose(tag, L)) }

// zzC04Enc encodes with a fresh sink.
func zzC04Enc(ser func(*common.ZeroCopySink)) []byte {
	sink := common.NewZeroCopySink(nil)
	ser(sink)
	return sink.Bytes()
}

// zzC04Dec decodes raw and checks the two structural clauses shared by every type:
// the decoder accepts what the encoder wrote and consumes exactly those bytes.
func zzC04Dec(raw []byte, de func(*common.ZeroCopySource) error) bool {
	src := common.NewZeroCopySource(raw)
	err := de(src)
	zzsym.Assert(err == nil, "the decoder accepts every encoding produced by the encoder")
	if err != nil {
		return false
	}
	zzsym.Assert(src.Len() == 0, "the decoder consumes exactly the encoded bytes")
	return true
}

func zzC04PeerPool(L int, n int) *PeerPoolMap {
	m := &PeerPoolMap{PeerPoolMap: make(map[string]*PeerPoolItem)}
	for i := 0; i < n; i++ {
		it := &PeerPoolItem{Index: zzsym.U32("idx"), PeerPubkey: zzC04Str("pk", L), Address: zzC04Addr("addr"), Status: Status(zzsym.U8("st"))}
		// the contract always stores an item under its own public key (RegisterCandidate, InitConfig ...)
		m.PeerPoolMap[it.PeerPubkey] = it
	}
	return m
}

func zzC04Signs(n int) *ConsensusSigns {
	m := &ConsensusSigns{SignsMap: make(map[common.Address]bool)}
	for i := 0; i < n; i++ {
		m.SignsMap[zzC04Addr("signer")] = zzsym.Bool("signed")
	}
	return m
}

// ZZ_C04_NM_RoundTrip: decode(encode(v)) == v, nothing left over, re-encoding gives the same bytes.
func ZZ_C04_NM_RoundTrip() {
	L := zzsym.Param("L")
	N := zzsym.Param("N")
	switch zzsym.Choose("type", 10) {
	case 0:
		p := &RegisterPeerParam{PeerPubkey: zzC04Str("pk", L), Address: zzC04Addr("addr")}
		raw := zzC04Enc(p.Serialization)
		q := new(RegisterPeerParam)
		if zzC04Dec(raw, q.Deserialization) {
			zzsym.Assert(*q == *p, "RegisterPeerParam round trip")
			zzsym.Cover("rt-RegisterPeerParam")
		}
	case 1:
		p := &PeerParam{PeerPubkey: zzC04Str("pk", L), Address: zzC04Addr("addr")}
		raw := zzC04Enc(p.Serialization)
		q := new(PeerParam)
		if zzC04Dec(raw, q.Deserialization) {
			zzsym.Assert(*q == *p, "PeerParam round trip")
			zzsym.Cover("rt-PeerParam")
		}
	case 2:
		p := &PeerListParam{Address: zzC04Addr("addr")}
		n := zzsym.Choose("n", N+1)
		for i := 0; i < n; i++ {
			p.PeerPubkeyList = append(p.PeerPubkeyList, zzC04Str("pk", L))
		}
		raw := zzC04Enc(p.Serialization)
		q := new(PeerListParam)
		if zzC04Dec(raw, q.Deserialization) {
			zzsym.Assert(q.Address == p.Address && len(q.PeerPubkeyList) == n, "PeerListParam round trip: address and list length")
			for i := 0; i < n && i < len(q.PeerPubkeyList); i++ {
				zzsym.Assert(q.PeerPubkeyList[i] == p.PeerPubkeyList[i], "PeerListParam round trip: list element")
			}
			zzsym.Cover("rt-PeerListParam")
		}
	case 3:
		p := &UpdateConfigParam{Configuration: &Configuration{zzsym.U32("a"), zzsym.U32("b"), zzsym.U32("c"), zzsym.U32("d")}}
		raw := zzC04Enc(p.Serialization)
		q := new(UpdateConfigParam)
		if zzC04Dec(raw, q.Deserialization) {
			zzsym.Assert(*q.Configuration == *p.Configuration, "UpdateConfigParam/Configuration round trip")
			zzsym.Assert(len(raw) == 16, "Configuration is four fixed-width words")
			zzsym.Cover("rt-UpdateConfigParam")
		}
	case 4:
		p := &BlackListItem{PeerPubkey: zzC04Str("pk", L), Address: zzC04Addr("addr")}
		raw := zzC04Enc(p.Serialization)
		q := new(BlackListItem)
		if zzC04Dec(raw, q.Deserialization) {
			zzsym.Assert(*q == *p, "BlackListItem round trip")
			zzsym.Cover("rt-BlackListItem")
		}
	case 5:
		p := &PeerPoolItem{Index: zzsym.U32("idx"), PeerPubkey: zzC04Str("pk", L), Address: zzC04Addr("addr"), Status: Status(zzsym.U8("st"))}
		raw := zzC04Enc(p.Serialization)
		q := new(PeerPoolItem)
		if zzC04Dec(raw, q.Deserialization) {
			zzsym.Assert(*q == *p, "PeerPoolItem round trip")
			zzsym.Cover("rt-PeerPoolItem")
		}
	case 6:
		p := &GovernanceView{View: zzsym.U32("view"), Height: zzsym.U32("height")}
		copy(p.TxHash[:], zzsym.Bytes("txhash", 32))
		raw := zzC04Enc(p.Serialization)
		q := new(GovernanceView)
		if zzC04Dec(raw, q.Deserialization) {
			zzsym.Assert(*q == *p, "GovernanceView round trip")
			zzsym.Cover("rt-GovernanceView")
		}
	case 7:
		st := Status(zzsym.U8("st"))
		raw := zzC04Enc(st.Serialization)
		var q Status
		if zzC04Dec(raw, q.Deserialization) {
			zzsym.Assert(q == st, "Status round trip")
			zzsym.Cover("rt-Status")
		}
	case 8:
		n := zzsym.Choose("n", N+1)
		p := zzC04PeerPool(L, n)
		raw := zzC04Enc(p.Serialization)
		q := new(PeerPoolMap)
		if zzC04Dec(raw, q.Deserialization) {
			zzsym.Assert(len(q.PeerPoolMap) == len(p.PeerPoolMap), "PeerPoolMap round trip: same number of peers")
			for k, v := range p.PeerPoolMap {
				w, ok := q.PeerPoolMap[k]
				zzsym.Assert(ok, "PeerPoolMap round trip: every peer is present after decoding")
				if ok {
					zzsym.Assert(*w == *v, "PeerPoolMap round trip: peer record unchanged")
				}
			}
			zzsym.Assert(bytes.Equal(zzC04Enc(q.Serialization), raw), "PeerPoolMap: re-encoding the decoded pool gives the same bytes")
			if len(p.PeerPoolMap) == N {
				zzsym.Cover("rt-PeerPoolMap-full")
			}
			zzsym.Cover("rt-PeerPoolMap")
		}
	case 9:
		n := zzsym.Choose("n", N+1)
		p := zzC04Signs(n)
		raw := zzC04Enc(p.Serialization)
		q := new(ConsensusSigns)
		if zzC04Dec(raw, q.Deserialization) {
			zzsym.Assert(len(q.SignsMap) == len(p.SignsMap), "ConsensusSigns round trip: same number of signers")
			for k, v := range p.SignsMap {
				w, ok := q.SignsMap[k]
				zzsym.Assert(ok && w == v, "ConsensusSigns round trip: signer flag unchanged")
			}
			zzsym.Assert(bytes.Equal(zzC04Enc(q.Serialization), raw), "ConsensusSigns: re-encoding the decoded ledger gives the same bytes")
			if len(p.SignsMap) == N {
				zzsym.Cover("rt-ConsensusSigns-full")
			}
			zzsym.Cover("rt-ConsensusSigns")
		}
	}
}

func ZZ_C04_NM_RoundTrip_witness() {
	p := &PeerPoolItem{Index: zzsym.U32("idx"), PeerPubkey: zzC04Str("pk", 2), Address: zzC04Addr("addr"), Status: Status(zzsym.U8("st"))}
	raw := zzC04Enc(p.Serialization)
	q := new(PeerPoolItem)
	if zzC04Dec(raw, q.Deserialization) {
		zzsym.Assert(q.Index != 7 || q.PeerPubkey != "ab", "witness: a peer with index 7 and key ab round-trips")
	}
}

// ZZ_C04_NM_HexModel: the arithmetic hex model equals the real ToHexString (run without the override is not
// possible inside one spec, so the reference is spelled out with encoding/hex on the reversed bytes).
func ZZ_C04_NM_HexModel() {
	for _, seed := range []byte{0x00, 0x09, 0x0a, 0x0f, 0x10, 0x9a, 0xa9, 0xff, 0x5c} {
		var a common.Address
		for i := range a {
			a[i] = seed + byte(i)*0x1d
		}
		zzsym.Assert(zzC04ToHex(&a) == hex.EncodeToString(common.ToArrayReverse(a[:])), "hex model agrees with encoding/hex on the reversed address")
	}
	zzsym.Cover("hex-model")
}

// ZZ_C04_NM_MapOrder: run under all_map_orders. The same map value is encoded twice; every pair of Go map
// iteration orders is explored, the bytes must be identical.
func ZZ_C04_NM_MapOrder() {
	L := zzsym.Param("L")
	N := zzsym.Param("N")
	if zzsym.Choose("type", 2) == 0 {
		p := zzC04PeerPool(L, N)
		a := append([]byte(nil), zzC04Enc(p.Serialization)...)
		b := zzC04Enc(p.Serialization)
		zzsym.Assert(bytes.Equal(a, b), "PeerPoolMap encodes to the same bytes regardless of map iteration order")
		if len(p.PeerPoolMap) == N {
			zzsym.Cover("order-PeerPoolMap")
		}
	} else {
		NS := zzsym.Param("NS") // signer count (its own bound: ordering 40-character symbolic hex strings is costly)
		p := zzC04Signs(NS)
		a := append([]byte(nil), zzC04Enc(p.Serialization)...)
		b := zzC04Enc(p.Serialization)
		zzsym.Assert(bytes.Equal(a, b), "ConsensusSigns encodes to the same bytes regardless of map iteration order")
		if len(p.SignsMap) == NS {
			zzsym.Cover("order-ConsensusSigns")
		}
	}
}

// witness: without the sort the two encodings would differ; here we only show that two different orders are
// really explored (the first key written can be either of two distinct keys).
func ZZ_C04_NM_MapOrder_witness() {
	p := &ConsensusSigns{SignsMap: make(map[common.Address]bool)}
	var a1, a2 common.Address
	a1[0], a2[0] = 1, 2
	p.SignsMap[a1] = true
	p.SignsMap[a2] = false
	first := byte(0)
	for k := range p.SignsMap {
		first = k[0]
		break
	}
	zzsym.Assert(first == 1, "witness: iteration can start at the second key")
}

// zzC04Decoder names one decoder under test; B_<name> in the spec is the buffer bound used for it.
type zzC04Decoder struct {
	name string
	dec  func(*common.ZeroCopySource) error
}

func zzC04NMDecoders() []zzC04Decoder {
	return []zzC04Decoder{
		{"RegisterPeerParam", new(RegisterPeerParam).Deserialization},
		{"PeerParam", new(PeerParam).Deserialization},
		{"PeerListParam", new(PeerListParam).Deserialization},
		{"UpdateConfigParam", new(UpdateConfigParam).Deserialization},
		{"BlackListItem", new(BlackListItem).Deserialization},
		{"PeerPoolItem", new(PeerPoolItem).Deserialization},
		{"GovernanceView", new(GovernanceView).Deserialization},
		{"Status", new(Status).Deserialization},
		{"PeerPoolMap", new(PeerPoolMap).Deserialization},
		{"ConsensusSigns", new(ConsensusSigns).Deserialization},
	}
}

// ZZ_C04_NM_DecodeNoPanic: arbitrary bytes (any length up to B_<type>) are accepted or rejected, never a panic,
// and the decoder never moves past the end of the buffer. ONLY >= 0 restricts the run to one decoder (tuning aid).
func ZZ_C04_NM_DecodeNoPanic() {
	ds := zzC04NMDecoders()
	i := zzsym.Param("ONLY")
	if i < 0 {
		i = zzsym.Choose("type", len(ds))
	}
	d := ds[i]
	buf := zzsym.BytesUpTo("buf", zzsym.Param("B_"+d.name))
	if first := zzsym.Param("FIRST"); first >= 0 {
		// input class "buffers whose byte at offset AT is FIRST" (e.g. 0xFF where a count starts: a 9-byte count
		// prefix), used where the fully arbitrary buffer of that size has too many paths
		at := zzsym.Param("AT")
		zzsym.Assume(len(buf) > at && buf[at] == byte(first))
	}
	src := common.NewZeroCopySource(buf)
	err := d.dec(src)
	zzsym.Assert(src.Pos() <= uint64(len(buf)), "the decoder never reads past the buffer")
	if err == nil {
		zzsym.Cover("decoded-" + d.name)
	} else {
		zzsym.Cover("rejected-" + d.name)
	}
}

func ZZ_C04_NM_DecodeNoPanic_witness() {
	buf := zzsym.BytesUpTo("buf", 40)
	g := new(GovernanceView)
	err := g.Deserialization(common.NewZeroCopySource(buf))
	zzsym.Assert(err != nil || g.View != 7, "witness: some buffer decodes to a governance view with View 7")
}

func ZZ_C04_NM_HexModel_witness() {
	var a common.Address
	a[19] = 0xab
	zzsym.Assert(zzC04ToHex(&a)[:2] != "ab", "witness: the last address byte comes first in the hex string")
}
