package node_manager

import (
	"bytes"
	"encoding/hex"

	"github.com/ontio/ontology-crypto/keypair"
	"github.com/polynetwork/poly/common"
	cstates "github.com/polynetwork/poly/core/states"
	"github.com/polynetwork/poly/core/store/overlaydb"
	"github.com/polynetwork/poly/core/types"
	"github.com/polynetwork/poly/native"
	"github.com/polynetwork/poly/native/service/utils"
	"github.com/polynetwork/poly/native/storage"
	"github.com/polynetwork/poly/zzsym"
)

// ---- a small world: committed state + transactions with commit-on-success (as HandleInvokeTransaction does) -------------

const zzK = 6 // keys 0..5 of the shared table take part; key k's owner address is zzValidatorAddr(k)

type zzWorld struct {
	ov        *overlaydb.OverlayDB
	height    uint32
	black     [zzK]bool // model: blacklisted by an approved blackNode and not whitelisted since
	lastEpoch uint32    // model: height of the last epoch change
	names     [zzK]string
}

type zzHandler func(*native.NativeService) ([]byte, error)

func (w *zzWorld) read() *native.NativeService {
	ns, err := native.NewNativeService(storage.NewCacheDB(w.ov), &types.Transaction{}, 0, w.height, common.Uint256{}, 0, nil, false)
	if err != nil {
		panic("zz: NewNativeService")
	}
	return ns
}

// tx runs one transaction; its writes reach the committed state only when the handler succeeds.
func (w *zzWorld) tx(h zzHandler, input []byte, signers ...common.Address) error {
	cache := storage.NewCacheDB(w.ov)
	ns, err := native.NewNativeService(cache, &types.Transaction{SignedAddr: signers}, 0, w.height, common.Uint256{}, 0, input, false)
	if err != nil {
		panic("zz: NewNativeService")
	}
	_, err = h(ns)
	if err == nil {
		cache.Commit()
	}
	return err
}

type zzSnap struct {
	view, gvHeight uint32
	pool           map[string]*PeerPoolItem
}

func (w *zzWorld) snap() zzSnap {
	gv, err := GetGovernanceView(w.read())
	if err != nil {
		panic("zz: governance view")
	}
	m, err := GetPeerPoolMap(w.read(), gv.View)
	if err != nil {
		panic("zz: pool of the current view")
	}
	return zzSnap{view: gv.View, gvHeight: gv.Height, pool: m.PeerPoolMap}
}

func zzActive(st Status) bool { return st == CandidateStatus || st == ConsensusStatus }

func zzCanonical(pubkey string) []byte {
	raw, err := hex.DecodeString(pubkey)
	if err != nil {
		panic("zz: pool key is not hex")
	}
	pk, err := keypair.DeserializePublicKey(raw)
	if err != nil {
		panic("zz: pool key does not decode")
	}
	return keypair.SerializePublicKey(pk)
}

// the state invariants of C34
func zzCheckPool(s zzSnap) {
	active := 0
	var items []*PeerPoolItem
	for k, it := range s.pool {
		zzsym.Assert(k == it.PeerPubkey, "pool entries are filed under their own key string")
		if zzActive(it.Status) {
			active++
		}
		items = append(items, it)
	}
	zzsym.Assert(active >= MIN_PEER_NUM, "the pool never has fewer than four active (candidate or consensus) members")
	canon := make([][]byte, len(items))
	for i := range items {
		canon[i] = zzCanonical(items[i].PeerPubkey)
	}
	for i := range items {
		for j := i + 1; j < len(items); j++ {
			zzsym.Assert(!bytes.Equal(canon[i], canon[j]), "no public key occupies two pool entries")
			zzsym.Assert(items[i].Index != items[j].Index, "entries for distinct keys have distinct indices")
		}
	}
}

// the epoch-change rule of C34, pre -> post; blacked = keys blacklisted by the same transaction
func (w *zzWorld) checkEpoch(pre, post zzSnap, blacked map[string]bool) {
	zzsym.Assert(post.view == pre.view+1, "an epoch change advances the view by exactly one")
	zzsym.Assert(w.height != w.lastEpoch && post.gvHeight == w.height, "an epoch change happens at most once per block")
	w.lastEpoch = w.height
	for k, it := range post.pool {
		was := pre.pool[k]
		zzsym.Assert(it.Status == ConsensusStatus, "after an epoch change every member is a consensus member")
		zzsym.Assert(was != nil && was.Index == it.Index && was.Address == it.Address, "an epoch change adds no member and keeps index and owner")
	}
	for k, was := range pre.pool {
		dropped := !zzActive(was.Status) || blacked[k]
		_, in := post.pool[k]
		zzsym.Assert(in == !dropped, "an epoch change keeps exactly the active members and drops quitting and blacklisted ones")
	}
}

// ---- setup ---------------------------------------------------------------------------------------------------------------

func zzNewWorld() *zzWorld {
	w := &zzWorld{ov: overlaydb.NewOverlayDB(&zzStore{}), height: 10, lastEpoch: 10}
	for k := 0; k < zzK; k++ {
		w.names[k] = zzValidatorKeyHex[k]
	}
	p := 4 + zzsym.Choose("initial-pool", 2) // "a pool of at least four validators": 4 or 5 consensus members
	db := storage.NewCacheDB(w.ov)
	st := make([]Status, p)
	for i := range st {
		st[i] = ConsensusStatus
	}
	zzPutPeerPool(db, 1, st) // view 1, indices 1..p, governance height 10
	ns := zzNative(db, nil)
	for i := 0; i < p; i++ {
		raw, _ := hex.DecodeString(zzValidatorKeyHex[i])
		db.Put(utils.ConcatKey(utils.NodeManagerContractAddress, []byte(PEER_INDEX), raw), cstates.GenRawStorageItem(utils.GetUint32Bytes(uint32(i+1))))
	}
	next := zzsym.U32("candidateIndex")
	zzsym.Assume(next > uint32(p) && next < 0xffffff00) // InitConfig sets it to max index + 1; no wrap-around within the history
	putCandidateIndex(ns, next)
	putConfig(ns, &Configuration{BlockMsgDelay: 5000, HashMsgDelay: 5000, PeerHandshakeTimeout: 10, MaxBlockChangeView: zzsym.U32("maxBlockChangeView")})
	db.Commit()
	return w
}

// ---- operations ----------------------------------------------------------------------------------------------------------

func zzPeerInput(pubkey string, who common.Address) []byte {
	sink := common.NewZeroCopySink(nil)
	(&PeerParam{PeerPubkey: pubkey, Address: who}).Serialization(sink)
	return sink.Bytes()
}

func zzPeerListInput(pubkeys []string, who common.Address) []byte {
	sink := common.NewZeroCopySink(nil)
	(&PeerListParam{PeerPubkeyList: pubkeys, Address: who}).Serialization(sink)
	return sink.Bytes()
}

// approvals by the current consensus members, one transaction each, until `done` (real CheckConsensusSigns, no stub);
// returns the first error (an approval round whose first approval fails changes nothing)
func (w *zzWorld) quorum(h zzHandler, input func(who common.Address) []byte, done func() bool) error {
	var approvers []common.Address
	now := w.snap()
	for k := 0; k < zzK; k++ {
		if it := now.pool[zzValidatorKeyHex[k]]; it != nil && it.Status == ConsensusStatus {
			approvers = append(approvers, zzValidatorAddr(k))
		}
	}
	for _, a := range approvers {
		if err := w.tx(h, input(a), a); err != nil {
			return err
		}
		if done() {
			return nil
		}
	}
	zzsym.Assert(false, "all current consensus validators approved, so the action has taken effect")
	return nil
}

func (w *zzWorld) blacklisted(pubkey string) bool {
	raw, _ := hex.DecodeString(pubkey)
	v, err := w.read().GetCacheDB().Get(utils.ConcatKey(utils.NodeManagerContractAddress, []byte(BLACK_LIST), raw))
	return err == nil && v != nil
}

func (w *zzWorld) operator() common.Address {
	a, err := GetCurConOperator(w.read())
	if err != nil {
		panic("zz: operator")
	}
	return a
}

const (
	zzRegister = iota
	zzUnregister
	zzApprove
	zzQuit
	zzBlack
	zzWhite
	zzKinds
)

// targets of the per-key operations: all six keys (thorough) or two permanent members, the key that is a member only in the
// five-member start pool, and one key that never starts in the pool (quick)
func zzTargets() []int {
	if zzsym.Param("ALLKEYS") == 1 {
		return []int{0, 1, 2, 3, 4, 5}
	}
	return []int{0, 1, 4, 5}
}

// step performs operation `op`; returns the error of a refused operation
func (w *zzWorld) step(op int) error {
	pre := w.snap()
	var err error
	blacked := map[string]bool{}
	tg := zzTargets()
	nKey := zzKinds * len(tg)
	switch {
	case op < nKey:
		kind, k := op/len(tg), tg[op%len(tg)]
		key, owner := w.names[k], zzValidatorAddr(k)
		switch kind {
		case zzRegister:
			sink := common.NewZeroCopySink(nil)
			(&RegisterPeerParam{PeerPubkey: key, Address: owner}).Serialization(sink)
			err = w.tx(RegisterCandidate, sink.Bytes(), owner)
			if err == nil {
				zzsym.Assert(!w.black[k], "blacklisted keys cannot register")
				zzsym.Cover("registered")
			}
		case zzUnregister:
			err = w.tx(UnRegisterCandidate, zzPeerInput(key, owner), owner)
		case zzApprove:
			err = w.quorum(ApproveCandidate, func(who common.Address) []byte { return zzPeerInput(key, who) },
				func() bool { return w.snap().pool[key] != nil })
			if err == nil {
				zzsym.Cover("candidate-admitted")
			}
		case zzQuit:
			err = w.tx(QuitNode, zzPeerInput(key, owner), owner)
			if err == nil {
				zzsym.Cover("quit")
			}
		case zzBlack:
			blacked[key] = true
			err = w.quorum(BlackNode, func(who common.Address) []byte { return zzPeerListInput([]string{key}, who) },
				func() bool { return w.blacklisted(key) })
			if err == nil {
				w.black[k] = true
				zzsym.Cover("blacked")
			}
		case zzWhite:
			err = w.quorum(WhiteNode, func(who common.Address) []byte { return zzPeerInput(key, who) },
				func() bool { return !w.blacklisted(key) })
			if err == nil {
				w.black[k] = false
				zzsym.Cover("whitened")
			}
		}
	case op < nKey+2: // commitDpos by the operator / by an outsider (allowed once the epoch is overdue)
		signer := w.operator()
		if op == nKey+1 {
			signer = zzValidatorAddr(zzOutsider)
		}
		err = w.tx(CommitDpos, nil, signer)
		if err == nil {
			zzsym.Assert(w.snap().view != pre.view, "a successful commitDpos changes the epoch")
			zzsym.Cover("committed")
		}
	default: // blackNode with two keys
		pairs := [3][2]int{{0, 1}, {3, 4}, {4, 5}}
		pr := pairs[op-(nKey+2)]
		k1, k2 := w.names[pr[0]], w.names[pr[1]]
		blacked[k1], blacked[k2] = true, true
		err = w.quorum(BlackNode, func(who common.Address) []byte { return zzPeerListInput([]string{k1, k2}, who) },
			func() bool { return w.blacklisted(k1) && w.blacklisted(k2) })
		if err == nil {
			w.black[pr[0]], w.black[pr[1]] = true, true
			zzsym.Cover("blacked-two")
		}
	}
	post := w.snap()
	if err != nil {
		zzsym.Assert(post.view == pre.view && post.gvHeight == pre.gvHeight, "a refused operation changes no epoch data")
		return err
	}
	zzCheckPool(post)
	if post.view != pre.view {
		w.checkEpoch(pre, post, blacked)
		zzsym.Cover("epoch-change")
	} else {
		zzsym.Assert(post.gvHeight == pre.gvHeight, "without an epoch change the governance view is untouched")
	}
	return nil
}

const zzOutsider = 7

// history: T operations, each in the same or a later block. A refused operation ends the history: it changed nothing,
// so every continuation is covered by a shorter history.
func zzHistory() (w *zzWorld, completed bool) {
	w = zzNewWorld()
	zzCheckPool(w.snap())
	T := zzsym.Param("T")
	for t := 0; t < T; t++ {
		w.height += uint32(zzsym.U8("blocks-later"))
		if err := w.step(zzsym.Choose("op", zzKinds*len(zzTargets())+2+3)); err != nil {
			zzsym.Cover("refused")
			return w, false
		}
	}
	return w, true
}

func ZZ_C34_Histories() {
	_, done := zzHistory()
	if done {
		zzsym.Cover("history-done")
	}
}

func ZZ_C34_Histories_witness() {
	w, _ := zzHistory()
	zzsym.Assert(w.snap().view == 1, "WITNESS: some history changes the epoch")
}
