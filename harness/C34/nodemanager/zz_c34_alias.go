package node_manager

import (
	"github.com/polynetwork/poly/common"
	"github.com/polynetwork/poly/zzsym"
)

// A public key has several accepted encodings: hex digits in either case (keys are compared as strings in the pool map
// but as decoded bytes in PEER_APPLY / PEER_INDEX / BLACK_LIST), and for P-256 keys both the bare 33-byte compressed
// point and the algorithm-prefixed form 0x12 0x02 || point (keypair.DeserializePublicKey accepts both).
func zzAlias(k int, form int) string {
	if form == 0 {
		b := []byte(zzValidatorKeyHex[k]) // upper-case hex digits (strings.ToUpper uses strings.Builder, which the engine cannot run)
		for i := range b {
			if b[i] >= 'a' && b[i] <= 'f' {
				b[i] -= 'a' - 'A'
			}
		}
		return string(b)
	}
	return "1202" + zzValidatorKeyHex[k]
}

func (w *zzWorld) registerAndApprove(pubkey string, owner common.Address) error {
	sink := common.NewZeroCopySink(nil)
	(&RegisterPeerParam{PeerPubkey: pubkey, Address: owner}).Serialization(sink)
	if err := w.tx(RegisterCandidate, sink.Bytes(), owner); err != nil {
		return err
	}
	return w.quorum(ApproveCandidate, func(who common.Address) []byte { return zzPeerInput(pubkey, who) },
		func() bool { return w.snap().pool[pubkey] != nil })
}

// ZZ_C34_KeyAliasSecondEntry: a key that is already a pool member applies again under another encoding of the same key.
func ZZ_C34_KeyAliasSecondEntry() {
	w := zzNewWorld()
	alias := zzAlias(0, zzsym.Choose("encoding", 2))
	w.height++
	err := w.registerAndApprove(alias, zzValidatorAddr(zzOutsider))
	if err != nil {
		zzsym.Cover("alias-refused")
		return
	}
	zzsym.Cover("alias-admitted")
	zzCheckPool(w.snap()) // "no public key occupies two pool entries", "distinct indices"
}

// ZZ_C34_KeyAliasBlacklisted: a blacklisted key applies again under another encoding of the same key.
func ZZ_C34_KeyAliasBlacklisted() {
	w := zzNewWorld()
	w.height++
	target := 1
	err := w.quorum(BlackNode, func(who common.Address) []byte { return zzPeerListInput([]string{w.names[target]}, who) },
		func() bool { return w.blacklisted(w.names[target]) })
	if err != nil {
		zzsym.Cover("black-refused") // four-member start pool: blacklisting would leave fewer than four
		return
	}
	zzsym.Cover("blacked")
	w.height++
	alias := zzAlias(target, zzsym.Choose("encoding", 2))
	sink := common.NewZeroCopySink(nil)
	(&RegisterPeerParam{PeerPubkey: alias, Address: zzValidatorAddr(zzOutsider)}).Serialization(sink)
	err = w.tx(RegisterCandidate, sink.Bytes(), zzValidatorAddr(zzOutsider))
	zzsym.Assert(err != nil, "blacklisted keys cannot register (whatever encoding of the key is presented)")
}
