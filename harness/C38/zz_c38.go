package increment

import (
	"github.com/polynetwork/poly/common"
	"github.com/polynetwork/poly/core/payload"
	"github.com/polynetwork/poly/core/types"
	"github.com/polynetwork/poly/zzsym"
)

// zzTx builds a real transaction whose identity (double SHA-256 of the unsigned part, set by the real
// decoder) depends on a symbolic nonce: two transactions are "the same" iff the solver makes their
// hashes equal.
func zzTx(tag string) *types.Transaction {
	tx := &types.Transaction{TxType: types.Invoke, Nonce: zzsym.U32(tag), Payload: &payload.InvokeCode{Code: []byte{}}}
	sink := common.NewZeroCopySink(nil)
	if err := tx.Serialization(sink); err != nil {
		panic("zz: tx does not serialize")
	}
	out, err := types.TransactionFromRawBytes(sink.Bytes())
	if err != nil {
		panic("zz: tx does not decode")
	}
	return out
}

// ---- reference model: the full history of accepted blocks; the window is derived from it ----

type zzBlock struct {
	height uint32
	hashes []common.Uint256
}

type zzModel struct {
	max      int
	accepted []zzBlock // every block ever accepted since the last Clean (contiguous heights)
}

// a block is accepted iff the tracker is empty or the block directly follows the last accepted one
func (m *zzModel) accepts(h uint32) bool {
	return len(m.accepted) == 0 || m.accepted[len(m.accepted)-1].height+1 == h
}

// window = the last min(len, max) accepted blocks
func (m *zzModel) window() []zzBlock {
	if len(m.accepted) > m.max {
		return m.accepted[len(m.accepted)-m.max:]
	}
	return m.accepted
}

// dup: hash is in a window block with height >= start (no early exit: one term per entry, no forks)
func (m *zzModel) dup(hash common.Uint256, start uint32) bool {
	found := false
	for _, b := range m.window() {
		for _, h := range b.hashes {
			found = zzOr(found, zzAnd(b.height >= start, h == hash))
		}
	}
	return found
}

// conjunction / disjunction as single terms (array equality does not fork, && and || would)
func zzAnd(a, b bool) bool { return [2]bool{a, b} == [2]bool{true, true} }
func zzOr(a, b bool) bool  { return [2]bool{a, b} != [2]bool{false, false} }

func zzUnlocked(v *IncrementValidator) {
	// the engine reports Lock of a held mutex: every method must have released it
	v.mutex.Lock()
	v.mutex.Unlock()
}

func zzCheckRange(v *IncrementValidator, m *zzModel) {
	s, e := v.BlockRange()
	zzUnlocked(v)
	w := m.window()
	if len(w) == 0 {
		zzsym.Assert(s == e, "an empty tracker reports an empty range")
		return
	}
	zzsym.Assert(zzAnd(s == w[0].height, e == w[len(w)-1].height+1), "BlockRange is [first tracked height, last tracked height+1)")
	zzsym.Assert(zzAnd(int(e-s) == len(w), len(w) <= m.max), "the tracker keeps exactly the most recent contiguous blocks, at most maxBlocks")
	zzsym.Assert(len(v.blocks) == len(w), "tracked block count equals the window size")
}

func zzCheckVerify(v *IncrementValidator, m *zzModel, q *types.Transaction, start uint32) {
	err := v.Verify(q, start)
	zzUnlocked(v)
	w := m.window()
	if len(w) > 0 && start < w[0].height {
		zzsym.Assert(err != nil, "a start height below the tracked range is refused (cannot be checked)")
		zzsym.Cover("below-range")
		return
	}
	d := m.dup(q.Hash(), start)
	if err != nil {
		zzsym.Assert(d, "no transaction other than one in a tracked block at or above the start height is reported")
		zzsym.Assert(err.Error() == "tx duplicated", "the report says duplicate")
		zzsym.Cover("dup")
	} else {
		zzsym.Assert(!d, "a transaction in a tracked block at or above the start height is reported as duplicate")
		zzsym.Cover("fresh")
	}
}

func zzAdd(v *IncrementValidator, m *zzModel, TX int) {
	h := zzsym.U32("height")
	// block heights are far from 2^32 (one block per second for a century is < 2^32)
	zzsym.Assume(h < 1<<31)
	n := zzsym.Choose("ntx", TX+1)
	blk := &types.Block{Header: &types.Header{Height: h}}
	mb := zzBlock{height: h}
	for i := 0; i < n; i++ {
		tx := zzTx("nonce")
		blk.Transactions = append(blk.Transactions, tx)
		mb.hashes = append(mb.hashes, tx.Hash())
	}
	ok := m.accepts(h)
	v.AddBlock(blk)
	zzUnlocked(v)
	if ok {
		m.accepted = append(m.accepted, mb)
		zzsym.Cover("accepted")
		if len(m.accepted) > m.max {
			zzsym.Cover("evicted")
		}
	} else {
		zzsym.Cover("gap-ignored")
	}
	zzCheckRange(v, m)
}

// Arbitrary block sequences (contiguous and gapped), then an arbitrary (transaction, start height) query.
func ZZ_C38_Window() {
	B := zzsym.Param("B")
	TX := zzsym.Param("TX")
	max := 1 + zzsym.Choose("maxBlocks", zzsym.Param("M"))
	v := NewIncrementValidator(max)
	m := &zzModel{max: max}
	zzCheckRange(v, m)
	for b := 0; b < B; b++ {
		zzAdd(v, m, TX)
	}
	q := zzTx("query")
	start := zzsym.U32("start")
	zzCheckVerify(v, m, q, start)
	zzsym.Cover("window-done")
}

// Same check, other bounds (longer sequences with at most one transaction per block).
func ZZ_C38_WindowLong() {
	ZZ_C38_Window()
}

// Clean forgets everything: afterwards nothing is a duplicate and any height is accepted as the new base.
func ZZ_C38_Clean() {
	max := 1 + zzsym.Choose("maxBlocks", 2)
	v := NewIncrementValidator(max)
	m := &zzModel{max: max}
	n := zzsym.Choose("before", 3)
	for b := 0; b < n; b++ {
		zzAdd(v, m, 1)
	}
	v.Clean()
	zzUnlocked(v)
	m.accepted = nil
	zzCheckRange(v, m)
	s, e := v.BlockRange()
	zzsym.Assert(zzAnd(s == 0, e == 0), "Clean resets the range")
	q := zzTx("query")
	zzCheckVerify(v, m, q, zzsym.U32("start"))
	zzAdd(v, m, 1)
	zzsym.Assert(len(m.accepted) == 1, "after Clean any height starts a new window")
	zzCheckVerify(v, m, zzTx("query2"), zzsym.U32("start2"))
	zzsym.Cover("clean-done")
}

// maxBlocks <= 0 selects the default capacity 20.
func ZZ_C38_DefaultCapacity() {
	n := zzsym.I32("maxBlocks")
	v := NewIncrementValidator(int(n))
	if n <= 0 {
		zzsym.Assert(v.maxBlocks == 20, "non-positive capacity falls back to 20")
	} else {
		zzsym.Assert(v.maxBlocks == int(n), "positive capacity is kept")
	}
	zzsym.Cover("cap-done")
}

func ZZ_C38_Window_witness() {
	v := NewIncrementValidator(2)
	m := &zzModel{max: 2}
	zzAdd(v, m, 1)
	zzAdd(v, m, 1)
	q := zzTx("query")
	err := v.Verify(q, zzsym.U32("start"))
	zzsym.Assert(err == nil, "witness: the query can hit a tracked transaction or fall below the range")
}
