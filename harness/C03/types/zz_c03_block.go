package types

// C03 at the block level: Block.RebuildMerkleRoot leaves in the header the root of the block's CURRENT
// transaction list, whatever the header carried before (a stale or foreign root, the zero root, the correct one):
// the committed transactions root is a function of the transactions alone. The reference root is the real
// common.ComputeMerkleRoot over the transaction identities (its agreement with the Bitcoin-style reference is
// the subject of ZZ_C03_RootMatchesReference).

import (
	"github.com/polynetwork/poly/common"
	"github.com/polynetwork/poly/zzsym"
)

func ZZ_C03_RebuildMerkleRoot() {
	n := zzsym.Choose("ntx", zzsym.Param("N")+1)
	var txs []*Transaction
	var ids []common.Uint256
	for i := 0; i < n; i++ {
		tx := &Transaction{}
		copy(tx.hash[:], zzsym.Bytes("txid", 32)) // identity as left by the decoder: any 32-byte value
		txs = append(txs, tx)
		ids = append(ids, tx.Hash())
	}
	h := &Header{}
	switch zzsym.Choose("previous-root", 3) {
	case 0: // fresh header
	case 1:
		copy(h.TransactionsRoot[:], zzsym.Bytes("staleroot", 32)) // any earlier value (e.g. of another transaction list)
	case 2:
		h.TransactionsRoot = common.ComputeMerkleRoot(append([]common.Uint256(nil), ids...))
	}
	b := &Block{Header: h, Transactions: txs}
	b.RebuildMerkleRoot()
	want := common.ComputeMerkleRoot(append([]common.Uint256(nil), ids...))
	zzsym.Assert(h.TransactionsRoot == want, "after RebuildMerkleRoot the header carries the Merkle root of the block's current transactions")
	for i, tx := range txs {
		zzsym.Assert(tx.Hash() == ids[i], "rebuilding the root does not touch the transactions")
	}
	if n == 0 {
		zzsym.Cover("empty-block")
	}
	zzsym.Cover("rebuilt")
}

func ZZ_C03_RebuildMerkleRoot_witness() {
	tx := &Transaction{}
	copy(tx.hash[:], zzsym.Bytes("txid", 32))
	b := &Block{Header: &Header{}, Transactions: []*Transaction{tx}}
	b.RebuildMerkleRoot()
	zzsym.Assert(b.Header.TransactionsRoot == common.UINT256_EMPTY, "witness: a one-transaction block has a non-zero root")
}
