package common

import (
	"crypto/sha256"

	"github.com/polynetwork/poly/zzsym"
)

func zzDoubleSha(a, b Uint256) Uint256 {
	var buf [64]byte
	copy(buf[:32], a[:])
	copy(buf[32:], b[:])
	t := sha256.Sum256(buf[:])
	return Uint256(sha256.Sum256(t[:]))
}

// Bitcoin-style reference: pair adjacent, duplicate the last when odd, double SHA-256.
func zzRefRoot(h []Uint256) Uint256 {
	if len(h) == 0 {
		return Uint256{}
	}
	if len(h) == 1 {
		return h[0]
	}
	var next []Uint256
	for i := 0; i < len(h); i += 2 {
		if i+1 < len(h) {
			next = append(next, zzDoubleSha(h[i], h[i+1]))
		} else {
			next = append(next, zzDoubleSha(h[i], h[i]))
		}
	}
	return zzRefRoot(next)
}

func ZZ_C03_RootMatchesReference() {
	N := zzsym.Param("N")
	n := zzsym.Choose("n", N+1)
	leaves := make([]Uint256, n)
	for i := range leaves {
		copy(leaves[i][:], zzsym.Bytes("leaf", 32))
	}
	ref := zzRefRoot(leaves)
	work := make([]Uint256, n)
	copy(work, leaves)
	got := ComputeMerkleRoot(work)
	zzsym.Assert(got == ref, "ComputeMerkleRoot equals the reference Merkle root")
	if n == 0 {
		zzsym.Assert(got == Uint256{}, "empty list has the zero root")
		zzsym.Cover("empty")
	}
	if n == 1 {
		zzsym.Assert(got == leaves[0], "single leaf is its own root")
	}
	if n%2 == 1 && n > 1 {
		zzsym.Cover("odd")
	}
	zzsym.Cover("done")
}

func ZZ_C03_RootMatchesReference_witness() {
	leaves := make([]Uint256, 3)
	for i := range leaves {
		copy(leaves[i][:], zzsym.Bytes("leaf", 32))
	}
	got := ComputeMerkleRoot(leaves)
	zzsym.Assert(got == Uint256{}, "witness: a 3-leaf root can differ from zero")
}
