package storage

// C11 at the ledger's entry point: a block is executed as transactions writing through CacheDB; each
// transaction layer is either committed into the block layer (success) or reset (failure). The block's
// digest and recorded write set depend only on the net effect of the COMMITTED writes.

import (
	"bytes"
	"crypto/sha256"

	"github.com/polynetwork/poly/common"
	scom "github.com/polynetwork/poly/core/store/common"
	"github.com/polynetwork/poly/core/store/overlaydb"
	"github.com/polynetwork/poly/zzsym"
)

type zz11Entry struct {
	key, val []byte // val empty = tombstone
}

type zz11Net struct{ ents []zz11Entry }

func (m *zz11Net) find(k []byte) int {
	for i := range m.ents {
		if bytes.Equal(m.ents[i].key, k) {
			return i
		}
	}
	return -1
}

func (m *zz11Net) put(k, v []byte) {
	if i := m.find(k); i >= 0 {
		m.ents[i].val = v
	} else {
		m.ents = append(m.ents, zz11Entry{k, v})
	}
}

func (m *zz11Net) sorted() []zz11Entry {
	out := append([]zz11Entry(nil), m.ents...)
	for i := 1; i < len(out); i++ {
		for j := i; j > 0 && bytes.Compare(out[j].key, out[j-1].key) < 0; j-- {
			out[j], out[j-1] = out[j-1], out[j]
		}
	}
	return out
}

func ZZ_C11_BlockDigestThroughCache() {
	T := zzsym.Param("T")
	ov := overlaydb.NewOverlayDB(nil) // writes and commits never touch the backing store
	db := NewCacheDB(ov)
	tx, blk := &zz11Net{}, &zz11Net{}
	for t := 0; t < T; t++ {
		switch zzsym.Choose("op", 4) {
		case 0:
			k, v := zzsym.Bytes("k", 2), zzsym.Bytes("v", 1)
			db.Put(k, v)
			tx.put(append([]byte{byte(scom.ST_STORAGE)}, k...), v)
		case 1:
			k := zzsym.Bytes("k", 2)
			db.Delete(k)
			tx.put(append([]byte{byte(scom.ST_STORAGE)}, k...), nil)
			zzsym.Cover("delete")
		case 2:
			db.Commit()
			for _, e := range tx.ents {
				blk.put(e.key, e.val)
			}
			zzsym.Cover("commit")
		case 3:
			db.Reset()
			tx = &zz11Net{}
			zzsym.Cover("reset")
		}
	}
	want := blk.sorted()
	h := sha256.New()
	for _, e := range want {
		h.Write(e.key)
		h.Write(e.val)
	}
	var ref common.Uint256
	h.Sum(ref[:0])
	zzsym.Assert(ov.ChangeHash() == ref, "block digest = sha256 of the key-sorted net write set of the committed transactions")
	i := 0
	ov.GetWriteSet().ForEach(func(key, val []byte) {
		if i < len(want) {
			zzsym.Assert(bytes.Equal(key, want[i].key) && bytes.Equal(val, want[i].val), "recorded block write set = key-sorted net write set of the committed transactions")
		}
		i++
	})
	zzsym.Assert(i == len(want), "recorded block write set has one entry per committed key")
	if len(want) > 0 {
		zzsym.Cover("non-empty-block")
	}
	zzsym.Cover("block-done")
}

func ZZ_C11_BlockDigestThroughCache_witness() {
	ov := overlaydb.NewOverlayDB(nil)
	db := NewCacheDB(ov)
	empty := ov.ChangeHash()
	db.Put(zzsym.Bytes("k", 2), zzsym.Bytes("v", 1))
	if zzsym.Bool("commit") {
		db.Commit()
	}
	zzsym.Assert(ov.ChangeHash() == empty, "witness: a committed write changes the digest")
}
