package overlaydb

// C11: the block's state-change digest (OverlayDB.ChangeHash) and the recorded write set depend only on
// the net write set: the final value (or tombstone) of every key written during the block.

import (
	"bytes"
	"crypto/sha256"

	"github.com/polynetwork/poly/common"
	"github.com/polynetwork/poly/zzsym"
)

type zz11Entry struct {
	key, val []byte // val empty = the key's final state is "deleted" (tombstone)
}

// net write set: association list, one entry per key ever written
type zz11Net struct{ ents []zz11Entry }

func (m *zz11Net) find(k []byte) int {
	for i := range m.ents {
		if bytes.Equal(m.ents[i].key, k) {
			return i
		}
	}
	return -1
}

func (m *zz11Net) put(k, v []byte) {
	if i := m.find(k); i >= 0 {
		m.ents[i].val = v
	} else {
		m.ents = append(m.ents, zz11Entry{k, v})
	}
}

func (m *zz11Net) sorted() []zz11Entry {
	out := append([]zz11Entry(nil), m.ents...)
	for i := 1; i < len(out); i++ {
		for j := i; j > 0 && bytes.Compare(out[j].key, out[j-1].key) < 0; j-- {
			out[j], out[j-1] = out[j-1], out[j]
		}
	}
	return out
}

type zz11Op struct {
	key, val []byte // val nil = delete
}

// zz11Ops: n symbolic operations; keys 1..KL symbolic bytes, values 1..2 symbolic bytes.
func zz11Ops(name string, n int) []zz11Op {
	KL := zzsym.Param("KL")
	ops := make([]zz11Op, n)
	for i := range ops {
		ops[i].key = zzsym.Bytes(name+".k", 1+zzsym.Choose(name+".k.len", KL))
		if zzsym.Choose(name+".op", 2) == 0 {
			ops[i].val = zzsym.Bytes(name+".v", 1+zzsym.Choose(name+".v.len", zzsym.Param("VL")))
		} else {
			zzsym.Cover("delete")
		}
	}
	return ops
}

func zz11Net_(ops []zz11Op) *zz11Net {
	m := &zz11Net{}
	for _, o := range ops {
		m.put(o.key, o.val)
	}
	return m
}

func zz11Apply(ops []zz11Op) *OverlayDB {
	ov := NewOverlayDB(nil) // writes never touch the backing store
	for _, o := range ops {
		if o.val == nil {
			ov.Delete(o.key)
		} else {
			ov.Put(o.key, o.val)
		}
	}
	return ov
}

func zz11WriteSet(ov *OverlayDB) []zz11Entry {
	var out []zz11Entry
	ov.GetWriteSet().ForEach(func(key, val []byte) {
		out = append(out, zz11Entry{append([]byte(nil), key...), append([]byte(nil), val...)})
	})
	return out
}

// Canonical form: for EVERY write sequence the digest is sha256 over the key-sorted net write set
// (key ‖ final value, tombstones contribute the key alone) and the recorded write set is that list.
// Two sequences with the same net write set therefore have the same digest and write set.
func ZZ_C11_DigestIsFunctionOfNetWriteSet() {
	ops := zz11Ops("a", zzsym.Param("T"))
	net := zz11Net_(ops)
	ov := zz11Apply(ops)

	want := net.sorted()
	h := sha256.New()
	for _, e := range want {
		h.Write(e.key)
		h.Write(e.val)
	}
	var ref common.Uint256
	h.Sum(ref[:0])
	zzsym.Assert(ov.ChangeHash() == ref, "digest = sha256 of the key-sorted net write set, whatever the order of writes and intermediate overwrites/deletions")

	got := zz11WriteSet(ov)
	zzsym.Assert(len(got) == len(want), "recorded write set has one entry per written key")
	for i := range got {
		if i < len(want) {
			zzsym.Assert(bytes.Equal(got[i].key, want[i].key), "recorded write set is in ascending key order")
			zzsym.Assert(bytes.Equal(got[i].val, want[i].val), "recorded write set holds each key's final value (empty for a deleted key)")
		}
	}
	if len(want) < len(ops) {
		zzsym.Cover("overwrite")
	}
	zzsym.Cover("digest-done")
}

// Pair form (the statement itself): two independent write sequences with the same net write set
// produce the same digest and the same recorded write set.
func ZZ_C11_EquivalentSequencesSameDigest() {
	a := zz11Ops("a", zzsym.Param("TA"))
	b := zz11Ops("b", zzsym.Param("TB"))
	na, nb := zz11Net_(a), zz11Net_(b)
	// Assume: same net effect = same set of written keys, same final value / tombstone per key
	zzsym.Assume(len(na.ents) == len(nb.ents))
	for _, e := range na.ents {
		j := nb.find(e.key)
		zzsym.Assume(j >= 0)
		zzsym.Assume(bytes.Equal(e.val, nb.ents[j].val))
	}
	oa, ob := zz11Apply(a), zz11Apply(b)
	zzsym.Assert(oa.ChangeHash() == ob.ChangeHash(), "sequences with the same net write set have the same state-change digest")
	wa, wb := zz11WriteSet(oa), zz11WriteSet(ob)
	zzsym.Assert(len(wa) == len(wb), "sequences with the same net write set record write sets of the same size")
	for i := range wa {
		if i < len(wb) {
			zzsym.Assert(bytes.Equal(wa[i].key, wb[i].key) && bytes.Equal(wa[i].val, wb[i].val), "sequences with the same net write set record identical write sets")
		}
	}
	if len(na.ents) < len(a) || len(nb.ents) < len(b) {
		zzsym.Cover("redundant-write")
	}
	if len(na.ents) >= 2 && !bytes.Equal(a[0].key, b[0].key) {
		zzsym.Cover("reordered")
	}
	zzsym.Cover("pair-done")
}

// Witness: without the same-net-effect assumption the digests may differ.
func ZZ_C11_EquivalentSequencesSameDigest_witness() {
	a := zz11Ops("a", 1)
	b := zz11Ops("b", 1)
	oa, ob := zz11Apply(a), zz11Apply(b)
	zzsym.Assert(oa.ChangeHash() == ob.ChangeHash(), "witness: unrelated write sequences may have different digests")
}

// Witness: the digest is not independent of the final values.
func ZZ_C11_DigestIsFunctionOfNetWriteSet_witness() {
	ops := zz11Ops("a", 2)
	ov := zz11Apply(ops)
	first := zz11Apply(ops[:1])
	zzsym.Assert(ov.ChangeHash() == first.ChangeHash(), "witness: a second write may change the digest")
}
