package ledgerstore

// C11, the ledger side of the digest: StateStore.AddStateMerkleTreeRoot records, for a block height, the block's
// state-change digest and the state merkle root. What is recorded depends only on (earlier digests, this digest):
// it equals the root announced by GetStateMerkleRootWithNewHash before the block was saved (executeBlock's
// result.MerkleRoot), and two nodes that processed the same digests record byte-identical rows.

import (
	"bytes"

	"github.com/polynetwork/poly/common"
	scom "github.com/polynetwork/poly/core/store/common"
	"github.com/polynetwork/poly/merkle"
	"github.com/polynetwork/poly/zzsym"
)

// ---- harness PersistStore (not under test): unordered slice + write batch ------------------

type zz11Store struct {
	keys, vals [][]byte
	bkeys      [][]byte
	bvals      [][]byte // nil value = delete
}

func (s *zz11Store) find(key []byte) int {
	for i := range s.keys {
		if bytes.Equal(s.keys[i], key) {
			return i
		}
	}
	return -1
}
func (s *zz11Store) Put(key []byte, value []byte) error {
	k := append([]byte(nil), key...)
	v := append([]byte(nil), value...)
	if i := s.find(key); i >= 0 {
		s.vals[i] = v
	} else {
		s.keys = append(s.keys, k)
		s.vals = append(s.vals, v)
	}
	return nil
}
func (s *zz11Store) Has(key []byte) (bool, error) { return s.find(key) >= 0, nil }
func (s *zz11Store) Get(key []byte) ([]byte, error) {
	if i := s.find(key); i >= 0 {
		return s.vals[i], nil
	}
	return nil, scom.ErrNotFound
}
func (s *zz11Store) Delete(key []byte) error {
	if i := s.find(key); i >= 0 {
		s.keys = append(s.keys[:i], s.keys[i+1:]...)
		s.vals = append(s.vals[:i], s.vals[i+1:]...)
	}
	return nil
}
func (s *zz11Store) NewBatch() { s.bkeys, s.bvals = nil, nil }
func (s *zz11Store) BatchPut(key []byte, value []byte) {
	s.bkeys = append(s.bkeys, append([]byte(nil), key...))
	s.bvals = append(s.bvals, append([]byte{}, value...))
}
func (s *zz11Store) BatchDelete(key []byte) {
	s.bkeys = append(s.bkeys, append([]byte(nil), key...))
	s.bvals = append(s.bvals, nil)
}
func (s *zz11Store) BatchCommit() error {
	for i := range s.bkeys {
		if s.bvals[i] == nil {
			s.Delete(s.bkeys[i])
		} else {
			s.Put(s.bkeys[i], s.bvals[i])
		}
	}
	s.bkeys, s.bvals = nil, nil
	return nil
}
func (s *zz11Store) Close() error { return nil }

type zz11StoreIter struct {
	keys, vals [][]byte
	pos        int
}

func (s *zz11Store) NewIterator(prefix []byte) scom.StoreIterator {
	it := &zz11StoreIter{pos: -1}
	for i := range s.keys {
		if bytes.HasPrefix(s.keys[i], prefix) {
			it.keys = append(it.keys, s.keys[i])
			it.vals = append(it.vals, s.vals[i])
		}
	}
	for i := 1; i < len(it.keys); i++ {
		for j := i; j > 0 && bytes.Compare(it.keys[j], it.keys[j-1]) < 0; j-- {
			it.keys[j], it.keys[j-1] = it.keys[j-1], it.keys[j]
			it.vals[j], it.vals[j-1] = it.vals[j-1], it.vals[j]
		}
	}
	return it
}
func (it *zz11StoreIter) Next() bool  { it.pos++; return it.pos < len(it.keys) }
func (it *zz11StoreIter) First() bool { it.pos = 0; return len(it.keys) > 0 }
func (it *zz11StoreIter) Key() []byte {
	if it.pos < 0 || it.pos >= len(it.keys) {
		return nil // like goleveldb: an exhausted iterator yields nil
	}
	return it.keys[it.pos]
}
func (it *zz11StoreIter) Value() []byte {
	if it.pos < 0 || it.pos >= len(it.keys) {
		return nil
	}
	return it.vals[it.pos]
}
func (it *zz11StoreIter) Release()     {}
func (it *zz11StoreIter) Error() error { return nil }


func zz11Digest(name string) common.Uint256 {
	var h common.Uint256
	copy(h[:], zzsym.Bytes(name, 32))
	return h
}

func zz11Node() (*StateStore, *zz11Store) {
	st := &zz11Store{}
	return &StateStore{store: st, merkleTree: merkle.NewTree(0, nil, nil), deltaMerkleTree: merkle.NewTree(0, nil, nil)}, st
}

func ZZ_C11_StateRootRecorded() {
	n := zzsym.Choose("earlier-blocks", zzsym.Param("H")+1)
	a, sa := zz11Node()
	b, sb := zz11Node()
	for i := 0; i < n; i++ { // the same earlier digests on both nodes
		d := zz11Digest("earlier")
		for _, ss := range []*StateStore{a, b} {
			ss.NewBatch()
			zzsym.Assert(ss.AddStateMerkleTreeRoot(uint32(i), d) == nil, "AddStateMerkleTreeRoot succeeds")
			zzsym.Assert(ss.store.BatchCommit() == nil, "batch commit")
		}
	}
	d := zz11Digest("digest")
	announced := a.GetStateMerkleRootWithNewHash(d) // what executeBlock reports as result.MerkleRoot
	for _, ss := range []*StateStore{a, b} {
		ss.NewBatch()
		zzsym.Assert(ss.AddStateMerkleTreeRoot(uint32(n), d) == nil, "AddStateMerkleTreeRoot succeeds")
		zzsym.Assert(ss.store.BatchCommit() == nil, "batch commit")
	}
	root, err := a.GetStateMerkleRoot(uint32(n))
	zzsym.Assert(err == nil && root == announced, "the recorded state root is the one announced for the block's digest")
	row, err := sa.Get(a.genStateMerkleRootKey(uint32(n)))
	zzsym.Assert(err == nil && len(row) == 64 && bytes.Equal(row[:32], d[:]), "the block's state-change digest is recorded next to the root")
	// same digests => byte-identical ledger rows on every node
	zzsym.Assert(len(sa.keys) == len(sb.keys), "nodes with the same digest history hold the same rows")
	for i := range sa.keys {
		v, err := sb.Get(sa.keys[i])
		zzsym.Assert(err == nil && bytes.Equal(v, sa.vals[i]), "nodes with the same digest history record identical state-root rows")
		zzsym.Assert(sa.keys[i][0] == byte(scom.DATA_STATE_MERKLE_ROOT) || sa.keys[i][0] == byte(scom.SYS_STATE_MERKLE_TREE), "only state-root bookkeeping rows are written")
	}
	if n > 0 {
		zzsym.Cover("with-history")
	}
	zzsym.Cover("recorded")
}

// Witness: a different digest gives (without assuming anything about sha256) possibly a different root.
func ZZ_C11_StateRootRecorded_witness() {
	a, _ := zz11Node()
	zzsym.Assert(a.GetStateMerkleRootWithNewHash(zz11Digest("d1")) == a.GetStateMerkleRootWithNewHash(zz11Digest("d2")), "witness: the root depends on the digest")
}
