package merkle

import (
	"bytes"
	"crypto/sha256"

	"github.com/polynetwork/poly/common"
	"github.com/polynetwork/poly/zzsym"
)

// ---------------------------------------------------------------------------------------------
// C07: soundness of the proof verifiers.
//
// Setting: an HONEST tree over n 32-byte leaves (n enumerated; leaves symbolic for n <= SYM, see
// zz7Leaves); its root is the RFC 6962 Merkle Tree Hash computed by the oracle below. The ADVERSARY controls everything else that reaches a
// verifier: claimed leaf / leaf hash, index, every proof hash, every position flag, old size, old root
// (all symbolic; only lengths are enumerated). Every assertion has the form
//        verifier accepts  =>  the claim is true about the honest tree
// and is decided under the collision-resistance axiom for SHA-256 (spec: "collision_free": ["sha256"]):
// H(a) = H(b) => a = b, instantiated for every pair of hash applications on the path; inputs of
// different length never collide.
// ---------------------------------------------------------------------------------------------

func zz7LeafHash(d []byte) common.Uint256 {
	return sha256.Sum256(append([]byte{0}, d...))
}

func zz7NodeHash(l, r common.Uint256) common.Uint256 {
	b := append([]byte{1}, l[:]...)
	b = append(b, r[:]...)
	return sha256.Sum256(b)
}

func zz7Split(n int) int { // largest power of two < n
	k := 1
	for k*2 < n {
		k *= 2
	}
	return k
}

// RFC 6962 2.1: MTH
func zz7MTH(leaves [][]byte) common.Uint256 {
	n := len(leaves)
	if n == 0 {
		return sha256.Sum256(nil)
	}
	if n == 1 {
		return zz7LeafHash(leaves[0])
	}
	k := zz7Split(n)
	return zz7NodeHash(zz7MTH(leaves[:k]), zz7MTH(leaves[k:]))
}

// RFC 6962 2.1.1: PATH(m, D[n]), leaf-to-root order
func zz7Path(m int, leaves [][]byte) []common.Uint256 {
	n := len(leaves)
	if n <= 1 {
		return nil
	}
	k := zz7Split(n)
	if m < k {
		return append(zz7Path(m, leaves[:k]), zz7MTH(leaves[k:]))
	}
	return append(zz7Path(m-k, leaves[k:]), zz7MTH(leaves[:k]))
}

// side of the sibling on each level of PATH(m, D[n]), leaf-to-root: true = sibling is on the LEFT
func zz7Sides(m int, n int) []bool {
	if n <= 1 {
		return nil
	}
	k := zz7Split(n)
	if m < k {
		return append(zz7Sides(m, k), false)
	}
	return append(zz7Sides(m-k, n-k), true)
}

// RFC 6962 2.1.2: PROOF(m, D[n]) = SUBPROOF(m, D[n], true), in the order the verifier consumes it
func zz7SubProof(m int, leaves [][]byte, b bool) []common.Uint256 {
	n := len(leaves)
	if m == n {
		if b {
			return nil
		}
		return []common.Uint256{zz7MTH(leaves)}
	}
	k := zz7Split(n)
	if m <= k {
		return append(zz7SubProof(m, leaves[:k], b), zz7MTH(leaves[k:]))
	}
	return append(zz7SubProof(m-k, leaves[k:], false), zz7MTH(leaves[:k]))
}

// every node hash of the honest tree (leaves and interior nodes)
func zz7AllNodes(leaves [][]byte, out []common.Uint256) []common.Uint256 {
	n := len(leaves)
	if n == 0 {
		return out
	}
	out = append(out, zz7MTH(leaves))
	if n == 1 {
		return out
	}
	k := zz7Split(n)
	out = zz7AllNodes(leaves[:k], out)
	return zz7AllNodes(leaves[k:], out)
}

func zz7Depth(n int) int { // ceil(log2 n)
	d := 0
	for (1 << uint(d)) < n {
		d++
	}
	return d
}

// zz7Leaves: the honest leaves. Trees of up to SYM leaves have fully symbolic leaves (the statement is
// then proved for every honest tree of that size). Larger trees use fixed, pairwise different leaves:
// the verifiers never see the leaves, only the root, so this exercises their index/size arithmetic on
// deeper shapes against ALL adversarial inputs at a cost the solver can afford (every honest node hash
// is then a constant, and one collision-resistance step pins a proof element to a constant).
func zz7Leaves(n int) [][]byte {
	sym := n <= zzsym.Param("SYM")
	out := make([][]byte, n)
	for i := range out {
		if sym {
			out[i] = zzsym.Bytes("leaf", 32)
			continue
		}
		out[i] = make([]byte, 32)
		for j := range out[i] {
			out[i][j] = byte(37*i + 11*j + 5)
		}
	}
	return out
}

func zz7Hashes(name string, k int) []common.Uint256 {
	out := make([]common.Uint256, k)
	for i := range out {
		copy(out[i][:], zzsym.Bytes(name, 32))
	}
	return out
}

func zz7Flat(hs []common.Uint256) []byte {
	out := make([]byte, 0, 32*len(hs))
	for i := range hs {
		out = append(out, hs[i][:]...)
	}
	return out
}

// ---------------------------------------------------------------------------------------------
// Proof guidance ("ghost" reasoning). Deciding "the verifier's final hash equals the honest root" needs
// one collision-resistance step per tree level; the solver is slow at finding such chains on its own.
// Each harness therefore recomputes, before calling the verifier, the chain of node hashes that an
// accepting run must produce (zz7Op list), and walks it from the root downwards: every step is first
// PROVED as an assertion (operands of the step = children of the honest node) and only then assumed,
// so the lemmas restrict nothing: a wrong lemma is reported as a violation, a missing one as a timeout.
// The real verifier is always called afterwards and the property is asserted on its own verdict.
// ---------------------------------------------------------------------------------------------

type zz7Op struct {
	left, right, out common.Uint256
	chainLeft        bool // the running hash is the left operand
}

func zz7Lemma(c bool) {
	zzsym.Assert(c, "lemma (collision resistance): an accepted hash chain runs along the honest tree")
	zzsym.Assume(c) // proved just above, restricts nothing
}

// zz7Step appends running' = H(running, sib) or H(sib, running)
func zz7Step(ops []zz7Op, running, sib common.Uint256, sibOnLeft bool) ([]zz7Op, common.Uint256) {
	var op zz7Op
	if sibOnLeft {
		op = zz7Op{left: sib, right: running, chainLeft: false}
	} else {
		op = zz7Op{left: running, right: sib, chainLeft: true}
	}
	op.out = zz7NodeHash(op.left, op.right)
	return append(ops, op), op.out
}

// zz7Pin: under the hypothesis ops[last].out == MTH(sub), pins every operand to the honest node it must
// be and returns the honest sub-tree that the start value of the chain stands for. If the chain is
// longer than the honest tree is deep at that place, the hypothesis is contradictory (a node hash
// H(0x01..) would equal a leaf hash H(0x00..)) and the path ends.
func zz7Pin(ops []zz7Op, sub [][]byte) [][]byte {
	for t := len(ops) - 1; t >= 0; t-- {
		if len(sub) == 1 {
			zz7Lemma(ops[t].out != zz7MTH(sub))
			return nil // not reached
		}
		k := zz7Split(len(sub))
		zz7Lemma(ops[t].left == zz7MTH(sub[:k]))
		zz7Lemma(ops[t].right == zz7MTH(sub[k:]))
		if ops[t].chainLeft {
			sub = sub[:k]
		} else {
			sub = sub[k:]
		}
	}
	return sub
}

// zz7GhostAudit guides an audit-path check: start value, siblings leaf-to-root, sides[j] = sibling on the left.
// Returns the honest sub-tree the start value stands for when the chain reaches the root (nil otherwise).
func zz7GhostAudit(start common.Uint256, sibs []common.Uint256, sides []bool, leaves [][]byte) [][]byte {
	var ops []zz7Op
	running := start
	for j := range sibs {
		ops, running = zz7Step(ops, running, sibs[j], sides[j])
	}
	if running == zz7MTH(leaves) {
		return zz7Pin(ops, leaves)
	}
	return nil
}

// ---------------------------------------------------------------------------------------------
// Inclusion, size paired with the root: VerifyLeafHashInclusion(leafHash, index, proof, root(n), n)
// accepts => index < n, leafHash is the hash of honest leaf[index], and the proof is exactly PATH(index).
// Hence any altered leaf hash, index or proof hash (one or several) is rejected.
// ---------------------------------------------------------------------------------------------
func ZZ_C07_InclusionSound() {
	N := zzsym.Param("N")
	n := 1 + zzsym.Choose("n", N)
	k := zzsym.Choose("k", zz7Depth(n)+2) // adversary's proof length 0 .. depth+1
	leaves := zz7Leaves(n)
	root := zz7MTH(leaves)
	var leafHash common.Uint256
	copy(leafHash[:], zzsym.Bytes("leafHash", 32))
	index := zzsym.U32("index")
	proof := zz7Hashes("proof", k)
	v := NewMerkleVerifier()

	if index >= uint32(n) {
		zzsym.Assert(v.VerifyLeafHashInclusion(leafHash, index, proof, root, uint32(n)) != nil, "an index outside the tree is rejected")
		zzsym.Cover("inclusion-index-outside")
		return
	}
	i := zzsym.Concretize(int(index), n-1)
	if sides := zz7Sides(i, n); len(sides) == k {
		zz7GhostAudit(leafHash, proof, sides, leaves) // guidance only
	}

	err := v.VerifyLeafHashInclusion(leafHash, index, proof, root, uint32(n))
	if err == nil {
		zzsym.Assert(leafHash == zz7LeafHash(leaves[i]), "inclusion accepted => the claimed leaf hash is the hash of leaf[index]")
		zzsym.Assert(bytes.Equal(zz7Flat(proof), zz7Flat(zz7Path(i, leaves))), "inclusion accepted => the proof is exactly the audit path of leaf[index]")
		zzsym.Cover("inclusion-accepted")
		if n > 1 && i == n-1 {
			zzsym.Cover("inclusion-accepted-last")
		}
	} else {
		zzsym.Cover("inclusion-rejected")
	}
	zzsym.Cover("inclusion-done")
}

// Witness twin: the verifier must be able to accept at all: claiming that it always rejects is violable.
func ZZ_C07_InclusionSound_witness() {
	leaves := zz7Leaves(3)
	root := zz7MTH(leaves)
	var leafHash common.Uint256
	copy(leafHash[:], zzsym.Bytes("leafHash", 32))
	proof := zz7Hashes("proof", 2)
	err := NewMerkleVerifier().VerifyLeafHashInclusion(leafHash, zzsym.U32("index"), proof, root, 3)
	zzsym.Assert(err != nil, "witness: some proof is accepted")
}

// ---------------------------------------------------------------------------------------------
// Inclusion with an arbitrary claimed size (not necessarily the size the root belongs to):
//   VerifyLeafInclusion(leaf bytes, index, proof, root(n), size) accepts => leaf is one of the honest leaves.
//     In particular a 64-byte "leaf" l||r can never stand in for the interior node H(0x01||l||r)
//     (0x00/0x01 domain separation), and leaves of another length never verify.
//   VerifyLeafHashInclusion(hash, ...) accepts => hash is the hash of SOME node of the honest tree.
// (Index binding needs the size that belongs to the root: see ZZ_C07_IndexNeedsPairedSize_witness.)
// ---------------------------------------------------------------------------------------------
var zz7LeafLens = []int{32, 64, 0, 1, 33, 65}

func ZZ_C07_InclusionAnySize() {
	N := zzsym.Param("N")
	n := 1 + zzsym.Choose("n", N)
	size := 1 + zzsym.Choose("size", zzsym.Param("S"))
	k := zzsym.Choose("k", zz7Depth(size)+2)
	leaves := zz7Leaves(n)
	root := zz7MTH(leaves)
	proof := zz7Hashes("proof", k)
	index := zzsym.U32("index")
	v := NewMerkleVerifier()
	useHash := zzsym.Choose("variant", 2) == 1

	var leaf []byte
	var start common.Uint256
	if useHash {
		copy(start[:], zzsym.Bytes("leafHash", 32))
	} else {
		leaf = zzsym.Bytes("claimed", zz7LeafLens[zzsym.Choose("leaflen", zzsym.Param("LL"))])
		start = zz7LeafHash(leaf)
	}
	if index >= uint32(size) {
		zzsym.Assert(v.VerifyLeafHashInclusion(start, index, proof, root, uint32(size)) != nil, "an index outside the claimed size is rejected")
		return
	}
	i := zzsym.Concretize(int(index), size-1)
	var reached [][]byte
	if sides := zz7Sides(i, size); len(sides) == k {
		reached = zz7GhostAudit(start, proof, sides, leaves) // guidance only
	}

	if useHash {
		err := v.VerifyLeafHashInclusion(start, index, proof, root, uint32(size))
		if err == nil {
			zzsym.Assert(reached != nil && start == zz7MTH(reached), "hash inclusion accepted for any claimed size => the hash is a node of the honest tree")
			zzsym.Cover("anysize-hash-accepted")
			if reached != nil && len(reached) > 1 {
				zzsym.Cover("anysize-hash-interior") // legitimate: the caller supplied a node hash
			}
		}
	} else {
		err := v.VerifyLeafInclusion(leaf, index, proof, root, uint32(size))
		if err == nil {
			zzsym.Assert(reached != nil && len(reached) == 1 && bytes.Equal(leaf, reached[0]),
				"inclusion accepted for any claimed size => the claimed leaf is one of the honest leaves (never an interior node)")
			zzsym.Cover("anysize-accepted")
			if size != n {
				zzsym.Cover("anysize-accepted-unpaired")
			}
		}
	}
	zzsym.Cover("anysize-done")
}

// Documented limit (inherent to RFC 6962 audit paths, not a defect): when the claimed size is not the
// size the root belongs to, the index claim may be wrong (root of 3 leaves, claimed size 2, index 1
// proves leaf[2]). The twin shows that the paired-size precondition of ZZ_C07_InclusionSound is needed.
func ZZ_C07_IndexNeedsPairedSize_witness() {
	leaves := zz7Leaves(3)
	root := zz7MTH(leaves)
	var leafHash common.Uint256
	copy(leafHash[:], zzsym.Bytes("leafHash", 32))
	proof := zz7Hashes("proof", 1)
	err := NewMerkleVerifier().VerifyLeafHashInclusion(leafHash, 1, proof, root, 2)
	zzsym.Assert(err != nil, "witness: with a size that does not belong to the root the index claim can be false")
}

// ---------------------------------------------------------------------------------------------
// MerkleProve (the verifier used for cross-chain messages): path = varbytes(value) || k x (flag, hash)
// || trailing bytes. Accepts => value is one of the honest leaves, reached by exactly the audit path of
// that leaf with the sibling sides the flags say (flag 0 = sibling on the left, any other flag = right).
// Values of length 64 (an interior node's pre-image) or any other length are rejected.
// ---------------------------------------------------------------------------------------------
var zz7ValLens = []int{32, 64, 1, 0, 33, 4}
var zz7TrailLens = []int{0, 1, 32}

func ZZ_C07_MerkleProveSound() {
	N := zzsym.Param("N")
	n := 1 + zzsym.Choose("n", N)
	k := zzsym.Choose("k", zz7Depth(n)+2)
	leaves := zz7Leaves(n)
	root := zz7MTH(leaves)
	value := zzsym.Bytes("value", zz7ValLens[zzsym.Choose("vallen", zzsym.Param("VL"))])
	flags := zzsym.Bytes("flag", k)
	hashes := zz7Hashes("proof", k)
	trail := zzsym.Bytes("trail", zz7TrailLens[zzsym.Choose("traillen", zzsym.Param("TL"))])

	sink := common.NewZeroCopySink(nil)
	sink.WriteVarBytes(value)
	for j := 0; j < k; j++ {
		sink.WriteByte(flags[j])
		sink.WriteHash(hashes[j])
	}
	sink.WriteBytes(trail)

	// guidance: the sides the flags ask for (this is where the run forks on the flags)
	sides := make([]bool, k)
	for j := range sides {
		sides[j] = flags[j] == LEFT
	}
	reached := zz7GhostAudit(zz7LeafHash(value), hashes, sides, leaves)

	got, err := MerkleProve(sink.Bytes(), root[:])
	if err == nil {
		zzsym.Assert(bytes.Equal(got, value), "MerkleProve returns the value carried by the path")
		zzsym.Assert(reached != nil && len(reached) == 1 && bytes.Equal(value, reached[0]),
			"MerkleProve accepted => the value is one of the honest leaves (never an interior node)")
		// which leaf: the one the sides lead to; its audit path and sides are exactly the adversary's
		found := false
		for i := 0; i < n && !found; i++ {
			hs := zz7Sides(i, n)
			if len(hs) != k {
				continue
			}
			same := true
			for j := 0; j < k; j++ {
				same = same && hs[j] == sides[j]
			}
			if same {
				found = true
				zzsym.Assert(bytes.Equal(value, leaves[i]), "MerkleProve accepted => the value is the leaf at the position the flags describe")
				zzsym.Assert(bytes.Equal(zz7Flat(hashes), zz7Flat(zz7Path(i, leaves))), "MerkleProve accepted => the path hashes are exactly that leaf's audit path")
			}
		}
		zzsym.Assert(found, "MerkleProve accepted => the flags describe the position of a leaf of the honest tree")
		zzsym.Cover("prove-accepted")
		if k >= 2 {
			zzsym.Cover("prove-accepted-deep")
		}
	} else {
		zzsym.Cover("prove-rejected")
	}
	zzsym.Cover("prove-done")
}

func ZZ_C07_MerkleProveSound_witness() {
	leaves := zz7Leaves(2)
	root := zz7MTH(leaves)
	value := zzsym.Bytes("value", 32)
	sink := common.NewZeroCopySink(nil)
	sink.WriteVarBytes(value)
	sink.WriteByte(zzsym.U8("flag"))
	sink.WriteHash(zz7Hashes("proof", 1)[0])
	_, err := MerkleProve(sink.Bytes(), root[:])
	zzsym.Assert(err != nil, "witness: some path is accepted")
}

// ---------------------------------------------------------------------------------------------
// Consistency: VerifyConsistency(oldSize, n, oldRoot, root(n), proof) with 0 < oldSize, oldRoot != root(n):
// accepts => oldSize <= n and oldRoot is the root of the first oldSize honest leaves, and for
// oldSize < n the proof is exactly PROOF(oldSize, D[n]).
// The two early exits of the verifier (oldRoot == newRoot, oldSize == 0) are checked separately in
// ZZ_C07_ConsistencyEarlyExits.
// ---------------------------------------------------------------------------------------------
func ZZ_C07_ConsistencySound() {
	N := zzsym.Param("N")
	n := 1 + zzsym.Choose("n", N)
	k := zzsym.Choose("k", zz7Depth(n)+3)
	leaves := zz7Leaves(n)
	rootN := zz7MTH(leaves)
	var oldRoot common.Uint256
	copy(oldRoot[:], zzsym.Bytes("oldRoot", 32))
	oldSize := zzsym.U32("oldSize")
	proof := zz7Hashes("proof", k)
	zzsym.Assume(oldSize != 0 && oldRoot != rootN) // early exits: see ZZ_C07_ConsistencyEarlyExits
	v := NewMerkleVerifier()

	if oldSize > uint32(n) {
		zzsym.Assert(v.VerifyConsistency(oldSize, uint32(n), oldRoot, rootN, proof) != nil, "an old size beyond the new size is rejected")
		zzsym.Cover("consistency-oldsize-beyond")
		return
	}
	m := zzsym.Concretize(int(oldSize), n)
	zz7GhostConsistency(m, leaves, oldRoot, proof) // guidance only

	err := v.VerifyConsistency(oldSize, uint32(n), oldRoot, rootN, proof)
	if err == nil {
		zzsym.Assert(oldRoot == zz7MTH(leaves[:m]), "consistency accepted => the old root is the root of the first oldSize leaves")
		zzsym.Assert(bytes.Equal(zz7Flat(proof), zz7Flat(zz7SubProof(m, leaves, true))), "consistency accepted => the proof is exactly the RFC 6962 consistency proof")
		zzsym.Cover("consistency-accepted")
		if m&(m-1) != 0 {
			zzsym.Cover("consistency-accepted-unbalanced")
		}
	} else {
		zzsym.Cover("consistency-rejected")
	}
	zzsym.Cover("consistency-done")
}

// zz7GhostConsistency: guidance for VerifyConsistency (see "Proof guidance" above). The chain of the NEW
// root is rebuilt along the recursive definition of SUBPROOF(m, D[n], b) in RFC 6962 2.1.2 (not along the
// verifier's index arithmetic): the last proof element is the sibling at the top split, and so on down
// to the start value (the old root itself when the old tree is a complete left sub-tree, else proof[0]).
func zz7GhostConsistency(m int, leaves [][]byte, oldRoot common.Uint256, proof []common.Uint256) {
	newV, ops, ok := zz7ConsChain(m, len(leaves), true, oldRoot, proof)
	if !ok || len(ops) == 0 {
		return // not the shape of a consistency proof for (m, n): the verifier has to refuse on its own
	}
	if newV == zz7MTH(leaves) {
		zz7Pin(ops, leaves)
	}
}

func zz7ConsChain(m, size int, b bool, oldRoot common.Uint256, proof []common.Uint256) (common.Uint256, []zz7Op, bool) {
	if m == size {
		if b {
			return oldRoot, nil, len(proof) == 0
		}
		if len(proof) != 1 {
			return oldRoot, nil, false
		}
		return proof[0], nil, true
	}
	if len(proof) == 0 {
		return oldRoot, nil, false
	}
	p := proof[len(proof)-1]
	rest := proof[:len(proof)-1]
	k := zz7Split(size)
	if m <= k {
		nv, ops, ok := zz7ConsChain(m, k, b, oldRoot, rest)
		if !ok {
			return nv, nil, false
		}
		ops, nv = zz7Step(ops, nv, p, false) // right sibling exists only in the new tree
		return nv, ops, true
	}
	nv, ops, ok := zz7ConsChain(m-k, size-k, false, oldRoot, rest)
	if !ok {
		return nv, nil, false
	}
	ops, nv = zz7Step(ops, nv, p, true) // left sibling is in both trees
	return nv, ops, true
}

func ZZ_C07_ConsistencySound_witness() {
	leaves := zz7Leaves(3)
	rootN := zz7MTH(leaves)
	var oldRoot common.Uint256
	copy(oldRoot[:], zzsym.Bytes("oldRoot", 32))
	proof := zz7Hashes("proof", 1)
	zzsym.Assume(oldRoot != rootN)
	err := NewMerkleVerifier().VerifyConsistency(2, 3, oldRoot, rootN, proof)
	zzsym.Assert(err != nil, "witness: some consistency proof is accepted")
}

// ---------------------------------------------------------------------------------------------
// The verifier's early exits, held against the same soundness statement:
//   (a) oldRoot == newRoot returns nil before looking at the sizes: accepted => oldSize == n is required
//       (two different prefixes of the honest leaves cannot have the same root under collision resistance);
//   (b) oldSize == 0 returns nil before looking at oldRoot: accepted => oldRoot must be the root of the
//       empty tree, SHA-256("").
// Inputs are chosen so that a counterexample replays natively (the equal roots are the computed root).
// ---------------------------------------------------------------------------------------------
func ZZ_C07_ConsistencyEarlyExits() {
	N := zzsym.Param("N")
	n := 1 + zzsym.Choose("n", N)
	leaves := zz7Leaves(n)
	rootN := zz7MTH(leaves)
	v := NewMerkleVerifier()

	oldSize := zzsym.U32("oldSize")
	zzsym.Assume(oldSize != 0)
	if v.VerifyConsistency(oldSize, uint32(n), rootN, rootN, nil) == nil {
		zzsym.Assert(oldSize == uint32(n), "consistency accepted with old root == new root => old size == new size")
	}

	var oldRoot common.Uint256
	copy(oldRoot[:], zzsym.Bytes("oldRoot", 32))
	if v.VerifyConsistency(0, uint32(n), oldRoot, rootN, nil) == nil {
		zzsym.Assert(oldRoot == zz7MTH(nil), "consistency accepted with old size 0 => old root is the root of the empty tree")
	}
	zzsym.Cover("early-exits-done")
}
