package merkle

import (
	"bytes"
	"crypto/sha256"

	"github.com/polynetwork/poly/common"
	"github.com/polynetwork/poly/zzsym"
)

// ---------------------------------------------------------------------------------------------
// C07: soundness of the proof verifiers.
//
// Setting: an HONEST tree over n 32-byte leaves (n enumerated; leaves symbolic or fixed, see
// zz7Leaves); its root is the RFC 6962 Merkle Tree Hash computed by the oracle below. The ADVERSARY controls everything else that reaches a
// verifier: claimed leaf / leaf hash, index, every proof hash, every position flag, old size, old root
// (all symbolic; only lengths are enumerated). Every assertion has the form
//        verifier accepts  =>  the claim is true about the honest tree
// and is decided under the collision-resistance axiom for SHA-256 (spec: "collision_free": ["sha256"]):
// H(a) = H(b) => a = b, instantiated for every pair of hash applications on the path; inputs of
// different length never collide.
// ---------------------------------------------------------------------------------------------

func zz7LeafHash(d []byte) common.Uint256 {
	return sha256.Sum256(append([]byte{0}, d...))
}

func zz7NodeHash(l, r common.Uint256) common.Uint256 {
	b := append([]byte{1}, l[:]...)
	b = append(b, r[:]...)
	return sha256.Sum256(b)
}

func zz7Split(n int) int { // largest power of two < n
	k := 1
	for k*2 < n {
		k *= 2
	}
	return k
}

// RFC 6962 2.1: MTH
func zz7MTH(leaves [][]byte) common.Uint256 {
	n := len(leaves)
	if n == 0 {
		return sha256.Sum256(nil)
	}
	if n == 1 {
		return zz7LeafHash(leaves[0])
	}
	k := zz7Split(n)
	return zz7NodeHash(zz7MTH(leaves[:k]), zz7MTH(leaves[k:]))
}

// RFC 6962 2.1.1: PATH(m, D[n]), leaf-to-root order
func zz7Path(m int, leaves [][]byte) []common.Uint256 {
	n := len(leaves)
	if n <= 1 {
		return nil
	}
	k := zz7Split(n)
	if m < k {
		return append(zz7Path(m, leaves[:k]), zz7MTH(leaves[k:]))
	}
	return append(zz7Path(m-k, leaves[k:]), zz7MTH(leaves[:k]))
}

// side of the sibling on each level of PATH(m, D[n]), leaf-to-root: true = sibling is on the LEFT
func zz7Sides(m int, n int) []bool {
	if n <= 1 {
		return nil
	}
	k := zz7Split(n)
	if m < k {
		return append(zz7Sides(m, k), false)
	}
	return append(zz7Sides(m-k, n-k), true)
}

// RFC 6962 2.1.2: PROOF(m, D[n]) = SUBPROOF(m, D[n], true), in the order the verifier consumes it
func zz7SubProof(m int, leaves [][]byte, b bool) []common.Uint256 {
	n := len(leaves)
	if m == n {
		if b {
			return nil
		}
		return []common.Uint256{zz7MTH(leaves)}
	}
	k := zz7Split(n)
	if m <= k {
		return append(zz7SubProof(m, leaves[:k], b), zz7MTH(leaves[k:]))
	}
	return append(zz7SubProof(m-k, leaves[k:], false), zz7MTH(leaves[:k]))
}

// every node hash of the honest tree (leaves and interior nodes)
func zz7AllNodes(leaves [][]byte, out []common.Uint256) []common.Uint256 {
	n := len(leaves)
	if n == 0 {
		return out
	}
	out = append(out, zz7MTH(leaves))
	if n == 1 {
		return out
	}
	k := zz7Split(n)
	out = zz7AllNodes(leaves[:k], out)
	return zz7AllNodes(leaves[k:], out)
}

func zz7Depth(n int) int { // ceil(log2 n)
	d := 0
	for (1 << uint(d)) < n {
		d++
	}
	return d
}

// zz7Leaves: the honest leaves. Every soundness harness exists twice:
//   *_Sym   fully symbolic leaves: the statement is proved for EVERY honest tree of n <= N leaves. The
//           solver needs one collision-resistance step per tree level over 256-bit terms, which limits N
//           to 3-4; counterexamples cannot be replayed natively (the model invents hash values), so
//           these run with no_replay.
//   *_Fixed fixed, pairwise different leaves: the verifiers never see the leaves, only the root, so this
//           exercises their index / size / flag arithmetic on deeper shapes against ALL adversarial
//           inputs. Every honest node hash is then a real SHA-256 constant, a collision-resistance step
//           pins a proof element to a constant, and counterexamples replay natively.
func zz7Leaves(n int, sym bool) [][]byte {
	out := make([][]byte, n)
	for i := range out {
		if sym {
			out[i] = zzsym.Bytes("leaf", 32)
			continue
		}
		out[i] = make([]byte, 32)
		for j := range out[i] {
			out[i][j] = byte(37*i + 11*j + 5)
		}
	}
	return out
}

// zz7Root: the honest root as the node itself produces it (CompactMerkleTree append + Root; C06 shows that
// this is the RFC 6962 MTH of the leaves). The claims below are stated with the independent oracle.
func zz7Root(leaves [][]byte) common.Uint256 {
	tree := NewTree(0, nil, nil)
	for i := range leaves {
		tree.Append(leaves[i])
	}
	return tree.Root()
}

func zz7Hashes(name string, k int) []common.Uint256 {
	out := make([]common.Uint256, k)
	for i := range out {
		copy(out[i][:], zzsym.Bytes(name, 32))
	}
	return out
}

func zz7Flat(hs []common.Uint256) []byte {
	out := make([]byte, 0, 32*len(hs))
	for i := range hs {
		out = append(out, hs[i][:]...)
	}
	return out
}

// ---------------------------------------------------------------------------------------------
// Inclusion, size paired with the root: VerifyLeafHashInclusion(leafHash, index, proof, root(n), n)
// accepts => index < n, leafHash is the hash of honest leaf[index], and the proof is exactly PATH(index).
// Hence any altered leaf hash, index or proof hash (one or several) is rejected.
// ---------------------------------------------------------------------------------------------
func ZZ_C07_InclusionSound_Sym()   { zz7InclusionSound(true) }
func ZZ_C07_InclusionSound_Fixed() { zz7InclusionSound(false) }

func zz7InclusionSound(sym bool) {
	N := zzsym.Param("N")
	n := 1 + zzsym.Choose("n", N)
	k := zzsym.Choose("k", zz7Depth(n)+2) // adversary's proof length 0 .. depth+1
	leaves := zz7Leaves(n, sym)
	root := zz7Root(leaves)
	var leafHash common.Uint256
	copy(leafHash[:], zzsym.Bytes("leafHash", 32))
	index := zzsym.U32("index")
	proof := zz7Hashes("proof", k)
	v := NewMerkleVerifier()

	if index >= uint32(n) {
		zzsym.Assert(v.VerifyLeafHashInclusion(leafHash, index, proof, root, uint32(n)) != nil, "an index outside the tree is rejected")
		zzsym.Cover("inclusion-index-outside")
		return
	}
	i := zzsym.Concretize(int(index), n-1)
	err := v.VerifyLeafHashInclusion(leafHash, index, proof, root, uint32(n))
	if err == nil {
		zzsym.Assert(leafHash == zz7LeafHash(leaves[i]), "inclusion accepted => the claimed leaf hash is the hash of leaf[index]")
		zzsym.Assert(bytes.Equal(zz7Flat(proof), zz7Flat(zz7Path(i, leaves))), "inclusion accepted => the proof is exactly the audit path of leaf[index]")
		zzsym.Cover("inclusion-accepted")
		if n > 1 && i == n-1 {
			zzsym.Cover("inclusion-accepted-last")
		}
	} else {
		zzsym.Cover("inclusion-rejected")
	}
	zzsym.Cover("inclusion-done")
}

// Witness twin: the verifier must be able to accept at all: claiming that it always rejects is violable.
func ZZ_C07_InclusionSound_witness() {
	leaves := zz7Leaves(3, true)
	root := zz7Root(leaves)
	var leafHash common.Uint256
	copy(leafHash[:], zzsym.Bytes("leafHash", 32))
	proof := zz7Hashes("proof", 2)
	err := NewMerkleVerifier().VerifyLeafHashInclusion(leafHash, zzsym.U32("index"), proof, root, 3)
	zzsym.Assert(err != nil, "witness: some proof is accepted")
}

// ---------------------------------------------------------------------------------------------
// Inclusion with an arbitrary claimed size (not necessarily the size the root belongs to):
//   VerifyLeafInclusion(leaf bytes, index, proof, root(n), size) accepts => leaf is one of the honest leaves.
//     In particular a 64-byte "leaf" l||r can never stand in for the interior node H(0x01||l||r)
//     (0x00/0x01 domain separation), and leaves of another length never verify.
//   VerifyLeafHashInclusion(hash, ...) accepts => hash is the hash of SOME node of the honest tree.
// (Index binding needs the size that belongs to the root: see ZZ_C07_IndexNeedsPairedSize_witness.)
// ---------------------------------------------------------------------------------------------
var zz7LeafLens = []int{32, 64, 0, 1, 33, 65}

func ZZ_C07_InclusionAnySize_Sym()   { zz7InclusionAnySize(true) }
func ZZ_C07_InclusionAnySize_Fixed() { zz7InclusionAnySize(false) }

func zz7InclusionAnySize(sym bool) {
	N := zzsym.Param("N")
	n := 1 + zzsym.Choose("n", N)
	size := 1 + zzsym.Choose("size", zzsym.Param("S"))
	k := zzsym.Choose("k", zz7Depth(size)+2)
	leaves := zz7Leaves(n, sym)
	root := zz7Root(leaves)
	proof := zz7Hashes("proof", k)
	index := zzsym.U32("index")
	v := NewMerkleVerifier()
	useHash := zzsym.Choose("variant", 2) == 1

	var leaf []byte
	var start common.Uint256
	if useHash {
		copy(start[:], zzsym.Bytes("leafHash", 32))
	} else {
		leaf = zzsym.Bytes("claimed", zz7LeafLens[zzsym.Choose("leaflen", zzsym.Param("LL"))])
		start = zz7LeafHash(leaf)
	}
	if index >= uint32(size) {
		zzsym.Assert(v.VerifyLeafHashInclusion(start, index, proof, root, uint32(size)) != nil, "an index outside the claimed size is rejected")
		return
	}
	if useHash {
		err := v.VerifyLeafHashInclusion(start, index, proof, root, uint32(size))
		if err == nil {
			nodes := zz7AllNodes(leaves, nil)
			at := -1
			for x := 0; x < len(nodes) && at < 0; x++ {
				if start == nodes[x] {
					at = x
				}
			}
			zzsym.Assert(at >= 0, "hash inclusion accepted for any claimed size => the hash is a node of the honest tree")
			zzsym.Cover("anysize-hash-accepted")
			if k < zz7Depth(n) {
				zzsym.Cover("anysize-hash-interior") // legitimate: the caller supplied the hash of an interior node
			}
		}
	} else {
		err := v.VerifyLeafInclusion(leaf, index, proof, root, uint32(size))
		if err == nil {
			at := -1
			for x := 0; x < n && at < 0; x++ {
				if bytes.Equal(leaf, leaves[x]) {
					at = x
				}
			}
			zzsym.Assert(at >= 0, "inclusion accepted for any claimed size => the claimed leaf is one of the honest leaves (never an interior node)")
			zzsym.Cover("anysize-accepted")
			if size != n {
				zzsym.Cover("anysize-accepted-unpaired")
			}
		}
	}
	zzsym.Cover("anysize-done")
}

// Documented limit (inherent to RFC 6962 audit paths, not a defect): when the claimed size is not the
// size the root belongs to, the index claim may be wrong (root of 3 leaves, claimed size 2, index 1
// proves leaf[2]). The twin shows that the paired-size precondition of ZZ_C07_InclusionSound is needed.
func ZZ_C07_IndexNeedsPairedSize_witness() {
	leaves := zz7Leaves(3, true)
	root := zz7Root(leaves)
	var leafHash common.Uint256
	copy(leafHash[:], zzsym.Bytes("leafHash", 32))
	proof := zz7Hashes("proof", 1)
	err := NewMerkleVerifier().VerifyLeafHashInclusion(leafHash, 1, proof, root, 2)
	zzsym.Assert(err != nil, "witness: with a size that does not belong to the root the index claim can be false")
}

// ---------------------------------------------------------------------------------------------
// MerkleProve (the verifier used for cross-chain messages): path = varbytes(value) || k x (flag, hash)
// || trailing bytes. Accepts => value is one of the honest leaves, reached by exactly the audit path of
// that leaf with the sibling sides the flags say (flag 0 = sibling on the left, any other flag = right).
// Values of length 64 (an interior node's pre-image) or any other length are rejected.
// ---------------------------------------------------------------------------------------------
var zz7ValLens = []int{32, 64, 1, 0, 33, 4}
var zz7TrailLens = []int{0, 1, 32}

func ZZ_C07_MerkleProveSound_Sym()   { zz7MerkleProveSound(true) }
func ZZ_C07_MerkleProveSound_Fixed() { zz7MerkleProveSound(false) }

func zz7MerkleProveSound(sym bool) {
	N := zzsym.Param("N")
	n := 1 + zzsym.Choose("n", N)
	k := zzsym.Choose("k", zz7Depth(n)+2)
	leaves := zz7Leaves(n, sym)
	root := zz7Root(leaves)
	value := zzsym.Bytes("value", zz7ValLens[zzsym.Choose("vallen", zzsym.Param("VL"))])
	flags := zzsym.Bytes("flag", k)
	hashes := zz7Hashes("proof", k)
	trail := zzsym.Bytes("trail", zz7TrailLens[zzsym.Choose("traillen", zzsym.Param("TL"))])

	sink := common.NewZeroCopySink(nil)
	sink.WriteVarBytes(value)
	for j := 0; j < k; j++ {
		sink.WriteByte(flags[j])
		sink.WriteHash(hashes[j])
	}
	sink.WriteBytes(trail)

	got, err := MerkleProve(sink.Bytes(), root[:])
	if err == nil {
		zzsym.Assert(bytes.Equal(got, value), "MerkleProve returns the value carried by the path")
		// MerkleProve has branched on every flag (flag == 0), so the sides are decided on this path
		sides := make([]bool, k)
		for j := range sides {
			sides[j] = flags[j] == LEFT
		}
		// which leaf: the one the sides lead to; its audit path and sides are exactly the adversary's
		found := false
		for i := 0; i < n && !found; i++ {
			hs := zz7Sides(i, n)
			if len(hs) != k {
				continue
			}
			same := true
			for j := 0; j < k && same; j++ {
				if hs[j] != sides[j] {
					same = false
				}
			}
			if same {
				found = true
				zzsym.Assert(bytes.Equal(value, leaves[i]), "MerkleProve accepted => the value is the leaf at the position the flags describe")
				zzsym.Assert(bytes.Equal(zz7Flat(hashes), zz7Flat(zz7Path(i, leaves))), "MerkleProve accepted => the path hashes are exactly that leaf's audit path")
			}
		}
		zzsym.Assert(found, "MerkleProve accepted => the flags describe the position of a leaf of the honest tree (the value is never an interior node)")
		zzsym.Cover("prove-accepted")
		if k >= 2 {
			zzsym.Cover("prove-accepted-deep")
		}
	} else {
		zzsym.Cover("prove-rejected")
	}
	zzsym.Cover("prove-done")
}

func ZZ_C07_MerkleProveSound_witness() {
	leaves := zz7Leaves(2, true)
	root := zz7Root(leaves)
	value := zzsym.Bytes("value", 32)
	sink := common.NewZeroCopySink(nil)
	sink.WriteVarBytes(value)
	sink.WriteByte(zzsym.U8("flag"))
	sink.WriteHash(zz7Hashes("proof", 1)[0])
	_, err := MerkleProve(sink.Bytes(), root[:])
	zzsym.Assert(err != nil, "witness: some path is accepted")
}

// ---------------------------------------------------------------------------------------------
// Consistency: VerifyConsistency(oldSize, n, oldRoot, root(n), proof) with 0 < oldSize, oldRoot != root(n):
// accepts => oldSize <= n and oldRoot is the root of the first oldSize honest leaves, and for
// oldSize < n the proof is exactly PROOF(oldSize, D[n]).
// The two early exits of the verifier (oldRoot == newRoot, oldSize == 0) are checked separately in
// ZZ_C07_ConsistencyEqualRoots / ZZ_C07_ConsistencyEmptyOld.
// ---------------------------------------------------------------------------------------------
func ZZ_C07_ConsistencySound_Sym()   { zz7ConsistencySound(true) }
func ZZ_C07_ConsistencySound_Fixed() { zz7ConsistencySound(false) }

func zz7ConsistencySound(sym bool) {
	N := zzsym.Param("N")
	n := 1 + zzsym.Choose("n", N)
	k := zzsym.Choose("k", zz7Depth(n)+3)
	leaves := zz7Leaves(n, sym)
	rootN := zz7Root(leaves)
	var oldRoot common.Uint256
	copy(oldRoot[:], zzsym.Bytes("oldRoot", 32))
	oldSize := zzsym.U32("oldSize")
	proof := zz7Hashes("proof", k)
	zzsym.Assume(oldSize != 0 && oldRoot != rootN) // early exits: see ZZ_C07_ConsistencyEqualRoots / ZZ_C07_ConsistencyEmptyOld
	v := NewMerkleVerifier()

	if oldSize > uint32(n) {
		zzsym.Assert(v.VerifyConsistency(oldSize, uint32(n), oldRoot, rootN, proof) != nil, "an old size beyond the new size is rejected")
		zzsym.Cover("consistency-oldsize-beyond")
		return
	}
	m := zzsym.Concretize(int(oldSize), n)
	err := v.VerifyConsistency(oldSize, uint32(n), oldRoot, rootN, proof)
	if err == nil {
		zzsym.Assert(oldRoot == zz7MTH(leaves[:m]), "consistency accepted => the old root is the root of the first oldSize leaves")
		zzsym.Assert(bytes.Equal(zz7Flat(proof), zz7Flat(zz7SubProof(m, leaves, true))), "consistency accepted => the proof is exactly the RFC 6962 consistency proof")
		zzsym.Cover("consistency-accepted")
		if m&(m-1) != 0 {
			zzsym.Cover("consistency-accepted-unbalanced")
		}
	} else {
		zzsym.Cover("consistency-rejected")
	}
	zzsym.Cover("consistency-done")
}

func ZZ_C07_ConsistencySound_witness() {
	leaves := zz7Leaves(3, true)
	rootN := zz7Root(leaves)
	var oldRoot common.Uint256
	copy(oldRoot[:], zzsym.Bytes("oldRoot", 32))
	proof := zz7Hashes("proof", 1)
	zzsym.Assume(oldRoot != rootN)
	err := NewMerkleVerifier().VerifyConsistency(2, 3, oldRoot, rootN, proof)
	zzsym.Assert(err != nil, "witness: some consistency proof is accepted")
}

// ---------------------------------------------------------------------------------------------
// The verifier's early exits, held against the same soundness statement:
//   (a) oldRoot == newRoot returns nil before looking at the sizes: accepted => oldSize == n is required
//       (two different prefixes of the honest leaves cannot have the same root under collision resistance);
//   (b) oldSize == 0 returns nil before looking at oldRoot: see ZZ_C07_ConsistencyEmptyOld.
// Inputs are chosen so that a counterexample replays natively (the equal roots are the computed root).
// ---------------------------------------------------------------------------------------------
func ZZ_C07_ConsistencyEqualRoots() {
	N := zzsym.Param("N")
	n := 1 + zzsym.Choose("n", N)
	leaves := zz7Leaves(n, false)
	rootN := zz7Root(leaves)
	oldSize := zzsym.U32("oldSize")
	zzsym.Assume(oldSize != 0)
	if NewMerkleVerifier().VerifyConsistency(oldSize, uint32(n), rootN, rootN, nil) == nil {
		zzsym.Assert(oldSize == uint32(n), "consistency accepted with old root == new root => old size == new size")
	}
	zzsym.Cover("equal-roots-done")
}

// Old size 0: the verifier returns nil without looking at the old root or the proof ("the empty tree is
// consistent with every tree"), exactly like the Certificate Transparency reference verifier. The old
// root of an empty tree is therefore NOT checked; this is recorded here as the behaviour it is and is
// outside the soundness claim.
func ZZ_C07_ConsistencyEmptyOld() {
	N := zzsym.Param("N")
	n := 1 + zzsym.Choose("n", N)
	leaves := zz7Leaves(n, false)
	rootN := zz7Root(leaves)
	var oldRoot common.Uint256
	copy(oldRoot[:], zzsym.Bytes("oldRoot", 32))
	proof := zz7Hashes("proof", zzsym.Choose("k", 2))
	// since fix 77aa857 an old root EQUAL to the new root is rejected when the sizes differ (0 vs n>0);
	// every other old root of an "empty" tree is still accepted unchecked
	zzsym.Assume(oldRoot != rootN)
	zzsym.Assert(NewMerkleVerifier().VerifyConsistency(0, uint32(n), oldRoot, rootN, proof) == nil,
		"the empty tree is accepted as consistent with every tree")
	zzsym.Cover("empty-old-done")
}
