package validation

import (
	"github.com/ontio/ontology-crypto/keypair"
	"github.com/polynetwork/poly/common"
	"github.com/polynetwork/poly/common/constants"
	"github.com/polynetwork/poly/core/payload"
	"github.com/polynetwork/poly/core/types"
	"github.com/polynetwork/poly/zzsym"
)

// zzTx builds a decoded transaction (so that its identity is the real double SHA-256 of its content).
func zzTx() *types.Transaction {
	tx := &types.Transaction{TxType: types.Invoke, Nonce: zzsym.U32("nonce"), Payload: &payload.InvokeCode{Code: zzsym.Bytes("code", 2)}}
	sink := common.NewZeroCopySink(nil)
	if err := tx.Serialization(sink); err != nil {
		panic("zz: serialization")
	}
	t, err := types.TransactionFromRawBytes(sink.Bytes())
	if err != nil {
		panic("zz: decode")
	}
	return t
}

const zzK = 4 // table keys usable as listed keys; signer ids range over -1 (outsider) .. zzK

// Exactness of signature validation for one entry with n listed keys (chosen from the table, duplicates
// allowed), threshold m (any 16-bit value) and sn signatures, each made by a symbolic signer over a
// symbolic choice of message (the tx identity or something else).
func ZZ_C39_EntryExact() {
	N := zzsym.Param("N")
	S := zzsym.Param("S")
	tx := zzTx()
	hash := tx.Hash()
	n := 1 + zzsym.Choose("n", N)
	sn := zzsym.Choose("sn", S+1)
	m := zzsym.U16("m")
	keyIdx := make([]int, n)
	var keys []keypair.PublicKey
	for i := range keyIdx {
		keyIdx[i] = zzsym.Choose("key", zzK)
		keys = append(keys, zzsym.PubKey(keyIdx[i]))
	}
	signer := make([]int, sn)
	onHash := make([]bool, sn)
	var sigs [][]byte
	for j := 0; j < sn; j++ {
		signer[j] = zzsym.Int("signer")
		zzsym.Assume(signer[j] >= -1 && signer[j] < zzK+1)
		onHash[j] = zzsym.Bool("onhash")
		msg := hash[:]
		if !onHash[j] {
			other := hash
			other[0] ^= 0x01
			msg = other[:]
		}
		sigs = append(sigs, zzsym.Signature("sig", signer[j], msg))
	}
	tx.Sigs = []types.Sig{{PubKeys: keys, M: m, SigData: sigs}}
	err := checkTransactionSignatures(tx)

	// reference decision
	paramsOK := n <= constants.MULTI_SIG_MAX_PUBKEY_SIZE && int(m) >= 1 && int(m) <= n && sn >= int(m)
	want := paramsOK
	if paramsOK {
		mm := int(m)
		if n == 1 {
			mm = 1 // single-key entries check exactly the first signature
		}
		// every one of the first m signatures is a valid signature over the tx identity by a listed key,
		// and no listed position is consumed twice (greedy matching over positions)
		used := make([]bool, n)
		for j := 0; j < mm && want; j++ {
			found := false
			for p := 0; p < n; p++ {
				if !used[p] && onHash[j] && signer[j] == keyIdx[p] {
					used[p] = true
					found = true
					break
				}
			}
			if !found {
				want = false
			}
		}
	}
	if err == nil {
		zzsym.Assert(want, "accepted entry has m valid signatures over the tx identity from distinct listed key positions, with 1<=m<=n<=limit")
		// attribution
		var expect common.Address
		if n == 1 {
			expect = types.AddressFromPubKey(keys[0])
		} else {
			a, e := types.AddressFromMultiPubKeys(keys, int(m))
			zzsym.Assert(e == nil, "multi-key program address computable for an accepted entry")
			expect = a
		}
		zzsym.Assert(len(tx.SignedAddr) == 1 && tx.SignedAddr[0] == expect, "the attributed signer is exactly the entry's program-hash address")
		zzsym.Cover("accepted")
	} else {
		zzsym.Assert(!want, "an entry that satisfies the rule is accepted")
		zzsym.Cover("rejected")
	}
}

func ZZ_C39_EntryExact_witness() {
	tx := zzTx()
	hash := tx.Hash()
	s := zzsym.Int("signer")
	zzsym.Assume(s >= -1 && s < 3)
	tx.Sigs = []types.Sig{{PubKeys: []keypair.PublicKey{zzsym.PubKey(1)}, M: 1, SigData: [][]byte{zzsym.Signature("sig", s, hash[:])}}}
	zzsym.Assert(checkTransactionSignatures(tx) != nil, "witness: a correctly signed tx is accepted")
}

// entry count limit and multi-entry attribution
func ZZ_C39_Entries() {
	tx := zzTx()
	hash := tx.Hash()
	e := zzsym.Choose("entries", 4)
	if e == 3 {
		e = constants.TX_MAX_SIG_SIZE + 1
	}
	var want []common.Address
	for i := 0; i < e; i++ {
		k := i % zzK
		s := zzsym.Int("signer")
		zzsym.Assume(s >= -1 && s < zzK)
		tx.Sigs = append(tx.Sigs, types.Sig{PubKeys: []keypair.PublicKey{zzsym.PubKey(k)}, M: 1, SigData: [][]byte{zzsym.Signature("sig", s, hash[:])}})
		want = append(want, types.AddressFromPubKey(zzsym.PubKey(k)))
		if s != k {
			want = nil
			for j := i + 1; j < e; j++ {
				tx.Sigs = append(tx.Sigs, types.Sig{PubKeys: []keypair.PublicKey{zzsym.PubKey(j % zzK)}, M: 1, SigData: [][]byte{zzsym.Signature("sig", j%zzK, hash[:])}})
			}
			zzsym.Assert(checkTransactionSignatures(tx) != nil, "one bad entry rejects the transaction")
			zzsym.Cover("bad-entry")
			return
		}
	}
	err := checkTransactionSignatures(tx)
	if e > constants.TX_MAX_SIG_SIZE {
		zzsym.Assert(err != nil, "more entries than the limit are rejected")
		zzsym.Cover("too-many")
		return
	}
	zzsym.Assert(err == nil, "all entries valid => accepted")
	// attributed set == set of entry addresses
	for _, w := range want {
		found := false
		for _, a := range tx.SignedAddr {
			if a == w {
				found = true
			}
		}
		zzsym.Assert(found, "every entry's address is attributed")
	}
	for _, a := range tx.SignedAddr {
		found := false
		for _, w := range want {
			if a == w {
				found = true
			}
		}
		zzsym.Assert(found, "no address beyond the entries' is attributed")
	}
	zzsym.Cover("entries-ok")
}

// key-count limit: an entry listing more keys than MULTI_SIG_MAX_PUBKEY_SIZE is never accepted, whatever
// its threshold and signatures; at the limit a fully signed entry is accepted with its program address.
func ZZ_C39_KeyLimit() {
	tx := zzTx()
	hash := tx.Hash()
	n := constants.MULTI_SIG_MAX_PUBKEY_SIZE + zzsym.Choose("over", 2) // 16 or 17 listed keys (table keys, cyclically)
	var keys []keypair.PublicKey
	for i := 0; i < n; i++ {
		keys = append(keys, zzsym.PubKey(i%12))
	}
	m := zzsym.U16("m")
	sn := 1 + zzsym.Choose("sn", 2)
	var sigs [][]byte
	allGood := true
	for j := 0; j < sn; j++ {
		s := zzsym.Int("signer")
		zzsym.Assume(s >= -1 && s < 12)
		if s != j {
			allGood = false
		}
		sigs = append(sigs, zzsym.Signature("sig", s, hash[:]))
	}
	tx.Sigs = []types.Sig{{PubKeys: keys, M: m, SigData: sigs}}
	err := checkTransactionSignatures(tx)
	if n > constants.MULTI_SIG_MAX_PUBKEY_SIZE {
		zzsym.Assert(err != nil, "an entry with more listed keys than the limit is rejected")
		zzsym.Cover("over-limit")
		return
	}
	if err == nil {
		zzsym.Assert(int(m) >= 1 && int(m) <= sn, "accepted entry at the key limit respects 1<=m<=signatures")
		_ = allGood
		a, e := types.AddressFromMultiPubKeys(keys, int(m))
		zzsym.Assert(e == nil, "program address computable at the key limit")
		zzsym.Assert(len(tx.SignedAddr) == 1, "one attributed signer")
		zzsym.Assert(len(tx.SignedAddr) == 1 && tx.SignedAddr[0] == a, "attributed signer is the entry's program address")
		zzsym.Cover("at-limit-accepted")
	}
}
