package common

import (
	"bytes"

	"github.com/polynetwork/poly/zzsym"
)

// varuint: decode(encode(x)) == x, sizes agree, canonical length classes.
func ZZ_C01_VarUintRoundTrip() {
	x := zzsym.U64("x")
	sink := NewZeroCopySink(nil)
	n := sink.WriteVarUint(x)
	zzsym.Assert(n == sink.Size(), "WriteVarUint returns the number of bytes written")
	want := uint64(9)
	if x < 0xFD {
		want = 1
	} else if x <= 0xFFFF {
		want = 3
	} else if x <= 0xFFFFFFFF {
		want = 5
	}
	zzsym.Assert(n == want, "varuint length class")
	src := NewZeroCopySource(sink.Bytes())
	y, eof := src.NextVarUint()
	zzsym.Assert(!eof, "varuint decodes without eof")
	zzsym.Assert(y == x, "varuint round trip")
	zzsym.Assert(src.Pos() == n && src.Len() == 0, "varuint decoder consumes exactly the encoding")
	zzsym.Cover("varuint-done")
	// every strict prefix of the encoding reports eof and never panics
	cut := zzsym.U64("cut")
	zzsym.Assume(cut < n)
	src2 := NewZeroCopySource(sink.Bytes()[:cut])
	_, eof2 := src2.NextVarUint()
	zzsym.Assert(eof2, "truncated varuint reports eof")
	zzsym.Assert(src2.Pos() <= cut, "offset stays inside the buffer")
	zzsym.Cover("varuint-trunc")
}

func ZZ_C01_VarUintRoundTrip_witness() {
	x := zzsym.U64("x")
	sink := NewZeroCopySink(nil)
	n := sink.WriteVarUint(x)
	src := NewZeroCopySource(sink.Bytes())
	y, eof := src.NextVarUint()
	zzsym.Assume(!eof && y == x && n > 0)
	zzsym.Assert(false, "witness: reachable")
}

// fixed-width primitives written back to back decode field by field.
func ZZ_C01_FixedRoundTrip() {
	a := zzsym.U8("a")
	b := zzsym.U16("b")
	c := zzsym.U32("c")
	d := zzsym.U64("d")
	e := zzsym.I16("e")
	f := zzsym.I32("f")
	g := zzsym.I64("g")
	h := zzsym.Bool("h")
	var addr Address
	copy(addr[:], zzsym.Bytes("addr", ADDR_LEN))
	var hash Uint256
	copy(hash[:], zzsym.Bytes("hash", UINT256_SIZE))
	sink := NewZeroCopySink(nil)
	sink.WriteUint8(a)
	sink.WriteUint16(b)
	sink.WriteUint32(c)
	sink.WriteUint64(d)
	sink.WriteInt16(e)
	sink.WriteInt32(f)
	sink.WriteInt64(g)
	sink.WriteBool(h)
	sink.WriteAddress(addr)
	sink.WriteHash(hash)
	zzsym.Assert(sink.Size() == 1+2+4+8+2+4+8+1+20+32, "fixed sizes")
	src := NewZeroCopySource(sink.Bytes())
	a2, e1 := src.NextUint8()
	b2, e2 := src.NextUint16()
	c2, e3 := src.NextUint32()
	d2, e4 := src.NextUint64()
	ee, e5 := src.NextInt16()
	f2, e6 := src.NextInt32()
	g2, e7 := src.NextInt64()
	h2, e8 := src.NextBool()
	addr2, e9 := src.NextAddress()
	hash2, e10 := src.NextHash()
	zzsym.Assert(!e1 && !e2 && !e3 && !e4 && !e5 && !e6 && !e7 && !e8 && !e9 && !e10, "no eof")
	zzsym.Assert(a2 == a && b2 == b && c2 == c && d2 == d && ee == e && f2 == f && g2 == g && h2 == h, "scalar fields round trip")
	zzsym.Assert(addr2 == addr && hash2 == hash, "address/hash round trip")
	zzsym.Assert(src.Len() == 0, "nothing left over")
	_, e11 := src.NextByte()
	zzsym.Assert(e11, "reading past the end reports eof")
	zzsym.Cover("fixed-done")
}

// var-bytes / string with symbolic length and content.
func ZZ_C01_VarBytesRoundTrip() {
	L := zzsym.Param("L")
	data := zzsym.BytesUpTo("data", L)
	sink := NewZeroCopySink(nil)
	pre := zzsym.U32("pre")
	sink.WriteUint32(pre)
	n := sink.WriteVarBytes(data)
	post := zzsym.U16("post")
	sink.WriteUint16(post)
	zzsym.Assert(sink.Size() == 4+n+2, "WriteVarBytes returns its size")
	zzsym.Assert(n == uint64(len(data))+1, "short var-bytes use a 1-byte prefix")
	src := NewZeroCopySource(sink.Bytes())
	p2, e0 := src.NextUint32()
	got, e1 := src.NextVarBytes()
	q2, e2 := src.NextUint16()
	zzsym.Assert(!e0 && !e1 && !e2, "no eof")
	zzsym.Assert(p2 == pre && q2 == post, "neighbours intact")
	zzsym.Assert(bytes.Equal(got, data), "var-bytes round trip")
	zzsym.Assert(src.Len() == 0, "fully consumed")
	zzsym.Cover("varbytes-done")
}

// Arbitrary buffer, arbitrary start offset, arbitrary request: decoders fail safely.
func ZZ_C01_SourceSafety() {
	L := zzsym.Param("L")
	buf := zzsym.BytesUpTo("buf", L)
	src := NewZeroCopySource(buf)
	size := uint64(len(buf))
	skip := zzsym.U64("skip")
	eofS := src.Skip(skip)
	zzsym.Assert(eofS == (skip > size), "Skip reports eof iff it runs past the end")
	zzsym.Assert(src.Pos() <= size, "offset within buffer after Skip")
	before := src.Pos()
	remaining := size - before
	zzsym.Assert(src.Len() == remaining, "Len is the unread remainder")
	op := zzsym.Choose("op", 9)
	switch op {
	case 0:
		n := zzsym.U64("n")
		data, eof := src.NextBytes(n)
		zzsym.Assert(eof == (n > remaining), "NextBytes eof iff fewer bytes remain (including n+off overflow)")
		if !eof {
			zzsym.Assert(uint64(len(data)) == n && src.Pos() == before+n, "NextBytes returns n bytes and advances by n")
			zzsym.Assert(bytes.Equal(data, buf[before:before+n]), "NextBytes returns the bytes at the offset")
		}
		zzsym.Cover("nextbytes")
	case 1:
		_, eof := src.NextByte()
		zzsym.Assert(eof == (remaining < 1), "NextByte eof")
	case 2:
		v, eof := src.NextUint16()
		zzsym.Assert(eof == (remaining < 2), "NextUint16 eof")
		if !eof {
			zzsym.Assert(v == uint16(buf[before])|uint16(buf[before+1])<<8, "NextUint16 little endian")
		}
	case 3:
		v, eof := src.NextUint32()
		zzsym.Assert(eof == (remaining < 4), "NextUint32 eof")
		if !eof {
			zzsym.Assert(v == uint32(buf[before])|uint32(buf[before+1])<<8|uint32(buf[before+2])<<16|uint32(buf[before+3])<<24, "NextUint32 little endian")
		}
	case 4:
		_, eof := src.NextUint64()
		zzsym.Assert(eof == (remaining < 8), "NextUint64 eof")
	case 5:
		v, eof := src.NextBool()
		if remaining >= 1 {
			b := buf[before]
			zzsym.Assert(eof == (b > 1), "NextBool accepts only 0 and 1")
			if !eof {
				zzsym.Assert(v == (b == 1), "NextBool value")
			}
		} else {
			zzsym.Assert(eof, "NextBool eof on empty")
		}
		zzsym.Cover("nextbool")
	case 6:
		v, eof := src.NextVarUint()
		if remaining == 0 {
			zzsym.Assert(eof, "NextVarUint eof on empty")
		} else {
			fb := buf[before]
			need := uint64(1)
			if fb == 0xFD {
				need = 3
			} else if fb == 0xFE {
				need = 5
			} else if fb == 0xFF {
				need = 9
			}
			zzsym.Assert(eof == (remaining < need), "NextVarUint eof iff the prefix-announced width is not available")
			if !eof && need == 1 {
				zzsym.Assert(v == uint64(fb), "single byte varuint value")
			}
		}
		zzsym.Cover("nextvaruint")
	case 7:
		data, eof := src.NextVarBytes()
		if !eof {
			zzsym.Assert(src.Pos() <= size && uint64(len(data)) <= remaining, "NextVarBytes stays inside the buffer")
		}
		zzsym.Cover("nextvarbytes")
	case 8:
		_, eofA := src.NextAddress()
		zzsym.Assert(eofA == (remaining < 20), "NextAddress eof")
	}
	zzsym.Assert(src.Pos() <= size, "offset never passes the end")
	zzsym.Assert(src.Len() == size-src.Pos(), "Len consistent")
	zzsym.Cover("safety-done")
}
