package ledgerstore

import (
	"encoding/json"

	"github.com/ontio/ontology-crypto/keypair"
	"github.com/polynetwork/poly/common"
	"github.com/polynetwork/poly/common/config"
	vconfig "github.com/polynetwork/poly/consensus/vbft/config"
	"github.com/polynetwork/poly/core/types"
	"github.com/polynetwork/poly/zzsym"
)

// Under the engine the JSON consensus payload cannot be parsed (reflection); the spec overrides
// vconfig.VbftBlock by zzVbftBlock, which decodes the 1+k marker bytes produced below. Natively the
// payload is real JSON and the real VbftBlock parses it, so both runs see the same VbftBlockInfo.
func zzPayload(newCfgPeers []int) []byte {
	if zzsym.Symbolic() {
		b := []byte{byte(len(newCfgPeers))}
		for _, p := range newCfgPeers {
			b = append(b, byte(p))
		}
		return b
	}
	info := &vconfig.VbftBlockInfo{Proposer: 1}
	if len(newCfgPeers) > 0 {
		cfg := &vconfig.ChainConfig{N: uint32(len(newCfgPeers))}
		for i, p := range newCfgPeers {
			cfg.Peers = append(cfg.Peers, &vconfig.PeerConfig{Index: uint32(i + 1), ID: vconfig.PubkeyID(zzsym.PubKey(p))})
		}
		info.NewChainConfig = cfg
	}
	b, _ := json.Marshal(info)
	return b
}

func zzVbftBlock(header *types.Header) (*vconfig.VbftBlockInfo, error) {
	b := header.ConsensusPayload
	info := &vconfig.VbftBlockInfo{Proposer: 1}
	if len(b) > 0 && b[0] > 0 {
		cfg := &vconfig.ChainConfig{N: uint32(b[0])}
		for i := 0; i < int(b[0]); i++ {
			cfg.Peers = append(cfg.Peers, &vconfig.PeerConfig{Index: uint32(i + 1), ID: vconfig.PubkeyID(zzsym.PubKey(int(b[1+i])))})
		}
		info.NewChainConfig = cfg
	}
	return info, nil
}

func zzLedger(prev *types.Header) *LedgerStoreImp {
	l := &LedgerStoreImp{
		headerIndex:        make(map[uint32]common.Uint256),
		headerCache:        make(map[common.Uint256]*types.Header),
		vbftPeerInfoheader: make(map[string]uint32),
		vbftPeerInfoblock:  make(map[string]uint32),
	}
	l.headerCache[prev.Hash()] = prev
	return l
}

// verifyHeader (vbft rule in force): acceptance needs m valid signatures over the header hash from
// m distinct members of the validator set in force; the set returned changes iff the accepted header
// announces a new configuration.
func ZZ_C14_VbftHeaderQuorum() {
	config.DefConfig.Genesis.ConsensusType = "vbft"
	N := 1 + zzsym.Choose("N", zzsym.Param("NMAX"))
	B := zzsym.Choose("B", zzsym.Param("BMAX")+1)
	S := zzsym.Choose("S", zzsym.Param("BMAX")+1)
	inForce := make(map[string]uint32)
	for i := 0; i < N; i++ {
		inForce[vconfig.PubkeyID(zzsym.PubKey(i))] = uint32(i + 1)
	}
	prev := &types.Header{Height: zzsym.U32("prevheight"), Timestamp: zzsym.U32("prevts")}
	zzsym.Assume(prev.Height < 1000000)
	l := zzLedger(prev)
	var newPeers []int
	if zzsym.Bool("newcfg") {
		newPeers = []int{10, 11}
	}
	h := &types.Header{PrevBlockHash: prev.Hash(), Height: zzsym.U32("height"), Timestamp: zzsym.U32("ts"), ConsensusPayload: zzPayload(newPeers)}
	zzsym.Assume(h.Height != 0) // the property is about non-genesis headers (height 0 is accepted unconditionally by design)
	copy(h.TransactionsRoot[:], zzsym.Bytes("txroot", 4))
	listed := make([]int, B)
	for j := 0; j < B; j++ {
		listed[j] = zzsym.Choose("bk", N+1) // N = a real key outside the set in force
		h.Bookkeepers = append(h.Bookkeepers, zzsym.PubKey(listed[j]))
	}
	hash := h.Hash()
	signer := make([]int, S)
	for j := 0; j < S; j++ {
		signer[j] = zzsym.Int("signer")
		zzsym.Assume(signer[j] >= -1 && signer[j] <= N)
		h.SigData = append(h.SigData, zzsym.Signature("sig", signer[j], hash[:]))
	}
	out, err := l.verifyHeader(h, inForce)
	// rule in force here: legacy (non-main network or height <= 20,000,000)
	m := N - (N*6)/7
	if err == nil {
		zzsym.Assert(h.Height == prev.Height+1 && h.Timestamp > prev.Timestamp, "accepted header is the successor of its parent with a later timestamp")
		// distinct members of the set in force with a valid signature among the first m signatures
		distinct := 0
		for v := 0; v < N; v++ {
			ok := false
			for j := 0; j < m && j < S; j++ {
				if signer[j] == v {
					ok = true
				}
			}
			if ok {
				distinct++
			}
		}
		zzsym.Assert(S >= m && distinct >= m, "accepted header carries m valid signatures from m distinct validators in force")
		for j := 0; j < B; j++ {
			zzsym.Assert(listed[j] < N, "every listed bookkeeper is a validator in force")
		}
		if len(newPeers) > 0 {
			zzsym.Assert(len(out) == 2 && out[vconfig.PubkeyID(zzsym.PubKey(10))] == 1 && out[vconfig.PubkeyID(zzsym.PubKey(11))] == 2, "an accepted config-changing header installs exactly the announced set")
			zzsym.Cover("config-change")
		} else {
			zzsym.Assert(len(out) == N, "without a new configuration the set in force is unchanged")
		}
		zzsym.Cover("accepted")
	} else {
		zzsym.Assert(len(out) == N, "a rejected header never changes the validator set")
		zzsym.Cover("rejected")
	}
}

func ZZ_C14_VbftHeaderQuorum_witness() {
	config.DefConfig.Genesis.ConsensusType = "vbft"
	inForce := map[string]uint32{vconfig.PubkeyID(zzsym.PubKey(0)): 1}
	prev := &types.Header{Height: 5, Timestamp: 100}
	l := zzLedger(prev)
	h := &types.Header{PrevBlockHash: prev.Hash(), Height: 6, Timestamp: 101, ConsensusPayload: zzPayload(nil), Bookkeepers: []keypair.PublicKey{zzsym.PubKey(0)}}
	hash := h.Hash()
	s := zzsym.Int("signer")
	zzsym.Assume(s >= -1 && s <= 1)
	h.SigData = [][]byte{zzsym.Signature("sig", s, hash[:])}
	_, err := l.verifyHeader(h, inForce)
	zzsym.Assert(err != nil, "witness: a properly signed header is accepted")
}

// non-vbft rule: bookkeepers must hash to the parent's NextBookkeeper and m = n - (n-1)/3 of them sign
func ZZ_C14_LegacyBookkeeperQuorum() {
	config.DefConfig.Genesis.ConsensusType = "dbft"
	B := 1 + zzsym.Choose("B", zzsym.Param("BMAX"))
	S := zzsym.Choose("S", zzsym.Param("BMAX")+1)
	var keys []keypair.PublicKey
	for j := 0; j < B; j++ {
		keys = append(keys, zzsym.PubKey(j))
	}
	next, e := types.AddressFromBookkeepers(keys)
	if e != nil {
		panic("zz: AddressFromBookkeepers")
	}
	prev := &types.Header{Height: 7, Timestamp: 10, NextBookkeeper: next}
	l := zzLedger(prev)
	h := &types.Header{PrevBlockHash: prev.Hash(), Height: 8, Timestamp: 11}
	useOther := zzsym.Bool("otherset")
	if useOther {
		keys[0] = zzsym.PubKey(11)
	}
	h.Bookkeepers = keys
	hash := h.Hash()
	signer := make([]int, S)
	for j := 0; j < S; j++ {
		signer[j] = zzsym.Int("signer")
		zzsym.Assume(signer[j] >= -1 && signer[j] <= B)
		h.SigData = append(h.SigData, zzsym.Signature("sig", signer[j], hash[:]))
	}
	_, err := l.verifyHeader(h, nil)
	m := B - (B-1)/3
	if err == nil {
		zzsym.Assert(!useOther, "bookkeepers must be the set committed to by the parent header")
		distinct := 0
		for v := 0; v < B; v++ {
			ok := false
			for j := 0; j < m && j < S; j++ {
				if signer[j] == v {
					ok = true
				}
			}
			if ok {
				distinct++
			}
		}
		zzsym.Assert(S >= m && distinct >= m, "accepted header carries n-(n-1)/3 valid signatures from distinct bookkeepers")
		zzsym.Cover("legacy-accepted")
	} else {
		zzsym.Cover("legacy-rejected")
	}
}
