package cross_chain_manager

// One replacement per chain handler (spec "overrides"): the handler's MakeDepositProposal, i.e. the
// third-party proof verification, is replaced by the harness-controlled answer of zzStubProposal.

import (
	"github.com/polynetwork/poly/native"
	"github.com/polynetwork/poly/native/service/cross_chain_manager/bsc"
	"github.com/polynetwork/poly/native/service/cross_chain_manager/btc"
	"github.com/polynetwork/poly/native/service/cross_chain_manager/bytom"
	scom "github.com/polynetwork/poly/native/service/cross_chain_manager/common"
	"github.com/polynetwork/poly/native/service/cross_chain_manager/consensus_vote"
	"github.com/polynetwork/poly/native/service/cross_chain_manager/cosmos"
	"github.com/polynetwork/poly/native/service/cross_chain_manager/eth"
	"github.com/polynetwork/poly/native/service/cross_chain_manager/harmony"
	"github.com/polynetwork/poly/native/service/cross_chain_manager/heco"
	"github.com/polynetwork/poly/native/service/cross_chain_manager/hsc"
	"github.com/polynetwork/poly/native/service/cross_chain_manager/msc"
	"github.com/polynetwork/poly/native/service/cross_chain_manager/neo"
	"github.com/polynetwork/poly/native/service/cross_chain_manager/neo3"
	"github.com/polynetwork/poly/native/service/cross_chain_manager/okex"
	"github.com/polynetwork/poly/native/service/cross_chain_manager/ont"
	"github.com/polynetwork/poly/native/service/cross_chain_manager/pixiechain"
	"github.com/polynetwork/poly/native/service/cross_chain_manager/polygon"
	"github.com/polynetwork/poly/native/service/cross_chain_manager/quorum"
	"github.com/polynetwork/poly/native/service/cross_chain_manager/ripple"
	"github.com/polynetwork/poly/native/service/cross_chain_manager/starcoin"
	"github.com/polynetwork/poly/native/service/cross_chain_manager/zilliqa"
	"github.com/polynetwork/poly/native/service/cross_chain_manager/zilliqalegacy"
)

func zzMDP_bsc(h *bsc.Handler, ns *native.NativeService) (*scom.MakeTxParam, error) {
	return zzStubProposal(ns)
}
func zzMDP_btc(h *btc.BTCHandler, ns *native.NativeService) (*scom.MakeTxParam, error) {
	return zzStubProposal(ns)
}
func zzMDP_bytom(h *bytom.Handler, ns *native.NativeService) (*scom.MakeTxParam, error) {
	return zzStubProposal(ns)
}
func zzMDP_consensus_vote(h *consensus_vote.VoteHandler, ns *native.NativeService) (*scom.MakeTxParam, error) {
	return zzStubProposal(ns)
}
func zzMDP_cosmos(h *cosmos.CosmosHandler, ns *native.NativeService) (*scom.MakeTxParam, error) {
	return zzStubProposal(ns)
}
func zzMDP_eth(h *eth.ETHHandler, ns *native.NativeService) (*scom.MakeTxParam, error) {
	return zzStubProposal(ns)
}
func zzMDP_harmony(h *harmony.Handler, ns *native.NativeService) (*scom.MakeTxParam, error) {
	return zzStubProposal(ns)
}
func zzMDP_heco(h *heco.HecoHandler, ns *native.NativeService) (*scom.MakeTxParam, error) {
	return zzStubProposal(ns)
}
func zzMDP_hsc(h *hsc.HscHandler, ns *native.NativeService) (*scom.MakeTxParam, error) {
	return zzStubProposal(ns)
}
func zzMDP_msc(h *msc.Handler, ns *native.NativeService) (*scom.MakeTxParam, error) {
	return zzStubProposal(ns)
}
func zzMDP_neo(h *neo.NEOHandler, ns *native.NativeService) (*scom.MakeTxParam, error) {
	return zzStubProposal(ns)
}
func zzMDP_neo3(h *neo3.Neo3Handler, ns *native.NativeService) (*scom.MakeTxParam, error) {
	return zzStubProposal(ns)
}
func zzMDP_okex(h *okex.OKHandler, ns *native.NativeService) (*scom.MakeTxParam, error) {
	return zzStubProposal(ns)
}
func zzMDP_ont(h *ont.ONTHandler, ns *native.NativeService) (*scom.MakeTxParam, error) {
	return zzStubProposal(ns)
}
func zzMDP_pixiechain(h *pixiechain.PixieHandler, ns *native.NativeService) (*scom.MakeTxParam, error) {
	return zzStubProposal(ns)
}
func zzMDP_polygon(h *polygon.BorHandler, ns *native.NativeService) (*scom.MakeTxParam, error) {
	return zzStubProposal(ns)
}
func zzMDP_quorum(h *quorum.QuorumHandler, ns *native.NativeService) (*scom.MakeTxParam, error) {
	return zzStubProposal(ns)
}
func zzMDP_ripple(h *ripple.RippleHandler, ns *native.NativeService) (*scom.MakeTxParam, error) {
	return zzStubProposal(ns)
}
func zzMDP_starcoin(h *starcoin.Handler, ns *native.NativeService) (*scom.MakeTxParam, error) {
	return zzStubProposal(ns)
}
func zzMDP_zilliqa(h *zilliqa.Handler, ns *native.NativeService) (*scom.MakeTxParam, error) {
	return zzStubProposal(ns)
}
func zzMDP_zilliqalegacy(h *zilliqalegacy.Handler, ns *native.NativeService) (*scom.MakeTxParam, error) {
	return zzStubProposal(ns)
}
