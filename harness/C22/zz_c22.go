package cross_chain_manager

// C22: each accepted import (account-based destination) stores exactly one outbound request, keyed by
// destination chain and relay transaction hash, whose content is (relay tx hash, source chain, verified
// message); the same bytes become exactly one cross-state leaf; failed imports commit nothing.
//
// Code under test (real): NativeService.Invoke / PutMerkleVal (native/native.go), ImportExTransfer,
// MakeTransaction, PutRequest, ToMerkleValue/MakeTxParam serialization. The source-chain proof verifier
// (handler.MakeDepositProposal) is the stub of zz_ccm_common.go.

import (
	"bytes"

	"github.com/polynetwork/poly/common"
	"github.com/polynetwork/poly/common/config"
	cstates "github.com/polynetwork/poly/core/states"
	"github.com/polynetwork/poly/merkle"
	"github.com/polynetwork/poly/native"
	scom "github.com/polynetwork/poly/native/service/cross_chain_manager/common"
	"github.com/polynetwork/poly/native/service/utils"
	nstates "github.com/polynetwork/poly/native/states"
	"github.com/polynetwork/poly/zzsym"
)

// zzRefLeaf is the reference encoding of an outbound request, written from the property text:
// relay tx hash, source chain id, then the verified message field by field.
func zzRefLeaf(txHash []byte, from uint64, p *scom.MakeTxParam) []byte {
	sink := common.NewZeroCopySink(nil)
	sink.WriteVarBytes(txHash)
	sink.WriteUint64(from)
	sink.WriteVarBytes(p.TxHash)
	sink.WriteVarBytes(p.CrossChainID)
	sink.WriteVarBytes(p.FromContractAddress)
	sink.WriteUint64(p.ToChainID)
	sink.WriteVarBytes(p.ToContractAddress)
	sink.WriteVarBytes([]byte(p.Method))
	sink.WriteVarBytes(p.Args)
	return sink.Bytes()
}

func zzRequestKey(toChain uint64, txHash []byte) []byte {
	return utils.ConcatKey(utils.CrossChainManagerContractAddress, []byte("request"), utils.GetUint64Bytes(toChain), txHash)
}

// zzNewEntries returns the entries of after that are not (identically) in before.
func zzNewEntries(before, after [][2][]byte) [][2][]byte {
	var out [][2][]byte
	for _, a := range after {
		found := false
		for _, b := range before {
			if bytes.Equal(a[0], b[0]) && bytes.Equal(a[1], b[1]) {
				found = true
			}
		}
		if !found {
			out = append(out, a)
		}
	}
	return out
}

func zzInvokeInput(method string, args []byte) []byte {
	c := nstates.ContractInvokeParam{Address: utils.CrossChainManagerContractAddress, Method: method, Args: args}
	sink := common.NewZeroCopySink(nil)
	c.Serialization(sink)
	return sink.Bytes()
}

// zzParamL: verified message whose byte fields have every length 0..L (content symbolic).
func zzParamL(toChain uint64, L int) *scom.MakeTxParam {
	return &scom.MakeTxParam{
		TxHash:              zzsym.BytesChoose("p.txhash", L),
		CrossChainID:        zzsym.BytesChoose("p.ccid", L),
		FromContractAddress: zzsym.BytesChoose("p.from", L),
		ToChainID:           toChain,
		ToContractAddress:   zzsym.BytesChoose("p.to", L),
		Method:              string(zzsym.BytesChoose("p.method", L)),
		Args:                zzsym.BytesChoose("p.args", L),
	}
}

// zzParamReal: field sizes as on main net (32-byte hashes and ids, 20-byte contracts, long args incl. > 0xfc).
func zzParamReal(toChain uint64) *scom.MakeTxParam {
	return &scom.MakeTxParam{
		TxHash:              zzsym.Bytes("p.txhash", 32),
		CrossChainID:        zzsym.Bytes("p.ccid", 32),
		FromContractAddress: zzsym.Bytes("p.from", 20),
		ToChainID:           toChain,
		ToContractAddress:   zzsym.Bytes("p.to", 20),
		Method:              string(zzsym.Bytes("p.method", 6)),
		Args:                zzsym.Bytes("p.args", []int{0, 73, 260}[zzsym.Choose("p.args.len", 3)]),
	}
}

// checks shared by the import harnesses: the write-set difference and the cross hashes of one accepted import
func zzCheckCommitted(newEntries [][2][]byte, hashes []common.Uint256, txHash common.Uint256, src uint64, p *scom.MakeTxParam) {
	zzsym.Assert(len(newEntries) == 1, "an accepted import writes exactly one record")
	if len(newEntries) != 1 {
		return
	}
	want := zzRefLeaf(txHash[:], src, p)
	zzsym.Assert(bytes.Equal(newEntries[0][0], zzRequestKey(p.ToChainID, txHash[:])), "the request is keyed by destination chain and relay transaction hash")
	zzsym.Assert(bytes.Equal(newEntries[0][1], cstates.GenRawStorageItem(want)), "the request content is (relay tx hash, source chain, verified message)")
	zzsym.Assert(len(hashes) == 1, "an accepted import commits exactly one cross-state leaf")
	if len(hashes) == 1 {
		zzsym.Assert(hashes[0] == merkle.HashLeaf(want), "the cross-state leaf is the leaf hash of the stored request content")
	}
	// the stored bytes decode back to the three components
	raw, err := cstates.GetValueFromRawStorageItem(newEntries[0][1])
	zzsym.Assert(err == nil, "the stored request is a raw storage item")
	mv := new(scom.ToMerkleValue)
	err = mv.Deserialization(common.NewZeroCopySource(raw))
	zzsym.Assert(err == nil, "the stored request decodes as a ToMerkleValue")
	if err == nil {
		zzsym.Assert(bytes.Equal(mv.TxHash, txHash[:]) && mv.FromChainID == src, "decoded request carries the relay tx hash and the source chain")
		q := mv.MakeTxParam
		zzsym.Assert(bytes.Equal(q.TxHash, p.TxHash) && bytes.Equal(q.CrossChainID, p.CrossChainID) &&
			bytes.Equal(q.FromContractAddress, p.FromContractAddress) && q.ToChainID == p.ToChainID &&
			bytes.Equal(q.ToContractAddress, p.ToContractAddress) && q.Method == p.Method && bytes.Equal(q.Args, p.Args),
			"decoded request carries the verified message unchanged")
	}
}

// one import through NativeService.Invoke with the given verified message
func zzC22Import(dstRouters []uint64, p func(dst uint64) *scom.MakeTxParam) {
	config.DefConfig.P2PNode.NetworkId = config.NETWORK_ID_MAIN_NET
	native.Contracts[utils.CrossChainManagerContractAddress] = RegisterCrossChainManagerContract
	db := zzNewCacheDB()
	src, dst := zzChainIDs("src", "dst")
	zzsym.Assume(src != dst)
	// source router: a proof-verifying router, or one of the two vote-style routers, whose handler answers
	// (nil, nil) until the quorum of votes is reached and the verified message with the deciding vote
	srcRouter := []uint64{utils.ETH_ROUTER, utils.VOTE_ROUTER, utils.RIPPLE_ROUTER}[zzsym.Choose("srcRouter", 3)]
	zzRegister(db, src, srcRouter)
	zzStub.pending = false
	if srcRouter != utils.ETH_ROUTER {
		zzStub.pending = zzsym.Bool("votePending")
	}
	dstKnown := zzsym.Bool("dstRegistered")
	if dstKnown {
		zzRegister(db, dst, dstRouters[zzsym.Choose("dstRouter", len(dstRouters))])
	}
	zzStub.reject = zzsym.Bool("proofRejected")
	zzStub.param = p(dst)

	tx := zzTx(zzsym.U32("nonce"))
	height := zzsym.U32("height")
	before := zzWriteSet(db)
	ns := zzService(db, tx, height, zzInvokeInput(scom.IMPORT_OUTER_TRANSFER_NAME, zzEntranceInput(src, height)))
	ret, err := ns.Invoke()
	after := zzWriteSet(db)
	if err == nil && !zzStub.reject && zzStub.pending {
		// a vote below quorum: recorded by the handler (stubbed here), not an accepted import yet
		zzsym.Assert(zzSameWriteSet(before, after) && len(ns.GetCrossHashes()) == 0, "a vote that does not reach quorum stores no request and commits no leaf")
		zzsym.Cover("vote-pending")
		return
	}
	if err != nil {
		zzsym.Assert(zzStub.reject || !dstKnown, "an import with accepted proof between registered chains is accepted")
		zzsym.Assert(zzSameWriteSet(before, after), "a failed import stores no request (store unchanged)")
		zzsym.Assert(len(ns.GetCrossHashes()) == 0, "a failed import commits no cross-state leaf")
		zzsym.Cover("failed")
		return
	}
	zzsym.Assert(!zzStub.reject && dstKnown, "accepted import => proof accepted and destination registered")
	rb, ok := ret.([]byte)
	zzsym.Assert(ok && bytes.Equal(rb, utils.BYTE_TRUE), "an accepted import returns true")
	zzCheckCommitted(zzNewEntries(before, after), ns.GetCrossHashes(), tx.Hash(), src, zzStub.param)
	zzsym.Assert(len(zzNewEntries(after, before)) == 0, "an accepted import overwrites or deletes nothing")
	zzsym.Cover("accepted")
	if srcRouter != utils.ETH_ROUTER {
		zzsym.Cover("accepted-by-vote")
	}
}

// ZZ_C22_ImportSmall: every combination of field lengths 0..L.
func ZZ_C22_ImportSmall() {
	L := zzsym.Param("L")
	zzC22Import([]uint64{utils.BSC_ROUTER}, func(dst uint64) *scom.MakeTxParam { return zzParamL(dst, L) })
}

// ZZ_C22_ImportReal: main-net sized fields, several account-based destination routers.
func ZZ_C22_ImportReal() {
	zzC22Import([]uint64{utils.ETH_ROUTER, utils.ONT_ROUTER, utils.NEO_ROUTER, utils.COSMOS_ROUTER, utils.VOTE_ROUTER, utils.ZILLIQA_ROUTER}, zzParamReal)
}

func ZZ_C22_Import_witness() {
	config.DefConfig.P2PNode.NetworkId = config.NETWORK_ID_MAIN_NET
	native.Contracts[utils.CrossChainManagerContractAddress] = RegisterCrossChainManagerContract
	db := zzNewCacheDB()
	zzRegister(db, 2, utils.ETH_ROUTER)
	zzRegister(db, 6, utils.BSC_ROUTER)
	zzStub.reject = zzsym.Bool("proofRejected")
	zzStub.param = zzParamL(6, 1)
	ns := zzService(db, zzTx(1), 100, zzInvokeInput(scom.IMPORT_OUTER_TRANSFER_NAME, zzEntranceInput(2, 100)))
	_, err := ns.Invoke()
	zzsym.Assert(err != nil, "witness: some import is accepted")
}

// ZZ_C22_TwoImports: two accepted imports in two transactions (symbolic nonces) to symbolic destinations:
// each leaves its own request under its own key; the second never disturbs the first.
func ZZ_C22_TwoImports() {
	config.DefConfig.P2PNode.NetworkId = config.NETWORK_ID_MAIN_NET
	db := zzNewCacheDB()
	src, dst := zzChainIDs("src", "dst")
	zzsym.Assume(src != dst)
	zzRegister(db, src, utils.ETH_ROUTER)
	zzRegister(db, dst, utils.BSC_ROUTER)
	n1, n2 := zzsym.U32("nonce1"), zzsym.U32("nonce2")
	zzsym.Assume(n1 != n2) // two different relay transactions (same transaction twice is C20's replay case)
	tx1, tx2 := zzTx(n1), zzTx(n2)

	zzStub.param = zzSymParam(dst)
	p1 := zzStub.param
	s0 := zzWriteSet(db)
	ns1 := zzService(db, tx1, 100, zzEntranceInput(src, 100))
	_, err := ImportExTransfer(ns1)
	zzsym.Assert(err == nil, "first import accepted")
	s1 := zzWriteSet(db)
	zzCheckCommitted(zzNewEntries(s0, s1), ns1.GetCrossHashes(), tx1.Hash(), src, p1)

	zzStub.param = zzSymParam(dst)
	p2 := zzStub.param
	ns2 := zzService(db, tx2, 101, zzEntranceInput(src, 101))
	_, err = ImportExTransfer(ns2)
	zzsym.Assert(err == nil, "second import accepted")
	s2 := zzWriteSet(db)
	zzCheckCommitted(zzNewEntries(s1, s2), ns2.GetCrossHashes(), tx2.Hash(), src, p2)
	zzsym.Assert(len(zzNewEntries(s2, s1)) == 0, "the second import leaves the first request in place")
	zzsym.Cover("two-accepted")
}

func ZZ_C22_TwoImports_witness() {
	n1, n2 := zzsym.U32("nonce1"), zzsym.U32("nonce2")
	tx1, tx2 := zzTx(n1), zzTx(n2)
	zzsym.Assert(tx1.Hash() != tx2.Hash(), "witness: equal nonces give the same relay transaction hash")
}

// ZZ_C22_MakeTransactionDirect: MakeTransaction / PutRequest called directly (no stub involved) with
// symbolic source chain, destination chain and message.
func ZZ_C22_MakeTransactionDirect() {
	L := zzsym.Param("L")
	db := zzNewCacheDB()
	from, to := zzsym.U64("from"), zzsym.U64("to")
	p := zzParamL(to, L)
	tx := zzTx(zzsym.U32("nonce"))
	ns := zzService(db, tx, zzsym.U32("height"), nil)
	before := zzWriteSet(db)
	err := MakeTransaction(ns, p, from)
	zzsym.Assert(err == nil, "MakeTransaction succeeds")
	zzCheckCommitted(zzNewEntries(before, zzWriteSet(db)), ns.GetCrossHashes(), tx.Hash(), from, p)
	zzsym.Cover("direct")
}

func ZZ_C22_MakeTransactionDirect_witness() {
	db := zzNewCacheDB()
	p := zzParamL(zzsym.U64("to"), 1)
	tx := zzTx(1)
	ns := zzService(db, tx, 1, nil)
	err := MakeTransaction(ns, p, 2)
	zzsym.Assert(err == nil, "MakeTransaction succeeds")
	ws := zzWriteSet(db)
	h := tx.Hash()
	zzsym.Assert(len(ws) == 1 && !bytes.Equal(ws[0][0], zzRequestKey(7, h[:])), "witness: the destination may be chain 7")
}
