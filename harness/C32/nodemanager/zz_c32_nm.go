package node_manager

import (
	"crypto/sha256"

	"github.com/polynetwork/poly/common"
	"github.com/polynetwork/poly/native"
	"github.com/polynetwork/poly/native/service/utils"
	"github.com/polynetwork/poly/native/storage"
	"github.com/polynetwork/poly/zzsym"
)

// index of the key of the shared table that is never a pool member: "the outsider"
const zzOutsider = 7

// zzActor maps a choice 0..n to an address: 0..n-1 = pool member i, n = outsider.
func zzActor(choice, n int) common.Address {
	if choice == n {
		return zzValidatorAddr(zzOutsider)
	}
	return zzValidatorAddr(choice)
}

func zzSignsKey(method string, input []byte) common.Uint256 {
	return sha256.Sum256(append([]byte(method), input...))
}

func zzRawGet(db *storage.CacheDB, key []byte) []byte {
	v, err := db.Get(key)
	if err != nil {
		panic("zz: db.Get")
	}
	return v
}

func zzSignsDBKey(k common.Uint256) []byte {
	return utils.ConcatKey(utils.NodeManagerContractAddress, []byte(CONSENSUS_SIGNS), k.ToArray())
}

// zzArbitraryLedgerStep: the one-step inductive check of C32.
//
// pre-state (arbitrary):  a pool of n members (real keys) whose statuses are arbitrary bytes; an approval ledger for
// one (method, request) that holds an arbitrary subset of {member 0..n-1, outsider}, written by the real serializer.
// step:                   one more approval by an arbitrary member or by the outsider.
// returns what the harness needs for its assertions.
func zzArbitraryLedgerStep() (ok bool, err error, cnt, sum int, ns *native.NativeService, key common.Uint256, n, mask, who int) {
	n = 1 + zzsym.Choose("n", zzsym.Param("N"))
	db := zzNewCacheDB()
	st := make([]Status, n)
	for i := range st {
		st[i] = Status(zzsym.U8("status")) // any byte: the decoder accepts every value
	}
	zzPutPeerPool(db, 1, st)

	method := APPROVE_CANDIDATE
	input := zzsym.Bytes("request", 8)
	key = zzSignsKey(method, input)

	mask = zzsym.Choose("approved", 1<<uint(n+1)) // bit i: actor i is already in the ledger
	if mask != 0 {
		pre := &ConsensusSigns{SignsMap: make(map[common.Address]bool)}
		for i := 0; i <= n; i++ {
			if mask>>uint(i)&1 == 1 {
				pre.SignsMap[zzActor(i, n)] = true
			}
		}
		putConsensusSigns(zzNative(db, nil), key, pre)
	}

	who = zzsym.Choose("approver", n+1)
	ns = zzNative(db, nil, zzActor(who, n))
	poolBefore := zzRawGet(db, utils.ConcatKey(utils.NodeManagerContractAddress, []byte(PEER_POOL), utils.GetUint32Bytes(1)))

	ok, err = CheckConsensusSigns(ns, method, input, zzActor(who, n))

	// the count rule, computed independently
	for i := 0; i < n; i++ {
		if st[i] == ConsensusStatus {
			sum++
			if mask>>uint(i)&1 == 1 || who == i {
				cnt++
			}
		}
	}
	poolAfter := zzRawGet(db, utils.ConcatKey(utils.NodeManagerContractAddress, []byte(PEER_POOL), utils.GetUint32Bytes(1)))
	zzsym.Assert(string(poolBefore) == string(poolAfter), "an approval never changes the validator pool")
	return
}

// ZZ_C32_OneStep: from every ledger state, the approval is decisive exactly when the distinct approvers that are
// consensus validators now (including this one) number at least ceil(2S/3).
func ZZ_C32_OneStep() {
	ok, err, cnt, sum, ns, key, n, mask, who := zzArbitraryLedgerStep()
	zzsym.Assert(err == nil, "an approval on a well-formed ledger and pool does not fail")
	// cnt >= ceil(2*sum/3)  <=>  3*cnt >= 2*sum
	zzsym.Assert(ok == (3*cnt >= 2*sum), "approval is decisive iff distinct current-consensus approvers >= ceil(2S/3)")

	after, gerr := getConsensusSigns(ns, key)
	zzsym.Assert(gerr == nil, "ledger stays decodable")
	raw := zzRawGet(ns.GetCacheDB(), zzSignsDBKey(key))
	if ok {
		zzsym.Assert(raw == nil && len(after.SignsMap) == 0, "a decisive approval clears the ledger of that request")
		zzsym.Cover("reached")
	} else {
		now := mask | 1<<uint(who)
		members := 0
		for i := 0; i <= n; i++ {
			_, in := after.SignsMap[zzActor(i, n)]
			zzsym.Assert(in == (now>>uint(i)&1 == 1), "a non-decisive approval stores exactly the earlier approvers plus this one")
			if in {
				members++
			}
		}
		zzsym.Assert(members == len(after.SignsMap), "no foreign address enters the ledger")
		zzsym.Cover("not-reached")
	}
	if who == n {
		zzsym.Cover("outsider-approves")
	} else if mask>>uint(who)&1 == 1 {
		zzsym.Cover("repeat-approver")
	}
	if mask>>uint(n)&1 == 1 && ok {
		zzsym.Cover("outsider-in-ledger-reached")
	}
}

// witness twin: the claim "no approval is ever decisive" must be refutable on the same state space.
func ZZ_C32_OneStep_witness() {
	ok, _, _, sum, _, _, _, _, _ := zzArbitraryLedgerStep()
	zzsym.Assert(!(ok && sum >= 2), "WITNESS: some approval over a pool with at least two consensus members is decisive")
}

// ---- sequences over two requests ------------------------------------------------------------------------------------

var zzMethods = []string{APPROVE_CANDIDATE, BLACK_NODE, WHITE_NODE}

// ZZ_C32_OtherRequestsDoNotCount: approvals are filed under (method, request). A history of T approvals, each for one
// of two different (method, request) pairs and by an arbitrary member or the outsider, is compared with a model that
// keeps one approver set per pair. Needs collision freedom of SHA-256 on the two ledger keys (spec: collision_free).
func zzTwoRequestHistory() (lastOK bool, lastWant bool) {
	n := zzsym.Param("N")
	db := zzNewCacheDB()
	zzConsensusPool(db, n)

	var method [2]string
	var input [2][]byte
	method[0] = zzMethods[0]
	method[1] = zzMethods[zzsym.Choose("method2", len(zzMethods))]
	input[0] = zzsym.Bytes("request1", 8)
	input[1] = zzsym.Bytes("request2", 8)
	if method[0] == method[1] {
		zzsym.Assume(string(input[0]) != string(input[1])) // the two pairs differ: same action => different request
		zzsym.Cover("same-method-other-request")
	} else {
		zzsym.Cover("other-method")
	}

	var set [2]int // model: bit i = actor i approved since the last decision for that pair
	T := zzsym.Param("T")
	for t := 0; t < T; t++ {
		r := zzsym.Choose("which", 2)
		who := zzsym.Choose("approver", n+1)
		ok, err := CheckConsensusSigns(zzNative(db, nil, zzActor(who, n)), method[r], input[r], zzActor(who, n))
		zzsym.Assert(err == nil, "approval does not fail")
		set[r] |= 1 << uint(who)
		cnt := 0
		for i := 0; i < n; i++ {
			if set[r]>>uint(i)&1 == 1 {
				cnt++
			}
		}
		want := 3*cnt >= 2*n
		zzsym.Assert(ok == want, "only approvals for the same action and request count towards its quorum")
		if ok {
			set[r] = 0
			zzsym.Cover("decided")
		}
		if set[0] != 0 && set[1] != 0 {
			zzsym.Cover("both-pending")
		}
		lastOK, lastWant = ok, want
	}
	return
}

func ZZ_C32_OtherRequestsDoNotCount() {
	zzTwoRequestHistory()
	zzsym.Cover("history-done")
}

func ZZ_C32_OtherRequestsDoNotCount_witness() {
	ok, _ := zzTwoRequestHistory()
	zzsym.Assert(!ok, "WITNESS: a history ends with a decisive approval")
}
