package node_manager

import (
	"crypto/sha256"
	"encoding/hex"

	"github.com/polynetwork/poly/common"
	cstates "github.com/polynetwork/poly/core/states"
	"github.com/polynetwork/poly/native"
	"github.com/polynetwork/poly/native/service/utils"
	"github.com/polynetwork/poly/native/storage"
	"github.com/polynetwork/poly/zzsym"
)

// index of the key of the shared table that is never a pool member: "the outsider"
const zzOutsider = 7

// zzActor maps a choice 0..n to an address: 0..n-1 = pool member i, n = outsider.
func zzActor(choice, n int) common.Address {
	if choice == n {
		return zzValidatorAddr(zzOutsider)
	}
	return zzValidatorAddr(choice)
}

func zzSignsKey(method string, input []byte) common.Uint256 {
	return sha256.Sum256(append([]byte(method), input...))
}

func zzRawGet(db *storage.CacheDB, key []byte) []byte {
	v, err := db.Get(key)
	if err != nil {
		panic("zz: db.Get")
	}
	return v
}

func zzSignsDBKey(k common.Uint256) []byte {
	return utils.ConcatKey(utils.NodeManagerContractAddress, []byte(CONSENSUS_SIGNS), k.ToArray())
}

// zzArbitraryLedgerStep: the one-step inductive check of C32.
//
// pre-state (arbitrary):  a pool of n members (real keys) whose statuses are arbitrary bytes; an approval ledger for
// one (method, request) that holds an arbitrary subset of {member 0..n-1, outsider}, written by the real serializer.
// step:                   one more approval by an arbitrary member or by the outsider.
// returns what the harness needs for its assertions.
func zzArbitraryLedgerStep() (ok bool, err error, cnt, sum int, ns *native.NativeService, key common.Uint256, n, mask, who int) {
	n = 1 + zzsym.Choose("n", zzsym.Param("N"))
	db := zzNewCacheDB()
	st := make([]Status, n)
	for i := range st {
		st[i] = Status(zzsym.U8("status")) // any byte: the decoder accepts every value
	}
	zzPutPeerPool(db, 1, st)
	// PeerPoolItem.Address is the wallet that registered the peer, not necessarily the address of the peer's key:
	// own wallet each / one operator wallet (member 0's) for all peers / a non-validator wallet for all / rotated.
	// Validators are identified by their keys; who registered a peer must not matter for the count.
	if pat := zzsym.Choose("owners", 4); pat != 0 {
		m := &PeerPoolMap{PeerPoolMap: make(map[string]*PeerPoolItem)}
		for i := range st {
			owner := zzValidatorAddr(0)
			if pat == 2 {
				owner = zzValidatorAddr(zzOutsider)
			} else if pat == 3 {
				owner = zzValidatorAddr((i + 1) % n)
			}
			pk := zzValidatorKeyHex[i]
			m.PeerPoolMap[pk] = &PeerPoolItem{Index: uint32(i + 1), PeerPubkey: pk, Address: owner, Status: st[i]}
		}
		sink := common.NewZeroCopySink(nil)
		m.Serialization(sink)
		db.Put(utils.ConcatKey(utils.NodeManagerContractAddress, []byte(PEER_POOL), utils.GetUint32Bytes(1)), cstates.GenRawStorageItem(sink.Bytes()))
		zzsym.Cover("foreign-owner-wallets")
	}

	method := APPROVE_CANDIDATE
	input := zzsym.Bytes("request", 8)
	key = zzSignsKey(method, input)

	mask = zzsym.Choose("approved", 1<<uint(n+1)) // bit i: actor i is already in the ledger
	if mask != 0 {
		pre := &ConsensusSigns{SignsMap: make(map[common.Address]bool)}
		for i := 0; i <= n; i++ {
			if mask>>uint(i)&1 == 1 {
				pre.SignsMap[zzActor(i, n)] = true
			}
		}
		putConsensusSigns(zzNative(db, nil), key, pre)
	}

	who = zzsym.Choose("approver", n+1)
	ns = zzNative(db, nil, zzActor(who, n))
	poolBefore := zzRawGet(db, utils.ConcatKey(utils.NodeManagerContractAddress, []byte(PEER_POOL), utils.GetUint32Bytes(1)))

	ok, err = CheckConsensusSigns(ns, method, input, zzActor(who, n))

	// the count rule, computed independently
	for i := 0; i < n; i++ {
		if st[i] == ConsensusStatus {
			sum++
			if mask>>uint(i)&1 == 1 || who == i {
				cnt++
			}
		}
	}
	poolAfter := zzRawGet(db, utils.ConcatKey(utils.NodeManagerContractAddress, []byte(PEER_POOL), utils.GetUint32Bytes(1)))
	zzsym.Assert(string(poolBefore) == string(poolAfter), "an approval never changes the validator pool")
	return
}

// ZZ_C32_OneStep: from every ledger state, the approval is decisive exactly when the distinct approvers that are
// consensus validators now (including this one) number at least ceil(2S/3).
func ZZ_C32_OneStep() {
	ok, err, cnt, sum, ns, key, n, mask, who := zzArbitraryLedgerStep()
	zzsym.Assert(err == nil, "an approval on a well-formed ledger and pool does not fail")
	// cnt >= ceil(2*sum/3)  <=>  3*cnt >= 2*sum
	zzsym.Assert(ok == (3*cnt >= 2*sum), "approval is decisive iff distinct current-consensus approvers >= ceil(2S/3)")

	after, gerr := getConsensusSigns(ns, key)
	zzsym.Assert(gerr == nil, "ledger stays decodable")
	raw := zzRawGet(ns.GetCacheDB(), zzSignsDBKey(key))
	if ok {
		zzsym.Assert(raw == nil && len(after.SignsMap) == 0, "a decisive approval clears the ledger of that request")
		zzsym.Cover("reached")
	} else {
		now := mask | 1<<uint(who)
		members := 0
		for i := 0; i <= n; i++ {
			_, in := after.SignsMap[zzActor(i, n)]
			zzsym.Assert(in == (now>>uint(i)&1 == 1), "a non-decisive approval stores exactly the earlier approvers plus this one")
			if in {
				members++
			}
		}
		zzsym.Assert(members == len(after.SignsMap), "no foreign address enters the ledger")
		zzsym.Cover("not-reached")
	}
	if who == n {
		zzsym.Cover("outsider-approves")
	} else if mask>>uint(who)&1 == 1 {
		zzsym.Cover("repeat-approver")
	}
	if mask>>uint(n)&1 == 1 && ok {
		zzsym.Cover("outsider-in-ledger-reached")
	}
}

// witness twin: the claim "no approval is ever decisive" must be refutable on the same state space.
func ZZ_C32_OneStep_witness() {
	ok, _, _, sum, _, _, _, _, _ := zzArbitraryLedgerStep()
	zzsym.Assert(!(ok && sum >= 2), "WITNESS: some approval over a pool with at least two consensus members is decisive")
}

// ---- sequences over two requests ------------------------------------------------------------------------------------

var zzMethods = []string{APPROVE_CANDIDATE, BLACK_NODE}

// ZZ_C32_OtherRequestsDoNotCount: approvals are filed under (method, request). A history of T approvals, each for one
// of two different (method, request) pairs and by an arbitrary member or the outsider, is compared with a model that
// keeps one approver set per pair. Needs collision freedom of SHA-256 on the two ledger keys (spec: collision_free).
func zzTwoRequestHistory() (lastOK bool, lastWant bool) {
	n := zzsym.Param("N")
	db := zzNewCacheDB()
	zzConsensusPool(db, n)

	var method [2]string
	var input [2][]byte
	method[0] = zzMethods[0]
	method[1] = zzMethods[zzsym.Choose("method2", len(zzMethods))]
	input[0] = []byte{1, 0, 0, 0, 0, 0, 0, 0} // request 1 is fixed, request 2 is every other 8-byte id
	input[1] = zzsym.Bytes("request2", 8)
	if method[0] == method[1] {
		zzsym.Assume(string(input[0]) != string(input[1])) // the two pairs differ: same action => different request
		zzsym.Cover("same-method-other-request")
	} else {
		zzsym.Cover("other-method")
	}

	var set [2]int // model: bit i = actor i approved since the last decision for that pair
	T := zzsym.Param("T")
	for t := 0; t < T; t++ {
		r := zzsym.Choose("which", 2)
		who := zzsym.Choose("approver", n+1)
		ok, err := CheckConsensusSigns(zzNative(db, nil, zzActor(who, n)), method[r], input[r], zzActor(who, n))
		zzsym.Assert(err == nil, "approval does not fail")
		set[r] |= 1 << uint(who)
		cnt := 0
		for i := 0; i < n; i++ {
			if set[r]>>uint(i)&1 == 1 {
				cnt++
			}
		}
		want := 3*cnt >= 2*n
		zzsym.Assert(ok == want, "only approvals for the same action and request count towards its quorum")
		if ok {
			set[r] = 0
			zzsym.Cover("decided")
		}
		if set[0] != 0 && set[1] != 0 {
			zzsym.Cover("both-pending")
		}
		lastOK, lastWant = ok, want
	}
	return
}

func ZZ_C32_OtherRequestsDoNotCount() {
	zzTwoRequestHistory()
	zzsym.Cover("history-done")
}

func ZZ_C32_OtherRequestsDoNotCount_witness() {
	ok, _ := zzTwoRequestHistory()
	zzsym.Assert(!ok, "WITNESS: a history ends with a decisive approval")
}

// ---- the Approve* callers of this package ------------------------------------------------------------------------------
//
// Each caller runs for real on a pool of N consensus validators with a pending request. A history of up to T approvals
// by arbitrary members / the outsider (repeats allowed) is compared with the count rule: the action must take effect
// exactly at the approval that brings the distinct validators to ceil(2N/3), never earlier, never later.

func zzPeerInput(pubkey string, who common.Address) []byte {
	sink := common.NewZeroCopySink(nil)
	(&PeerParam{PeerPubkey: pubkey, Address: who}).Serialization(sink)
	return sink.Bytes()
}

func zzPeerListInput(pubkeys []string, who common.Address) []byte {
	sink := common.NewZeroCopySink(nil)
	(&PeerListParam{PeerPubkeyList: pubkeys, Address: who}).Serialization(sink)
	return sink.Bytes()
}

func zzApprovalHistory(n int, approve func(who common.Address) error, applied func() bool) {
	set := 0
	T := zzsym.Param("T")
	for t := 0; t < T; t++ {
		who := zzsym.Choose("approver", n+1)
		err := approve(zzActor(who, n))
		zzsym.Assert(err == nil, "an approval of a pending request by a witnessed address does not fail")
		set |= 1 << uint(who)
		cnt := 0
		for i := 0; i < n; i++ {
			if set>>uint(i)&1 == 1 {
				cnt++
			}
		}
		want := 3*cnt >= 2*n
		zzsym.Assert(applied() == want, "the action takes effect exactly at the approval completing ceil(2N/3) distinct current validators")
		if want {
			zzsym.Cover("effect")
			return
		}
		if who == n {
			zzsym.Cover("outsider-ignored")
		}
	}
	zzsym.Cover("still-pending")
}

func zzInPool(db *storage.CacheDB, pubkey string, st Status) bool {
	view, err := GetView(zzNative(db, nil))
	if err != nil {
		panic("zz: view")
	}
	m, err := GetPeerPoolMap(zzNative(db, nil), view)
	if err != nil {
		panic("zz: pool")
	}
	it, ok := m.PeerPoolMap[pubkey]
	return ok && it.Status == st
}

func zzCandidateSetup() (db *storage.CacheDB, n int, cand string) {
	n = zzsym.Param("N")
	db = zzNewCacheDB()
	zzConsensusPool(db, n)
	putCandidateIndex(zzNative(db, nil), uint32(n+1))
	cand = zzValidatorKeyHex[n] // a real key that is not in the pool
	owner := zzValidatorAddr(n)
	sink := common.NewZeroCopySink(nil)
	(&RegisterPeerParam{PeerPubkey: cand, Address: owner}).Serialization(sink)
	_, err := RegisterCandidate(zzNative(db, sink.Bytes(), owner))
	zzsym.Assert(err == nil, "owner can apply as candidate")
	return
}

func ZZ_C32_ApproveCandidate() {
	db, n, cand := zzCandidateSetup()
	zzApprovalHistory(n,
		func(who common.Address) error {
			_, err := ApproveCandidate(zzNative(db, zzPeerInput(cand, who), who))
			return err
		},
		func() bool { return zzInPool(db, cand, CandidateStatus) })
}

func ZZ_C32_ApproveCandidate_witness() {
	db, n, cand := zzCandidateSetup()
	for t := 0; t < zzsym.Param("T"); t++ {
		who := zzActor(zzsym.Choose("approver", n+1), n)
		ApproveCandidate(zzNative(db, zzPeerInput(cand, who), who))
	}
	zzsym.Assert(!zzInPool(db, cand, CandidateStatus), "WITNESS: some history admits the candidate")
}

func zzBlackListed(db *storage.CacheDB, pubkey string) bool {
	raw, _ := hex.DecodeString(pubkey)
	return zzRawGet(db, utils.ConcatKey(utils.NodeManagerContractAddress, []byte(BLACK_LIST), raw)) != nil
}

// BlackNode: N consensus validators plus one candidate-status member that is to be blacklisted (N >= 4 so that the
// minimum-pool guard does not interfere: N+1 active members > MIN_PEER_NUM).
func zzBlackSetup() (db *storage.CacheDB, n int, target string) {
	n = zzsym.Param("N")
	db = zzNewCacheDB()
	st := make([]Status, n+1)
	for i := 0; i < n; i++ {
		st[i] = ConsensusStatus
	}
	st[n] = CandidateStatus
	zzPutPeerPool(db, 1, st)
	target = zzValidatorKeyHex[n]
	return
}

func ZZ_C32_BlackNode() {
	db, n, target := zzBlackSetup()
	zzApprovalHistory(n,
		func(who common.Address) error {
			_, err := BlackNode(zzNative(db, zzPeerListInput([]string{target}, who), who))
			return err
		},
		func() bool { return zzBlackListed(db, target) && zzInPool(db, target, BlackStatus) })
}

func ZZ_C32_BlackNode_witness() {
	db, n, target := zzBlackSetup()
	for t := 0; t < zzsym.Param("T"); t++ {
		who := zzActor(zzsym.Choose("approver", n+1), n)
		BlackNode(zzNative(db, zzPeerListInput([]string{target}, who), who))
	}
	zzsym.Assert(!zzBlackListed(db, target), "WITNESS: some history blacklists the target")
}

func zzWhiteSetup() (db *storage.CacheDB, n int, target string) {
	n = zzsym.Param("N")
	db = zzNewCacheDB()
	zzConsensusPool(db, n)
	target = zzValidatorKeyHex[n]
	raw, _ := hex.DecodeString(target)
	sink := common.NewZeroCopySink(nil)
	(&BlackListItem{PeerPubkey: target, Address: zzValidatorAddr(n)}).Serialization(sink)
	db.Put(utils.ConcatKey(utils.NodeManagerContractAddress, []byte(BLACK_LIST), raw), cstates.GenRawStorageItem(sink.Bytes()))
	return
}

func ZZ_C32_WhiteNode() {
	db, n, target := zzWhiteSetup()
	zzApprovalHistory(n,
		func(who common.Address) error {
			_, err := WhiteNode(zzNative(db, zzPeerInput(target, who), who))
			return err
		},
		func() bool { return !zzBlackListed(db, target) })
}

func ZZ_C32_WhiteNode_witness() {
	db, n, target := zzWhiteSetup()
	for t := 0; t < zzsym.Param("T"); t++ {
		who := zzActor(zzsym.Choose("approver", n+1), n)
		WhiteNode(zzNative(db, zzPeerInput(target, who), who))
	}
	zzsym.Assert(zzBlackListed(db, target), "WITNESS: some history whitelists the target")
}

// ZZ_C32_ReplacedCandidateRequest: approvals are filed under (approveCandidate, pubkey string) only. A candidacy can be
// withdrawn (unRegisterCandidate) and filed again for the same key with another owner address; approvals given to the
// withdrawn request must not count for the new one. N = 4, quorum 3: validators 0 and 1 approve (key, owner A), the
// request is withdrawn and re-filed as (key, owner B), validator 2 approves.
func ZZ_C32_ReplacedCandidateRequest() {
	db, _, cand := zzCandidateSetup() // request by owner A = zzValidatorAddr(N)
	n := zzsym.Param("N")
	ownerA := zzValidatorAddr(n)
	for i := 0; i < 2; i++ {
		_, err := ApproveCandidate(zzNative(db, zzPeerInput(cand, zzValidatorAddr(i)), zzValidatorAddr(i)))
		zzsym.Assert(err == nil, "validators 0 and 1 approve the first request")
	}
	zzsym.Assert(!zzInPool(db, cand, CandidateStatus), "two of four approvals are not a quorum")
	_, err := UnRegisterCandidate(zzNative(db, zzPeerInput(cand, ownerA), ownerA))
	zzsym.Assert(err == nil, "owner A withdraws the request")
	var ownerB common.Address
	copy(ownerB[:], zzsym.Bytes("ownerB", 20))
	zzsym.Assume(ownerB != ownerA)
	sink := common.NewZeroCopySink(nil)
	(&RegisterPeerParam{PeerPubkey: cand, Address: ownerB}).Serialization(sink)
	_, err = RegisterCandidate(zzNative(db, sink.Bytes(), ownerB))
	zzsym.Assert(err == nil, "B files a new request for the same key")
	_, err = ApproveCandidate(zzNative(db, zzPeerInput(cand, zzValidatorAddr(2)), zzValidatorAddr(2)))
	zzsym.Assert(err == nil, "validator 2 approves")
	zzsym.Cover("replaced")
	zzsym.Assert(!zzInPool(db, cand, CandidateStatus),
		"a re-filed candidacy takes effect only after ceil(2N/3) validators approved the new request itself (here: one did)")
}
