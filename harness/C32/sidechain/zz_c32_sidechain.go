package side_chain_manager

import (
	"bytes"

	"github.com/polynetwork/poly/common"
	"github.com/polynetwork/poly/native/storage"
	"github.com/polynetwork/poly/zzsym"
)

// encoded by hand: RegisterSideChainParam.Serialization consults the global ledger for a fork height
func zzRegisterInput(owner common.Address, chainID, router uint64, name string, btw uint64, ccmc, extra []byte) []byte {
	sink := common.NewZeroCopySink(nil)
	sink.WriteVarBytes(owner[:])
	sink.WriteVarUint(chainID)
	sink.WriteVarUint(router)
	sink.WriteVarBytes([]byte(name))
	sink.WriteVarUint(btw)
	sink.WriteVarBytes(ccmc)
	sink.WriteVarBytes(extra)
	return sink.Bytes()
}

func zzChainidInput(chainID uint64, who common.Address) []byte {
	p := &ChainidParam{Chainid: chainID, Address: who}
	sink := common.NewZeroCopySink(nil)
	p.Serialization(sink)
	return sink.Bytes()
}

const (
	zzChainX = 5 // registered; an update request and a quit request are pending
	zzChainY = 6 // applied for, not registered
)

// state with three pending (action, request) pairs
func zzThreePending() (db *storage.CacheDB, n int, reqs []zzRequest) {
	n = zzsym.Param("N")
	db = zzNewCacheDB()
	zzConsensusPool(db, n)
	owner := zzValidatorAddr(6)
	err := PutSideChain(zzNative(db, nil), &SideChain{Address: owner, ChainId: zzChainX, Router: 1, Name: "x", BlocksToWait: 1, CCMCAddress: []byte{1}})
	zzsym.Assert(err == nil, "setup: registered chain")
	_, err = UpdateSideChain(zzNative(db, zzRegisterInput(owner, zzChainX, 2, "x2", 9, []byte{2}, nil), owner))
	zzsym.Assert(err == nil, "setup: owner files an update")
	_, err = QuitSideChain(zzNative(db, zzChainidInput(zzChainX, owner), owner))
	zzsym.Assert(err == nil, "setup: owner files a quit")
	_, err = RegisterSideChain(zzNative(db, zzRegisterInput(owner, zzChainY, 3, "y", 1, []byte{3}, nil), owner))
	zzsym.Assert(err == nil, "setup: application for another chain id")

	reqs = []zzRequest{
		{ // approveUpdateSideChain(X)
			approve: func(who common.Address) error {
				_, err := ApproveUpdateSideChain(zzNative(db, zzChainidInput(zzChainX, who), who))
				return err
			},
			applied: func() bool {
				sc, _ := GetSideChain(zzNative(db, nil), zzChainX)
				return sc != nil && sc.Router == 2 && sc.BlocksToWait == 9 && bytes.Equal(sc.CCMCAddress, []byte{2})
			},
		},
		{ // approveQuitSideChain(X)
			approve: func(who common.Address) error {
				_, err := ApproveQuitSideChain(zzNative(db, zzChainidInput(zzChainX, who), who))
				return err
			},
			applied: func() bool {
				sc, _ := GetSideChain(zzNative(db, nil), zzChainX)
				return sc == nil
			},
		},
		{ // approveRegisterSideChain(Y)
			approve: func(who common.Address) error {
				_, err := ApproveRegisterSideChain(zzNative(db, zzChainidInput(zzChainY, who), who))
				return err
			},
			applied: func() bool {
				sc, _ := GetSideChain(zzNative(db, nil), zzChainY)
				return sc != nil
			},
		},
	}
	return
}

func ZZ_C32_SideChainApprovals() {
	_, n, reqs := zzThreePending()
	zzRunHistory(n, reqs)
}

func ZZ_C32_SideChainApprovals_witness() {
	_, n, reqs := zzThreePending()
	zzsym.Assert(!zzRunHistory(n, reqs), "WITNESS: some history makes an action take effect")
}

// Two applications for different chain ids under the SAME action: approvals for the other request id must not count.
func zzTwoApplications() (n int, reqs []zzRequest) {
	n = zzsym.Param("N")
	db := zzNewCacheDB()
	zzConsensusPool(db, n)
	owner := zzValidatorAddr(6)
	for _, id := range []uint64{zzChainX, zzChainY} {
		_, err := RegisterSideChain(zzNative(db, zzRegisterInput(owner, id, 3, "y", 1, []byte{3}, nil), owner))
		zzsym.Assert(err == nil, "setup: application")
		id := id
		reqs = append(reqs, zzRequest{
			approve: func(who common.Address) error {
				_, err := ApproveRegisterSideChain(zzNative(db, zzChainidInput(id, who), who))
				return err
			},
			applied: func() bool {
				sc, _ := GetSideChain(zzNative(db, nil), id)
				return sc != nil
			},
		})
	}
	return
}

func ZZ_C32_SideChainTwoIds() {
	n, reqs := zzTwoApplications()
	zzRunHistory(n, reqs)
}

func ZZ_C32_SideChainTwoIds_witness() {
	n, reqs := zzTwoApplications()
	zzsym.Assert(!zzRunHistory(n, reqs), "WITNESS: some history registers a chain")
}

// ZZ_C32_ReplacedUpdateRequest: the approvals are filed under (action, chain id) only. The owner may overwrite a pending
// update request; approvals given for the earlier content must not count for the replacement ("approved that same
// action and request"). N = 3, quorum 2: validator 0 approves request U1, the owner replaces it by U2 (arbitrary
// fields), validator 1 approves.
func ZZ_C32_ReplacedUpdateRequest() {
	db := zzNewCacheDB()
	zzConsensusPool(db, 3)
	owner := zzValidatorAddr(6)
	v0, v1 := zzValidatorAddr(0), zzValidatorAddr(1)
	err := PutSideChain(zzNative(db, nil), &SideChain{Address: owner, ChainId: zzChainX, Router: 1, Name: "x", BlocksToWait: 1, CCMCAddress: []byte{1}})
	zzsym.Assert(err == nil, "setup: registered chain")
	_, err = UpdateSideChain(zzNative(db, zzRegisterInput(owner, zzChainX, 2, "x", 1, []byte{1}, nil), owner))
	zzsym.Assert(err == nil, "owner files update U1")
	_, err = ApproveUpdateSideChain(zzNative(db, zzChainidInput(zzChainX, v0), v0))
	zzsym.Assert(err == nil, "validator 0 approves U1")
	ccmc2 := zzsym.Bytes("ccmc2", 2)
	_, err = UpdateSideChain(zzNative(db, zzRegisterInput(owner, zzChainX, 2, "x", 1, ccmc2, nil), owner))
	if err != nil {
		zzsym.Cover("replacement-refused")
		return
	}
	zzsym.Cover("replacement-accepted")
	_, err = ApproveUpdateSideChain(zzNative(db, zzChainidInput(zzChainX, v1), v1))
	zzsym.Assert(err == nil, "validator 1 approves")
	sc, _ := GetSideChain(zzNative(db, nil), zzChainX)
	applied2 := sc != nil && bytes.Equal(sc.CCMCAddress, ccmc2) && sc.Router == 2
	zzsym.Assert(!applied2 || bytes.Equal(ccmc2, []byte{1}),
		"a replaced update request takes effect only after ceil(2N/3) validators approved the replacement itself (here: one did)")
}
