package side_chain_manager

// Generated copy of harness/C32/common/zz_c32_history.go (package name substituted) - do not edit the copy.
//
// Approval histories over several simultaneously pending (action, request) pairs of one governance contract.
// The contract's real Approve* handlers run on a pool of N consensus validators (real keys). Every step picks a
// pending pair and an approver (any pool member or an outsider; repeats allowed). A model keeps one approver set
// per pair. After every step each pair must have taken effect iff ITS OWN distinct validator approvals number at
// least ceil(2N/3): this is C32's "exactly at / never earlier" and "approvals for a different action or request
// never count".

import (
	"github.com/polynetwork/poly/common"
	"github.com/polynetwork/poly/zzsym"
)

const zzOutsider = 7 // key of the shared table that is never a pool member

func zzActor(choice, n int) common.Address {
	if choice == n {
		return zzValidatorAddr(zzOutsider)
	}
	return zzValidatorAddr(choice)
}

type zzRequest struct {
	approve func(who common.Address) error
	applied func() bool
}

// returns true when the history ended with some action taking effect
func zzRunHistory(n int, reqs []zzRequest) bool {
	sets := make([]int, len(reqs))
	T := zzsym.Param("T")
	for t := 0; t < T; t++ {
		r := zzsym.Choose("request", len(reqs))
		who := zzsym.Choose("approver", n+1)
		err := reqs[r].approve(zzActor(who, n))
		zzsym.Assert(err == nil, "an approval of a pending request by a witnessed address does not fail")
		sets[r] |= 1 << uint(who)
		effect := false
		for j := range reqs {
			cnt := 0
			for i := 0; i < n; i++ {
				if sets[j]>>uint(i)&1 == 1 {
					cnt++
				}
			}
			want := 3*cnt >= 2*n // cnt >= ceil(2n/3)
			zzsym.Assert(reqs[j].applied() == want, "an action takes effect exactly when its own distinct validator approvals reach ceil(2N/3); approvals for other actions/requests never count")
			if want {
				effect = true
			}
		}
		if who == n {
			zzsym.Cover("outsider-approved")
		}
		if effect {
			zzsym.Cover("effect")
			return true // effects of different actions on one record interact; that is C35's subject
		}
		pending := 0
		for j := range sets {
			if sets[j] != 0 {
				pending++
			}
		}
		if pending >= 2 {
			zzsym.Cover("two-ledgers-open")
		}
	}
	zzsym.Cover("still-pending")
	return false
}
