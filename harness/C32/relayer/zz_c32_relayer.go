package relayer_manager

import (
	"github.com/polynetwork/poly/common"
	"github.com/polynetwork/poly/native/service/utils"
	"github.com/polynetwork/poly/native/storage"
	"github.com/polynetwork/poly/zzsym"
)

func zzListInput(list []common.Address, owner common.Address) []byte {
	p := &RelayerListParam{AddressList: list, Address: owner}
	sink := common.NewZeroCopySink(nil)
	p.Serialization(sink)
	return sink.Bytes()
}

func zzApproveInput(id uint64, who common.Address) []byte {
	p := &ApproveRelayerParam{ID: id, Address: who}
	sink := common.NewZeroCopySink(nil)
	p.Serialization(sink)
	return sink.Bytes()
}

func zzIsRelayer(db *storage.CacheDB, a common.Address) bool {
	v, err := db.Get(utils.ConcatKey(utils.RelayerManagerContractAddress, []byte(RELAYER), a[:]))
	return err == nil && v != nil
}

// three pending pairs: approveRegisterRelayer(0), approveRegisterRelayer(1), approveRemoveRelayer(0)
func zzThreePending() (n int, reqs []zzRequest) {
	n = zzsym.Param("N")
	db := zzNewCacheDB()
	zzConsensusPool(db, n)
	owner := zzValidatorAddr(6)
	ra, rb, rc := common.Address{0xa}, common.Address{0xb}, common.Address{0xc}
	zzsym.Assert(putRelayer(zzNative(db, nil), rc) == nil, "setup: rc is a relayer")
	_, err := RegisterRelayer(zzNative(db, zzListInput([]common.Address{ra}, owner), owner))
	zzsym.Assert(err == nil, "setup: registration request 0")
	_, err = RegisterRelayer(zzNative(db, zzListInput([]common.Address{rb}, owner), owner))
	zzsym.Assert(err == nil, "setup: registration request 1")
	_, err = RemoveRelayer(zzNative(db, zzListInput([]common.Address{rc}, owner), owner))
	zzsym.Assert(err == nil, "setup: removal request 0")
	for i, r := range []common.Address{ra, rb} {
		id, r := uint64(i), r
		reqs = append(reqs, zzRequest{
			approve: func(who common.Address) error {
				_, err := ApproveRegisterRelayer(zzNative(db, zzApproveInput(id, who), who))
				return err
			},
			applied: func() bool { return zzIsRelayer(db, r) },
		})
	}
	reqs = append(reqs, zzRequest{
		approve: func(who common.Address) error {
			_, err := ApproveRemoveRelayer(zzNative(db, zzApproveInput(0, who), who))
			return err
		},
		applied: func() bool { return !zzIsRelayer(db, rc) },
	})
	return
}

func ZZ_C32_RelayerApprovals() {
	n, reqs := zzThreePending()
	zzRunHistory(n, reqs)
}

func ZZ_C32_RelayerApprovals_witness() {
	n, reqs := zzThreePending()
	zzsym.Assert(!zzRunHistory(n, reqs), "WITNESS: some history makes an action take effect")
}
