package neo3_state_manager

import (
	"github.com/polynetwork/poly/common"
	"github.com/polynetwork/poly/native/storage"
	"github.com/polynetwork/poly/zzsym"
)

func zzListInput(list []string, owner common.Address) []byte {
	p := &StateValidatorListParam{StateValidators: list, Address: owner}
	sink := common.NewZeroCopySink(nil)
	p.Serialization(sink)
	return sink.Bytes()
}

func zzApproveInput(id uint64, who common.Address) []byte {
	p := &ApproveStateValidatorParam{ID: id, Address: who}
	sink := common.NewZeroCopySink(nil)
	p.Serialization(sink)
	return sink.Bytes()
}

func zzIsStateValidator(db *storage.CacheDB, sv string) bool {
	raw, err := getStateValidators(zzNative(db, nil))
	if err != nil {
		panic("zz: getStateValidators")
	}
	l, err := DeserializeStringArray(raw)
	if err != nil {
		panic("zz: DeserializeStringArray")
	}
	for _, x := range l {
		if x == sv {
			return true
		}
	}
	return false
}

// three pending pairs: approveRegisterStateValidator(0), approveRegisterStateValidator(1), approveRemoveStateValidator(0)
func zzThreePending() (n int, reqs []zzRequest) {
	n = zzsym.Param("N")
	db := zzNewCacheDB()
	zzConsensusPool(db, n)
	owner := zzValidatorAddr(6)
	sa, sb, sc := "sv-a", "sv-b", "sv-c"
	zzsym.Assert(putStateValidators(zzNative(db, nil), []string{sc}) == nil, "setup: sc is a state validator")
	_, err := RegisterStateValidator(zzNative(db, zzListInput([]string{sa}, owner), owner))
	zzsym.Assert(err == nil, "setup: registration request 0")
	_, err = RegisterStateValidator(zzNative(db, zzListInput([]string{sb}, owner), owner))
	zzsym.Assert(err == nil, "setup: registration request 1")
	_, err = RemoveStateValidator(zzNative(db, zzListInput([]string{sc}, owner), owner))
	zzsym.Assert(err == nil, "setup: removal request 0")
	for i, s := range []string{sa, sb} {
		id, s := uint64(i), s
		reqs = append(reqs, zzRequest{
			approve: func(who common.Address) error {
				_, err := ApproveRegisterStateValidator(zzNative(db, zzApproveInput(id, who), who))
				return err
			},
			applied: func() bool { return zzIsStateValidator(db, s) },
		})
	}
	reqs = append(reqs, zzRequest{
		approve: func(who common.Address) error {
			_, err := ApproveRemoveStateValidator(zzNative(db, zzApproveInput(0, who), who))
			return err
		},
		applied: func() bool { return !zzIsStateValidator(db, sc) },
	})
	return
}

func ZZ_C32_StateValidatorApprovals() {
	n, reqs := zzThreePending()
	zzRunHistory(n, reqs)
}

func ZZ_C32_StateValidatorApprovals_witness() {
	n, reqs := zzThreePending()
	zzsym.Assert(!zzRunHistory(n, reqs), "WITNESS: some history makes an action take effect")
}

// ZZ_C32_StateValidatorPreApproval: an approval for a request id that has not been filed must not be recorded - otherwise
// it counts towards a request that did not exist when it was approved. N = 3, quorum 2: validator 0 approves id 0 before
// any request exists, then the request is filed and validator 1 approves.
func ZZ_C32_StateValidatorPreApproval() {
	db := zzNewCacheDB()
	zzConsensusPool(db, 3)
	owner := zzValidatorAddr(6)
	v0, v1 := zzValidatorAddr(0), zzValidatorAddr(1)
	remove := zzsym.Bool("removal") // same question for the removal flow
	approve := func(who common.Address) error {
		var err error
		if remove {
			_, err = ApproveRemoveStateValidator(zzNative(db, zzApproveInput(0, who), who))
		} else {
			_, err = ApproveRegisterStateValidator(zzNative(db, zzApproveInput(0, who), who))
		}
		return err
	}
	zzsym.Assert(putStateValidators(zzNative(db, nil), []string{"sv-old"}) == nil, "setup")
	before := zzWriteSet(db)
	err0 := approve(v0)
	recorded := !zzSameWriteSet(before, zzWriteSet(db))
	zzsym.Cover("pre-approved")
	var err error
	if remove {
		_, err = RemoveStateValidator(zzNative(db, zzListInput([]string{"sv-old"}, owner), owner))
	} else {
		_, err = RegisterStateValidator(zzNative(db, zzListInput([]string{"sv-new"}, owner), owner))
	}
	zzsym.Assert(err == nil, "the request is filed afterwards and gets id 0")
	approve(v1)
	took := zzIsStateValidator(db, "sv-new") || !zzIsStateValidator(db, "sv-old")
	zzsym.Assert(!took, "one approval after the request was filed is not a quorum of three validators (an approval given before the request existed was counted)")
	zzsym.Assert(err0 != nil, "approving a request id that was never filed fails")
	zzsym.Assert(!recorded, "approving a request id that was never filed records nothing")
}
