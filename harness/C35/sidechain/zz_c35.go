package side_chain_manager

import (
	"bytes"

	"github.com/polynetwork/poly/common"
	"github.com/polynetwork/poly/native/storage"
	"github.com/polynetwork/poly/zzsym"
)

func zzAddr(name string) common.Address {
	var a common.Address
	copy(a[:], zzsym.Bytes(name, 20))
	return a
}

// encoded by hand: RegisterSideChainParam.Serialization consults the global ledger for a fork height
func zzRegisterInput(r *SideChain) []byte {
	sink := common.NewZeroCopySink(nil)
	sink.WriteVarBytes(r.Address[:])
	sink.WriteVarUint(r.ChainId)
	sink.WriteVarUint(r.Router)
	sink.WriteVarBytes([]byte(r.Name))
	sink.WriteVarUint(r.BlocksToWait)
	sink.WriteVarBytes(r.CCMCAddress)
	sink.WriteVarBytes(r.ExtraInfo)
	return sink.Bytes()
}

func zzChainidInput(chainID uint64, who common.Address) []byte {
	p := &ChainidParam{Chainid: chainID, Address: who}
	sink := common.NewZeroCopySink(nil)
	p.Serialization(sink)
	return sink.Bytes()
}

// a record with arbitrary owner / router / blocks-to-wait / CCMC address for chain id
func zzRecord(tag string, id uint64, owner common.Address) *SideChain {
	router := uint64(zzsym.U8(tag + ".router"))
	btw := uint64(zzsym.U8(tag + ".btw"))
	zzsym.Assume(router < 0xfd && btw < 0xfd && btw != 0) // one-byte varuint form; BlocksToWait >= 1 is enforced by the param decoder
	return &SideChain{Address: owner, ChainId: id, Router: router, Name: "n", BlocksToWait: btw,
		CCMCAddress: zzsym.Bytes(tag+".ccmc", 2), ExtraInfo: []byte{}}
}

func zzSame(a, b *SideChain) bool {
	if a == nil || b == nil {
		return a == nil && b == nil
	}
	return bytes.Equal(zzRegisterInput(a), zzRegisterInput(b))
}

type zzChainState struct {
	R, A, U *SideChain // registered record, pending application, pending update request
	Q       bool       // pending quit request
}

func zzRead(db *storage.CacheDB, id uint64) zzChainState {
	var s zzChainState
	var err error
	s.R, err = GetSideChain(zzNative(db, nil), id)
	zzsym.Assert(err == nil, "registered record stays decodable")
	s.A, err = getSideChainApply(zzNative(db, nil), id)
	zzsym.Assert(err == nil, "application stays decodable")
	s.U, err = getUpdateSideChain(zzNative(db, nil), id)
	zzsym.Assert(err == nil, "update request stays decodable")
	s.Q = getQuitSideChain(zzNative(db, nil), id) == nil
	return s
}

func zzUnchanged(a, b zzChainState) bool {
	return zzSame(a.R, b.R) && zzSame(a.A, b.A) && zzSame(a.U, b.U) && a.Q == b.Q
}

// Inv: the invariant that makes C35 inductive.
//
//	I1 an application is pending only for an unregistered id
//	I2 an update request is pending only for a registered id and was filed by the registered owner
//	I3 a quit request is pending only for a registered id
//	I4 records are stored under their own chain id
func zzInv(s zzChainState, id uint64) bool {
	if s.A != nil && (s.R != nil || s.A.ChainId != id) {
		return false
	}
	if s.R != nil && s.R.ChainId != id {
		return false
	}
	if s.U != nil && (s.R == nil || s.U.Address != s.R.Address || s.U.ChainId != id) {
		return false
	}
	if s.Q && s.R == nil {
		return false
	}
	return true
}

const (
	zzOpRegister = iota
	zzOpApproveRegister
	zzOpUpdate
	zzOpApproveUpdate
	zzOpQuit
	zzOpApproveQuit
	zzNumOps
)

// zzStep: arbitrary Inv-state of chain id X, one operation on chain id Y by an arbitrary signer.
func zzStep() (pre, post zzChainState, op int, err error, x, y uint64, who common.Address, p *SideChain, db *storage.CacheDB) {
	db = zzNewCacheDB()
	zzConsensusPool(db, 1) // validator 0 alone is a quorum; thresholds are C32
	x = zzsym.U64("X")
	y = zzsym.U64("Y")
	if zzsym.Param("WIDE") == 0 {
		zzsym.Assume(x < 0xfd && y < 0xfd)
	}
	owner := zzAddr("owner")
	ns := zzNative(db, nil)
	switch zzsym.Choose("state", 6) {
	case 0: // nothing
	case 1:
		putSideChainApply(ns, zzRecord("A", x, zzAddr("applicant")))
	case 2:
		PutSideChain(ns, zzRecord("R", x, owner))
	case 3:
		PutSideChain(ns, zzRecord("R", x, owner))
		putUpdateSideChain(ns, zzRecord("U", x, owner))
	case 4:
		PutSideChain(ns, zzRecord("R", x, owner))
		putQuitSideChain(ns, x)
	case 5:
		PutSideChain(ns, zzRecord("R", x, owner))
		putUpdateSideChain(ns, zzRecord("U", x, owner))
		putQuitSideChain(ns, x)
	}
	pre = zzRead(db, x)
	zzsym.Assume(zzInv(pre, x))

	who = zzAddr("signer")
	op = zzsym.Choose("op", zzNumOps)
	switch op {
	case zzOpRegister:
		p = zzRecord("P", y, zzAddr("P.owner"))
		_, err = RegisterSideChain(zzNative(db, zzRegisterInput(p), who))
	case zzOpUpdate:
		p = zzRecord("P", y, zzAddr("P.owner"))
		_, err = UpdateSideChain(zzNative(db, zzRegisterInput(p), who))
	case zzOpQuit:
		_, err = QuitSideChain(zzNative(db, zzChainidInput(y, zzAddr("P.owner")), who))
	case zzOpApproveRegister:
		_, err = ApproveRegisterSideChain(zzNative(db, zzChainidInput(y, who), who))
	case zzOpApproveUpdate:
		_, err = ApproveUpdateSideChain(zzNative(db, zzChainidInput(y, who), who))
	case zzOpApproveQuit:
		_, err = ApproveQuitSideChain(zzNative(db, zzChainidInput(y, who), who))
	}
	post = zzRead(db, x)
	return
}

// ZZ_C35_Step: the transition relation of the registry, from every state satisfying Inv.
func ZZ_C35_Step() {
	pre, post, op, err, x, y, who, p, _ := zzStep()
	v0 := zzValidatorAddr(0)
	if y != x {
		zzsym.Assert(zzUnchanged(pre, post), "an operation on another chain id leaves this chain id's records alone")
		zzsym.Cover("other-id")
		return
	}
	if err != nil {
		zzsym.Assert(zzUnchanged(pre, post), "a failed operation changes nothing")
		zzsym.Cover("refused")
	}
	switch op {
	case zzOpRegister:
		zzsym.Assert(zzSame(pre.R, post.R) && zzSame(pre.U, post.U) && pre.Q == post.Q, "an application never touches the registry or other requests")
		if err == nil {
			zzsym.Assert(pre.R == nil && pre.A == nil, "an id is applied for only while it is neither registered nor applied for (registered at most once at a time)")
			zzsym.Assert(who == p.Address, "an application is witnessed by the owner it names")
			zzsym.Assert(zzSame(post.A, p), "the stored application equals the request")
			zzsym.Cover("applied")
		}
	case zzOpApproveRegister:
		if err == nil && who == v0 {
			zzsym.Assert(pre.A != nil && pre.R == nil, "only a pending application for an unregistered id can be approved")
			zzsym.Assert(zzSame(post.R, pre.A) && post.A == nil, "the registered record equals the approved application, which is consumed")
			zzsym.Assert(zzSame(pre.U, post.U) && pre.Q == post.Q, "other requests untouched")
			zzsym.Cover("registered")
		} else {
			zzsym.Assert(zzUnchanged(pre, post), "an approval that is not a validator quorum changes nothing")
		}
	case zzOpUpdate:
		zzsym.Assert(zzSame(pre.R, post.R) && zzSame(pre.A, post.A) && pre.Q == post.Q, "an update request never touches the registry itself")
		if err == nil {
			zzsym.Assert(pre.R != nil && who == pre.R.Address && p.Address == pre.R.Address, "an update is requested only by the registered owner, witnessed")
			zzsym.Assert(zzSame(post.U, p), "the stored update request equals the request")
			zzsym.Cover("update-requested")
		}
	case zzOpApproveUpdate:
		if err == nil && who == v0 {
			zzsym.Assert(pre.U != nil && pre.R != nil && pre.U.Address == pre.R.Address, "a chain is updated only after a request by its registered owner")
			zzsym.Assert(zzSame(post.R, pre.U) && post.U == nil, "the registered record equals the approved update request, which is consumed")
			zzsym.Assert(zzSame(pre.A, post.A) && pre.Q == post.Q, "other requests untouched")
			zzsym.Cover("updated")
		} else {
			zzsym.Assert(zzUnchanged(pre, post), "an approval that is not a validator quorum changes nothing")
		}
	case zzOpQuit:
		zzsym.Assert(zzSame(pre.R, post.R) && zzSame(pre.A, post.A) && zzSame(pre.U, post.U), "a quit request never touches the registry itself")
		if err == nil {
			zzsym.Assert(pre.R != nil && who == pre.R.Address, "removal is requested only by the registered owner, witnessed")
			zzsym.Assert(post.Q, "quit request stored")
			zzsym.Cover("quit-requested")
		}
	case zzOpApproveQuit:
		if err == nil && who == v0 {
			zzsym.Assert(pre.Q && pre.R != nil, "a chain is removed only after a quit request by its owner")
			zzsym.Assert(post.R == nil && !post.Q, "approved quit removes the record and consumes the request")
			zzsym.Assert(zzSame(pre.A, post.A), "application untouched")
			zzsym.Cover("removed")
		} else {
			zzsym.Assert(zzUnchanged(pre, post), "an approval that is not a validator quorum changes nothing")
		}
	}
	zzsym.Cover("step-done")
}

// ZZ_C35_StepKeepsInvariant: the induction step for Inv itself (kept apart from ZZ_C35_Step, whose transition assertions
// are only meaningful on Inv-states).
func ZZ_C35_StepKeepsInvariant() {
	_, post, _, _, x, _, _, _, _ := zzStep()
	zzsym.Assert(zzInv(post, x), "the registry invariant is preserved (pending update/quit requests exist only for a chain registered to the requester; applications only for unregistered ids)")
	zzsym.Cover("step-done")
}

func ZZ_C35_Step_witness() {
	pre, post, _, _, _, _, _, _, _ := zzStep()
	zzsym.Assert(zzSame(pre.R, post.R), "WITNESS: some step changes the registered record")
}

// ZZ_C35_StaleUpdateAfterQuit: end-to-end history for the clause "a registered chain is updated only after a request by its
// registered owner". O registers X, files an update, quits; P registers X afresh; the validators approve "the update of X".
func ZZ_C35_StaleUpdateAfterQuit() {
	db := zzNewCacheDB()
	zzConsensusPool(db, 1)
	v0 := zzValidatorAddr(0)
	x := zzsym.U64("X")
	zzsym.Assume(x < 0xfd)
	o, pOwner := zzAddr("O"), zzAddr("P")
	zzsym.Assume(o != pOwner)
	step := func(_ []byte, err error) { zzsym.Assert(err == nil, "history step succeeds") }
	step(RegisterSideChain(zzNative(db, zzRegisterInput(&SideChain{Address: o, ChainId: x, Router: 1, Name: "n", BlocksToWait: 1, CCMCAddress: []byte{1}}), o)))
	step(ApproveRegisterSideChain(zzNative(db, zzChainidInput(x, v0), v0)))
	step(UpdateSideChain(zzNative(db, zzRegisterInput(&SideChain{Address: o, ChainId: x, Router: 2, Name: "n", BlocksToWait: 1, CCMCAddress: []byte{0xee}}), o)))
	step(QuitSideChain(zzNative(db, zzChainidInput(x, o), o)))
	step(ApproveQuitSideChain(zzNative(db, zzChainidInput(x, v0), v0)))
	step(RegisterSideChain(zzNative(db, zzRegisterInput(&SideChain{Address: pOwner, ChainId: x, Router: 7, Name: "n", BlocksToWait: 1, CCMCAddress: []byte{7}}), pOwner)))
	step(ApproveRegisterSideChain(zzNative(db, zzChainidInput(x, v0), v0)))
	zzsym.Cover("re-registered")
	_, err := ApproveUpdateSideChain(zzNative(db, zzChainidInput(x, v0), v0))
	sc, _ := GetSideChain(zzNative(db, nil), x)
	zzsym.Assert(sc != nil && sc.Address == pOwner && sc.Router == 7,
		"a registered chain is updated only after a request by its registered owner (P's chain was rewritten by O's stale request)")
	zzsym.Assert(err != nil, "no update request by the registered owner is pending, so the approval fails")
}
