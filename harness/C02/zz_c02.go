package types

import (
	"bytes"
	"crypto/sha256"
	"encoding/hex"

	"github.com/ontio/ontology-crypto/keypair"
	"github.com/polynetwork/poly/common"
	"github.com/polynetwork/poly/core/payload"
	"github.com/polynetwork/poly/zzsym"
)

// real P-256 public keys (compressed); the harness chooses among them symbolically.
var zzKeyHex = []string{
	"039d33596861caa2a107af3cabf184df2b352d59f92960d548e2548470af90d2ba",
	"025ef9a33bf9de5620695af6db9f6334d09cc4e2c57fe171f6d9e1053a9f533749",
	"0314ba31a5af08ddee4b34a5570e86ce3c74f832107163becd867ae85088b790d2",
	"030562d8d2b0f37b45ba0eefa9c66e83080a74305601b72ba613cfdf3253bfa3e1",
}

func zzKey(i int) keypair.PublicKey {
	b, _ := hex.DecodeString(zzKeyHex[i])
	k, err := keypair.DeserializePublicKey(b)
	if err != nil {
		panic("zz: bad table key")
	}
	return k
}

func zzSymTx(tag string, L int) *Transaction {
	tx := &Transaction{}
	tx.Version = 0
	tx.TxType = Invoke
	tx.Nonce = zzsym.U32(tag + "nonce")
	tx.ChainID = zzsym.U64(tag + "chain")
	tx.GasLimit = zzsym.U64(tag + "gaslimit")
	tx.GasPrice = zzsym.U64(tag + "gasprice")
	tx.Payload = &payload.InvokeCode{Code: zzsym.BytesChoose(tag+"code", L)}
	copy(tx.Payer[:], zzsym.Bytes(tag+"payer", 20))
	tx.CoinType = ONG
	return tx
}

func zzSymSigs(tag string, L int) []Sig {
	n := zzsym.Choose(tag+"nsig", 3)
	sigs := make([]Sig, n)
	for i := 0; i < n; i++ {
		nk := 1 + zzsym.Choose(tag+"nkeys", 2)
		for k := 0; k < nk; k++ {
			sigs[i].PubKeys = append(sigs[i].PubKeys, zzKey((2*i+k)%len(zzKeyHex)))
		}
		nd := zzsym.Choose(tag+"ndata", 3)
		for k := 0; k < nd; k++ {
			sigs[i].SigData = append(sigs[i].SigData, zzsym.BytesChoose(tag+"sigdata", L))
		}
		sigs[i].M = zzsym.U16(tag + "m")
	}
	return sigs
}

func zzSigEqual(a, b Sig) bool {
	if a.M != b.M || len(a.PubKeys) != len(b.PubKeys) || len(a.SigData) != len(b.SigData) {
		return false
	}
	for i := range a.PubKeys {
		if !bytes.Equal(keypair.SerializePublicKey(a.PubKeys[i]), keypair.SerializePublicKey(b.PubKeys[i])) {
			return false
		}
	}
	for i := range a.SigData {
		if !bytes.Equal(a.SigData[i], b.SigData[i]) {
			return false
		}
	}
	return true
}

// decode(encode(tx)) == tx; identity = double SHA-256 of the unsigned part; nothing left over.
func ZZ_C02_TxRoundTrip() {
	L := zzsym.Param("L")
	tx := zzSymTx("", L)
	tx.Sigs = zzSymSigs("", 2)
	sink := common.NewZeroCopySink(nil)
	err := tx.Serialization(sink)
	zzsym.Assert(err == nil, "serialization of a well-formed tx succeeds")
	raw := sink.Bytes()
	usink := common.NewZeroCopySink(nil)
	tx.SerializeUnsigned(usink)
	unsigned := usink.Bytes()
	zzsym.Assert(len(unsigned) <= len(raw) && bytes.Equal(raw[:len(unsigned)], unsigned), "unsigned part is a prefix of the encoding")

	tx2, err := TransactionFromRawBytes(raw)
	zzsym.Assert(err == nil, "decoding an encoded tx succeeds")
	if err != nil {
		return
	}
	zzsym.Assert(tx2.Version == tx.Version && tx2.TxType == tx.TxType && tx2.Nonce == tx.Nonce && tx2.ChainID == tx.ChainID &&
		tx2.GasLimit == tx.GasLimit && tx2.GasPrice == tx.GasPrice && tx2.Payer == tx.Payer && tx2.CoinType == tx.CoinType, "scalar fields round trip")
	zzsym.Assert(bytes.Equal(tx2.Payload.(*payload.InvokeCode).Code, tx.Payload.(*payload.InvokeCode).Code), "payload round trip")
	zzsym.Assert(len(tx2.Attributes) == 0, "attributes empty")
	zzsym.Assert(len(tx2.Sigs) == len(tx.Sigs), "signature entry count")
	for i := range tx.Sigs {
		if i < len(tx2.Sigs) {
			zzsym.Assert(zzSigEqual(tx.Sigs[i], tx2.Sigs[i]), "signature entry round trip")
		}
	}
	zzsym.Assert(bytes.Equal(tx2.Raw, raw), "Raw holds exactly the consumed encoding")
	t := sha256.Sum256(unsigned)
	want := common.Uint256(sha256.Sum256(t[:]))
	zzsym.Assert(tx2.Hash() == want, "tx identity is the double SHA-256 of the unsigned encoding")
	zzsym.Assert(bytes.Equal(tx2.ToArray(), raw), "re-encoding the decoded tx gives the same bytes")
	zzsym.Cover("tx-roundtrip")
}

// two transactions that differ only in their signature entries have the same identity
func ZZ_C02_TxHashIgnoresSigs() {
	L := zzsym.Param("L")
	tx := zzSymTx("", L)
	tx.Sigs = zzSymSigs("a.", 2)
	s1 := common.NewZeroCopySink(nil)
	tx.Serialization(s1)
	raw1 := append([]byte(nil), s1.Bytes()...)
	tx.Sigs = zzSymSigs("b.", 2)
	s2 := common.NewZeroCopySink(nil)
	tx.Serialization(s2)
	a, e1 := TransactionFromRawBytes(raw1)
	b, e2 := TransactionFromRawBytes(s2.Bytes())
	zzsym.Assert(e1 == nil && e2 == nil, "both decode")
	if e1 == nil && e2 == nil {
		zzsym.Assert(a.Hash() == b.Hash(), "identity does not depend on signatures")
		zzsym.Cover("hash-sigs")
	}
}

// Arbitrary bytes: the decoder returns a value or an error, it never panics.
func ZZ_C02_TxDecodeNoPanic() {
	B := zzsym.Param("B")
	buf := zzsym.BytesUpTo("buf", B)
	tx, err := TransactionFromRawBytes(buf)
	if err == nil {
		zzsym.Assert(tx != nil && uint64(len(tx.Raw)) <= uint64(len(buf)), "decoded tx lies inside the buffer")
		zzsym.Cover("decoded")
	} else {
		zzsym.Cover("rejected")
	}
}

func ZZ_C02_TxDecodeNoPanic_witness() {
	buf := zzsym.BytesUpTo("buf", 60)
	_, err := TransactionFromRawBytes(buf)
	zzsym.Assert(err != nil, "witness: some 60-byte buffer decodes")
}

func zzSymHeader(L int) *Header {
	h := &Header{}
	h.Version = 0
	h.ChainID = zzsym.U64("chain")
	copy(h.PrevBlockHash[:], zzsym.Bytes("prev", 32))
	copy(h.TransactionsRoot[:], zzsym.Bytes("txroot", 32))
	copy(h.CrossStateRoot[:], zzsym.Bytes("csroot", 32))
	copy(h.BlockRoot[:], zzsym.Bytes("blkroot", 32))
	h.Timestamp = zzsym.U32("ts")
	h.Height = zzsym.U32("height")
	h.ConsensusData = zzsym.U64("cdata")
	h.ConsensusPayload = zzsym.BytesChoose("cpayload", L)
	copy(h.NextBookkeeper[:], zzsym.Bytes("nextbk", 20))
	return h
}

func zzHeaderSigs(h *Header, tag string) {
	h.Bookkeepers = nil
	h.SigData = nil
	nb := zzsym.Choose(tag+"nbk", 4)
	for i := 0; i < nb; i++ {
		h.Bookkeepers = append(h.Bookkeepers, zzKey(i%len(zzKeyHex)))
	}
	ns := zzsym.Choose(tag+"nsd", 3)
	for i := 0; i < ns; i++ {
		h.SigData = append(h.SigData, zzsym.BytesChoose(tag+"sd", 3))
	}
}

func zzHeaderEq(a, b *Header) bool {
	if !(a.Version == b.Version && a.ChainID == b.ChainID && a.PrevBlockHash == b.PrevBlockHash && a.TransactionsRoot == b.TransactionsRoot &&
		a.CrossStateRoot == b.CrossStateRoot && a.BlockRoot == b.BlockRoot && a.Timestamp == b.Timestamp && a.Height == b.Height &&
		a.ConsensusData == b.ConsensusData && bytes.Equal(a.ConsensusPayload, b.ConsensusPayload) && a.NextBookkeeper == b.NextBookkeeper) {
		return false
	}
	if len(a.Bookkeepers) != len(b.Bookkeepers) || len(a.SigData) != len(b.SigData) {
		return false
	}
	for i := range a.Bookkeepers {
		if !bytes.Equal(keypair.SerializePublicKey(a.Bookkeepers[i]), keypair.SerializePublicKey(b.Bookkeepers[i])) {
			return false
		}
	}
	for i := range a.SigData {
		if !bytes.Equal(a.SigData[i], b.SigData[i]) {
			return false
		}
	}
	return true
}

func ZZ_C02_HeaderRoundTrip() {
	L := zzsym.Param("L")
	h := zzSymHeader(L)
	zzHeaderSigs(h, "")
	sink := common.NewZeroCopySink(nil)
	h.Serialization(sink)
	raw := sink.Bytes()
	h2, err := HeaderFromRawBytes(raw)
	zzsym.Assert(err == nil, "header decodes")
	if err != nil {
		return
	}
	zzsym.Assert(zzHeaderEq(h, h2), "header round trip (zero-copy)")
	zzsym.Assert(h2.Hash() == h.Hash(), "decoded header has the same identity")
	// streaming codec agrees with the zero-copy codec
	var w bytes.Buffer
	err = h.Serialize(&w)
	zzsym.Assert(err == nil && bytes.Equal(w.Bytes(), raw), "streaming encoder produces the same bytes")
	h3 := &Header{}
	err = h3.Deserialize(bytes.NewReader(raw))
	zzsym.Assert(err == nil, "streaming decoder accepts")
	if err == nil {
		zzsym.Assert(zzHeaderEq(h, h3), "header round trip (streaming)")
	}
	zzsym.Cover("header-roundtrip")
}

func ZZ_C02_HeaderHashIgnoresSigs() {
	h := zzSymHeader(2)
	zzHeaderSigs(h, "a.")
	usink := common.NewZeroCopySink(nil)
	h.serializationUnsigned(usink)
	t := sha256.Sum256(usink.Bytes())
	want := common.Uint256(sha256.Sum256(t[:]))
	h1 := h.Hash()
	g := *h
	g.hash = nil
	zzHeaderSigs(&g, "b.")
	zzsym.Assert(h1 == want, "header identity is the double SHA-256 of the unsigned encoding")
	zzsym.Assert(g.Hash() == h1, "header identity does not depend on bookkeepers or signatures")
	zzsym.Cover("header-hash")
}

// Arbitrary short input to the header decoder: every buffer of up to B bytes (symbolic length and content).
func ZZ_C02_HeaderDecodeNoPanic() {
	B := zzsym.Param("B")
	buf := zzsym.BytesUpTo("buf", B)
	h, err := HeaderFromRawBytes(buf)
	if err == nil {
		zzsym.Assert(h != nil, "decoded header")
		zzsym.Cover("decoded")
	} else {
		zzsym.Cover("rejected")
	}
}

// The variable part of a header: 156 arbitrary bytes for the ten fixed-width fields (they cannot fail once
// present), a consensus payload of P arbitrary bytes behind its one-byte length prefix (P enumerated, the prefix
// byte concrete so that all later offsets are concrete), 20 arbitrary bytes for the next bookkeeper, and then an
// arbitrary tail of every length 0..T: bookkeeper count (any var-uint size, any value), keys, signature count,
// signatures - whatever the solver makes of it.
func ZZ_C02_HeaderTailNoPanic() {
	plen := zzsym.Choose("payload-len", zzsym.Param("P")+1)
	buf := append([]byte(nil), zzsym.Bytes("fixed", 156)...)
	buf = append(buf, byte(plen))
	buf = append(buf, zzsym.Bytes("payload", plen)...)
	buf = append(buf, zzsym.Bytes("nextbookkeeper", 20)...)
	buf = append(buf, zzsym.BytesChoose("tail", zzsym.Param("T"))...)
	h, err := HeaderFromRawBytes(buf)
	if err == nil {
		zzsym.Assert(h != nil, "decoded header")
		zzsym.Cover("decoded")
	} else {
		zzsym.Cover("rejected")
	}
}

// A block whose transactions do not match the header's root, or that repeats a transaction, is rejected.
func ZZ_C02_BlockChecks() {
	h := zzSymHeader(1)
	n := zzsym.Choose("ntx", 3)
	var txs []*Transaction
	for i := 0; i < n; i++ {
		txs = append(txs, zzSymTx("tx.", 2))
	}
	blk := &Block{Header: h, Transactions: txs}
	sink := common.NewZeroCopySink(nil)
	err := blk.Serialization(sink)
	zzsym.Assert(err == nil, "block serializes")
	b2, err := BlockFromRawBytes(sink.Bytes())
	// recompute expected root from the decoded transactions' identities
	var hashes []common.Uint256
	dup := false
	for i := 0; i < n; i++ {
		us := common.NewZeroCopySink(nil)
		txs[i].SerializeUnsigned(us)
		t := sha256.Sum256(us.Bytes())
		hh := common.Uint256(sha256.Sum256(t[:]))
		for _, o := range hashes {
			if o == hh {
				dup = true
			}
		}
		hashes = append(hashes, hh)
	}
	root := common.ComputeMerkleRoot(append([]common.Uint256(nil), hashes...))
	if err == nil {
		zzsym.Assert(!dup, "a block with a repeated transaction is rejected")
		zzsym.Assert(h.TransactionsRoot == root, "a block whose root does not match its transactions is rejected")
		zzsym.Assert(len(b2.Transactions) == n, "transaction count")
		zzsym.Cover("block-accepted")
	} else {
		zzsym.Assert(dup || h.TransactionsRoot != root, "a consistent block is accepted")
		zzsym.Cover("block-rejected")
	}
}

// Oversize transactions are refused on every decode path: a transaction whose encoding is exactly
// MAX_TX_SIZE bytes decodes, one byte more is rejected - also when the excess sits in the signature
// section and the transaction is read from a shared source (block / p2p path), not only through
// TransactionFromRawBytes.
func ZZ_C02_TxSizeLimit() {
	tx := zzSymTx("", 0)
	sink := common.NewZeroCopySink(nil)
	tx.SerializeUnsigned(sink)
	unsignedLen := len(sink.Bytes())
	// one signature entry: 1 blob + 1 key; overhead = varuint(1) + u16 + varbytes prefix(5) + u16 + (1+33) + u16
	over := zzsym.Choose("over", 2)
	overhead := 1 + 2 + 5 + 2 + 34 + 2
	blob := make([]byte, MAX_TX_SIZE-unsignedLen-overhead+over)
	blob[0] = zzsym.U8("blob0")
	tx.Sigs = []Sig{{PubKeys: []keypair.PublicKey{zzKey(0)}, M: 1, SigData: [][]byte{blob}}}
	full := common.NewZeroCopySink(nil)
	if err := tx.Serialization(full); err != nil {
		panic("zz: serialization")
	}
	raw := full.Bytes()
	zzsym.Assert(len(raw) == MAX_TX_SIZE+over, "harness: encoding has the intended size")
	_, e1 := TransactionFromRawBytes(raw)
	t2 := &Transaction{}
	e2 := t2.Deserialization(common.NewZeroCopySource(raw))
	if over == 1 {
		zzsym.Assert(e1 != nil, "TransactionFromRawBytes refuses an oversize transaction")
		zzsym.Assert(e2 != nil, "Deserialization from a shared source refuses an oversize transaction")
		zzsym.Cover("oversize")
	} else {
		zzsym.Assert(e1 == nil && e2 == nil, "a transaction of exactly the maximum size decodes")
		zzsym.Cover("maxsize")
	}
}
