package eth

// C16, hidden process state: the ethash verification-cache layer of the Ethereum light client (cache.go) is the
// one place in the header-sync contracts that keeps an in-memory structure next to contract storage. One
// "invocation" below is what SyncBlockHeader does with it: NewCaches, getCache for the header's block number,
// deleteCaches. The same invocation is executed twice in one process on the same prior state (the first
// execution's writes are discarded, as for a proposal that is executed again, a pre-execution or a losing fork):
// both executions must produce the same write set. cacheSize and generateCache (16 MB of Keccak-512) are replaced
// by small deterministic stand-ins (spec overrides); everything else is the real code.

import (
	"github.com/polynetwork/poly/core/store/overlaydb"
	"github.com/polynetwork/poly/native/storage"
	"github.com/polynetwork/poly/zzsym"
)

func zzCacheSize(block uint64) uint64 { return 64 }

// seedHash iterates Keccak-256 epoch times through a Read-style hasher the engine does not model
func zzSeedHash(block uint64) []byte {
	seed := make([]byte, 32)
	seed[0] = byte(block / epochLength)
	return seed
}

var zzGenerated int

func zzGenerateCache(self *Caches, dest []uint32, seed []byte) {
	zzGenerated++
	for i := range dest {
		dest[i] = uint32(seed[i%len(seed)]) + uint32(i)
	}
}

func zzCacheInvocation(store *zzStore, block uint64) [][2][]byte {
	db := storage.NewCacheDB(overlaydb.NewOverlayDB(store))
	ns := zzNative(db, nil)
	caches := NewCaches(3, ns)
	c := caches.getCache(block)
	zzsym.Assert(len(c) == 16, "the verification cache of the header's epoch is available")
	caches.deleteCaches()
	return zzWriteSet(db)
}

func ZZ_C16_EthCacheReexecution() {
	store := &zzStore{}
	epoch := uint64(zzsym.Choose("epoch", 5))
	off := zzsym.U64("offset") // any block of the epoch
	zzsym.Assume(off < epochLength)
	block := epoch*epochLength + off
	if zzsym.Choose("cache-in-state", 2) == 1 {
		// prior state already holds this epoch's cache (written by an earlier, committed block)
		ov := overlaydb.NewOverlayDB(store)
		db := storage.NewCacheDB(ov)
		caches := NewCaches(3, zzNative(db, nil))
		caches.getCache(block)
		caches.deleteCaches()
		db.Commit()
		store.NewBatch()
		ov.CommitTo()
		store.BatchCommit()
		zzsym.Cover("cache-in-state")
	}
	zzGenerated = 0
	first := zzCacheInvocation(store, block)
	g1 := zzGenerated
	second := zzCacheInvocation(store, block)
	zzsym.Assert(zzSameWriteSet(first, second), "executing the same header-sync step again on the same prior state yields the same contract state")
	zzsym.Assert(zzGenerated == 2*g1, "both executions take the same path (cache read from state, or generated and stored, in both)")
	if g1 > 0 {
		zzsym.Cover("cache-generated")
	} else {
		zzsym.Cover("cache-read-from-state")
	}
	zzsym.Cover("reexecution-done")
}

func ZZ_C16_EthCacheReexecution_witness() {
	store := &zzStore{}
	a := zzCacheInvocation(store, 0)
	b := zzCacheInvocation(store, epochLength)
	zzsym.Assert(zzSameWriteSet(a, b), "witness: different epochs write different cache rows")
}
