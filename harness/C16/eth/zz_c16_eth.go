package eth

// C16 (clause "native contract code reachable from transaction execution does not consult the wall clock"),
// Ethereum header-sync router: ETHHandler.SyncBlockHeader is driven through its parent / height / extra-size
// checks up to the header.Time test, for every header timestamp. The engine's time.Now model records the event
// "clock consulted: <call chain>"; the harness spec forbids that event ("forbid_events"), so every path on which
// the contract reads the wall clock is reported.
//
// Expected on the unchanged tree: the check fires (known finding F6): header_sync.go compares header.Time with
// time.Now().Add(allowedFutureBlockTime) instead of the block timestamp (NativeService.GetTime()).
//
// Replaced through spec "overrides" (reflection based codecs, ethash; same models as harness/C27/eth):
// encoding/json.Unmarshal/Marshal (exact round-trip codec over tokens), Header.Hash (sha256 over parent hash,
// number, extra), ETHHandler.verifyHeader (seal accepted), difficultyCalculator (answers the difficulty the
// header carries). Not replayed natively.

import (
	"crypto/sha256"
	"errors"
	"math/big"

	ethcommon "github.com/ethereum/go-ethereum/common"
	"github.com/ethereum/go-ethereum/core/types"
	"github.com/polynetwork/poly/common"
	ptypes "github.com/polynetwork/poly/core/types"
	"github.com/polynetwork/poly/native"
	"github.com/polynetwork/poly/native/service/governance/node_manager"
	scom "github.com/polynetwork/poly/native/service/header_sync/common"
	"github.com/polynetwork/poly/native/storage"
	"github.com/polynetwork/poly/zzsym"
)

const (
	zzChain     = uint64(2)
	zzBlockTime = uint32(1700000000)
)

var (
	zzSubmitted []Header                  // headers named by the JSON token {'H', i}
	zzRecords   []HeaderWithDifficultySum // stored records named by the JSON token {'R', j}
)

func zzNoInit() {}

func zzCloneBig(x *big.Int) *big.Int {
	if x == nil {
		return nil
	}
	return new(big.Int).Set(x)
}

func zzCloneHeader(h *Header) Header {
	c := *h
	c.Difficulty, c.Number, c.BaseFee = zzCloneBig(h.Difficulty), zzCloneBig(h.Number), zzCloneBig(h.BaseFee)
	c.Extra = append([]byte(nil), h.Extra...)
	return c
}

func zzJSONUnmarshal(data []byte, v interface{}) error {
	switch t := v.(type) {
	case *Header:
		if len(data) != 2 || data[0] != 'H' || int(data[1]) >= len(zzSubmitted) {
			return errors.New("zz: malformed header JSON")
		}
		*t = zzCloneHeader(&zzSubmitted[data[1]])
		return nil
	case *HeaderWithDifficultySum:
		if len(data) != 2 || data[0] != 'R' || int(data[1]) >= len(zzRecords) {
			return errors.New("zz: malformed stored record")
		}
		r := &zzRecords[data[1]]
		t.Header, t.DifficultySum = zzCloneHeader(&r.Header), zzCloneBig(r.DifficultySum)
		return nil
	}
	return errors.New("zz: json.Unmarshal target not modelled")
}

func zzJSONMarshal(v interface{}) ([]byte, error) {
	r, ok := v.(*HeaderWithDifficultySum)
	if !ok {
		return nil, errors.New("zz: json.Marshal value not modelled")
	}
	zzRecords = append(zzRecords, HeaderWithDifficultySum{Header: zzCloneHeader(&r.Header), DifficultySum: zzCloneBig(r.DifficultySum)})
	return []byte{'R', byte(len(zzRecords) - 1)}, nil
}

func zzHeaderHash(h *Header) ethcommon.Hash {
	b := append([]byte{}, h.ParentHash[:]...)
	b = append(b, h.Number.Bytes()...)
	b = append(b, 0xff)
	b = append(b, h.Extra...)
	return ethcommon.Hash(sha256.Sum256(b))
}

func zzVerifySeal(this *ETHHandler, header *Header, caches *Caches) error { return nil }

func zzDifficultyCalculator(time *big.Int, parent *Header) *big.Int { return big.NewInt(1 << 20) }

func zzHeader(parent ethcommon.Hash, number, time uint64, id byte) byte {
	zzSubmitted = append(zzSubmitted, Header{ParentHash: parent, UncleHash: types.EmptyUncleHash, Number: new(big.Int).SetUint64(number),
		Difficulty: big.NewInt(1 << 20), Time: time, GasLimit: 8000000, GasUsed: 21000, Extra: []byte{'z', 'z', id}})
	return byte(len(zzSubmitted) - 1)
}

func zzSetup() *storage.CacheDB {
	zzSubmitted, zzRecords = nil, nil
	isTest, testLondonHeight = true, ^uint64(0) // legacy (pre-London) rules
	db := zzNewCacheDB()
	zzConsensusPool(db, 1)
	var none ethcommon.Hash
	g := zzHeader(none, 100, 1000, 0)
	p := &scom.SyncGenesisHeaderParam{ChainID: zzChain, GenesisHeader: []byte{'H', g}}
	sink := common.NewZeroCopySink(nil)
	p.Serialization(sink)
	op, err := node_manager.GetCurConOperator(zzNative(db, nil))
	if err != nil {
		panic("zz: operator")
	}
	if err := NewETHHandler().SyncGenesisHeader(zzNative(db, sink.Bytes(), op)); err != nil {
		panic("zz: genesis installation failed")
	}
	return db
}

func zzSyncOne(db *storage.CacheDB, token byte) error {
	p := &scom.SyncBlockHeaderParam{ChainID: zzChain, Headers: [][]byte{{'H', token}}}
	sink := common.NewZeroCopySink(nil)
	p.Serialization(sink)
	// the transaction runs in a block with timestamp zzBlockTime: a repaired contract compares header.Time with
	// NativeService.GetTime() and then still reaches all three outcomes below
	ns, err := native.NewNativeService(db, &ptypes.Transaction{}, zzBlockTime, 100, common.Uint256{}, 0, sink.Bytes(), false)
	if err != nil {
		panic("zz: NewNativeService")
	}
	return NewETHHandler().SyncBlockHeader(ns)
}

// Every header timestamp: refused as "future block", refused as not after the parent, or accepted.
// The property clause is carried by the spec option forbid_events = ["clock consulted"].
func ZZ_C16_EthSyncBlockHeaderConsultsClock() {
	db := zzSetup()
	zzsym.Event("native entry point: header_sync/eth SyncBlockHeader")
	t := zzsym.U64("header.time")
	child := zzHeader(zzSubmitted[0].Hash(), 101, t, 1)
	err := zzSyncOne(db, child)
	if err == nil {
		exist, _ := IsHeaderExist(zzNative(db, nil), zzSubmitted[child].Hash().Bytes(), zzChain)
		zzsym.Assert(exist, "an accepted header is stored")
		zzsym.Cover("time-check-passed")
	} else {
		zzsym.Cover("refused")
	}
}

// witness twin: the three outcomes are all reachable (the assertion must be violable)
func ZZ_C16_EthSyncBlockHeader_witness() {
	db := zzSetup()
	t := zzsym.U64("header.time")
	child := zzHeader(zzSubmitted[0].Hash(), 101, t, 1)
	zzsym.Assert(zzSyncOne(db, child) != nil, "witness: some timestamp passes the header.Time checks")
}
