package eth

// C19 (Ethereum router): the genesis header of a side chain can be installed at most once; every later
// attempt fails and leaves the light-client state unchanged.
//
// Real code: ETHHandler.SyncGenesisHeader (operator check, GENESIS_HEADER existence check), getGenesisHeader's
// parameter decoding, putGenesisBlockHeader's four writes. Replaced through spec "overrides" (reflection based,
// not interpretable): encoding/json.Unmarshal of the header JSON, encoding/json.Marshal of the stored record
// and Header.Hash (rlp + keccak). The replacements treat the header JSON as an opaque token: the first
// byte selects one of two headers prepared by the harness (symbolic parent hash and time, block number from a
// small set); the stored record and the header hash are injective-by-construction functions of those fields.
// Because the replacements are not the real codecs this harness is NOT replayed natively.

import (
	"crypto/sha256"
	"errors"
	"math/big"

	ethcommon "github.com/ethereum/go-ethereum/common"
	"github.com/polynetwork/poly/common"
	"github.com/polynetwork/poly/native/service/governance/node_manager"
	scom "github.com/polynetwork/poly/native/service/header_sync/common"
	"github.com/polynetwork/poly/native/storage"
	"github.com/polynetwork/poly/zzsym"
)

func zzNoInit() {}

var zzHeaders [2]Header

func zzEncodeHeader(h *Header) []byte {
	b := append([]byte{}, h.ParentHash[:]...)
	b = append(b, h.Number.Bytes()...)
	b = append(b, byte(h.Time), byte(h.Time>>8), byte(h.Time>>16), byte(h.Time>>24), byte(h.Time>>32), byte(h.Time>>40), byte(h.Time>>48), byte(h.Time>>56))
	return b
}

func zzJSONUnmarshal(data []byte, v interface{}) error {
	h, ok := v.(*Header)
	if !ok {
		return errors.New("zz: json.Unmarshal target not modelled")
	}
	if len(data) != 1 || data[0] > 1 {
		return errors.New("zz: malformed header")
	}
	*h = zzHeaders[data[0]]
	return nil
}

func zzJSONMarshal(v interface{}) ([]byte, error) {
	hs, ok := v.(*HeaderWithDifficultySum)
	if !ok {
		return nil, errors.New("zz: json.Marshal value not modelled")
	}
	return append(zzEncodeHeader(&hs.Header), hs.DifficultySum.Bytes()...), nil
}

func zzHeaderHash(h *Header) ethcommon.Hash {
	return ethcommon.Hash(sha256.Sum256(zzEncodeHeader(h)))
}

func zzMakeHeader(tag string) Header {
	h := Header{Number: big.NewInt(int64(zzsym.Choose(tag+".number", 3))), Difficulty: big.NewInt(1000), Time: zzsym.U64(tag + ".time")}
	copy(h.ParentHash[:], zzsym.Bytes(tag+".parent", 32))
	return h
}

func zzGenesisInput(chain uint64, token byte) []byte {
	p := &scom.SyncGenesisHeaderParam{ChainID: chain, GenesisHeader: []byte{token}}
	sink := common.NewZeroCopySink(nil)
	p.Serialization(sink)
	return sink.Bytes()
}

func zzOperator(db *storage.CacheDB) common.Address {
	op, err := node_manager.GetCurConOperator(zzNative(db, nil))
	if err != nil {
		panic("zz: operator")
	}
	return op
}

func zzSync(db *storage.CacheDB, chain uint64, token byte, signer common.Address) error {
	return NewETHHandler().SyncGenesisHeader(zzNative(db, zzGenesisInput(chain, token), signer))
}

// Obligation (i): the second installation for the same chain returns an error.
// Obligation (ii): it leaves the light-client state unchanged. Reported by two harnesses.
func zzTwice(checkError, checkState bool) {
	db := zzNewCacheDB()
	zzConsensusPool(db, 1)
	op := zzOperator(db)
	zzHeaders[0], zzHeaders[1] = zzMakeHeader("g1"), zzMakeHeader("g2")
	chain := zzsym.U64("chain")
	err := zzSync(db, chain, 0, op)
	zzsym.Assert(err == nil, "the consensus operator can install the genesis header of a chain that has none")
	zzsym.Assert(len(zzWriteSet(db)) >= 6, "the first installation stores the genesis header records")
	zzsym.Cover("first-installed")

	before := zzWriteSet(db)
	other := zzsym.U64("chain2")
	err2 := zzSync(db, other, byte(zzsym.Choose("secondHeader", 2)), op) // the same header again or a different one
	if other != chain {
		zzsym.Assert(err2 == nil, "another chain's trust root can still be installed")
		zzsym.Cover("other-chain")
		return
	}
	if checkError {
		zzsym.Assert(err2 != nil, "a second genesis installation for the same side chain fails")
	}
	if checkState {
		zzsym.Assert(zzSameWriteSet(before, zzWriteSet(db)), "a second genesis installation leaves the light-client state unchanged")
	}
	zzsym.Cover("second-attempt")
}

func ZZ_C19_EthSecondGenesisFails() { zzTwice(true, false) }

func ZZ_C19_EthSecondGenesisChangesNothing() { zzTwice(false, true) }

func ZZ_C19_EthGenesis_witness() {
	db := zzNewCacheDB()
	zzConsensusPool(db, 1)
	zzHeaders[0] = zzMakeHeader("g1")
	var who common.Address
	copy(who[:], zzsym.Bytes("who", 20))
	err := zzSync(db, zzsym.U64("chain"), 0, who)
	zzsym.Assert(err != nil, "witness: who may be the operator, then the installation succeeds")
}

func ZZ_C19_EthGenesisNeedsOperator() {
	db := zzNewCacheDB()
	zzConsensusPool(db, 1+zzsym.Choose("validators", 3))
	op := zzOperator(db)
	zzHeaders[0] = zzMakeHeader("g1")
	var who common.Address
	copy(who[:], zzsym.Bytes("who", 20))
	zzsym.Assume(who != op)
	before := zzWriteSet(db)
	err := zzSync(db, zzsym.U64("chain"), 0, who)
	zzsym.Assert(err != nil, "only the consensus operator may install a genesis header")
	zzsym.Assert(zzSameWriteSet(before, zzWriteSet(db)), "a refused installation changes nothing")
	zzsym.Cover("refused")
}
