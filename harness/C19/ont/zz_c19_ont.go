package ont

// C19 (Ontology router): the genesis header / validator trust root of a side chain can be installed at
// most once; every later attempt fails and leaves the light-client state unchanged.
//
// Real code: ONTHandler.SyncGenesisHeader, otypes.HeaderFromRawBytes, PutBlockHeader, UpdateConsensusPeer,
// putConsensusPeers, KeyHeights codec, node_manager operator lookup. The only non-interpretable step is
// json.Unmarshal of the header's consensus payload (reflection): spec "overrides" replace encoding/json.Unmarshal
// by zzJSONUnmarshal below, a hand decoder for exactly the two concrete payloads this harness uses. Native
// replay runs the real encoding/json on the same payloads, so a violation is confirmed against unmodified code.

import (
	"bytes"
	"errors"

	"github.com/ontio/ontology-crypto/keypair"
	ocommon "github.com/ontio/ontology/common"
	otypes "github.com/ontio/ontology/core/types"
	"github.com/polynetwork/poly/common"
	vconfig "github.com/polynetwork/poly/consensus/vbft/config"
	"github.com/polynetwork/poly/native"
	"github.com/polynetwork/poly/native/service/governance/node_manager"
	hscommon "github.com/polynetwork/poly/native/service/header_sync/common"
	"github.com/polynetwork/poly/native/storage"
	"github.com/polynetwork/poly/zzsym"
)

// two consensus payloads: one that installs validator set A (keys 0..3), one that installs set B (keys 4..6)
var zzPayloadA = []byte(`{"leader":1,"vrf_value":"","vrf_proof":"","last_config_block_num":0,"new_chain_config":{"version":1,"view":1,"n":4,"c":1,"block_msg_delay":10000000000,"hash_msg_delay":10000000000,"peer_handshake_timeout":10000000000,"peers":[{"index":1,"id":"` + zzValidatorKeyHex[0] + `"},{"index":2,"id":"` + zzValidatorKeyHex[1] + `"},{"index":3,"id":"` + zzValidatorKeyHex[2] + `"},{"index":4,"id":"` + zzValidatorKeyHex[3] + `"}],"pos_table":[1,2,3,4],"max_block_change_view":1000}}`)
var zzPayloadB = []byte(`{"leader":2,"vrf_value":"","vrf_proof":"","last_config_block_num":0,"new_chain_config":{"version":1,"view":2,"n":3,"c":0,"block_msg_delay":10000000000,"hash_msg_delay":10000000000,"peer_handshake_timeout":10000000000,"peers":[{"index":1,"id":"` + zzValidatorKeyHex[4] + `"},{"index":2,"id":"` + zzValidatorKeyHex[5] + `"},{"index":3,"id":"` + zzValidatorKeyHex[6] + `"}],"pos_table":[1,2,3],"max_block_change_view":1000}}`)

func zzChainConfig(view uint32, first, n int) *vconfig.ChainConfig {
	c := &vconfig.ChainConfig{Version: 1, View: view, N: uint32(n), C: uint32((n - 1) / 3), BlockMsgDelay: 10000000000, HashMsgDelay: 10000000000,
		PeerHandshakeTimeout: 10000000000, MaxBlockChangeView: 1000}
	for i := 0; i < n; i++ {
		c.Peers = append(c.Peers, &vconfig.PeerConfig{Index: uint32(i + 1), ID: zzValidatorKeyHex[first+i]})
		c.PosTable = append(c.PosTable, uint32(i+1))
	}
	return c
}

// zzJSONUnmarshal: what encoding/json.Unmarshal yields for zzPayloadA / zzPayloadB into a *VbftBlockInfo.
func zzJSONUnmarshal(data []byte, v interface{}) error {
	info, ok := v.(*vconfig.VbftBlockInfo)
	if !ok {
		return errors.New("zz: json.Unmarshal target not modelled")
	}
	switch {
	case bytes.Equal(data, zzPayloadA):
		*info = vconfig.VbftBlockInfo{Proposer: 1, VrfValue: []byte{}, VrfProof: []byte{}, NewChainConfig: zzChainConfig(1, 0, 4)}
	case bytes.Equal(data, zzPayloadB):
		*info = vconfig.VbftBlockInfo{Proposer: 2, VrfValue: []byte{}, VrfProof: []byte{}, NewChainConfig: zzChainConfig(2, 4, 3)}
	default:
		return errors.New("zz: payload not modelled")
	}
	return nil
}

// zzHeader: an Ontology header with symbolic scalar fields and the chosen consensus payload.
func zzHeader(tag string, payload []byte) []byte {
	h := &otypes.Header{Version: 0, Timestamp: zzsym.U32(tag + ".ts"), Height: zzsym.U32(tag + ".height"), ConsensusData: zzsym.U64(tag + ".cdata"), ConsensusPayload: payload}
	copy(h.PrevBlockHash[:], zzsym.Bytes(tag+".prev", 32))
	copy(h.TransactionsRoot[:], zzsym.Bytes(tag+".txroot", 32))
	copy(h.BlockRoot[:], zzsym.Bytes(tag+".blkroot", 32))
	copy(h.NextBookkeeper[:], zzsym.Bytes(tag+".nextbk", 20))
	h.Bookkeepers = []keypair.PublicKey{zzValidatorKey(0)}
	h.SigData = [][]byte{zzsym.Bytes(tag+".sig", 2)}
	sink := ocommon.NewZeroCopySink(nil)
	h.Serialization(sink)
	return sink.Bytes()
}

func zzGenesisInput(chain uint64, header []byte) []byte {
	p := &hscommon.SyncGenesisHeaderParam{ChainID: chain, GenesisHeader: header}
	sink := common.NewZeroCopySink(nil)
	p.Serialization(sink)
	return sink.Bytes()
}

func zzOperator(db *storage.CacheDB) common.Address {
	op, err := node_manager.GetCurConOperator(zzNative(db, nil))
	if err != nil {
		panic("zz: operator")
	}
	return op
}

func zzSync(db *storage.CacheDB, chain uint64, header []byte, signer common.Address) (*native.NativeService, error) {
	ns := zzNative(db, zzGenesisInput(chain, header), signer)
	return ns, NewONTHandler().SyncGenesisHeader(ns)
}

// zzOntTwice: a first installation by the consensus operator succeeds; then a second one for the same
// chain (same or different header, same or different validator set) or for another chain.
// Obligation (i): the second installation for the same chain returns an error.
// Obligation (ii): it leaves the light-client state unchanged. Reported by two harnesses.
func zzOntTwice(checkError, checkState bool) {
	db := zzNewCacheDB()
	zzConsensusPool(db, 1)
	op := zzOperator(db)
	chain := zzsym.U64("chain")
	payloads := [][]byte{zzPayloadA, zzPayloadB}

	g1 := zzHeader("g1", payloads[zzsym.Choose("g1.payload", 2)])
	_, err := zzSync(db, chain, g1, op)
	zzsym.Assert(err == nil, "the consensus operator can install the genesis header of a chain that has none")
	h1, _ := otypes.HeaderFromRawBytes(g1)
	peers, err := getConsensusPeersByHeight(zzNative(db, nil), chain, h1.Height)
	zzsym.Assert(err == nil && peers != nil && len(peers.PeerMap) >= 3, "the first installation stores the validator set of the genesis header")
	kh, err := GetKeyHeights(zzNative(db, nil), chain)
	zzsym.Assert(err == nil && len(kh.HeightList) == 1 && kh.HeightList[0] == h1.Height, "the first installation records exactly one key height")
	zzsym.Cover("first-installed")

	before := zzWriteSet(db)
	other := zzsym.U64("chain2")
	_, err2 := zzSync(db, other, zzHeader("g2", payloads[zzsym.Choose("g2.payload", 2)]), op)
	if other != chain {
		zzsym.Assert(err2 == nil, "another chain's trust root can still be installed")
		zzsym.Cover("other-chain")
		return
	}
	if checkError {
		zzsym.Assert(err2 != nil, "a second genesis installation for the same side chain fails")
	}
	if checkState {
		zzsym.Assert(zzSameWriteSet(before, zzWriteSet(db)), "a second genesis installation leaves the light-client state unchanged")
	}
	zzsym.Cover("second-attempt")
}

func ZZ_C19_OntSecondGenesisFails() { zzOntTwice(true, false) }

func ZZ_C19_OntSecondGenesisChangesNothing() { zzOntTwice(false, true) }

func ZZ_C19_OntGenesis_witness() {
	db := zzNewCacheDB()
	zzConsensusPool(db, 1)
	op := zzOperator(db)
	var who common.Address
	copy(who[:], zzsym.Bytes("who", 20))
	_, err := zzSync(db, zzsym.U64("chain"), zzHeader("g1", zzPayloadA), who)
	_ = op
	zzsym.Assert(err != nil, "witness: who may be the operator, then the installation succeeds")
}

// ZZ_C19_OntGenesisNeedsOperator: nobody but the consensus operator installs a trust root.
func ZZ_C19_OntGenesisNeedsOperator() {
	db := zzNewCacheDB()
	zzConsensusPool(db, 1+zzsym.Choose("validators", 3))
	op := zzOperator(db)
	var who common.Address
	copy(who[:], zzsym.Bytes("who", 20))
	zzsym.Assume(who != op)
	before := zzWriteSet(db)
	_, err := zzSync(db, zzsym.U64("chain"), zzHeader("g1", zzPayloadA), who)
	zzsym.Assert(err != nil, "only the consensus operator may install a genesis header")
	zzsym.Assert(zzSameWriteSet(before, zzWriteSet(db)), "a refused installation changes nothing")
	zzsym.Cover("refused")
}
