package neo3legacy

// C19 (NEO N3 legacy router): the validator trust root (NextConsensus) of a side chain can be installed at most
// once; every later attempt fails and leaves the light-client state unchanged.
// Real code: Neo3Handler.SyncGenesisHeader, NeoBlockHeader decoder (neo3-gogogo-legacy BinaryReader), NeoConsensus
// codec and storage, node_manager operator lookup. encoding/binary.Read and Write (reflection) are replaced in
// the engine (spec "overrides") by zzBinaryRead / zzBinaryWrite below, which do the same little-endian
// fixed-size coding for exactly the types the header codec uses; native replay runs the real encoding/binary.

import (
	"encoding/binary"
	"errors"
	"io"

	"github.com/joeqian10/neo3-gogogo-legacy/block"
	"github.com/joeqian10/neo3-gogogo-legacy/helper"
	"github.com/joeqian10/neo3-gogogo-legacy/tx"
	"github.com/polynetwork/poly/common"
	"github.com/polynetwork/poly/native/service/governance/node_manager"
	hscommon "github.com/polynetwork/poly/native/service/header_sync/common"
	"github.com/polynetwork/poly/native/storage"
	"github.com/polynetwork/poly/zzsym"
)

func zzBinaryRead(r io.Reader, order binary.ByteOrder, data interface{}) error {
	n := 0
	switch d := data.(type) {
	case *uint8:
		n = 1
	case *uint16:
		n = 2
	case *uint32:
		n = 4
	case *uint64:
		n = 8
	case *helper.UInt160:
		n = 20
	case *helper.UInt256:
		n = 32
	case []byte:
		n = len(d)
	default:
		return errors.New("zz: binary.Read target not modelled")
	}
	buf := make([]byte, n)
	if _, err := io.ReadFull(r, buf); err != nil {
		return err
	}
	switch d := data.(type) {
	case *uint8:
		*d = buf[0]
	case *uint16:
		*d = order.Uint16(buf)
	case *uint32:
		*d = order.Uint32(buf)
	case *uint64:
		*d = order.Uint64(buf)
	case *helper.UInt160:
		d.Value1, d.Value2, d.Value3 = order.Uint64(buf), order.Uint64(buf[8:]), order.Uint32(buf[16:])
	case *helper.UInt256:
		d.Value1, d.Value2, d.Value3, d.Value4 = order.Uint64(buf), order.Uint64(buf[8:]), order.Uint64(buf[16:]), order.Uint64(buf[24:])
	case []byte:
		copy(d, buf)
	}
	return nil
}

func zzBinaryWrite(w io.Writer, order binary.ByteOrder, data interface{}) error {
	var buf []byte
	switch d := data.(type) {
	case uint8:
		buf = []byte{d}
	case uint16:
		buf = make([]byte, 2)
		order.PutUint16(buf, d)
	case uint32:
		buf = make([]byte, 4)
		order.PutUint32(buf, d)
	case uint64:
		buf = make([]byte, 8)
		order.PutUint64(buf, d)
	case *helper.UInt160:
		buf = make([]byte, 20)
		order.PutUint64(buf, d.Value1)
		order.PutUint64(buf[8:], d.Value2)
		order.PutUint32(buf[16:], d.Value3)
	case *helper.UInt256:
		buf = make([]byte, 32)
		order.PutUint64(buf, d.Value1)
		order.PutUint64(buf[8:], d.Value2)
		order.PutUint64(buf[16:], d.Value3)
		order.PutUint64(buf[24:], d.Value4)
	case []byte:
		buf = d
	default:
		return errors.New("zz: binary.Write value not modelled")
	}
	_, err := w.Write(buf)
	return err
}

// zzHeader: a block header with symbolic index, timestamp, previous hash and next-consensus script hash.
func zzHeader(tag string) []byte {
	bh := block.NewBlockHeader()
	bh.SetTimeStamp(zzsym.U64(tag + ".ts"))
	bh.SetIndex(zzsym.U32(tag + ".index"))
	bh.SetPrimaryIndex(zzsym.U8(tag + ".primary"))
	bh.SetNextConsensus(&helper.UInt160{Value1: zzsym.U64(tag + ".next1"), Value2: zzsym.U64(tag + ".next2"), Value3: zzsym.U32(tag + ".next3")})
	bh.SetPrevHash(&helper.UInt256{Value1: zzsym.U64(tag + ".prev1"), Value4: zzsym.U64(tag + ".prev4")})
	bh.Witness = &tx.Witness{InvocationScript: []byte{1}, VerificationScript: []byte{2}}
	h := &NeoBlockHeader{Header: bh}
	sink := common.NewZeroCopySink(nil)
	if err := h.Serialization(sink); err != nil {
		panic("zz: header serialization")
	}
	return sink.Bytes()
}

func zzGenesisInput(chain uint64, header []byte) []byte {
	p := &hscommon.SyncGenesisHeaderParam{ChainID: chain, GenesisHeader: header}
	sink := common.NewZeroCopySink(nil)
	p.Serialization(sink)
	return sink.Bytes()
}

func zzOperator(db *storage.CacheDB) common.Address {
	op, err := node_manager.GetCurConOperator(zzNative(db, nil))
	if err != nil {
		panic("zz: operator")
	}
	return op
}

func zzSync(db *storage.CacheDB, chain uint64, header []byte, signer common.Address) error {
	return NewNeo3Handler().SyncGenesisHeader(zzNative(db, zzGenesisInput(chain, header), signer))
}

// Obligation (i): the second installation for the same chain returns an error.
// Obligation (ii): it leaves the light-client state unchanged. Reported by two harnesses.
func zzTwice(checkError, checkState bool) {
	db := zzNewCacheDB()
	zzConsensusPool(db, 1)
	op := zzOperator(db)
	chain := zzsym.U64("chain")
	err := zzSync(db, chain, zzHeader("g1"), op)
	zzsym.Assert(err == nil, "the consensus operator can install the genesis header of a chain that has none")
	c1, err := getConsensusValByChainId(zzNative(db, nil), chain)
	zzsym.Assert(err == nil && c1 != nil, "the first installation stores the next-consensus trust root")
	zzsym.Cover("first-installed")

	before := zzWriteSet(db)
	other := zzsym.U64("chain2")
	err2 := zzSync(db, other, zzHeader("g2"), op)
	if other != chain {
		zzsym.Assert(err2 == nil, "another chain's trust root can still be installed")
		zzsym.Cover("other-chain")
		return
	}
	if checkError {
		zzsym.Assert(err2 != nil, "a second genesis installation for the same side chain fails")
	}
	if checkState {
		zzsym.Assert(zzSameWriteSet(before, zzWriteSet(db)), "a second genesis installation leaves the light-client state unchanged")
	}
	zzsym.Cover("second-attempt")
}

func ZZ_C19_Neo3LegacySecondGenesisFails() { zzTwice(true, false) }

func ZZ_C19_Neo3LegacySecondGenesisChangesNothing() { zzTwice(false, true) }

func ZZ_C19_Neo3LegacyGenesis_witness() {
	db := zzNewCacheDB()
	zzConsensusPool(db, 1)
	var who common.Address
	copy(who[:], zzsym.Bytes("who", 20))
	err := zzSync(db, zzsym.U64("chain"), zzHeader("g1"), who)
	zzsym.Assert(err != nil, "witness: who may be the operator, then the installation succeeds")
}

func ZZ_C19_Neo3LegacyGenesisNeedsOperator() {
	db := zzNewCacheDB()
	zzConsensusPool(db, 1+zzsym.Choose("validators", 3))
	op := zzOperator(db)
	var who common.Address
	copy(who[:], zzsym.Bytes("who", 20))
	zzsym.Assume(who != op)
	before := zzWriteSet(db)
	err := zzSync(db, zzsym.U64("chain"), zzHeader("g1"), who)
	zzsym.Assert(err != nil, "only the consensus operator may install a genesis header")
	zzsym.Assert(zzSameWriteSet(before, zzWriteSet(db)), "a refused installation changes nothing")
	zzsym.Cover("refused")
}
