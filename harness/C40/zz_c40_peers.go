package vbft

import (
	"math"

	vconfig "github.com/polynetwork/poly/consensus/vbft/config"
	"github.com/polynetwork/poly/zzsym"
)

func zzAnd2(a, b bool) bool { return [2]bool{a, b} == [2]bool{true, true} }
func zzOr2(a, b bool) bool  { return [2]bool{a, b} != [2]bool{false, false} }

// ---- abstraction of calcParticipant (spec "overrides") -------------------------------------------------
// Contract established for the real function by ZZ_C40_CalcParticipant (spec_calc.json): the sentinel exactly
// for k >= 512, otherwise an entry of the position table, and the same answer for the same inputs. The stub
// answers an ARBITRARY table entry per draw index (a superset of what any seed can produce) and remembers it,
// so repeated runs see the same draws. To keep the exploration finite the number of draws per selection
// phase that hit an already seen participant is bounded by zzBudget (stated bound R).
var (
	zzDraws     map[uint32]uint32
	zzSeen      []uint32
	zzWasted    int
	zzBudget    int
	zzAutoPhase bool // reset the per-phase bookkeeping at the phase starts used by buildParticipantConfig
	zzSentinel  bool
	// phase exhaustion (ZZ_C40_BuildConfigExhausted): in selection phase zzExhaustPhase (0 proposers, 1 endorsers,
	// 2 committers) every draw after zzExhaustAfter fresh participants repeats a known one until the seed bits run
	// out; the stub jumps to the end of that run and answers the sentinel.
	zzExhaustPhase = -1
	zzExhaustAfter int
	zzPhase        int
)

func zzResetDraws(budget int, auto bool) {
	zzDraws = map[uint32]uint32{}
	zzSeen, zzWasted, zzBudget, zzAutoPhase, zzSentinel = nil, 0, budget, auto, false
	zzExhaustPhase, zzExhaustAfter, zzPhase = -1, 0, -1
}

func zzNewPhase() { zzSeen, zzWasted = nil, 0; zzPhase++ }

func zzCalc(vrf vconfig.VRFValue, dposTable []uint32, k uint32) uint32 {
	if k >= 512 {
		zzSentinel = true
		return math.MaxUint32
	}
	if zzAutoPhase && (k == 0 || k == vconfig.MAX_PROPOSER_COUNT || k == vconfig.MAX_PROPOSER_COUNT+vconfig.MAX_ENDORSER_COUNT) {
		zzNewPhase()
	}
	if zzAutoPhase && zzExhaustPhase >= 0 && zzPhase%3 == zzExhaustPhase && len(zzSeen) >= zzExhaustAfter {
		zzSentinel = true
		return math.MaxUint32
	}
	id, ok := zzDraws[k]
	if !ok {
		idx := zzsym.U32("draw")
		zzsym.Assume(idx < uint32(len(dposTable)))
		id = dposTable[idx]
		zzDraws[k] = id
	}
	known := false
	for _, s := range zzSeen {
		if id == s {
			id = s // the very same term: later lookups need no solver
			known = true
			break
		}
	}
	if known {
		zzWasted++
		zzsym.Assume(zzWasted <= zzBudget)
	} else {
		zzSeen = append(zzSeen, id)
	}
	return id
}

var zzSeedVal vconfig.VRFValue

func zzSeed(block *Block) vconfig.VRFValue { return zzSeedVal }

// ---- configurations ------------------------------------------------------------------------------------

// N in 1..NMAX, C = floor((N-1)/3), position table of N..N+min(E,N) symbolic entries over the ids 1..N
func zzChain() *vconfig.ChainConfig {
	n := zzsym.Param("NFIX") // > 0: one network size only (used for N = 7, C = 2: the smallest size with C >= 2)
	if n == 0 {
		n = 1 + zzsym.Choose("N", zzsym.Param("NMAX"))
	}
	c := (n - 1) / 3
	e := zzsym.Param("E") // table of N..N+min(E,N) entries
	if e > n {
		e = n
	}
	l := n + zzsym.Choose("extra", e+1)
	table := make([]uint32, l)
	for i := range table {
		table[i] = zzsym.U32("pos")
		zzsym.Assume(zzAnd2(table[i] >= 1, table[i] <= uint32(n)))
	}
	return &vconfig.ChainConfig{N: uint32(n), C: uint32(c), PosTable: table}
}

func zzInTable(chain *vconfig.ChainConfig, id uint32) bool {
	in := false
	for _, t := range chain.PosTable {
		in = zzOr2(in, id == t)
	}
	return in
}

// drawn from the table, pairwise distinct, none of the excluded ids
func zzCheckSelection(chain *vconfig.ChainConfig, sel []uint32, excluded []uint32) {
	for i, id := range sel {
		zzsym.Assert(zzInTable(chain, id), "every selected participant is drawn from the position table")
		for j := 0; j < i; j++ {
			zzsym.Assert(sel[j] != id, "a selection contains no duplicates")
		}
		for _, x := range excluded {
			zzsym.Assert(id != x, "endorsers and committers exclude the leading proposers")
		}
	}
	zzsym.Assert(uint32(len(sel)) <= chain.N, "a selection has at most N members")
}

func zzSame(a, b []uint32) bool {
	if len(a) != len(b) {
		return false
	}
	same := true
	for i := range a {
		same = zzAnd2(same, a[i] == b[i])
	}
	return same
}

// calcParticipantPeers called directly for each role; the loop is entered D draws before the point where the
// proposer rule may stop (i >= MAX_PROPOSER_COUNT), resp. at the real phase starts for endorsers/committers,
// resp. just before the seed is exhausted.
func ZZ_C40_Peers() {
	chain := zzChain()
	cfg := &BlockParticipantConfig{BlockNum: 1, ChainConfig: chain}
	zzResetDraws(zzsym.Param("R"), false)
	var start, end int
	var excluded []uint32
	role := zzsym.Choose("role", 4)
	switch role {
	case 0:
		end = vconfig.MAX_PROPOSER_COUNT
		start = end - zzsym.Choose("lead", zzsym.Param("D")+1)
	case 1:
		start = vconfig.MAX_PROPOSER_COUNT
		end = start + vconfig.MAX_ENDORSER_COUNT
	case 2:
		start = vconfig.MAX_PROPOSER_COUNT + vconfig.MAX_ENDORSER_COUNT
		end = start + vconfig.MAX_COMMITTER_COUNT
	case 3:
		end = vconfig.MAX_PROPOSER_COUNT + vconfig.MAX_ENDORSER_COUNT
		start = 512 - zzsym.Choose("left", 3)
	}
	if role != 0 {
		// the proposers as buildParticipantConfig leaves them: C+1 distinct table entries
		for i := uint32(0); i < chain.C+1; i++ {
			p := zzsym.U32("proposer")
			zzsym.Assume(zzInTable(chain, p))
			for _, q := range cfg.Proposers {
				zzsym.Assume(p != q)
			}
			cfg.Proposers = append(cfg.Proposers, p)
		}
		excluded = cfg.Proposers[:chain.C]
	}
	sel := calcParticipantPeers(cfg, chain, start, end)
	if zzSentinel {
		zzsym.Assert(len(sel) == 0, "an exhausted seed yields no selection")
		zzsym.Cover("exhausted")
		return
	}
	zzCheckSelection(chain, sel, excluded)
	if role == 0 {
		zzsym.Assert(uint32(len(sel)) >= chain.C+1, "at least C+1 proposers")
		zzsym.Cover("proposers")
	} else {
		zzsym.Assert(uint32(len(sel)) >= 2*chain.C, "at least 2C endorsers / committers")
		zzsym.Cover("endorsers-committers")
	}
	if uint32(len(sel)) == chain.N {
		zzsym.Cover("all-peers")
	}
	if zzWasted > 0 {
		zzsym.Cover("repeat-draw")
	}
	zzNewPhase() // the remembered draws are replayed; the repeat bookkeeping starts over
	again := calcParticipantPeers(cfg, chain, start, end)
	zzsym.Assert(zzSame(sel, again), "every node derives the same selection from the same inputs")
	zzsym.Cover("peers-done")
}

func zzServer(idx uint32) *Server {
	return &Server{Index: idx, stateMgr: &StateMgr{}}
}

func zzCheckConfig(chain *vconfig.ChainConfig, cfg *BlockParticipantConfig) {
	c := chain.C
	zzsym.Assert(uint32(len(cfg.Proposers)) == c+1, "C+1 proposers are chosen")
	zzsym.Assert(uint32(len(cfg.Endorsers)) >= 2*c, "at least 2C endorsers are chosen")
	zzsym.Assert(uint32(len(cfg.Committers)) >= 2*c, "at least 2C committers are chosen")
	zzCheckSelection(chain, cfg.Proposers, nil)
	if uint32(len(cfg.Proposers)) >= c {
		zzCheckSelection(chain, cfg.Endorsers, cfg.Proposers[:c])
		zzCheckSelection(chain, cfg.Committers, cfg.Proposers[:c])
	}
	zzsym.Assert(cfg.Vrf == zzSeedVal && cfg.ChainConfig == chain, "the configuration records the seed and the chain configuration it was derived from")
}

// buildParticipantConfig on a directly constructed Server; the seed (a JSON + SHA-512 digest of the previous
// block) is replaced by an arbitrary 64-byte value, draws as above.
func ZZ_C40_BuildConfig() {
	chain := zzChain()
	copy(zzSeedVal[:], zzsym.Bytes("seed", vconfig.VRF_SIZE))
	blkNum := zzsym.U32("blkNum")
	zzResetDraws(zzsym.Param("R"), true)
	cfg, err := zzServer(1).buildParticipantConfig(blkNum, nil, chain)
	if blkNum == 0 {
		zzsym.Assert(err != nil && cfg == nil, "no participant configuration for the genesis block")
		zzsym.Cover("genesis")
		return
	}
	if zzSeedVal.IsNil() {
		zzsym.Assert(err != nil && cfg == nil, "a nil seed is refused")
		zzsym.Cover("nil-seed")
		return
	}
	if err != nil {
		// only possible when a phase ran out of seed bits (not reachable within the repeat budget R)
		zzsym.Assert(zzSentinel, "a configuration is refused only when the seed is exhausted")
		zzsym.Cover("refused")
		return
	}
	zzsym.Assert(cfg != nil && cfg.BlockNum == blkNum, "the configuration is for the requested block")
	zzCheckConfig(chain, cfg)
	// a second node (different index) with the same inputs
	cfg2, err2 := zzServer(2).buildParticipantConfig(blkNum, nil, chain)
	zzsym.Assert(err2 == nil && cfg2 != nil, "the second node also derives a configuration")
	if cfg2 != nil {
		zzsym.Assert(zzSame(cfg.Proposers, cfg2.Proposers) && zzSame(cfg.Endorsers, cfg2.Endorsers) && zzSame(cfg.Committers, cfg2.Committers),
			"every node derives the same selection from the same inputs")
	}
	if chain.C > 0 {
		zzsym.Cover("bft-config")
	}
	zzsym.Cover("config-done")
}

// One selection phase runs out of seed bits (all its remaining draws repeat known or excluded participants):
// buildParticipantConfig then either refuses (error, no configuration) or still returns a configuration that
// meets every size and membership rule. With the 240-draw committer window this happens for real seeds once
// N is large (27 of 400 seeds at N=40); here it is an explicit solver choice at small N.
func ZZ_C40_BuildConfigExhausted() {
	chain := zzChain()
	copy(zzSeedVal[:], zzsym.Bytes("seed", vconfig.VRF_SIZE))
	zzsym.Assume(!zzSeedVal.IsNil())
	zzResetDraws(0, true)
	zzExhaustPhase = zzsym.Choose("phase", 3)
	zzExhaustAfter = zzsym.Choose("after", int(chain.N)+1)
	cfg, err := zzServer(1).buildParticipantConfig(1, nil, chain)
	if err != nil {
		zzsym.Assert(cfg == nil, "a refused configuration is not returned")
		zzsym.Assert(zzSentinel, "a configuration is refused only when the seed is exhausted")
		zzsym.Cover("exhausted-refused")
		return
	}
	zzsym.Assert(cfg != nil, "success comes with a configuration")
	zzCheckConfig(chain, cfg)
	if zzSentinel {
		zzsym.Cover("exhausted-but-enough") // C = 0: an empty endorser/committer list meets 2C = 0
	}
	zzsym.Cover("exhausted-done")
}

func ZZ_C40_Peers_witness() {
	chain := &vconfig.ChainConfig{N: 4, C: 1, PosTable: []uint32{1, 2, 3, 4}}
	cfg := &BlockParticipantConfig{BlockNum: 1, ChainConfig: chain}
	zzResetDraws(1, false)
	sel := calcParticipantPeers(cfg, chain, 30, vconfig.MAX_PROPOSER_COUNT)
	zzsym.Assert(len(sel) != 2 || sel[0] < sel[1], "witness: any order of any two participants can be drawn")
}

func ZZ_C40_BuildConfig_witness() {
	chain := &vconfig.ChainConfig{N: 4, C: 1, PosTable: []uint32{1, 2, 3, 4, 1}}
	copy(zzSeedVal[:], zzsym.Bytes("seed", vconfig.VRF_SIZE))
	zzResetDraws(0, true)
	cfg, err := zzServer(1).buildParticipantConfig(1, nil, chain)
	zzsym.Assert(err != nil || cfg.Proposers[0] == 1, "witness: any participant can lead")
}
