package vbft

import (
	"math"

	vconfig "github.com/polynetwork/poly/consensus/vbft/config"
	"github.com/polynetwork/poly/zzsym"
)

// conjunction / disjunction as single terms (array equality does not fork, && and || would)
func zzAnd(a, b bool) bool { return [2]bool{a, b} == [2]bool{true, true} }
func zzOr(a, b bool) bool  { return [2]bool{a, b} != [2]bool{false, false} }

func zzVrf(name string) vconfig.VRFValue {
	var v vconfig.VRFValue
	copy(v[:], zzsym.Bytes(name, vconfig.VRF_SIZE))
	return v
}

func zzTable(n int) []uint32 {
	table := make([]uint32, n)
	for i := range table {
		table[i] = zzsym.U32("pos")
	}
	return table
}

// calcParticipant for a fully symbolic 64-byte seed, a symbolic draw index k and every table length 1..L with
// symbolic content: never indexes out of range (a panic is a violation), answers the sentinel exactly for
// k >= 512 and otherwise an element of the position table; the same inputs give the same answer.
func ZZ_C40_CalcParticipant() {
	vrf := zzVrf("vrf")
	k := zzsym.U32("k")
	table := zzTable(1 + zzsym.Choose("tablelen", zzsym.Param("L")))
	got := calcParticipant(vrf, table, k)
	if k >= 512 {
		zzsym.Assert(got == math.MaxUint32, "draw indices beyond the 512 seed bits give the sentinel")
		zzsym.Cover("sentinel")
	} else {
		in := false
		for _, id := range table {
			in = zzOr(in, got == id)
		}
		zzsym.Assert(in, "the drawn participant is an entry of the position table")
		zzsym.Cover("drawn")
	}
	zzsym.Assert(calcParticipant(vrf, table, k) == got, "equal inputs give equal selections")
	zzsym.Cover("calc-done")
}

// Which entry: for every draw index k < 512 (explored value by value) the 16-bit window that starts at bit k of
// the seed (wrapping to byte 0 after the last byte) selects the entry - its upper 16-(k%8) bits, reduced modulo
// the table length.
func ZZ_C40_CalcWindow() {
	vrf := zzVrf("vrf")
	k := uint32(zzsym.Choose("k", 512))
	n := 1 + zzsym.Choose("tablelen", zzsym.Param("L"))
	table := zzTable(n)
	got := calcParticipant(vrf, table, k)
	lo := uint32(vrf[k/8])
	hi := uint32(vrf[(k/8+1)%vconfig.VRF_SIZE])
	w := (hi<<8 | lo) >> (k % 8)
	zzsym.Assert(got == table[w%uint32(n)], "the entry is selected by the seed bits starting at bit k, modulo the table length")
	zzsym.Cover("window-done")
}

func ZZ_C40_CalcParticipant_witness() {
	vrf := zzVrf("vrf")
	k := zzsym.U32("k")
	table := []uint32{zzsym.U32("pos"), zzsym.U32("pos"), zzsym.U32("pos")}
	got := calcParticipant(vrf, table, k)
	zzsym.Assert(got == table[0], "witness: other entries and the sentinel are possible")
}
