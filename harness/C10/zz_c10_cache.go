package storage

// C10 (transaction layer): the real CacheDB (tx layer) on the real OverlayDB (block layer) on a harness
// PersistStore, compared against a three-layer association-list model. Model keys are RAW store keys
// (prefix byte + contract key).

import (
	"bytes"

	scom "github.com/polynetwork/poly/core/store/common"
	"github.com/polynetwork/poly/core/store/overlaydb"
	"github.com/polynetwork/poly/zzsym"
)

// ---- harness PersistStore (not under test): unordered slice + write batch ------------------

type zz10Store struct {
	keys, vals [][]byte
	bkeys      [][]byte
	bvals      [][]byte // nil value = delete
}

func (s *zz10Store) find(key []byte) int {
	for i := range s.keys {
		if bytes.Equal(s.keys[i], key) {
			return i
		}
	}
	return -1
}
func (s *zz10Store) Put(key []byte, value []byte) error {
	k := append([]byte(nil), key...)
	v := append([]byte(nil), value...)
	if i := s.find(key); i >= 0 {
		s.vals[i] = v
	} else {
		s.keys = append(s.keys, k)
		s.vals = append(s.vals, v)
	}
	return nil
}
func (s *zz10Store) Has(key []byte) (bool, error) { return s.find(key) >= 0, nil }
func (s *zz10Store) Get(key []byte) ([]byte, error) {
	if i := s.find(key); i >= 0 {
		return s.vals[i], nil
	}
	return nil, scom.ErrNotFound
}
func (s *zz10Store) Delete(key []byte) error {
	if i := s.find(key); i >= 0 {
		s.keys = append(s.keys[:i], s.keys[i+1:]...)
		s.vals = append(s.vals[:i], s.vals[i+1:]...)
	}
	return nil
}
func (s *zz10Store) NewBatch() { s.bkeys, s.bvals = nil, nil }
func (s *zz10Store) BatchPut(key []byte, value []byte) {
	s.bkeys = append(s.bkeys, append([]byte(nil), key...))
	s.bvals = append(s.bvals, append([]byte{}, value...))
}
func (s *zz10Store) BatchDelete(key []byte) {
	s.bkeys = append(s.bkeys, append([]byte(nil), key...))
	s.bvals = append(s.bvals, nil)
}
func (s *zz10Store) BatchCommit() error {
	for i := range s.bkeys {
		if s.bvals[i] == nil {
			s.Delete(s.bkeys[i])
		} else {
			s.Put(s.bkeys[i], s.bvals[i])
		}
	}
	s.bkeys, s.bvals = nil, nil
	return nil
}
func (s *zz10Store) Close() error { return nil }

type zz10StoreIter struct {
	keys, vals [][]byte
	pos        int
}

func (s *zz10Store) NewIterator(prefix []byte) scom.StoreIterator {
	it := &zz10StoreIter{pos: -1}
	for i := range s.keys {
		if bytes.HasPrefix(s.keys[i], prefix) {
			it.keys = append(it.keys, s.keys[i])
			it.vals = append(it.vals, s.vals[i])
		}
	}
	for i := 1; i < len(it.keys); i++ {
		for j := i; j > 0 && bytes.Compare(it.keys[j], it.keys[j-1]) < 0; j-- {
			it.keys[j], it.keys[j-1] = it.keys[j-1], it.keys[j]
			it.vals[j], it.vals[j-1] = it.vals[j-1], it.vals[j]
		}
	}
	return it
}
func (it *zz10StoreIter) Next() bool  { it.pos++; return it.pos < len(it.keys) }
func (it *zz10StoreIter) First() bool { it.pos = 0; return len(it.keys) > 0 }
func (it *zz10StoreIter) Key() []byte {
	if it.pos < 0 || it.pos >= len(it.keys) {
		return nil // like goleveldb: an exhausted iterator yields nil
	}
	return it.keys[it.pos]
}
func (it *zz10StoreIter) Value() []byte {
	if it.pos < 0 || it.pos >= len(it.keys) {
		return nil
	}
	return it.vals[it.pos]
}
func (it *zz10StoreIter) Release()     {}
func (it *zz10StoreIter) Error() error { return nil }

// ---- reference model: layers of association lists, newest layer first ----------------------

type zz10Entry struct {
	key, val []byte
	deleted  bool
}

type zz10Layer struct{ ents []zz10Entry }

func (l *zz10Layer) find(k []byte) int {
	for i := range l.ents {
		if bytes.Equal(l.ents[i].key, k) {
			return i
		}
	}
	return -1
}

func (l *zz10Layer) put(k, v []byte) {
	e := zz10Entry{key: k, val: v, deleted: len(v) == 0}
	if i := l.find(k); i >= 0 {
		l.ents[i] = e
	} else {
		l.ents = append(l.ents, e)
	}
}

// zz10Visible: the newest layer that mentions k decides; a tombstone or no mention = absent.
func zz10Visible(layers []*zz10Layer, k []byte) (val []byte, live bool) {
	for _, l := range layers {
		if i := l.find(k); i >= 0 {
			if l.ents[i].deleted {
				return nil, false
			}
			return l.ents[i].val, true
		}
	}
	return nil, false
}

// zz10Expect: the visible live entries whose key starts with prefix, in ascending byte order.
func zz10Expect(layers []*zz10Layer, prefix []byte) []zz10Entry {
	var out []zz10Entry
	for li, l := range layers {
		for _, e := range l.ents {
			shadowed := false
			for _, newer := range layers[:li] {
				if newer.find(e.key) >= 0 {
					shadowed = true
					break
				}
			}
			if shadowed || e.deleted || !bytes.HasPrefix(e.key, prefix) {
				continue
			}
			out = append(out, e)
		}
	}
	for i := 1; i < len(out); i++ {
		for j := i; j > 0 && bytes.Compare(out[j].key, out[j-1].key) < 0; j-- {
			out[j], out[j-1] = out[j-1], out[j]
		}
	}
	return out
}


func zz10Raw(k []byte) []byte {
	return append([]byte{byte(scom.ST_STORAGE)}, k...)
}

func zz10Key(name string) []byte {
	n := zzsym.Param("KMIN") + zzsym.Choose(name+".len", zzsym.Param("KSPAN"))
	return zzsym.Bytes(name, n)
}

// zz10CheckScan: CacheDB iterator keys come back WITHOUT the storage prefix byte.
func zz10CheckScan(it scom.StoreIterator, want []zz10Entry) {
	i := 0
	for ok := it.First(); ok; ok = it.Next() {
		zzsym.Assert(i < len(want), "prefix scan yields no key that is deleted, hidden, outside the prefix or outside contract storage")
		if i < len(want) {
			zzsym.Assert(bytes.Equal(it.Key(), want[i].key[1:]), "prefix scan yields exactly the visible live contract keys in ascending byte order")
			zzsym.Assert(bytes.Equal(it.Value(), want[i].val), "prefix scan yields the newest layer's value")
		}
		i++
	}
	zzsym.Assert(it.Error() == nil, "prefix scan ends without error")
	it.Release()
	zzsym.Assert(i == len(want), "prefix scan yields every visible live key under the prefix")
}

type zz10World struct {
	st            *zz10Store
	ov            *overlaydb.OverlayDB
	db            *CacheDB
	base, blk, tx *zz10Layer
}

// zz10Setup: B arbitrary persisted entries (ANY prefix byte, so ledger bookkeeping rows are included;
// values non-empty because CommitTo never stores an empty value), then T operations at the transaction
// layer: put / delete / Commit (tx -> block) / Reset (discard tx layer).
func zz10Setup() *zz10World {
	B := zzsym.Param("B")
	T := zzsym.Param("T")
	w := &zz10World{st: &zz10Store{}, base: &zz10Layer{}, blk: &zz10Layer{}, tx: &zz10Layer{}}
	for i := 0; i < B; i++ {
		raw := append([]byte{zzsym.U8("bk.prefix")}, zz10Key("bk")...)
		v := zzsym.Bytes("bv", 1)
		w.st.Put(raw, v)
		w.base.put(raw, v)
	}
	w.ov = overlaydb.NewOverlayDB(w.st)
	w.db = NewCacheDB(w.ov)
	for t := 0; t < T; t++ {
		switch zzsym.Choose("op", 4) {
		case 0:
			k := zz10Key("k")
			v := zzsym.Bytes("v", 1)
			w.db.Put(k, v)
			w.tx.put(zz10Raw(k), v)
		case 1:
			k := zz10Key("k")
			w.db.Delete(k)
			w.tx.put(zz10Raw(k), nil)
			zzsym.Cover("delete")
		case 2:
			w.db.Commit()
			for _, e := range w.tx.ents { // the model commit: apply exactly the tx layer's changes
				w.blk.put(e.key, e.val)
			}
			zzsym.Cover("commit")
		case 3:
			w.db.Reset()
			w.tx = &zz10Layer{}
			zzsym.Cover("reset")
		}
	}
	return w
}

func zz10LayerCovers(w *zz10World) {
	for _, e := range w.tx.ents {
		if e.deleted && w.blk.find(e.key) < 0 && w.base.find(e.key) >= 0 {
			zzsym.Cover("tx-tombstone-hides-store-key")
		}
		if !e.deleted && w.blk.find(e.key) < 0 && w.base.find(e.key) >= 0 {
			zzsym.Cover("tx-overwrites-store-key")
		}
	}
	for _, e := range w.blk.ents {
		if e.deleted && w.base.find(e.key) >= 0 {
			zzsym.Cover("block-tombstone-hides-store-key")
		}
	}
	for _, e := range w.base.ents {
		if e.key[0] != byte(scom.ST_STORAGE) {
			zzsym.Cover("store-holds-non-contract-row")
		}
	}
}

func zz10ReadScanCommit() {
	w := zz10Setup()
	layers := []*zz10Layer{w.tx, w.blk, w.base}
	q := zz10Key("q")
	got, err := w.db.Get(q)
	zzsym.Assert(err == nil, "Get does not fail on a healthy store")
	want, live := zz10Visible(layers, zz10Raw(q))
	if live {
		zzsym.Assert(bytes.Equal(got, want), "Get returns the newest layer's value")
		zzsym.Cover("get-live")
	} else {
		zzsym.Assert(len(got) == 0, "Get of a deleted or never-written key reads as absent")
		zzsym.Cover("get-absent")
	}
	prefix := q[:zzsym.Choose("prefix.len", len(q)+1)]
	zz10CheckScan(w.db.NewIterator(prefix), zz10Expect(layers, zz10Raw(prefix)))
	zz10LayerCovers(w)
	zzsym.Cover("scan-done")

	// the block layer received exactly the committed transaction layers ...
	ws := w.ov.GetWriteSet()
	n := 0
	ws.ForEach(func(key, val []byte) {
		n++
		i := w.blk.find(key)
		zzsym.Assert(i >= 0, "Commit writes no key to the block layer that the transaction layer did not change")
		if i >= 0 {
			if w.blk.ents[i].deleted {
				zzsym.Assert(len(val) == 0, "a committed delete is a block-layer tombstone")
			} else {
				zzsym.Assert(bytes.Equal(val, w.blk.ents[i].val), "a committed put carries the value last written before the commit")
			}
		}
		zzsym.Assert(key[0] == byte(scom.ST_STORAGE), "every key reaching the block layer carries the contract-storage prefix")
	})
	zzsym.Assert(n == len(w.blk.ents), "Commit applies every change of the transaction layer (uncommitted or reset changes never reach the block layer)")

	// ... and persisting the block layer yields exactly the model's store.
	w.st.NewBatch()
	w.ov.CommitTo()
	zzsym.Assert(w.st.BatchCommit() == nil, "batch commit")
	persisted := zz10Expect([]*zz10Layer{w.blk, w.base}, nil)
	zzsym.Assert(len(w.st.keys) == len(persisted), "after CommitTo the store holds exactly the visible live keys")
	for _, e := range persisted {
		v, err := w.st.Get(e.key)
		zzsym.Assert(err == nil && bytes.Equal(v, e.val), "after CommitTo every visible key is stored with its newest committed value")
	}
	zzsym.Cover("persist-done")
}

func ZZ_C10_CacheReadScanCommit() { zz10ReadScanCommit() }

// same body, second set of bounds (more persisted rows, shorter history)
func ZZ_C10_CacheWideStore() { zz10ReadScanCommit() }

// same body, keys of varying length (a key may be a proper prefix of another)
func ZZ_C10_CacheVarLen() { zz10ReadScanCommit() }

// Witness: uncommitted transaction-layer writes must NOT be visible in the block layer, so the claim
// "the block layer sees q as the cache does" is violable.
func ZZ_C10_CacheReadScanCommit_witness() {
	w := zz10Setup()
	q := zz10Key("q")
	got, _ := w.db.Get(q)
	below, _ := w.ov.Get(zz10Raw(q))
	zzsym.Assert(bytes.Equal(got, below), "witness: an uncommitted write is visible in the cache only")
}
