package overlaydb

// C10 (block layer): the real OverlayDB / JoinIter / MemDB on top of a harness PersistStore are
// compared against a two-layer association-list model.

import (
	"bytes"

	scom "github.com/polynetwork/poly/core/store/common"
	"github.com/polynetwork/poly/zzsym"
)

// ---- harness PersistStore (not under test): unordered slice + write batch ------------------

type zz10Store struct {
	keys, vals [][]byte
	bkeys      [][]byte
	bvals      [][]byte // nil value = delete
}

func (s *zz10Store) find(key []byte) int {
	for i := range s.keys {
		if bytes.Equal(s.keys[i], key) {
			return i
		}
	}
	return -1
}
func (s *zz10Store) Put(key []byte, value []byte) error {
	k := append([]byte(nil), key...)
	v := append([]byte(nil), value...)
	if i := s.find(key); i >= 0 {
		s.vals[i] = v
	} else {
		s.keys = append(s.keys, k)
		s.vals = append(s.vals, v)
	}
	return nil
}
func (s *zz10Store) Has(key []byte) (bool, error) { return s.find(key) >= 0, nil }
func (s *zz10Store) Get(key []byte) ([]byte, error) {
	if i := s.find(key); i >= 0 {
		return s.vals[i], nil
	}
	return nil, scom.ErrNotFound
}
func (s *zz10Store) Delete(key []byte) error {
	if i := s.find(key); i >= 0 {
		s.keys = append(s.keys[:i], s.keys[i+1:]...)
		s.vals = append(s.vals[:i], s.vals[i+1:]...)
	}
	return nil
}
func (s *zz10Store) NewBatch() { s.bkeys, s.bvals = nil, nil }
func (s *zz10Store) BatchPut(key []byte, value []byte) {
	s.bkeys = append(s.bkeys, append([]byte(nil), key...))
	s.bvals = append(s.bvals, append([]byte{}, value...))
}
func (s *zz10Store) BatchDelete(key []byte) {
	s.bkeys = append(s.bkeys, append([]byte(nil), key...))
	s.bvals = append(s.bvals, nil)
}
func (s *zz10Store) BatchCommit() error {
	for i := range s.bkeys {
		if s.bvals[i] == nil {
			s.Delete(s.bkeys[i])
		} else {
			s.Put(s.bkeys[i], s.bvals[i])
		}
	}
	s.bkeys, s.bvals = nil, nil
	return nil
}
func (s *zz10Store) Close() error { return nil }

type zz10StoreIter struct {
	keys, vals [][]byte
	pos        int
}

func (s *zz10Store) NewIterator(prefix []byte) scom.StoreIterator {
	it := &zz10StoreIter{pos: -1}
	for i := range s.keys {
		if bytes.HasPrefix(s.keys[i], prefix) {
			it.keys = append(it.keys, s.keys[i])
			it.vals = append(it.vals, s.vals[i])
		}
	}
	for i := 1; i < len(it.keys); i++ {
		for j := i; j > 0 && bytes.Compare(it.keys[j], it.keys[j-1]) < 0; j-- {
			it.keys[j], it.keys[j-1] = it.keys[j-1], it.keys[j]
			it.vals[j], it.vals[j-1] = it.vals[j-1], it.vals[j]
		}
	}
	return it
}
func (it *zz10StoreIter) Next() bool  { it.pos++; return it.pos < len(it.keys) }
func (it *zz10StoreIter) First() bool { it.pos = 0; return len(it.keys) > 0 }
func (it *zz10StoreIter) Key() []byte {
	if it.pos < 0 || it.pos >= len(it.keys) {
		return nil // like goleveldb: an exhausted iterator yields nil
	}
	return it.keys[it.pos]
}
func (it *zz10StoreIter) Value() []byte {
	if it.pos < 0 || it.pos >= len(it.keys) {
		return nil
	}
	return it.vals[it.pos]
}
func (it *zz10StoreIter) Release()     {}
func (it *zz10StoreIter) Error() error { return nil }

// ---- reference model: layers of association lists, newest layer first ----------------------

type zz10Entry struct {
	key, val []byte
	deleted  bool
}

type zz10Layer struct{ ents []zz10Entry }

func (l *zz10Layer) find(k []byte) int {
	for i := range l.ents {
		if bytes.Equal(l.ents[i].key, k) {
			return i
		}
	}
	return -1
}

func (l *zz10Layer) put(k, v []byte) {
	e := zz10Entry{key: k, val: v, deleted: len(v) == 0}
	if i := l.find(k); i >= 0 {
		l.ents[i] = e
	} else {
		l.ents = append(l.ents, e)
	}
}

// zz10Visible: the newest layer that mentions k decides; a tombstone or no mention = absent.
func zz10Visible(layers []*zz10Layer, k []byte) (val []byte, live bool) {
	for _, l := range layers {
		if i := l.find(k); i >= 0 {
			if l.ents[i].deleted {
				return nil, false
			}
			return l.ents[i].val, true
		}
	}
	return nil, false
}

// zz10Expect: the visible live entries whose key starts with prefix, in ascending byte order.
func zz10Expect(layers []*zz10Layer, prefix []byte) []zz10Entry {
	var out []zz10Entry
	for li, l := range layers {
		for _, e := range l.ents {
			shadowed := false
			for _, newer := range layers[:li] {
				if newer.find(e.key) >= 0 {
					shadowed = true
					break
				}
			}
			if shadowed || e.deleted || !bytes.HasPrefix(e.key, prefix) {
				continue
			}
			out = append(out, e)
		}
	}
	for i := 1; i < len(out); i++ {
		for j := i; j > 0 && bytes.Compare(out[j].key, out[j-1].key) < 0; j-- {
			out[j], out[j-1] = out[j-1], out[j]
		}
	}
	return out
}

func zz10CheckScan(it scom.StoreIterator, want []zz10Entry) {
	i := 0
	for ok := it.First(); ok; ok = it.Next() {
		zzsym.Assert(i < len(want), "prefix scan yields no key that is deleted, hidden or outside the prefix")
		if i < len(want) {
			zzsym.Assert(bytes.Equal(it.Key(), want[i].key), "prefix scan yields exactly the visible live keys in ascending byte order")
			zzsym.Assert(bytes.Equal(it.Value(), want[i].val), "prefix scan yields the newest layer's value")
		}
		i++
	}
	zzsym.Assert(it.Error() == nil, "prefix scan ends without error")
	it.Release()
	zzsym.Assert(i == len(want), "prefix scan yields every visible live key under the prefix")
}

// zz10ScanCovers labels the join iterator's hard cases (decided on the model).
func zz10ScanCovers(mem, back *zz10Layer, prefix []byte) {
	memOnly, backOnly := false, false
	for _, e := range mem.ents {
		if !bytes.HasPrefix(e.key, prefix) {
			continue
		}
		if back.find(e.key) >= 0 {
			if e.deleted {
				zzsym.Cover("scan-tombstone-hides-backend-key")
			} else {
				zzsym.Cover("scan-overwritten-backend-key")
			}
		} else {
			memOnly = true
			if e.deleted {
				zzsym.Cover("scan-tombstone-without-backend-key")
			}
		}
	}
	for _, e := range back.ents {
		if bytes.HasPrefix(e.key, prefix) && mem.find(e.key) < 0 {
			backOnly = true
		}
	}
	if memOnly && backOnly {
		zzsym.Cover("scan-interleaves-mem-and-backend")
	}
	if memOnly && !backOnly {
		zzsym.Cover("scan-backend-exhausted-first")
	}
	if backOnly && !memOnly {
		zzsym.Cover("scan-mem-exhausted-first")
	}
}

func zz10Key(name string) []byte {
	n := zzsym.Param("KMIN") + zzsym.Choose(name+".len", zzsym.Param("KSPAN"))
	return zzsym.Bytes(name, n)
}

// zz10Setup: B symbolic backend entries (non-empty values: CommitTo never stores an empty value),
// then T symbolic puts/deletes at the block layer.
func zz10Setup() (st *zz10Store, ov *OverlayDB, base, blk *zz10Layer) {
	B := zzsym.Param("B")
	T := zzsym.Param("T")
	st = &zz10Store{}
	base = &zz10Layer{}
	for i := 0; i < B; i++ {
		k := zz10Key("bk")
		v := zzsym.Bytes("bv", 1)
		st.Put(k, v)
		base.put(k, v)
	}
	ov = NewOverlayDB(st)
	blk = &zz10Layer{}
	for t := 0; t < T; t++ {
		k := zz10Key("k")
		if zzsym.Choose("op", 2) == 0 {
			v := zzsym.Bytes("v", 1)
			ov.Put(k, v)
			blk.put(k, v)
		} else {
			ov.Delete(k)
			blk.put(k, nil)
			zzsym.Cover("delete")
		}
	}
	return
}

func zz10CheckGet(ov *OverlayDB, layers []*zz10Layer, q []byte) {
	got, err := ov.Get(q)
	zzsym.Assert(err == nil, "Get does not fail on a healthy store")
	want, live := zz10Visible(layers, q)
	if live {
		zzsym.Assert(bytes.Equal(got, want), "Get returns the newest layer's value")
		zzsym.Cover("get-live")
	} else {
		zzsym.Assert(len(got) == 0, "Get of a deleted or never-written key reads as absent")
		zzsym.Cover("get-absent")
	}
}

// zz10StoreEquals: the persisted store holds exactly want.
func zz10StoreEquals(st *zz10Store, want []zz10Entry) {
	zzsym.Assert(len(st.keys) == len(want), "after CommitTo the store holds exactly the visible live keys (no extra, none missing)")
	for _, e := range want {
		v, err := st.Get(e.key)
		zzsym.Assert(err == nil && bytes.Equal(v, e.val), "after CommitTo every visible key is stored with its newest value")
	}
}

// Read, prefix scan, then CommitTo.
func ZZ_C10_OverlayReadScanCommit() { zz10ReadScanCommit() }

// same body, longer block-layer history over a smaller store
func ZZ_C10_OverlayDeepHistory() { zz10ReadScanCommit() }

// same body, keys of varying length (a key may be a proper prefix of another)
func ZZ_C10_OverlayVarLen() { zz10ReadScanCommit() }

func zz10ReadScanCommit() {
	st, ov, base, blk := zz10Setup()
	layers := []*zz10Layer{blk, base}
	q := zz10Key("q")
	zz10CheckGet(ov, layers, q)
	prefix := q[:zzsym.Choose("prefix.len", len(q)+1)]
	zz10CheckScan(ov.NewIterator(prefix), zz10Expect(layers, prefix))
	zz10ScanCovers(blk, base, prefix)
	zzsym.Cover("scan-done")

	st.NewBatch()
	ov.CommitTo()
	zzsym.Assert(st.BatchCommit() == nil, "batch commit")
	zz10StoreEquals(st, zz10Expect(layers, nil))
	zzsym.Assert(ov.Error() == nil, "no store error recorded")
	zzsym.Cover("commit-done")
}

// Reset discards the block layer: reads and scans fall through to the backing store.
func ZZ_C10_OverlayReset() {
	_, ov, base, _ := zz10Setup()
	ov.Reset()
	layers := []*zz10Layer{base}
	q := zz10Key("q")
	zz10CheckGet(ov, layers, q)
	prefix := q[:zzsym.Choose("prefix.len", len(q)+1)]
	zz10CheckScan(ov.NewIterator(prefix), zz10Expect(layers, prefix))
	// the layer is usable again
	v := zzsym.Bytes("v2", 1)
	ov.Put(q, v)
	got, _ := ov.Get(q)
	zzsym.Assert(bytes.Equal(got, v), "layer usable after Reset")
	zzsym.Cover("reset-done")
}

// Witness: a block-layer write may shadow the backend entry, so "Get returns the backend value" is violable.
func ZZ_C10_OverlayReadScanCommit_witness() {
	_, ov, base, _ := zz10Setup()
	q := zz10Key("q")
	got, _ := ov.Get(q)
	want, _ := zz10Visible([]*zz10Layer{base}, q)
	zzsym.Assert(bytes.Equal(got, want), "witness: the block layer may overwrite or delete q")
}

func ZZ_C10_OverlayReset_witness() {
	_, ov, base, _ := zz10Setup()
	q := zz10Key("q")
	ov.Reset()
	got, _ := ov.Get(q)
	_, live := zz10Visible([]*zz10Layer{base}, q)
	zzsym.Assert(len(got) != 0 || live, "witness: q may be absent from the backend")
}
