package proc

import (
	"bytes"
	"errors"

	"github.com/ontio/ontology-crypto/keypair"
	"github.com/polynetwork/poly/common"
	scommon "github.com/polynetwork/poly/core/store/common"
	"github.com/polynetwork/poly/core/types"
	"github.com/polynetwork/poly/native/service/governance/relayer_manager"
	"github.com/polynetwork/poly/native/service/utils"
	"github.com/polynetwork/poly/zzsym"
)

// conjunction / disjunction / if-then-else on booleans as single terms (no forks)
func zzAnd(a, b bool) bool    { return [2]bool{a, b} == [2]bool{true, true} }
func zzOr(a, b bool) bool     { return [2]bool{a, b} != [2]bool{false, false} }
func zzIte(c, x, y bool) bool { return zzOr(zzAnd(c, x), zzAnd(!c, y)) }

// ---- the ledger behind bactor.GetStorageItem (spec "overrides"): a symbolic relayer registry ------------

type zzRelayer struct {
	addr common.Address
	val  []byte
}

var (
	zzRegistry   []zzRelayer
	zzLookups    []common.Address
	zzFailAt     = -1 // number of the lookup that fails with a storage error, -1: none
	zzErrStorage = errors.New("zz: storage failure")
)

// what relayer_manager.putRelayer writes: key contract||RELAYER||address, value = the address
func zzRegister(a common.Address) {
	zzRegistry = append(zzRegistry, zzRelayer{addr: a, val: append([]byte(nil), a[:]...)})
}

// what relayer_manager.ApproveRemoveRelayer does to the key
func zzUnregister(i int) {
	zzRegistry = append(append([]zzRelayer(nil), zzRegistry[:i]...), zzRegistry[i+1:]...)
}

func zzGetStorageItem(contract common.Address, key []byte) ([]byte, error) {
	prefix := []byte(relayer_manager.RELAYER)
	zzsym.Assert(len(key) == len(prefix)+common.ADDR_LEN, "the registry key is RELAYER||address")
	var a common.Address
	if len(key) == len(prefix)+common.ADDR_LEN {
		copy(a[:], key[len(prefix):])
	}
	// the ledger reads contract||key; the writer stores under ConcatKey(contract, RELAYER, address)
	zzsym.Assert(bytes.Equal(append(append([]byte(nil), contract[:]...), key...),
		utils.ConcatKey(utils.RelayerManagerContractAddress, prefix, a[:])),
		"the pool reads the key that relayer_manager writes (relayer manager contract, RELAYER||address)")
	n := len(zzLookups)
	zzLookups = append(zzLookups, a)
	if n == zzFailAt {
		return nil, zzErrStorage
	}
	for _, e := range zzRegistry {
		if e.addr == a {
			return e.val, nil
		}
	}
	return nil, scommon.ErrNotFound // what the real ledger answers for a missing key
}

// ---- symbolic inputs -----------------------------------------------------------------------------------

func zzAddr(name string) common.Address {
	var a common.Address
	copy(a[:], zzsym.Bytes(name, common.ADDR_LEN))
	return a
}

type zzPermit struct {
	addr common.Address
	val  bool
}

type zzWorld struct {
	signers []common.Address
	permits []zzPermit
	tx      *types.Transaction
}

// up to S signing addresses (as left by signature verification in tx.SignedAddr), up to R registered relayers,
// up to P entries of the permitted-address map (entries may be false; later writes win)
func zzNewWorld() *zzWorld {
	w := &zzWorld{tx: &types.Transaction{TxType: types.Invoke}}
	zzRegistry, zzLookups, zzFailAt = nil, nil, -1
	for i, n := 0, zzsym.Choose("signers", zzsym.Param("S")+1); i < n; i++ {
		w.signers = append(w.signers, zzAddr("signer"))
	}
	w.tx.SignedAddr = append([]common.Address(nil), w.signers...)
	for i, n := 0, zzsym.Choose("relayers", zzsym.Param("R")+1); i < n; i++ {
		zzRegister(zzAddr("relayer"))
	}
	lock.Lock()
	permittedAddrMap = make(map[common.Address]bool)
	for i, n := 0, zzsym.Choose("permitted", zzsym.Param("P")+1); i < n; i++ {
		p := zzPermit{addr: zzAddr("permitted"), val: zzsym.Bool("permitted.val")}
		w.permits = append(w.permits, p)
		permittedAddrMap[p.addr] = p.val
	}
	lock.Unlock()
	return w
}

func (w *zzWorld) registered(a common.Address) bool {
	r := false
	for _, e := range zzRegistry {
		r = zzOr(r, e.addr == a)
	}
	return r
}

func (w *zzWorld) permitted(a common.Address) bool {
	r := false
	for _, p := range w.permits {
		r = zzIte(p.addr == a, p.val, r)
	}
	return r
}

// some signing address is a registered relayer or a permitted address
func (w *zzWorld) admissible() bool {
	r := false
	for _, s := range w.signers {
		r = zzOr(r, zzOr(w.registered(s), w.permitted(s)))
	}
	return r
}

func zzUnlocked() {
	// the engine reports Lock of a held mutex: isValidSender must have released the map lock
	lock.Lock()
	lock.Unlock()
}

func (w *zzWorld) check() error {
	zzLookups = nil
	err := (&TxActor{}).isValidSender(w.tx)
	zzUnlocked()
	for _, a := range zzLookups {
		in := false
		for _, s := range w.signers {
			in = zzOr(in, s == a)
		}
		zzsym.Assert(in, "only the transaction's signing addresses are looked up")
	}
	return err
}

// isValidSender accepts iff some signing address is a registered relayer or a permitted address.
func ZZ_C36_IsValidSender() {
	w := zzNewWorld()
	err := w.check()
	if err == nil {
		zzsym.Assert(w.admissible(), "a transaction is accepted only if one of its signing addresses is a registered relayer or a permitted address")
		zzsym.Cover("accepted")
	} else {
		zzsym.Assert(!w.admissible(), "a transaction signed by a registered relayer or a permitted address is accepted")
		zzsym.Cover("rejected")
	}
	if len(w.signers) == 0 {
		zzsym.Assert(err != nil, "a transaction without signing addresses is rejected")
		zzsym.Cover("no-signer")
	}
	zzsym.Cover("sender-done")
}

// An approved removal (the registry key is deleted) takes effect for the next submission: no caching.
func ZZ_C36_RemovalTakesEffect() {
	w := zzNewWorld()
	a := zzAddr("relayer")
	zzRegister(a)
	k := len(zzRegistry) - 1
	before := w.check()
	zzsym.Assert((before == nil) == w.admissible(), "before the removal: accepted iff a signer is registered or permitted")
	zzUnregister(k)
	after := w.check()
	zzsym.Assert((after == nil) == w.admissible(), "after the removal: accepted iff a signer is STILL registered or permitted")
	if before == nil && after != nil {
		zzsym.Cover("removal-effective")
	}
	if before == nil && after == nil {
		zzsym.Cover("still-admitted-by-other")
	}
	zzsym.Cover("removal-done")
}

// A storage failure never admits a transaction that has no registered or permitted signer; the failure is
// reported unless an earlier signer already qualified.
func ZZ_C36_StorageFailure() {
	w := zzNewWorld()
	zzFailAt = zzsym.Choose("failAt", zzsym.Param("S")+1)
	err := w.check()
	if err == nil {
		zzsym.Assert(w.admissible(), "with a failing registry lookup a transaction is still accepted only if a signing address is a registered relayer or a permitted address")
		zzsym.Cover("accepted-before-failure")
	} else if err == zzErrStorage {
		zzsym.Cover("storage-error-reported")
	}
	zzsym.Cover("failure-done")
}

// Signing addresses derived by the real GetSignatureAddresses from signature entries (single keys and
// multi-signature programs over the real key table): registering exactly one derived address admits the
// transaction iff that entry is among the transaction's signatures.
func ZZ_C36_SignersFromKeys() {
	zzRegistry, zzLookups, zzFailAt = nil, nil, -1
	lock.Lock()
	permittedAddrMap = make(map[common.Address]bool)
	lock.Unlock()
	entry := func(name string) (types.Sig, common.Address) {
		k1 := zzsym.Choose(name+".key", 3)
		if zzsym.Choose(name+".multi", 2) == 0 {
			pk := zzsym.PubKey(k1)
			return types.Sig{PubKeys: []keypair.PublicKey{pk}, M: 1}, types.AddressFromPubKey(pk)
		}
		pks := []keypair.PublicKey{zzsym.PubKey(k1), zzsym.PubKey(3 + zzsym.Choose(name+".key2", 2))}
		addr, err := types.AddressFromMultiPubKeys(pks, 2)
		if err != nil {
			panic("zz: multi address")
		}
		return types.Sig{PubKeys: pks, M: 2}, addr
	}
	tx := &types.Transaction{TxType: types.Invoke}
	var addrs []common.Address
	for i, n := 0, 1+zzsym.Choose("nsig", 2); i < n; i++ {
		s, a := entry("sig")
		tx.Sigs = append(tx.Sigs, s)
		addrs = append(addrs, a)
	}
	_, reg := entry("registered")
	zzRegister(reg)
	err := (&TxActor{}).isValidSender(tx)
	zzUnlocked()
	want := false
	for _, a := range addrs {
		if a == reg {
			want = true
		}
	}
	zzsym.Assert((err == nil) == want, "a transaction is admitted iff the registered relayer is one of its signature entries' addresses")
	if want {
		zzsym.Cover("key-accepted")
	} else {
		zzsym.Cover("key-rejected")
	}
}

func ZZ_C36_IsValidSender_witness() {
	w := zzNewWorld()
	zzsym.Assert(w.check() != nil, "witness: a registered or permitted signer is admitted")
}
