package relayer_manager

// Shared support for native-contract harnesses (copied into each harness package by bin/gen-shared).
// Nothing here is under test: it builds the state a native contract runs against, using the
// real storage stack (CacheDB -> OverlayDB -> MemDB) on top of a small in-memory PersistStore.

import (
	"bytes"
	"encoding/hex"

	"github.com/ontio/ontology-crypto/keypair"
	"github.com/polynetwork/poly/common"
	cstates "github.com/polynetwork/poly/core/states"
	scom "github.com/polynetwork/poly/core/store/common"
	"github.com/polynetwork/poly/core/store/overlaydb"
	"github.com/polynetwork/poly/core/types"
	"github.com/polynetwork/poly/native"
	"github.com/polynetwork/poly/native/service/governance/node_manager"
	"github.com/polynetwork/poly/native/service/utils"
	"github.com/polynetwork/poly/native/storage"
)

// ---- in-memory PersistStore -------------------------------------------------------------

type zzStore struct {
	keys, vals [][]byte
	bkeys      [][]byte
	bvals      [][]byte // nil value = delete
	Commits    int
}

func (s *zzStore) find(key []byte) int {
	for i := range s.keys {
		if bytes.Equal(s.keys[i], key) {
			return i
		}
	}
	return -1
}
func (s *zzStore) Put(key []byte, value []byte) error {
	k := append([]byte(nil), key...)
	v := append([]byte(nil), value...)
	if i := s.find(key); i >= 0 {
		s.vals[i] = v
	} else {
		s.keys = append(s.keys, k)
		s.vals = append(s.vals, v)
	}
	return nil
}
func (s *zzStore) Has(key []byte) (bool, error) { return s.find(key) >= 0, nil }
func (s *zzStore) Get(key []byte) ([]byte, error) {
	if i := s.find(key); i >= 0 {
		return s.vals[i], nil
	}
	return nil, scom.ErrNotFound
}
func (s *zzStore) Delete(key []byte) error {
	if i := s.find(key); i >= 0 {
		s.keys = append(s.keys[:i], s.keys[i+1:]...)
		s.vals = append(s.vals[:i], s.vals[i+1:]...)
	}
	return nil
}
func (s *zzStore) NewBatch() { s.bkeys, s.bvals = nil, nil }
func (s *zzStore) BatchPut(key []byte, value []byte) {
	s.bkeys = append(s.bkeys, append([]byte(nil), key...))
	s.bvals = append(s.bvals, append([]byte{}, value...))
}
func (s *zzStore) BatchDelete(key []byte) {
	s.bkeys = append(s.bkeys, append([]byte(nil), key...))
	s.bvals = append(s.bvals, nil)
}
func (s *zzStore) BatchCommit() error {
	for i := range s.bkeys {
		if s.bvals[i] == nil {
			s.Delete(s.bkeys[i])
		} else {
			s.Put(s.bkeys[i], s.bvals[i])
		}
	}
	s.bkeys, s.bvals = nil, nil
	s.Commits++
	return nil
}
func (s *zzStore) Close() error { return nil }

type zzStoreIter struct {
	keys, vals [][]byte
	pos        int
}

func (s *zzStore) NewIterator(prefix []byte) scom.StoreIterator {
	it := &zzStoreIter{pos: -1}
	for i := range s.keys {
		if bytes.HasPrefix(s.keys[i], prefix) {
			it.keys = append(it.keys, s.keys[i])
			it.vals = append(it.vals, s.vals[i])
		}
	}
	for i := 1; i < len(it.keys); i++ {
		for j := i; j > 0 && bytes.Compare(it.keys[j], it.keys[j-1]) < 0; j-- {
			it.keys[j], it.keys[j-1] = it.keys[j-1], it.keys[j]
			it.vals[j], it.vals[j-1] = it.vals[j-1], it.vals[j]
		}
	}
	return it
}
func (it *zzStoreIter) Next() bool  { it.pos++; return it.pos < len(it.keys) }
func (it *zzStoreIter) First() bool { it.pos = 0; return len(it.keys) > 0 }
func (it *zzStoreIter) Key() []byte {
	if it.pos < 0 || it.pos >= len(it.keys) {
		return nil // like goleveldb: an exhausted iterator yields nil
	}
	return it.keys[it.pos]
}
func (it *zzStoreIter) Value() []byte {
	if it.pos < 0 || it.pos >= len(it.keys) {
		return nil
	}
	return it.vals[it.pos]
}
func (it *zzStoreIter) Release()     {}
func (it *zzStoreIter) Error() error { return nil }

// ---- native service construction -----------------------------------------------------------

func zzNewCacheDB() *storage.CacheDB {
	return storage.NewCacheDB(overlaydb.NewOverlayDB(&zzStore{}))
}

// zzNative builds a NativeService whose transaction is witnessed by the given addresses.
func zzNative(db *storage.CacheDB, input []byte, signers ...common.Address) *native.NativeService {
	tx := &types.Transaction{SignedAddr: signers}
	ns, err := native.NewNativeService(db, tx, 0, 100, common.Uint256{}, 0, input, false)
	if err != nil {
		panic("zz: NewNativeService")
	}
	return ns
}

// real P-256 validator keys (compressed encoding)
var zzValidatorKeyHex = []string{
	"039d33596861caa2a107af3cabf184df2b352d59f92960d548e2548470af90d2ba",
	"025ef9a33bf9de5620695af6db9f6334d09cc4e2c57fe171f6d9e1053a9f533749",
	"0314ba31a5af08ddee4b34a5570e86ce3c74f832107163becd867ae85088b790d2",
	"030562d8d2b0f37b45ba0eefa9c66e83080a74305601b72ba613cfdf3253bfa3e1",
	"02b70d844f2f82feeca5cdbec3f0f870807408e6a9781b5e8183574ddb15ea7a5a",
	"034bd0188f7b87f958fdde01c72ddacb6ddc2d65bfe047af047bba6c1d8459e075",
	"032cf3f13186e23bf4d7b1ef069c324da5c231ddae28d250b834e00d0f8f3cb480",
	"027f089cdef1a143e231b9cf782aa2fd4663ef3f347da1c646c6cc32819cab02ad",
}

func zzValidatorKey(i int) keypair.PublicKey {
	b, _ := hex.DecodeString(zzValidatorKeyHex[i])
	k, err := keypair.DeserializePublicKey(b)
	if err != nil {
		panic("zz: bad validator key")
	}
	return k
}

func zzValidatorAddr(i int) common.Address {
	return types.AddressFromPubKey(zzValidatorKey(i))
}

// zzPutPeerPool writes governance view `view` and a peer pool whose i-th member has statuses[i].
func zzPutPeerPool(db *storage.CacheDB, view uint32, statuses []node_manager.Status) {
	m := &node_manager.PeerPoolMap{PeerPoolMap: make(map[string]*node_manager.PeerPoolItem)}
	for i, st := range statuses {
		pk := zzValidatorKeyHex[i]
		m.PeerPoolMap[pk] = &node_manager.PeerPoolItem{Index: uint32(i + 1), PeerPubkey: pk, Address: zzValidatorAddr(i), Status: st}
	}
	sink := common.NewZeroCopySink(nil)
	m.Serialization(sink)
	db.Put(utils.ConcatKey(utils.NodeManagerContractAddress, []byte(node_manager.PEER_POOL), utils.GetUint32Bytes(view)), cstates.GenRawStorageItem(sink.Bytes()))
	gv := node_manager.GovernanceView{View: view, Height: 10, TxHash: common.UINT256_EMPTY}
	sink = common.NewZeroCopySink(nil)
	gv.Serialization(sink)
	db.Put(utils.ConcatKey(utils.NodeManagerContractAddress, []byte(node_manager.GOVERNANCE_VIEW)), cstates.GenRawStorageItem(sink.Bytes()))
}

func zzConsensusPool(db *storage.CacheDB, n int) {
	st := make([]node_manager.Status, n)
	for i := range st {
		st[i] = node_manager.ConsensusStatus
	}
	zzPutPeerPool(db, 1, st)
}

// zzSnapshot lists the transaction-layer write set (key, value) of a CacheDB in key order.
func zzWriteSet(db *storage.CacheDB) [][2][]byte {
	var out [][2][]byte
	it := db.NewIterator(nil)
	for ok := it.First(); ok; ok = it.Next() {
		out = append(out, [2][]byte{append([]byte(nil), it.Key()...), append([]byte(nil), it.Value()...)})
	}
	it.Release()
	return out
}

func zzSameWriteSet(a, b [][2][]byte) bool {
	if len(a) != len(b) {
		return false
	}
	for i := range a {
		if !bytes.Equal(a[i][0], b[i][0]) || !bytes.Equal(a[i][1], b[i][1]) {
			return false
		}
	}
	return true
}
