package relayer_manager

// C36, clause "a relayer's approved removal takes effect for later submissions", at the registry: the pool's
// isValidSender reads the storage item RELAYER ‖ address of the relayer manager (shown by ZZ_C36_IsValidSender:
// "the pool reads the key that relayer_manager writes"). Here the real RegisterRelayer / ApproveRegisterRelayer /
// RemoveRelayer / ApproveRemoveRelayer run on the real CacheDB stack: after an approved removal of a list of up
// to L addresses (symbolic: registered ones, strangers, repeats, in any order) none of the listed addresses has
// a registry item left, and every registered address that is not listed still has one.

import (
	"github.com/polynetwork/poly/common"
	"github.com/polynetwork/poly/native/service/utils"
	"github.com/polynetwork/poly/native/storage"
	"github.com/polynetwork/poly/zzsym"
)

func zz36Addr(name string) common.Address {
	var a common.Address
	copy(a[:], zzsym.Bytes(name, 20))
	return a
}

func zz36List(list []common.Address, owner common.Address) []byte {
	sink := common.NewZeroCopySink(nil)
	(&RelayerListParam{AddressList: list, Address: owner}).Serialization(sink)
	return sink.Bytes()
}

func zz36Approve(id uint64, who common.Address) []byte {
	sink := common.NewZeroCopySink(nil)
	(&ApproveRelayerParam{ID: id, Address: who}).Serialization(sink)
	return sink.Bytes()
}

// what the transaction pool looks up
func zz36Registered(db *storage.CacheDB, a common.Address) bool {
	v, err := db.Get(utils.ConcatKey(utils.RelayerManagerContractAddress, []byte(RELAYER), a[:]))
	if err != nil {
		panic("zz: registry read")
	}
	return len(v) > 0
}

func ZZ_C36_RemovalRemovesAll() {
	db := zzNewCacheDB()
	zzConsensusPool(db, 1) // one validator: a single approval is a quorum (thresholds are C32's subject)
	owner, v0 := zz36Addr("owner"), zzValidatorAddr(0)
	R := zzsym.Param("R")
	// R registered relayers and one stranger: distinct addresses with one symbolic byte each (lists of fully
	// symbolic addresses made every storage-key comparison fork; the quantification that matters here is over
	// the shape of the removal list)
	var reg []common.Address
	for i := 0; i < R; i++ {
		a := common.Address{byte(i + 1)}
		a[19] = zzsym.U8("relayer.tail")
		reg = append(reg, a)
	}
	stranger := common.Address{0xEE}
	stranger[19] = zzsym.U8("stranger.tail")
	_, err := RegisterRelayer(zzNative(db, zz36List(reg, owner), owner))
	zzsym.Assert(err == nil, "registration request")
	_, err = ApproveRegisterRelayer(zzNative(db, zz36Approve(0, v0), v0))
	zzsym.Assert(err == nil, "registration approved")
	for _, a := range reg {
		zzsym.Assert(zz36Registered(db, a), "an approved relayer is registered")
	}
	var list []common.Address
	for i, n := 0, 1+zzsym.Choose("listed", zzsym.Param("L")); i < n; i++ {
		k := zzsym.Choose("entry", R+1) // a registered relayer (repeats allowed) or the stranger, in any order
		if k < R {
			list = append(list, reg[k])
		} else {
			list = append(list, stranger)
		}
	}
	_, err = RemoveRelayer(zzNative(db, zz36List(list, owner), owner))
	zzsym.Assert(err == nil, "removal request")
	_, err = ApproveRemoveRelayer(zzNative(db, zz36Approve(0, v0), v0))
	zzsym.Assert(err == nil, "removal approved")
	for _, a := range list {
		zzsym.Assert(!zz36Registered(db, a), "after an approved removal no listed address is a registered relayer any more")
	}
	for _, a := range reg {
		listed := false
		for _, x := range list {
			if x == a {
				listed = true
			}
		}
		if !listed {
			zzsym.Assert(zz36Registered(db, a), "relayers that were not listed stay registered")
			zzsym.Cover("unlisted-kept")
		} else {
			zzsym.Cover("listed-removed")
		}
	}
	zzsym.Cover("removal-done")
}

func ZZ_C36_RemovalRemovesAll_witness() {
	db := zzNewCacheDB()
	zzConsensusPool(db, 1)
	owner, v0 := zz36Addr("owner"), zzValidatorAddr(0)
	a := zz36Addr("relayer")
	RegisterRelayer(zzNative(db, zz36List([]common.Address{a}, owner), owner))
	ApproveRegisterRelayer(zzNative(db, zz36Approve(0, v0), v0))
	b := a
	b[19] = zzsym.U8("removed.tail")
	RemoveRelayer(zzNative(db, zz36List([]common.Address{b}, owner), owner))
	ApproveRemoveRelayer(zzNative(db, zz36Approve(0, v0), v0))
	zzsym.Assert(zz36Registered(db, a), "witness: the listed address can be the registered relayer")
}
