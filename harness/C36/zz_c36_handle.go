package proc

import (
	"github.com/polynetwork/poly/common"
	"github.com/polynetwork/poly/core/payload"
	"github.com/polynetwork/poly/core/types"
	tc "github.com/polynetwork/poly/txnpool/common"
	"github.com/polynetwork/poly/zzsym"
)

// ---- handleTransaction: the only entry by which peers and RPC hand a transaction to the pool ------------
//
// The real handleTransaction runs on a TXPoolServer built directly (pool, statistics, slot tokens, pending map;
// no workers, no actors). Spec overrides: updatePermittedAddrMap (ledger + wall clock) -> zzUpdatePermitted
// (succeeds or fails, solver's choice), (*TXPoolServer).assignTxToWorker -> zzAssign (records the hand-over to
// the verification workers, which is the point of admission).

var (
	zzAssigned     int
	zzUpdateFails  bool
	zzUpdateCalled int
)

func zzUpdatePermitted() error {
	zzUpdateCalled++
	if zzUpdateFails {
		return zzErrStorage
	}
	return nil
}

func zzAssign(s *TXPoolServer, t *types.Transaction, sender tc.SenderType, ch chan *tc.TxResult) bool {
	zzAssigned++
	return true
}

func zzNewServer() *TXPoolServer {
	s := &TXPoolServer{}
	s.txPool = &tc.TXPool{}
	s.txPool.Init()
	s.allPendingTxs = make(map[common.Uint256]*serverPendingTx)
	s.stats = txStats{count: make([]uint64, tc.MaxStats-1)}
	s.slots = make(chan struct{}, 2)
	s.slots <- struct{}{}
	s.slots <- struct{}{}
	return s
}

func ZZ_C36_HandleTransaction() {
	w := zzNewWorld()
	w.tx.Payload = &payload.InvokeCode{Code: []byte{1}}
	zzAssigned, zzUpdateCalled = 0, 0
	zzUpdateFails = zzsym.Choose("permitted-update-fails", 2) == 1
	s := zzNewServer()
	ta := &TxActor{server: s}
	sender := tc.SenderType(zzsym.Choose("sender", 3)) // NilSender, NetSender, HttpSender
	var ch chan *tc.TxResult
	if zzsym.Choose("result-channel", 2) == 1 {
		ch = make(chan *tc.TxResult, 1)
	}
	zzLookups = nil
	ta.handleTransaction(sender, nil, w.tx, ch)
	zzUnlocked()

	admitted := zzAssigned > 0
	if admitted {
		zzsym.Assert(w.admissible(), "a transaction from a peer or from RPC is handed to the pool's workers only if one of its signing addresses is a registered relayer or a permitted address")
		zzsym.Assert(!zzUpdateFails, "no transaction is admitted while the permitted-address map could not be refreshed")
		zzsym.Cover("handle-admitted")
	} else {
		if !zzUpdateFails {
			zzsym.Assert(!w.admissible(), "a transaction signed by a registered relayer or a permitted address reaches the workers (empty pool, free slot)")
		}
		zzsym.Assert(s.stats.count[tc.RcvStats-1] == 0, "a refused transaction is not counted as received")
		zzsym.Assert(len(s.allPendingTxs) == 0 && s.txPool.GetTransactionCount() == 0 && len(s.slots) == 2,
			"a refused transaction leaves pool, pending set and slot tokens untouched")
		if sender == tc.HttpSender && ch != nil {
			zzsym.Assert(len(ch) == 1, "an RPC submitter waiting on a result channel is told about the refusal")
			r := <-ch
			zzsym.Assert(r.Err != 0, "the refusal carries an error code")
		} else if ch != nil {
			zzsym.Assert(len(ch) == 0, "peers get no reply")
		}
		zzsym.Cover("handle-refused")
	}
	zzsym.Assert(zzAssigned <= 1 && zzUpdateCalled == 1, "one submission = at most one hand-over, one refresh of the permitted map")
	zzsym.Cover("handle-done")
}

func ZZ_C36_HandleTransaction_witness() {
	w := zzNewWorld()
	w.tx.Payload = &payload.InvokeCode{Code: []byte{1}}
	zzAssigned, zzUpdateCalled, zzUpdateFails = 0, 0, false
	ta := &TxActor{server: zzNewServer()}
	ta.handleTransaction(tc.NetSender, nil, w.tx, nil)
	zzsym.Assert(zzAssigned == 0, "witness: an admissible peer transaction reaches the workers")
}
