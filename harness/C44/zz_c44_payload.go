package types

// C44 (ConsensusPayload): both codecs (zero-copy and streaming) round-trip and agree byte for byte, and
// Verify accepts a payload exactly when the signature was made by the owner key over the unsigned content:
// changing any signed field, or the owner, after signing makes Verify fail.

import (
	"bytes"

	"github.com/ontio/ontology-crypto/keypair"
	comm "github.com/polynetwork/poly/common"
	"github.com/polynetwork/poly/zzsym"
)

func zzC44Payload(L int) *ConsensusPayload {
	p := &ConsensusPayload{Version: zzsym.U32("version"), Height: zzsym.U32("height"), BookkeeperIndex: zzsym.U16("bkindex"),
		Timestamp: zzsym.U32("ts"), Data: zzsym.BytesChoose("data", L), PeerId: zzsym.U64("peerid")}
	copy(p.PrevHash[:], zzsym.Bytes("prev", 32))
	return p
}

func zzC44SamePayload(a, b *ConsensusPayload) bool {
	return a.Version == b.Version && a.PrevHash == b.PrevHash && a.Height == b.Height && a.BookkeeperIndex == b.BookkeeperIndex &&
		a.Timestamp == b.Timestamp && bytes.Equal(a.Data, b.Data) && bytes.Equal(a.Signature, b.Signature) &&
		bytes.Equal(keypair.SerializePublicKey(a.Owner), keypair.SerializePublicKey(b.Owner))
}

// ZZ_C44_PayloadRoundTrip: zero-copy and streaming encoders agree; both decoders return the value encoded.
func ZZ_C44_PayloadRoundTrip() {
	L := zzsym.Param("L")
	p := zzC44Payload(L)
	p.Owner = zzsym.PubKey(zzsym.Choose("owner", 3))
	p.Signature = zzsym.BytesChoose("sig", L)

	sink := comm.NewZeroCopySink(nil)
	zzsym.Assert(p.Serialization(sink) == nil, "zero-copy encoder succeeds")
	raw := sink.Bytes()
	var w bytes.Buffer
	zzsym.Assert(p.Serialize(&w) == nil && bytes.Equal(w.Bytes(), raw), "streaming encoder produces the same bytes as the zero-copy encoder")
	zzsym.Assert(bytes.Equal(p.ToArray(), raw), "ToArray is the same encoding")
	var u bytes.Buffer
	zzsym.Assert(p.SerializeUnsigned(&u) == nil, "unsigned encoder succeeds")
	zzsym.Assert(u.Len() <= len(raw) && bytes.Equal(raw[:u.Len()], u.Bytes()), "the signed content is a prefix of the encoding")

	q := new(ConsensusPayload)
	src := comm.NewZeroCopySource(raw)
	err := q.Deserialization(src)
	zzsym.Assert(err == nil && src.Len() == 0, "zero-copy decoder accepts the encoding and consumes it exactly")
	if err == nil {
		zzsym.Assert(zzC44SamePayload(p, q), "ConsensusPayload round trip (zero-copy)")
	}
	s := new(ConsensusPayload)
	r := bytes.NewReader(raw)
	err = s.Deserialize(r)
	zzsym.Assert(err == nil && r.Len() == 0, "streaming decoder accepts the encoding and consumes it exactly")
	if err == nil {
		zzsym.Assert(zzC44SamePayload(p, s), "ConsensusPayload round trip (streaming)")
	}
	zzsym.Cover("payload-roundtrip")
}

func ZZ_C44_PayloadRoundTrip_witness() {
	p := zzC44Payload(2)
	p.Owner = zzsym.PubKey(1)
	sink := comm.NewZeroCopySink(nil)
	p.Serialization(sink)
	q := new(ConsensusPayload)
	err := q.Deserialization(comm.NewZeroCopySource(sink.Bytes()))
	zzsym.Assert(err != nil || q.Height != 77 || len(q.Data) != 2, "witness: a payload at height 77 with two data bytes round-trips")
}

// ZZ_C44_PayloadSignature: a signature by key `signer` over the unsigned encoding.
//
//	(a) Verify succeeds iff the owner key is the signing key;
//	(b) after any single signed field is changed in transit (the payload is re-decoded from its bytes, one field
//	    is replaced by a different value) Verify fails;
//	(c) the unsigned bytes handed to the verifier are exactly SerializeUnsigned of the current content.
func ZZ_C44_PayloadSignature() {
	L := zzsym.Param("L")
	p := zzC44Payload(L)
	signer := zzsym.Choose("signer", 2)
	owner := zzsym.Choose("owner", 2)
	var u bytes.Buffer
	p.SerializeUnsigned(&u)
	p.Signature = zzsym.Signature("sig", signer, u.Bytes())
	p.Owner = zzsym.PubKey(owner)
	err := p.Verify()
	if owner == signer {
		zzsym.Assert(err == nil, "Verify accepts a payload signed by its owner over its unsigned content")
		zzsym.Cover("sig-accepted")
	} else {
		zzsym.Assert(err != nil, "Verify rejects a payload whose owner is not the key that signed")
		zzsym.Cover("sig-wrong-owner")
		return
	}
	// in transit: encode, decode, change one field
	sink := comm.NewZeroCopySink(nil)
	p.Serialization(sink)
	q := new(ConsensusPayload)
	if q.Deserialization(comm.NewZeroCopySource(sink.Bytes())) != nil {
		return
	}
	zzsym.Assert(q.Verify() == nil, "the signature still verifies after the payload crossed the wire unchanged")
	switch zzsym.Choose("field", 7) {
	case 0:
		v := zzsym.U32("new.version")
		zzsym.Assume(v != q.Version)
		q.Version = v
	case 1:
		var v comm.Uint256
		copy(v[:], zzsym.Bytes("new.prev", 32))
		zzsym.Assume(v != q.PrevHash)
		q.PrevHash = v
	case 2:
		v := zzsym.U32("new.height")
		zzsym.Assume(v != q.Height)
		q.Height = v
	case 3:
		v := zzsym.U16("new.bkindex")
		zzsym.Assume(v != q.BookkeeperIndex)
		q.BookkeeperIndex = v
	case 4:
		v := zzsym.U32("new.ts")
		zzsym.Assume(v != q.Timestamp)
		q.Timestamp = v
	case 5:
		d := zzsym.BytesChoose("new.data", L)
		zzsym.Assume(!bytes.Equal(d, q.Data))
		q.Data = d
	case 6:
		q.Owner = zzsym.PubKey(1 - owner)
	}
	zzsym.Assert(q.Verify() != nil, "Verify rejects a payload one of whose signed fields (or owner) differs from what was signed")
	zzsym.Cover("sig-mutated")
}

func ZZ_C44_PayloadSignature_witness() {
	p := zzC44Payload(1)
	var u bytes.Buffer
	p.SerializeUnsigned(&u)
	p.Signature = zzsym.Signature("sig", 0, u.Bytes())
	p.Owner = zzsym.PubKey(0)
	zzsym.Assert(p.Verify() != nil, "witness: a correctly signed payload verifies")
}
