package vbft

// C44 (vbft binary codecs): vbft Block (block + optional empty block), blockProposalMsg and BlockFetchRespMsg
// survive their encoding, and blockProposalMsg.Verify accepts exactly a block whose first signature was made by
// the given key over the block's identity; a header field changed in transit makes it fail.
// The JSON-encoded message kinds and the JSON block info inside the header are outside (reflection).

import (
	"bytes"

	"github.com/ontio/ontology-crypto/keypair"
	"github.com/polynetwork/poly/common"
	vconfig "github.com/polynetwork/poly/consensus/vbft/config"
	"github.com/polynetwork/poly/core/payload"
	"github.com/polynetwork/poly/core/types"
	"github.com/polynetwork/poly/zzsym"
)

// zzC44JSONUnmarshal replaces encoding/json.Unmarshal (reflection, not executable): the vbft block info embedded
// in the header's ConsensusPayload is not interpreted; Block.Info stays the zero value.
func zzC44JSONUnmarshal(data []byte, v interface{}) error { return nil }

func zzC44Hash(tag string) common.Uint256 {
	var h common.Uint256
	copy(h[:], zzsym.Bytes(tag, 32))
	return h
}

func zzC44Tx(tag string) *types.Transaction {
	tx := &types.Transaction{TxType: types.Invoke, Nonce: zzsym.U32(tag + "nonce"), ChainID: zzsym.U64(tag + "chain"),
		Payload: &payload.InvokeCode{Code: zzsym.BytesChoose(tag+"code", 2)}, CoinType: types.ONG}
	copy(tx.Payer[:], zzsym.Bytes(tag+"payer", 20))
	sink := common.NewZeroCopySink(nil)
	tx.Serialization(sink)
	tx2, err := types.TransactionFromRawBytes(sink.Bytes())
	zzsym.Assert(err == nil, "a well-formed transaction decodes")
	return tx2
}

// zzC44Block builds a block whose header commits to its transactions; the proposer's signature comes first.
func zzC44Block(tag string, ntx int, signer int) *types.Block {
	h := &types.Header{ChainID: zzsym.U64(tag + "chain"), Timestamp: zzsym.U32(tag + "ts"), Height: zzsym.U32(tag + "height"),
		ConsensusData: zzsym.U64(tag + "cdata"), ConsensusPayload: []byte("{}")}
	h.PrevBlockHash = zzC44Hash(tag + "prev")
	h.CrossStateRoot = zzC44Hash(tag + "csroot")
	h.BlockRoot = zzC44Hash(tag + "blkroot")
	copy(h.NextBookkeeper[:], zzsym.Bytes(tag+"nextbk", 20))
	b := &types.Block{Header: h}
	for i := 0; i < ntx; i++ {
		b.Transactions = append(b.Transactions, zzC44Tx(tag+"tx."))
	}
	b.RebuildMerkleRoot()
	if signer >= 0 {
		id := b.Hash()
		h.Bookkeepers = []keypair.PublicKey{zzsym.PubKey(signer)}
		h.SigData = [][]byte{zzsym.Signature(tag+"sig", signer, id[:])}
	}
	return b
}

func zzC44Raw(b *types.Block) []byte {
	sink := common.NewZeroCopySink(nil)
	zzsym.Assert(b.Serialization(sink) == nil, "a well-formed block encodes")
	return append([]byte(nil), sink.Bytes()...)
}

// ZZ_C44_BlockRoundTrip: vbft Block, blockProposalMsg and BlockFetchRespMsg.
func ZZ_C44_BlockRoundTrip() {
	withEmpty := zzsym.Choose("empty", 2) == 1
	blk := &Block{Block: zzC44Block("b.", zzsym.Choose("ntx", 2), 0), Info: &vconfig.VbftBlockInfo{}}
	if withEmpty {
		blk.EmptyBlock = zzC44Block("e.", 0, 0)
	}
	raw, err := blk.Serialize()
	zzsym.Assert(err == nil, "vbft Block encodes")
	got := &Block{}
	err = got.Deserialize(raw)
	zzsym.Assert(err == nil, "vbft Block decodes its own encoding")
	if err != nil {
		return
	}
	zzsym.Assert(bytes.Equal(zzC44Raw(got.Block), zzC44Raw(blk.Block)), "vbft Block round trip: the block is unchanged")
	zzsym.Assert((got.EmptyBlock != nil) == withEmpty, "vbft Block round trip: the empty block is present exactly when it was sent")
	if withEmpty && got.EmptyBlock != nil {
		zzsym.Assert(bytes.Equal(zzC44Raw(got.EmptyBlock), zzC44Raw(blk.EmptyBlock)), "vbft Block round trip: the empty block is unchanged")
		zzsym.Cover("with-empty-block")
	}
	zzsym.Assert(got.getBlockNum() == blk.getBlockNum() && got.getPrevBlockHash() == blk.getPrevBlockHash(), "vbft Block round trip: height and previous hash")
	raw2, _ := got.Serialize()
	zzsym.Assert(bytes.Equal(raw2, raw), "vbft Block: re-encoding the decoded value gives the same bytes")

	// block proposal = the vbft block
	pm := &blockProposalMsg{Block: blk}
	praw, err := pm.Serialize()
	zzsym.Assert(err == nil && bytes.Equal(praw, raw), "blockProposalMsg encodes as its block")
	pm2 := &blockProposalMsg{}
	zzsym.Assert(pm2.UnmarshalJSON(praw) == nil, "blockProposalMsg decodes its own encoding")
	if pm2.Block != nil {
		zzsym.Assert(pm2.GetBlockNum() == pm.GetBlockNum() && pm2.Block.Block.Hash() == pm.Block.Block.Hash(), "blockProposalMsg round trip: height and block identity")
	}

	// block fetch response
	fm := &BlockFetchRespMsg{BlockNumber: zzsym.U32("f.num"), BlockHash: zzC44Hash("f.hash"), BlockData: blk}
	fraw, err := fm.Serialize()
	zzsym.Assert(err == nil, "BlockFetchRespMsg encodes")
	fm2 := &BlockFetchRespMsg{}
	err = fm2.Deserialize(fraw)
	zzsym.Assert(err == nil, "BlockFetchRespMsg decodes its own encoding")
	if err == nil {
		zzsym.Assert(fm2.BlockNumber == fm.BlockNumber && fm2.BlockHash == fm.BlockHash, "BlockFetchRespMsg round trip: number and hash")
		fraw2, _ := fm2.Serialize()
		zzsym.Assert(bytes.Equal(fraw2, fraw), "BlockFetchRespMsg: re-encoding the decoded value gives the same bytes")
	}
	zzsym.Cover("block-roundtrip")
}

func ZZ_C44_BlockRoundTrip_witness() {
	blk := &Block{Block: zzC44Block("b.", 0, 0), EmptyBlock: zzC44Block("e.", 0, 0), Info: &vconfig.VbftBlockInfo{}}
	raw, _ := blk.Serialize()
	got := &Block{}
	err := got.Deserialize(raw)
	zzsym.Assert(err != nil || got.EmptyBlock == nil || got.getBlockNum() != 77, "witness: a proposal at height 77 with an empty block round-trips")
}

// ZZ_C44_ProposalSignature: Verify(pub) accepts a proposal iff the first header signature of the block (and of
// the empty block when present) was made by pub over that block's identity; a header field changed in transit
// makes Verify fail (SHA-256 collision-free).
func ZZ_C44_ProposalSignature() {
	signer := zzsym.Choose("signer", 2)
	esigner := zzsym.Choose("esigner", 2)
	pub := zzsym.Choose("pub", 2)
	withEmpty := zzsym.Choose("empty", 2) == 1
	blk := &Block{Block: zzC44Block("b.", 0, signer), Info: &vconfig.VbftBlockInfo{}}
	if withEmpty {
		blk.EmptyBlock = zzC44Block("e.", 0, esigner)
	}
	pm := &blockProposalMsg{Block: blk}
	err := pm.Verify(zzsym.PubKey(pub))
	good := pub == signer && (!withEmpty || pub == esigner)
	if good {
		zzsym.Assert(err == nil, "Verify accepts a proposal whose block (and empty block) carry the proposer's signature over their identity")
		zzsym.Cover("proposal-accepted")
	} else {
		zzsym.Assert(err != nil, "Verify rejects a proposal signed by another key")
		zzsym.Cover("proposal-wrong-key")
		return
	}
	// in transit: encode, decode (fresh objects, no cached identity), change one header field of the block
	raw, _ := pm.Serialize()
	got := &blockProposalMsg{}
	if got.UnmarshalJSON(raw) != nil {
		return
	}
	zzsym.Assert(got.Verify(zzsym.PubKey(pub)) == nil, "the proposal still verifies after crossing the wire unchanged")
	fresh := &blockProposalMsg{}
	if fresh.UnmarshalJSON(raw) != nil {
		return
	}
	h := fresh.Block.Block.Header
	switch zzsym.Choose("field", 6) {
	case 0:
		v := zzsym.U32("new.height")
		zzsym.Assume(v != h.Height)
		h.Height = v
	case 1:
		v := zzsym.U32("new.ts")
		zzsym.Assume(v != h.Timestamp)
		h.Timestamp = v
	case 2:
		v := zzC44Hash("new.prev")
		zzsym.Assume(v != h.PrevBlockHash)
		h.PrevBlockHash = v
	case 3:
		v := zzC44Hash("new.txroot")
		zzsym.Assume(v != h.TransactionsRoot)
		h.TransactionsRoot = v
	case 4:
		v := zzsym.U64("new.cdata")
		zzsym.Assume(v != h.ConsensusData)
		h.ConsensusData = v
	case 5:
		var v common.Address
		copy(v[:], zzsym.Bytes("new.nextbk", 20))
		zzsym.Assume(v != h.NextBookkeeper)
		h.NextBookkeeper = v
	}
	zzsym.Assert(fresh.Verify(zzsym.PubKey(pub)) != nil, "Verify rejects a proposal whose block header differs from what was signed")
	zzsym.Cover("proposal-mutated")
}

func ZZ_C44_ProposalSignature_witness() {
	pm := &blockProposalMsg{Block: &Block{Block: zzC44Block("b.", 0, 1), Info: &vconfig.VbftBlockInfo{}}}
	zzsym.Assert(pm.Verify(zzsym.PubKey(1)) != nil, "witness: a correctly signed proposal verifies")
}
