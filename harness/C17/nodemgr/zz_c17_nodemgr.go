package node_manager

import (
	"bytes"

	"github.com/polynetwork/poly/common"
	"github.com/polynetwork/poly/native"
	"github.com/polynetwork/poly/native/service/utils"
	"github.com/polynetwork/poly/zzsym"
)

const zz17Kinds = 6

// Records reachable through an accessor. PEER_INDEX and BLACK_LIST are only written inline by handlers
// (same shape as PEER_APPLY with another tag) and are outside this harness.
func zz17Record(kind int, tag string) zz17Rec {
	r := zz17Rec{kind: kind}
	switch kind {
	case 0: // PEER_APPLY ‖ hex-decoded peer public key (variable length)
		pk := zz17VarBytes(tag+".pubkey", zz17Lens(32, 33))
		keys := zz17Keys(func(ns *native.NativeService) {
			err := putPeerApply(ns, &RegisterPeerParam{PeerPubkey: zz17HexEncode(pk)})
			zzsym.Assert(err == nil, "putPeerApply accepts a hex public key")
		})
		r.key, r.params = zz17Pick(keys, 0, PEER_APPLY, 20+len(PEER_APPLY)+len(pk)), [][]byte{pk}
	case 1: // PEER_POOL ‖ view
		view := zzsym.U32(tag + ".view")
		keys := zz17Keys(func(ns *native.NativeService) {
			putPeerPoolMap(ns, &PeerPoolMap{PeerPoolMap: map[string]*PeerPoolItem{}}, view)
		})
		r.key, r.params = zz17Pick(keys, 0, PEER_POOL, 20+len(PEER_POOL)+4), [][]byte{utils.GetUint32Bytes(view)}
	case 2: // VBFT_CONFIG
		keys := zz17Keys(func(ns *native.NativeService) { putConfig(ns, &Configuration{}) })
		r.key = zz17Pick(keys, 0, VBFT_CONFIG, 20+len(VBFT_CONFIG))
	case 3: // CANDIDITE_INDEX
		keys := zz17Keys(func(ns *native.NativeService) { putCandidateIndex(ns, zzsym.U32(tag+".idx")) })
		r.key = zz17Pick(keys, 0, CANDIDITE_INDEX, 20+len(CANDIDITE_INDEX))
	case 4: // GOVERNANCE_VIEW
		keys := zz17Keys(func(ns *native.NativeService) { putGovernanceView(ns, &GovernanceView{View: zzsym.U32(tag + ".v")}) })
		r.key = zz17Pick(keys, 0, GOVERNANCE_VIEW, 20+len(GOVERNANCE_VIEW))
	case 5: // CONSENSUS_SIGNS ‖ 32-byte digest
		var h common.Uint256
		copy(h[:], zzsym.Bytes(tag+".digest", 32))
		keys := zz17Keys(func(ns *native.NativeService) {
			putConsensusSigns(ns, h, &ConsensusSigns{SignsMap: map[common.Address]bool{}})
		})
		r.key, r.params = zz17Pick(keys, 0, CONSENSUS_SIGNS, 20+len(CONSENSUS_SIGNS)+32), [][]byte{h[:]}
	}
	return r
}

func ZZ_C17_NodeManagerKeys() {
	i, j := zz17Pair(zz17Kinds)
	zz17Check(utils.NodeManagerContractAddress, zz17Record(i, "a"), zz17Record(j, "b"))
	zzsym.Cover("pair-done")
}

func ZZ_C17_NodeManagerKeys_witness() {
	a, b := zz17Record(1, "a"), zz17Record(1, "b")
	zzsym.Assert(!bytes.Equal(a.key, b.key), "witness: equal parameters give equal keys")
}
