package storage

// C17 (a): contract execution writes through CacheDB only; every key that reaches the block layer and the
// persistent store carries the ST_STORAGE prefix, so ledger bookkeeping rows (any other prefix byte) are
// never created, overwritten or deleted - whatever bytes the contract puts into its keys.

import (
	"bytes"

	scom "github.com/polynetwork/poly/core/store/common"
	"github.com/polynetwork/poly/core/store/overlaydb"
	"github.com/polynetwork/poly/zzsym"
)

// ---- harness PersistStore (not under test): unordered slice + write batch ------------------

type zz17Store struct {
	keys, vals [][]byte
	bkeys      [][]byte
	bvals      [][]byte // nil value = delete
}

func (s *zz17Store) find(key []byte) int {
	for i := range s.keys {
		if bytes.Equal(s.keys[i], key) {
			return i
		}
	}
	return -1
}
func (s *zz17Store) Put(key []byte, value []byte) error {
	k := append([]byte(nil), key...)
	v := append([]byte(nil), value...)
	if i := s.find(key); i >= 0 {
		s.vals[i] = v
	} else {
		s.keys = append(s.keys, k)
		s.vals = append(s.vals, v)
	}
	return nil
}
func (s *zz17Store) Has(key []byte) (bool, error) { return s.find(key) >= 0, nil }
func (s *zz17Store) Get(key []byte) ([]byte, error) {
	if i := s.find(key); i >= 0 {
		return s.vals[i], nil
	}
	return nil, scom.ErrNotFound
}
func (s *zz17Store) Delete(key []byte) error {
	if i := s.find(key); i >= 0 {
		s.keys = append(s.keys[:i], s.keys[i+1:]...)
		s.vals = append(s.vals[:i], s.vals[i+1:]...)
	}
	return nil
}
func (s *zz17Store) NewBatch() { s.bkeys, s.bvals = nil, nil }
func (s *zz17Store) BatchPut(key []byte, value []byte) {
	s.bkeys = append(s.bkeys, append([]byte(nil), key...))
	s.bvals = append(s.bvals, append([]byte{}, value...))
}
func (s *zz17Store) BatchDelete(key []byte) {
	s.bkeys = append(s.bkeys, append([]byte(nil), key...))
	s.bvals = append(s.bvals, nil)
}
func (s *zz17Store) BatchCommit() error {
	for i := range s.bkeys {
		if s.bvals[i] == nil {
			s.Delete(s.bkeys[i])
		} else {
			s.Put(s.bkeys[i], s.bvals[i])
		}
	}
	s.bkeys, s.bvals = nil, nil
	return nil
}
func (s *zz17Store) Close() error { return nil }

type zz17StoreIter struct {
	keys, vals [][]byte
	pos        int
}

func (s *zz17Store) NewIterator(prefix []byte) scom.StoreIterator {
	it := &zz17StoreIter{pos: -1}
	for i := range s.keys {
		if bytes.HasPrefix(s.keys[i], prefix) {
			it.keys = append(it.keys, s.keys[i])
			it.vals = append(it.vals, s.vals[i])
		}
	}
	for i := 1; i < len(it.keys); i++ {
		for j := i; j > 0 && bytes.Compare(it.keys[j], it.keys[j-1]) < 0; j-- {
			it.keys[j], it.keys[j-1] = it.keys[j-1], it.keys[j]
			it.vals[j], it.vals[j-1] = it.vals[j-1], it.vals[j]
		}
	}
	return it
}
func (it *zz17StoreIter) Next() bool  { it.pos++; return it.pos < len(it.keys) }
func (it *zz17StoreIter) First() bool { it.pos = 0; return len(it.keys) > 0 }
func (it *zz17StoreIter) Key() []byte {
	if it.pos < 0 || it.pos >= len(it.keys) {
		return nil // like goleveldb: an exhausted iterator yields nil
	}
	return it.keys[it.pos]
}
func (it *zz17StoreIter) Value() []byte {
	if it.pos < 0 || it.pos >= len(it.keys) {
		return nil
	}
	return it.vals[it.pos]
}
func (it *zz17StoreIter) Release()     {}
func (it *zz17StoreIter) Error() error { return nil }


func zz17Setup() (st *zz17Store, ov *overlaydb.OverlayDB, rowK, rowV, opK [][]byte) {
	st = &zz17Store{}
	for i := 0; i < zzsym.Param("B"); i++ { // arbitrary ledger bookkeeping rows: any prefix but ST_STORAGE
		p := zzsym.U8("row.prefix")
		zzsym.Assume(p != byte(scom.ST_STORAGE))
		k := append([]byte{p}, zzsym.Bytes("row.key", zzsym.Choose("row.key.len", 3))...)
		v := zzsym.Bytes("row.val", 1)
		for _, earlier := range rowK {
			zzsym.Assume(!bytes.Equal(k, earlier)) // distinct rows
		}
		st.Put(k, v)
		rowK, rowV = append(rowK, k), append(rowV, v)
	}
	ov = overlaydb.NewOverlayDB(st)
	db := NewCacheDB(ov)
	for t := 0; t < zzsym.Param("T"); t++ {
		// contract-chosen key: ANY bytes, including ones that look like a bookkeeping prefix, and the empty key
		k := zzsym.Bytes("k", zzsym.Choose("k.len", 4))
		opK = append(opK, k)
		switch zzsym.Choose("op", 3) {
		case 0:
			db.Put(k, zzsym.Bytes("v", 1))
		case 1:
			db.Delete(k)
			zzsym.Cover("delete")
		case 2:
			db.Put(k, zzsym.Bytes("v", 1))
			db.Commit()
			db.Reset()
			zzsym.Cover("tx-boundary")
		}
	}
	db.Commit()
	return
}

func ZZ_C17_StorageConfinement() {
	st, ov, rowK, rowV, opK := zz17Setup()
	n := 0
	ov.GetWriteSet().ForEach(func(key, val []byte) {
		n++
		zzsym.Assert(len(key) >= 1 && key[0] == byte(scom.ST_STORAGE), "every key written by transaction execution is in the contract-storage namespace")
		found := false
		for _, k := range opK {
			if bytes.Equal(key[1:], k) {
				found = true
			}
		}
		zzsym.Assert(found, "the block write set holds only keys the contract wrote (prefix byte + contract key)")
	})
	zzsym.Assert(n >= 1, "writes reach the block layer")
	st.NewBatch()
	ov.CommitTo()
	zzsym.Assert(st.BatchCommit() == nil, "batch commit")
	for i := range rowK {
		v, err := st.Get(rowK[i])
		zzsym.Assert(err == nil && bytes.Equal(v, rowV[i]), "ledger bookkeeping rows are neither overwritten nor deleted by contract writes")
	}
	for i := range st.keys {
		isRow := false
		for _, rk := range rowK {
			if bytes.Equal(st.keys[i], rk) {
				isRow = true
			}
		}
		zzsym.Assert(isRow || st.keys[i][0] == byte(scom.ST_STORAGE), "no new row outside the contract-storage namespace appears")
	}
	zzsym.Cover("confined")
}

// Witness: contract keys may START with a bookkeeping prefix byte (only the added prefix confines them).
func ZZ_C17_StorageConfinement_witness() {
	_, ov, _, _, _ := zz17Setup()
	ov.GetWriteSet().ForEach(func(key, val []byte) {
		zzsym.Assert(len(key) < 2 || key[1] != byte(scom.SYS_CURRENT_BLOCK), "witness: a contract key may begin with the SYS_CURRENT_BLOCK byte")
	})
}
