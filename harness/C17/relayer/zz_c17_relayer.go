package relayer_manager

import (
	"bytes"

	"github.com/polynetwork/poly/common"
	"github.com/polynetwork/poly/native"
	"github.com/polynetwork/poly/native/service/utils"
	"github.com/polynetwork/poly/zzsym"
)

const zz17Kinds = 5

func zz17Record(kind int, tag string) zz17Rec {
	r := zz17Rec{kind: kind}
	switch kind {
	case 0: // RELAYER ‖ address
		var addr common.Address
		copy(addr[:], zzsym.Bytes(tag+".addr", 20))
		keys := zz17Keys(func(ns *native.NativeService) { putRelayer(ns, addr) })
		r.key, r.params = zz17Pick(keys, 0, RELAYER, 20+len(RELAYER)+20), [][]byte{addr[:]}
	case 1: // RELAYER_APPLY ‖ id (the id is the stored APPLY_ID counter)
		id := zzsym.U64(tag + ".id")
		keys := zz17Keys(func(ns *native.NativeService) {
			putApplyID(ns, id)
			putRelayerApply(ns, &RelayerListParam{})
		})
		r.key, r.params = zz17Pick(keys, 0, RELAYER_APPLY, 20+len(RELAYER_APPLY)+8), [][]byte{utils.GetUint64Bytes(id)}
	case 2: // RELAYER_REMOVE ‖ id
		id := zzsym.U64(tag + ".id")
		keys := zz17Keys(func(ns *native.NativeService) {
			putRemoveID(ns, id)
			putRelayerRemove(ns, &RelayerListParam{})
		})
		r.key, r.params = zz17Pick(keys, 0, RELAYER_REMOVE, 20+len(RELAYER_REMOVE)+8), [][]byte{utils.GetUint64Bytes(id)}
	case 3: // APPLY_ID
		keys := zz17Keys(func(ns *native.NativeService) { putApplyID(ns, zzsym.U64(tag+".v")) })
		r.key = zz17Pick(keys, 0, APPLY_ID, 20+len(APPLY_ID))
	case 4: // REMOVE_ID
		keys := zz17Keys(func(ns *native.NativeService) { putRemoveID(ns, zzsym.U64(tag+".v")) })
		r.key = zz17Pick(keys, 0, REMOVE_ID, 20+len(REMOVE_ID))
	}
	return r
}

func ZZ_C17_RelayerManagerKeys() {
	i, j := zz17Pair(zz17Kinds)
	zz17Check(utils.RelayerManagerContractAddress, zz17Record(i, "a"), zz17Record(j, "b"))
	zzsym.Cover("pair-done")
}

// Witness: two records of the same kind with equal parameters DO share a key.
func ZZ_C17_RelayerManagerKeys_witness() {
	a, b := zz17Record(0, "a"), zz17Record(0, "b")
	zzsym.Assert(!bytes.Equal(a.key, b.key), "witness: equal parameters give equal keys")
}
