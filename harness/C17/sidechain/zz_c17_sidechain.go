package side_chain_manager

import (
	"bytes"
	"math/big"

	"github.com/btcsuite/btcd/chaincfg"
	"github.com/btcsuite/btcd/txscript"
	"github.com/btcsuite/btcutil"

	"github.com/polynetwork/poly/common"
	"github.com/polynetwork/poly/native"
	"github.com/polynetwork/poly/native/service/utils"
	"github.com/polynetwork/poly/zzsym"
)

const zz17Kinds = 11

// REDEEM_SCRIPT (putBtcRedeemScript) is outside: the accessor first classifies a real BTC multisig script.
func zz17Record(kind int, tag string) zz17Rec {
	r := zz17Rec{kind: kind}
	u64 := func(n string) (uint64, []byte) { v := zzsym.U64(tag + n); return v, utils.GetUint64Bytes(v) }
	switch kind {
	case 0: // SIDE_CHAIN_APPLY ‖ chainid
		id, idb := u64(".chainid")
		keys := zz17Keys(func(ns *native.NativeService) { putSideChainApply(ns, &SideChain{ChainId: id}) })
		r.key, r.params = zz17Pick(keys, 0, SIDE_CHAIN_APPLY, 20+len(SIDE_CHAIN_APPLY)+8), [][]byte{idb}
	case 1: // SIDE_CHAIN ‖ chainid
		id, idb := u64(".chainid")
		keys := zz17Keys(func(ns *native.NativeService) { PutSideChain(ns, &SideChain{ChainId: id}) })
		r.key, r.params = zz17Pick(keys, 0, SIDE_CHAIN, 20+len(SIDE_CHAIN)+8), [][]byte{idb}
	case 2: // UPDATE_SIDE_CHAIN_REQUEST ‖ chainid
		id, idb := u64(".chainid")
		keys := zz17Keys(func(ns *native.NativeService) { putUpdateSideChain(ns, &SideChain{ChainId: id}) })
		r.key, r.params = zz17Pick(keys, 0, UPDATE_SIDE_CHAIN_REQUEST, 20+len(UPDATE_SIDE_CHAIN_REQUEST)+8), [][]byte{idb}
	case 3: // QUIT_SIDE_CHAIN_REQUEST ‖ chainid
		id, idb := u64(".chainid")
		keys := zz17Keys(func(ns *native.NativeService) { putQuitSideChain(ns, id) })
		r.key, r.params = zz17Pick(keys, 0, QUIT_SIDE_CHAIN_REQUEST, 20+len(QUIT_SIDE_CHAIN_REQUEST)+8), [][]byte{idb}
	case 4: // REDEEM_BIND ‖ redeemChainID ‖ contractChainID ‖ redeemKey (variable)
		rc, rcb := u64(".redeemchain")
		cc, ccb := u64(".contractchain")
		rk := zz17VarBytes(tag+".redeemkey", zz17Lens(8, 9, 16))
		keys := zz17Keys(func(ns *native.NativeService) { putContractBind(ns, rc, cc, rk, []byte{1}, 0) })
		r.key, r.params = zz17Pick(keys, 0, REDEEM_BIND, 20+len(REDEEM_BIND)+16+len(rk)), [][]byte{rcb, ccb, rk}
	case 5: // BIND_SIGN_INFO ‖ message (variable)
		msg := zz17VarBytes(tag+".message", zz17Lens(8, 9, 16))
		keys := zz17Keys(func(ns *native.NativeService) {
			putBindSignInfo(ns, msg, &BindSignInfo{BindSignInfo: map[string][]byte{}})
		})
		r.key, r.params = zz17Pick(keys, 0, BIND_SIGN_INFO, 20+len(BIND_SIGN_INFO)+len(msg)), [][]byte{msg}
	case 6: // BTC_TX_PARAM ‖ redeemKey (variable) ‖ redeemChainId
		rk := zz17VarBytes(tag+".redeemkey", zz17Lens(8, 9, 16))
		rc, rcb := u64(".redeemchain")
		keys := zz17Keys(func(ns *native.NativeService) { putBtcTxParam(ns, rk, rc, &BtcTxParamDetial{}) })
		r.key, r.params = zz17Pick(keys, 0, BTC_TX_PARAM, 20+len(BTC_TX_PARAM)+len(rk)+8), [][]byte{rk, rcb}
	case 7: // ASSET_BIND ‖ chainid
		id, idb := u64(".chainid")
		keys := zz17Keys(func(ns *native.NativeService) { PutAssetBind(ns, id, &AssetBind{}) })
		r.key, r.params = zz17Pick(keys, 0, ASSET_BIND, 20+len(ASSET_BIND)+8), [][]byte{idb}
	case 8: // FEE ‖ chainid
		id, idb := u64(".chainid")
		keys := zz17Keys(func(ns *native.NativeService) { PutFee(ns, id, &Fee{Fee: new(big.Int)}) })
		r.key, r.params = zz17Pick(keys, 0, FEE, 20+len(FEE)+8), [][]byte{idb}
	case 9: // FEE_INFO ‖ chainid ‖ view
		id, idb := u64(".chainid")
		view, vb := u64(".view")
		keys := zz17Keys(func(ns *native.NativeService) {
			PutFeeInfo(ns, id, view, &FeeInfo{FeeInfo: map[common.Address]*big.Int{}})
		})
		r.key, r.params = zz17Pick(keys, 0, FEE_INFO, 20+len(FEE_INFO)+16), [][]byte{idb, vb}
	case 10: // SIDE_CHAIN ‖ chainid, reached through PutRippleExtraInfo (rewrites the side-chain record)
		id, idb := u64(".chainid")
		keys := zz17Keys(func(ns *native.NativeService) {
			PutSideChain(ns, &SideChain{ChainId: id})
			err := PutRippleExtraInfo(ns, id, &RippleExtraInfo{ReserveAmount: new(big.Int)})
			zzsym.Assert(err == nil, "PutRippleExtraInfo finds the side chain it was given")
		})
		r.kind = 1
		r.key, r.params = zz17Pick(keys, 0, SIDE_CHAIN, 20+len(SIDE_CHAIN)+8), [][]byte{idb}
	}
	return r
}

func ZZ_C17_SideChainManagerKeys() {
	i, j := zz17Pair(zz17Kinds)
	zz17Check(utils.SideChainManagerContractAddress, zz17Record(i, "a"), zz17Record(j, "b"))
	zzsym.Cover("pair-done")
}

func ZZ_C17_SideChainManagerKeys_witness() {
	a, b := zz17Record(1, "a"), zz17Record(10, "b")
	zzsym.Assert(!bytes.Equal(a.key, b.key), "witness: equal parameters give equal keys")
}

// ---- a key built inline in a handler: RegisterRedeem's signature tally ---------------------------------------
// BIND_SIGN_INFO ‖ hash160(redeem) ‖ redeemChainID ‖ contractAddress ‖ contractChainID. The real RegisterRedeem
// runs with the BTC script classification and the signature verification replaced (spec overrides: the script is
// a 2-of-n multisig, one new valid signature); two requests whose tallies share a key must agree in all four
// parameters - otherwise signatures collected for one binding count towards another.

func zzExtractPkScriptAddrs(pkScript []byte, chainParams *chaincfg.Params) (txscript.ScriptClass, []btcutil.Address, int, error) {
	return txscript.MultiSigTy, nil, 2, nil
}

func zzVerifyRedeemRegister(param *RegisterRedeemParam, addrs []btcutil.Address) (map[string][]byte, error) {
	return map[string][]byte{"signer": {1}}, nil
}

func zz17RedeemRequest(tag string) zz17Rec {
	p := &RegisterRedeemParam{
		RedeemChainID:   zzsym.U64(tag + ".redeemchain"),
		ContractChainID: zzsym.U64(tag + ".contractchain"),
		Redeem:          zzsym.Bytes(tag+".redeem", 3),
		CVersion:        0,
		ContractAddress: zz17VarBytes(tag+".contract", zz17Lens(8, 20)),
		Signs:           [][]byte{{1}},
	}
	sink := common.NewZeroCopySink(nil)
	p.Serialization(sink)
	keys := zz17Keys(func(ns *native.NativeService) {
		ns2 := zzNative(ns.GetCacheDB(), sink.Bytes())
		_, err := RegisterRedeem(ns2)
		zzsym.Assert(err == nil, "a first signature for a new binding is accepted")
	})
	rk := btcutil.Hash160(p.Redeem)
	r := zz17Rec{kind: 5}
	r.key = zz17Pick(keys, 0, BIND_SIGN_INFO, 20+len(BIND_SIGN_INFO)+20+8+len(p.ContractAddress)+8)
	r.params = [][]byte{rk, utils.GetUint64Bytes(p.RedeemChainID), p.ContractAddress, utils.GetUint64Bytes(p.ContractChainID)}
	return r
}

func ZZ_C17_RegisterRedeemKeys() {
	a, b := zz17RedeemRequest("a"), zz17RedeemRequest("b")
	zz17Check(utils.SideChainManagerContractAddress, a, b)
	zzsym.Cover("redeem-pair-done")
}
