package ont

// C17 (b) for the header sync contract (one address shared by ~25 chain routers).
// The ont router's records are produced by its REAL accessors. The record shapes of the other routers are
// transcribed from their sources (native/service/header_sync/*/{utils,header_sync,state,cache}.go) as
// utils.ConcatKey(contract, tag, fields...) with the real tag constants; routers that use the same tag with the
// same field layout (e.g. GENESIS_HEADER ‖ chainID) count as one kind - the chain id selects the router.

import (
	"bytes"

	otypes "github.com/ontio/ontology/core/types"
	"github.com/polynetwork/poly/native"
	hscommon "github.com/polynetwork/poly/native/service/header_sync/common"
	"github.com/polynetwork/poly/native/service/utils"
	"github.com/polynetwork/poly/zzsym"
)

const zz17Kinds = 17

func zz17Record(kind int, tag string) zz17Rec {
	r := zz17Rec{kind: kind}
	contract := utils.HeaderSyncContractAddress
	cid := zzsym.U64(tag + ".chainid")
	cidb := utils.GetUint64Bytes(cid)
	switch kind {
	case 0, 1: // PutCrossChainMsg: CROSS_CHAIN_MSG ‖ chainID ‖ height4, CURRENT_MSG_HEIGHT ‖ chainID
		h := zzsym.U32(tag + ".height")
		keys := zz17Keys(func(ns *native.NativeService) { PutCrossChainMsg(ns, cid, &otypes.CrossChainMsg{Height: h}) })
		if kind == 0 {
			r.key, r.params = zz17Pick(keys, 0, hscommon.CROSS_CHAIN_MSG, 20+len(hscommon.CROSS_CHAIN_MSG)+12), [][]byte{cidb, utils.GetUint32Bytes(h)}
		} else {
			r.key, r.params = zz17Pick(keys, 0, hscommon.CURRENT_MSG_HEIGHT, 20+len(hscommon.CURRENT_MSG_HEIGHT)+8), [][]byte{cidb}
		}
	case 2, 3, 4: // PutBlockHeader: BLOCK_HEADER ‖ chainID ‖ hash32, HEADER_INDEX ‖ chainID ‖ height4, CURRENT_HEADER_HEIGHT ‖ chainID
		hdr := &otypes.Header{Height: zzsym.U32(tag + ".height")}
		hash := hdr.Hash()
		keys := zz17Keys(func(ns *native.NativeService) { PutBlockHeader(ns, cid, hdr) })
		switch kind {
		case 2:
			r.key, r.params = zz17Pick(keys, 0, hscommon.BLOCK_HEADER, 20+len(hscommon.BLOCK_HEADER)+40), [][]byte{cidb, hash[:]}
		case 3:
			r.key, r.params = zz17Pick(keys, 0, hscommon.HEADER_INDEX, 20+len(hscommon.HEADER_INDEX)+12), [][]byte{cidb, utils.GetUint32Bytes(hdr.Height)}
		case 4:
			r.key, r.params = zz17Pick(keys, 0, hscommon.CURRENT_HEADER_HEIGHT, 20+len(hscommon.CURRENT_HEADER_HEIGHT)+8), [][]byte{cidb}
		}
	case 5: // PutKeyHeights: KEY_HEIGHTS ‖ chainID
		keys := zz17Keys(func(ns *native.NativeService) { PutKeyHeights(ns, cid, &KeyHeights{}) })
		r.key, r.params = zz17Pick(keys, 0, hscommon.KEY_HEIGHTS, 20+len(hscommon.KEY_HEIGHTS)+8), [][]byte{cidb}
	case 6, 7: // putConsensusPeers: CONSENSUS_PEER ‖ chainID ‖ height4, CONSENSUS_PEER_BLOCK_HEIGHT ‖ chainID ‖ height4
		h := zzsym.U32(tag + ".height")
		keys := zz17Keys(func(ns *native.NativeService) {
			err := putConsensusPeers(ns, &ConsensusPeers{ChainID: cid, Height: h, PeerMap: map[string]*Peer{}})
			zzsym.Assert(err == nil, "putConsensusPeers on an empty store")
		})
		t := hscommon.CONSENSUS_PEER
		if kind == 7 {
			t = hscommon.CONSENSUS_PEER_BLOCK_HEIGHT
		}
		r.key, r.params = zz17Pick(keys, 0, t, 20+len(t)+12), [][]byte{cidb, utils.GetUint32Bytes(h)}
	// ---- transcribed shapes of the other routers ----
	case 8: // GENESIS_HEADER ‖ chainID (eth, bsc, heco, msc, hsc, okex?, polygon, pixie, bytom, starcoin, btc, zilliqa, harmony)
		r.key, r.params = utils.ConcatKey(contract, []byte(hscommon.GENESIS_HEADER), cidb), [][]byte{cidb}
	case 9: // HEADER_INDEX ‖ chainID ‖ 32-byte block hash (eth family, starcoin, zilliqa)
		h := zzsym.Bytes(tag+".hash", 32)
		r.key, r.params = utils.ConcatKey(contract, []byte(hscommon.HEADER_INDEX), cidb, h), [][]byte{cidb, h}
	case 10: // MAIN_CHAIN ‖ chainID ‖ height8
		h := utils.GetUint64Bytes(zzsym.U64(tag + ".height"))
		r.key, r.params = utils.ConcatKey(contract, []byte(hscommon.MAIN_CHAIN), cidb, h), [][]byte{cidb, h}
	case 11: // CONSENSUS_PEER ‖ chainID (neo, neo3, neo3legacy, quorum, harmony)
		r.key, r.params = utils.ConcatKey(contract, []byte(hscommon.CONSENSUS_PEER), cidb), [][]byte{cidb}
	case 12: // CONSENSUS_PEER_BLOCK_HEIGHT ‖ chainID (quorum)
		r.key, r.params = utils.ConcatKey(contract, []byte(hscommon.CONSENSUS_PEER_BLOCK_HEIGHT), cidb), [][]byte{cidb}
	case 13: // ETH_CACHE ‖ epoch8 (eth/cache.go) - no chain id
		r.key, r.params = utils.ConcatKey(contract, []byte(hscommon.ETH_CACHE), cidb), [][]byte{cidb}
	case 14: // EPOCH_SWITCH ‖ chainID (cosmos, okex, polygon heimdall)
		r.key, r.params = utils.ConcatKey(contract, []byte(hscommon.EPOCH_SWITCH), cidb), [][]byte{cidb}
	case 15: // POLYGON_SPAN ‖ chainID
		r.key, r.params = utils.ConcatKey(contract, []byte(hscommon.POLYGON_SPAN), cidb), [][]byte{cidb}
	case 16: // chainID ‖ "dsComm" ‖ blockNum8 (zilliqa, zilliqalegacy) - the only shape that starts with a parameter
		h := utils.GetUint64Bytes(zzsym.U64(tag + ".blocknum"))
		r.key, r.params = utils.ConcatKey(contract, cidb, []byte("dsComm"), h), [][]byte{cidb, h}
	}
	return r
}

func ZZ_C17_HeaderSyncKeys() {
	i, j := zz17Pair(zz17Kinds)
	zz17Check(utils.HeaderSyncContractAddress, zz17Record(i, "a"), zz17Record(j, "b"))
	zzsym.Cover("pair-done")
}

func ZZ_C17_HeaderSyncKeys_witness() {
	a, b := zz17Record(5, "a"), zz17Record(5, "b")
	zzsym.Assert(!bytes.Equal(a.key, b.key), "witness: equal parameters give equal keys")
}
