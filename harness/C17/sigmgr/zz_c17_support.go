package signature_manager

// C17 (b) support, copied into each contract package (bin-less: sed "s/^package PKG/package <name>/").
// Every storage accessor of a contract is run with symbolic parameters on the real CacheDB/OverlayDB
// stack, the key it wrote is read back from the block-layer write set, and z3 is asked for parameters
// that make the keys of two records equal.

import (
	"bytes"

	"github.com/polynetwork/poly/common"
	scom "github.com/polynetwork/poly/core/store/common"
	"github.com/polynetwork/poly/core/store/overlaydb"
	"github.com/polynetwork/poly/native"
	"github.com/polynetwork/poly/native/storage"
	"github.com/polynetwork/poly/zzsym"
)

// zz17Rec: one storage record = the contract key an accessor wrote + its kind + its logical parameters.
type zz17Rec struct {
	key    []byte
	kind   int
	params [][]byte
}

// zz17Keys runs f on a fresh storage stack, commits the transaction layer and returns the contract keys
// (ST_STORAGE prefix checked and stripped) that reached the block layer, in key order.
func zz17Keys(f func(ns *native.NativeService)) [][]byte {
	ov := overlaydb.NewOverlayDB(&zzStore{})
	db := storage.NewCacheDB(ov)
	f(zzNative(db, nil))
	db.Commit()
	var keys [][]byte
	ov.GetWriteSet().ForEach(func(k, v []byte) {
		zzsym.Assert(len(k) > 0 && k[0] == byte(scom.ST_STORAGE), "every key written by a contract accessor carries the contract-storage prefix")
		keys = append(keys, append([]byte(nil), k[1:]...))
	})
	return keys
}

// zz17Pick selects, among the keys an accessor wrote, the one of the intended kind: address ‖ tag ‖ paramLen bytes.
// (Accessors such as putRelayerApply also bump a counter record.) tagAt = offset of the tag after the address.
func zz17Pick(keys [][]byte, tagAt int, tag string, total int) []byte {
	var hit []byte
	n := 0
	for _, k := range keys {
		if len(k) == total && bytes.Equal(k[20+tagAt:20+tagAt+len(tag)], []byte(tag)) {
			hit = k
			n++
		}
	}
	zzsym.Assert(n == 1, "the accessor wrote exactly one key of the intended kind and shape")
	return hit
}

func zz17Check(contract common.Address, a, b zz17Rec) {
	zzsym.Assert(bytes.HasPrefix(a.key, contract[:]) && bytes.HasPrefix(b.key, contract[:]), "every record key starts with the contract's own address")
	if bytes.Equal(a.key, b.key) {
		zzsym.Assert(a.kind == b.kind, "two different record kinds never map to the same storage key")
		if a.kind == b.kind {
			for i := range a.params {
				zzsym.Assert(bytes.Equal(a.params[i], b.params[i]), "two records of the same kind with different parameters never map to the same storage key")
			}
		}
		zzsym.Cover("same-key")
	} else {
		zzsym.Cover("different-key")
	}
}

// zz17VarBytes: a variable-length parameter; every length in lens is explored.
func zz17VarBytes(name string, lens []int) []byte {
	return zzsym.Bytes(name, lens[zzsym.Choose(name+".len", len(lens))])
}

// zz17Lens: the lengths explored for variable-length key fields: 0..LMAX (spec parameter) plus the given extras.
func zz17Lens(extra ...int) []int {
	var out []int
	max := zzsym.Param("LMAX")
	for i := 0; i <= max; i++ {
		out = append(out, i)
	}
	for _, e := range extra {
		if e > max {
			out = append(out, e)
		}
	}
	return out
}

func zz17Pair(kinds int) (int, int) {
	i := zzsym.Choose("kindA", kinds)
	j := i + zzsym.Choose("kindB", kinds-i)
	return i, j
}

// ---- table-free hex (model of encoding/hex for symbolic data) ---------------------------------------
// encoding/hex decodes through a 256-entry lookup table, which turns every symbolic character into a
// 256-way case split. Specs that feed symbolic public keys through hex.DecodeString override it with
// zzHexDecodeString: the same function (lower/upper case digits, odd length and bad characters are errors)
// computed arithmetically.

func zz17HexEncode(b []byte) string {
	out := make([]byte, 2*len(b))
	for i, v := range b {
		hi, lo := v>>4, v&15
		out[2*i] = 48 + hi + 39*((hi+6)>>4) // '0'..'9','a'..'f'
		out[2*i+1] = 48 + lo + 39*((lo+6)>>4)
	}
	return string(out)
}

type zzHexErr struct{}

func (zzHexErr) Error() string { return "encoding/hex: invalid byte or odd length hex string" }

func zzHexNibble(c byte) (val, valid uint32) {
	d := uint32(c) - 48                       // '0'; wraps to a huge value below '0'
	l := uint32(c|0x20) - 97                  // 'a' / 'A'
	isDigit := ((d - 10) >> 31) & (1 ^ d>>31) // 1 iff 0 <= d < 10
	isAlpha := ((l - 6) >> 31) & (1 ^ l>>31)  // 1 iff 0 <= l < 6
	isAlpha &= 1 ^ ((uint32(c) - 64) >> 31)   // and c >= '@' (c|0x20 must not alias '!'..'&')
	return isDigit*d + isAlpha*(l+10), isDigit | isAlpha
}

func zzHexDecodeString(s string) ([]byte, error) {
	if len(s)%2 != 0 {
		return nil, zzHexErr{}
	}
	out := make([]byte, len(s)/2)
	ok := uint32(1)
	for i := range out {
		h, hv := zzHexNibble(s[2*i])
		l, lv := zzHexNibble(s[2*i+1])
		out[i] = byte(h<<4 | l)
		ok &= hv & lv
	}
	if ok == 0 {
		return nil, zzHexErr{}
	}
	return out, nil
}
