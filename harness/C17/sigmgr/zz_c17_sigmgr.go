package signature_manager

import (
	"bytes"

	"github.com/polynetwork/poly/native"
	"github.com/polynetwork/poly/native/service/utils"
	"github.com/polynetwork/poly/zzsym"
)

// The signature manager has a single record kind: SIG_INFO ‖ id (variable length).
func zz17Record(tag string) zz17Rec {
	id := zz17VarBytes(tag+".id", zz17Lens(32))
	keys := zz17Keys(func(ns *native.NativeService) { putSigInfo(ns, id, &SigInfo{SigInfo: map[string][]byte{}}) })
	return zz17Rec{kind: 0, key: zz17Pick(keys, 0, SIG_INFO, 20+len(SIG_INFO)+len(id)), params: [][]byte{id}}
}

func ZZ_C17_SignatureManagerKeys() {
	zz17Check(utils.SignatureManagerContractAddress, zz17Record("a"), zz17Record("b"))
	zzsym.Cover("pair-done")
}

func ZZ_C17_SignatureManagerKeys_witness() {
	a, b := zz17Record("a"), zz17Record("b")
	zzsym.Assert(!bytes.Equal(a.key, b.key), "witness: equal parameters give equal keys")
}
