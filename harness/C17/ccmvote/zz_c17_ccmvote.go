package consensus_vote

// Shape lemma for putVoteInfo (used by ZZ_C17_CrossChainManagerKeys).

import (
	"bytes"

	"github.com/polynetwork/poly/native"
	"github.com/polynetwork/poly/native/service/utils"
	"github.com/polynetwork/poly/zzsym"
)

func ZZ_C17_VoteKeyShapes() {
	id := zz17VarBytes("id", zz17Lens(32))
	keys := zz17Keys(func(ns *native.NativeService) { putVoteInfo(ns, id, &VoteInfo{VoteInfo: map[string]bool{}}) })
	zzsym.Assert(len(keys) == 1, "putVoteInfo writes one key")
	zzsym.Assert(bytes.Equal(keys[0], utils.ConcatKey(utils.CrossChainManagerContractAddress, []byte(VOTE_INFO), id)), "the accessor writes exactly the key shape used in the contract-wide injectivity check")
	zzsym.Cover("shape-done")
}

func ZZ_C17_VoteKeyShapes_witness() {
	id := zzsym.Bytes("id", 2)
	keys := zz17Keys(func(ns *native.NativeService) { putVoteInfo(ns, id, &VoteInfo{VoteInfo: map[string]bool{}}) })
	zzsym.Assert(!bytes.Equal(keys[0], utils.ConcatKey(utils.CrossChainManagerContractAddress, []byte(VOTE_INFO), id)), "witness: the shape is met")
}
