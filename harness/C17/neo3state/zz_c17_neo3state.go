package neo3_state_manager

import (
	"bytes"

	"github.com/polynetwork/poly/native"
	"github.com/polynetwork/poly/native/service/utils"
	"github.com/polynetwork/poly/zzsym"
)

const zz17Kinds = 5

func zz17Record(kind int, tag string) zz17Rec {
	r := zz17Rec{kind: kind}
	switch kind {
	case 0: // STATE_VALIDATOR
		keys := zz17Keys(func(ns *native.NativeService) {
			err := putStateValidators(ns, []string{string(zzsym.Bytes(tag+".sv", 2))})
			zzsym.Assert(err == nil, "putStateValidators on an empty store")
		})
		r.key = zz17Pick(keys, 0, STATE_VALIDATOR, 20+len(STATE_VALIDATOR))
	case 1: // STATE_VALIDATOR_APPLY ‖ id (the id is the stored counter)
		id := zzsym.U64(tag + ".id")
		keys := zz17Keys(func(ns *native.NativeService) {
			putStateValidatorApplyID(ns, id)
			putStateValidatorApply(ns, &StateValidatorListParam{})
		})
		r.key, r.params = zz17Pick(keys, 0, STATE_VALIDATOR_APPLY, 20+len(STATE_VALIDATOR_APPLY)+8), [][]byte{utils.GetUint64Bytes(id)}
	case 2: // STATE_VALIDATOR_REMOVE ‖ id
		id := zzsym.U64(tag + ".id")
		keys := zz17Keys(func(ns *native.NativeService) {
			putStateValidatorRemoveID(ns, id)
			putStateValidatorRemove(ns, &StateValidatorListParam{})
		})
		r.key, r.params = zz17Pick(keys, 0, STATE_VALIDATOR_REMOVE, 20+len(STATE_VALIDATOR_REMOVE)+8), [][]byte{utils.GetUint64Bytes(id)}
	case 3: // STATE_VALIDATOR_APPLY_ID
		keys := zz17Keys(func(ns *native.NativeService) { putStateValidatorApplyID(ns, zzsym.U64(tag+".v")) })
		r.key = zz17Pick(keys, 0, STATE_VALIDATOR_APPLY_ID, 20+len(STATE_VALIDATOR_APPLY_ID))
	case 4: // STATE_VALIDATOR_REMOVE_ID
		keys := zz17Keys(func(ns *native.NativeService) { putStateValidatorRemoveID(ns, zzsym.U64(tag+".v")) })
		r.key = zz17Pick(keys, 0, STATE_VALIDATOR_REMOVE_ID, 20+len(STATE_VALIDATOR_REMOVE_ID))
	}
	return r
}

func ZZ_C17_Neo3StateManagerKeys() {
	i, j := zz17Pair(zz17Kinds)
	zz17Check(utils.Neo3StateManagerContractAddress, zz17Record(i, "a"), zz17Record(j, "b"))
	zzsym.Cover("pair-done")
}

func ZZ_C17_Neo3StateManagerKeys_witness() {
	a, b := zz17Record(1, "a"), zz17Record(1, "b")
	zzsym.Assert(!bytes.Equal(a.key, b.key), "witness: equal parameters give equal keys")
}
