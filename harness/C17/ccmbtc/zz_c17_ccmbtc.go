package btc

// Shape lemma for the btc handler's unexported accessors (used by ZZ_C17_CrossChainManagerKeys).

import (
	"bytes"

	"github.com/polynetwork/poly/native"
	"github.com/polynetwork/poly/native/service/utils"
	"github.com/polynetwork/poly/zzsym"
)

func ZZ_C17_BtcKeyShapes() {
	contract := utils.CrossChainManagerContractAddress
	lens := zz17Lens(32)
	var real, shape []byte
	switch zzsym.Choose("kind", 4) {
	case 0, 1:
		t := UTXOS
		if zzsym.Bool("stxos") {
			t = STXOS
		}
		id := zzsym.U64("chainid")
		k := zz17VarBytes("txokey", lens)
		keys := zz17Keys(func(ns *native.NativeService) { putTxos(t, ns, id, string(k), &Utxos{}) })
		zzsym.Assert(len(keys) == 1, "putTxos writes one key")
		real, shape = keys[0], utils.ConcatKey(contract, []byte(t), utils.GetUint64Bytes(id), k)
	case 2:
		id := zz17VarBytes("txid", lens)
		keys := zz17Keys(func(ns *native.NativeService) {
			putBtcMultiSignInfo(ns, id, &MultiSignInfo{MultiSignInfo: map[string][][]byte{}})
		})
		zzsym.Assert(len(keys) == 1, "putBtcMultiSignInfo writes one key")
		real, shape = keys[0], utils.ConcatKey(contract, []byte(MULTI_SIGN_INFO), id)
	case 3:
		id := zz17VarBytes("txid", lens)
		keys := zz17Keys(func(ns *native.NativeService) { putBtcFromInfo(ns, id, &BtcFromInfo{}) })
		zzsym.Assert(len(keys) == 1, "putBtcFromInfo writes one key")
		real, shape = keys[0], utils.ConcatKey(contract, []byte(BTC_FROM_TX_PREFIX), id)
	}
	zzsym.Assert(bytes.Equal(real, shape), "the accessor writes exactly the key shape used in the contract-wide injectivity check")
	zzsym.Cover("shape-done")
}

func ZZ_C17_BtcKeyShapes_witness() {
	id := zzsym.Bytes("txid", 2)
	keys := zz17Keys(func(ns *native.NativeService) { putBtcFromInfo(ns, id, &BtcFromInfo{}) })
	zzsym.Assert(!bytes.Equal(keys[0], utils.ConcatKey(utils.CrossChainManagerContractAddress, []byte(BTC_FROM_TX_PREFIX), id)), "witness: the shape is met")
}
