#!/bin/bash
# regenerates the per-package copies of the shared C17 support: ./gen.sh <subdir> <package> [inside-node-manager]
set -e
cd "$(dirname "$0")/../.."
bin/gen-shared harness/C17/$1 $2 ${3:-}
sed "s/^package PKG/package $2/" harness/C17/shared/zz_c17_support.go > harness/C17/$1/zz_c17_support.go
