package ripple

// C17 (b) for the cross chain manager contract, whose records are written by several packages.
// The harness lives in package ripple (the entrance package cannot be loaded by the engine).
// Records of ripple and common are produced by the REAL accessor here. Records whose accessor is
// unexported in another package (consensus_vote, btc) enter as their key SHAPE utils.ConcatKey(contract, tag, fields...);
// spec_ccmvote.json / spec_ccmbtc.json prove inside those packages that the real accessor writes exactly that shape.

import (
	"bytes"

	"github.com/polynetwork/poly/native"
	"github.com/polynetwork/poly/native/service/cross_chain_manager/btc"
	scom "github.com/polynetwork/poly/native/service/cross_chain_manager/common"
	"github.com/polynetwork/poly/native/service/cross_chain_manager/consensus_vote"
	"github.com/polynetwork/poly/native/service/utils"
	"github.com/polynetwork/poly/zzsym"
)

const zz17Kinds = 11

func zz17Record(kind int, tag string) zz17Rec {
	r := zz17Rec{kind: kind}
	contract := utils.CrossChainManagerContractAddress
	lens := zz17Lens(8, 32)
	u64 := func(n string) (uint64, []byte) { v := zzsym.U64(tag + n); return v, utils.GetUint64Bytes(v) }
	switch kind {
	case 0: // REQUEST ‖ toChainID ‖ txHash
		id, idb := u64(".chainid")
		h := zz17VarBytes(tag+".txhash", lens)
		// shape transcribed from cross_chain_manager/entrance.go PutRequest (that package cannot be loaded by the
		// engine: go-ethereum core/types init fails, see report)
		r.key, r.params = utils.ConcatKey(contract, []byte(scom.REQUEST), idb, h), [][]byte{idb, h}
		_ = id
	case 1: // DONE_TX ‖ chainID ‖ crossChainID
		id, idb := u64(".chainid")
		c := zz17VarBytes(tag+".crosschainid", lens)
		keys := zz17Keys(func(ns *native.NativeService) { scom.PutDoneTx(ns, c, id) })
		r.key, r.params = zz17Pick(keys, 0, scom.DONE_TX, 20+len(scom.DONE_TX)+8+len(c)), [][]byte{idb, c}
	case 2: // BLACKED_CHAIN ‖ chainID
		id, idb := u64(".chainid")
		keys := zz17Keys(func(ns *native.NativeService) { scom.PutBlackChain(ns, id) })
		r.key, r.params = zz17Pick(keys, 0, scom.BLACKED_CHAIN, 20+len(scom.BLACKED_CHAIN)+8), [][]byte{idb}
	case 3: // MULTISIGN_INFO ‖ id (ripple)
		id := zz17VarBytes(tag+".id", lens)
		keys := zz17Keys(func(ns *native.NativeService) {
			PutMultisignInfo(ns, string(id), &MultisignInfo{SigMap: map[string]bool{}})
		})
		r.key, r.params = zz17Pick(keys, 0, scom.MULTISIGN_INFO, 20+len(scom.MULTISIGN_INFO)+len(id)), [][]byte{id}
	case 4: // RIPPLE_TX_INFO ‖ chainID ‖ txHash
		id, idb := u64(".chainid")
		h := zz17VarBytes(tag+".txhash", lens)
		keys := zz17Keys(func(ns *native.NativeService) { PutTxJsonInfo(ns, id, h, "{}") })
		r.key, r.params = zz17Pick(keys, 0, scom.RIPPLE_TX_INFO, 20+len(scom.RIPPLE_TX_INFO)+8+len(h)), [][]byte{idb, h}
	case 5: // VOTE_INFO ‖ id (shape; lemma ZZ_C17_VoteKeyShapes)
		id := zz17VarBytes(tag+".id", lens)
		r.key, r.params = utils.ConcatKey(contract, []byte(consensus_vote.VOTE_INFO), id), [][]byte{id}
	case 6, 7: // UTXOS / STXOS ‖ chainID ‖ txoKey (shape; lemma ZZ_C17_BtcKeyShapes)
		id, idb := u64(".chainid")
		k := zz17VarBytes(tag+".txokey", lens)
		t := btc.UTXOS
		if kind == 7 {
			t = btc.STXOS
		}
		r.key, r.params = utils.ConcatKey(contract, []byte(t), idb, k), [][]byte{idb, k}
		_ = id
	case 8: // btc MULTI_SIGN_INFO ‖ txid (shape)
		id := zz17VarBytes(tag+".txid", lens)
		r.key, r.params = utils.ConcatKey(contract, []byte(btc.MULTI_SIGN_INFO), id), [][]byte{id}
	case 9: // BTC_FROM_TX_PREFIX ‖ txid (shape)
		id := zz17VarBytes(tag+".txid", lens)
		r.key, r.params = utils.ConcatKey(contract, []byte(btc.BTC_FROM_TX_PREFIX), id), [][]byte{id}
	case 10: // BTC_TX_PREFIX ‖ txhash (shape; written inline in btc_handler.go makeBtcTx, read in MultiSign)
		id := zz17VarBytes(tag+".txhash", lens)
		r.key, r.params = utils.ConcatKey(contract, []byte(btc.BTC_TX_PREFIX), id), [][]byte{id}
	}
	return r
}

func ZZ_C17_CrossChainManagerKeys() {
	i, j := zz17Pair(zz17Kinds)
	zz17Check(utils.CrossChainManagerContractAddress, zz17Record(i, "a"), zz17Record(j, "b"))
	zzsym.Cover("pair-done")
}

func ZZ_C17_CrossChainManagerKeys_witness() {
	a, b := zz17Record(2, "a"), zz17Record(2, "b")
	zzsym.Assert(!bytes.Equal(a.key, b.key), "witness: equal parameters give equal keys")
}
