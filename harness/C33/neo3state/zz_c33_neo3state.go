package neo3_state_manager

import (
	"github.com/polynetwork/poly/common"
	"github.com/polynetwork/poly/native/service/utils"
	"github.com/polynetwork/poly/native/storage"
	"github.com/polynetwork/poly/zzsym"
)

func zzAddr(name string) common.Address {
	var a common.Address
	copy(a[:], zzsym.Bytes(name, 20))
	return a
}

func zzListInput(list []string, owner common.Address) []byte {
	p := &StateValidatorListParam{StateValidators: list, Address: owner}
	sink := common.NewZeroCopySink(nil)
	p.Serialization(sink)
	return sink.Bytes()
}

func zzApproveInput(id uint64, who common.Address) []byte {
	p := &ApproveStateValidatorParam{ID: id, Address: who}
	sink := common.NewZeroCopySink(nil)
	p.Serialization(sink)
	return sink.Bytes()
}

func zzValidators(db *storage.CacheDB) []string {
	raw, err := getStateValidators(zzNative(db, nil))
	if err != nil {
		panic("zz: getStateValidators")
	}
	l, err := DeserializeStringArray(raw)
	if err != nil {
		panic("zz: DeserializeStringArray")
	}
	return l
}

func zzPendingRaw(db *storage.CacheDB, prefix string, id uint64) []byte {
	v, err := db.Get(utils.ConcatKey(utils.Neo3StateManagerContractAddress, []byte(prefix), utils.GetUint64Bytes(id)))
	if err != nil {
		panic("zz: db.Get")
	}
	return v
}

// state: validator list ["sv-old"], one pending request (id 0) of the chosen kind, filed by a symbolic owner through
// the real request method; pool = validator 0 alone.
func zzFiled(remove bool) (db *storage.CacheDB, approve func(id uint64) error, pending func(id uint64) bool) {
	db = zzNewCacheDB()
	zzConsensusPool(db, 1)
	owner := zzAddr("owner")
	v0 := zzValidatorAddr(0)
	zzsym.Assert(putStateValidators(zzNative(db, nil), []string{"sv-old"}) == nil, "setup")
	var err error
	if remove {
		_, err = RemoveStateValidator(zzNative(db, zzListInput([]string{"sv-old"}, owner), owner))
	} else {
		_, err = RegisterStateValidator(zzNative(db, zzListInput([]string{"sv-new"}, owner), owner))
	}
	zzsym.Assert(err == nil, "owner can file the request")
	approve = func(id uint64) error {
		var err error
		if remove {
			_, err = ApproveRemoveStateValidator(zzNative(db, zzApproveInput(id, v0), v0))
		} else {
			_, err = ApproveRegisterStateValidator(zzNative(db, zzApproveInput(id, v0), v0))
		}
		return err
	}
	pending = func(id uint64) bool {
		if remove {
			p, _ := getStateValidatorRemove(zzNative(db, nil), id)
			return p != nil || zzPendingRaw(db, STATE_VALIDATOR_REMOVE, id) != nil
		}
		p, _ := getStateValidatorApply(zzNative(db, nil), id)
		return p != nil || zzPendingRaw(db, STATE_VALIDATOR_APPLY, id) != nil
	}
	return
}

func zzEffect(db *storage.CacheDB, remove bool) bool {
	l := zzValidators(db)
	if remove {
		return len(l) == 0
	}
	return len(l) == 2 && l[0] == "sv-old" && l[1] == "sv-new"
}

// ZZ_C33_StateValidatorConsumed: the approved request (register or remove) is applied and no longer pending.
func ZZ_C33_StateValidatorConsumed() {
	remove := zzsym.Bool("removal")
	db, approve, pending := zzFiled(remove)
	zzsym.Assert(pending(0), "the filed request is pending under id 0")
	err := approve(0)
	zzsym.Assert(err == nil, "approval by the quorum succeeds")
	zzsym.Assert(zzEffect(db, remove), "the approved change is applied to the state-validator list")
	zzsym.Assert(!pending(0), "approved request is no longer pending")
	if remove {
		zzsym.Cover("remove-consumed")
	} else {
		zzsym.Cover("register-consumed")
	}
}

func ZZ_C33_StateValidatorConsumed_witness() {
	remove := zzsym.Bool("removal")
	db, approve, _ := zzFiled(remove)
	approve(0)
	zzsym.Assert(!zzEffect(db, remove), "WITNESS: the approved change is applied")
}

// ZZ_C33_StateValidatorSecondRound: after the request was consumed, another approval round for the same id fails and
// leaves the store unchanged (and so does an approval for an id that was never filed).
func ZZ_C33_StateValidatorSecondRound() {
	remove := zzsym.Bool("removal")
	db, approve, _ := zzFiled(remove)
	id := zzsym.U64("id")
	if id == 0 {
		zzsym.Assert(approve(0) == nil, "approval by the quorum succeeds")
		zzsym.Cover("second-round")
	} else {
		zzsym.Cover("wrong-id")
	}
	before := zzWriteSet(db)
	err := approve(id) // id 0: already consumed; other ids: never filed
	zzsym.Assert(err != nil, "an approval round for a request that is not pending fails")
	zzsym.Assert(zzSameWriteSet(before, zzWriteSet(db)), "a failed approval leaves the store unchanged")
}
