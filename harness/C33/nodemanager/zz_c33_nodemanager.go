package node_manager

import (
	"encoding/hex"

	"github.com/polynetwork/poly/common"
	"github.com/polynetwork/poly/native/service/utils"
	"github.com/polynetwork/poly/native/storage"
	"github.com/polynetwork/poly/zzsym"
)

func zzAddr(name string) common.Address {
	var a common.Address
	copy(a[:], zzsym.Bytes(name, 20))
	return a
}

func zzPeerInput(pubkey string, who common.Address) []byte {
	sink := common.NewZeroCopySink(nil)
	(&PeerParam{PeerPubkey: pubkey, Address: who}).Serialization(sink)
	return sink.Bytes()
}

func zzPoolItem(db *storage.CacheDB, pubkey string) *PeerPoolItem {
	m, err := GetPeerPoolMap(zzNative(db, nil), 1)
	if err != nil {
		panic("zz: pool")
	}
	return m.PeerPoolMap[pubkey]
}

// candidate key 1 applies (owner and the next free index symbolic), validator 0 (the whole pool) approves.
func zzCandidateApproved(approveKey int) (db *storage.CacheDB, cand string, owner common.Address, next uint32, err error) {
	db = zzNewCacheDB()
	zzConsensusPool(db, 1) // one validator: a single approval is a quorum (threshold logic is C32's subject)
	next = zzsym.U32("candidateIndex")
	putCandidateIndex(zzNative(db, nil), next)
	cand = zzValidatorKeyHex[1]
	owner = zzAddr("owner")
	sink := common.NewZeroCopySink(nil)
	(&RegisterPeerParam{PeerPubkey: cand, Address: owner}).Serialization(sink)
	_, rerr := RegisterCandidate(zzNative(db, sink.Bytes(), owner))
	zzsym.Assert(rerr == nil, "owner can apply with a key that is neither in the pool nor blacklisted")
	v0 := zzValidatorAddr(0)
	_, err = ApproveCandidate(zzNative(db, zzPeerInput(zzValidatorKeyHex[approveKey], v0), v0))
	return
}

// ZZ_C33_CandidateConsumed: an approved candidacy is consumed - no longer pending, a second approval round fails and
// changes nothing; the pool entry is the applied one.
func ZZ_C33_CandidateConsumed() {
	which := 1 + zzsym.Choose("approved-key", 2) // 1 = the applied key, 2 = a key nobody applied with
	db, cand, owner, next, err := zzCandidateApproved(which)
	if which != 1 {
		zzsym.Assert(err != nil, "approving a key that was never applied for fails")
		zzsym.Assert(zzPoolItem(db, zzValidatorKeyHex[2]) == nil && zzPoolItem(db, cand) == nil, "nothing enters the pool")
		zzsym.Cover("wrong-id")
		return
	}
	zzsym.Assert(err == nil, "approval by the quorum succeeds")
	ap, aerr := GetPeerApply(zzNative(db, nil), cand)
	zzsym.Assert(aerr == nil && ap == nil, "approved candidacy is no longer pending")
	it := zzPoolItem(db, cand)
	zzsym.Assert(it != nil && it.PeerPubkey == cand && it.Address == owner && it.Status == CandidateStatus && it.Index == next,
		"the pool entry is the applied candidate with the next free index")
	raw, _ := hex.DecodeString(cand)
	idx, _ := db.Get(utils.ConcatKey(utils.NodeManagerContractAddress, []byte(PEER_INDEX), raw))
	zzsym.Assert(idx != nil, "the index is recorded for the key")
	before := zzWriteSet(db)
	v0 := zzValidatorAddr(0)
	_, err = ApproveCandidate(zzNative(db, zzPeerInput(cand, v0), v0))
	zzsym.Assert(err != nil, "a second approval round for a consumed candidacy fails")
	zzsym.Assert(zzSameWriteSet(before, zzWriteSet(db)), "a failed approval leaves the store unchanged")
	zzsym.Cover("candidate-consumed")
}

func ZZ_C33_CandidateConsumed_witness() {
	db, cand, _, _, _ := zzCandidateApproved(1)
	zzsym.Assert(zzPoolItem(db, cand) == nil, "WITNESS: the approved candidate enters the pool")
}
