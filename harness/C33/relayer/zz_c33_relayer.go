package relayer_manager

import (
	"github.com/polynetwork/poly/common"
	"github.com/polynetwork/poly/zzsym"
)

func zzAddr(name string) common.Address {
	var a common.Address
	copy(a[:], zzsym.Bytes(name, 20))
	return a
}

func zzListInput(list []common.Address, owner common.Address) []byte {
	p := &RelayerListParam{AddressList: list, Address: owner}
	sink := common.NewZeroCopySink(nil)
	p.Serialization(sink)
	return sink.Bytes()
}

func zzApproveInput(id uint64, who common.Address) []byte {
	p := &ApproveRelayerParam{ID: id, Address: who}
	sink := common.NewZeroCopySink(nil)
	p.Serialization(sink)
	return sink.Bytes()
}

// An approved relayer registration is consumed: the pending request disappears, and a second
// approval round for the same id fails and changes nothing.
func ZZ_C33_RegisterRelayerConsumed() {
	db := zzNewCacheDB()
	zzConsensusPool(db, 1) // one validator: a single approval is a quorum (threshold logic is C32's subject)
	owner := zzAddr("owner")
	relayer := zzAddr("relayer")
	_, err := RegisterRelayer(zzNative(db, zzListInput([]common.Address{relayer}, owner), owner))
	zzsym.Assert(err == nil, "owner can file a relayer registration")
	id := zzsym.U64("id")
	v0 := zzValidatorAddr(0)
	_, err = ApproveRegisterRelayer(zzNative(db, zzApproveInput(id, v0), v0))
	if id != 0 {
		zzsym.Assert(err != nil, "approving an id that was never requested fails")
		zzsym.Cover("wrong-id")
		return
	}
	zzsym.Assert(err == nil, "approval by the quorum succeeds")
	_, perr := getRelayerApply(zzNative(db, nil), 0)
	zzsym.Assert(perr != nil, "approved registration request is no longer pending")
	before := zzWriteSet(db)
	_, err = ApproveRegisterRelayer(zzNative(db, zzApproveInput(0, v0), v0))
	zzsym.Assert(err != nil, "a second approval round for a consumed request fails")
	zzsym.Assert(zzSameWriteSet(before, zzWriteSet(db)), "a failed approval leaves the store unchanged")
	zzsym.Cover("register-consumed")
}

// Same for removal (F9: the pending RELAYER_REMOVE entry is never deleted).
func ZZ_C33_RemoveRelayerConsumed() {
	db := zzNewCacheDB()
	zzConsensusPool(db, 1)
	owner := zzAddr("owner")
	relayer := zzAddr("relayer")
	v0 := zzValidatorAddr(0)
	_, err := RegisterRelayer(zzNative(db, zzListInput([]common.Address{relayer}, owner), owner))
	zzsym.Assert(err == nil, "register")
	_, err = ApproveRegisterRelayer(zzNative(db, zzApproveInput(0, v0), v0))
	zzsym.Assert(err == nil, "approve register")
	_, err = RemoveRelayer(zzNative(db, zzListInput([]common.Address{relayer}, owner), owner))
	zzsym.Assert(err == nil, "owner can file a removal")
	_, err = ApproveRemoveRelayer(zzNative(db, zzApproveInput(0, v0), v0))
	zzsym.Assert(err == nil, "approve removal")
	_, perr := getRelayerRemove(zzNative(db, nil), 0)
	zzsym.Assert(perr != nil, "approved removal request is no longer pending")
	before := zzWriteSet(db)
	_, err = ApproveRemoveRelayer(zzNative(db, zzApproveInput(0, v0), v0))
	zzsym.Assert(err != nil, "a second approval round for a consumed removal fails")
	zzsym.Assert(zzSameWriteSet(before, zzWriteSet(db)), "a failed approval leaves the store unchanged")
	zzsym.Cover("remove-consumed")
}
