package side_chain_manager

import (
	"github.com/polynetwork/poly/common"
	"github.com/polynetwork/poly/zzsym"
)

func zzAddr(name string) common.Address {
	var a common.Address
	copy(a[:], zzsym.Bytes(name, 20))
	return a
}

// encoded by hand: RegisterSideChainParam.Serialization consults the global ledger for a fork height
func zzRegisterInput(owner common.Address, chainID, router uint64, name string, btw uint64, ccmc, extra []byte) []byte {
	sink := common.NewZeroCopySink(nil)
	sink.WriteVarBytes(owner[:])
	sink.WriteVarUint(chainID)
	sink.WriteVarUint(router)
	sink.WriteVarBytes([]byte(name))
	sink.WriteVarUint(btw)
	sink.WriteVarBytes(ccmc)
	sink.WriteVarBytes(extra)
	return sink.Bytes()
}

func zzChainidInput(chainID uint64, who common.Address) []byte {
	p := &ChainidParam{Chainid: chainID, Address: who}
	sink := common.NewZeroCopySink(nil)
	p.Serialization(sink)
	return sink.Bytes()
}

// register -> approve: the application is consumed and cannot be approved twice.
func ZZ_C33_RegisterSideChainConsumed() {
	db := zzNewCacheDB()
	zzConsensusPool(db, 1)
	owner := zzAddr("owner")
	v0 := zzValidatorAddr(0)
	chainID := zzsym.U64("chain")
	btw := zzsym.U64("btw")
	zzsym.Assume(btw != 0)
	in := zzRegisterInput(owner, chainID, zzsym.U64("router"), "c", btw, zzsym.Bytes("ccmc", 2), nil)
	_, err := RegisterSideChain(zzNative(db, in, owner))
	zzsym.Assert(err == nil, "owner can apply for a new chain id")
	other := zzsym.U64("other")
	_, err = ApproveRegisterSideChain(zzNative(db, zzChainidInput(other, v0), v0))
	if other != chainID {
		zzsym.Assert(err != nil, "approving a chain id that was not applied for fails")
		zzsym.Cover("wrong-id")
		return
	}
	zzsym.Assert(err == nil, "approval by the quorum succeeds")
	ap, _ := getSideChainApply(zzNative(db, nil), chainID)
	zzsym.Assert(ap == nil, "approved application is no longer pending")
	sc, _ := GetSideChain(zzNative(db, nil), chainID)
	zzsym.Assert(sc != nil && sc.ChainId == chainID && sc.Address == owner && sc.BlocksToWait == btw, "approved record is the applied one")
	before := zzWriteSet(db)
	_, err = ApproveRegisterSideChain(zzNative(db, zzChainidInput(chainID, v0), v0))
	zzsym.Assert(err != nil, "a second approval round for a consumed application fails")
	zzsym.Assert(zzSameWriteSet(before, zzWriteSet(db)), "failed approval leaves the store unchanged")
	zzsym.Cover("register-consumed")
}

func zzRegistered(db interface{}) {}

// update -> approve: consumed
func ZZ_C33_UpdateSideChainConsumed() {
	db := zzNewCacheDB()
	zzConsensusPool(db, 1)
	owner := zzAddr("owner")
	v0 := zzValidatorAddr(0)
	chainID := zzsym.U64("chain")
	_, err := RegisterSideChain(zzNative(db, zzRegisterInput(owner, chainID, 1, "c", 1, []byte{1}, nil), owner))
	zzsym.Assert(err == nil, "register")
	_, err = ApproveRegisterSideChain(zzNative(db, zzChainidInput(chainID, v0), v0))
	zzsym.Assert(err == nil, "approve register")
	nbtw := zzsym.U64("nbtw")
	zzsym.Assume(nbtw != 0)
	_, err = UpdateSideChain(zzNative(db, zzRegisterInput(owner, chainID, 2, "d", nbtw, []byte{2}, nil), owner))
	zzsym.Assert(err == nil, "owner can request an update")
	_, err = ApproveUpdateSideChain(zzNative(db, zzChainidInput(chainID, v0), v0))
	zzsym.Assert(err == nil, "approve update")
	up, _ := getUpdateSideChain(zzNative(db, nil), chainID)
	zzsym.Assert(up == nil, "approved update request is no longer pending")
	sc, _ := GetSideChain(zzNative(db, nil), chainID)
	zzsym.Assert(sc != nil && sc.BlocksToWait == nbtw && sc.Router == 2, "record replaced by the requested one")
	before := zzWriteSet(db)
	_, err = ApproveUpdateSideChain(zzNative(db, zzChainidInput(chainID, v0), v0))
	zzsym.Assert(err != nil, "a second approval round for a consumed update fails")
	zzsym.Assert(zzSameWriteSet(before, zzWriteSet(db)), "failed approval leaves the store unchanged")
	zzsym.Cover("update-consumed")
}

// quit -> approve: consumed (F8: the code deletes the wrong key)
func ZZ_C33_QuitSideChainConsumed() {
	db := zzNewCacheDB()
	zzConsensusPool(db, 1)
	owner := zzAddr("owner")
	v0 := zzValidatorAddr(0)
	chainID := zzsym.U64("chain")
	_, err := RegisterSideChain(zzNative(db, zzRegisterInput(owner, chainID, 1, "c", 1, []byte{1}, nil), owner))
	zzsym.Assert(err == nil, "register")
	_, err = ApproveRegisterSideChain(zzNative(db, zzChainidInput(chainID, v0), v0))
	zzsym.Assert(err == nil, "approve register")
	_, err = QuitSideChain(zzNative(db, zzChainidInput(chainID, owner), owner))
	zzsym.Assert(err == nil, "owner can request quit")
	_, err = ApproveQuitSideChain(zzNative(db, zzChainidInput(chainID, v0), v0))
	zzsym.Assert(err == nil, "approve quit")
	sc, _ := GetSideChain(zzNative(db, nil), chainID)
	zzsym.Assert(sc == nil, "approved quit removes the record")
	zzsym.Assert(getQuitSideChain(zzNative(db, nil), chainID) != nil, "approved quit request is no longer pending")
	before := zzWriteSet(db)
	_, err = ApproveQuitSideChain(zzNative(db, zzChainidInput(chainID, v0), v0))
	zzsym.Assert(err != nil, "a second approval round for a consumed quit fails")
	zzsym.Assert(zzSameWriteSet(before, zzWriteSet(db)), "failed approval leaves the store unchanged")
	zzsym.Cover("quit-consumed")
}
