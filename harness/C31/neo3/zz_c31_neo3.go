package neo3

// C31 (NEO N3 router, glue level): a validator change (new NextConsensus script hash) is taken only from a
// header at a higher index than the tracked one whose witness script hashes to the tracked NextConsensus and
// whose witness verifies over the header's signing message (network magic of the registered side chain and
// header hash).
//
// Real code: Neo3Handler.SyncBlockHeader, verifyHeader, getConsensusValByChainId / putConsensusValByChainId,
// NeoConsensus codec, NeoBlockHeader decoder and GetMessage (neo3-gogogo BinaryReader / BinaryWriter),
// Witness.GetScriptHash, side_chain_manager.GetSideChain (magic in ExtraInfo). SHA-256 / RIPEMD-160 are
// uninterpreted functions.
// Replaced through spec "overrides": encoding/binary.Read / Write (reflection; hand-written little-endian coders,
// as in C19) and neo3-gogogo's tx.VerifyMultiSignatureWitness: zzVerifyWitness records (message, witness) and
// returns a solver-chosen verdict. Not replayed natively.

import (
	"bytes"
	"encoding/binary"
	"errors"
	"io"

	"github.com/joeqian10/neo3-gogogo/block"
	"github.com/joeqian10/neo3-gogogo/helper"
	"github.com/joeqian10/neo3-gogogo/tx"
	"github.com/polynetwork/poly/common"
	"github.com/polynetwork/poly/native/service/governance/side_chain_manager"
	hscommon "github.com/polynetwork/poly/native/service/header_sync/common"
	"github.com/polynetwork/poly/zzsym"
)

func zzBinaryRead(r io.Reader, order binary.ByteOrder, data interface{}) error {
	n := 0
	switch d := data.(type) {
	case *uint8:
		n = 1
	case *uint16:
		n = 2
	case *uint32:
		n = 4
	case *uint64:
		n = 8
	case *helper.UInt160:
		n = 20
	case *helper.UInt256:
		n = 32
	case []byte:
		n = len(d)
	default:
		return errors.New("zz: binary.Read target not modelled")
	}
	buf := make([]byte, n)
	if _, err := io.ReadFull(r, buf); err != nil {
		return err
	}
	switch d := data.(type) {
	case *uint8:
		*d = buf[0]
	case *uint16:
		*d = order.Uint16(buf)
	case *uint32:
		*d = order.Uint32(buf)
	case *uint64:
		*d = order.Uint64(buf)
	case *helper.UInt160:
		d.Value1, d.Value2, d.Value3 = order.Uint64(buf), order.Uint64(buf[8:]), order.Uint32(buf[16:])
	case *helper.UInt256:
		d.Value1, d.Value2, d.Value3, d.Value4 = order.Uint64(buf), order.Uint64(buf[8:]), order.Uint64(buf[16:]), order.Uint64(buf[24:])
	case []byte:
		copy(d, buf)
	}
	return nil
}

func zzBinaryWrite(w io.Writer, order binary.ByteOrder, data interface{}) error {
	var buf []byte
	switch d := data.(type) {
	case uint8:
		buf = []byte{d}
	case uint16:
		buf = make([]byte, 2)
		order.PutUint16(buf, d)
	case uint32:
		buf = make([]byte, 4)
		order.PutUint32(buf, d)
	case uint64:
		buf = make([]byte, 8)
		order.PutUint64(buf, d)
	case *helper.UInt160:
		buf = make([]byte, 20)
		order.PutUint64(buf, d.Value1)
		order.PutUint64(buf[8:], d.Value2)
		order.PutUint32(buf[16:], d.Value3)
	case *helper.UInt256:
		buf = make([]byte, 32)
		order.PutUint64(buf, d.Value1)
		order.PutUint64(buf[8:], d.Value2)
		order.PutUint64(buf[16:], d.Value3)
		order.PutUint64(buf[24:], d.Value4)
	case []byte:
		buf = d
	default:
		return errors.New("zz: binary.Write value not modelled")
	}
	_, err := w.Write(buf)
	return err
}


type zzWitnessCall struct {
	msg     []byte
	witness *tx.Witness
	verdict bool
}

var zzCalls []zzWitnessCall

func zzVerifyWitness(msg []byte, w *tx.Witness) bool {
	v := zzsym.Bool("witness-verifies")
	zzCalls = append(zzCalls, zzWitnessCall{msg: append([]byte(nil), msg...), witness: w, verdict: v})
	return v
}

func zzU160(_, _, _ string) *helper.UInt160 {
	return &helper.UInt160{Value1: zzsym.U64("u160a"), Value2: zzsym.U64("u160b"), Value3: zzsym.U32("u160c")}
}

func zzNeoHeader() (*NeoBlockHeader, []byte) {
	bh := block.NewBlockHeader()
	bh.SetTimeStamp(zzsym.U64("ts"))
	bh.SetIndex(zzsym.U32("index"))
	bh.SetPrimaryIndex(zzsym.U8("primary"))
	bh.SetNextConsensus(zzU160("", "", ""))
	bh.SetPrevHash(&helper.UInt256{Value1: zzsym.U64("prev1"), Value4: zzsym.U64("prev4")})
	bh.Witness = &tx.Witness{InvocationScript: zzsym.Bytes("invocation", 2), VerificationScript: zzsym.Bytes("verification", 3)}
	h := &NeoBlockHeader{Header: bh}
	sink := common.NewZeroCopySink(nil)
	if err := h.Serialization(sink); err != nil {
		panic("zz: header serialization")
	}
	return h, sink.Bytes()
}

func ZZ_C31_Neo3ValidatorChange() {
	zzCalls = nil
	db := zzNewCacheDB()
	chain := uint64(4)
	ns := zzNative(db, nil)
	magic := zzsym.U32("magic")
	if side_chain_manager.PutSideChain(ns, &side_chain_manager.SideChain{ChainId: chain, Router: 14, Name: "neo3", BlocksToWait: 1, CCMCAddress: []byte{1},
		ExtraInfo: helper.UInt32ToBytes(magic)}) != nil {
		panic("zz: PutSideChain")
	}
	tracked := &NeoConsensus{ChainID: chain, Height: zzsym.U32("trackedheight"), NextConsensus: zzU160("", "", "")}
	neighbour := &NeoConsensus{ChainID: chain + 1, Height: 0, NextConsensus: zzU160("", "", "")}
	putConsensusValByChainId(ns, tracked)
	putConsensusValByChainId(ns, neighbour)

	n := 1 + zzsym.Choose("headers", zzsym.Param("HMAX"))
	var hdrs []*NeoBlockHeader
	p := &hscommon.SyncBlockHeaderParam{ChainID: chain}
	for i := 0; i < n; i++ {
		h, raw := zzNeoHeader()
		hdrs = append(hdrs, h)
		p.Headers = append(p.Headers, raw)
	}
	sink := common.NewZeroCopySink(nil)
	p.Serialization(sink)
	before := zzWriteSet(db)
	err := NewNeo3Handler().SyncBlockHeader(zzNative(db, sink.Bytes()))

	if err != nil {
		zzsym.Assert(zzSameWriteSet(before, zzWriteSet(db)), "a rejected batch changes nothing")
		zzsym.Cover("rejected")
		return
	}
	k := 0
	last := -1
	for i, h := range hdrs {
		if !h.GetNextConsensus().Equals(tracked.NextConsensus) && h.GetIndex() > tracked.Height {
			zzsym.Assert(k < len(zzCalls), "every header that proposes a validator change had its witness verified")
			if k >= len(zzCalls) {
				return
			}
			c := zzCalls[k]
			msg, merr := h.GetMessage(magic)
			zzsym.Assert(merr == nil && c.verdict && bytes.Equal(c.msg, msg) && bytes.Equal(c.witness.InvocationScript, h.Witness.InvocationScript) &&
				bytes.Equal(c.witness.VerificationScript, h.Witness.VerificationScript),
				"the witness of a header that proposes a validator change verifies over that header's signing message under the registered network magic")
			zzsym.Assert(h.Witness.GetScriptHash().Equals(tracked.NextConsensus), "the witness script of a header that proposes a validator change hashes to the tracked NextConsensus")
			k++
			last = i
		}
	}
	zzsym.Assert(k == len(zzCalls), "witness verification ran for the change-proposing headers only")
	after, gerr := getConsensusValByChainId(zzNative(db, nil), chain)
	zzsym.Assert(gerr == nil && after.ChainID == chain, "the tracked validator record stays readable")
	if last < 0 {
		zzsym.Assert(zzSameWriteSet(before, zzWriteSet(db)), "without a verified change-proposing header nothing changes")
		zzsym.Cover("no-change")
	} else {
		zzsym.Assert(after.Height == hdrs[last].GetIndex() && after.NextConsensus.Equals(hdrs[last].GetNextConsensus()) && after.Height > tracked.Height,
			"the recorded validator change is the one of a verified header at a higher index")
		zzsym.Cover("changed")
	}
	nb, nerr := getConsensusValByChainId(zzNative(db, nil), chain+1)
	zzsym.Assert(nerr == nil && nb.NextConsensus.Equals(neighbour.NextConsensus) && nb.Height == 0, "another chain's validator record is untouched")
}

func ZZ_C31_Neo3ValidatorChange_witness() {
	zzCalls = nil
	db := zzNewCacheDB()
	ns := zzNative(db, nil)
	side_chain_manager.PutSideChain(ns, &side_chain_manager.SideChain{ChainId: 4, Router: 14, Name: "neo3", BlocksToWait: 1, CCMCAddress: []byte{1}, ExtraInfo: helper.UInt32ToBytes(5)})
	tracked := &NeoConsensus{ChainID: 4, Height: zzsym.U32("trackedheight"), NextConsensus: zzU160("", "", "")}
	putConsensusValByChainId(ns, tracked)
	_, raw := zzNeoHeader()
	p := &hscommon.SyncBlockHeaderParam{ChainID: 4, Headers: [][]byte{raw}}
	sink := common.NewZeroCopySink(nil)
	p.Serialization(sink)
	err := NewNeo3Handler().SyncBlockHeader(zzNative(db, sink.Bytes()))
	after, _ := getConsensusValByChainId(zzNative(db, nil), 4)
	zzsym.Assert(err != nil || after.NextConsensus.Equals(tracked.NextConsensus), "witness: a validator change can be accepted")
}
