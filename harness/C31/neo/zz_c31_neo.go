package neo

// C31 (NEO router, glue level): a validator change (new NextConsensus script hash) is taken only from a
// header at a higher index than the tracked one whose witness script hashes to the tracked NextConsensus and
// whose witness verifies over the header's unsigned serialization.
//
// Real code: NEOHandler.SyncBlockHeader, verifyHeader, getConsensusValByChainId / putConsensusValByChainId,
// NeoConsensus codec, NeoBlockHeader decoder and GetMessage (neo-gogogo BinaryReader / BinaryWriter),
// Witness.GetScriptHash (SHA-256 and RIPEMD-160 as uninterpreted functions).
// Replaced through spec "overrides": encoding/binary.Read / Write (reflection; hand-written little-endian coders
// for the types the NEO header codec uses, as in C19) and neo-gogogo's tx.VerifyMultiSignatureWitness (third-party
// script parsing and ECDSA): zzVerifyWitness records (message, witness) and returns a solver-chosen verdict.
// Distinct-signer counting inside neo-gogogo is therefore outside. Not replayed natively.

import (
	"bytes"
	"encoding/binary"
	"errors"
	"io"

	"github.com/joeqian10/neo-gogogo/block"
	"github.com/joeqian10/neo-gogogo/helper"
	"github.com/joeqian10/neo-gogogo/tx"
	"github.com/polynetwork/poly/common"
	hscommon "github.com/polynetwork/poly/native/service/header_sync/common"
	"github.com/polynetwork/poly/zzsym"
)

func zzBinaryRead(r io.Reader, order binary.ByteOrder, data interface{}) error {
	n := 0
	switch d := data.(type) {
	case *uint8:
		n = 1
	case *uint16:
		n = 2
	case *uint32:
		n = 4
	case *uint64:
		n = 8
	case *helper.UInt160:
		n = 20
	case *helper.UInt256:
		n = 32
	case []byte:
		n = len(d)
	default:
		return errors.New("zz: binary.Read target not modelled")
	}
	buf := make([]byte, n)
	if _, err := io.ReadFull(r, buf); err != nil {
		return err
	}
	switch d := data.(type) {
	case *uint8:
		*d = buf[0]
	case *uint16:
		*d = order.Uint16(buf)
	case *uint32:
		*d = order.Uint32(buf)
	case *uint64:
		*d = order.Uint64(buf)
	case *helper.UInt160:
		copy(d[:], buf)
	case *helper.UInt256:
		copy(d[:], buf)
	case []byte:
		copy(d, buf)
	}
	return nil
}

func zzBinaryWrite(w io.Writer, order binary.ByteOrder, data interface{}) error {
	var buf []byte
	switch d := data.(type) {
	case uint8:
		buf = []byte{d}
	case uint16:
		buf = make([]byte, 2)
		order.PutUint16(buf, d)
	case uint32:
		buf = make([]byte, 4)
		order.PutUint32(buf, d)
	case uint64:
		buf = make([]byte, 8)
		order.PutUint64(buf, d)
	case helper.UInt160:
		buf = append(buf, d[:]...)
	case helper.UInt256:
		buf = append(buf, d[:]...)
	case []byte:
		buf = d
	default:
		return errors.New("zz: binary.Write value not modelled")
	}
	_, err := w.Write(buf)
	return err
}


type zzWitnessCall struct {
	msg     []byte
	witness *tx.Witness
	verdict bool
}

var zzCalls []zzWitnessCall

func zzVerifyWitness(msg []byte, w *tx.Witness) bool {
	v := zzsym.Bool("witness-verifies")
	zzCalls = append(zzCalls, zzWitnessCall{msg: append([]byte(nil), msg...), witness: w, verdict: v})
	return v
}

func zzNeoHeader() (*NeoBlockHeader, []byte) {
	bh := &block.BlockHeader{Version: 0, Timestamp: zzsym.U32("ts"), Index: zzsym.U32("index"), ConsensusData: zzsym.U64("cdata"),
		Witness: &tx.Witness{InvocationScript: zzsym.Bytes("invocation", 2), VerificationScript: zzsym.Bytes("verification", 3)}}
	copy(bh.NextConsensus[:], zzsym.Bytes("next", 20))
	copy(bh.PrevHash[:], zzsym.Bytes("prev", 4))
	h := &NeoBlockHeader{BlockHeader: bh}
	sink := common.NewZeroCopySink(nil)
	if err := h.Serialization(sink); err != nil {
		panic("zz: neo header serialization")
	}
	return h, sink.Bytes()
}

// ZZ_C31_NeoValidatorChange: tracked state (height, NextConsensus) arbitrary; a batch of 1..HMAX headers with
// arbitrary index, NextConsensus and witness scripts.
func ZZ_C31_NeoValidatorChange() {
	zzCalls = nil
	db := zzNewCacheDB()
	chain := uint64(4)
	tracked := &NeoConsensus{ChainID: chain, Height: zzsym.U32("trackedheight")}
	copy(tracked.NextConsensus[:], zzsym.Bytes("tracked", 20))
	neighbour := &NeoConsensus{ChainID: chain + 1, Height: 0}
	copy(neighbour.NextConsensus[:], zzsym.Bytes("neighbour", 20))
	ns := zzNative(db, nil)
	putConsensusValByChainId(ns, tracked)
	putConsensusValByChainId(ns, neighbour)

	n := 1 + zzsym.Choose("headers", zzsym.Param("HMAX"))
	var hdrs []*NeoBlockHeader
	p := &hscommon.SyncBlockHeaderParam{ChainID: chain}
	for i := 0; i < n; i++ {
		h, raw := zzNeoHeader()
		hdrs = append(hdrs, h)
		p.Headers = append(p.Headers, raw)
	}
	sink := common.NewZeroCopySink(nil)
	p.Serialization(sink)
	before := zzWriteSet(db)
	err := NewNEOHandler().SyncBlockHeader(zzNative(db, sink.Bytes()))

	if err != nil {
		zzsym.Assert(zzSameWriteSet(before, zzWriteSet(db)), "a rejected batch changes nothing")
		zzsym.Cover("rejected")
		return
	}
	// headers that propose a change: different NextConsensus, higher index than the tracked one
	k := 0
	last := -1
	for i, h := range hdrs {
		if h.NextConsensus != tracked.NextConsensus && h.Index > tracked.Height {
			zzsym.Assert(k < len(zzCalls), "every header that proposes a validator change had its witness verified")
			if k >= len(zzCalls) {
				return
			}
			c := zzCalls[k]
			msg, merr := h.GetMessage()
			zzsym.Assert(merr == nil && c.verdict && bytes.Equal(c.msg, msg) && bytes.Equal(c.witness.InvocationScript, h.Witness.InvocationScript) &&
				bytes.Equal(c.witness.VerificationScript, h.Witness.VerificationScript),
				"the witness of a header that proposes a validator change verifies over that header's unsigned serialization")
			zzsym.Assert(h.Witness.GetScriptHash() == tracked.NextConsensus, "the witness script of a header that proposes a validator change hashes to the tracked NextConsensus")
			k++
			last = i
		}
	}
	zzsym.Assert(k == len(zzCalls), "witness verification ran for the change-proposing headers only")
	after, gerr := getConsensusValByChainId(zzNative(db, nil), chain)
	zzsym.Assert(gerr == nil && after.ChainID == chain, "the tracked validator record stays readable")
	if last < 0 {
		zzsym.Assert(zzSameWriteSet(before, zzWriteSet(db)), "without a verified change-proposing header nothing changes")
		zzsym.Cover("no-change")
	} else {
		zzsym.Assert(after.Height == hdrs[last].Index && after.NextConsensus == hdrs[last].NextConsensus && after.Height > tracked.Height,
			"the recorded validator change is the one of a verified header at a higher index")
		zzsym.Cover("changed")
	}
	nb, nerr := getConsensusValByChainId(zzNative(db, nil), chain+1)
	zzsym.Assert(nerr == nil && nb.NextConsensus == neighbour.NextConsensus && nb.Height == 0, "another chain's validator record is untouched")
}

func ZZ_C31_NeoValidatorChange_witness() {
	zzCalls = nil
	db := zzNewCacheDB()
	tracked := &NeoConsensus{ChainID: 4, Height: zzsym.U32("trackedheight")}
	copy(tracked.NextConsensus[:], zzsym.Bytes("tracked", 20))
	putConsensusValByChainId(zzNative(db, nil), tracked)
	_, raw := zzNeoHeader()
	p := &hscommon.SyncBlockHeaderParam{ChainID: 4, Headers: [][]byte{raw}}
	sink := common.NewZeroCopySink(nil)
	p.Serialization(sink)
	err := NewNEOHandler().SyncBlockHeader(zzNative(db, sink.Bytes()))
	after, _ := getConsensusValByChainId(zzNative(db, nil), 4)
	zzsym.Assert(err != nil || after.NextConsensus == tracked.NextConsensus, "witness: a validator change can be accepted")
}
