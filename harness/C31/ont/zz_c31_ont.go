package ont

// C31 (Ontology router): the light client follows authenticated validator changes.
//
//   (a) a header is accepted only when it carries valid signatures of at least ceil(N/3) (the code's
//       len*3 >= N rule) DISTINCT members of the validator set recorded at the GREATEST key height below
//       the header's height;
//   (b) a new validator set is recorded only from an accepted header, at that header's height, and it is
//       exactly the announced set;
//   (c) afterwards the key-height list is strictly descending and FindKeyHeight(x) yields the greatest
//       recorded key height below x for every x, i.e. the new set governs the later heights.
//
// Real code under test: ONTHandler.SyncBlockHeader (parameter decoding, otypes.HeaderFromRawBytes,
// GetHeaderByHeight skip rule), verifyHeader, FindKeyHeight, GetKeyHeights / PutKeyHeights and the KeyHeights
// codec (the list is sorted big -> small each time it is written), getConsensusPeersByHeight, putConsensusPeers,
// the ConsensusPeers codec, PutBlockHeader, UpdateConsensusPeer, ontology's signature.VerifyMultiSignature.
//
// Stubs: json.Unmarshal of the consensus payload (reflection) is replaced under the engine by zzJSONUnmarshal,
// which maps the one-byte marker payload the harness uses under the engine to the VbftBlockInfo that
// encoding/json produces natively from the real JSON text of the same configuration (dual mode through
// zzsym.Symbolic(), as in C14 / C19). Signatures are zzsym.Signature values (validity = provenance; real ECDSA
// natively). SHA-256 (header hash) is an uninterpreted function.

import (
	"encoding/json"
	"errors"

	ocommon "github.com/ontio/ontology/common"
	otypes "github.com/ontio/ontology/core/types"
	"github.com/polynetwork/poly/common"
	vconfig "github.com/polynetwork/poly/consensus/vbft/config"
	hscommon "github.com/polynetwork/poly/native/service/header_sync/common"
	"github.com/polynetwork/poly/native/storage"
	"github.com/polynetwork/poly/zzsym"
)

const zzChain = uint64(3)

// zzRec: what the harness knows to be recorded: validator set `keys` (indices into the zzsym key table)
// at key height h.
type zzRec struct {
	h    uint32
	keys []int
}

func zzHas(l []int, x int) bool {
	for _, v := range l {
		if v == x {
			return true
		}
	}
	return false
}

// zzGov: index of the record with the greatest key height below h, -1 if there is none. This is the
// specification side ("greatest"), computed independently of the order in which records were submitted.
func zzGov(model []zzRec, h uint32) int {
	best := -1
	for i := range model {
		if model[i].h < h && (best < 0 || model[i].h > model[best].h) {
			best = i
		}
	}
	return best
}

// ---- announced configurations --------------------------------------------------------------

// peer indices of announced configurations: whatever the Ontology chain assigned
var zzPeerIdx [4]uint32

// zzCfgKeys: the validator set announced by configuration choice c (0 = the header announces nothing).
//   1: two keys nobody has used so far
//   2: a set overlapping the earlier sets, with one peer listed twice (the recorded map has 2 entries)
//   3: a single new key
//   4: the empty set
func zzCfgPeers(c int) []int {
	switch c {
	case 1:
		return []int{9, 10}
	case 2:
		return []int{0, 9, 9}
	case 3:
		return []int{10}
	}
	return nil
}

func zzDistinct(l []int) []int {
	var out []int
	for _, v := range l {
		if !zzHas(out, v) {
			out = append(out, v)
		}
	}
	return out
}

func zzCfgInfo(c int) *vconfig.VbftBlockInfo {
	info := &vconfig.VbftBlockInfo{Proposer: 1, VrfValue: []byte{}, VrfProof: []byte{}}
	if c != 0 {
		peers := zzCfgPeers(c)
		cfg := &vconfig.ChainConfig{Version: 1, View: 2, N: uint32(len(peers)), PosTable: []uint32{}, Peers: []*vconfig.PeerConfig{}}
		for i, p := range peers {
			cfg.Peers = append(cfg.Peers, &vconfig.PeerConfig{Index: zzPeerIdx[i], ID: vconfig.PubkeyID(zzsym.PubKey(p))})
		}
		info.NewChainConfig = cfg
	}
	return info
}

// zzPayload: the consensus payload announcing configuration c. Natively real JSON text; under the engine a
// one-byte marker that zzJSONUnmarshal (spec override of encoding/json.Unmarshal) decodes to the same value.
func zzPayload(c int) []byte {
	if zzsym.Symbolic() {
		return []byte{byte(c)}
	}
	b, err := json.Marshal(zzCfgInfo(c))
	if err != nil {
		panic("zz: json.Marshal")
	}
	return b
}

func zzJSONUnmarshal(data []byte, v interface{}) error {
	info, ok := v.(*vconfig.VbftBlockInfo)
	if !ok || len(data) != 1 {
		return errors.New("zz: json.Unmarshal use not modelled")
	}
	c := 0
	switch data[0] { // symbolic marker: forks here, i.e. only on paths that reach UpdateConsensusPeer
	case 1:
		c = 1
	case 2:
		c = 2
	case 3:
		c = 3
	case 4:
		c = 4
	}
	*info = *zzCfgInfo(c)
	return nil
}

// ---- state access ----------------------------------------------------------------------------

// zzCheckRecorded: the stored validator sets and key-height list are exactly the model's (clauses b, c).
func zzCheckRecorded(db *storage.CacheDB, model []zzRec, probe bool) {
	ns := zzNative(db, nil)
	kh, err := GetKeyHeights(ns, zzChain)
	zzsym.Assert(err == nil && len(kh.HeightList) == len(model), "the key-height list has one entry per recorded validator set")
	for i := 0; i+1 < len(kh.HeightList); i++ {
		zzsym.Assert(kh.HeightList[i] > kh.HeightList[i+1], "the stored key-height list is strictly descending")
	}
	for _, r := range model {
		found := false
		for _, v := range kh.HeightList {
			if v == r.h {
				found = true
			}
		}
		zzsym.Assert(found, "every recorded key height is in the key-height list")
		peers, err := getConsensusPeersByHeight(ns, zzChain, r.h)
		zzsym.Assert(err == nil, "the validator set of every key height can be read back")
		if err != nil {
			return
		}
		want := zzDistinct(r.keys)
		zzsym.Assert(peers.ChainID == zzChain && peers.Height == r.h && len(peers.PeerMap) == len(want), "the stored validator set has exactly the announced members")
		for _, k := range want {
			id := vconfig.PubkeyID(zzsym.PubKey(k))
			p := peers.PeerMap[id]
			zzsym.Assert(p != nil && p.PeerPubkey == id, "every announced validator is a member of the stored set")
		}
	}
	if !probe {
		return
	}
	// the set that governs an arbitrary later height x is the one at the greatest key height below x
	x := zzsym.U32("probe")
	got, err := FindKeyHeight(ns, x, zzChain)
	g := zzGov(model, x)
	if g < 0 {
		zzsym.Assert(err != nil, "FindKeyHeight fails when no key height lies below the height")
	} else {
		zzsym.Assert(err == nil && got == model[g].h, "FindKeyHeight yields the greatest recorded key height below the height")
	}
}

// ---- one submission --------------------------------------------------------------------------

type zzHdr struct {
	raw    []byte
	height uint32
	hash   ocommon.Uint256
	listed []int // bookkeeper list, table indices
	signer []int // signer of every supplied signature (table index, anything else = a key outside the table)
	cfg    int   // announced configuration (0 none)
}

// zzMenu: the keys a relayer may list as bookkeepers in this exploration: every member of the governing set,
// one validator of some other recorded set that is not in the governing set, and one table key that was
// never recorded anywhere.
func zzMenu(model []zzRec, gov int) []int {
	var menu []int
	if gov >= 0 {
		menu = append(menu, zzDistinct(model[gov].keys)...)
	}
	n := len(menu)
	for i := range model {
		for _, k := range model[i].keys {
			if len(menu) == n && !zzHas(menu, k) {
				menu = append(menu, k)
			}
		}
	}
	return append(menu, 11)
}

// zzMakeHeader: a header whose height, bookkeeper list, signers, announced configuration and remaining scalar
// fields are solver choices. `fewer` drops the last signature.
//
// hmax == 0: the height is any 32-bit value, the announced configuration a symbolic marker and the other scalar
// fields symbolic (the header hash is then an uninterpreted function of symbolic bytes).
// hmax > 0 (history harness): the height is explored value by value in [0,hmax), the configuration likewise and
// the other fields are fixed, so that the header hash and every storage key are concrete.
func zzMakeHeader(model []zzRec, bmax int, fewer bool, ncfg int, hmax int) *zzHdr {
	hd := &zzHdr{}
	// decide which set governs the header's height first (forks over the relative order of the heights), so
	// that the bookkeeper menu can be built from it
	var height uint32
	var c int
	h := &otypes.Header{Version: 0}
	if hmax > 0 {
		height = uint32(zzsym.Choose("h", hmax))
		c = zzsym.Choose("c", ncfg)
	} else {
		height = zzsym.U32("height")
		c = zzsym.Int("cfg")
		zzsym.Assume(c >= 0 && c < ncfg)
		h.Timestamp = zzsym.U32("ts")
		h.ConsensusData = zzsym.U64("cdata")
		copy(h.PrevBlockHash[:], zzsym.Bytes("prev", 4))
		copy(h.BlockRoot[:], zzsym.Bytes("blkroot", 4))
	}
	menu := zzMenu(model, zzGov(model, height))
	B := zzsym.Choose("B", bmax+1)
	hd.cfg = c
	h.Height = height
	h.ConsensusPayload = zzPayload(c)
	for j := 0; j < B; j++ {
		k := menu[zzsym.Choose("bk", len(menu))]
		hd.listed = append(hd.listed, k)
		h.Bookkeepers = append(h.Bookkeepers, zzsym.PubKey(k))
	}
	hd.height = h.Height
	hd.hash = h.Hash()
	S := B
	if fewer && B > 0 {
		S = B - 1
	}
	for j := 0; j < S; j++ {
		s := zzsym.Int("signer")
		zzsym.Assume(s >= -1 && s <= 11)
		hd.signer = append(hd.signer, s)
		h.SigData = append(h.SigData, zzsym.Signature("sig", s, hd.hash[:]))
	}
	sink := ocommon.NewZeroCopySink(nil)
	h.Serialization(sink)
	hd.raw = sink.Bytes()
	return hd
}

func zzSubmit(db *storage.CacheDB, headers ...*zzHdr) error {
	p := &hscommon.SyncBlockHeaderParam{ChainID: zzChain}
	for _, h := range headers {
		p.Headers = append(p.Headers, h.raw)
	}
	sink := common.NewZeroCopySink(nil)
	p.Serialization(sink)
	return NewONTHandler().SyncBlockHeader(zzNative(db, sink.Bytes()))
}

// zzCheckQuorum: clause (a) for an accepted header.
func zzCheckQuorum(model []zzRec, hd *zzHdr) {
	gov := zzGov(model, hd.height)
	zzsym.Assert(gov >= 0, "an accepted header has a recorded key height below it")
	if gov < 0 {
		return
	}
	members := zzDistinct(model[gov].keys)
	distinct := 0
	for _, v := range members {
		signed := false
		for _, s := range hd.signer {
			if s == v {
				signed = true
			}
		}
		if signed {
			distinct++
		}
	}
	zzsym.Assert(distinct*3 >= len(members), "an accepted header carries valid signatures of at least ceil(N/3) distinct members of the set recorded at the greatest key height below it")
	for _, k := range hd.listed {
		zzsym.Assert(zzHas(members, k), "every bookkeeper listed by an accepted header is a member of the governing set")
	}
}

// zzStep: submit one header to a light client whose recorded sets are `model` and whose stored headers are at
// `stored`; check every clause; return the new model and whether the header was accepted.
func zzStep(db *storage.CacheDB, model []zzRec, stored []uint32, hd *zzHdr, last bool) ([]zzRec, []uint32, bool) {
	before := zzWriteSet(db)
	err := zzSubmit(db, hd)
	known := false
	for _, s := range stored {
		if s == hd.height {
			known = true
		}
	}
	if known {
		// a height that already has a header is skipped without verification
		zzsym.Assert(err == nil && zzSameWriteSet(before, zzWriteSet(db)), "a header for a height that already has one is ignored and changes nothing")
		zzsym.Cover("skipped")
		return model, stored, false
	}
	if err != nil {
		zzsym.Assert(zzSameWriteSet(before, zzWriteSet(db)), "a rejected header changes nothing, in particular records no validator set")
		zzsym.Cover("rejected")
		return model, stored, false
	}
	zzsym.Cover("accepted")
	zzCheckQuorum(model, hd)
	got, gerr := GetHeaderByHeight(zzNative(db, nil), zzChain, hd.height)
	zzsym.Assert(gerr == nil && got.Hash() == hd.hash, "an accepted header is stored at its height")
	stored = append(stored, hd.height)
	if hd.cfg != 0 {
		model = append(append([]zzRec(nil), model...), zzRec{h: hd.height, keys: zzCfgPeers(hd.cfg)})
		zzsym.Cover("new-set-recorded")
	} else {
		zzsym.Cover("no-change")
	}
	zzCheckRecorded(db, model, last)
	return model, stored, true
}

func zzInit() *storage.CacheDB {
	for i := range zzPeerIdx {
		zzPeerIdx[i] = zzsym.U32("peerindex")
	}
	db := zzNewCacheDB()
	// another chain's validator set must never be consulted: all table keys at key height 0 of chain 4
	other := &ConsensusPeers{ChainID: zzChain + 1, Height: 0, PeerMap: make(map[string]*Peer)}
	for i := 0; i < 12; i++ {
		id := vconfig.PubkeyID(zzsym.PubKey(i))
		other.PeerMap[id] = &Peer{Index: uint32(i), PeerPubkey: id}
	}
	if putConsensusPeers(zzNative(db, nil), other) != nil {
		panic("zz: putConsensusPeers")
	}
	return db
}

// zzRecord writes a validator set with the real putConsensusPeers (what UpdateConsensusPeer does for a header
// that announces a configuration); withHeader also stores a header at that height, as SyncGenesisHeader and
// SyncBlockHeader do (PutBlockHeader precedes UpdateConsensusPeer).
func zzRecord(db *storage.CacheDB, r zzRec, withHeader bool) {
	if withHeader {
		kh := &otypes.Header{Height: r.h, ConsensusPayload: zzPayload(0)}
		if PutBlockHeader(zzNative(db, nil), zzChain, kh) != nil {
			panic("zz: PutBlockHeader")
		}
	}
	peers := &ConsensusPeers{ChainID: zzChain, Height: r.h, PeerMap: make(map[string]*Peer)}
	for _, k := range r.keys {
		id := vconfig.PubkeyID(zzsym.PubKey(k))
		peers.PeerMap[id] = &Peer{Index: zzsym.U32("setindex"), PeerPubkey: id}
	}
	if putConsensusPeers(zzNative(db, nil), peers) != nil {
		panic("zz: putConsensusPeers")
	}
}

// zzSets: K validator sets recorded at arbitrary distinct 32-bit key heights, written in the order 0..K-1 (the
// heights being arbitrary, this is every submission order). sizes: bit n set = a set may have n members.
func zzSets(db *storage.CacheDB, K, sizes int) []zzRec {
	var allowed []int
	for n := 1; n <= 7; n++ {
		if sizes&(1<<uint(n)) != 0 {
			allowed = append(allowed, n)
		}
	}
	n0 := zzsym.Choose("N", len(allowed))
	var model []zzRec
	for k := 0; k < K; k++ {
		// set k: n_k consecutive table keys starting at k (the sets overlap but differ); the sizes rotate through
		// the allowed ones so that the sets have different sizes and, over the choices of N, each size governs
		r := zzRec{h: zzsym.U32("keyheight")}
		n := allowed[(n0+k)%len(allowed)]
		for i := 0; i < n; i++ {
			r.keys = append(r.keys, k+i)
		}
		// distinct key heights: SyncBlockHeader skips a height that already has a header, so two headers never
		// record a set at the same height (a repeated genesis installation is C19's subject)
		for _, m := range model {
			zzsym.Assume(m.h != r.h)
		}
		zzRecord(db, r, false)
		model = append(model, r)
	}
	return model
}

// ZZ_C31_OntHeaderQuorum: K <= KMAX validator sets recorded at arbitrary distinct 32-bit key heights, written in
// the order 0..K-1 (the heights being arbitrary, this is every submission order); then one header with
// arbitrary height, bookkeeper list, signers and announced configuration.
func ZZ_C31_OntHeaderQuorum() {
	db := zzInit()
	K := 1 + zzsym.Choose("K", zzsym.Param("KMAX"))
	// bounds per number of recorded sets (the exploration grows with K)
	sizes, bmax := zzsym.Param("SIZES"), zzsym.Param("BMAX")
	if K == 1 {
		sizes, bmax = zzsym.Param("SIZES1"), zzsym.Param("BMAX1")
	}
	if K >= 3 {
		bmax = zzsym.Param("BMAX3")
	}
	model := zzSets(db, K, sizes)
	// a signature list shorter than the bookkeeper list: explored for K == 1 only (VerifyMultiSignature does
	// not depend on the key-height list)
	fewer := K == 1 && zzsym.Choose("fewer", 2) == 1
	hd := zzMakeHeader(model, bmax, fewer, zzsym.Param("NCFG"), 0)
	// Every key height has a stored header in a reachable state (PutBlockHeader precedes UpdateConsensusPeer in
	// SyncGenesisHeader and SyncBlockHeader), so a header at a key height is skipped: that rule is exercised by
	// ZZ_C31_OntHistory, whose states contain the stored headers. Here the stored headers are left out (their
	// hash-indexed records make the exploration intractable) and the submitted height differs from the key heights.
	for _, r := range model {
		zzsym.Assume(hd.height != r.h)
	}
	// FindKeyHeight on the resulting list (clause c) is the subject of ZZ_C31_OntKeyHeights, which covers every
	// list of up to KMAX+1 key heights; here the resulting list and sets are compared with the expected ones.
	zzStep(db, model, nil, hd, false)
}

func ZZ_C31_OntHeaderQuorum_witness() {
	db := zzInit()
	model := []zzRec{{h: zzsym.U32("keyheight"), keys: []int{0}}}
	zzRecord(db, model[0], false)
	hd := zzMakeHeader(model, 1, false, 2, 0)
	err := zzSubmit(db, hd)
	zzsym.Assert(err != nil, "witness: a header signed by the single recorded validator is accepted")
}

// ZZ_C31_OntKeyHeights: clause (c) on its own: whatever the order in which up to KMAX validator sets were
// recorded, the list is strictly descending and FindKeyHeight yields the greatest key height below any height.
func ZZ_C31_OntKeyHeights() {
	db := zzInit()
	K := 1 + zzsym.Choose("K", zzsym.Param("KMAX"))
	model := zzSets(db, K, 6)
	zzCheckRecorded(db, model, true)
	zzsym.Cover("checked")
}

func ZZ_C31_OntKeyHeights_witness() {
	db := zzInit()
	model := zzSets(db, 2, 6)
	got, err := FindKeyHeight(zzNative(db, nil), zzsym.U32("probe"), zzChain)
	zzsym.Assert(err != nil || got == model[0].h, "witness: the second recorded set can govern a height")
}

// ZZ_C31_OntHistory: a light client initialised with a genesis validator set at height 2 (the writes
// SyncGenesisHeader performs after its witness check: PutBlockHeader and putConsensusPeers), then T headers
// submitted one after the other, each with a height in [0,HMAX) (below, between, above, equal to earlier ones),
// any bookkeepers, signers and announced configuration. The exploration of a history stops at its first header
// that is not accepted (it leaves the state unchanged, which is asserted). Heights are explored value by value
// here (concrete storage keys); arbitrary 32-bit heights are the subject of ZZ_C31_OntHeaderQuorum.
func ZZ_C31_OntHistory() {
	db := zzInit()
	n := 1 + zzsym.Choose("N", zzsym.Param("NMAX"))
	g := zzRec{h: 2}
	for i := 0; i < n; i++ {
		g.keys = append(g.keys, i)
	}
	zzRecord(db, g, true)
	model := []zzRec{g}
	stored := []uint32{g.h}
	T := zzsym.Param("T")
	for t := 0; t < T; t++ {
		hd := zzMakeHeader(model, zzsym.Param("BMAX"), false, zzsym.Param("NCFG"), zzsym.Param("HMAX"))
		var ok bool
		model, stored, ok = zzStep(db, model, stored, hd, t == T-1)
		if !ok {
			return
		}
		if t == 0 && len(model) == 2 {
			zzsym.Cover("first-changes-set")
		}
	}
	zzsym.Cover("history-done")
}

func ZZ_C31_OntHistory_witness() {
	db := zzInit()
	g := zzRec{h: 2, keys: []int{0}}
	zzRecord(db, g, true)
	model := []zzRec{g}
	stored := []uint32{g.h}
	hd := zzMakeHeader(model, 1, false, 2, 5)
	zzsym.Assume(hd.cfg == 1)
	var ok bool
	model, stored, ok = zzStep(db, model, stored, hd, false)
	if !ok {
		return
	}
	hd2 := zzMakeHeader(model, 1, false, 1, 6)
	zzsym.Assume(hd2.height > hd.height)
	err := zzSubmit(db, hd2)
	zzsym.Assert(err != nil, "witness: after an accepted change a later header signed by the new set is accepted")
}
