package ledgerstore

import (
	"bytes"

	"github.com/polynetwork/poly/common"
	"github.com/polynetwork/poly/common/config"
	cstates "github.com/polynetwork/poly/core/states"
	"github.com/polynetwork/poly/core/store"
	scom "github.com/polynetwork/poly/core/store/common"
	"github.com/polynetwork/poly/core/store/overlaydb"
	"github.com/polynetwork/poly/core/types"
	"github.com/polynetwork/poly/merkle"
	"github.com/polynetwork/poly/native"
	"github.com/polynetwork/poly/native/event"
	"github.com/polynetwork/poly/native/storage"
	"github.com/polynetwork/poly/zzsym"
)

// ---------------------------------------------------------------------------------------------
// C08, ledger-store level. Blocks are committed through the real
//     LedgerStoreImp.executeBlock -> handleTransaction -> (override) -> CrossStatesRoot computation
//     LedgerStoreImp.saveBlockToStateStore (AddStateMerkleTreeRoot, AddBlockMerkleTreeRoot, AddCrossStates,
//                                           write set) and StateStore.CommitTo
// on a StateStore whose leveldb is replaced by the in-memory PersistStore below and whose block-hash
// accumulator uses merkle.NewMemHashStore() (the file store is covered by C06).
// Proofs are then fetched the way the RPC layer does (LedgerStoreImp.GetCrossStatesProof,
// StateStore.GetMerkleProof with the arguments of Ledger.GetMerkleProof) and verified with
// merkle.MerkleProve against the roots a header commits to.
//
// The only replaced function is StateStore.HandleInvokeTransaction (spec "overrides"): instead of
// running a native contract it emits the records planned for that transaction exactly as native
// contracts do: CacheDB.Put(key, StorageItem(record)) and NativeService.PutMerkleVal(record).
// ---------------------------------------------------------------------------------------------

// ---- in-memory PersistStore (not under test) ----
type zz8Store struct {
	keys, vals [][]byte
	bkeys      [][]byte
	bvals      [][]byte // nil value = delete
}

func (s *zz8Store) find(key []byte) int {
	for i := range s.keys {
		if bytes.Equal(s.keys[i], key) {
			return i
		}
	}
	return -1
}
func (s *zz8Store) Put(key []byte, value []byte) error {
	k := append([]byte(nil), key...)
	v := append([]byte(nil), value...)
	if i := s.find(key); i >= 0 {
		s.vals[i] = v
	} else {
		s.keys = append(s.keys, k)
		s.vals = append(s.vals, v)
	}
	return nil
}
func (s *zz8Store) Has(key []byte) (bool, error) { return s.find(key) >= 0, nil }
func (s *zz8Store) Get(key []byte) ([]byte, error) {
	if i := s.find(key); i >= 0 {
		return s.vals[i], nil
	}
	return nil, scom.ErrNotFound
}
func (s *zz8Store) Delete(key []byte) error {
	if i := s.find(key); i >= 0 {
		s.keys = append(s.keys[:i], s.keys[i+1:]...)
		s.vals = append(s.vals[:i], s.vals[i+1:]...)
	}
	return nil
}
func (s *zz8Store) NewBatch() { s.bkeys, s.bvals = nil, nil }
func (s *zz8Store) BatchPut(key []byte, value []byte) {
	s.bkeys = append(s.bkeys, append([]byte(nil), key...))
	s.bvals = append(s.bvals, append([]byte{}, value...))
}
func (s *zz8Store) BatchDelete(key []byte) {
	s.bkeys = append(s.bkeys, append([]byte(nil), key...))
	s.bvals = append(s.bvals, nil)
}
func (s *zz8Store) BatchCommit() error {
	for i := range s.bkeys {
		if s.bvals[i] == nil {
			s.Delete(s.bkeys[i])
		} else {
			s.Put(s.bkeys[i], s.bvals[i])
		}
	}
	s.bkeys, s.bvals = nil, nil
	return nil
}
func (s *zz8Store) Close() error                                { return nil }
func (s *zz8Store) NewIterator(prefix []byte) scom.StoreIterator { panic("zz8Store: iterator not modelled") }

// ---- planned records and the replacement of the native-contract run ----

type zz8Rec struct {
	key, val []byte
}

// zz8Plan[n] = records emitted by the transaction with Nonce n
var zz8Plan [][]zz8Rec

func zz8HandleInvoke(self *StateStore, ls store.LedgerStore, overlay *overlaydb.OverlayDB, cache *storage.CacheDB,
	tx *types.Transaction, block *types.Block, notify *event.ExecuteNotify) ([]common.Uint256, error) {
	service := &native.NativeService{}
	for _, r := range zz8Plan[tx.Nonce] {
		cache.Put(r.key, cstates.GenRawStorageItem(r.val)) // what e.g. cross_chain_manager's PutRequest does
		service.PutMerkleVal(r.val)
	}
	notify.State = event.CONTRACT_STATE_SUCCESS
	cache.Commit()
	return service.GetCrossHashes(), nil
}

func zz8RecLen(i int) int {
	if i%7 == 6 {
		return 40
	}
	return 1 + (i*5)%9
}

type zz8Chain struct {
	ls       *LedgerStoreImp
	ss       *StateStore
	hashes   []common.Uint256 // block hashes by height
	roots    []common.Uint256 // Header.BlockRoot by height (as enforced by submitBlock)
	crossRes []common.Uint256 // ExecuteResult.CrossStatesRoot by height
}

func zz8NewChain() *zz8Chain {
	config.DefConfig.Common.EnableEventLog = false // event log is not part of this property
	zz8Plan = nil
	ss := &StateStore{
		store:           &zz8Store{},
		merkleTree:      merkle.NewTree(0, nil, merkle.NewMemHashStore()),
		deltaMerkleTree: merkle.NewTree(0, nil, nil),
	}
	return &zz8Chain{ls: &LedgerStoreImp{stateStore: ss}, ss: ss}
}

// commit appends one block whose transactions emit the given record groups (one group per transaction)
func (c *zz8Chain) commit(groups [][]zz8Rec) {
	height := uint32(len(c.hashes))
	var prev common.Uint256
	if height > 0 {
		prev = c.hashes[height-1]
	}
	hdr := &types.Header{
		Height:        height,
		PrevBlockHash: prev,
		ConsensusData: zzsym.U64("consensusData"), // makes every block hash an arbitrary (symbolic) value
		Timestamp:     zzsym.U32("timestamp"),
	}
	// the block root the header must carry: submitBlock refuses any other value
	hdr.BlockRoot = c.ls.GetBlockRootWithPreBlockHashes(height, []common.Uint256{prev})
	block := &types.Block{Header: hdr}
	for _, g := range groups {
		tx := &types.Transaction{TxType: types.Invoke, Nonce: uint32(len(zz8Plan))}
		zz8Plan = append(zz8Plan, g)
		block.Transactions = append(block.Transactions, tx)
	}

	result, err := c.ls.executeBlock(block)
	zzsym.Assert(err == nil, "executing a block of record-emitting transactions succeeds")
	c.ss.NewBatch()
	err = c.ls.saveBlockToStateStore(block, result)
	zzsym.Assert(err == nil, "saving the block to the state store succeeds")
	zzsym.Assert(c.ss.CommitTo() == nil, "committing the state store succeeds")
	c.ls.currBlockHeight = height // setCurrentBlock, last step of submitBlock
	c.ls.currBlockHash = block.Hash()

	c.hashes = append(c.hashes, block.Hash())
	c.roots = append(c.roots, hdr.BlockRoot)
	c.crossRes = append(c.crossRes, result.CrossStatesRoot)
}

func zz8Group(height, first, n int) []zz8Rec {
	out := make([]zz8Rec, n)
	for i := range out {
		out[i] = zz8Rec{
			key: []byte{'r', 'e', 'q', byte(height), byte(first + i)},
			val: zzsym.Bytes("record", zz8RecLen(first+i)),
		}
	}
	return out
}

// ---------------------------------------------------------------------------------------------
// Cross-chain records: block 0 emits one record, block 1 emits k records spread over two transactions,
// block 2 emits none. For a chosen record of block 1 (and the record of block 0) the served proof
// verifies against that block's committed cross-state root and yields exactly the stored record.
// ---------------------------------------------------------------------------------------------
func ZZ_C08_CrossStatesServed() {
	K := zzsym.Param("K")
	k := zzsym.Choose("k", K+1)
	c := zz8NewChain()
	g0 := zz8Group(0, 0, 1)
	c.commit([][]zz8Rec{g0})
	all := zz8Group(1, 0, k)
	split := k / 2
	c.commit([][]zz8Rec{all[:split], all[split:]})
	c.commit(nil)

	// committed roots, as read back by consensus for the next header (StateStore.GetCrossStateRoot)
	root0, err := c.ss.GetCrossStateRoot(0)
	zzsym.Assert(err == nil && root0 == c.crossRes[0], "stored cross-state root of a block = root computed when executing it")
	root1, err := c.ss.GetCrossStateRoot(1)
	zzsym.Assert(err == nil && root1 == c.crossRes[1], "stored cross-state root of a block = root computed when executing it")
	root2, err := c.ss.GetCrossStateRoot(2)
	zzsym.Assert(err == nil && root2 == common.UINT256_EMPTY && c.crossRes[2] == common.UINT256_EMPTY, "a block without records commits to the empty cross-state root")
	if k == 0 {
		zzsym.Assert(root1 == common.UINT256_EMPTY, "a block without records commits to the empty cross-state root")
		_, err := c.ls.GetCrossStatesProof(1, g0[0].key)
		zzsym.Assert(err != nil, "no cross-state proof is served for a block without records")
		zzsym.Cover("cross-served-empty-block")
	} else {
		j := zzsym.Choose("j", k)
		for i := 0; i < j; i++ {
			// GetCrossStatesProof finds the record by its leaf hash (first match): distinct records are assumed
			// not to collide under SHA-256; byte-identical duplicates: ZZ_C08_CrossStatesServedDuplicate
			zzsym.Assume(merkle.HashLeaf(all[i].val) != merkle.HashLeaf(all[j].val))
		}
		proof, err := c.ls.GetCrossStatesProof(1, all[j].key)
		zzsym.Assert(err == nil, "a cross-state proof is served for every record the block produced")
		val, err := merkle.MerkleProve(proof, root1[:])
		zzsym.Assert(err == nil, "served cross-state proof verifies against the block's committed cross-state root")
		zzsym.Assert(bytes.Equal(val, all[j].val), "served cross-state proof yields exactly the stored record")
		zzsym.Cover("cross-served")
		if j >= split && split > 0 {
			zzsym.Cover("cross-served-second-tx")
		}
	}
	// the record of block 0 is proved against block 0's root, not block 1's
	proof0, err := c.ls.GetCrossStatesProof(0, g0[0].key)
	zzsym.Assert(err == nil, "a cross-state proof is served for every record the block produced")
	val0, err := merkle.MerkleProve(proof0, root0[:])
	zzsym.Assert(err == nil && bytes.Equal(val0, g0[0].val), "served cross-state proof verifies against its own block's root and yields the record")
	zzsym.Cover("cross-served-done")
}

// The same record value emitted twice in one block (under two storage keys): the proof served for the
// second key is the one of the first position and must still verify and yield the stored record.
func ZZ_C08_CrossStatesServedDuplicate() {
	c := zz8NewChain()
	g := zz8Group(0, 0, 4)
	g[2].val = append([]byte(nil), g[0].val...)
	zzsym.Assume(merkle.HashLeaf(g[1].val) != merkle.HashLeaf(g[3].val))
	zzsym.Assume(merkle.HashLeaf(g[0].val) != merkle.HashLeaf(g[3].val))
	c.commit([][]zz8Rec{g})
	root, err := c.ss.GetCrossStateRoot(0)
	zzsym.Assert(err == nil, "the cross-state root of a committed block can be read back")
	for _, j := range []int{2, 3} {
		proof, err := c.ls.GetCrossStatesProof(0, g[j].key)
		zzsym.Assert(err == nil, "a cross-state proof is served for every record the block produced")
		val, err := merkle.MerkleProve(proof, root[:])
		zzsym.Assert(err == nil && bytes.Equal(val, g[j].val), "served cross-state proof verifies and yields exactly the stored record (duplicated value)")
	}
	zzsym.Cover("cross-served-duplicate-done")
}

func ZZ_C08_CrossStatesServed_witness() {
	c := zz8NewChain()
	g := zz8Group(0, 0, 2)
	c.commit([][]zz8Rec{g})
	root, _ := c.ss.GetCrossStateRoot(0)
	proof, _ := c.ls.GetCrossStatesProof(0, g[0].key)
	val, err := merkle.MerkleProve(proof, root[:])
	zzsym.Assert(err == nil && bytes.Equal(val, g[1].val), "witness: the proof of one record does not yield another record")
}

// ---------------------------------------------------------------------------------------------
// Block inclusion: a chain of H blocks (heights 0..H-1) with arbitrary block hashes. For h < r the proof
// served for block h against root height r (Ledger.GetMerkleProof(h, r) = StateStore.GetMerkleProof(
// hash_h, h+1, r)) verifies against Header(r).BlockRoot and yields block h's hash.
// ---------------------------------------------------------------------------------------------
func ZZ_C08_BlockProofsServed() {
	H := zzsym.Param("H")
	n := 2 + zzsym.Choose("blocks", H-1) // 2..H blocks
	r := 1 + zzsym.Choose("r", n-1)      // 1..n-1
	h := zzsym.Choose("h", r)            // 0..r-1
	c := zz8NewChain()
	for i := 0; i < n; i++ {
		c.commit(nil)
	}
	raw := c.hashes[h].ToArray()
	proof, err := c.ss.GetMerkleProof(raw, uint32(h)+1, uint32(r)) // core/ledger/ledger.go GetMerkleProof
	zzsym.Assert(err == nil, "a block-inclusion proof is served for every pair of committed heights h < r")
	val, err := merkle.MerkleProve(proof, c.roots[r][:])
	zzsym.Assert(err == nil, "served block-inclusion proof verifies against the block root in header r")
	zzsym.Assert(bytes.Equal(val, raw), "served block-inclusion proof yields block h's hash")
	// not yet committed root height: refused
	_, err = c.ss.GetMerkleProof(raw, uint32(h)+1, uint32(n))
	zzsym.Assert(err != nil, "no block-inclusion proof against a height that is not committed")
	zzsym.Cover("block-proof-done")
	if r < n-1 {
		zzsym.Cover("block-proof-earlier-root")
	}
}

func ZZ_C08_BlockProofsServed_witness() {
	c := zz8NewChain()
	for i := 0; i < 3; i++ {
		c.commit(nil)
	}
	raw := c.hashes[0].ToArray()
	proof, _ := c.ss.GetMerkleProof(raw, 1, 2)
	_, err := merkle.MerkleProve(proof, c.roots[1][:])
	zzsym.Assert(err == nil, "witness: a proof against root height 2 does not verify against header 1's root")
}
