package merkle

import (
	"bytes"
	"crypto/sha256"

	"github.com/polynetwork/poly/common"
	"github.com/polynetwork/poly/zzsym"
)

// ---------------------------------------------------------------------------------------------
// C08, merkle level: the two tree builders agree.
//
// executeBlock commits to a block's cross-chain records with
//     root = TreeHasher{}.HashFullTreeWithLeafHash(crossHashes)        (RFC 6962 split: k = largest 2^i < n)
// while the proof served to relayers is built by
//     MerkleLeafPath(record, crossHashes)  ->  MerkleHashes             (levels of adjacent pairs, odd node promoted)
// and checked by MerkleProve(path, root). For every number of records k and every record j the served
// proof must verify against the committed root and yield exactly the record.
// Leaf hashes are HashLeaf(record), which is what NativeService.PutMerkleVal appends.
// getIndex locates a record by its leaf hash and takes the FIRST match. Two cases are checked:
//   * the requested record's leaf hash differs from the hashes of all earlier records (assumed: distinct
//     records do not collide under SHA-256): ZZ_C08_CrossStateProofAgreesWithRoot;
//   * the requested record is a byte-for-byte duplicate of an earlier one: the proof is then built for the
//     earlier position and must still verify and yield the record: ZZ_C08_CrossStateProofDuplicate.
// ---------------------------------------------------------------------------------------------

// record lengths vary with the position (1..9 bytes, and one long record) so that leaf pre-images of
// different sizes occur in one tree
func zz8RecLen(i int) int {
	if i%7 == 6 {
		return 40
	}
	return 1 + (i*5)%9
}

func zz8Records(k int) [][]byte {
	out := make([][]byte, k)
	for i := range out {
		out[i] = zzsym.Bytes("record", zz8RecLen(i))
	}
	return out
}

// independent oracle: RFC 6962 MTH over leaf hashes
func zz8MTH(h []common.Uint256) common.Uint256 {
	n := len(h)
	if n == 1 {
		return h[0]
	}
	k := 1
	for k*2 < n {
		k *= 2
	}
	l, r := zz8MTH(h[:k]), zz8MTH(h[k:])
	b := append([]byte{1}, l[:]...)
	b = append(b, r[:]...)
	return sha256.Sum256(b)
}

func ZZ_C08_CrossStateProofAgreesWithRoot() {
	K := zzsym.Param("K")
	k := 1 + zzsym.Choose("k", K)
	j := zzsym.Choose("j", k)
	recs := zz8Records(k)
	hashes := make([]common.Uint256, k)
	for i := range recs {
		hashes[i] = HashLeaf(recs[i]) // NativeService.PutMerkleVal
	}
	for i := 0; i < j; i++ {
		zzsym.Assume(hashes[i] != hashes[j]) // no earlier record collides with the requested one (duplicates: see below)
	}
	root := TreeHasher{}.HashFullTreeWithLeafHash(hashes) // executeBlock
	zzsym.Assert(root == zz8MTH(hashes), "committed cross-state root = RFC 6962 tree hash of the record hashes")
	levels := MerkleHashes(hashes, depth(k))
	zzsym.Assert(len(levels[0]) == 1 && levels[0][0] == root, "top of the paired-level tree = committed cross-state root")

	path, err := MerkleLeafPath(recs[j], hashes) // LedgerStoreImp.GetCrossStatesProof
	zzsym.Assert(err == nil, "a proof is served for every record of the block")
	val, err := MerkleProve(path, root[:])
	zzsym.Assert(err == nil, "the served cross-state proof verifies against the committed root")
	zzsym.Assert(bytes.Equal(val, recs[j]), "the served cross-state proof yields exactly the stored record")
	zzsym.Cover("cross-proof-done")
	if k&(k-1) != 0 && k > 2 {
		zzsym.Cover("cross-proof-unbalanced") // sizes where paired levels and RFC split differ in shape
	}
	if j == k-1 && k%2 == 1 && k > 1 {
		zzsym.Cover("cross-proof-promoted-leaf") // the odd last leaf is promoted without a sibling
	}
}

// The requested record b is an exact duplicate of an earlier record a (the same bytes were emitted twice
// in one block): the served proof is the one of position a and must verify and yield the record.
func ZZ_C08_CrossStateProofDuplicate() {
	K := zzsym.Param("K")
	k := 2 + zzsym.Choose("k", K-1)
	b := 1 + zzsym.Choose("b", k-1)
	a := zzsym.Choose("a", b)
	recs := zz8Records(k)
	recs[b] = append([]byte(nil), recs[a]...)
	hashes := make([]common.Uint256, k)
	for i := range recs {
		hashes[i] = HashLeaf(recs[i])
	}
	for i := 0; i < a; i++ {
		zzsym.Assume(hashes[i] != hashes[a])
	}
	root := TreeHasher{}.HashFullTreeWithLeafHash(hashes)
	path, err := MerkleLeafPath(recs[b], hashes)
	zzsym.Assert(err == nil, "a proof is served for a record that occurs twice")
	val, err := MerkleProve(path, root[:])
	zzsym.Assert(err == nil, "the proof served for a duplicated record verifies against the committed root")
	zzsym.Assert(bytes.Equal(val, recs[b]), "the proof served for a duplicated record yields exactly the record")
	zzsym.Cover("cross-duplicate-done")
}

// a record that is not in the block gets no proof
func ZZ_C08_CrossStateProofUnknownRecord() {
	k := 1 + zzsym.Choose("k", zzsym.Param("K"))
	recs := zz8Records(k)
	hashes := make([]common.Uint256, k)
	for i := range recs {
		hashes[i] = HashLeaf(recs[i])
	}
	other := zzsym.Bytes("other", 3)
	oh := HashLeaf(other)
	unknown := true
	for i := range hashes {
		if hashes[i] == oh {
			unknown = false
		}
	}
	_, err := MerkleLeafPath(other, hashes)
	zzsym.Assert((err != nil) == unknown, "a proof is served exactly for values whose leaf hash is in the block's list")
	zzsym.Cover("cross-unknown-done")
}

// Witness twin: the proof binds the record: it must be possible for the proof of record j to fail for
// a different root (here: the root of the records in another order).
func ZZ_C08_CrossStateProof_witness() {
	recs := zz8Records(3)
	hashes := []common.Uint256{HashLeaf(recs[0]), HashLeaf(recs[1]), HashLeaf(recs[2])}
	swapped := []common.Uint256{hashes[1], hashes[0], hashes[2]}
	root := TreeHasher{}.HashFullTreeWithLeafHash(swapped)
	path, _ := MerkleLeafPath(recs[0], hashes)
	_, err := MerkleProve(path, root[:])
	zzsym.Assert(err == nil, "witness: a proof does not verify against the root of a different record order")
}
