package merkle

import (
	"bytes"
	"crypto/sha256"

	"github.com/polynetwork/poly/common"
	"github.com/polynetwork/poly/zzsym"
)

// ---------------------------------------------------------------------------------------------
// C08, merkle level: the two tree builders agree.
//
// executeBlock commits to a block's cross-chain records with
//     root = TreeHasher{}.HashFullTreeWithLeafHash(crossHashes)        (RFC 6962 split: k = largest 2^i < n)
// while the proof served to relayers is built by
//     MerkleLeafPath(record, crossHashes)  ->  MerkleHashes             (levels of adjacent pairs, odd node promoted)
// and checked by MerkleProve(path, root). For every number of records k and every record j the served
// proof must verify against the committed root and yield exactly the record.
// Leaf hashes are HashLeaf(record), which is what NativeService.PutMerkleVal appends.
// No collision-resistance assumption: if two records hash alike (or are equal) getIndex picks the first
// match, and the check still demands that the proof verifies and returns the requested record.
// ---------------------------------------------------------------------------------------------

// record lengths vary with the position (1..9 bytes, and one long record) so that leaf pre-images of
// different sizes occur in one tree
func zz8RecLen(i int) int {
	if i%7 == 6 {
		return 40
	}
	return 1 + (i*5)%9
}

func zz8Records(k int) [][]byte {
	out := make([][]byte, k)
	for i := range out {
		out[i] = zzsym.Bytes("record", zz8RecLen(i))
	}
	return out
}

// independent oracle: RFC 6962 MTH over leaf hashes
func zz8MTH(h []common.Uint256) common.Uint256 {
	n := len(h)
	if n == 1 {
		return h[0]
	}
	k := 1
	for k*2 < n {
		k *= 2
	}
	l, r := zz8MTH(h[:k]), zz8MTH(h[k:])
	b := append([]byte{1}, l[:]...)
	b = append(b, r[:]...)
	return sha256.Sum256(b)
}

func ZZ_C08_CrossStateProofAgreesWithRoot() {
	K := zzsym.Param("K")
	k := 1 + zzsym.Choose("k", K)
	j := zzsym.Choose("j", k)
	recs := zz8Records(k)
	hashes := make([]common.Uint256, k)
	for i := range recs {
		hashes[i] = HashLeaf(recs[i]) // NativeService.PutMerkleVal
	}
	root := TreeHasher{}.HashFullTreeWithLeafHash(hashes) // executeBlock
	zzsym.Assert(root == zz8MTH(hashes), "committed cross-state root = RFC 6962 tree hash of the record hashes")
	levels := MerkleHashes(hashes, depth(k))
	zzsym.Assert(len(levels[0]) == 1 && levels[0][0] == root, "top of the paired-level tree = committed cross-state root")

	path, err := MerkleLeafPath(recs[j], hashes) // LedgerStoreImp.GetCrossStatesProof
	zzsym.Assert(err == nil, "a proof is served for every record of the block")
	val, err := MerkleProve(path, root[:])
	zzsym.Assert(err == nil, "the served cross-state proof verifies against the committed root")
	zzsym.Assert(bytes.Equal(val, recs[j]), "the served cross-state proof yields exactly the stored record")
	zzsym.Cover("cross-proof-done")
	if k&(k-1) != 0 && k > 2 {
		zzsym.Cover("cross-proof-unbalanced") // sizes where paired levels and RFC split differ in shape
	}
	if j == k-1 && k%2 == 1 && k > 1 {
		zzsym.Cover("cross-proof-promoted-leaf") // the odd last leaf is promoted without a sibling
	}
}

// a record that is not in the block gets no proof
func ZZ_C08_CrossStateProofUnknownRecord() {
	k := 1 + zzsym.Choose("k", zzsym.Param("K"))
	recs := zz8Records(k)
	hashes := make([]common.Uint256, k)
	for i := range recs {
		hashes[i] = HashLeaf(recs[i])
	}
	other := zzsym.Bytes("other", 3)
	oh := HashLeaf(other)
	unknown := true
	for i := range hashes {
		if hashes[i] == oh {
			unknown = false
		}
	}
	_, err := MerkleLeafPath(other, hashes)
	zzsym.Assert((err != nil) == unknown, "a proof is served exactly for values whose leaf hash is in the block's list")
	zzsym.Cover("cross-unknown-done")
}

// Witness twin: the proof binds the record: it must be possible for the proof of record j to fail for
// a different root (here: the root of the records in another order).
func ZZ_C08_CrossStateProof_witness() {
	recs := zz8Records(3)
	hashes := []common.Uint256{HashLeaf(recs[0]), HashLeaf(recs[1]), HashLeaf(recs[2])}
	swapped := []common.Uint256{hashes[1], hashes[0], hashes[2]}
	root := TreeHasher{}.HashFullTreeWithLeafHash(swapped)
	path, _ := MerkleLeafPath(recs[0], hashes)
	_, err := MerkleProve(path, root[:])
	zzsym.Assert(err == nil, "witness: a proof does not verify against the root of a different record order")
}
