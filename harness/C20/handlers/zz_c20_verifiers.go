package cross_chain_manager

// Replacements (spec "overrides") for the proof / signature verifiers of the chain handlers. Everything else of
// each handler's MakeDepositProposal (parameter decoding, registry lookup, CheckDoneTx, PutDoneTx) runs for real.

import (
	neotypes "github.com/joeqian10/neo-gogogo/mpt"
	neo3types "github.com/joeqian10/neo3-gogogo/mpt"
	"github.com/ontio/ontology-crypto/keypair"
	otypes "github.com/ontio/ontology/core/types"
	"github.com/polynetwork/poly/common"
	"github.com/polynetwork/poly/native"
	scom "github.com/polynetwork/poly/native/service/cross_chain_manager/common"
	"github.com/polynetwork/poly/native/service/cross_chain_manager/harmony"
	"github.com/polynetwork/poly/native/service/governance/side_chain_manager"
	hsneo "github.com/polynetwork/poly/native/service/header_sync/neo"
	hsneo3 "github.com/polynetwork/poly/native/service/header_sync/neo3"
)

func zzVerify_eth(ns *native.NativeService, proof, extra []byte, fromChainID uint64, height uint32, sideChain *side_chain_manager.SideChain) (*scom.MakeTxParam, error) {
	return zzStubVerify()
}

func zzVerify_bsc(ns *native.NativeService, proof, extra []byte, fromChainID uint64, height uint32, sideChain *side_chain_manager.SideChain) (*scom.MakeTxParam, error) {
	return zzStubVerify()
}

func zzVerify_bytom(ns *native.NativeService, proof, extra []byte, fromChainID uint64, height uint32, sideChain *side_chain_manager.SideChain) (*scom.MakeTxParam, error) {
	return zzStubVerify()
}

func zzVerify_heco(ns *native.NativeService, proof, extra []byte, fromChainID uint64, height uint32, sideChain *side_chain_manager.SideChain) (*scom.MakeTxParam, error) {
	return zzStubVerify()
}

func zzVerify_hsc(ns *native.NativeService, proof, extra []byte, fromChainID uint64, height uint32, sideChain *side_chain_manager.SideChain) (*scom.MakeTxParam, error) {
	return zzStubVerify()
}

func zzVerify_msc(ns *native.NativeService, proof, extra []byte, fromChainID uint64, height uint32, sideChain *side_chain_manager.SideChain) (*scom.MakeTxParam, error) {
	return zzStubVerify()
}

func zzVerify_pixiechain(ns *native.NativeService, proof, extra []byte, fromChainID uint64, height uint32, sideChain *side_chain_manager.SideChain) (*scom.MakeTxParam, error) {
	return zzStubVerify()
}

func zzVerify_polygon(ns *native.NativeService, proof, extra []byte, fromChainID uint64, height uint32, sideChain *side_chain_manager.SideChain) (*scom.MakeTxParam, error) {
	return zzStubVerify()
}

func zzVerify_zilliqa(ns *native.NativeService, proof, extra []byte, fromChainID uint64, height uint32, sideChain *side_chain_manager.SideChain) (*scom.MakeTxParam, error) {
	return zzStubVerify()
}

func zzVerify_zilliqalegacy(ns *native.NativeService, proof, extra []byte, fromChainID uint64, height uint32, sideChain *side_chain_manager.SideChain) (*scom.MakeTxParam, error) {
	return zzStubVerify()
}

func zzVerify_starcoin(ns *native.NativeService, proof, extra []byte, fromChainID uint64, height uint32, sideChain *side_chain_manager.SideChain, hdr []byte) (*scom.MakeTxParam, error) {
	return zzStubVerify()
}

func zzVerify_harmony(h *harmony.Handler, ns *native.NativeService, params *scom.EntranceParam) (*scom.MakeTxParam, error) {
	return zzStubVerify()
}

// neo / neo3: the cross-chain message decoder (neo-gogogo binary reader), its signature check and the MPT proof check
func zzNeoMsgDecode(m *hsneo.NeoCrossChainMsg, source *common.ZeroCopySource) error {
	m.StateRoot = new(neotypes.StateRoot)
	return nil
}
func zzNeoMsgSig(ns *native.NativeService, chainID uint64, m *hsneo.NeoCrossChainMsg) error {
	return zzStubSig()
}
func zzVerify_neo(proof []byte, m *hsneo.NeoCrossChainMsg, contractAddr []byte) (*scom.MakeTxParam, error) {
	return zzStubVerify()
}
func zzNeo3MsgDecode(m *hsneo3.NeoCrossChainMsg, source *common.ZeroCopySource) error {
	m.StateRoot = new(neo3types.StateRoot)
	return nil
}
func zzNeo3MsgSig(ns *native.NativeService, magic uint32, m *hsneo3.NeoCrossChainMsg) error {
	return zzStubSig()
}
func zzVerify_neo3(proof []byte, m *hsneo3.NeoCrossChainMsg, contractId int) (*scom.MakeTxParam, error) {
	return zzStubVerify()
}

// ont: the multi-signature check of the cross-chain message and the merkle proof check
func zzOntMsgSig(ns *native.NativeService, chainID uint64, m *otypes.CrossChainMsg, bookkeepers []keypair.PublicKey) error {
	return zzStubSig()
}
func zzVerify_ont(proof []byte, m *otypes.CrossChainMsg, sideChain *side_chain_manager.SideChain) (*scom.MakeTxParam, error) {
	return zzStubVerify()
}
