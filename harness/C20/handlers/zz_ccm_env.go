package cross_chain_manager

// Environment shim for running package cross_chain_manager in the engine (spec "overrides").
// The package imports every chain handler, and through them every light client; several of those
// packages' initialisers run third-party reflection code (amino codec registration, rlp type caches,
// go-ethereum's rlpHash) that the engine cannot interpret. The handlers' MakeDepositProposal is
// stubbed here, so none of their package state is used: the package initialisers of the 21 handler
// packages are replaced by this no-op (which also skips the light-client packages below them).
func zzNoInit() {}
