package cross_chain_manager

// Environment shim for running package cross_chain_manager in the engine (spec "overrides").
// The package imports every chain handler, and through them every light client; several of those
// packages' initialisers run third-party reflection code (amino codec registration, rlp type caches,
// go-ethereum's rlpHash) that the engine cannot interpret. In C20 the handlers' MakeDepositProposal
// runs for real, but with its verifiers replaced (zz_c20_verifiers.go) the executed code uses no
// package-level state of the handler or light-client packages (only constants), so the package
// initialisers of the 21 handler packages are replaced by this no-op (which also skips the
// light-client packages below them).
func zzNoInit() {}
