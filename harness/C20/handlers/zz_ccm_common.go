package cross_chain_manager

// Helpers shared by the cross_chain_manager harnesses (C20, C21, C22; one copy per property).
// Nothing here is under test.

import (
	"errors"

	"github.com/polynetwork/poly/common"
	"github.com/polynetwork/poly/common/config"
	"github.com/polynetwork/poly/core/payload"
	"github.com/polynetwork/poly/core/types"
	"github.com/polynetwork/poly/native"
	scom "github.com/polynetwork/poly/native/service/cross_chain_manager/common"
	"github.com/polynetwork/poly/native/service/governance/node_manager"
	"github.com/polynetwork/poly/native/service/governance/side_chain_manager"
	"github.com/polynetwork/poly/native/service/utils"
	"github.com/polynetwork/poly/native/storage"
	"github.com/polynetwork/poly/zzsym"
)

// ---- proof-verifier stub ---------------------------------------------------------------------

var zzStub struct {
	reject  bool              // the source-chain proof does not verify
	pending bool              // vote / ripple router: quorum not reached yet, (nil, nil)
	param   *scom.MakeTxParam // the verified message otherwise
	calls   int
}

func zzStubProposal(ns *native.NativeService) (*scom.MakeTxParam, error) {
	zzStub.calls++
	if zzStub.reject {
		return nil, errors.New("zz: source proof rejected")
	}
	if zzStub.pending {
		return nil, nil
	}
	return zzStub.param, nil
}

// zzSymParam: a verified message with symbolic content (one symbolic byte per field; field lengths are C22's subject).
func zzSymParam(toChain uint64) *scom.MakeTxParam {
	return &scom.MakeTxParam{
		TxHash:              zzsym.Bytes("p.txhash", 1),
		CrossChainID:        zzsym.Bytes("p.ccid", 1),
		FromContractAddress: zzsym.Bytes("p.from", 1),
		ToChainID:           toChain,
		ToContractAddress:   zzsym.Bytes("p.to", 1),
		Method:              "unlock",
		Args:                zzsym.Bytes("p.args", 1),
	}
}

// ---- transaction / service construction ------------------------------------------------------

// zzTx: a real immutable transaction (hash = sha256(sha256(unsigned bytes))) with the given nonce.
func zzTx(nonce uint32, signers ...common.Address) *types.Transaction {
	mt := &types.Transaction{TxType: types.Invoke, Nonce: nonce, Payload: &payload.InvokeCode{Code: []byte{1}}, CoinType: types.ONG}
	sink := common.NewZeroCopySink(nil)
	if err := mt.Serialization(sink); err != nil {
		panic("zz: tx serialization")
	}
	tx, err := types.TransactionFromRawBytes(sink.Bytes())
	if err != nil {
		panic("zz: tx decode")
	}
	tx.SignedAddr = signers
	return tx
}

func zzService(db *storage.CacheDB, tx *types.Transaction, height uint32, input []byte) *native.NativeService {
	ns, err := native.NewNativeService(db, tx, 0, height, common.Uint256{}, 0, input, false)
	if err != nil {
		panic("zz: NewNativeService")
	}
	return ns
}

func zzEntranceInput(src uint64, height uint32) []byte {
	p := &scom.EntranceParam{SourceChainID: src, Height: height, Proof: []byte{1}, Extra: []byte{2}}
	sink := common.NewZeroCopySink(nil)
	p.Serialization(sink)
	return sink.Bytes()
}

func zzChainInput(chain uint64) []byte {
	p := &scom.BlackChainParam{ChainID: chain}
	sink := common.NewZeroCopySink(nil)
	p.Serialization(sink)
	return sink.Bytes()
}

func zzRegister(db *storage.CacheDB, chain, router uint64) {
	sc := &side_chain_manager.SideChain{ChainId: chain, Router: router, Name: "c", BlocksToWait: 1, CCMCAddress: []byte{7}}
	if err := side_chain_manager.PutSideChain(zzNative(db, nil), sc); err != nil {
		panic("zz: PutSideChain")
	}
}

func zzOperator(db *storage.CacheDB) common.Address {
	op, err := node_manager.GetCurConOperator(zzNative(db, nil))
	if err != nil {
		panic("zz: operator")
	}
	return op
}

// routers offered to the source chain: every router GetChainHandler knows and three it does not
var zzRouters = []uint64{
	utils.VOTE_ROUTER, utils.BTC_ROUTER, utils.ETH_ROUTER, utils.ONT_ROUTER, utils.NEO_ROUTER, utils.COSMOS_ROUTER,
	utils.BSC_ROUTER, utils.HECO_ROUTER, utils.QUORUM_ROUTER, utils.ZILLIQA_LEGACY_ROUTER, utils.MSC_ROUTER,
	utils.NEO3_LEGACY_ROUTER, utils.OKEX_ROUTER, 13, utils.NEO3_ROUTER, utils.POLYGON_HEIMDALL_ROUTER,
	utils.POLYGON_BOR_ROUTER, utils.ZILLIQA_ROUTER, utils.STARCOIN_ROUTER, utils.PIXIECHAIN_ROUTER, utils.HSC_ROUTER,
	utils.HARMONY_ROUTER, utils.BYTOM_ROUTER, utils.RIPPLE_ROUTER, 24,
}

// the routers that have a cross-chain handler (utils/params.go; NEO3_LEGACY and POLYGON_HEIMDALL are header-sync only)
func zzRouterSupported(r uint64) bool {
	return r <= utils.RIPPLE_ROUTER && r != 13 && r != utils.NEO3_LEGACY_ROUTER && r != utils.POLYGON_HEIMDALL_ROUTER
}

// "router active at the current height": HARMONY/HSC/BYTOM start at main-net block 18823000
func zzRouterActive(r uint64, height uint32, net uint32) bool {
	late := r == utils.HARMONY_ROUTER || r == utils.HSC_ROUTER || r == utils.BYTOM_ROUTER
	return !(late && net == config.NETWORK_ID_MAIN_NET && height < 18823000)
}

type zzOutcome struct {
	err      error
	ret      []byte
	hashes   int
	notifies int
	same     bool // write set unchanged
}

func zzImport(db *storage.CacheDB, tx *types.Transaction, src uint64, height uint32) zzOutcome {
	before := zzWriteSet(db)
	ns := zzService(db, tx, height, zzEntranceInput(src, height))
	ret, err := ImportExTransfer(ns)
	return zzOutcome{err: err, ret: ret, hashes: len(ns.GetCrossHashes()), notifies: len(ns.GetNotify()), same: zzSameWriteSet(before, zzWriteSet(db))}
}

// zzChainIDs: two symbolic chain ids. With WIDE=0 both are below 0xfd (one var-uint size class, so the
// registry serializer does not fork on the encoding length); with WIDE=1 they range over all of uint64.
func zzChainIDs(n1, n2 string) (uint64, uint64) {
	a, b := zzsym.U64(n1), zzsym.U64(n2)
	if zzsym.Param("WIDE") == 0 {
		zzsym.Assume(a < 0xfd && b < 0xfd)
	}
	return a, b
}
