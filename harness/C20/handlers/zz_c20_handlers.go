package cross_chain_manager

// C20: each cross-chain message (source chain, cross-chain id) is executed at most once.
//
// Two consecutive imports run through the real ImportExTransfer and the real MakeDepositProposal of
// each covered handler. Only the cryptographic verifiers are replaced (zz_c20_verifiers.go): they
// accept with the symbolic MakeTxParam chosen by the harness or reject.

import (
	"bytes"
	"errors"

	ocommon "github.com/ontio/ontology/common"
	otypes "github.com/ontio/ontology/core/types"
	"github.com/polynetwork/poly/common"
	"github.com/polynetwork/poly/common/config"
	scom "github.com/polynetwork/poly/native/service/cross_chain_manager/common"
	"github.com/polynetwork/poly/native/service/utils"
	"github.com/polynetwork/poly/native/storage"
	"github.com/polynetwork/poly/zzsym"
)

var zzSigReject bool // the signature check of a neo/ont cross-chain message fails

func zzStubVerify() (*scom.MakeTxParam, error) {
	zzStub.calls++
	if zzStub.reject {
		return nil, errors.New("zz: proof rejected")
	}
	return zzStub.param, nil
}

func zzStubSig() error {
	if zzSigReject {
		return errors.New("zz: cross-chain message signature rejected")
	}
	return nil
}

const zzDst = uint64(200) // destination chain of every message in these harnesses

// routers whose handler is "decode, look up the chain, verify, CheckDoneTx, PutDoneTx"
var zzProofRouters = []uint64{
	utils.ETH_ROUTER, utils.BSC_ROUTER, utils.HECO_ROUTER, utils.MSC_ROUTER, utils.POLYGON_BOR_ROUTER,
	utils.PIXIECHAIN_ROUTER, utils.HSC_ROUTER, utils.BYTOM_ROUTER, utils.HARMONY_ROUTER, utils.STARCOIN_ROUTER,
	utils.ZILLIQA_ROUTER, utils.ZILLIQA_LEGACY_ROUTER, utils.NEO_ROUTER, utils.NEO3_ROUTER,
}

// cross-chain id lengths: IDS=1: 32 bytes (what the chains use); IDS=n: the first n of {32, 1, 33, 0}
func zzIDLen(name string) int {
	return []int{32, 1, 33, 0}[zzsym.Choose(name, zzsym.Param("IDS"))]
}

// zzSparseID: an id of n bytes; up to 2 bytes fully symbolic, longer ones with symbolic first, middle and last
// bytes and fixed filler in between (keys are compared bytewise; fully symbolic 32-byte keys only make the
// store's ordering queries hard).
func zzSparseID(name string, n int) []byte {
	if n <= 2 {
		return zzsym.Bytes(name, n)
	}
	b := make([]byte, n)
	for i := range b {
		b[i] = 0xab
	}
	v := zzsym.Bytes(name, 3)
	b[0], b[n/2], b[n-1] = v[0], v[1], v[2]
	return b
}

func zzMessage(id []byte) *scom.MakeTxParam {
	return &scom.MakeTxParam{
		TxHash:              zzsym.Bytes("m.txhash", 2),
		CrossChainID:        id,
		FromContractAddress: zzsym.Bytes("m.from", 1),
		ToChainID:           zzDst,
		ToContractAddress:   zzsym.Bytes("m.to", 1),
		Method:              "unlock",
		Args:                zzsym.Bytes("m.args", 1),
	}
}

func zzFullEntranceInput(src uint64, height uint32, hdr []byte) []byte {
	p := &scom.EntranceParam{SourceChainID: src, Height: height, Proof: zzsym.Bytes("e.proof", 1),
		RelayerAddress: zzsym.Bytes("e.relayer", 1), Extra: zzsym.Bytes("e.extra", 1), HeaderOrCrossChainMsg: hdr}
	sink := common.NewZeroCopySink(nil)
	p.Serialization(sink)
	return sink.Bytes()
}

func zzIsDone(db *storage.CacheDB, id []byte, chain uint64) bool {
	return scom.CheckDoneTx(zzNative(db, nil), id, chain) != nil
}

func zzCountPrefix(db *storage.CacheDB, prefix []byte) int {
	n := 0
	for _, e := range zzWriteSet(db) {
		if bytes.HasPrefix(e[0], prefix) && len(e[1]) != 0 {
			n++
		}
	}
	return n
}

type zzSubmission struct {
	src    uint64
	id     []byte
	reject bool
	out    zzOutcome
}

// zzSubmit runs one import of message (src, id) whose proof the verifier accepts or rejects.
func zzSubmit(db *storage.CacheDB, src uint64, id []byte, nonce uint32, hdr []byte) zzSubmission {
	s := zzSubmission{src: src, id: id, reject: zzsym.Bool("proofRejected")}
	zzStub.reject, zzStub.pending, zzStub.calls = s.reject, false, 0
	zzStub.param = zzMessage(id)
	height := zzsym.U32("e.height")
	before := zzWriteSet(db)
	ns := zzService(db, zzTx(nonce), 20000000, zzFullEntranceInput(src, height, hdr)) // block height past every router start block
	ret, err := ImportExTransfer(ns)
	s.out = zzOutcome{err: err, ret: ret, hashes: len(ns.GetCrossHashes()), notifies: len(ns.GetNotify()), same: zzSameWriteSet(before, zzWriteSet(db))}
	return s
}

func zzTwoSubmissions(router uint64, hdr1, hdr2 []byte, strict bool) {
	config.DefConfig.P2PNode.NetworkId = config.NETWORK_ID_MAIN_NET
	db := zzNewCacheDB()
	zzRegister(db, zzDst, utils.ETH_ROUTER)
	src1, src2 := zzChainIDs("src1", "src2")
	zzsym.Assume(src1 != zzDst && src2 != zzDst)
	zzRegister(db, src1, router)
	if src2 != src1 {
		zzRegister(db, src2, router)
	}
	id1 := zzSparseID("id1", zzIDLen("id1.len"))
	id2 := zzSparseID("id2", zzIDLen("id2.len"))
	reqPrefix := utils.ConcatKey(utils.CrossChainManagerContractAddress, []byte(scom.REQUEST))
	donePrefix := utils.ConcatKey(utils.CrossChainManagerContractAddress, []byte(scom.DONE_TX))

	// first submission, on a store where nothing has been executed
	s1 := zzSubmit(db, src1, id1, 1, hdr1)
	ok1 := s1.out.err == nil
	zzsym.Assert(ok1 == (!s1.reject && !zzSigReject), "a first submission is accepted iff its proof verifies")
	zzsym.Assert(zzIsDone(db, id1, src1) == ok1, "a message is marked done exactly when it is accepted")
	if !ok1 && strict {
		zzsym.Assert(s1.out.same && s1.out.hashes == 0, "a rejected submission leaves the store unchanged")
	}

	// second submission: same or different chain, same or different id, its own proof / height / relay transaction
	s2 := zzSubmit(db, src2, id2, 2, hdr2)
	ok2 := s2.out.err == nil
	sameMsg := src1 == src2 && bytes.Equal(id1, id2)
	if ok1 && sameMsg {
		zzsym.Assert(!ok2, "a message that was already executed is not accepted again")
		zzsym.Assert(s2.out.hashes == 0, "the replayed message commits no second request leaf")
		if strict {
			zzsym.Assert(s2.out.same, "a replayed submission leaves the store unchanged")
		}
		zzsym.Assert(zzIsDone(db, id1, src1), "the message stays marked done")
		zzsym.Cover("replay-rejected")
	} else {
		zzsym.Assert(ok2 == (!s2.reject && !zzSigReject), "a message that was not executed before is accepted iff its proof verifies")
		if !sameMsg {
			zzsym.Assert(zzIsDone(db, id2, src2) == ok2, "a message is marked done exactly when it is accepted")
			zzsym.Assert(zzIsDone(db, id1, src1) == ok1, "executing another message does not change the first one's mark")
		}
		if ok1 && ok2 {
			zzsym.Cover("two-distinct-accepted")
		}
		if !ok1 && ok2 && sameMsg {
			zzsym.Cover("accepted-after-failed-attempt")
		}
	}
	n := 0
	if ok1 {
		n++
	}
	if ok2 {
		n++
	}
	zzsym.Assert(zzCountPrefix(db, reqPrefix) == n, "one outbound request per accepted submission")
	zzsym.Assert(zzCountPrefix(db, donePrefix) == n, "one done mark per accepted submission")
}

// ZZ_C20_ProofRouters: eth, bsc, heco, msc, bor, pixie, hsc, bytom, harmony, starcoin, zilliqa(+legacy), neo, neo3.
func ZZ_C20_ProofRouters() {
	router := zzProofRouters[zzsym.Choose("router", len(zzProofRouters))]
	if router == utils.NEO_ROUTER || router == utils.NEO3_ROUTER {
		zzSigReject = zzsym.Bool("sigRejected")
	}
	zzTwoSubmissions(router, []byte{1}, []byte{2}, true)
}

func ZZ_C20_ProofRouters_witness() {
	config.DefConfig.P2PNode.NetworkId = config.NETWORK_ID_MAIN_NET
	db := zzNewCacheDB()
	zzRegister(db, zzDst, utils.ETH_ROUTER)
	zzRegister(db, 5, utils.BSC_ROUTER)
	id1 := zzSparseID("id1", 32)
	id2 := zzSparseID("id2", 32)
	s1 := zzSubmit(db, 5, id1, 1, nil)
	zzsym.Assume(s1.out.err == nil)
	s2 := zzSubmit(db, 5, id2, 2, nil)
	zzsym.Assert(s2.out.err == nil, "witness: the second id may equal the first and the proof may be rejected")
}

func zzOntMsg(height uint32) []byte {
	m := &otypes.CrossChainMsg{Version: 0, Height: height, SigData: [][]byte{zzsym.Bytes("ont.sig", 2)}}
	copy(m.StatesRoot[:], zzsym.Bytes("ont.root", 32))
	sink := ocommon.NewZeroCopySink(nil)
	m.Serialization(sink)
	sink.WriteVarUint(0) // no bookkeepers listed (the signature check is the stub)
	return sink.Bytes()
}

// ZZ_C20_Ont: the Ontology handler stores the verified cross-chain message of a new height before it
// looks at the done mark, so a replay may add that (header-sync) record; the cross-chain manager's own
// records must not change.
func ZZ_C20_Ont() {
	zzSigReject = zzsym.Bool("sigRejected")
	zzTwoSubmissions(utils.ONT_ROUTER, zzOntMsg(zzsym.U32("ont.h1")), zzOntMsg(zzsym.U32("ont.h2")), false)
}

func ZZ_C20_Ont_witness() {
	config.DefConfig.P2PNode.NetworkId = config.NETWORK_ID_MAIN_NET
	db := zzNewCacheDB()
	zzRegister(db, zzDst, utils.ETH_ROUTER)
	zzRegister(db, 5, utils.ONT_ROUTER)
	id := zzSparseID("id1", 32)
	s1 := zzSubmit(db, 5, id, 1, zzOntMsg(7))
	zzsym.Assume(s1.out.err == nil)
	s2 := zzSubmit(db, 5, zzSparseID("id2", 32), 2, zzOntMsg(zzsym.U32("ont.h2")))
	zzsym.Assert(s2.out.err == nil, "witness: the second id may equal the first and the proof may be rejected")
}
