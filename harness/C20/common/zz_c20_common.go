package common

// C20 (storage level, replayed natively): CheckDoneTx / PutDoneTx implement a set of (chain, cross-chain id).

import (
	"bytes"

	"github.com/polynetwork/poly/zzsym"
)

func zzID(name string, L int) []byte {
	return zzsym.Bytes(name, []int{32, 1, 0, 2, 33}[zzsym.Choose(name+".len", L)])
}

// ZZ_C20_DoneTxSet: T marks with symbolic chain ids and ids of several lengths, then one query.
func ZZ_C20_DoneTxSet() {
	T := zzsym.Param("T")
	L := zzsym.Param("L")
	db := zzNewCacheDB()
	var chains []uint64
	var ids [][]byte
	for t := 0; t < T; t++ {
		c := zzsym.U64("chain")
		id := zzID("id", L)
		fresh := true
		for i := range ids {
			if chains[i] == c && bytes.Equal(ids[i], id) {
				fresh = false
			}
		}
		err := CheckDoneTx(zzNative(db, nil), id, c)
		zzsym.Assert((err == nil) == fresh, "CheckDoneTx fails exactly for (chain, id) pairs that were marked before")
		before := zzWriteSet(db)
		if err != nil {
			zzsym.Cover("replay")
			continue // a handler stops here: nothing is written
		}
		err = PutDoneTx(zzNative(db, nil), id, c)
		zzsym.Assert(err == nil, "PutDoneTx succeeds")
		after := zzWriteSet(db)
		zzsym.Assert(len(after) == len(before)+1, "marking a fresh message adds exactly one record")
		chains = append(chains, c)
		ids = append(ids, id)
	}
	qc := zzsym.U64("qchain")
	qid := zzID("qid", L)
	want := false
	for i := range ids {
		if chains[i] == qc && bytes.Equal(ids[i], qid) {
			want = true
		}
	}
	got := CheckDoneTx(zzNative(db, nil), qid, qc) != nil
	zzsym.Assert(got == want, "a (chain, id) pair is reported done iff it was marked")
	zzsym.Cover("queried")
}

func ZZ_C20_DoneTxSet_witness() {
	db := zzNewCacheDB()
	id := zzsym.Bytes("id", 32)
	c := zzsym.U64("chain")
	err := PutDoneTx(zzNative(db, nil), id, c)
	zzsym.Assert(err == nil, "PutDoneTx succeeds")
	zzsym.Assert(CheckDoneTx(zzNative(db, nil), zzsym.Bytes("qid", 32), zzsym.U64("qchain")) == nil, "witness: the query may be the marked pair")
}
