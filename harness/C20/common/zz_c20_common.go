package common

// C20 (storage level, replayed natively): CheckDoneTx / PutDoneTx implement a set of (chain, cross-chain id).

import (
	"bytes"

	"github.com/polynetwork/poly/zzsym"
)

// zzID: a cross-chain id of length 32, 1, 0, 2 or 33 (the first L of these). Ids of up to 2 bytes are fully
// symbolic; longer ones have symbolic first, middle and last bytes and fixed filler in between (the store
// only compares keys bytewise, and fully symbolic 32-byte keys make the ordering queries needlessly hard).
func zzID(name string, L int) []byte {
	n := []int{32, 1, 0, 2, 33}[zzsym.Choose(name+".len", L)]
	if n <= 2 {
		return zzsym.Bytes(name, n)
	}
	b := make([]byte, n)
	for i := range b {
		b[i] = 0xab
	}
	v := zzsym.Bytes(name, 3)
	b[0], b[n/2], b[n-1] = v[0], v[1], v[2]
	return b
}

// ZZ_C20_DoneTxSet: T marks with symbolic chain ids and ids of several lengths, then one query.
func ZZ_C20_DoneTxSet() {
	T := zzsym.Param("T")
	L := zzsym.Param("L")
	db := zzNewCacheDB()
	var chains []uint64
	var ids [][]byte
	for t := 0; t < T; t++ {
		c := zzsym.U64("chain")
		id := zzID("id", L)
		fresh := true
		for i := range ids {
			if chains[i] == c && bytes.Equal(ids[i], id) {
				fresh = false
			}
		}
		err := CheckDoneTx(zzNative(db, nil), id, c)
		zzsym.Assert((err == nil) == fresh, "CheckDoneTx fails exactly for (chain, id) pairs that were marked before")
		before := zzWriteSet(db)
		if err != nil {
			zzsym.Cover("replay")
			continue // a handler stops here: nothing is written
		}
		err = PutDoneTx(zzNative(db, nil), id, c)
		zzsym.Assert(err == nil, "PutDoneTx succeeds")
		after := zzWriteSet(db)
		zzsym.Assert(len(after) == len(before)+1, "marking a fresh message adds exactly one record")
		chains = append(chains, c)
		ids = append(ids, id)
	}
	qc := zzsym.U64("qchain")
	qid := zzID("qid", L)
	want := false
	for i := range ids {
		if chains[i] == qc && bytes.Equal(ids[i], qid) {
			want = true
		}
	}
	got := CheckDoneTx(zzNative(db, nil), qid, qc) != nil
	zzsym.Assert(got == want, "a (chain, id) pair is reported done iff it was marked")
	zzsym.Cover("queried")
}

func ZZ_C20_DoneTxSet_witness() {
	db := zzNewCacheDB()
	id := zzID("id", 1)
	c := zzsym.U64("chain")
	err := PutDoneTx(zzNative(db, nil), id, c)
	zzsym.Assert(err == nil, "PutDoneTx succeeds")
	zzsym.Assert(CheckDoneTx(zzNative(db, nil), zzID("qid", 1), zzsym.U64("qchain")) == nil, "witness: the query may be the marked pair")
}
