package eth

// C23 (Ethereum router, glue level): what ETHHandler.MakeDepositProposal / verifyFromEthTx do around the
// Merkle-Patricia proof verification.
//
// Real code: ETHHandler.MakeDepositProposal (EntranceParam decoding, side_chain_manager.GetSideChain, done-tx
// bookkeeping), verifyFromEthTx, header_sync/eth.GetCurrentHeader / GetCurrentHeaderHeight / GetHeaderByHeight /
// GetHeaderByHash on a header store written by the harness, MakeTxParam.Deserialization.
//
// Replaced through spec "overrides" (third-party reflection code: go-ethereum trie / rlp / light, encoding/json):
//   VerifyMerkleProof  -> zzVerifyMerkleProof: records its arguments, returns (nil, error), (nil, nil) or a
//                         symbolic result, as the solver chooses;
//   CheckProofResult   -> zzCheckProofResult: records its arguments, returns a symbolic verdict;
//   json.Unmarshal     -> zzJSONUnmarshal: one-byte tokens select a stored header record or the relayer's proof
//                         object prepared by the harness (well-formed or not, 0..2 storage proofs).
// Soundness and completeness of the MPT proof verification, the RLP account comparison and the Keccak binding
// of the proven value are NOT covered. Not replayed natively (the replacements are not the real codecs).

import (
	"bytes"
	"errors"
	"math/big"

	"github.com/polynetwork/poly/common"
	cstates "github.com/polynetwork/poly/core/states"
	scom "github.com/polynetwork/poly/native/service/cross_chain_manager/common"
	"github.com/polynetwork/poly/native/service/governance/side_chain_manager"
	hscom "github.com/polynetwork/poly/native/service/header_sync/common"
	hseth "github.com/polynetwork/poly/native/service/header_sync/eth"
	"github.com/polynetwork/poly/native/service/utils"
	"github.com/polynetwork/poly/native/storage"
	"github.com/polynetwork/poly/zzsym"
)

func zzNoInit() {}

// zzBigUint64 replaces (*big.Int).Uint64: the symbolic block number for the number objects of the stored header
// records, the real result (low word of the magnitude) for every other value.
func zzBigUint64(x *big.Int) uint64 {
	for i, r := range zzRecords {
		if r != nil && r.Header.Number == x {
			return zzNumbers[i]
		}
	}
	b := x.Bits()
	if len(b) == 0 {
		return 0
	}
	return uint64(b[0])
}

// ---- recorders -----------------------------------------------------------------------------

var (
	zzRecords   [4]*hseth.HeaderWithDifficultySum // stored header records by token
	zzProof     *ETHProof                         // what the relayer's proof bytes decode to
	zzProofBad  bool                              // the proof bytes are not well-formed JSON
	zzProofSeen bool
	zzNumbers   [4]uint64 // block numbers of the stored header records
	zzVerCalls  int
	zzVerHeader *hseth.Header
	zzVerProof  *ETHProof
	zzVerAddr   []byte
	zzVerResult []byte
	zzChkCalls  int
	zzChkResult []byte
	zzChkValue  []byte
	zzChkOK     bool
)

func zzJSONUnmarshal(data []byte, v interface{}) error {
	switch t := v.(type) {
	case *hseth.HeaderWithDifficultySum:
		if len(data) != 1 || int(data[0]) >= len(zzRecords) || zzRecords[data[0]] == nil {
			return errors.New("zz: unknown header record")
		}
		*t = *zzRecords[data[0]]
		return nil
	case *ETHProof:
		// the relayer's proof bytes: not well-formed, or an object with 0..2 storage proofs
		zzProofSeen = true
		zzProofBad = zzsym.Bool("proof-malformed")
		if zzProofBad {
			return errors.New("zz: malformed proof")
		}
		zzProof = &ETHProof{Address: "0x00"}
		for i := zzsym.Choose("storage-proofs", 3); i > 0; i-- {
			zzProof.StorageProofs = append(zzProof.StorageProofs, StorageProof{Key: "0x01"})
		}
		*t = *zzProof
		return nil
	}
	return errors.New("zz: json.Unmarshal target not modelled")
}

func zzVerifyMerkleProof(ethProof *ETHProof, blockData *hseth.Header, contractAddr []byte) ([]byte, error) {
	zzVerCalls++
	zzVerProof, zzVerHeader, zzVerAddr = ethProof, blockData, contractAddr
	switch zzsym.Choose("verify", 3) {
	case 0:
		return nil, errors.New("zz: proof does not verify")
	case 1:
		return nil, nil
	}
	zzVerResult = zzsym.Bytes("proven", 4)
	return zzVerResult, nil
}

func zzCheckProofResult(result, value []byte) bool {
	zzChkCalls++
	zzChkResult, zzChkValue = result, value
	zzChkOK = zzsym.Bool("valuehash-matches")
	return zzChkOK
}

// ---- header store -----------------------------------------------------------------------------

func zzPut(db *storage.CacheDB, val []byte, key ...[]byte) {
	db.Put(utils.ConcatKey(utils.HeaderSyncContractAddress, key...), cstates.GenRawStorageItem(val))
}

func zzHash(token byte) []byte {
	h := make([]byte, 32)
	h[0], h[31] = 0xA0, token
	return h
}

// zzRecord: stored header record `token` with the given number; its state root is symbolic and tagged with
// the token so that records can be told apart.
func zzRecord(db *storage.CacheDB, chain uint64, token byte, number uint64) {
	// the number object is a placeholder: the code under test reads it through (*big.Int).Uint64 only, which
	// zzBigUint64 answers with the symbolic number (the engine's big.Int model goes through bv2int/int2bv, on which
	// z3 times out)
	zzNumbers[token] = number
	h := hseth.Header{Number: big.NewInt(1000 + int64(token)), Difficulty: big.NewInt(1)}
	copy(h.Root[:], zzsym.Bytes("root", 32))
	h.Root[0] = token
	zzRecords[token] = &hseth.HeaderWithDifficultySum{Header: h, DifficultySum: big.NewInt(1)}
	zzPut(db, []byte{token}, []byte(hscom.HEADER_INDEX), utils.GetUint64Bytes(chain), zzHash(token))
}

func zzCanonical(db *storage.CacheDB, chain uint64, height uint64, token byte) {
	zzPut(db, zzHash(token), []byte(hscom.MAIN_CHAIN), utils.GetUint64Bytes(chain), utils.GetUint64Bytes(height))
}

// ---- the harness -----------------------------------------------------------------------------

type zzCase struct {
	db           *storage.CacheDB
	chain        uint64
	best         uint64 // height of the light client's current header
	height       uint32 // height claimed by the relayer
	haveHeader   bool   // the light client has a canonical header at `height`
	blocksToWait uint64
	ccmc         []byte
	param        *scom.MakeTxParam
	extra        []byte
	extraOK      bool
}

func zzSetup() *zzCase {
	for i := range zzRecords {
		zzRecords[i] = nil
	}
	zzProofSeen, zzProofBad, zzProof = false, false, nil
	zzVerCalls, zzChkCalls, zzVerHeader, zzVerProof, zzVerAddr, zzVerResult, zzChkResult, zzChkValue = 0, 0, nil, nil, nil, nil, nil, nil
	c := &zzCase{db: zzNewCacheDB(), chain: 2}
	c.best = zzsym.U64("best")
	c.height = zzsym.U32("height")
	c.haveHeader = zzsym.Bool("have-header")
	c.blocksToWait = zzsym.U64("blocksToWait")
	// RegisterSideChainParam / UpdateSideChain decoding rejects BlocksToWait == 0 ("minimal value of BlocksToWait is 1")
	zzsym.Assume(c.blocksToWait >= 1)
	c.ccmc = zzsym.Bytes("ccmc", 20)

	// registered side chains: the source chain and a neighbour with another contract address
	ns := zzNative(c.db, nil)
	if side_chain_manager.PutSideChain(ns, &side_chain_manager.SideChain{ChainId: c.chain, Router: 2, Name: "evm", BlocksToWait: c.blocksToWait, CCMCAddress: c.ccmc}) != nil {
		panic("zz: PutSideChain")
	}
	other := append([]byte{}, c.ccmc...)
	other[0] ^= 0x80
	if side_chain_manager.PutSideChain(ns, &side_chain_manager.SideChain{ChainId: c.chain + 1, Router: 2, Name: "evm2", BlocksToWait: 1, CCMCAddress: other}) != nil {
		panic("zz: PutSideChain")
	}

	// light-client store: current height `best` with canonical header 0 (number best); canonical header 1 at
	// `height` (if the client has it); a non-canonical header 2 with the same number; header 3 is canonical at the
	// same height on the neighbour chain.
	zzPut(c.db, utils.GetUint64Bytes(c.best), []byte(hscom.CURRENT_HEADER_HEIGHT), utils.GetUint64Bytes(c.chain))
	zzRecord(c.db, c.chain, 0, c.best)
	zzCanonical(c.db, c.chain, c.best, 0)
	if c.haveHeader {
		zzRecord(c.db, c.chain, 1, uint64(c.height))
		zzCanonical(c.db, c.chain, uint64(c.height), 1)
	} else {
		// without a canonical header at `height` the claimed height is not the current one either
		zzsym.Assume(uint64(c.height) != c.best)
	}
	zzRecord(c.db, c.chain, 2, uint64(c.height))
	zzRecord(c.db, c.chain+1, 3, uint64(c.height))
	zzCanonical(c.db, c.chain+1, uint64(c.height), 3)
	zzPut(c.db, utils.GetUint64Bytes(c.best), []byte(hscom.CURRENT_HEADER_HEIGHT), utils.GetUint64Bytes(c.chain+1))

	// the message: a well-formed MakeTxParam or a truncated one
	c.param = &scom.MakeTxParam{TxHash: zzsym.Bytes("txhash", 2), CrossChainID: zzsym.Bytes("ccid", 2), FromContractAddress: zzsym.Bytes("from", 2),
		ToChainID: zzsym.U64("tochain"), ToContractAddress: zzsym.Bytes("to", 2), Method: "unlock", Args: zzsym.Bytes("args", 3)}
	sink := common.NewZeroCopySink(nil)
	c.param.Serialization(sink)
	c.extra = sink.Bytes()
	c.extraOK = zzsym.Choose("extra-truncated", 2) == 0
	if !c.extraOK {
		c.extra = c.extra[:len(c.extra)-1]
	}
	return c
}

func (c *zzCase) run() (*scom.MakeTxParam, error) {
	p := &scom.EntranceParam{SourceChainID: c.chain, Height: c.height, Proof: []byte{0x7b}, RelayerAddress: []byte{1}, Extra: c.extra}
	sink := common.NewZeroCopySink(nil)
	p.Serialization(sink)
	return NewETHHandler().MakeDepositProposal(zzNative(c.db, sink.Bytes()))
}

// zzDepthRule: the confirmation-depth rule of the property, on the true (64-bit) heights.
func (c *zzCase) depthRule() bool {
	// bestHeight-height+1 >= BlocksToWait, written without the +1 so that it cannot wrap (BlocksToWait >= 1)
	return c.best >= uint64(c.height) && c.best-uint64(c.height) >= c.blocksToWait-1
}

func (c *zzCase) checkAccepted(got *scom.MakeTxParam) {
	zzsym.Assert(c.haveHeader, "accepted deposit: the light client has a canonical header at the claimed height")
	zzsym.Assert(zzProofSeen && !zzProofBad && zzProof != nil && len(zzProof.StorageProofs) == 1, "accepted deposit: the proof object is well-formed and has exactly one storage proof")
	zzsym.Assert(zzVerCalls == 1 && zzVerProof != nil && len(zzVerProof.StorageProofs) == 1, "accepted deposit: the proof verifier ran once on the relayer's proof")
	if zzVerCalls != 1 || !c.haveHeader {
		return
	}
	zzsym.Assert(zzVerHeader != nil && zzVerHeader.Root == zzRecords[1].Header.Root && zzVerHeader.Number.Uint64() == uint64(c.height),
		"accepted deposit: the header handed to the proof verifier is the canonical header at the claimed height of the source chain")
	zzsym.Assert(bytes.Equal(zzVerAddr, c.ccmc), "accepted deposit: the contract address handed to the proof verifier is the registered CCMC address of the source chain")
	zzsym.Assert(zzVerResult != nil && zzChkCalls == 1 && zzChkOK && bytes.Equal(zzChkResult, zzVerResult) && bytes.Equal(zzChkValue, c.extra),
		"accepted deposit: CheckProofResult was consulted on (proven value, extra) and agreed")
	zzsym.Assert(c.extraOK && got != nil && bytes.Equal(got.TxHash, c.param.TxHash) && bytes.Equal(got.CrossChainID, c.param.CrossChainID) &&
		bytes.Equal(got.FromContractAddress, c.param.FromContractAddress) && got.ToChainID == c.param.ToChainID &&
		bytes.Equal(got.ToContractAddress, c.param.ToContractAddress) && got.Method == c.param.Method && bytes.Equal(got.Args, c.param.Args),
		"accepted deposit: the returned message is the decoded extra")
}

// ZZ_C23_EthDepositGlue: BlocksToWait within 32 bits (see ZZ_C23_EthBlocksToWaitRange for the rest).
func ZZ_C23_EthDepositGlue() {
	c := zzSetup()
	zzsym.Assume(c.blocksToWait <= 1<<32)
	got, err := c.run()
	if err == nil {
		zzsym.Cover("accepted")
		zzsym.Assert(c.depthRule(), "accepted deposit: bestHeight >= height and bestHeight-height+1 >= BlocksToWait")
		c.checkAccepted(got)
		return
	}
	zzsym.Cover("rejected")
	// completeness of the glue (heights within 32 bits): every condition of the property holds => accepted
	if c.best < 1<<32 && c.depthRule() && c.haveHeader && c.extraOK && zzProofSeen && !zzProofBad && len(zzProof.StorageProofs) == 1 {
		zzsym.Assert(zzVerCalls == 1 && (zzVerResult == nil || (zzChkCalls == 1 && !zzChkOK)), "a confirmed deposit is rejected only because the proof verifier or the value-hash check said no")
		zzsym.Cover("rejected-by-proof")
	}
}

func ZZ_C23_EthDepositGlue_witness() {
	c := zzSetup()
	zzsym.Assume(c.blocksToWait <= 1<<32)
	_, err := c.run()
	zzsym.Assert(err != nil, "witness: some deposit is accepted")
}

// ZZ_C23_EthBlocksToWaitRange: the confirmation-depth rule for every registrable BlocksToWait (64 bits). The code
// compares against uint32(BlocksToWait-1).
func ZZ_C23_EthBlocksToWaitRange() {
	c := zzSetup()
	_, err := c.run()
	if err == nil {
		zzsym.Cover("accepted")
		zzsym.Assert(c.depthRule(), "accepted deposit: bestHeight >= height and bestHeight-height+1 >= BlocksToWait, for every 64-bit BlocksToWait")
	}
}

