#!/usr/bin/env python3
# Generates the per-router C23 glue harnesses of the bsc-style routers from sibling.go.tmpl.
# usage: python3 harness/C23/tmpl/gen.py   (from /verif)
import json, os, subprocess
here = os.path.dirname(os.path.abspath(__file__))
root = os.path.dirname(here)
tmpl = open(os.path.join(here, 'sibling.go.tmpl')).read()
GETH = '\ttypes "github.com/ethereum/go-ethereum/core/types"'
HSETH = '\thseth "github.com/polynetwork/poly/native/service/header_sync/eth"'
STD = '&hs.HeaderWithDifficultySum{Header: h, DifficultySum: big.NewInt(1)}'
routers = [
 # dir, package, title, ctor, verify func, header_sync pkg, header type, import, record ctor, header path
 ('bsc', 'bsc', 'Bsc', 'NewHandler()', 'verifyFromTx', 'bsc', 'types.Header', GETH, STD, 'Header'),
 ('heco', 'heco', 'Heco', 'NewHecoHandler()', 'verifyFromHecoTx', 'heco', 'hseth.Header', HSETH, STD, 'Header'),
 ('hsc', 'hsc', 'Hsc', 'NewHscHandler()', 'verifyFromHscTx', 'hsc', 'hseth.Header', HSETH, STD, 'Header'),
 ('msc', 'msc', 'Msc', 'NewHandler()', 'verifyFromTx', 'msc', 'types.Header', GETH, STD, 'Header'),
 ('pixiechain', 'pixiechain', 'Pixie', 'NewPixieHandler()', 'verifyFromPixieTx', 'pixiechain', 'hseth.Header', HSETH, STD, 'Header'),
 ('polygon', 'polygon', 'Bor', 'NewHandler()', 'verifyFromTx', 'polygon', 'hseth.Header', HSETH,
  '&hs.HeaderWithDifficultySum{HeaderWithOptionalSnap: &hs.HeaderWithOptionalSnap{Header: *h}, DifficultySum: big.NewInt(1)}', 'HeaderWithOptionalSnap.Header'),
 ('bytom', 'bytom', 'Bytom', 'NewHandler()', 'verifyFromTx', 'bytom', 'types.Header', GETH, STD, 'Header'),
]
for d, pkg, title, ctor, verify, hspkg, hdrtype, imp, mk, path in routers:
    os.makedirs(os.path.join(root, d), exist_ok=True)
    s = tmpl
    for k, v in {'PKG': pkg, 'TITLE': title, 'CTOR': ctor, 'VERIFY': verify, 'HSPKG': hspkg, 'HDRTYPE': hdrtype, 'HDRIMPORT': imp, 'MKRECORD': mk, 'HDRPATH': path}.items():
        s = s.replace('@' + k + '@', v)
    open(os.path.join(root, d, 'zz_c23_%s.go' % d), 'w').write(s)
    subprocess.check_call([os.path.join(root, '..', '..', 'bin', 'gen-shared'), os.path.join('harness', 'C23', d), pkg], cwd=os.path.join(root, '..', '..'), stdout=subprocess.DEVNULL)
    ccm = 'github.com/polynetwork/poly/native/service/cross_chain_manager/' + d
    spec = {
     'property': 'C23', 'package': ccm, 'dir': 'native/service/cross_chain_manager/' + d,
     'files': [d + '/zz_native_support.go', d + '/zz_c23_%s.go' % d],
     'overrides': {
      'encoding/json.Unmarshal': 'zzJSONUnmarshal',
      ccm + '.verifyMerkleProof': 'zzVerifyMerkleProof',
      ccm + '.checkProofResult': 'zzCheckProofResult',
     },
     'harnesses': [
      {'func': 'ZZ_C23_%sDepositGlue' % title, 'covers': ['accepted', 'rejected', 'rejected-by-proof'], 'no_replay': True},
      {'func': 'ZZ_C23_%sDepositGlue_witness' % title, 'expect': 'violation', 'no_replay': True},
      {'func': 'ZZ_C23_%sBlocksToWaitRange' % title, 'covers': ['accepted'], 'no_replay': True},
      {'func': 'ZZ_C23_%sMissingHeader' % title, 'covers': ['rejected']},
     ],
     'assumptions': [
      'verifyMerkleProof, checkProofResult and encoding/json.Unmarshal are replaced by recording stubs with solver-chosen results (glue-level claim only); the glue harnesses are not replayed natively',
      'BlocksToWait >= 1 (enforced by RegisterSideChainParam.Deserialization)',
     ],
     'outside_claim': ['soundness/completeness of the MPT proof verification (go-ethereum trie, rlp, light), the RLP account comparison, the Keccak binding of the proven value'],
    }
    if d != 'bsc':
        # package loading costs about a minute per router: the quick tier runs eth, bsc and quorum only
        for h in spec['harnesses']:
            h['tiers'] = ['thorough']
    if imp == HSETH:
        spec['overrides']['github.com/polynetwork/poly/native/service/header_sync/eth/rlp.init'] = 'zzNoInit'
    if d == 'polygon':
        # this package's init() seeds a PRNG from crypto/rand (no entropy source under the engine); the PRNG is not used by the glue code
        spec['overrides']['github.com/polynetwork/poly/native/service/header_sync/polygon/types/common.init#1'] = 'zzNoInit'
        # amino codec registration (reflection) in package initialisers; the codecs are not used by the glue code
        spec['overrides']['github.com/polynetwork/poly/native/service/header_sync/polygon/types/secp256k1.init#1'] = 'zzNoInit'
        spec['overrides']['github.com/polynetwork/poly/native/service/header_sync/polygon/types.NewCDC'] = 'zzNewCDC'
        s = s.replace('func zzNoInit() {}', 'func zzNoInit() {}\n\nfunc zzNewCDC() *codec.Codec { return nil }')
        s = s.replace('import (', 'import (\n\t"github.com/cosmos/cosmos-sdk/codec"', 1)
        open(os.path.join(root, d, 'zz_c23_%s.go' % d), 'w').write(s)
    json.dump(spec, open(os.path.join(root, 'spec_%s.json' % d), 'w'), indent=1)
    print('generated', d)
