package quorum

// C23 (Quorum router, glue level): what QuorumHandler.MakeDepositProposal / verifyFromQuorumTx do around the
// header verification and the Merkle-Patricia proof verification. This router has no tracked canonical chain and
// no confirmation depth: the relayer submits the header together with the proof, and the header must be accepted
// by the tracked validator set.
//
// Real code: MakeDepositProposal (EntranceParam decoding, GetSideChain, MakeTxParam decoding, done-tx bookkeeping,
// header_sync/quorum.GetCurrentValHeight / GetValSet on a store written by the harness, epoch-height rule),
// verifyFromQuorumTx.
//
// Replaced through spec "overrides" (third-party / reflection code):
//   json.Unmarshal                 -> zzJSONUnmarshal (submitted header: harness object; proof: solver-chosen shape)
//   header_sync/quorum.VerifyQuorumHeader -> zzVerifyQuorumHeader (records arguments, solver-chosen verdict)
//   eth.VerifyMerkleProofLegacy    -> zzVerifyMerkleProof (records arguments, solver-chosen result)
//   eth.CheckProofResult           -> zzCheckProofResult (records arguments, solver-chosen verdict)
//   (*types.Header).Hash           -> zzHeaderHash (constant; only used in an error message)
//   (*big.Int).Uint64              -> zzBigUint64 (symbolic number of the submitted header; see cross_chain_manager/eth harness)
// Not replayed natively.

import (
	"bytes"
	"errors"
	"math/big"

	ecom "github.com/ethereum/go-ethereum/common"
	"github.com/ethereum/go-ethereum/core/types"
	pcom "github.com/polynetwork/poly/common"
	cstates "github.com/polynetwork/poly/core/states"
	scom "github.com/polynetwork/poly/native/service/cross_chain_manager/common"
	eth2 "github.com/polynetwork/poly/native/service/cross_chain_manager/eth"
	"github.com/polynetwork/poly/native/service/governance/side_chain_manager"
	hscom "github.com/polynetwork/poly/native/service/header_sync/common"
	hs "github.com/polynetwork/poly/native/service/header_sync/quorum"
	"github.com/polynetwork/poly/native/service/utils"
	"github.com/polynetwork/poly/zzsym"
)

func zzNoInit() {}

// (*types.Header).Hash (rlp + keccak, reflection) only feeds an error message in the glue code
func zzHeaderHash(h *types.Header) ecom.Hash { return ecom.Hash{0xEE} }

var (
	zzHeader     *types.Header
	zzHeaderBad  bool
	zzNumber     uint64
	zzProof      *eth2.ETHProof
	zzProofBad   bool
	zzProofSeen  bool
	zzQCalls     int
	zzQHeader    *types.Header
	zzQVals      hs.QuorumValSet
	zzQEpoch     bool
	zzQOK        bool
	zzVerCalls   int
	zzVerHeader  *types.Header
	zzVerProof   *eth2.ETHProof
	zzVerAddr    []byte
	zzVerResult  []byte
	zzChkCalls   int
	zzChkResult  []byte
	zzChkValue   []byte
	zzChkOK      bool
)

func zzBigUint64(x *big.Int) uint64 {
	if zzHeader != nil && x == zzHeader.Number {
		return zzNumber
	}
	b := x.Bits()
	if len(b) == 0 {
		return 0
	}
	return uint64(b[0])
}

func zzJSONUnmarshal(data []byte, v interface{}) error {
	switch t := v.(type) {
	case *types.Header:
		zzHeaderBad = zzsym.Bool("header-malformed")
		if zzHeaderBad {
			return errors.New("zz: malformed header")
		}
		// the same number object, so that zzBigUint64 recognises it
		*t = types.Header{Number: zzHeader.Number, Root: zzHeader.Root, Difficulty: zzHeader.Difficulty}
		return nil
	case *eth2.ETHProof:
		zzProofSeen = true
		zzProofBad = zzsym.Bool("proof-malformed")
		if zzProofBad {
			return errors.New("zz: malformed proof")
		}
		zzProof = &eth2.ETHProof{Address: "0x00"}
		for i := zzsym.Choose("storage-proofs", 3); i > 0; i-- {
			zzProof.StorageProofs = append(zzProof.StorageProofs, eth2.StorageProof{Key: "0x01"})
		}
		*t = *zzProof
		return nil
	}
	return errors.New("zz: json.Unmarshal target not modelled")
}

func zzVerifyQuorumHeader(vs hs.QuorumValSet, hdr *types.Header, isEpoch bool) (*hs.IstanbulExtra, error) {
	zzQCalls++
	zzQVals, zzQHeader, zzQEpoch = vs, hdr, isEpoch
	zzQOK = zzsym.Bool("header-verifies")
	if !zzQOK {
		return nil, errors.New("zz: header not signed by the validators")
	}
	return &hs.IstanbulExtra{}, nil
}

func zzVerifyMerkleProof(ethProof *eth2.ETHProof, blockData *types.Header, contractAddr []byte) ([]byte, error) {
	zzVerCalls++
	zzVerProof, zzVerHeader, zzVerAddr = ethProof, blockData, contractAddr
	switch zzsym.Choose("verify", 3) {
	case 0:
		return nil, errors.New("zz: proof does not verify")
	case 1:
		return nil, nil
	}
	zzVerResult = zzsym.Bytes("proven", 4)
	return zzVerResult, nil
}

func zzCheckProofResult(result, value []byte) bool {
	zzChkCalls++
	zzChkResult, zzChkValue = result, value
	zzChkOK = zzsym.Bool("valuehash-matches")
	return zzChkOK
}

func zzQuorumCase(check bool) {
	zzHeaderBad, zzProofSeen, zzProofBad, zzProof = false, false, false, nil
	zzQCalls, zzVerCalls, zzChkCalls = 0, 0, 0
	zzQHeader, zzQVals, zzVerHeader, zzVerProof, zzVerAddr, zzVerResult, zzChkResult, zzChkValue = nil, nil, nil, nil, nil, nil, nil, nil
	db := zzNewCacheDB()
	chain := uint64(2)
	ccmc := zzsym.Bytes("ccmc", 20)
	ns := zzNative(db, nil)
	if side_chain_manager.PutSideChain(ns, &side_chain_manager.SideChain{ChainId: chain, Router: 2, Name: "quorum", BlocksToWait: 1, CCMCAddress: ccmc}) != nil {
		panic("zz: PutSideChain")
	}
	other := append([]byte{}, ccmc...)
	other[0] ^= 0x80
	side_chain_manager.PutSideChain(ns, &side_chain_manager.SideChain{ChainId: chain + 1, Router: 2, Name: "quorum2", BlocksToWait: 1, CCMCAddress: other})

	// tracked validator sets (what header sync's putValSet writes): source chain and a neighbour
	valh := zzsym.U64("valheight")
	put := func(c uint64, h uint64, tag byte) hs.QuorumValSet {
		vs := hs.QuorumValSet{ecom.Address{tag, 1}, ecom.Address{tag, 2}, ecom.Address{tag, 3}}
		sink := pcom.NewZeroCopySink(nil)
		vs.Serialize(sink)
		db.Put(utils.ConcatKey(utils.HeaderSyncContractAddress, []byte(hscom.CONSENSUS_PEER), utils.GetUint64Bytes(c)), cstates.GenRawStorageItem(sink.Bytes()))
		db.Put(utils.ConcatKey(utils.HeaderSyncContractAddress, []byte(hscom.CONSENSUS_PEER_BLOCK_HEIGHT), utils.GetUint64Bytes(c)), cstates.GenRawStorageItem(utils.GetUint64Bytes(h)))
		return vs
	}
	vals := put(chain, valh, 0x11)
	put(chain+1, 0, 0x22)

	// the submitted header
	zzNumber = zzsym.U64("number")
	zzHeader = &types.Header{Number: big.NewInt(1000), Difficulty: big.NewInt(1)}
	copy(zzHeader.Root[:], zzsym.Bytes("root", 32))

	param := &scom.MakeTxParam{TxHash: zzsym.Bytes("txhash", 2), CrossChainID: zzsym.Bytes("ccid", 2), FromContractAddress: zzsym.Bytes("from", 2),
		ToChainID: zzsym.U64("tochain"), ToContractAddress: zzsym.Bytes("to", 2), Method: "unlock", Args: zzsym.Bytes("args", 3)}
	sink := pcom.NewZeroCopySink(nil)
	param.Serialization(sink)
	extra := sink.Bytes()
	extraOK := zzsym.Choose("extra-truncated", 2) == 0
	if !extraOK {
		extra = extra[:len(extra)-1]
	}
	p := &scom.EntranceParam{SourceChainID: chain, Height: zzsym.U32("height"), Proof: []byte{0x7b}, RelayerAddress: []byte{1}, Extra: extra, HeaderOrCrossChainMsg: []byte{0x7b}}
	sink = pcom.NewZeroCopySink(nil)
	p.Serialization(sink)
	got, err := NewQuorumHandler().MakeDepositProposal(zzNative(db, sink.Bytes()))
	if !check {
		zzsym.Assert(err != nil, "witness: some deposit is accepted")
		return
	}
	if err != nil {
		zzsym.Cover("rejected")
		if extraOK && !zzHeaderBad && zzNumber >= valh && zzQCalls == 1 && zzQOK && zzProofSeen && !zzProofBad && len(zzProof.StorageProofs) == 1 {
			zzsym.Assert(zzVerCalls == 1 && (zzVerResult == nil || (zzChkCalls == 1 && !zzChkOK)), "a deposit under a verified header is rejected only because the proof verifier or the value-hash check said no")
			zzsym.Cover("rejected-by-proof")
		}
		return
	}
	zzsym.Cover("accepted")
	zzsym.Assert(!zzHeaderBad && zzNumber >= valh, "accepted deposit: the submitted header is not older than the tracked validator set")
	zzsym.Assert(zzQCalls == 1 && zzQOK && !zzQEpoch && zzQHeader != nil && zzQHeader.Root == zzHeader.Root && len(zzQVals) == len(vals) && zzQVals[0] == vals[0] && zzQVals[1] == vals[1] && zzQVals[2] == vals[2],
		"accepted deposit: the submitted header was verified against the tracked validator set of the source chain")
	zzsym.Assert(zzProofSeen && !zzProofBad && zzProof != nil && len(zzProof.StorageProofs) == 1, "accepted deposit: the proof object is well-formed and has exactly one storage proof")
	zzsym.Assert(zzVerCalls == 1 && zzVerHeader == zzQHeader && zzVerProof != nil && len(zzVerProof.StorageProofs) == 1, "accepted deposit: the proof verifier ran once, on the verified header and the relayer's proof")
	zzsym.Assert(bytes.Equal(zzVerAddr, ccmc), "accepted deposit: the contract address handed to the proof verifier is the registered CCMC address of the source chain")
	zzsym.Assert(zzVerResult != nil && zzChkCalls == 1 && zzChkOK && bytes.Equal(zzChkResult, zzVerResult) && bytes.Equal(zzChkValue, extra),
		"accepted deposit: CheckProofResult was consulted on (proven value, extra) and agreed")
	zzsym.Assert(extraOK && got != nil && bytes.Equal(got.TxHash, param.TxHash) && bytes.Equal(got.CrossChainID, param.CrossChainID) &&
		bytes.Equal(got.FromContractAddress, param.FromContractAddress) && got.ToChainID == param.ToChainID &&
		bytes.Equal(got.ToContractAddress, param.ToContractAddress) && got.Method == param.Method && bytes.Equal(got.Args, param.Args),
		"accepted deposit: the returned message is the decoded extra")
}

func ZZ_C23_QuorumDepositGlue() { zzQuorumCase(true) }

func ZZ_C23_QuorumDepositGlue_witness() { zzQuorumCase(false) }
