package eth

// C23, clause "the proven storage value equals the Keccak-256 hash of the submitted message": the real
// CheckProofResult (shared by the eth and quorum routers) for every RLP item of up to 34 bytes and every message of
// up to 3 bytes; Keccak-256 is an uninterpreted function of the message, so the solver is free to pick any hash
// value, in particular one that agrees with a shorter proven value on its tail.
//
// rlp.DecodeBytes (reflection) is replaced under the engine by the model below for the one target type used here
// (*[]byte): single byte < 0x80, short string 0x80+n with canonical-size rule, everything else (long-string
// headers, which need >= 56 bytes of input, and lists) an error. Natively the real rlp package runs, so a
// counterexample is replayed against the real decoder.

import (
	"bytes"
	"errors"

	"github.com/ethereum/go-ethereum/crypto"
	"github.com/polynetwork/poly/zzsym"
)

func zzRlpString(b []byte) ([]byte, bool) {
	if len(b) == 0 {
		return nil, false
	}
	switch {
	case b[0] < 0x80:
		if len(b) != 1 {
			return nil, false
		}
		return []byte{b[0]}, true
	case b[0] <= 0xB7:
		n := int(b[0] - 0x80)
		if len(b) != 1+n {
			return nil, false
		}
		if n == 1 && b[1] < 0x80 {
			return nil, false // non-canonical: a single byte below 0x80 must be its own encoding
		}
		return append([]byte(nil), b[1:]...), true
	}
	return nil, false
}

func zzRlpDecodeBytes(b []byte, val interface{}) error {
	p, ok := val.(*[]byte)
	if !ok {
		panic("zz: rlp.DecodeBytes target not modelled")
	}
	s, ok := zzRlpString(b)
	if !ok {
		return errors.New("zz: rlp decoding error")
	}
	*p = s
	return nil
}

func ZZ_C23_EthCheckProofResult() {
	result := zzsym.BytesChoose("result", zzsym.Param("R"))
	value := zzsym.BytesChoose("value", zzsym.Param("V"))
	got := CheckProofResult(result, value)

	s, ok := zzRlpString(result)
	hash := crypto.Keccak256(value)
	want := false
	if ok && len(s) <= 32 {
		padded := append(make([]byte, 32-len(s)), s...)
		want = bytes.Equal(padded, hash)
	}
	zzsym.Assert(got == want, "the proof result is accepted exactly when the proven value, left-padded to 32 bytes, is the Keccak-256 hash of the submitted message")
	if got {
		zzsym.Cover("value-accepted")
		if len(s) < 32 {
			zzsym.Cover("short-value-accepted") // hash with leading zero bytes
		}
	} else {
		zzsym.Cover("value-rejected")
	}
}

func ZZ_C23_EthCheckProofResult_witness() {
	result := zzsym.Bytes("result", 33)
	value := zzsym.Bytes("value", 1)
	zzsym.Assert(!CheckProofResult(result, value), "witness: some proven value matches the message hash")
}
func zzNoInitCpr() {}
