package proc

import (
	"github.com/polynetwork/poly/common"
	"github.com/polynetwork/poly/core/payload"
	scommon "github.com/polynetwork/poly/core/store/common"
	"github.com/polynetwork/poly/core/types"
	tc "github.com/polynetwork/poly/txnpool/common"
	"github.com/polynetwork/poly/zzsym"
)

// ---- replaced callees (spec "overrides") ----------------------------------------------------------------

var (
	zzPoolCount int                  // what getTransactionCount answers
	zzAssigned  []*types.Transaction // transactions handed to a worker
)

// every signer is a registered relayer: sender admission is C36's subject
func zzC37GetStorageItem(contract common.Address, key []byte) ([]byte, error) {
	if len(key) == 0 {
		return nil, scommon.ErrNotFound
	}
	return []byte{1}, nil
}

func zzC37UpdatePermitted(m map[common.Address]bool) error { return nil }

func zzC37Count(s *TXPoolServer) int { return zzPoolCount }

func zzC37Assign(s *TXPoolServer, tx *types.Transaction, sender tc.SenderType, ch chan *tc.TxResult) bool {
	zzAssigned = append(zzAssigned, tx)
	return true
}

func zzC37Tx(tag string) *types.Transaction {
	tx := &types.Transaction{TxType: types.Invoke, Nonce: zzsym.U32(tag), Payload: &payload.InvokeCode{Code: []byte{}}}
	sink := common.NewZeroCopySink(nil)
	if err := tx.Serialization(sink); err != nil {
		panic("zz: tx does not serialize")
	}
	out, err := types.TransactionFromRawBytes(sink.Bytes())
	if err != nil {
		panic("zz: tx does not decode")
	}
	var a common.Address
	copy(a[:], zzsym.Bytes(tag+".signer", common.ADDR_LEN))
	out.SignedAddr = []common.Address{a}
	return out
}

// The admission test of TxActor.handleTransaction: a transaction is handed to a worker only if it is not pooled
// already and the pool holds fewer than MAX_CAPACITY transactions (symbolic pool size).
func ZZ_C37_CapacityAdmission() {
	s := &TXPoolServer{txPool: &tc.TXPool{}, slots: make(chan struct{}, 2)}
	s.txPool.Init()
	s.stats = txStats{count: make([]uint64, tc.MaxStats-1)}
	s.slots <- struct{}{}
	ta := &TxActor{server: s}
	pooled := zzC37Tx("pooled")
	s.txPool.AddTxList(&tc.TXEntry{Tx: pooled})
	tx := zzC37Tx("tx")
	zzPoolCount = zzsym.Int("count")
	zzsym.Assume(zzPoolCount >= 0)
	zzAssigned = nil
	sender := tc.SenderType(1 + zzsym.Choose("sender", 2))
	var ch chan *tc.TxResult
	if zzsym.Choose("reply", 2) == 1 {
		ch = make(chan *tc.TxResult, 1)
	}
	ta.handleTransaction(sender, nil, tx, ch)
	dup := tx.Hash() == pooled.Hash()
	if len(zzAssigned) > 0 {
		zzsym.Assert(len(zzAssigned) == 1 && zzAssigned[0] == tx, "exactly the submitted transaction is handed to a worker")
		zzsym.Assert(zzPoolCount < tc.MAX_CAPACITY, "a transaction is admitted only while the pool holds fewer than MAX_CAPACITY transactions")
		zzsym.Assert(!dup, "a transaction that is already pooled is not admitted again")
		zzsym.Assert(len(s.slots) == 0, "an admitted transaction takes a slot")
		zzsym.Cover("admitted")
	} else {
		zzsym.Assert(dup || zzPoolCount >= tc.MAX_CAPACITY, "a new transaction is refused only when the pool is full")
		zzsym.Assert(len(s.slots) == 1, "a refused transaction takes no slot")
		if ch != nil && sender == tc.HttpSender {
			zzsym.Assert(len(ch) == 1, "an RPC submitter is told about the refusal")
		}
		if !dup {
			zzsym.Cover("pool-full")
		} else {
			zzsym.Cover("duplicate")
		}
	}
	zzsym.Cover("admission-done")
}

func ZZ_C37_CapacityAdmission_witness() {
	s := &TXPoolServer{txPool: &tc.TXPool{}, slots: make(chan struct{}, 2)}
	s.txPool.Init()
	s.stats = txStats{count: make([]uint64, tc.MaxStats-1)}
	s.slots <- struct{}{}
	zzPoolCount = zzsym.Int("count")
	zzsym.Assume(zzPoolCount >= 0)
	zzAssigned = nil
	(&TxActor{server: s}).handleTransaction(tc.NetSender, nil, zzC37Tx("tx"), nil)
	zzsym.Assert(len(zzAssigned) == 1, "witness: a full pool refuses the transaction")
}
