package common

import (
	"sync"

	"github.com/polynetwork/poly/zzsym"
)

// ---- two pool operations of different goroutines, interleaved at the pool lock -----------------------------
//
// The spec overrides (*sync.RWMutex).Lock and RLock by the wrappers below (a wrapper that calls the function it
// replaces gets the original). When the first operation arrives at its k-th lock acquisition (k solver-chosen)
// the second operation runs to completion first: the schedule "goroutine A is descheduled just before taking the
// lock, goroutine B runs". If an operation splits its work over two critical sections (check under one lock, act
// under the next) the second section then sees a pool that changed since the check. The outcome of the pair must
// be the outcome of one of the two sequential orders.

var (
	zzPreempt   func()
	zzPreemptAt int
)

func zzArrive() {
	if zzPreempt == nil {
		return
	}
	if zzPreemptAt > 0 {
		zzPreemptAt--
		return
	}
	f := zzPreempt
	zzPreempt = nil
	f()
}

func zzWLock(m *sync.RWMutex) { zzArrive(); m.Lock() }
func zzRLock(m *sync.RWMutex) { zzArrive(); m.RLock() }

// AddTxList || AddTxList, and AddTxList || DelTxList, on the same transaction hash.
func ZZ_C37_ConcurrentPair() {
	tp := &TXPool{}
	tp.Init()
	m := &zzModel{}
	present := zzsym.Choose("initially-pooled", 2) == 1
	e0 := zzEntry()
	if present {
		if !tp.AddTxList(e0) {
			panic("zz: initial add")
		}
		m.ents = append(m.ents, e0)
	}
	zzsym.Guard(true)
	// both operations are about e0's hash
	eA := &TXEntry{Tx: e0.Tx, Attrs: zzEntry().Attrs}
	eB := &TXEntry{Tx: e0.Tx, Attrs: zzEntry().Attrs}
	second := zzsym.Choose("second-op", 2) // 0: AddTxList(eB), 1: DelTxList(tx)
	var rB bool
	zzPreemptAt = zzsym.Choose("switch-at-lock", 3) // A's 1st, 2nd or 3rd lock acquisition (if it has that many)
	zzPreempt = func() {
		if second == 0 {
			rB = tp.AddTxList(eB)
		} else {
			rB = tp.DelTxList(e0.Tx)
		}
	}
	rA := tp.AddTxList(eA)
	ran := zzPreempt == nil
	zzPreempt = nil
	if !ran { // A took fewer locks than the chosen switch point: B simply runs after A
		if second == 0 {
			rB = tp.AddTxList(eB)
		} else {
			rB = tp.DelTxList(e0.Tx)
		}
		zzsym.Cover("no-switch")
	} else {
		zzsym.Cover("switched")
	}
	zzUnlocked(tp)
	tp.RLock()
	final, inPool := tp.txList[e0.Tx.Hash()]
	n := len(tp.txList)
	tp.RUnlock()

	if second == 0 {
		if present {
			zzsym.Assert(!rA && !rB && inPool && final == e0 && n == 1, "two adds of a pooled hash are both refused and leave the pooled entry in place")
		} else {
			zzsym.Assert(rA != rB, "of two concurrent adds of the same hash exactly one succeeds")
			zzsym.Assert(inPool && n == 1, "the pool then holds that hash once")
			if rA {
				zzsym.Assert(final == eA, "the pooled entry is the one whose add succeeded (its verification results are not replaced)")
			} else {
				zzsym.Assert(final == eB, "the pooled entry is the one whose add succeeded (its verification results are not replaced)")
			}
		}
		zzsym.Cover("add-add")
	} else {
		// sequential outcomes: A;B = (add: !present, del: true, absent)   B;A = (del: present, add: true, pooled eA)
		ab := rA == !present && rB && !inPool && n == 0
		ba := rB == present && rA && inPool && final == eA && n == 1
		zzsym.Assert(ab || ba, "a concurrent add and delete of one hash behave like one of their two sequential orders")
		zzsym.Cover("add-del")
	}
	zzsym.Cover("pair-done")
}

func ZZ_C37_ConcurrentPair_witness() {
	tp := &TXPool{}
	tp.Init()
	e0 := zzEntry()
	eB := &TXEntry{Tx: e0.Tx, Attrs: e0.Attrs}
	ranB := false
	zzPreemptAt = 0
	zzPreempt = func() { ranB = tp.AddTxList(eB) }
	rA := tp.AddTxList(e0)
	zzsym.Assert(!(ranB && !rA), "witness: the second goroutine's add runs first and wins")
}
