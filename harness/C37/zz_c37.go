package common

import (
	"github.com/polynetwork/poly/common"
	"github.com/polynetwork/poly/common/config"
	"github.com/polynetwork/poly/core/payload"
	"github.com/polynetwork/poly/core/types"
	"github.com/polynetwork/poly/errors"
	vt "github.com/polynetwork/poly/validator/types"
	"github.com/polynetwork/poly/zzsym"
)

// conjunction / disjunction as single terms (array equality does not fork, && and || would)
func zzAnd(a, b bool) bool { return [2]bool{a, b} == [2]bool{true, true} }
func zzOr(a, b bool) bool  { return [2]bool{a, b} != [2]bool{false, false} }

// zzTx builds a real transaction whose identity (double SHA-256 of the unsigned part, set by the real
// decoder) depends on a symbolic nonce.
func zzTx(tag string) *types.Transaction {
	tx := &types.Transaction{TxType: types.Invoke, Nonce: zzsym.U32(tag), Payload: &payload.InvokeCode{Code: []byte{}}}
	sink := common.NewZeroCopySink(nil)
	if err := tx.Serialization(sink); err != nil {
		panic("zz: tx does not serialize")
	}
	out, err := types.TransactionFromRawBytes(sink.Bytes())
	if err != nil {
		panic("zz: tx does not decode")
	}
	return out
}

// zzEntry: a pool entry as the worker builds it (txnpool_worker.go handleRsp/putTxPool adds an entry only
// when flag == VERIFY_MASK): exactly one stateless and one stateful result, in the order the validators
// answered (symbolic when the harness parameter AO is 1, stateless first otherwise), symbolic heights.
func zzEntry() *TXEntry {
	t0 := vt.Stateless
	if zzsym.Param("AO") == 1 {
		t0 = vt.VerifyType(zzsym.U8("attr0.type"))
		zzsym.Assume(t0 <= vt.Stateful)
	}
	t1 := vt.Stateful - t0
	return &TXEntry{Tx: zzTx("nonce"), Attrs: []*TXAttr{
		{Height: zzsym.U32("attr0.height"), Type: t0, ErrCode: errors.ErrCode(zzsym.I32("attr0.err"))},
		{Height: zzsym.U32("attr1.height"), Type: t1, ErrCode: errors.ErrCode(zzsym.I32("attr1.err"))},
	}}
}

// stale: some stateful result is older than the requested height (single term, no fork)
func zzStale(e *TXEntry, height uint32) bool {
	s := false
	for _, a := range e.Attrs {
		s = zzOr(s, zzAnd(a.Type == vt.Stateful, a.Height < height))
	}
	return s
}

func zzStateful(e *TXEntry) *TXAttr {
	for _, a := range e.Attrs {
		if a.Type == vt.Stateful {
			return a
		}
	}
	return nil
}

// ---- reference model: a set of entries keyed by transaction hash ----

type zzModel struct{ ents []*TXEntry }

func (m *zzModel) find(h common.Uint256) int {
	for i, e := range m.ents {
		if e.Tx.Hash() == h {
			return i
		}
	}
	return -1
}

func (m *zzModel) findEntry(p *TXEntry) int {
	for i, e := range m.ents {
		if e == p {
			return i
		}
	}
	return -1
}

func (m *zzModel) findTx(p *types.Transaction) int {
	for i, e := range m.ents {
		if e.Tx == p {
			return i
		}
	}
	return -1
}

func (m *zzModel) remove(i int) {
	m.ents = append(append([]*TXEntry(nil), m.ents[:i]...), m.ents[i+1:]...)
}

// the engine reports Lock of a (read- or write-) held mutex: every method must have released the pool lock
func zzUnlocked(tp *TXPool) {
	tp.Lock()
	tp.Unlock()
}

// pool == model: same size, every model entry retrievable under its hash, hashes pairwise distinct
func zzSync(tp *TXPool, m *zzModel) {
	zzsym.Assert(tp.GetTransactionCount() == len(m.ents), "the pool holds exactly the model's transactions")
	zzUnlocked(tp)
	zzsym.Assert(len(m.ents) <= MAX_CAPACITY, "the pool is within its capacity")
	for i, e := range m.ents {
		zzsym.Assert(tp.GetTransaction(e.Tx.Hash()) == e.Tx, "every pooled transaction is found under its own hash")
		zzUnlocked(tp)
		st := tp.GetTxStatus(e.Tx.Hash())
		zzUnlocked(tp)
		zzsym.Assert(st != nil && st.Hash == e.Tx.Hash() && len(st.Attrs) == len(e.Attrs), "the status of a pooled transaction is its entry's")
		for j := 0; j < i; j++ {
			zzsym.Assert(m.ents[j].Tx.Hash() != e.Tx.Hash(), "the pool never holds two transactions with the same hash")
		}
	}
}

func zzOpAdd(tp *TXPool, m *zzModel) {
	e := zzEntry()
	i := m.find(e.Tx.Hash())
	ok := tp.AddTxList(e)
	zzUnlocked(tp)
	if i >= 0 {
		zzsym.Assert(!ok, "adding a transaction whose hash is pooled is refused")
		tp.RLock() // the harness, too, reads the map only under the lock (lock-discipline monitor)
		kept := tp.txList[e.Tx.Hash()]
		tp.RUnlock()
		zzsym.Assert(kept == m.ents[i], "a refused add leaves the pooled entry in place")
		zzsym.Cover("add-duplicate")
	} else {
		zzsym.Assert(ok, "adding a new transaction succeeds")
		m.ents = append(m.ents, e)
		zzsym.Cover("add-new")
	}
}

func zzOpDel(tp *TXPool, m *zzModel) {
	tx := zzTx("del")
	i := m.find(tx.Hash())
	ok := tp.DelTxList(tx)
	zzUnlocked(tp)
	zzsym.Assert(ok == (i >= 0), "DelTxList reports whether the transaction was pooled")
	if i >= 0 {
		m.remove(i)
		zzsym.Cover("del-hit")
	}
}

func zzOpClean(tp *TXPool, m *zzModel, n int) {
	var txs []*types.Transaction
	for k := 0; k < n; k++ {
		txs = append(txs, zzTx("clean"))
	}
	err := tp.CleanTransactionList(txs)
	zzUnlocked(tp)
	zzsym.Assert(err == nil, "cleaning the transactions of a committed block succeeds")
	for _, tx := range txs {
		if i := m.find(tx.Hash()); i >= 0 {
			m.remove(i)
			zzsym.Cover("clean-hit")
		}
	}
	for _, tx := range txs {
		zzsym.Assert(tp.GetTransaction(tx.Hash()) == nil, "every transaction of the committed block is gone")
	}
	// exactly those: zzSync (called by the driver) compares the rest with the model
}

func zzOpGet(tp *TXPool, m *zzModel) {
	byCount := zzsym.Bool("byCount")
	height := zzsym.U32("height")
	max := zzsym.U64("MaxTxInBlock")
	config.DefConfig.Consensus.MaxTxInBlock = uint(max)
	got, old := tp.GetTxPool(byCount, height)
	zzUnlocked(tp)
	limited := zzAnd(byCount, int(max) > 0)
	zzsym.Assert(zzOr(!limited, len(got) <= int(max)), "consensus gets at most the configured number of transactions")
	seen := make([]bool, len(m.ents))
	for _, e := range got {
		i := m.findEntry(e)
		zzsym.Assert(i >= 0, "consensus gets pooled entries only")
		if i >= 0 {
			zzsym.Assert(!seen[i], "no entry is handed out twice")
			seen[i] = true
			zzsym.Assert(!zzStale(e, height), "every transaction handed to consensus was verified at or after the requested height")
		}
	}
	for _, tx := range old {
		i := m.findTx(tx)
		zzsym.Assert(i >= 0, "only pooled transactions are reported for re-verification")
		if i >= 0 {
			zzsym.Assert(!seen[i], "a transaction is either handed out or reported old, not both")
			seen[i] = true
			zzsym.Assert(zzStale(m.ents[i], height), "only transactions verified below the requested height are reported old")
			zzsym.Cover("get-old")
		}
	}
	all := true
	for _, s := range seen {
		all = all && s
	}
	// entries may be left unclassified only because the configured count was reached
	zzsym.Assert(zzOr(all, zzAnd(limited, len(got) >= int(max))), "every pooled transaction is handed out or reported old unless the count limit was reached")
	if !all {
		zzsym.Cover("get-capped")
	}
	zzsym.Cover("get")
}

func zzOpUnverified(tp *TXPool, m *zzModel, n int) {
	var txs []*types.Transaction
	for k := 0; k < n; k++ {
		txs = append(txs, zzTx("blk"))
	}
	height := zzsym.U32("height")
	res := tp.GetUnverifiedTxs(txs, height)
	zzUnlocked(tp)
	v, u, o := 0, 0, 0
	for _, tx := range txs {
		i := m.find(tx.Hash())
		if i < 0 {
			zzsym.Assert(u < len(res.UnverifiedTxs) && res.UnverifiedTxs[u] == tx, "a block transaction that is not pooled is reported unverified")
			u++
			zzsym.Cover("unv-unknown")
			continue
		}
		e := m.ents[i]
		if zzStale(e, height) {
			zzsym.Assert(o < len(res.OldTxs) && res.OldTxs[o] == e.Tx, "a pooled transaction verified below the block height is reported for re-verification")
			o++
			m.remove(i) // and leaves the pool
			zzsym.Cover("unv-old")
			continue
		}
		a := zzStateful(e)
		zzsym.Assert(v < len(res.VerifiedTxs) && res.VerifiedTxs[v].Tx == tx, "a pooled transaction verified at or after the block height is reported verified")
		if v < len(res.VerifiedTxs) {
			zzsym.Assert(zzAnd(res.VerifiedTxs[v].Height == a.Height, res.VerifiedTxs[v].ErrCode == a.ErrCode), "the verified result carries the stateful validator's height and code")
		}
		v++
		zzsym.Cover("unv-verified")
	}
	zzsym.Assert(v == len(res.VerifiedTxs) && u == len(res.UnverifiedTxs) && o == len(res.OldTxs), "each block transaction is reported in exactly one list")
}

func zzOpRemain(tp *TXPool, m *zzModel) {
	rest := tp.Remain()
	zzUnlocked(tp)
	zzsym.Assert(len(rest) == len(m.ents), "Remain returns every pooled transaction once")
	seen := make([]bool, len(m.ents))
	for _, tx := range rest {
		i := m.findTx(tx)
		zzsym.Assert(i >= 0 && !seen[i], "Remain returns pooled transactions, each once")
		if i >= 0 {
			seen[i] = true
		}
	}
	m.ents = nil
	zzsym.Cover("remain")
}

// zzFilled: an arbitrary pool state of up to K entries (hashes possibly equal: the duplicate is refused)
func zzFilled() (*TXPool, *zzModel) {
	tp := &TXPool{}
	tp.Init()
	zzUnlocked(tp)
	zzsym.Guard(true) // from here on the pool is shared: txList only under the pool lock (spec "guarded")
	m := &zzModel{}
	n := zzsym.Choose("fill", zzsym.Param("K")+1)
	for k := 0; k < n; k++ {
		zzOpAdd(tp, m)
	}
	zzSync(tp, m)
	return tp, m
}

// Every pool state of <= K entries, one GetTxPool with symbolic byCount / height / MaxTxInBlock; every Go map
// iteration order is explored (spec all_map_orders).
func ZZ_C37_GetTxPool() {
	tp, m := zzFilled()
	zzOpGet(tp, m)
	zzSync(tp, m)
	zzsym.Cover("gettxpool-done")
}

// Every pool state of <= K entries, one GetUnverifiedTxs for a block of 1..N transactions.
func ZZ_C37_GetUnverified() {
	tp, m := zzFilled()
	zzOpUnverified(tp, m, 1+zzsym.Choose("nblk", zzsym.Param("N")))
	zzSync(tp, m)
	zzsym.Cover("unverified-done")
}

// Every pool state of <= K entries: a committed block of 0..N transactions is cleaned (exactly those leave),
// then one DelTxList, then Remain empties the pool.
func ZZ_C37_CleanDelRemain() {
	tp, m := zzFilled()
	zzOpClean(tp, m, zzsym.Choose("nclean", zzsym.Param("N")+1))
	zzSync(tp, m)
	zzOpDel(tp, m)
	zzSync(tp, m)
	zzOpRemain(tp, m)
	zzSync(tp, m)
	zzsym.Assert(tp.GetTransactionCount() == 0, "the pool is empty after Remain")
	zzsym.Cover("clean-done")
}

// Sequential specification: arbitrary operation sequences against the set model; the pool lock is free
// after every method (lock discipline), and the pool equals the model after every step.
func ZZ_C37_OpsAgainstModel() {
	T := zzsym.Param("T")
	tp := &TXPool{}
	tp.Init()
	zzUnlocked(tp)
	zzsym.Guard(true) // from here on the pool is shared: txList only under the pool lock (spec "guarded")
	m := &zzModel{}
	for t := 0; t < T; t++ {
		switch zzsym.Choose("op", 6) {
		case 0:
			zzOpAdd(tp, m)
		case 1:
			zzOpDel(tp, m)
		case 2:
			zzOpClean(tp, m, 1)
		case 3:
			zzOpGet(tp, m)
		case 4:
			zzOpUnverified(tp, m, 1)
		case 5:
			zzOpRemain(tp, m)
		}
		zzSync(tp, m)
	}
	zzsym.Cover("ops-done")
}

func ZZ_C37_OpsAgainstModel_witness() {
	tp := &TXPool{}
	tp.Init()
	m := &zzModel{}
	zzOpAdd(tp, m)
	e := zzEntry()
	zzsym.Assert(tp.AddTxList(e), "witness: the second add can be a duplicate")
}

func ZZ_C37_GetTxPool_witness() {
	tp := &TXPool{}
	tp.Init()
	m := &zzModel{}
	zzOpAdd(tp, m)
	zzOpAdd(tp, m)
	config.DefConfig.Consensus.MaxTxInBlock = uint(zzsym.U64("MaxTxInBlock"))
	got, _ := tp.GetTxPool(zzsym.Bool("byCount"), zzsym.U32("height"))
	zzsym.Assert(len(got) == len(m.ents), "witness: stale entries and the count limit can withhold transactions")
}

func ZZ_C37_GetUnverified_witness() {
	tp := &TXPool{}
	tp.Init()
	m := &zzModel{}
	zzOpAdd(tp, m)
	res := tp.GetUnverifiedTxs([]*types.Transaction{zzTx("blk")}, zzsym.U32("height"))
	zzsym.Assert(len(res.VerifiedTxs) == 1, "witness: the block transaction can be unknown or stale")
}

func ZZ_C37_CleanDelRemain_witness() {
	tp := &TXPool{}
	tp.Init()
	m := &zzModel{}
	zzOpAdd(tp, m)
	tp.CleanTransactionList([]*types.Transaction{zzTx("clean")})
	zzsym.Assert(tp.GetTransactionCount() == 1, "witness: the cleaned transaction can be the pooled one")
}

// witness for the lock-discipline monitor: a read of the pool's map outside the lock is reported
func ZZ_C37_LockDiscipline_witness() {
	tp := &TXPool{}
	tp.Init()
	zzsym.Guard(true)
	if len(tp.txList) != 0 {
		panic("zz: fresh pool not empty")
	}
}
