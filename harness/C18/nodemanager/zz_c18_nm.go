package node_manager

import (
	"encoding/hex"

	"github.com/ontio/ontology-crypto/keypair"
	"github.com/polynetwork/poly/common"
	cstates "github.com/polynetwork/poly/core/states"
	"github.com/polynetwork/poly/core/types"
	"github.com/polynetwork/poly/native"
	"github.com/polynetwork/poly/native/service/utils"
	"github.com/polynetwork/poly/native/storage"
	"github.com/polynetwork/poly/zzsym"
)

func zzAddr(name string) common.Address {
	var a common.Address
	copy(a[:], zzsym.Bytes(name, 20))
	return a
}

// 0..S arbitrary signer addresses
func zzSigners() []common.Address {
	var s []common.Address
	n := zzsym.Choose("signers", zzsym.Param("S")+1)
	for i := 0; i < n; i++ {
		s = append(s, zzAddr("signer"))
	}
	return s
}

func zzSignedBy(s []common.Address, a common.Address) bool {
	in := false
	for _, x := range s {
		if x == a {
			in = true
		}
	}
	return in
}

func zzNativeAt(db *storage.CacheDB, input []byte, height uint32, signers []common.Address) *native.NativeService {
	ns, err := native.NewNativeService(db, &types.Transaction{SignedAddr: signers}, 0, height, common.Uint256{}, 0, input, false)
	if err != nil {
		panic("zz: NewNativeService")
	}
	return ns
}

func zzPeerInput(pubkey string, who common.Address) []byte {
	sink := common.NewZeroCopySink(nil)
	(&PeerParam{PeerPubkey: pubkey, Address: who}).Serialization(sink)
	return sink.Bytes()
}

// ZZ_C18_NodeOwnerOps: the owner-only / named-approver operations of node_manager succeed only when the transaction is
// witnessed by the address named in the parameters (and, for unregister and quit, that address is the recorded owner).
// State: five consensus members (keys 0..4), a pending application of key 5 by a symbolic owner, key 6 blacklisted.
func zzNodeOwnerOp() (err error, named common.Address, signers []common.Address, mustBe *common.Address) {
	db := zzNewCacheDB()
	zzConsensusPool(db, 5)
	putCandidateIndex(zzNative(db, nil), 6)
	applicant := zzAddr("applicant")
	putPeerApply(zzNative(db, nil), &RegisterPeerParam{PeerPubkey: zzValidatorKeyHex[5], Address: applicant})
	raw6, _ := hex.DecodeString(zzValidatorKeyHex[6])
	sink := common.NewZeroCopySink(nil)
	(&BlackListItem{PeerPubkey: zzValidatorKeyHex[6], Address: zzValidatorAddr(6)}).Serialization(sink)
	db.Put(utils.ConcatKey(utils.NodeManagerContractAddress, []byte(BLACK_LIST), raw6), cstates.GenRawStorageItem(sink.Bytes()))

	named = zzAddr("named")
	signers = zzSigners()
	switch zzsym.Choose("op", 6) {
	case 0: // registerCandidate(key 7, named)
		s := common.NewZeroCopySink(nil)
		(&RegisterPeerParam{PeerPubkey: zzValidatorKeyHex[7], Address: named}).Serialization(s)
		_, err = RegisterCandidate(zzNativeAt(db, s.Bytes(), 100, signers))
		zzsym.Cover("register")
	case 1:
		_, err = UnRegisterCandidate(zzNativeAt(db, zzPeerInput(zzValidatorKeyHex[5], named), 100, signers))
		mustBe = &applicant
		zzsym.Cover("unregister")
	case 2:
		_, err = QuitNode(zzNativeAt(db, zzPeerInput(zzValidatorKeyHex[0], named), 100, signers))
		owner0 := zzValidatorAddr(0)
		mustBe = &owner0
		zzsym.Cover("quit")
	case 3:
		_, err = ApproveCandidate(zzNativeAt(db, zzPeerInput(zzValidatorKeyHex[5], named), 100, signers))
		zzsym.Cover("approve")
	case 4:
		s := common.NewZeroCopySink(nil)
		(&PeerListParam{PeerPubkeyList: []string{zzValidatorKeyHex[4]}, Address: named}).Serialization(s)
		_, err = BlackNode(zzNativeAt(db, s.Bytes(), 100, signers))
		zzsym.Cover("black")
	case 5:
		_, err = WhiteNode(zzNativeAt(db, zzPeerInput(zzValidatorKeyHex[6], named), 100, signers))
		zzsym.Cover("white")
	}
	return
}

func ZZ_C18_NodeOwnerOps() {
	err, named, signers, mustBe := zzNodeOwnerOp()
	if err == nil {
		zzsym.Assert(zzSignedBy(signers, named), "the operation succeeds only when witnessed by the address it names")
		if mustBe != nil {
			zzsym.Assert(named == *mustBe, "withdrawing a candidacy / quitting is reserved to the recorded owner of the node")
		}
		zzsym.Cover("accepted")
	} else {
		zzsym.Cover("refused")
	}
	if !zzSignedBy(signers, named) {
		zzsym.Assert(err != nil, "without the named address among the signers the operation fails")
		zzsym.Cover("unwitnessed")
	}
}

func ZZ_C18_NodeOwnerOps_witness() {
	err, _, _, _ := zzNodeOwnerOp()
	zzsym.Assert(err != nil, "WITNESS: some operation is accepted")
}

// ---- operator-only: updateConfig, commitDpos -------------------------------------------------------------------------

// pool of four members with arbitrary statuses; the operator is the bookkeeper multi-signature address of exactly the
// consensus-status keys
// (the first `free` members; the others are consensus members)
func zzOperatorState(free int) (db *storage.CacheDB, operator common.Address, hasOperator bool) {
	db = zzNewCacheDB()
	st := make([]Status, 4)
	var keys []keypair.PublicKey
	for i := range st {
		st[i] = ConsensusStatus
		if i < free {
			st[i] = Status(zzsym.U8("status"))
		}
		if st[i] == ConsensusStatus {
			keys = append(keys, zzValidatorKey(i))
		}
	}
	zzPutPeerPool(db, 1, st) // governance height 10
	var err error
	operator, err = types.AddressFromBookkeepers(keys) // also for a pool without consensus members (unreachable by C34, harmless here)
	hasOperator = err == nil
	return
}

func zzConfigInput(c *Configuration) []byte {
	sink := common.NewZeroCopySink(nil)
	(&UpdateConfigParam{Configuration: c}).Serialization(sink)
	return sink.Bytes()
}

func ZZ_C18_UpdateConfig() {
	db, operator, hasOperator := zzOperatorState(4)
	signers := zzSigners()
	cfg := &Configuration{BlockMsgDelay: zzsym.U32("bmd"), HashMsgDelay: zzsym.U32("hmd"), PeerHandshakeTimeout: zzsym.U32("pht"), MaxBlockChangeView: zzsym.U32("mbcv")}
	_, err := UpdateConfig(zzNativeAt(db, zzConfigInput(cfg), 100, signers))
	if err == nil {
		zzsym.Assert(hasOperator && zzSignedBy(signers, operator), "updateConfig succeeds only when witnessed by the operator address of the current consensus validators")
		zzsym.Cover("accepted")
	}
	if !hasOperator || !zzSignedBy(signers, operator) {
		zzsym.Assert(err != nil, "updateConfig without the operator's witness fails")
		c, _ := GetConfig(zzNative(db, nil))
		zzsym.Assert(c == nil, "a refused updateConfig stores nothing")
		zzsym.Cover("unwitnessed")
	}
}

func ZZ_C18_UpdateConfig_witness() {
	db, _, _ := zzOperatorState(4)
	_, err := UpdateConfig(zzNativeAt(db, zzConfigInput(&Configuration{BlockMsgDelay: 5000, HashMsgDelay: 5000, PeerHandshakeTimeout: 10, MaxBlockChangeView: 10000}), 100, zzSigners()))
	zzsym.Assert(err != nil, "WITNESS: some updateConfig is accepted")
}

func ZZ_C18_CommitDpos() {
	db, operator, hasOperator := zzOperatorState(zzsym.Param("FREE"))
	signers := zzSigners()
	maxView := zzsym.U32("maxBlockChangeView")
	putConfig(zzNative(db, nil), &Configuration{BlockMsgDelay: 5000, HashMsgDelay: 5000, PeerHandshakeTimeout: 10, MaxBlockChangeView: maxView})
	height := zzsym.U32("height")
	zzsym.Assume(height >= 10) // block heights do not go below the height of the last epoch change (10)
	_, err := CommitDpos(zzNativeAt(db, nil, height, signers))
	due := height-10 >= maxView
	witnessed := hasOperator && zzSignedBy(signers, operator)
	if err == nil {
		zzsym.Assert(witnessed || due, "an epoch change is forced only by the operator, or by anyone once it is overdue")
		zzsym.Cover("accepted")
		if !witnessed {
			zzsym.Cover("overdue-by-anyone")
		}
	}
	if !witnessed && !due {
		zzsym.Assert(err != nil, "commitDpos before it is due and without the operator's witness fails")
		v, _ := GetView(zzNative(db, nil))
		zzsym.Assert(v == 1, "a refused commitDpos leaves the view alone")
		zzsym.Cover("unwitnessed")
	}
}

func ZZ_C18_CommitDpos_witness() {
	db, _, _ := zzOperatorState(1)
	putConfig(zzNative(db, nil), &Configuration{MaxBlockChangeView: zzsym.U32("maxBlockChangeView")})
	_, err := CommitDpos(zzNativeAt(db, nil, 100, zzSigners()))
	zzsym.Assert(err != nil, "WITNESS: some commitDpos is accepted")
}
