package ont

import (
	"strings"

	"github.com/ontio/ontology-crypto/keypair"
	"github.com/polynetwork/poly/common"
	"github.com/polynetwork/poly/core/types"
	"github.com/polynetwork/poly/native"
	scom "github.com/polynetwork/poly/native/service/header_sync/common"
	"github.com/polynetwork/poly/native/storage"
	"github.com/polynetwork/poly/zzsym"
)

func zzAddr(name string) common.Address {
	var a common.Address
	copy(a[:], zzsym.Bytes(name, 20))
	return a
}

func zzSigners() []common.Address {
	var s []common.Address
	n := zzsym.Choose("signers", zzsym.Param("S")+1)
	for i := 0; i < n; i++ {
		s = append(s, zzAddr("signer"))
	}
	return s
}

func zzSignedBy(s []common.Address, a common.Address) bool {
	in := false
	for _, x := range s {
		if x == a {
			in = true
		}
	}
	return in
}

func zzNativeBy(db *storage.CacheDB, input []byte, signers []common.Address) *native.NativeService {
	ns, err := native.NewNativeService(db, &types.Transaction{SignedAddr: signers}, 0, 100, common.Uint256{}, 0, input, false)
	if err != nil {
		panic("zz: NewNativeService")
	}
	return ns
}

// ZZ_C18_OntGenesisNeedsOperator: installing an ONT-router trust root with 0..S arbitrary signers on a pool of 1..N consensus
// validators. The header bytes are arbitrary (8 symbolic bytes, never a well-formed header): what is checked is that the
// handler refuses before decoding unless the operator witnessed the transaction, and that it gets past the witness
// check when the operator did.
func ZZ_C18_OntGenesisNeedsOperator() {
	n := 1 + zzsym.Choose("validators", zzsym.Param("N"))
	db := zzNewCacheDB()
	zzConsensusPool(db, n)
	var keys []keypair.PublicKey
	for i := 0; i < n; i++ {
		keys = append(keys, zzValidatorKey(i))
	}
	operator, oerr := types.AddressFromBookkeepers(keys)
	if oerr != nil {
		panic("zz: operator")
	}
	p := &scom.SyncGenesisHeaderParam{ChainID: 3, GenesisHeader: zzsym.Bytes("genesisHeader", 8)}
	sink := common.NewZeroCopySink(nil)
	p.Serialization(sink)
	signers := zzSigners()
	before := zzWriteSet(db)
	err := NewONTHandler().SyncGenesisHeader(zzNativeBy(db, sink.Bytes(), signers))
	if zzSignedBy(signers, operator) {
		zzsym.Assert(err == nil || !strings.Contains(err.Error(), "checkWitness"), "the operator's witness is accepted")
		zzsym.Cover("past-witness-check")
	} else {
		zzsym.Assert(err != nil && strings.Contains(err.Error(), "checkWitness"), "SyncGenesisHeader without the operator's witness fails at the witness check")
		zzsym.Assert(zzSameWriteSet(before, zzWriteSet(db)), "a refused SyncGenesisHeader stores nothing")
		zzsym.Cover("unwitnessed")
	}
}

func ZZ_C18_OntGenesisNeedsOperator_witness() {
	db := zzNewCacheDB()
	zzConsensusPool(db, 1)
	p := &scom.SyncGenesisHeaderParam{ChainID: 3, GenesisHeader: zzsym.Bytes("genesisHeader", 8)}
	sink := common.NewZeroCopySink(nil)
	p.Serialization(sink)
	err := NewONTHandler().SyncGenesisHeader(zzNativeBy(db, sink.Bytes(), zzSigners()))
	zzsym.Assert(err != nil && strings.Contains(err.Error(), "checkWitness"), "WITNESS: some transaction passes the witness check")
}
