package native

import (
	"github.com/polynetwork/poly/common"
	"github.com/polynetwork/poly/core/types"
	"github.com/polynetwork/poly/zzsym"
)

func zzAddr(name string) common.Address {
	var a common.Address
	copy(a[:], zzsym.Bytes(name, 20))
	return a
}

// arbitrary service: 0..S signer addresses on the transaction, a calling-context stack of depth 0..D, all symbolic
func zzService() (svc *NativeService, signers, ctxs []common.Address) {
	ns := zzsym.Choose("signers", zzsym.Param("S")+1)
	for i := 0; i < ns; i++ {
		signers = append(signers, zzAddr("signer"))
	}
	nc := zzsym.Choose("contexts", zzsym.Param("D")+1)
	for i := 0; i < nc; i++ {
		ctxs = append(ctxs, zzAddr("context"))
	}
	svc = &NativeService{tx: &types.Transaction{SignedAddr: signers}, contexts: ctxs}
	return
}

// ZZ_C18_CheckWitness: a witness check passes exactly for an address that signed the transaction or is the immediately
// calling contract (the entry below the top of the context stack; the empty address never counts as a caller).
func ZZ_C18_CheckWitness() {
	svc, signers, ctxs := zzService()
	q := zzAddr("queried")
	got := svc.CheckWitness(q)
	signed := false
	for _, s := range signers {
		if s == q {
			signed = true
		}
	}
	caller := len(ctxs) >= 2 && ctxs[len(ctxs)-2] == q && q != common.ADDRESS_EMPTY
	zzsym.Assert(got == (signed || caller), "CheckWitness(a) <=> a signed the transaction or a is the immediately calling contract")
	if got && !signed {
		zzsym.Cover("by-calling-contract")
	}
	if got && signed {
		zzsym.Cover("by-signature")
	}
	if !got {
		zzsym.Cover("refused")
		if len(ctxs) >= 1 && ctxs[len(ctxs)-1] == q {
			zzsym.Cover("current-contract-is-no-witness")
		}
		if len(ctxs) >= 3 && ctxs[len(ctxs)-3] == q {
			zzsym.Cover("indirect-caller-is-no-witness")
		}
	}
}

func ZZ_C18_CheckWitness_witness() {
	svc, _, _ := zzService()
	zzsym.Assert(!svc.CheckWitness(zzAddr("queried")), "WITNESS: some witness check passes")
}

// ZZ_C18_ContextStack: Invoke pushes the callee, so inside a contract called from contract A the immediate caller is A.
func ZZ_C18_ContextStack() {
	svc, _, ctxs := zzService()
	callee := zzAddr("callee")
	before := svc.CurrentContext()
	zzsym.Assert(svc.PushContext(callee) == nil, "push within the depth limit succeeds")
	zzsym.Assert(svc.CurrentContext() == callee, "the callee is the current context")
	zzsym.Assert(svc.CallingContext() == before, "the calling context is the context that was current before the call")
	if len(ctxs) > 0 {
		zzsym.Assert(svc.CheckWitness(before) || before == common.ADDRESS_EMPTY, "the immediate caller passes the witness check in the callee")
	}
	svc.PopContext()
	if len(ctxs) > 0 {
		zzsym.Assert(svc.CurrentContext() == before, "return restores the caller's context")
		zzsym.Cover("nested-call")
	}
	zzsym.Cover("stack-done")
}
