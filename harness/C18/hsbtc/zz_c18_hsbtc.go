package btc

import (
	"github.com/ontio/ontology-crypto/keypair"
	"github.com/polynetwork/poly/common"
	"github.com/polynetwork/poly/core/types"
	"github.com/polynetwork/poly/native"
	scom "github.com/polynetwork/poly/native/service/header_sync/common"
	"github.com/polynetwork/poly/native/service/utils"
	"github.com/polynetwork/poly/native/storage"
	"github.com/polynetwork/poly/zzsym"
)

func zzAddr(name string) common.Address {
	var a common.Address
	copy(a[:], zzsym.Bytes(name, 20))
	return a
}

func zzSigners() []common.Address {
	var s []common.Address
	n := zzsym.Choose("signers", zzsym.Param("S")+1)
	for i := 0; i < n; i++ {
		s = append(s, zzAddr("signer"))
	}
	return s
}

func zzSignedBy(s []common.Address, a common.Address) bool {
	in := false
	for _, x := range s {
		if x == a {
			in = true
		}
	}
	return in
}

func zzNativeBy(db *storage.CacheDB, input []byte, signers []common.Address) *native.NativeService {
	ns, err := native.NewNativeService(db, &types.Transaction{SignedAddr: signers}, 0, 100, common.Uint256{}, 0, input, false)
	if err != nil {
		panic("zz: NewNativeService")
	}
	return ns
}

// ZZ_C18_BtcGenesisNeedsOperator: installing the BTC trust root (genesis header + height, 84 bytes) with 0..S arbitrary
// signers on a pool of four consensus validators.
func ZZ_C18_BtcGenesisNeedsOperator() {
	db := zzNewCacheDB()
	zzConsensusPool(db, 4)
	var keys []keypair.PublicKey
	for i := 0; i < 4; i++ {
		keys = append(keys, zzValidatorKey(i))
	}
	operator, oerr := types.AddressFromBookkeepers(keys)
	if oerr != nil {
		panic("zz: operator")
	}
	genesis := make([]byte, 84) // version, prev hash, merkle root, time, bits, nonce | big-endian height
	genesis[0] = 1
	genesis[72], genesis[73], genesis[74], genesis[75] = 0xff, 0xff, 0x00, 0x1d
	genesis[83] = 7
	p := &scom.SyncGenesisHeaderParam{ChainID: 1, GenesisHeader: genesis}
	sink := common.NewZeroCopySink(nil)
	p.Serialization(sink)
	signers := zzSigners()
	err := NewBTCHandler().SyncGenesisHeader(zzNativeBy(db, sink.Bytes(), signers))
	stored, _ := db.Get(utils.ConcatKey(utils.HeaderSyncContractAddress, []byte(scom.GENESIS_HEADER), utils.GetUint64Bytes(1)))
	if err == nil {
		zzsym.Cover("installed")
	}
	if !zzSignedBy(signers, operator) {
		zzsym.Cover("unwitnessed")
		zzsym.Assert(err != nil, "SyncGenesisHeader without the operator's witness fails")
		zzsym.Assert(stored == nil, "a refused SyncGenesisHeader stores no trust root")
	}
}
