package cross_chain_manager

import (
	"github.com/ontio/ontology-crypto/keypair"
	"github.com/polynetwork/poly/common"
	"github.com/polynetwork/poly/core/types"
	"github.com/polynetwork/poly/native"
	scom "github.com/polynetwork/poly/native/service/cross_chain_manager/common"
	"github.com/polynetwork/poly/native/storage"
	"github.com/polynetwork/poly/zzsym"
)

func zzAddr(name string) common.Address {
	var a common.Address
	copy(a[:], zzsym.Bytes(name, 20))
	return a
}

func zzSigners() []common.Address {
	var s []common.Address
	n := zzsym.Choose("signers", zzsym.Param("S")+1)
	for i := 0; i < n; i++ {
		s = append(s, zzAddr("signer"))
	}
	return s
}

func zzSignedBy(s []common.Address, a common.Address) bool {
	in := false
	for _, x := range s {
		if x == a {
			in = true
		}
	}
	return in
}

func zzNativeBy(db *storage.CacheDB, input []byte, signers []common.Address) *native.NativeService {
	ns, err := native.NewNativeService(db, &types.Transaction{SignedAddr: signers}, 0, 100, common.Uint256{}, 0, input, false)
	if err != nil {
		panic("zz: NewNativeService")
	}
	return ns
}

// black- / white-listing a chain (symbolic chain id below 253) on a pool of 1..N consensus validators with 0..S signers
func zzBlackWhite() (err error, db *storage.CacheDB, chainID uint64, white, wasBlack bool, operator common.Address, signers []common.Address) {
	n := 1 + zzsym.Choose("validators", zzsym.Param("N"))
	db = zzNewCacheDB()
	zzConsensusPool(db, n)
	var keys []keypair.PublicKey
	for i := 0; i < n; i++ {
		keys = append(keys, zzValidatorKey(i))
	}
	var oerr error
	operator, oerr = types.AddressFromBookkeepers(keys)
	if oerr != nil {
		panic("zz: operator")
	}
	chainID = uint64(zzsym.U8("chain"))
	zzsym.Assume(chainID < 0xfd)
	wasBlack = zzsym.Choose("already-black", 2) == 1
	if wasBlack {
		scom.PutBlackChain(zzNative(db, nil), chainID)
	}
	sink := common.NewZeroCopySink(nil)
	(&scom.BlackChainParam{ChainID: chainID}).Serialization(sink)
	signers = zzSigners()
	white = zzsym.Choose("white", 2) == 1
	if white {
		_, err = WhiteChain(zzNativeBy(db, sink.Bytes(), signers))
	} else {
		_, err = BlackChain(zzNativeBy(db, sink.Bytes(), signers))
	}
	return
}

func ZZ_C18_BlackWhiteChain() {
	err, db, chainID, white, wasBlack, operator, signers := zzBlackWhite()
	isBlack, berr := scom.CheckIfChainBlacked(zzNative(db, nil), chainID)
	zzsym.Assert(berr == nil, "blacklist stays readable")
	if err == nil {
		zzsym.Assert(zzSignedBy(signers, operator), "black-/white-listing a chain succeeds only when witnessed by the operator address of the current consensus validators")
		zzsym.Assert(isBlack == !white, "the accepted operation sets the blacklist entry accordingly")
		zzsym.Cover("accepted")
	}
	if !zzSignedBy(signers, operator) {
		zzsym.Assert(err != nil, "black-/white-listing without the operator's witness fails")
		zzsym.Assert(isBlack == wasBlack, "a refused operation leaves the blacklist alone")
		zzsym.Cover("unwitnessed")
	}
}

func ZZ_C18_BlackWhiteChain_witness() {
	err, _, _, _, _, _, _ := zzBlackWhite()
	zzsym.Assert(err != nil, "WITNESS: some black-/white-listing is accepted")
}

// engine-only (spec "overrides"): replaces the package initialisers of the chain-handler packages, which run third-party
// reflection code; BlackChain / WhiteChain do not touch those packages.
func zzNoInit() {}
