package side_chain_manager

import (
	"github.com/polynetwork/poly/common"
	"github.com/polynetwork/poly/core/types"
	"github.com/polynetwork/poly/native"
	"github.com/polynetwork/poly/native/storage"
	"github.com/polynetwork/poly/zzsym"
)

func zzAddr(name string) common.Address {
	var a common.Address
	copy(a[:], zzsym.Bytes(name, 20))
	return a
}

func zzSigners() []common.Address {
	var s []common.Address
	n := zzsym.Choose("signers", zzsym.Param("S")+1)
	for i := 0; i < n; i++ {
		s = append(s, zzAddr("signer"))
	}
	return s
}

func zzSignedBy(s []common.Address, a common.Address) bool {
	in := false
	for _, x := range s {
		if x == a {
			in = true
		}
	}
	return in
}

func zzNativeBy(db *storage.CacheDB, input []byte, signers []common.Address) *native.NativeService {
	ns, err := native.NewNativeService(db, &types.Transaction{SignedAddr: signers}, 0, 100, common.Uint256{}, 0, input, false)
	if err != nil {
		panic("zz: NewNativeService")
	}
	return ns
}

// encoded by hand: RegisterSideChainParam.Serialization consults the global ledger for a fork height
func zzRegisterInput(owner common.Address, chainID, router uint64, name string, btw uint64, ccmc, extra []byte) []byte {
	sink := common.NewZeroCopySink(nil)
	sink.WriteVarBytes(owner[:])
	sink.WriteVarUint(chainID)
	sink.WriteVarUint(router)
	sink.WriteVarBytes([]byte(name))
	sink.WriteVarUint(btw)
	sink.WriteVarBytes(ccmc)
	sink.WriteVarBytes(extra)
	return sink.Bytes()
}

func zzChainidInput(chainID uint64, who common.Address) []byte {
	p := &ChainidParam{Chainid: chainID, Address: who}
	sink := common.NewZeroCopySink(nil)
	p.Serialization(sink)
	return sink.Bytes()
}

// State: chain 5 registered to a symbolic owner with pending update and quit requests, chain 6 applied for; one validator.
// Every request / approval names an address; it must be among the transaction's signers, and for update / quit it must
// be the registered owner.
func zzSideChainOp() (err error, named common.Address, signers []common.Address, mustBe *common.Address) {
	db := zzNewCacheDB()
	zzConsensusPool(db, 1)
	owner := zzAddr("owner")
	ns := zzNative(db, nil)
	PutSideChain(ns, &SideChain{Address: owner, ChainId: 5, Router: 1, Name: "x", BlocksToWait: 1, CCMCAddress: []byte{1}})
	putUpdateSideChain(ns, &SideChain{Address: owner, ChainId: 5, Router: 2, Name: "x", BlocksToWait: 1, CCMCAddress: []byte{2}})
	putQuitSideChain(ns, 5)
	putSideChainApply(ns, &SideChain{Address: owner, ChainId: 6, Router: 1, Name: "y", BlocksToWait: 1, CCMCAddress: []byte{1}})

	named = zzAddr("named")
	signers = zzSigners()
	switch zzsym.Choose("op", 6) {
	case 0:
		_, err = RegisterSideChain(zzNativeBy(db, zzRegisterInput(named, 7, 1, "z", 1, []byte{1}, nil), signers))
		zzsym.Cover("register")
	case 1:
		_, err = UpdateSideChain(zzNativeBy(db, zzRegisterInput(named, 5, 3, "x", 1, []byte{3}, nil), signers))
		mustBe = &owner
		zzsym.Cover("update")
	case 2:
		_, err = QuitSideChain(zzNativeBy(db, zzChainidInput(5, named), signers))
		mustBe = &owner
		zzsym.Cover("quit")
	case 3:
		_, err = ApproveRegisterSideChain(zzNativeBy(db, zzChainidInput(6, named), signers))
		zzsym.Cover("approve-register")
	case 4:
		_, err = ApproveUpdateSideChain(zzNativeBy(db, zzChainidInput(5, named), signers))
		zzsym.Cover("approve-update")
	case 5:
		_, err = ApproveQuitSideChain(zzNativeBy(db, zzChainidInput(5, named), signers))
		zzsym.Cover("approve-quit")
	}
	return
}

func ZZ_C18_SideChainOps() {
	err, named, signers, mustBe := zzSideChainOp()
	if err == nil {
		zzsym.Assert(zzSignedBy(signers, named), "the operation succeeds only when witnessed by the address it names")
		if mustBe != nil {
			zzsym.Assert(named == *mustBe, "update and quit requests are reserved to the registered owner of the chain")
		}
		zzsym.Cover("accepted")
	}
	if !zzSignedBy(signers, named) {
		zzsym.Assert(err != nil, "without the named address among the signers the operation fails")
		zzsym.Cover("unwitnessed")
	}
}

func ZZ_C18_SideChainOps_witness() {
	err, _, _, _ := zzSideChainOp()
	zzsym.Assert(err != nil, "WITNESS: some operation is accepted")
}
