package neo

import (
	"errors"
	"github.com/joeqian10/neo-gogogo/block"
	"github.com/joeqian10/neo-gogogo/helper"
	"github.com/ontio/ontology-crypto/keypair"
	"github.com/polynetwork/poly/common"
	"github.com/polynetwork/poly/core/types"
	"github.com/polynetwork/poly/native"
	scom "github.com/polynetwork/poly/native/service/header_sync/common"
	"github.com/polynetwork/poly/native/storage"
	"github.com/polynetwork/poly/zzsym"
	"strings"
)

func zzAddr(name string) common.Address {
	var a common.Address
	copy(a[:], zzsym.Bytes(name, 20))
	return a
}

func zzSigners() []common.Address {
	var s []common.Address
	n := zzsym.Choose("signers", zzsym.Param("S")+1)
	for i := 0; i < n; i++ {
		s = append(s, zzAddr("signer"))
	}
	return s
}

func zzSignedBy(s []common.Address, a common.Address) bool {
	in := false
	for _, x := range s {
		if x == a {
			in = true
		}
	}
	return in
}

func zzNativeBy(db *storage.CacheDB, input []byte, signers []common.Address) *native.NativeService {
	ns, err := native.NewNativeService(db, &types.Transaction{SignedAddr: signers}, 0, 100, common.Uint256{}, 0, input, false)
	if err != nil {
		panic("zz: NewNativeService")
	}
	return ns
}

// installing the NEO trust root: pool of N consensus validators, a well-formed genesis header (real serializer) with
// symbolic index / next-consensus, 0..S symbolic signer addresses
func zzGenesis() (err error, db *storage.CacheDB, chainID uint64, operator common.Address, signers []common.Address) {
	n := 1 + zzsym.Choose("validators", zzsym.Param("N"))
	db = zzNewCacheDB()
	zzConsensusPool(db, n)
	var keys []keypair.PublicKey
	for i := 0; i < n; i++ {
		keys = append(keys, zzValidatorKey(i))
	}
	operator, err = types.AddressFromBookkeepers(keys)
	if err != nil {
		panic("zz: operator")
	}
	genesis := zzsym.Bytes("genesisHeader", 4) // decoded by the stand-in below
	chainID = 4
	p := &scom.SyncGenesisHeaderParam{ChainID: chainID, GenesisHeader: genesis}
	sink := common.NewZeroCopySink(nil)
	p.Serialization(sink)
	signers = zzSigners()
	err = NewNEOHandler().SyncGenesisHeader(zzNativeBy(db, sink.Bytes(), signers))
	return
}

func ZZ_C18_NeoGenesisNeedsOperator() {
	err, db, chainID, operator, signers := zzGenesis()
	cons, _ := getConsensusValByChainId(zzNative(db, nil), chainID)
	if !zzSignedBy(signers, operator) {
		// stated on the refusal reason so that the check does not depend on what the header decoder does afterwards
		zzsym.Assert(err != nil && strings.Contains(err.Error(), "checkWitness"), "SyncGenesisHeader without the operator's witness fails at the witness check")
		zzsym.Assert(cons == nil, "a refused SyncGenesisHeader stores no trust root")
		zzsym.Cover("unwitnessed")
	}
	if err == nil && cons != nil {
		zzsym.Assert(zzSignedBy(signers, operator), "a side chain's trust root is installed only by a transaction witnessed by the operator address of the current consensus validators")
		zzsym.Cover("installed")
	}
}

func ZZ_C18_NeoGenesisNeedsOperator_witness() {
	err, _, _, _, _ := zzGenesis()
	zzsym.Assert(err != nil, "WITNESS: some genesis header is installed")
}

// engine-only stand-in for (*NeoBlockHeader).Deserialization (spec "overrides"): neo-gogogo decodes with encoding/binary
// (reflection). Any byte string is either rejected or decodes to a header with arbitrary index and next-consensus.
func zzHeaderDecode(this *NeoBlockHeader, source *common.ZeroCopySource) error {
	if !zzsym.Bool("header-wellformed") {
		return errors.New("zz: malformed header")
	}
	var next helper.UInt160
	copy(next[:], zzsym.Bytes("nextConsensus", 20))
	this.BlockHeader = &block.BlockHeader{Index: zzsym.U32("index"), NextConsensus: next}
	return nil
}
