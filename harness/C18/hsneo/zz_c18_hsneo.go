package neo

import (
	"github.com/joeqian10/neo-gogogo/block"
	"github.com/joeqian10/neo-gogogo/helper"
	tx2 "github.com/joeqian10/neo-gogogo/tx"
	"github.com/ontio/ontology-crypto/keypair"
	"github.com/polynetwork/poly/common"
	"github.com/polynetwork/poly/core/types"
	"github.com/polynetwork/poly/native"
	scom "github.com/polynetwork/poly/native/service/header_sync/common"
	"github.com/polynetwork/poly/native/storage"
	"github.com/polynetwork/poly/zzsym"
)

func zzAddr(name string) common.Address {
	var a common.Address
	copy(a[:], zzsym.Bytes(name, 20))
	return a
}

func zzSigners() []common.Address {
	var s []common.Address
	n := zzsym.Choose("signers", zzsym.Param("S")+1)
	for i := 0; i < n; i++ {
		s = append(s, zzAddr("signer"))
	}
	return s
}

func zzSignedBy(s []common.Address, a common.Address) bool {
	in := false
	for _, x := range s {
		if x == a {
			in = true
		}
	}
	return in
}

func zzNativeBy(db *storage.CacheDB, input []byte, signers []common.Address) *native.NativeService {
	ns, err := native.NewNativeService(db, &types.Transaction{SignedAddr: signers}, 0, 100, common.Uint256{}, 0, input, false)
	if err != nil {
		panic("zz: NewNativeService")
	}
	return ns
}

// installing the NEO trust root: pool of N consensus validators, a well-formed genesis header (real serializer) with
// symbolic index / next-consensus, 0..S symbolic signer addresses
func zzGenesis() (err error, db *storage.CacheDB, chainID uint64, operator common.Address, signers []common.Address) {
	n := 1 + zzsym.Choose("validators", zzsym.Param("N"))
	db = zzNewCacheDB()
	zzConsensusPool(db, n)
	var keys []keypair.PublicKey
	for i := 0; i < n; i++ {
		keys = append(keys, zzValidatorKey(i))
	}
	operator, err = types.AddressFromBookkeepers(keys)
	if err != nil {
		panic("zz: operator")
	}
	var next helper.UInt160
	copy(next[:], zzsym.Bytes("nextConsensus", 20))
	hdr := &NeoBlockHeader{&block.BlockHeader{Version: 0, Timestamp: 1468595301, Index: zzsym.U32("index"), NextConsensus: next,
		ConsensusData: 7, Witness: &tx2.Witness{InvocationScript: []byte{0}, VerificationScript: []byte{81}}}}
	sink := common.NewZeroCopySink(nil)
	if hdr.Serialization(sink) != nil {
		panic("zz: header")
	}
	chainID = 4
	p := &scom.SyncGenesisHeaderParam{ChainID: chainID, GenesisHeader: sink.Bytes()}
	sink = common.NewZeroCopySink(nil)
	p.Serialization(sink)
	signers = zzSigners()
	err = NewNEOHandler().SyncGenesisHeader(zzNativeBy(db, sink.Bytes(), signers))
	return
}

func ZZ_C18_NeoGenesisNeedsOperator() {
	db0 := zzNewCacheDB()
	_ = db0
	err, db, chainID, operator, signers := zzGenesis()
	cons, _ := getConsensusValByChainId(zzNative(db, nil), chainID)
	if err == nil && cons != nil {
		zzsym.Assert(zzSignedBy(signers, operator), "a side chain's trust root is installed only by a transaction witnessed by the operator address of the current consensus validators")
		zzsym.Cover("installed")
	}
	if !zzSignedBy(signers, operator) {
		zzsym.Assert(err != nil, "SyncGenesisHeader without the operator's witness fails")
		zzsym.Assert(cons == nil, "a refused SyncGenesisHeader stores no trust root")
		zzsym.Cover("unwitnessed")
	}
}

func ZZ_C18_NeoGenesisNeedsOperator_witness() {
	err, _, _, _, _ := zzGenesis()
	zzsym.Assert(err != nil, "WITNESS: some genesis header is installed")
}
