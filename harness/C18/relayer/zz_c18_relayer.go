package relayer_manager

import (
	"github.com/polynetwork/poly/common"
	"github.com/polynetwork/poly/core/types"
	"github.com/polynetwork/poly/native"
	"github.com/polynetwork/poly/native/storage"
	"github.com/polynetwork/poly/zzsym"
)

func zzAddr(name string) common.Address {
	var a common.Address
	copy(a[:], zzsym.Bytes(name, 20))
	return a
}

func zzSigners() []common.Address {
	var s []common.Address
	n := zzsym.Choose("signers", zzsym.Param("S")+1)
	for i := 0; i < n; i++ {
		s = append(s, zzAddr("signer"))
	}
	return s
}

func zzSignedBy(s []common.Address, a common.Address) bool {
	in := false
	for _, x := range s {
		if x == a {
			in = true
		}
	}
	return in
}

func zzNativeBy(db *storage.CacheDB, input []byte, signers []common.Address) *native.NativeService {
	ns, err := native.NewNativeService(db, &types.Transaction{SignedAddr: signers}, 0, 100, common.Uint256{}, 0, input, false)
	if err != nil {
		panic("zz: NewNativeService")
	}
	return ns
}

func zzListInput(list []common.Address, owner common.Address) []byte {
	p := &RelayerListParam{AddressList: list, Address: owner}
	sink := common.NewZeroCopySink(nil)
	p.Serialization(sink)
	return sink.Bytes()
}

func zzApproveInput(id uint64, who common.Address) []byte {
	p := &ApproveRelayerParam{ID: id, Address: who}
	sink := common.NewZeroCopySink(nil)
	p.Serialization(sink)
	return sink.Bytes()
}

// State: registration request 0 and removal request 0 pending; one validator.
func zzRelayerOp() (err error, named common.Address, signers []common.Address) {
	db := zzNewCacheDB()
	zzConsensusPool(db, 1)
	filer := zzValidatorAddr(6)
	RegisterRelayer(zzNative(db, zzListInput([]common.Address{{0xa}}, filer), filer))
	RemoveRelayer(zzNative(db, zzListInput([]common.Address{{0xb}}, filer), filer))
	named = zzAddr("named")
	signers = zzSigners()
	switch zzsym.Choose("op", 4) {
	case 0:
		_, err = RegisterRelayer(zzNativeBy(db, zzListInput([]common.Address{{0xc}}, named), signers))
		zzsym.Cover("register")
	case 1:
		_, err = RemoveRelayer(zzNativeBy(db, zzListInput([]common.Address{{0xc}}, named), signers))
		zzsym.Cover("remove")
	case 2:
		_, err = ApproveRegisterRelayer(zzNativeBy(db, zzApproveInput(0, named), signers))
		zzsym.Cover("approve-register")
	case 3:
		_, err = ApproveRemoveRelayer(zzNativeBy(db, zzApproveInput(0, named), signers))
		zzsym.Cover("approve-remove")
	}
	return
}

func ZZ_C18_RelayerOps() {
	err, named, signers := zzRelayerOp()
	if err == nil {
		zzsym.Assert(zzSignedBy(signers, named), "the operation succeeds only when witnessed by the address it names")
		zzsym.Cover("accepted")
	}
	if !zzSignedBy(signers, named) {
		zzsym.Assert(err != nil, "without the named address among the signers the operation fails")
		zzsym.Cover("unwitnessed")
	}
}

func ZZ_C18_RelayerOps_witness() {
	err, _, _ := zzRelayerOp()
	zzsym.Assert(err != nil, "WITNESS: some operation is accepted")
}

// engine-only stand-in (spec "overrides"): the refusal message of RegisterRelayer / RemoveRelayer prints the named address
// in base58, which is big-number arithmetic on symbolic bytes. Only the text of an error message depends on it.
func zzToBase58(a *common.Address) string { return "<address>" }
