package types

// C05: every peer-to-peer message kind survives WriteMessage -> ReadMessage unchanged; ReadMessage returns a
// message only for a frame with the configured magic, a length within the limit and fully available, a header
// checksum equal to the checksum of the payload that was read, and a known command; readers never panic.

import (
	"bytes"

	"github.com/ontio/ontology-crypto/keypair"
	comm "github.com/polynetwork/poly/common"
	"github.com/polynetwork/poly/common/config"
	"github.com/polynetwork/poly/core/payload"
	ct "github.com/polynetwork/poly/core/types"
	p2p "github.com/polynetwork/poly/p2pserver/common"
	"github.com/polynetwork/poly/zzsym"
)

func zzC05Hash(tag string) comm.Uint256 {
	var h comm.Uint256
	copy(h[:], zzsym.Bytes(tag, comm.UINT256_SIZE))
	return h
}

func zzC05LE32(b []byte) uint32 {
	return uint32(b[0]) | uint32(b[1])<<8 | uint32(b[2])<<16 | uint32(b[3])<<24
}

// zzC05Tx builds a transaction the way the node sees one: decoded from its encoding (so its identity is set).
func zzC05Tx(tag string, L int) *ct.Transaction {
	tx := &ct.Transaction{TxType: ct.Invoke, Nonce: zzsym.U32(tag + "nonce"), ChainID: zzsym.U64(tag + "chain"),
		GasLimit: zzsym.U64(tag + "gaslimit"), GasPrice: zzsym.U64(tag + "gasprice"),
		Payload: &payload.InvokeCode{Code: zzsym.BytesChoose(tag+"code", L)}, CoinType: ct.ONG}
	copy(tx.Payer[:], zzsym.Bytes(tag+"payer", 20))
	sink := comm.NewZeroCopySink(nil)
	zzsym.Assert(tx.Serialization(sink) == nil, "a well-formed transaction encodes")
	tx2, err := ct.TransactionFromRawBytes(sink.Bytes())
	zzsym.Assert(err == nil, "a well-formed transaction decodes")
	return tx2
}

func zzC05Header(tag string, L int) *ct.Header {
	h := &ct.Header{ChainID: zzsym.U64(tag + "chain"), Timestamp: zzsym.U32(tag + "ts"), Height: zzsym.U32(tag + "height"),
		ConsensusData: zzsym.U64(tag + "cdata"), ConsensusPayload: zzsym.Bytes(tag+"cpayload", L)}
	h.PrevBlockHash = zzC05Hash(tag + "prev")
	h.TransactionsRoot = zzC05Hash(tag + "txroot")
	h.CrossStateRoot = zzC05Hash(tag + "csroot")
	h.BlockRoot = zzC05Hash(tag + "blkroot")
	copy(h.NextBookkeeper[:], zzsym.Bytes(tag+"nextbk", 20))
	nb := zzsym.Choose(tag+"nbk", 2)
	for i := 0; i < nb; i++ {
		h.Bookkeepers = append(h.Bookkeepers, zzsym.PubKey(i))
		h.SigData = append(h.SigData, zzsym.Bytes(tag+"sig", L))
	}
	return h
}

func zzC05Payload(m Message) []byte {
	sink := comm.NewZeroCopySink(nil)
	zzsym.Assert(m.Serialization(sink) == nil, "the message encodes")
	return append([]byte(nil), sink.Bytes()...)
}

// zzC05Counts: list sizes explored for Addr/Inv: 0..N, and with BIG=1 also the limit and limit+1.
func zzC05Count(N int) int {
	c := []int{}
	for i := 0; i <= N; i++ {
		c = append(c, i)
	}
	if zzsym.Param("BIG") == 1 {
		c = append(c, p2p.MAX_INV_BLK_CNT, p2p.MAX_INV_BLK_CNT+1)
	}
	return c[zzsym.Choose("n", len(c))]
}

// ZZ_C05_FrameRoundTrip: for every message kind, ReadMessage(WriteMessage(m)) == m, the header carries the
// configured magic, the zero-padded command, the payload length and the payload checksum.
func ZZ_C05_FrameRoundTrip() {
	L := zzsym.Param("L")
	N := zzsym.Param("N")
	magic := zzsym.U32("magic")
	config.DefConfig.P2PNode.NetworkMagic = magic
	var m Message
	kind := zzsym.Choose("kind", 16)
	switch kind {
	case 0:
		m = &Ping{Height: zzsym.U64("height")}
	case 1:
		m = &Pong{Height: zzsym.U64("height")}
	case 2:
		v := &Version{P: VersionPayload{Version: zzsym.U32("version"), Services: zzsym.U64("services"), TimeStamp: zzsym.I64("time"),
			SyncPort: zzsym.U16("syncport"), HttpInfoPort: zzsym.U16("httpport"), ConsPort: zzsym.U16("consport"), Nonce: zzsym.U64("nonce"),
			StartHeight: zzsym.U64("startheight"), Relay: zzsym.U8("relay"), IsConsensus: zzsym.Bool("iscons"), SoftVersion: string(zzsym.BytesChoose("soft", L))}}
		copy(v.P.Cap[:], zzsym.Bytes("cap", 32))
		m = v
	case 3:
		m = &VerACK{IsConsensus: zzsym.Bool("iscons")}
	case 4:
		a := &Addr{}
		n := zzC05Count(N)
		for i := 0; i < n; i++ {
			pa := p2p.PeerAddr{Time: zzsym.I64("time"), Services: zzsym.U64("services"), Port: zzsym.U16("port"), ConsensusPort: zzsym.U16("consport"), ID: zzsym.U64("id")}
			copy(pa.IpAddr[:], zzsym.Bytes("ip", 16))
			a.NodeAddrs = append(a.NodeAddrs, pa)
		}
		m = a
	case 5:
		m = &AddrReq{}
	case 6:
		m = &HeadersReq{Len: zzsym.U8("len"), HashStart: zzC05Hash("start"), HashEnd: zzC05Hash("end")}
	case 7:
		b := &BlkHeader{}
		n := zzsym.Choose("n", 3)
		for i := 0; i < n; i++ {
			b.BlkHdr = append(b.BlkHdr, zzC05Header("h.", 2))
		}
		m = b
	case 8:
		v := &Inv{P: InvPayload{InvType: comm.InventoryType(zzsym.U8("invtype"))}}
		n := zzC05Count(N)
		for i := 0; i < n; i++ {
			v.P.Blk = append(v.P.Blk, zzC05Hash("blk"))
		}
		m = v
	case 9:
		m = &DataReq{DataType: comm.InventoryType(zzsym.U8("datatype")), Hash: zzC05Hash("hash")}
	case 10:
		blk := &ct.Block{Header: zzC05Header("h.", 2)}
		n := zzsym.Choose("ntx", 2)
		for i := 0; i < n; i++ {
			blk.Transactions = append(blk.Transactions, zzC05Tx("tx.", 2))
		}
		// a block is only accepted when its header commits to its transactions
		blk.RebuildMerkleRoot()
		m = &Block{Blk: blk, MerkleRoot: zzC05Hash("merkleroot")}
	case 11:
		m = &Trn{Txn: zzC05Tx("tx.", L)}
	case 12:
		m = &Consensus{Cons: ConsensusPayload{Version: zzsym.U32("version"), PrevHash: zzC05Hash("prev"), Height: zzsym.U32("height"),
			BookkeeperIndex: zzsym.U16("bkindex"), Timestamp: zzsym.U32("ts"), Data: zzsym.BytesChoose("data", L),
			Owner: zzsym.PubKey(zzsym.Choose("owner", 2)), Signature: zzsym.BytesChoose("sig", L)}}
	case 13:
		m = &NotFound{Hash: zzC05Hash("hash")}
	case 14:
		m = &Disconnected{}
	case 15:
		m = &BlocksReq{HeaderHashCount: zzsym.U8("count"), HashStart: zzC05Hash("start"), HashStop: zzC05Hash("stop")}
	}
	pay := zzC05Payload(m)

	sink := comm.NewZeroCopySink(nil)
	zzsym.Assert(WriteMessage(sink, m) == nil, "WriteMessage succeeds")
	raw := sink.Bytes()
	zzsym.Assert(len(raw) == p2p.MSG_HDR_LEN+len(pay) && bytes.Equal(raw[p2p.MSG_HDR_LEN:], pay), "the frame is a 24-byte header followed by the payload")
	zzsym.Assert(zzC05LE32(raw[0:4]) == magic, "header carries the configured network magic")
	var cmd [p2p.MSG_CMD_LEN]byte
	copy(cmd[:], m.CmdType())
	zzsym.Assert(bytes.Equal(raw[4:16], cmd[:]), "header carries the zero-padded command")
	zzsym.Assert(zzC05LE32(raw[16:20]) == uint32(len(pay)), "header carries the payload length")
	sum := p2p.Checksum(pay)
	zzsym.Assert(bytes.Equal(raw[20:24], sum[:]), "header carries the payload checksum")

	r := bytes.NewReader(raw)
	m2, n, err := ReadMessage(r)
	zzsym.Assert(err == nil, "ReadMessage accepts every frame written by WriteMessage")
	if err != nil {
		return
	}
	zzsym.Assert(int(n) == len(pay) && r.Len() == 0, "ReadMessage reports the payload length and consumes exactly the frame")
	zzsym.Assert(m2.CmdType() == m.CmdType(), "the message kind survives")
	switch a := m.(type) {
	case *Ping:
		zzsym.Assert(*m2.(*Ping) == *a, "Ping round trip")
		zzsym.Cover("ping")
	case *Pong:
		zzsym.Assert(*m2.(*Pong) == *a, "Pong round trip")
		zzsym.Cover("pong")
	case *Version:
		zzsym.Assert(m2.(*Version).P == a.P, "Version round trip")
		zzsym.Cover("version")
	case *VerACK:
		zzsym.Assert(*m2.(*VerACK) == *a, "VerACK round trip")
		zzsym.Cover("verack")
	case *Addr:
		b := m2.(*Addr)
		want := len(a.NodeAddrs)
		if want > p2p.MAX_ADDR_NODE_CNT {
			want = p2p.MAX_ADDR_NODE_CNT
			zzsym.Cover("addr-clamped")
		}
		zzsym.Assert(len(b.NodeAddrs) == want, "Addr: the decoded list has min(n, MAX_ADDR_NODE_CNT) entries")
		for i := 0; i < want && i < len(b.NodeAddrs); i++ {
			zzsym.Assert(b.NodeAddrs[i] == a.NodeAddrs[i], "Addr: the decoded list is a prefix of the sent list")
		}
		zzsym.Cover("addr")
	case *AddrReq:
		_ = m2.(*AddrReq)
		zzsym.Cover("getaddr")
	case *HeadersReq:
		zzsym.Assert(*m2.(*HeadersReq) == *a, "HeadersReq round trip")
		zzsym.Cover("getheaders")
	case *BlkHeader:
		b := m2.(*BlkHeader)
		zzsym.Assert(len(b.BlkHdr) == len(a.BlkHdr), "BlkHeader: same number of headers")
		zzsym.Assert(bytes.Equal(zzC05Payload(b), pay), "BlkHeader: re-encoding the decoded message gives the same payload")
		for i := range a.BlkHdr {
			if i < len(b.BlkHdr) {
				zzsym.Assert(b.BlkHdr[i].Height == a.BlkHdr[i].Height && b.BlkHdr[i].PrevBlockHash == a.BlkHdr[i].PrevBlockHash &&
					len(b.BlkHdr[i].Bookkeepers) == len(a.BlkHdr[i].Bookkeepers), "BlkHeader: header fields survive")
			}
		}
		if len(a.BlkHdr) == 2 {
			zzsym.Cover("headers-2")
		}
		zzsym.Cover("headers")
	case *Inv:
		b := m2.(*Inv)
		want := len(a.P.Blk)
		if want > p2p.MAX_INV_BLK_CNT {
			want = p2p.MAX_INV_BLK_CNT
			zzsym.Cover("inv-clamped")
		}
		zzsym.Assert(b.P.InvType == a.P.InvType && len(b.P.Blk) == want, "Inv: type survives and the decoded list has min(n, MAX_INV_BLK_CNT) entries")
		for i := 0; i < want && i < len(b.P.Blk); i++ {
			zzsym.Assert(b.P.Blk[i] == a.P.Blk[i], "Inv: the decoded list is a prefix of the sent list")
		}
		zzsym.Cover("inv")
	case *DataReq:
		zzsym.Assert(*m2.(*DataReq) == *a, "DataReq round trip")
		zzsym.Cover("getdata")
	case *Block:
		b := m2.(*Block)
		zzsym.Assert(b.MerkleRoot == a.MerkleRoot && len(b.Blk.Transactions) == len(a.Blk.Transactions) && b.Blk.Header.Height == a.Blk.Header.Height,
			"Block: merkle root, transaction count and height survive")
		zzsym.Assert(bytes.Equal(zzC05Payload(b), pay), "Block: re-encoding the decoded message gives the same payload")
		if len(a.Blk.Transactions) == 1 {
			zzsym.Cover("block-1tx")
		}
		zzsym.Cover("block")
	case *Trn:
		b := m2.(*Trn)
		zzsym.Assert(b.Txn.Hash() == a.Txn.Hash() && b.Txn.Nonce == a.Txn.Nonce && b.Txn.Payer == a.Txn.Payer, "Trn: identity, nonce and payer survive")
		zzsym.Assert(bytes.Equal(zzC05Payload(b), pay), "Trn: re-encoding the decoded message gives the same payload")
		zzsym.Cover("tx")
	case *Consensus:
		b := &m2.(*Consensus).Cons
		c := &a.Cons
		zzsym.Assert(b.Version == c.Version && b.PrevHash == c.PrevHash && b.Height == c.Height && b.BookkeeperIndex == c.BookkeeperIndex &&
			b.Timestamp == c.Timestamp && bytes.Equal(b.Data, c.Data) && bytes.Equal(b.Signature, c.Signature), "Consensus: signed fields, data and signature survive")
		zzsym.Assert(bytes.Equal(keypair.SerializePublicKey(b.Owner), keypair.SerializePublicKey(c.Owner)), "Consensus: owner key survives")
		zzsym.Cover("consensus")
	case *NotFound:
		zzsym.Assert(*m2.(*NotFound) == *a, "NotFound round trip")
		zzsym.Cover("notfound")
	case *Disconnected:
		_ = m2.(*Disconnected)
		zzsym.Cover("disconnect")
	case *BlocksReq:
		zzsym.Assert(*m2.(*BlocksReq) == *a, "BlocksReq round trip")
		zzsym.Cover("getblocks")
	}
}

func ZZ_C05_FrameRoundTrip_witness() {
	config.DefConfig.P2PNode.NetworkMagic = zzsym.U32("magic")
	sink := comm.NewZeroCopySink(nil)
	WriteMessage(sink, &Ping{Height: zzsym.U64("height")})
	m, _, err := ReadMessage(bytes.NewReader(sink.Bytes()))
	zzsym.Assert(err != nil || m.(*Ping).Height != 77, "witness: a ping at height 77 round-trips")
}

var zzC05Known = []string{p2p.VERSION_TYPE, p2p.VERACK_TYPE, p2p.GetADDR_TYPE, p2p.ADDR_TYPE, p2p.PING_TYPE, p2p.PONG_TYPE, p2p.GET_HEADERS_TYPE,
	p2p.HEADERS_TYPE, p2p.INV_TYPE, p2p.GET_DATA_TYPE, p2p.BLOCK_TYPE, p2p.TX_TYPE, p2p.CONSENSUS_TYPE, p2p.GET_BLOCKS_TYPE, p2p.NOT_FOUND_TYPE, p2p.DISCONNECT_TYPE}

// ZZ_C05_FrameRejects: an arbitrary stream (24 header bytes and P payload bytes, all symbolic; also streams cut
// inside or before the header). The harness first classifies the frame itself -- magic equal to the configured one,
// announced length k (every k <= P one by one, or "more than the P bytes that follow"), header checksum equal to
// Checksum(payload[0:k]), command field equal to one of the 16 zero-padded command names -- and then requires
// ReadMessage to agree: any frame failing one of these tests is rejected; an accepted frame yields the message kind
// named by the command field, reports length k and consumes exactly 24+k bytes. Nothing may panic.
func ZZ_C05_FrameRejects() {
	P := zzsym.Param("P")
	magic := zzsym.U32("magic")
	config.DefConfig.P2PNode.NetworkMagic = magic
	total := []int{p2p.MSG_HDR_LEN + P, p2p.MSG_HDR_LEN - 1, 0}[zzsym.Choose("truncated", 3)]
	stream := zzsym.Bytes("stream", total)
	k, cmd := -1, ""
	wellFramed := false
	if total >= p2p.MSG_HDR_LEN {
		// the announced length: every value 0..P one by one (written into the header), and "any value above P"
		// (left symbolic). Together these are all 2^32 values; enumerating keeps the payload length concrete.
		if k = zzsym.Choose("length", P+2); k <= P {
			stream[16], stream[17], stream[18], stream[19] = byte(k), 0, 0, 0
		} else {
			zzsym.Assume(zzC05LE32(stream[16:20]) > uint32(P))
		}
		// ADDR frames are left to ZZ_C05_PayloadNoPanic_Addr: that decoder has a defect of its own which cannot be
		// replayed through the frame layer (SHA-256 is uninterpreted here). Set SKIPADDR to 0 once it is repaired.
		if zzsym.Param("SKIPADDR") == 1 {
			zzsym.Assume(!bytes.Equal(stream[4:16], []byte("addr\x00\x00\x00\x00\x00\x00\x00\x00")))
		}
		if zzC05LE32(stream[0:4]) == magic && k <= P {
			sum := p2p.Checksum(stream[p2p.MSG_HDR_LEN : p2p.MSG_HDR_LEN+k])
			if bytes.Equal(stream[20:24], sum[:]) {
				for _, c := range zzC05Known {
					var padded [p2p.MSG_CMD_LEN]byte
					copy(padded[:], c)
					if bytes.Equal(stream[4:16], padded[:]) {
						cmd = c
					}
				}
				wellFramed = cmd != ""
			}
		}
	}
	r := bytes.NewReader(stream)
	m, n, err := ReadMessage(r)
	if !wellFramed {
		zzsym.Assert(err != nil && m == nil, "a frame that is cut short, has the wrong magic, announces more payload than follows, has a checksum mismatch or an unknown command is rejected")
		zzsym.Cover("rejected-frame")
		return
	}
	if err != nil {
		// well-framed, but the payload is not a valid message of that kind
		zzsym.Assert(m == nil, "a rejected frame yields no message")
		zzsym.Cover("rejected-payload")
		return
	}
	zzsym.Assert(m.CmdType() == cmd, "an accepted frame yields the message kind named by its command field")
	zzsym.Assert(int(n) == k && r.Len() == total-p2p.MSG_HDR_LEN-k, "ReadMessage reports the announced length and consumes exactly header and payload")
	zzsym.Cover("accepted")
	if cmd == p2p.PING_TYPE {
		zzsym.Cover("accepted-ping")
	}
}

func ZZ_C05_FrameRejects_witness() {
	config.DefConfig.P2PNode.NetworkMagic = 0x11223344
	stream := zzsym.Bytes("stream", p2p.MSG_HDR_LEN+1)
	m, _, err := ReadMessage(bytes.NewReader(stream))
	zzsym.Assert(err != nil || m.CmdType() != p2p.VERACK_TYPE, "witness: some 25-byte stream is an accepted verack frame")
}

// ZZ_C05_Corruption: one byte of a well-formed ping frame is changed. A change in the magic or checksum field is
// always rejected; a change in the length field that announces more bytes than follow is rejected; a change in the
// command field is rejected unless it turns "ping" into the equally framed "pong".
func ZZ_C05_Corruption() {
	config.DefConfig.P2PNode.NetworkMagic = zzsym.U32("magic")
	sink := comm.NewZeroCopySink(nil)
	WriteMessage(sink, &Ping{Height: zzsym.U64("height")})
	raw := append([]byte(nil), sink.Bytes()...)
	pos := zzsym.Choose("pos", p2p.MSG_HDR_LEN)
	delta := zzsym.U8("delta")
	zzsym.Assume(delta != 0)
	raw[pos] ^= delta
	m, _, err := ReadMessage(bytes.NewReader(raw))
	switch {
	case pos < 4:
		zzsym.Assert(err != nil, "a frame with a corrupted magic is rejected")
		zzsym.Cover("magic")
	case pos < 16:
		if err == nil {
			zzsym.Assert(m.CmdType() == p2p.PONG_TYPE && pos == 5, "a corrupted command is rejected, except ping -> pong (same payload format)")
			zzsym.Cover("ping-to-pong")
		}
		zzsym.Cover("command")
	case pos < 20:
		if zzC05LE32(raw[16:20]) > 8 {
			zzsym.Assert(err != nil, "a frame announcing more payload than follows is rejected")
			zzsym.Cover("length-longer")
		}
	default:
		zzsym.Assert(err != nil, "a frame with a corrupted checksum is rejected")
		zzsym.Cover("checksum")
	}
}

func ZZ_C05_Corruption_witness() {
	config.DefConfig.P2PNode.NetworkMagic = 7
	sink := comm.NewZeroCopySink(nil)
	WriteMessage(sink, &Ping{Height: 9})
	raw := append([]byte(nil), sink.Bytes()...)
	raw[4+zzsym.Choose("pos", 4)] ^= zzsym.U8("delta")
	_, _, err := ReadMessage(bytes.NewReader(raw))
	zzsym.Assert(err == nil, "witness: corrupting the command of a ping frame can make it unreadable")
}

type zzC05Decoder struct {
	name string
	mk   func() Message
}

func zzC05Decoders() []zzC05Decoder {
	return []zzC05Decoder{
		{"ping", func() Message { return &Ping{} }}, {"pong", func() Message { return &Pong{} }}, {"version", func() Message { return &Version{} }},
		{"verack", func() Message { return &VerACK{} }}, {"getaddr", func() Message { return &AddrReq{} }}, {"getheaders", func() Message { return &HeadersReq{} }},
		{"headers", func() Message { return &BlkHeader{} }}, {"inv", func() Message { return &Inv{} }}, {"getdata", func() Message { return &DataReq{} }},
		{"consensus", func() Message { return &Consensus{} }}, {"notfound", func() Message { return &NotFound{} }}, {"disconnect", func() Message { return &Disconnected{} }},
		{"getblocks", func() Message { return &BlocksReq{} }},
	}
}

func zzC05NoPanic(ds []zzC05Decoder) {
	i := zzsym.Param("ONLY")
	if i < 0 {
		i = zzsym.Choose("kind", len(ds))
	}
	d := ds[i]
	buf := zzsym.BytesUpTo("buf", zzsym.Param("B_"+d.name))
	src := comm.NewZeroCopySource(buf)
	err := d.mk().Deserialization(src)
	zzsym.Assert(src.Pos() <= uint64(len(buf)), "the payload decoder never reads past the payload")
	if err == nil {
		zzsym.Cover("decoded-" + d.name)
	} else {
		zzsym.Cover("rejected-" + d.name)
	}
}

// ZZ_C05_PayloadNoPanic: every payload decoder, fed arbitrary bytes, returns a message or an error and never panics.
// (Trn and Block only delegate to the core/types decoders checked under C02.)
func ZZ_C05_PayloadNoPanic() { zzC05NoPanic(zzC05Decoders()) }

func ZZ_C05_PayloadNoPanic_witness() {
	buf := zzsym.BytesUpTo("buf", 12)
	p := &Ping{}
	err := p.Deserialization(comm.NewZeroCopySource(buf))
	zzsym.Assert(err != nil || p.Height != 77, "witness: some payload decodes to a ping at height 77")
}

// ZZ_C05_PayloadNoPanic_Addr: the address-list decoder (count is an untrusted uint64 that is converted to int and
// later used to re-slice the list) in a harness of its own.
func ZZ_C05_PayloadNoPanic_Addr() {
	zzC05NoPanic([]zzC05Decoder{{"addr", func() Message { return &Addr{} }}})
}

func ZZ_C05_PayloadNoPanic_Addr_witness() {
	buf := zzsym.BytesUpTo("buf", 52)
	a := &Addr{}
	err := a.Deserialization(comm.NewZeroCopySource(buf))
	zzsym.Assert(err != nil || len(a.NodeAddrs) != 1 || a.NodeAddrs[0].Port != 20338, "witness: some payload decodes to one peer address with port 20338")
}
