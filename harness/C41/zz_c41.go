package vbft

import (
	"math"

	"github.com/ontio/ontology-crypto/keypair"
	vconfig "github.com/polynetwork/poly/consensus/vbft/config"
	"github.com/polynetwork/poly/core/types"
	"github.com/polynetwork/poly/zzsym"
)

// conjunction / disjunction as single terms (array equality does not fork, && and || would)
func zzA(a, b bool) bool { return [2]bool{a, b} == [2]bool{true, true} }
func zzO(a, b bool) bool { return [2]bool{a, b} != [2]bool{false, false} }

const zzBlk = 7 // the round (block number) under consideration

// ---- what the participants said (order-free reference) -------------------------------------------------
// One fact per expression of support: participant `who` supports the proposal of `proposer`, for the full
// block (empty=false) or for its empty block (empty=true). `commit` marks signatures carried by commit messages.
type zzFact struct {
	who, proposer uint32
	empty, commit bool
	sig           byte // tag of the signature bytes that expressed it
}

type zzRound struct {
	n, c   uint32
	pool   *BlockPool
	pp     *PeerPool
	facts  []zzFact
	known  []uint32 // participants seen so far (pairwise distinct on this path); known[i] owns table key i
	nextSg byte
}

// N participants with real keys, all connected; C = floor((N-1)/3). Participant ids are symbolic: only which
// messages come from the same participant matters, so the peer table is keyed by the id terms themselves and
// the solver enumerates the partitions. Proposers are the concrete ids 1..P.
func zzNewRound() *zzRound {
	nmin := zzsym.Param("NMIN")
	n := nmin + zzsym.Choose("N", zzsym.Param("NMAX")-nmin+1)
	c := (n - 1) / 3
	r := &zzRound{n: uint32(n), c: uint32(c)}
	r.pp = &PeerPool{peers: map[uint32]*Peer{}}
	srv := &Server{Index: 1, config: &vconfig.ChainConfig{N: uint32(n), C: uint32(c)}, peerPool: r.pp, stateMgr: &StateMgr{}}
	r.pp.server = srv
	// no participant is in the endorser role list unless a harness sets one (in the code under test the role
	// only weighs empty votes in commitDone)
	srv.currentParticipantConfig = &BlockParticipantConfig{BlockNum: zzBlk}
	r.pool = &BlockPool{server: srv, candidateBlocks: map[uint32]*CandidateInfo{}}
	srv.blockPool = r.pool
	for i := 1; i <= zzsym.Param("P"); i++ {
		r.register(uint32(i))
	}
	return r
}

func (r *zzRound) register(v uint32) {
	if _, ok := r.pp.peers[v]; !ok { // forks: an already known participant, or a new one
		r.pp.peers[v] = &Peer{Index: v, PubKey: zzsym.PubKey(len(r.known)), connected: true}
		r.known = append(r.known, v)
	}
}

// a participant id: the server only admits messages whose signature verifies against one of the N known peers
func (r *zzRound) id(name string) uint32 {
	v := zzsym.U32(name)
	zzsym.Assume(zzA(v >= 1, v <= r.n))
	r.register(v)
	return v
}

// a proposer id: one of the first P participants (a round has C+1 proposers), explored value by value
func (r *zzRound) prop(name string) uint32 {
	return uint32(1 + zzsym.Choose(name, zzsym.Param("P")))
}

func (r *zzRound) sig() (byte, []byte) {
	r.nextSg++
	return r.nextSg, []byte{r.nextSg}
}

func (r *zzRound) block(proposer uint32, sg, esg []byte) *Block {
	return &Block{
		Block:      &types.Block{Header: &types.Header{Height: zzBlk, SigData: [][]byte{sg}}},
		EmptyBlock: &types.Block{Header: &types.Header{Height: zzBlk, SigData: [][]byte{esg}}},
		Info:       &vconfig.VbftBlockInfo{Proposer: proposer},
	}
}

func (r *zzRound) sendProposal() {
	p := r.prop("proposal.proposer")
	tag, sg := r.sig()
	_, esg := r.sig()
	r.facts = append(r.facts, zzFact{who: p, proposer: p, sig: tag})
	r.pool.newBlockProposal(&blockProposalMsg{Block: r.block(p, sg, esg)})
	zzsym.Cover("proposal")
}

func (r *zzRound) sendEndorse() {
	e, p, empty := r.id("endorse.endorser"), r.prop("endorse.proposer"), zzsym.Bool("endorse.empty")
	tag, sg := r.sig()
	r.facts = append(r.facts, zzFact{who: e, proposer: p, empty: empty, sig: tag})
	err := r.pool.newBlockEndorsement(&blockEndorseMsg{Endorser: e, EndorsedProposer: p, BlockNum: zzBlk, EndorseForEmpty: empty, EndorserSig: sg})
	zzsym.Assert(err == nil, "an endorsement is recorded or ignored, never an error")
	zzsym.Cover("endorse")
}

func (r *zzRound) sendCommit(maxEndorsers int) {
	cm, p, empty := r.id("commit.committer"), r.prop("commit.proposer"), zzsym.Bool("commit.empty")
	tag, sg := r.sig()
	msg := &blockCommitMsg{Committer: cm, BlockProposer: p, BlockNum: zzBlk, CommitForEmpty: empty, CommitterSig: sg, EndorsersSig: map[uint32][]byte{}}
	msg.CommitBlockHash[0] = zzsym.U8("commit.hash")
	r.facts = append(r.facts, zzFact{who: cm, proposer: p, empty: empty, commit: true, sig: tag})
	ne := zzsym.Choose("commit.nendorsers", maxEndorsers+1)
	for i := 0; i < ne; i++ {
		e := r.id("commit.endorser")
		etag, esg := r.sig()
		msg.EndorsersSig[e] = esg
		r.facts = append(r.facts, zzFact{who: e, proposer: p, empty: empty, commit: true, sig: etag})
	}
	r.pool.newBlockCommitment(msg)
	zzsym.Cover("commit")
}

// exists k facts with pairwise distinct participants that all satisfy ok (one term, no forks)
func (r *zzRound) distinct(k int, ok []bool) bool {
	var rec func(start int, chosen []int) bool
	rec = func(start int, chosen []int) bool {
		if len(chosen) == k {
			all := true
			for a, i := range chosen {
				all = zzA(all, ok[i])
				for _, j := range chosen[:a] {
					all = zzA(all, r.facts[i].who != r.facts[j].who)
				}
			}
			return all
		}
		any := false
		for i := start; i < len(r.facts); i++ {
			any = zzO(any, rec(i+1, append(append([]int(nil), chosen...), i)))
		}
		return any
	}
	return rec(0, nil)
}

type zzSel func(f zzFact) bool

func (r *zzRound) atLeast(k uint32, sel zzSel) bool {
	ok := make([]bool, len(r.facts))
	for i, f := range r.facts {
		ok[i] = sel(f)
	}
	return r.distinct(int(k), ok)
}

// The decision functions only read the pool, but their answer depends on Go's map iteration order. Under the
// engine every order is explored (spec all_map_orders); a native replay samples the runtime's random orders.
func zzTries() int {
	if zzsym.Symbolic() {
		return 1
	}
	return 64
}

// M messages; kinds: 1 = endorsements only, 2 = endorsements and proposals, 3 = all three, 4 = commit messages only
func (r *zzRound) messages(M int, kinds int, maxEndorsers int) {
	for m := 0; m < M; m++ {
		k := 2
		if kinds != 4 {
			k = zzsym.Choose("kind", kinds)
		}
		switch k {
		case 0:
			r.sendEndorse()
		case 1:
			r.sendProposal()
		case 2:
			r.sendCommit(maxEndorsers)
		}
	}
}

// endorseDone: a proposal counts as endorsed only with more than C distinct supporters; an empty-block decision
// only with more than C distinct participants voting empty. Every Go map iteration order is explored.
func ZZ_C41_EndorseDone() {
	r := zzNewRound()
	r.messages(zzsym.Param("M"), zzsym.Param("KINDS"), zzsym.Param("E"))
	for t := zzTries(); t > 0; t-- {
		p, forEmpty, done := r.pool.endorseDone(zzBlk, r.c)
		if !done {
			zzsym.Assert(zzA(p == math.MaxUint32, !forEmpty), "no decision names no proposer")
			zzsym.Cover("endorse-pending")
			continue
		}
		if forEmpty {
			zzsym.Assert(r.atLeast(r.c+1, func(f zzFact) bool { return f.empty }),
				"the round is endorsed for an empty block only when more than C distinct participants voted for an empty block")
			zzsym.Cover("endorse-empty")
		} else {
			zzsym.Assert(r.atLeast(r.c+1, func(f zzFact) bool { return zzA(!f.empty, f.proposer == p) }),
				"a proposal is treated as endorsed only when more than C distinct participants endorsed it")
			zzsym.Cover("endorse-proposal")
		}
		zzsym.Cover("endorse-done")
	}
}

// Same check, other bounds (one proposer, longer sequences).
func ZZ_C41_EndorseDoneLong() {
	ZZ_C41_EndorseDone()
}

// Stricter reading for the empty-block decision: the proposer named by endorseDone is the one whose empty block
// more than C distinct participants voted for.
func ZZ_C41_EndorseEmptySameProposal() {
	r := zzNewRound()
	r.messages(zzsym.Param("M"), 1, 0)
	for t := zzTries(); t > 0; t-- {
		p, forEmpty, done := r.pool.endorseDone(zzBlk, r.c)
		if done && forEmpty {
			zzsym.Assert(r.atLeast(r.c+1, func(f zzFact) bool { return zzA(f.empty, f.proposer == p) }),
				"the empty block named as endorsed is one that more than C distinct participants voted for")
			zzsym.Cover("endorse-empty")
		}
	}
	zzsym.Cover("endorse-empty-done")
}

// commitDone: committed only with N-floor((N-1)/3)-1 distinct signers in commit messages for one proposal, or
// more than N-1-C distinct endorsers of it.
func ZZ_C41_CommitDone() {
	r := zzNewRound()
	r.messages(zzsym.Param("M"), zzsym.Param("KINDS"), zzsym.Param("E"))
	for t := zzTries(); t > 0; t-- {
		p, _, done := r.pool.commitDone(zzBlk, r.c, r.n)
		if !done {
			zzsym.Assert(p == math.MaxUint32, "no decision names no proposer")
			zzsym.Cover("commit-pending")
			continue
		}
		signers := r.atLeast(r.n-(r.n-1)/3-1, func(f zzFact) bool { return zzA(f.commit, f.proposer == p) })
		endorsers := r.atLeast(r.n-r.c, func(f zzFact) bool { return zzA(!f.empty, f.proposer == p) })
		zzsym.Assert(zzO(signers, endorsers),
			"a round is committed only when N-floor((N-1)/3)-1 distinct commit signers or more than N-1-C distinct endorsers support the same proposal")
		if len(r.pool.candidateBlocks[zzBlk].CommitMsgs) == 0 {
			zzsym.Assert(endorsers, "without commit messages only more than N-1-C distinct endorsers commit the round")
			zzsym.Cover("commit-by-endorsers")
		} else {
			zzsym.Cover("commit-with-commit-msgs")
		}
		zzsym.Cover("commit-done")
	}
}

// Same check, fed with commit messages only (spec KINDS=4): exercises getCommitConsensus.
func ZZ_C41_CommitBySigners() {
	ZZ_C41_CommitDone()
}

// Same check, proposals / endorsements / commit messages mixed (insertion order of the maps only).
func ZZ_C41_CommitMixed() {
	ZZ_C41_CommitDone()
}

// The empty-block flag of commitDone (no commit messages): set only when more than N-1-C distinct participants
// voted for an empty block (no vote counts twice). N-C distinct participants endorse proposal 1 (the first 2C+1 of
// them hold the endorser role), then M further endorsements of any shape arrive.
func ZZ_C41_CommitEmptyFlag() {
	r := zzNewRound()
	role := r.pool.server.currentParticipantConfig
	for i := uint32(0); i < r.n-r.c; i++ {
		e := r.id("endorse.endorser")
		for _, f := range r.facts {
			zzsym.Assume(f.who != e)
		}
		if i < 2*r.c+1 {
			role.Endorsers = append(role.Endorsers, e)
		}
		tag, sg := r.sig()
		r.facts = append(r.facts, zzFact{who: e, proposer: 1, sig: tag})
		r.pool.newBlockEndorsement(&blockEndorseMsg{Endorser: e, EndorsedProposer: 1, BlockNum: zzBlk, EndorserSig: sg})
	}
	r.messages(zzsym.Param("M"), 1, 0)
	for t := zzTries(); t > 0; t-- {
		_, forEmpty, done := r.pool.commitDone(zzBlk, r.c, r.n)
		if done && forEmpty {
			zzsym.Assert(r.atLeast(r.n-r.c, func(f zzFact) bool { return f.empty }),
				"the commit decision is for an empty block only when more than N-1-C distinct participants voted empty")
			zzsym.Cover("commit-empty")
		}
		if done {
			zzsym.Cover("commit-flag-decided")
		}
	}
	zzsym.Cover("commit-flag-done")
}

// Per participant the pool keeps at most one vote per proposal and at most one empty vote, whatever is sent.
func ZZ_C41_OneVotePerParticipant() {
	r := zzNewRound()
	r.messages(zzsym.Param("M"), zzsym.Param("KINDS"), zzsym.Param("E"))
	c := r.pool.candidateBlocks[zzBlk]
	if c == nil {
		return
	}
	for _, sigs := range c.EndorseSigs {
		for i, a := range sigs {
			for _, b := range sigs[:i] {
				zzsym.Assert(zzO(a.ForEmpty != b.ForEmpty, zzA(!a.ForEmpty, a.EndorsedProposer != b.EndorsedProposer)),
					"repeated messages from one participant are recorded once (one vote per proposal, one empty vote)")
			}
		}
		if len(sigs) > 1 {
			zzsym.Cover("conflicting-votes")
		}
	}
	for i, a := range c.CommitMsgs {
		for _, b := range c.CommitMsgs[:i] {
			zzsym.Assert(a.Committer != b.Committer, "one committer, one commit message")
		}
	}
	for i, a := range c.Proposals {
		for _, b := range c.Proposals[:i] {
			zzsym.Assert(a.Block.getProposer() != b.Block.getProposer(), "one proposer, one proposal")
		}
	}
	zzsym.Cover("votes-done")
}

// index (into r.known) of the participant owning key k, -1 if none
func (r *zzRound) participantOf(k keypair.PublicKey) int {
	for i := range r.known {
		if r.pp.peers[r.known[i]].PubKey == k {
			return i
		}
	}
	return -1
}

func (r *zzRound) indexOf(id uint32) int {
	for i, v := range r.known {
		if v == id {
			return i
		}
	}
	return -1
}

// A sealed block carries the proposer's signature and exactly one signature per distinct supporting participant.
func ZZ_C41_SealSignatures() {
	r := zzNewRound()
	r.messages(zzsym.Param("M"), zzsym.Param("KINDS"), zzsym.Param("E"))
	p := r.prop("seal.proposer")
	forEmpty := zzsym.Bool("seal.empty")
	blk := r.block(p, []byte{0xF0}, []byte{0xF1})
	err := r.pool.addSignaturesToBlockLocked(blk, forEmpty)
	zzsym.Assert(err == nil, "signatures can be attached to a block that has an empty candidate")
	h := blk.Block.Header
	own := byte(0xF0)
	if forEmpty {
		h = blk.EmptyBlock.Header
		own = 0xF1
	}
	zzsym.Assert(len(h.Bookkeepers) == len(h.SigData) && len(h.Bookkeepers) >= 1, "one signature per bookkeeper")
	pi := r.indexOf(p)
	zzsym.Assert(r.participantOf(h.Bookkeepers[0]) == pi && len(h.SigData[0]) == 1 && h.SigData[0][0] == own, "the proposer signs first, with the signature of the sealed variant")
	seen := make([]bool, len(r.known))
	seen[pi] = true
	for i := 1; i < len(h.Bookkeepers); i++ {
		wi := r.participantOf(h.Bookkeepers[i])
		zzsym.Assert(wi >= 0 && !seen[wi], "a sealed block carries at most one signature per participant")
		if wi < 0 || seen[wi] {
			continue
		}
		seen[wi] = true
		who := r.known[wi]
		tag := h.SigData[i][0]
		said := false
		for _, f := range r.facts {
			said = zzO(said, zzA(zzA(f.who == who, f.sig == tag), zzA(f.proposer == p, f.empty == forEmpty)))
		}
		zzsym.Assert(said, "every signature in a sealed block was given by that participant for this proposal and variant")
		zzsym.Cover("supporter-signature")
	}
	// every participant whose recorded vote matches is represented
	if c := r.pool.candidateBlocks[zzBlk]; c != nil {
		for i, id := range r.known {
			if i == pi {
				continue
			}
			for _, s := range c.EndorseSigs[id] {
				if s.EndorsedProposer == p && s.ForEmpty == forEmpty {
					zzsym.Assert(seen[i], "every distinct supporting participant is represented in the sealed block")
				}
			}
		}
	}
	zzsym.Cover("seal-done")
}

// Same check, other bounds (two proposers, commit messages with endorser signatures, shorter sequences).
func ZZ_C41_SealSignaturesWide() {
	ZZ_C41_SealSignatures()
}

func ZZ_C41_EndorseDone_witness() {
	r := zzNewRound()
	r.messages(2, 1, 0)
	_, _, done := r.pool.endorseDone(zzBlk, r.c)
	zzsym.Assert(!done, "witness: two distinct endorsers of one proposal reach the C=1 threshold")
}

func ZZ_C41_CommitDone_witness() {
	r := zzNewRound()
	r.messages(1, 4, 1)
	_, _, done := r.pool.commitDone(zzBlk, r.c, r.n)
	zzsym.Assert(!done, "witness: one commit message carrying an endorser signature reaches the N=4 threshold")
}

func ZZ_C41_SealSignatures_witness() {
	r := zzNewRound()
	r.messages(2, 1, 0)
	blk := r.block(1, []byte{0xF0}, []byte{0xF1})
	r.pool.addSignaturesToBlockLocked(blk, false)
	zzsym.Assert(len(blk.Block.Header.Bookkeepers) < 3, "witness: two endorsers of proposer 1 sign the sealed block")
}
