package eth

import (
	"math/big"

	"github.com/ethereum/go-ethereum/core/types"
	"github.com/polynetwork/poly/zzsym"
)

// ---- gas limit rule (pre-London and the bound part of EIP-1559) --------------------------------

// The caller (SyncBlockHeader) rejects header.GasLimit > 2^63-1 first; parent limits are stored headers
// that passed the same test (or twice such a value for the first London block).
func ZZ_C28_GasLimitRule() {
	parent := zzsym.U64("parentGasLimit")
	header := zzsym.U64("headerGasLimit")
	zzsym.Assume(parent <= 0x7fffffffffffffff && header <= 0x7fffffffffffffff)
	err := VerifyGaslimit(parent, header)
	// specification: |header - parent| < parent / 1024  and  header >= 5000
	var diff uint64
	if header > parent {
		diff = header - parent
	} else {
		diff = parent - header
	}
	want := diff < parent/1024 && header >= 5000
	zzsym.Assert((err == nil) == want, "gas limit accepted iff |delta| < parent/1024 and limit >= 5000")
	zzsym.Cover("gaslimit")
}

// ---- EIP-1559 base fee ----------------------------------------------------------------------------

func zzBig(name string) *big.Int { return new(big.Int).SetUint64(zzsym.U64(name)) }

// The product baseFee*(gasUsed-target) and the division by target are non-linear when all three are
// symbolic (z3 does not decide that within the budget), so the space is cut into two linear families:
//   mode 0: any 64-bit base fee, gas limit / gas used from boundary values
//   mode 1: any gas used (64 bit), base fee and gas limit from boundary values
var zzLimits = []uint64{2, 3, 10000, 30000000, 0x7fffffffffffffff}
var zzFees = []uint64{0, 1, 7, 8, 9, 1000000000, 0xffffffffffffffff}

func ZZ_C28_BaseFeeRule() {
	isTest, testLondonHeight = true, 0 // every block is a London block
	gasLimit := zzLimits[zzsym.Choose("gasLimit", len(zzLimits))]
	target0 := gasLimit / 2
	var gasUsed uint64
	var baseFee *big.Int
	if zzsym.Choose("mode", 2) == 0 {
		useds := []uint64{0, target0 - 1, target0, target0 + 1, gasLimit}
		gasUsed = useds[zzsym.Choose("gasUsed", len(useds))]
		baseFee = zzBig("baseFee")
	} else {
		gasUsed = zzsym.U64("gasUsed")
		baseFee = new(big.Int).SetUint64(zzFees[zzsym.Choose("baseFee", len(zzFees))])
	}
	zzsym.Assume(gasUsed <= gasLimit)
	parent := &Header{Number: big.NewInt(100), GasLimit: gasLimit, GasUsed: gasUsed, BaseFee: baseFee}
	got := CalcBaseFee(parent)
	// EIP-1559 specification
	target := gasLimit / 2
	T := new(big.Int).SetUint64(target)
	var want *big.Int
	if gasUsed == target {
		want = new(big.Int).Set(baseFee)
		zzsym.Cover("equal")
	} else if gasUsed > target {
		delta := new(big.Int).SetUint64(gasUsed - target)
		d := new(big.Int).Mul(baseFee, delta)
		d.Div(d, T)
		d.Div(d, big.NewInt(8))
		if d.Cmp(big.NewInt(1)) < 0 {
			d = big.NewInt(1)
		}
		want = new(big.Int).Add(baseFee, d)
		zzsym.Assert(got.Cmp(baseFee) > 0, "base fee strictly increases when the parent was above target")
		zzsym.Cover("above")
	} else {
		delta := new(big.Int).SetUint64(target - gasUsed)
		d := new(big.Int).Mul(baseFee, delta)
		d.Div(d, T)
		d.Div(d, big.NewInt(8))
		want = new(big.Int).Sub(baseFee, d)
		if want.Sign() < 0 {
			want = big.NewInt(0)
		}
		zzsym.Assert(got.Cmp(baseFee) <= 0, "base fee does not increase when the parent was below target")
		zzsym.Cover("below")
	}
	zzsym.Assert(got.Cmp(want) == 0, "CalcBaseFee equals the EIP-1559 formula")
	zzsym.Assert(got.Sign() >= 0, "base fee is never negative")
	// the verifier accepts exactly that base fee (gas-limit part held fixed and valid)
	if gasLimit >= 5000 {
		ok := &Header{Number: big.NewInt(101), GasLimit: gasLimit, BaseFee: new(big.Int).Set(want)}
		zzsym.Assert(VerifyEip1559Header(parent, ok) == nil, "a London header carrying the calculated base fee is accepted")
		hi := &Header{Number: big.NewInt(101), GasLimit: gasLimit, BaseFee: new(big.Int).Add(want, big.NewInt(1))}
		zzsym.Assert(VerifyEip1559Header(parent, hi) != nil, "a base fee one above the calculated one is rejected")
		lo := &Header{Number: big.NewInt(101), GasLimit: gasLimit, BaseFee: new(big.Int).Sub(want, big.NewInt(1))}
		zzsym.Assert(VerifyEip1559Header(parent, lo) != nil, "a base fee one below the calculated one is rejected")
		missing := &Header{Number: big.NewInt(101), GasLimit: gasLimit}
		zzsym.Assert(VerifyEip1559Header(parent, missing) != nil, "a London header without base fee is rejected")
		zzsym.Cover("verify1559")
	}
}

// ---- difficulty (EIP-100 adjustment + delayed bomb) ------------------------------------------------

func zzDifficultySpec(time, parentTime uint64, uncles bool, parentDiff *big.Int, parentNumber *big.Int, delay int64) *big.Int {
	// adj = max((2 if uncles else 1) - (time - parentTime) // 9, -99)
	dt := new(big.Int).SetUint64(time)
	dt.Sub(dt, new(big.Int).SetUint64(parentTime))
	dt.Div(dt, big.NewInt(9))
	c := int64(1)
	if uncles {
		c = 2
	}
	adj := new(big.Int).Sub(big.NewInt(c), dt)
	if adj.Cmp(big.NewInt(-99)) < 0 {
		adj = big.NewInt(-99)
	}
	// diff = max(parent_diff + parent_diff // 2048 * adj, 131072)
	q := new(big.Int).Div(parentDiff, big.NewInt(2048))
	d := new(big.Int).Add(parentDiff, q.Mul(q, adj))
	if d.Cmp(big.NewInt(131072)) < 0 {
		d = big.NewInt(131072)
	}
	// bomb: fake = max(parent_number - (delay - 1), 0); period = fake // 100000; if period >= 2: diff += 2^(period-2)
	fake := new(big.Int).Sub(parentNumber, big.NewInt(delay-1))
	if fake.Sign() < 0 {
		fake = big.NewInt(0)
	}
	period := new(big.Int).Div(fake, big.NewInt(100000))
	if period.Cmp(big.NewInt(2)) >= 0 {
		e := new(big.Int).Sub(period, big.NewInt(2))
		d.Add(d, new(big.Int).Exp(big.NewInt(2), e, nil))
	}
	return d
}

func zzDifficultyCase(delay int64, calc func(time uint64, parent *Header) *big.Int) {
	time := zzsym.U64("time")
	parentTime := zzsym.U64("parentTime")
	zzsym.Assume(time > parentTime) // SyncBlockHeader rejects header.Time <= parent.Time first
	uncles := zzsym.Bool("parentHasUncles")
	parentDiff := zzBig("parentDifficulty")
	// parent number: any value in a window of PERIODS bomb periods around the delay
	num := zzsym.U64("parentNumber")
	zzsym.Assume(num < uint64(delay)+uint64(zzsym.Param("PERIODS"))*100000)
	parent := &Header{Time: parentTime, Difficulty: parentDiff, Number: new(big.Int).SetUint64(num), UncleHash: types.EmptyUncleHash}
	if uncles {
		parent.UncleHash[0] ^= 1
	}
	got := calc(time, parent)
	want := zzDifficultySpec(time, parentTime, uncles, parentDiff, new(big.Int).SetUint64(num), delay)
	zzsym.Assert(got.Cmp(want) == 0, "difficulty equals the EIP-100 / delayed-bomb formula")
	zzsym.Assert(got.Cmp(big.NewInt(131072)) >= 0, "difficulty never drops below the minimum")
	zzsym.Cover("difficulty")
}

func ZZ_C28_DifficultyLondon() {
	zzDifficultyCase(9700000, makeDifficultyCalculator(big.NewInt(9700000)))
}

func ZZ_C28_DifficultyArrowGlacier() {
	zzDifficultyCase(10700000, makeDifficultyCalculator(big.NewInt(10700000)))
}

func ZZ_C28_DifficultyMuirGlacier() {
	zzDifficultyCase(9000000, func(time uint64, parent *Header) *big.Int {
		return difficultyCalculator(new(big.Int).SetUint64(time), parent)
	})
}

func ZZ_C28_witness() {
	parent := zzsym.U64("p")
	header := zzsym.U64("h")
	zzsym.Assume(parent <= 0x7fffffffffffffff && header <= 0x7fffffffffffffff)
	zzsym.Assert(VerifyGaslimit(parent, header) != nil, "witness: some gas limit pair is acceptable")
}
