package merkle

import (
	"bytes"
	"crypto/sha256"

	"github.com/polynetwork/poly/common"
	"github.com/polynetwork/poly/zzsym"
)

// ---------------------------------------------------------------------------------------------
// Oracle: RFC 6962 section 2.1 Merkle Tree Hash, written recursively and independently of
// TreeHasher (own leaf / node hashing, own split computation).
// ---------------------------------------------------------------------------------------------

func zzLeafHash(d []byte) common.Uint256 {
	return sha256.Sum256(append([]byte{0}, d...))
}

func zzNodeHash(l, r common.Uint256) common.Uint256 {
	b := append([]byte{1}, l[:]...)
	b = append(b, r[:]...)
	return sha256.Sum256(b)
}

// zzMTH(D[n]): empty -> SHA256(""), one leaf -> SHA256(0x00||d), else k = largest power of two < n,
// SHA256(0x01 || MTH(D[0:k]) || MTH(D[k:n])).
func zzMTH(leaves [][]byte) common.Uint256 {
	n := len(leaves)
	if n == 0 {
		return sha256.Sum256(nil)
	}
	if n == 1 {
		return zzLeafHash(leaves[0])
	}
	k := 1
	for k*2 < n {
		k *= 2
	}
	return zzNodeHash(zzMTH(leaves[:k]), zzMTH(leaves[k:]))
}

func zzPopCount(n uint32) int {
	c := 0
	for i := uint(0); i < 32; i++ {
		c += int((n >> i) & 1)
	}
	return c
}

func zzU256(b []byte) common.Uint256 {
	var h common.Uint256
	copy(h[:], b)
	return h
}

// zzNotZero: CompactMerkleTree uses the all-zero word as its "root not cached" marker, so Root()
// compares the cached root with zero. A root that happened to be the zero word would only be recomputed
// (to the same value); assuming it away keeps that comparison from forking on every Root() call.
func zzNotZero(h common.Uint256) {
	zzsym.Assume(h != EMPTY_HASH)
}

func zzLeaves(n int) [][]byte {
	out := make([][]byte, n)
	for i := range out {
		out[i] = zzsym.Bytes("leaf", 32) // block hashes / write-set hashes: 32 arbitrary bytes
	}
	return out
}

// zzSameHashes compares two hash lists as one byte string (a single term, no fork per element).
func zzSameHashes(a, b []common.Uint256) bool {
	return bytes.Equal(zzFlat(a), zzFlat(b))
}

func zzFlat(hs []common.Uint256) []byte {
	out := make([]byte, 0, 32*len(hs))
	for i := range hs {
		out = append(out, hs[i][:]...)
	}
	return out
}

// ---------------------------------------------------------------------------------------------
// ZZ_C06_AppendRoot: after every append the root is MTH of all appended leaves, the predicted root
// (one leaf, several leaves) equals the root after really appending, the audit path returned by
// Append verifies, the compact state has popcount(size) hashes, the hash store holds the
// 2*size-popcount(size) post-order node hashes.
// ---------------------------------------------------------------------------------------------
func ZZ_C06_AppendRoot() {
	N := zzsym.Param("N")
	size := zzsym.Choose("size", N+1)
	extra := zzsym.Choose("extra", zzsym.Param("K")+1) // size+extra may exceed N by at most K
	store := &memHashStore{}
	tree := NewTree(0, nil, store)
	v := NewMerkleVerifier()
	zzsym.Assert(tree.Root() == zzMTH(nil), "root of the empty accumulator = MTH of the empty list")
	leaves := zzLeaves(size)
	for i := 0; i < size; i++ {
		predicted := tree.GetRootWithNewLeaf(zzU256(leaves[i]))
		before := tree.Root()
		zzsym.Assert(before == zzMTH(leaves[:i]), "predicting a root does not change the tree")
		audit := tree.Append(leaves[i])
		want := zzMTH(leaves[:i+1])
		zzNotZero(want)
		zzsym.Assert(tree.Root() == want, "root after appends = RFC 6962 MTH of all appended leaves")
		zzsym.Assert(predicted == want, "root predicted for one extra leaf = root after appending it")
		zzsym.Assert(tree.TreeSize() == uint32(i+1), "tree size counts the appended leaves")
		zzsym.Assert(len(tree.Hashes()) == zzPopCount(uint32(i+1)), "compact state holds one hash per set bit of the size")
		zzsym.Assert(len(store.hashes) == 2*(i+1)-zzPopCount(uint32(i+1)), "hash store holds every node of the perfect subtrees (2n - popcount n)")
		zzsym.Assert(v.VerifyLeafHashInclusion(zzLeafHash(leaves[i]), uint32(i), audit, want, uint32(i+1)) == nil,
			"audit path returned by Append is an inclusion proof of the new leaf")
	}
	// prediction for several leaves
	more := zzLeaves(extra)
	moreH := make([]common.Uint256, extra)
	for i := range more {
		moreH[i] = zzU256(more[i])
	}
	hashesBefore := append([]common.Uint256(nil), tree.Hashes()...)
	storeBefore := len(store.hashes)
	predicted := tree.GetRootWithNewLeaves(moreH)
	zzsym.Assert(tree.Root() == zzMTH(leaves) && tree.TreeSize() == uint32(size) &&
		zzSameHashes(hashesBefore, tree.Hashes()) && len(store.hashes) == storeBefore,
		"predicting a root for extra leaves changes neither the tree nor its hash store")
	all := append(append([][]byte(nil), leaves...), more...)
	zzNotZero(zzMTH(all))
	for i := range more {
		tree.Append(more[i])
	}
	zzsym.Assert(predicted == zzMTH(all), "root predicted for extra leaves = MTH of old and extra leaves")
	zzsym.Assert(predicted == tree.Root(), "root predicted for extra leaves = root after actually appending them")
	if extra > 1 {
		zzsym.Cover("predict-many")
	}
	if size == N {
		zzsym.Cover("append-max")
	}
	zzsym.Cover("append-done")
}

// Witness twin: MTH depends on the order of the leaves, so the root must be allowed to differ from the
// MTH of the leaves with the first two swapped.
func ZZ_C06_AppendRoot_witness() {
	size := 3
	tree := NewTree(0, nil, &memHashStore{})
	leaves := zzLeaves(size)
	for i := 0; i < size; i++ {
		tree.Append(leaves[i])
	}
	swapped := [][]byte{leaves[1], leaves[0], leaves[2]}
	zzsym.Assert(tree.Root() == zzMTH(swapped), "witness: the root depends on leaf order")
}

// ---------------------------------------------------------------------------------------------
// ZZ_C06_Reload: saving and reloading the compact state preserves the tree: Marshal/UnMarshal and
// NewTree(size, hashes, store) (what StateStore.init does with the values read back from the DB)
// give the same root, the same compact state and the same future roots; proofs keep working on the
// reloaded tree (checked in ZZ_C06_Proofs with reload=1).
// ---------------------------------------------------------------------------------------------
func ZZ_C06_Reload() {
	N := zzsym.Param("N")
	size := zzsym.Choose("size", N+1)
	extra := zzsym.Choose("extra", zzsym.Param("K")+1) // size+extra may exceed N by at most K
	store := &memHashStore{}
	tree := NewTree(0, nil, store)
	leaves := zzLeaves(size)
	for i := 0; i < size; i++ {
		tree.Append(leaves[i])
	}
	buf, err := tree.Marshal()
	zzsym.Assert(err == nil && len(buf) == 4+32*zzPopCount(uint32(size)), "Marshal writes size and one hash per set bit")

	// (a) UnMarshal into a fresh tree
	t2 := &CompactMerkleTree{}
	zzsym.Assert(t2.UnMarshal(buf) == nil, "UnMarshal accepts what Marshal wrote")
	zzsym.Assert(t2.TreeSize() == tree.TreeSize() && zzSameHashes(t2.Hashes(), tree.Hashes()), "UnMarshal restores size and compact hashes")
	zzsym.Assert(t2.Root() == zzMTH(leaves), "reloaded tree has the root of the saved tree")
	buf2, _ := t2.Marshal()
	zzsym.Assert(bytes.Equal(buf, buf2), "Marshal of the reloaded tree is byte-identical")

	// (b) NewTree from the saved (size, hashes) with the same hash store, as StateStore.init does
	hs := make([]common.Uint256, len(tree.Hashes()))
	copy(hs, tree.Hashes())
	t3 := NewTree(tree.TreeSize(), hs, store)
	zzsym.Assert(t3.Root() == zzMTH(leaves), "tree rebuilt by NewTree has the root of the saved tree")

	// (c) a truncated buffer is refused, not mis-loaded
	if size > 0 {
		t4 := &CompactMerkleTree{}
		zzsym.Assert(t4.UnMarshal(buf[:len(buf)-1]) != nil, "UnMarshal refuses a truncated state")
		zzsym.Cover("reload-truncated")
	}

	// same future
	more := zzLeaves(extra)
	all := append(append([][]byte(nil), leaves...), more...)
	for i := range more {
		p2 := t2.GetRootWithNewLeaf(zzU256(more[i]))
		t2.Append(more[i])
		t3.Append(more[i])
		want := zzMTH(all[:size+i+1])
		zzsym.Assert(t2.Root() == want && p2 == want, "tree reloaded by UnMarshal has the same future roots")
		zzsym.Assert(t3.Root() == want, "tree reloaded by NewTree has the same future roots")
	}
	if extra > 0 && size > 0 {
		zzsym.Cover("reload-continued")
	}
	zzsym.Cover("reload-done")
}

func ZZ_C06_Reload_witness() {
	tree := NewTree(0, nil, &memHashStore{})
	leaves := zzLeaves(2)
	tree.Append(leaves[0])
	buf, _ := tree.Marshal()
	tree.Append(leaves[1])
	t2 := &CompactMerkleTree{}
	t2.UnMarshal(buf)
	zzsym.Assert(t2.Root() == tree.Root(), "witness: a state saved before an append is not the later tree")
}

// ---------------------------------------------------------------------------------------------
// ZZ_C06_Proofs: on a tree of `size` leaves, for every n <= size and m <= n:
//   InclusionProof(m, n)            is accepted by VerifyLeafHashInclusion / VerifyLeafInclusion  (m < n)
//   MerkleInclusionLeafPath(d,m,n)  is accepted by MerkleProve against root(n) and yields d       (m < n)
//   ConsistencyProof(m, n)          is accepted by VerifyConsistency(root(m), root(n))           (m <= n)
//   merkleRoot(n)                   = MTH(D[0:n]) from the hash store                              (n >= 1)
// (size, n, m) are enumerated, leaf contents are symbolic. reload=1 generates the proofs from a tree
// that was saved and reloaded half way.
// ---------------------------------------------------------------------------------------------
func zzBuild(leaves [][]byte, reload bool) *CompactMerkleTree {
	store := &memHashStore{}
	tree := NewTree(0, nil, store)
	for i := range leaves {
		if reload && i == (len(leaves)+1)/2 {
			buf, _ := tree.Marshal()
			tmp := &CompactMerkleTree{}
			tmp.UnMarshal(buf)
			tree = NewTree(tmp.TreeSize(), tmp.Hashes(), store)
		}
		tree.Append(leaves[i])
	}
	return tree
}

// zzCheckProofs checks every proof kind for one (m, n) pair on a tree that holds `leaves`.
// withEmptyOld also asks for the consistency proof from old size 0.
func zzCheckProofs(tree *CompactMerkleTree, leaves [][]byte, m, n int, withEmptyOld bool) {
	v := NewMerkleVerifier()
	rootN := zzMTH(leaves[:n])
	rootM := zzMTH(leaves[:m])
	if n >= 1 {
		zzsym.Assert(tree.merkleRoot(uint32(n)) == rootN, "root of an earlier size recomputed from the hash store = MTH of that prefix")
	}
	if m < n {
		proof, err := tree.InclusionProof(uint32(m), uint32(n))
		zzsym.Assert(err == nil, "an inclusion proof exists for every leaf of every earlier size")
		zzsym.Assert(v.VerifyLeafHashInclusion(zzLeafHash(leaves[m]), uint32(m), proof, rootN, uint32(n)) == nil,
			"inclusion proof is accepted by VerifyLeafHashInclusion")
		zzsym.Assert(v.VerifyLeafInclusion(leaves[m], uint32(m), proof, rootN, uint32(n)) == nil,
			"inclusion proof is accepted by VerifyLeafInclusion")
		path, err := tree.MerkleInclusionLeafPath(leaves[m], uint32(m), uint32(n))
		zzsym.Assert(err == nil, "a leaf path exists for every leaf of every earlier size")
		val, err := MerkleProve(path, rootN[:])
		zzsym.Assert(err == nil && bytes.Equal(val, leaves[m]), "leaf path is accepted by MerkleProve and yields the leaf")
		zzsym.Cover("inclusion")
		if n < len(leaves) {
			zzsym.Cover("inclusion-earlier-size")
		}
	} else {
		_, err := tree.InclusionProof(uint32(m), uint32(n))
		_, err2 := tree.MerkleInclusionLeafPath(nil, uint32(m), uint32(n))
		zzsym.Assert(err != nil && err2 != nil, "no inclusion proof for an index outside the tree")
	}
	if m >= 1 || withEmptyOld {
		if m < n {
			// VerifyConsistency starts with "old root == new root => accept". Inputs on which two different
			// prefixes have the same root are therefore accepted trivially; leaving them out spares the solver
			// the search for such a hash coincidence on every path.
			zzsym.Assume(rootM != rootN)
		}
		cproof := tree.ConsistencyProof(uint32(m), uint32(n))
		zzsym.Assert(v.VerifyConsistency(uint32(m), uint32(n), rootM, rootN, cproof) == nil,
			"consistency proof between any two sizes is accepted by VerifyConsistency")
	}
	if m > 0 && m < n {
		zzsym.Cover("consistency")
		if m&(m-1) != 0 {
			zzsym.Cover("consistency-unbalanced-old")
		}
	}
	_, err := tree.InclusionProof(0, uint32(len(leaves)+1))
	zzsym.Assert(err != nil && tree.ConsistencyProof(1, uint32(len(leaves)+1)) == nil, "no proofs for a size the tree has not reached")
}

func ZZ_C06_Proofs() {
	N := zzsym.Param("N")
	size := zzsym.Choose("size", N+1)
	n := zzsym.Choose("n", size+1)
	m := zzsym.Choose("m", n+1)
	reload := zzsym.Choose("reload", 2) == 1
	leaves := zzLeaves(size)
	tree := zzBuild(leaves, reload)
	// old size 0 on the in-memory store: see ZZ_C06_ConsistencyFromEmpty
	zzCheckProofs(tree, leaves, m, n, false)
	if reload {
		zzsym.Cover("proofs-after-reload")
	}
	zzsym.Cover("proofs-done")
}

// Old size 0 (the empty tree) is a size too: ConsistencyProof(0, n) must return a proof (any) that
// VerifyConsistency accepts, without panicking. Here on memHashStore; the same on the file store is
// part of ZZ_C06_FileStore.
func ZZ_C06_ConsistencyFromEmpty() {
	N := zzsym.Param("N")
	n := zzsym.Choose("n", N+1)
	leaves := zzLeaves(n)
	tree := zzBuild(leaves, false)
	cproof := tree.ConsistencyProof(0, uint32(n))
	if n > 0 {
		// SHA-256 is uninterpreted: exclude the collision "root of a non-empty tree = hash of the empty string"
		zzsym.Assume(zzMTH(leaves) != zzMTH(nil))
	}
	zzsym.Assert(NewMerkleVerifier().VerifyConsistency(0, uint32(n), zzMTH(nil), zzMTH(leaves), cproof) == nil,
		"consistency proof from the empty tree to any size is accepted by VerifyConsistency")
	zzsym.Cover("from-empty-done")
}

// Witness twin: the proof for leaf m must not be forced to verify for a different leaf value.
func ZZ_C06_Proofs_witness() {
	leaves := zzLeaves(3)
	tree := zzBuild(leaves, false)
	proof, _ := tree.InclusionProof(1, 3)
	other := zzsym.Bytes("other", 32)
	err := NewMerkleVerifier().VerifyLeafInclusion(other, 1, proof, zzMTH(leaves), 3)
	zzsym.Assert(err == nil, "witness: an inclusion proof binds the leaf value")
}

// ---------------------------------------------------------------------------------------------
// Bit helpers, decided for every 32-bit argument (loops fork at most 33 ways).
// ---------------------------------------------------------------------------------------------
func ZZ_C06_BitHelpers() {
	x := zzsym.U32("x")
	hb := highBit(x)
	zzsym.Assert(hb <= 32, "highBit is at most 32")
	zzsym.Assert((x == 0) == (hb == 0), "highBit is 0 exactly for 0")
	if hb > 0 {
		zzsym.Assert(x>>(hb-1) == 1, "highBit is the 1-based position of the highest set bit")
	}
	lb := lowBit(x)
	zzsym.Assert((x == 0) == (lb == 0), "lowBit is 0 exactly for 0")
	if lb > 0 {
		zzsym.Assert((x>>(lb-1))&1 == 1 && x&((uint32(1)<<(lb-1))-1) == 0, "lowBit is the 1-based position of the lowest set bit")
	}
	zzsym.Cover("bits-done")
}

// countBit against the bit-sum specification for every argument below 2^W (one path per result value),
// isPower2 for the same arguments.
func ZZ_C06_CountBit() {
	W := uint(zzsym.Param("W"))
	x := zzsym.U32("x")
	if W < 32 {
		zzsym.Assume(x>>W == 0)
	}
	pc := uint(0)
	for i := uint(0); i < W; i++ {
		pc += uint((x >> i) & 1)
	}
	zzsym.Assert(countBit(x) == pc, "countBit = number of set bits")
	zzsym.Assert(isPower2(x) == (x != 0 && x&(x-1) == 0), "isPower2 recognises exactly the powers of two")
	zzsym.Cover("countbit-done")
}

func ZZ_C06_BitHelpers_witness() {
	x := zzsym.U32("x")
	zzsym.Assert(highBit(x) == lowBit(x), "witness: highBit and lowBit differ for numbers with two set bits")
}

// ---------------------------------------------------------------------------------------------
// Sub-tree layout of the hash store, enumerated for every n < 2^B: sizes of the perfect subtrees
// (2^(h+1)-1 nodes for every set bit h, highest first), their 1-based end positions (prefix sums),
// and the number of stored hashes 2n - popcount(n).
// ---------------------------------------------------------------------------------------------
func ZZ_C06_SubTreeLayout() {
	B := zzsym.Param("B")
	n := uint32(zzsym.Choose("n", 1<<uint(B)))
	sizes := getSubTreeSize(n)
	pos := getSubTreePos(n)
	zzsym.Assert(len(sizes) == zzPopCount(n) && len(pos) == zzPopCount(n), "one subtree per set bit")
	i := 0
	sum := uint32(0)
	for h := 31; h >= 0; h-- {
		if n&(uint32(1)<<uint(h)) != 0 {
			want := uint32(1)<<uint(h+1) - 1
			sum += want
			zzsym.Assert(sizes[i] == want, "subtree for bit h has 2^(h+1)-1 nodes, highest bit first")
			zzsym.Assert(pos[i] == sum, "subtree end positions are the prefix sums of the sizes")
			i++
		}
	}
	zzsym.Assert(getStoredHashNum(n) == int64(2*n)-int64(zzPopCount(n)), "stored hashes for n leaves = 2n - popcount(n)")
	zzsym.Cover("layout-done")
}

// Block-inclusion paths served to relayers (MerkleInclusionLeafPath) for tree sizes whose right-hand
// side folds three or more subtree roots (15, 23, 27, 29, 30, 31 ...): the path for leaf m of the
// size-n tree must verify with MerkleProve against root(n) and yield the leaf. Sizes are enumerated
// from a list, leaves are symbolic.
var zzFoldSizes = []int{15, 16, 23, 27, 31}

func ZZ_C06_LeafPathManySubtrees() {
	S := zzsym.Param("S") // how many of the sizes above
	n := zzFoldSizes[zzsym.Choose("size", S)]
	leaves := zzLeaves(n)
	tree := zzBuild(leaves, false)
	m := zzsym.Choose("m", 4) * (n / 4) // leaves 0, n/4, n/2, 3n/4
	path, err := tree.MerkleInclusionLeafPath(leaves[m], uint32(m), uint32(n))
	zzsym.Assert(err == nil, "a leaf path exists for every leaf of the tree")
	if err == nil {
		root := zzMTH(leaves)
		v, e := MerkleProve(path, root[:])
		zzsym.Assert(e == nil && bytes.Equal(v, leaves[m]), "the served leaf path verifies against the tree root and yields the leaf")
	}
	zzsym.Cover("leafpath-many-subtrees")
}

// ---------------------------------------------------------------------------------------------
// ZZ_C06_PredictAsLedgerDoes: the ledger appends block hashes (AddBlockMerkleTreeRoot) without ever asking
// for the root in between, and then predicts the root for a proposal's earlier block hashes - a list that is
// EMPTY once every block the proposal refers to is already committed. No Root() call precedes the prediction
// here, so nothing the tree caches lazily can help: predicted root = MTH(appended ++ extra) for 0..K extra.
// ---------------------------------------------------------------------------------------------
func ZZ_C06_PredictAsLedgerDoes() {
	N := zzsym.Param("N")
	size := zzsym.Choose("size", N+1)
	extra := zzsym.Choose("extra", zzsym.Param("K")+1)
	reload := zzsym.Choose("reloaded", 2) == 1
	leaves := zzLeaves(size)
	tree := NewTree(0, nil, &memHashStore{})
	for i := 0; i < size; i++ {
		tree.Append(leaves[i])
	}
	if reload { // node restart: the tree is rebuilt from its saved compact state, again without a Root() call
		tree = NewTree(tree.TreeSize(), append([]common.Uint256(nil), tree.Hashes()...), &memHashStore{})
	}
	more := zzLeaves(extra)
	moreH := make([]common.Uint256, extra)
	for i := range more {
		moreH[i] = zzU256(more[i])
	}
	all := append(append([][]byte(nil), leaves...), more...)
	var predicted common.Uint256
	if extra == 1 && zzsym.Choose("single-leaf-api", 2) == 1 {
		predicted = tree.GetRootWithNewLeaf(moreH[0])
	} else {
		predicted = tree.GetRootWithNewLeaves(moreH)
	}
	zzsym.Assert(predicted == zzMTH(all), "root predicted for 0..K extra leaves = MTH of the appended and the extra leaves, also when the root was never asked for before")
	zzsym.Assert(tree.Root() == zzMTH(leaves), "the prediction leaves the tree as it was")
	if extra == 0 {
		zzsym.Cover("predict-none")
	}
	if reload {
		zzsym.Cover("predict-after-reload")
	}
	zzsym.Cover("predict-done")
}
