package merkle

import (
	"errors"
	"io"
	"os"
	"time"

	"github.com/polynetwork/poly/common"
	"github.com/polynetwork/poly/zzsym"
)

// ---------------------------------------------------------------------------------------------
// In-memory model of the os.File operations used by fileHashStore. Under the engine the spec's
// "overrides" route os.OpenFile, os.Remove and (*os.File).{Write,ReadAt,Seek,Stat,Sync,Close} to the
// functions below, so every line of fileHashStore runs unchanged. In a native replay the overrides do
// not exist and the real file system is used (file zzHashFile under /tmp).
//
// Modelled semantics (POSIX regular file): contents persist by name across open/close; O_CREATE creates
// an empty file, O_TRUNC empties it, nothing else truncates; Write stores at the handle's offset,
// zero-fills a gap, overwrites existing bytes and advances the offset; ReadAt copies what exists and
// reports io.EOF when fewer than len(b) bytes were available; Seek sets the offset; Stat().Size() is the
// current length; Sync is a no-op; operations on a closed handle fail.
// ---------------------------------------------------------------------------------------------

const zzHashFile = "/tmp/zz_c06_hashstore.db"

type zzFileData struct {
	name string
	data []byte
}

type zzHandle struct {
	h      *os.File
	f      *zzFileData
	off    int64
	closed bool
}

var zzDisk []*zzFileData
var zzOpen []*zzHandle

func zzFindHandle(h *os.File) *zzHandle {
	for _, x := range zzOpen {
		if x.h == h {
			return x
		}
	}
	return nil
}

func zzOpenFile(name string, flag int, perm os.FileMode) (*os.File, error) {
	var fd *zzFileData
	for _, d := range zzDisk {
		if d.name == name {
			fd = d
		}
	}
	if fd == nil {
		if flag&os.O_CREATE == 0 {
			return nil, errors.New("open: no such file")
		}
		fd = &zzFileData{name: name}
		zzDisk = append(zzDisk, fd)
	}
	if flag&os.O_TRUNC != 0 {
		fd.data = nil
	}
	h := &os.File{}
	zzOpen = append(zzOpen, &zzHandle{h: h, f: fd})
	return h, nil
}

func zzRemove(name string) error {
	for i, d := range zzDisk {
		if d.name == name {
			zzDisk = append(zzDisk[:i:i], zzDisk[i+1:]...)
			return nil
		}
	}
	return errors.New("remove: no such file")
}

func zzFileWrite(f *os.File, b []byte) (int, error) {
	x := zzFindHandle(f)
	if x == nil || x.closed {
		return 0, errors.New("write: file closed")
	}
	end := x.off + int64(len(b))
	for int64(len(x.f.data)) < end {
		x.f.data = append(x.f.data, 0)
	}
	copy(x.f.data[x.off:end], b)
	x.off = end
	return len(b), nil
}

func zzFileReadAt(f *os.File, b []byte, off int64) (int, error) {
	x := zzFindHandle(f)
	if x == nil || x.closed {
		return 0, errors.New("read: file closed")
	}
	if off < 0 {
		return 0, errors.New("readat: negative offset")
	}
	n := 0
	if off < int64(len(x.f.data)) {
		n = copy(b, x.f.data[off:])
	}
	if n < len(b) {
		return n, io.EOF
	}
	return n, nil
}

// sequential read at the file offset (advances it), like read(2)
func zzFileRead(f *os.File, b []byte) (int, error) {
	x := zzFindHandle(f)
	if x == nil || x.closed {
		return 0, errors.New("read: file closed")
	}
	if len(b) == 0 {
		return 0, nil
	}
	if x.off >= int64(len(x.f.data)) {
		return 0, io.EOF
	}
	n := copy(b, x.f.data[x.off:])
	x.off += int64(n)
	return n, nil
}

func zzFileSeek(f *os.File, offset int64, whence int) (int64, error) {
	x := zzFindHandle(f)
	if x == nil || x.closed {
		return 0, errors.New("seek: file closed")
	}
	switch whence {
	case io.SeekStart:
	case io.SeekCurrent:
		offset += x.off
	case io.SeekEnd:
		offset += int64(len(x.f.data))
	}
	if offset < 0 {
		return 0, errors.New("seek: negative position")
	}
	x.off = offset
	return offset, nil
}

type zzFileInfo struct {
	name string
	size int64
}

func (i zzFileInfo) Name() string       { return i.name }
func (i zzFileInfo) Size() int64        { return i.size }
func (i zzFileInfo) Mode() os.FileMode  { return 0755 }
func (i zzFileInfo) ModTime() time.Time { return time.Time{} }
func (i zzFileInfo) IsDir() bool        { return false }
func (i zzFileInfo) Sys() interface{}   { return nil }

func zzFileStat(f *os.File) (os.FileInfo, error) {
	x := zzFindHandle(f)
	if x == nil || x.closed {
		return nil, errors.New("stat: file closed")
	}
	return zzFileInfo{name: x.f.name, size: int64(len(x.f.data))}, nil
}

func zzFileSync(f *os.File) error {
	x := zzFindHandle(f)
	if x == nil || x.closed {
		return errors.New("sync: file closed")
	}
	return nil
}

func zzFileClose(f *os.File) error {
	x := zzFindHandle(f)
	if x == nil || x.closed {
		return errors.New("close: file already closed")
	}
	x.closed = true
	return nil
}

// ---------------------------------------------------------------------------------------------
// ZZ_C06_FileStore: the accumulator on its hash file, driven the way StateStore drives it.
//
//   1. NewFileHashStore(file, 0) on a fresh file, append `saved` leaves; the compact state (size, hashes)
//      is what StateStore writes to its DB after each block.
//   2. append `lost` more leaves whose compact state is never saved (process dies after the hash file
//      was flushed, before the DB batch commits), close the file.
//   3. restart: NewFileHashStore(file, saved) + NewTree(saved, savedHashes, store) as StateStore.init does;
//      the file then holds MORE hashes than the saved size needs (accepted by checkConsistence, the
//      write position is seeked back), and DIFFERENT leaves are appended up to `size`.
//   4. root = MTH of the leaves of the surviving history, and every proof kind for the chosen (m, n)
//      verifies, including the consistency proof from old size 0.
//   5. reopening with a larger size than the file can hold is refused.
// ---------------------------------------------------------------------------------------------
func ZZ_C06_FileStore() {
	N := zzsym.Param("N")
	size := zzsym.Choose("size", N+1)
	saved := zzsym.Choose("saved", size+1)
	lost := zzsym.Choose("lost", zzsym.Param("LOST")+1)
	n := zzsym.Choose("n", size+1)
	m := zzsym.Choose("m", n+1)
	zzDisk, zzOpen = nil, nil
	os.Remove(zzHashFile) // native replay: start from a fresh file

	leaves := zzLeaves(size)
	store, err := NewFileHashStore(zzHashFile, 0)
	zzsym.Assert(err == nil && store != nil, "a fresh hash file opens for tree size 0")
	tree := NewTree(0, nil, store)
	for i := 0; i < saved; i++ {
		tree.Append(leaves[i])
	}
	savedSize := tree.TreeSize()
	savedHashes := append([]common.Uint256(nil), tree.Hashes()...)
	for i := 0; i < lost; i++ {
		tree.Append(zzsym.Bytes("lostleaf", 32))
	}
	store.Close()

	// a size the file cannot back is refused
	_, err = NewFileHashStore(zzHashFile, uint32(saved+lost+1))
	zzsym.Assert(err != nil, "reopening the hash file for a larger tree than it holds is refused")

	// restart from the saved compact state
	store2, err := NewFileHashStore(zzHashFile, savedSize)
	zzsym.Assert(err == nil && store2 != nil, "the hash file reopens for the saved tree size")
	tree2 := NewTree(savedSize, savedHashes, store2)
	zzsym.Assert(tree2.Root() == zzMTH(leaves[:saved]), "reloaded tree has the root of the saved tree")
	// a node serves proof queries between two blocks: reads of the hash file interleaved with appends
	probe := zzsym.Choose("probe", 2) == 1
	for i := saved; i < size; i++ {
		tree2.Append(leaves[i])
		if probe && tree2.TreeSize() > 1 {
			tree2.InclusionProof(0, tree2.TreeSize())
			zzsym.Cover("file-read-between-appends")
		}
	}
	zzsym.Assert(tree2.Root() == zzMTH(leaves) && tree2.TreeSize() == uint32(size), "reloaded tree has the same future roots")
	fs := store2.(*fileHashStore)
	st, err := fs.file.Stat()
	zzsym.Assert(err == nil && st.Size() >= 32*getStoredHashNum(uint32(size)), "hash file holds every node hash of the tree")
	if lost == 0 {
		zzsym.Assert(st.Size() == 32*(2*int64(size)-int64(zzPopCount(uint32(size)))), "hash file holds exactly 2n - popcount(n) hashes")
	}

	zzCheckProofs(tree2, leaves, m, n, true)
	store2.Close()
	os.Remove(zzHashFile)

	if saved > 0 && saved < size {
		zzsym.Cover("file-reopened-midway")
	}
	if lost > 0 && saved < size {
		zzsym.Cover("file-stale-tail-overwritten")
	}
	if m == 0 && n > 0 {
		zzsym.Cover("file-consistency-from-empty")
	}
	zzsym.Cover("file-done")
}

// Witness twin: after the restart the stale tail must really be gone: the root of the restarted tree
// is not the root of the history that included the lost leaf.
func ZZ_C06_FileStore_witness() {
	zzDisk, zzOpen = nil, nil
	os.Remove(zzHashFile)
	leaves := zzLeaves(2)
	store, _ := NewFileHashStore(zzHashFile, 0)
	tree := NewTree(0, nil, store)
	tree.Append(leaves[0])
	savedHashes := append([]common.Uint256(nil), tree.Hashes()...)
	lostLeaf := zzsym.Bytes("lostleaf", 32)
	tree.Append(lostLeaf)
	store.Close()
	store2, _ := NewFileHashStore(zzHashFile, 1)
	tree2 := NewTree(1, savedHashes, store2)
	tree2.Append(leaves[1])
	got := tree2.merkleRoot(2)
	store2.Close()
	os.Remove(zzHashFile)
	zzsym.Assert(got == zzMTH([][]byte{leaves[0], lostLeaf}), "witness: the restarted tree does not contain the lost leaf")
}
