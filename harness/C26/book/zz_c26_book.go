package btc

import (
	"bytes"

	"github.com/btcsuite/btcd/wire"
	"github.com/polynetwork/poly/common"
	cstates "github.com/polynetwork/poly/core/states"
	"github.com/polynetwork/poly/native/service/governance/side_chain_manager"
	"github.com/polynetwork/poly/native/service/utils"
	"github.com/polynetwork/poly/zzsym"
)

func zzSameOp(a, b *OutPoint) bool { return bytes.Equal(a.Hash, b.Hash) && a.Index == b.Index }

// chooseUtxos bookkeeping: selected outputs leave the stored unspent set, are recorded as spent, are not
// selectable again, and value is conserved (unspent-before = unspent-after + selected).
func ZZ_C26_ChooseUtxosBookkeeping() {
	n := 2 + zzsym.Choose("n", zzsym.Param("N")-1)
	db := zzNewCacheDB()
	chainID := uint64(1)
	rk := []byte{0xaa, 0xbb}
	key := "aabb"
	txids := [][]byte{bytes.Repeat([]byte{0x5a}, 32), bytes.Repeat([]byte{0x6b}, 32)}
	orig := &Utxos{}
	total := uint64(0)
	for i := 0; i < n; i++ {
		v := zzsym.U64("value")
		zzsym.Assume(v > 0 && v < 1<<40)
		// outputs of the same transaction (same txid, different vout) are possible
		op := &OutPoint{Hash: txids[zzsym.Choose("txid", 2)], Index: uint32(zzsym.Choose("vout", 2))}
		for _, o := range orig.Utxos {
			zzsym.Assume(!zzSameOp(o.Op, op))
		}
		orig.Utxos = append(orig.Utxos, &Utxo{Op: op, AtHeight: 1, Value: v, ScriptPubkey: zzP2WSH})
		total += v
	}
	ns := zzNative(db, nil)
	putUtxos(ns, chainID, key, orig)
	detail := &side_chain_manager.BtcTxParamDetial{PVersion: 1, FeeRate: zzsym.U64("feerate"), MinChange: zzsym.U64("minchange")}
	zzsym.Assume(detail.FeeRate < 1<<10 && detail.MinChange < 1<<30)
	sink := common.NewZeroCopySink(nil)
	detail.Serialization(sink)
	db.Put(utils.ConcatKey(utils.SideChainManagerContractAddress, []byte(side_chain_manager.BTC_TX_PARAM), rk, utils.GetUint64Bytes(chainID)), cstates.GenRawStorageItem(sink.Bytes()))
	amount := zzsym.I64("amount")
	zzsym.Assume(amount > 0 && amount < 1<<40)
	outs := []*wire.TxOut{{Value: amount, PkScript: zzP2WSH}}
	res, sum, _, err := chooseUtxos(ns, chainID, amount, outs, rk, 2, 3)
	after, e1 := getUtxos(ns, chainID, key)
	spent, e2 := getStxos(ns, chainID, key)
	zzsym.Assert(e1 == nil && e2 == nil, "stored sets stay decodable")
	if err != nil {
		zzsym.Assert(len(after.Utxos) == n && len(spent.Utxos) == 0, "a failed selection leaves both sets unchanged")
		zzsym.Cover("book-none")
		return
	}
	selected := uint64(0)
	for _, r := range res {
		selected += r.Value
		inAfter := false
		for _, a := range after.Utxos {
			if zzSameOp(a.Op, r.Op) {
				inAfter = true
			}
		}
		zzsym.Assert(!inAfter, "a selected output has left the unspent set")
		inSpent := false
		for _, s := range spent.Utxos {
			if zzSameOp(s.Op, r.Op) && s.Value == r.Value {
				inSpent = true
			}
		}
		zzsym.Assert(inSpent, "a selected output is recorded as spent")
	}
	zzsym.Assert(uint64(sum) == selected, "reported total equals the selected values")
	remaining := uint64(0)
	for _, a := range after.Utxos {
		remaining += a.Value
	}
	zzsym.Assert(remaining+selected == total && len(after.Utxos)+len(res) == n, "value and count are conserved: unspent before = unspent after + selected")
	zzsym.Assert(len(spent.Utxos) == len(res), "exactly the selected outputs are recorded as spent")
	zzsym.Cover("book-selected")
}
