package btc

import (
	"github.com/btcsuite/btcd/wire"
	"github.com/polynetwork/poly/zzsym"
)

// concrete scripts of the two kinds the selector distinguishes
var zzP2SH = append(append([]byte{0xa9, 0x14}, make([]byte, 20)...), 0x87) // OP_HASH160 <20> OP_EQUAL
var zzP2WSH = append([]byte{0x00, 0x20}, make([]byte, 32)...)              // OP_0 <32>

// Coin selection: a non-nil selection consists of distinct inputs from the available set, the reported
// total is exactly the sum of the selected values, and the total covers the target with either exact
// change-free match or at least the minimum change.
func ZZ_C26_SelectConservesValue() {
	n := 1 + zzsym.Choose("n", zzsym.Param("N"))
	us := &Utxos{}
	for i := 0; i < n; i++ {
		v := zzsym.U64("value")
		zzsym.Assume(v < 1<<40)
		script := zzP2WSH
		if zzsym.Bool("p2sh") {
			script = zzP2SH
		}
		us.Utxos = append(us.Utxos, &Utxo{Op: &OutPoint{Hash: []byte{byte(i)}, Index: uint32(i)}, Value: v, ScriptPubkey: script})
	}
	// chooseUtxos hands the selector the set sorted by descending value
	for i := 0; i+1 < n; i++ {
		zzsym.Assume(us.Utxos[i].Value >= us.Utxos[i+1].Value)
	}
	target := zzsym.U64("target")
	mc := zzsym.U64("minchange")
	rate := zzsym.U64("feerate")
	zzsym.Assume(target > 0 && target < 1<<40 && mc < 1<<30 && rate < 1<<16)
	cs := &CoinSelector{
		sortedUtxos: us, target: target, maxP: MAX_FEE_COST_PERCENTS, tries: int64(zzsym.Param("TRIES")), mc: mc, k: SELECTING_K,
		txOuts: []*wire.TxOut{{Value: 1, PkScript: zzP2WSH}}, feeRate: rate, m: 2, n: 3,
	}
	res, sum, fee := cs.Select()
	if res == nil {
		zzsym.Cover("none")
		return
	}
	zzsym.Assert(len(res) > 0 && len(res) <= n, "selection is a non-empty subset")
	real := uint64(0)
	for i, u := range res {
		real += u.Value
		found := false
		for _, a := range us.Utxos {
			if a == u {
				found = true
			}
		}
		zzsym.Assert(found, "every selected input is an available UTXO")
		for j := 0; j < i; j++ {
			zzsym.Assert(res[j] != u, "no input is selected twice")
		}
	}
	zzsym.Assert(sum == real, "reported total equals the sum of the selected inputs")
	zzsym.Assert(sum == target || sum >= target+mc, "total equals the target or leaves at least the minimum change")
	zzsym.Assert(fee == cs.estimateTxFee(res), "reported fee is the estimate for the selected inputs")
	zzsym.Cover("selected")
}

func ZZ_C26_SelectConservesValue_witness() {
	v := zzsym.U64("value")
	zzsym.Assume(v < 1<<40)
	us := &Utxos{Utxos: []*Utxo{{Op: &OutPoint{Hash: []byte{1}}, Value: v, ScriptPubkey: zzP2WSH}}}
	cs := &CoinSelector{sortedUtxos: us, target: 100000, maxP: MAX_FEE_COST_PERCENTS, tries: 10, mc: 1000, k: SELECTING_K,
		txOuts: []*wire.TxOut{{Value: 1, PkScript: zzP2WSH}}, feeRate: 1, m: 2, n: 3}
	res, _, _ := cs.Select()
	zzsym.Assert(res == nil, "witness: some value is selectable")
}
