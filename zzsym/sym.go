// Package zzsym is the harness API of the gosym symbolic executor.
//
// Under the engine every function here is intercepted (the bodies below are never
// interpreted). The bodies are the *native* semantics used when a harness is compiled
// with the Go toolchain to replay a solver model against the real code: inputs are
// read from the JSON file named by $ZZSYM_REPLAY.
package zzsym

import (
	"encoding/hex"
	"encoding/json"
	"fmt"
	"math/big"
	"os"

	"github.com/ontio/ontology-crypto/keypair"
	osig "github.com/ontio/ontology-crypto/signature"
)

type replayFile struct {
	Harness string            `json:"harness"`
	Inputs  map[string]string `json:"inputs"`
	Params  map[string]int    `json:"params"`
}

var rf *replayFile
var occ = map[string]int{}

// Failed is set when an Assert failed natively.
var Failed []string

// Observations collects Observe calls (translator validation).
var Observations []string

func load() *replayFile {
	if rf != nil {
		return rf
	}
	rf = &replayFile{Inputs: map[string]string{}, Params: map[string]int{}}
	p := os.Getenv("ZZSYM_REPLAY")
	if p == "" {
		return rf
	}
	b, err := os.ReadFile(p)
	if err != nil {
		panic("zzsym: " + err.Error())
	}
	if err := json.Unmarshal(b, rf); err != nil {
		panic("zzsym: " + err.Error())
	}
	return rf
}

// Reset clears per-run state (between harness invocations in one process).
func Reset() { occ = map[string]int{}; Failed = nil; Observations = nil }

func name(base string) string {
	n := occ[base]
	occ[base] = n + 1
	if n == 0 {
		return base
	}
	return fmt.Sprintf("%s#%d", base, n+1)
}

func num(base string) uint64 {
	s, ok := load().Inputs[name(base)]
	if !ok {
		return 0
	}
	if s == "true" {
		return 1
	}
	if s == "false" {
		return 0
	}
	v, ok := new(big.Int).SetString(s, 10)
	if !ok {
		panic("zzsym: bad value for " + base + ": " + s)
	}
	return v.Uint64()
}

func Bool(n string) bool  { return num(n) != 0 }
func U8(n string) uint8   { return uint8(num(n)) }
func U16(n string) uint16 { return uint16(num(n)) }
func U32(n string) uint32 { return uint32(num(n)) }
func U64(n string) uint64 { return num(n) }
func I8(n string) int8    { return int8(num(n)) }
func I16(n string) int16  { return int16(num(n)) }
func I32(n string) int32  { return int32(num(n)) }
func I64(n string) int64  { return int64(num(n)) }
func Int(n string) int    { return int(num(n)) }

// Bytes returns exactly n arbitrary bytes.
func Bytes(n string, ln int) []byte {
	base := name(n)
	b := make([]byte, ln)
	for i := range b {
		if s, ok := load().Inputs[fmt.Sprintf("%s!%d", base, i)]; ok {
			v, _ := new(big.Int).SetString(s, 10)
			b[i] = byte(v.Uint64())
		}
	}
	return b
}

// BytesUpTo returns an arbitrary byte string of arbitrary length 0..max.
func BytesUpTo(n string, max int) []byte {
	base := name(n)
	ln := 0
	if s, ok := load().Inputs[base+"!len"]; ok {
		v, _ := new(big.Int).SetString(s, 10)
		ln = int(v.Uint64())
	}
	if ln > max {
		ln = max
	}
	b := make([]byte, ln)
	for i := range b {
		if s, ok := load().Inputs[fmt.Sprintf("%s!%d", base, i)]; ok {
			v, _ := new(big.Int).SetString(s, 10)
			b[i] = byte(v.Uint64())
		}
	}
	return b
}

// Assume restricts the inputs considered. Natively a false assumption means the replay file does not
// describe a run of this harness.
func Assume(c bool) {
	if !c {
		fmt.Println("ZZSYM-ASSUME-FAILED")
		panic("zzsym: assumption failed in native replay")
	}
}

// Assert states the property.
func Assert(c bool, msg string) {
	if !c {
		fmt.Println("ZZSYM-ASSERT-FAILED " + msg)
		Failed = append(Failed, msg)
	}
}

// Cover marks a point that must be reachable (vacuity guard).
func Cover(label string) {}

// Param returns a bound configured per tier in the harness spec.
func Param(n string) int {
	v, ok := load().Params[n]
	if !ok {
		panic("zzsym: param " + n + " not in replay file")
	}
	return v
}

// Choose returns a value in [0,n); the engine explores every value.
func Choose(n string, k int) int {
	v := int(num(n))
	if v < 0 || v >= k {
		return 0
	}
	return v
}

// Symbolic reports whether the harness runs under the engine.
func Symbolic() bool { return false }

// Note records an assumption / remark for the evidence.
func Note(msg string) {}

// Guard switches the engine's lock-discipline monitor (spec "guarded") on or off; natively a no-op.
func Guard(on bool) {}

// Event records a monitor event.
func Event(msg string) {}

// Concretize returns v; the engine forks over its feasible values in [0,max].
func Concretize(v int, max int) int { return v }

// Observe records a value for translator validation (engine and native run must agree).
func Observe(label string, v uint64) {
	Observations = append(Observations, fmt.Sprintf("%s=%d", label, v))
}

// ObserveBytes records a byte string for translator validation.
func ObserveBytes(label string, b []byte) {
	Observations = append(Observations, fmt.Sprintf("%s=%x", label, b))
}

// BytesChoose returns arbitrary bytes whose length (0..max) is explored value by value
// (concrete length, symbolic content): cheaper than BytesUpTo when offsets depend on it.
func BytesChoose(n string, max int) []byte { return Bytes(n, Choose(n+".len", max+1)) }

// ---- signatures ---------------------------------------------------------------------------

// KeyHex are real P-256 public keys (compressed); privHex the matching private keys.
var KeyHex = []string{
	"039d33596861caa2a107af3cabf184df2b352d59f92960d548e2548470af90d2ba",
	"025ef9a33bf9de5620695af6db9f6334d09cc4e2c57fe171f6d9e1053a9f533749",
	"0314ba31a5af08ddee4b34a5570e86ce3c74f832107163becd867ae85088b790d2",
	"030562d8d2b0f37b45ba0eefa9c66e83080a74305601b72ba613cfdf3253bfa3e1",
	"02b70d844f2f82feeca5cdbec3f0f870807408e6a9781b5e8183574ddb15ea7a5a",
	"034bd0188f7b87f958fdde01c72ddacb6ddc2d65bfe047af047bba6c1d8459e075",
	"032cf3f13186e23bf4d7b1ef069c324da5c231ddae28d250b834e00d0f8f3cb480",
	"027f089cdef1a143e231b9cf782aa2fd4663ef3f347da1c646c6cc32819cab02ad",
	"02ec1eb8e3e3ddefeb7ab86e5efe0d3028bbe9a1ec19fd3918c0368c46b4f1d299",
	"036c10034bef2bc0cc8c6154b2c3be35bf57ca203e2ed3aa1c8afb68e1b3d4add4",
	"03d7b5f3e30b5d69b2ab69ca8714681dd947b24020de46f3b1bea6b9bb141d56dc",
	"02c8bb34e46b144e77d567a6eaa1eae84d24dd75028d69a45dc6ac1e5143d1eb4f",
}

var privHex = []string{
	"120200000000000000000000000000000000000000000000000000000000000022d7039d33596861caa2a107af3cabf184df2b352d59f92960d548e2548470af90d2ba",
	"120200000000000000000000000000000000000000000000000000000000000041c6025ef9a33bf9de5620695af6db9f6334d09cc4e2c57fe171f6d9e1053a9f533749",
	"120200000000000000000000000000000000000000000000000000000000000060b50314ba31a5af08ddee4b34a5570e86ce3c74f832107163becd867ae85088b790d2",
	"12020000000000000000000000000000000000000000000000000000000000007fa4030562d8d2b0f37b45ba0eefa9c66e83080a74305601b72ba613cfdf3253bfa3e1",
	"12020000000000000000000000000000000000000000000000000000000000009e9302b70d844f2f82feeca5cdbec3f0f870807408e6a9781b5e8183574ddb15ea7a5a",
	"1202000000000000000000000000000000000000000000000000000000000000bd82034bd0188f7b87f958fdde01c72ddacb6ddc2d65bfe047af047bba6c1d8459e075",
	"1202000000000000000000000000000000000000000000000000000000000000dc71032cf3f13186e23bf4d7b1ef069c324da5c231ddae28d250b834e00d0f8f3cb480",
	"1202000000000000000000000000000000000000000000000000000000000000fb60027f089cdef1a143e231b9cf782aa2fd4663ef3f347da1c646c6cc32819cab02ad",
	"12020000000000000000000000000000000000000000000000000000000000011a4f02ec1eb8e3e3ddefeb7ab86e5efe0d3028bbe9a1ec19fd3918c0368c46b4f1d299",
	"1202000000000000000000000000000000000000000000000000000000000001393e036c10034bef2bc0cc8c6154b2c3be35bf57ca203e2ed3aa1c8afb68e1b3d4add4",
	"1202000000000000000000000000000000000000000000000000000000000001582d03d7b5f3e30b5d69b2ab69ca8714681dd947b24020de46f3b1bea6b9bb141d56dc",
	"1202000000000000000000000000000000000000000000000000000000000001771c02c8bb34e46b144e77d567a6eaa1eae84d24dd75028d69a45dc6ac1e5143d1eb4f",
}

// PubKey returns table key i.
func PubKey(i int) keypair.PublicKey {
	b, _ := hex.DecodeString(KeyHex[i])
	k, err := keypair.DeserializePublicKey(b)
	if err != nil {
		panic("zzsym: bad table key")
	}
	return k
}

// Signature returns a serialized signature over msg made by table key `signer`
// (0 <= signer < len(KeyHex)); any other signer value yields a well-formed signature by a key
// outside the table. Under the engine the bytes are opaque and only their provenance
// (signer, msg) is known: Verify(key, data, sig) holds iff key is table key `signer` and data == msg.
func Signature(n string, signer int, msg []byte) []byte {
	_ = name(n)
	var pri keypair.PrivateKey
	if signer >= 0 && signer < len(privHex) {
		b, _ := hex.DecodeString(privHex[signer])
		k, err := keypair.DeserializePrivateKey(b)
		if err != nil {
			panic("zzsym: bad private key: " + err.Error())
		}
		pri = k
	} else {
		var err error
		pri, _, err = keypair.GenerateKeyPair(keypair.PK_ECDSA, keypair.P256)
		if err != nil {
			panic("zzsym: keygen: " + err.Error())
		}
	}
	sig, err := osig.Sign(osig.SHA256withECDSA, pri, msg, nil)
	if err != nil {
		panic("zzsym: sign: " + err.Error())
	}
	b, err := osig.Serialize(sig)
	if err != nil {
		panic("zzsym: serialize sig: " + err.Error())
	}
	return b
}
