package main

// Persistent SMT solver process (z3 -in by default), text SMT-LIB2.

import (
	"bufio"
	"fmt"
	"io"
	"os"
	"os/exec"
	"strings"
	"time"
)

type Solver struct {
	nWatchdog                               int // incremental queries killed by the watchdog
	cross                                   int // cross-check every cross-th decided query with a second solver (0 = off)
	nCross, nCrossAgree, nCrossInconclusive int
	crossDisagree                           []string

	name    string
	cmd     *exec.Cmd
	in      io.WriteCloser
	out     *bufio.Reader
	defined map[int]bool    // term id -> define-fun emitted in current path scope
	declVar map[string]bool // var/uf declared in current path scope
	ctx     *Ctx
	inPath  bool
	timeout int // ms
	log     io.Writer

	poisoned     bool
	syncN        int
	nRestart     int
	pathLog      []string // declarations / definitions / assertions of the current path (for flat re-solving)
	inQuery      bool
	flatLast     string // set when the last Check was answered by the flat fallback
	flatRef      string
	flatModelTxt string
	flatUsed     bool
	skipPop      bool
	logic        string
	nFlat        int

	nCheck, nSat, nUnsat, nUnknown int
	solveTime                      time.Duration
	lastErr                        string
}

func solverArgv(kind string) []string {
	switch kind {
	case "z3-new":
		return []string{"z3-new", "-in"}
	case "cvc5":
		return []string{"cvc5", "--incremental", "--lang=smt2", "--produce-models"}
	}
	return []string{"/usr/bin/z3", "-in"}
}

func NewSolver(kind string, ctx *Ctx, timeoutMs int, logic string) (*Solver, error) {
	s := &Solver{name: kind, ctx: ctx, timeout: timeoutMs, logic: logic}
	if err := s.start(); err != nil {
		return nil, err
	}
	return s, nil
}

func (s *Solver) start() error {
	kind, timeoutMs := s.name, s.timeout
	argv := solverArgv(kind)
	cmd := exec.Command(argv[0], argv[1:]...)
	in, err := cmd.StdinPipe()
	if err != nil {
		return err
	}
	outp, err := cmd.StdoutPipe()
	if err != nil {
		return err
	}
	cmd.Stderr = cmd.Stdout
	if err := cmd.Start(); err != nil {
		return err
	}
	s.cmd, s.in, s.out = cmd, in, bufio.NewReaderSize(outp, 1<<16)
	s.poisoned = false
	s.inPath = false
	if p := os.Getenv("GOSYM_SMTLOG"); p != "" {
		if f, err := os.Create(fmt.Sprintf("%s.%d", p, cmd.Process.Pid)); err == nil {
			s.log = f
		}
	}
	if kind == "cvc5" {
		s.send("(set-logic ALL)")
		s.send(fmt.Sprintf("(set-option :tlimit-per %d)", timeoutMs))
	} else {
		inc := timeoutMs
		if inc > 4000 {
			inc = 4000 // the incremental core gets a short budget; hard queries go to the flat fallback
		}
		s.send(fmt.Sprintf("(set-option :timeout %d)", inc))
	}
	s.send("(set-option :produce-models true)")
	if s.logic != "" && kind != "cvc5" {
		s.send("(set-logic " + s.logic + ")")
	}
	return nil
}

// restart replaces a solver process whose reply stream can no longer be trusted.
func (s *Solver) restart() {
	s.Close()
	s.nRestart++
	if err := s.start(); err != nil {
		panic(engineErr("solver restart failed: %v", err))
	}
}

// readUntilSync sends a marker and returns every reply line that precedes it, so that one command's
// replies can never be mistaken for the next one's (z3 answers "push canceled" after a timeout).
func (s *Solver) readUntilSync() []string {
	// watchdog: z3 4.8.12 does not always honour :timeout (observed: one query running 20 min with 6.5 GB).
	// If no complete reply arrives within the incremental budget plus a generous grace period the process is
	// killed; the read below then ends with EOF, the solver is marked poisoned and the caller falls back to
	// a fresh process and the flat (hard -T limited) re-solve.
	budget := s.timeout
	if s.name != "cvc5" && budget > 4000 {
		budget = 4000
	}
	proc := s.cmd.Process
	wd := time.AfterFunc(time.Duration(budget)*time.Millisecond+45*time.Second, func() {
		s.nWatchdog++
		proc.Kill()
	})
	defer wd.Stop()
	s.syncN++
	marker := fmt.Sprintf("zz-sync-%d", s.syncN)
	s.send("(echo \"" + marker + "\")")
	var lines []string
	for {
		line, err := s.out.ReadString('\n')
		t := strings.Trim(strings.TrimSpace(line), "\"")
		if t == marker {
			return lines
		}
		if t != "" {
			lines = append(lines, t)
		}
		if err != nil {
			lines = append(lines, "(error \"solver EOF\")")
			s.poisoned = true
			return lines
		}
	}
}

func (s *Solver) Close() {
	if s.cmd != nil {
		s.in.Close()
		s.cmd.Process.Kill()
		s.cmd.Wait()
		s.cmd = nil
	}
}

func (s *Solver) send(line string) {
	if s.inPath && !s.inQuery && (strings.HasPrefix(line, "(declare") || strings.HasPrefix(line, "(define") || strings.HasPrefix(line, "(assert")) {
		s.pathLog = append(s.pathLog, line)
	}
	if s.log != nil {
		fmt.Fprintln(s.log, line)
	}
	io.WriteString(s.in, line)
	io.WriteString(s.in, "\n")
}

// readSexp reads one complete s-expression or atom line from the solver.
func (s *Solver) readSexp() string {
	var sb strings.Builder
	depth := 0
	started := false
	inStr := false
	for {
		line, err := s.out.ReadString('\n')
		if err != nil && line == "" {
			return sb.String() + "(error \"solver EOF\")"
		}
		for _, ch := range line {
			if ch == '"' {
				inStr = !inStr
			}
			if inStr {
				continue
			}
			if ch == '(' {
				depth++
				started = true
			} else if ch == ')' {
				depth--
			} else if ch != ' ' && ch != '\n' && ch != '\t' && ch != '\r' {
				started = true
			}
		}
		sb.WriteString(line)
		if started && depth <= 0 {
			return strings.TrimSpace(sb.String())
		}
	}
}

func (s *Solver) BeginPath() {
	if s.poisoned {
		s.restart()
	}
	if s.inPath {
		s.EndPath()
	}
	s.send("(push 1)")
	s.defined = map[int]bool{}
	s.declVar = map[string]bool{}
	s.inPath = true
	s.pathLog = s.pathLog[:0]
	s.inQuery = false
}

func (s *Solver) EndPath() {
	if s.inPath && !s.poisoned {
		s.send("(pop 1)")
	}
	s.inPath = false
}

const inlineSize = 6

// ref returns the SMT text naming term t, emitting declarations / definitions as needed.
func (s *Solver) ref(t *Term) string {
	switch t.op {
	case OConst:
		return constString(t)
	case OVar:
		if !s.declVar[t.name] {
			s.declVar[t.name] = true
			s.send(fmt.Sprintf("(declare-const %s %s)", smtName(t.name), t.sort))
		}
		return smtName(t.name)
	}
	if s.defined[t.id] {
		return fmt.Sprintf("t!%d", t.id)
	}
	if t.op == OUF && !s.declVar["uf:"+t.name] {
		s.declVar["uf:"+t.name] = true
		sig := s.ctx.ufs[t.name]
		var as []string
		for _, a := range sig.args {
			as = append(as, a.String())
		}
		s.send(fmt.Sprintf("(declare-fun %s (%s) %s)", smtName(t.name), strings.Join(as, " "), sig.ret))
	}
	args := make([]string, len(t.args))
	for i, a := range t.args {
		args[i] = s.ref(a)
	}
	body := t.render(args)
	if t.size <= inlineSize {
		return body
	}
	s.defined[t.id] = true
	nm := fmt.Sprintf("t!%d", t.id)
	s.send(fmt.Sprintf("(define-fun %s () %s %s)", nm, t.sort, body))
	return nm
}

func (s *Solver) Assert(t *Term) {
	if t.isConst() && t.val == 1 {
		return
	}
	r := s.ref(t)
	s.send("(assert " + r + ")")
}

// Check decides satisfiability of the current assertions plus extra (may be nil).
func (s *Solver) Check(extra *Term) string {
	var r string
	if extra != nil {
		if extra.isConst() {
			if extra.val == 0 {
				return "unsat"
			}
			extra = nil
		}
	}
	if s.poisoned {
		s.lastErr = "solver poisoned by an earlier error"
		return "unknown"
	}
	start := time.Now()
	ref := ""
	if extra != nil {
		ref = s.ref(extra) // definitions must live in the path scope, not in the query scope
	}
	s.flatLast = ""
	s.flatUsed = false
	s.inQuery = true
	s.send("(push 1)")
	if extra != nil {
		s.send("(assert " + ref + ")")
	}
	s.send("(check-sat)")
	lines := s.readUntilSync()
	s.solveTime += time.Since(start)
	s.nCheck++
	r = ""
	bad := false
	for _, l := range lines {
		switch {
		case l == "sat" || l == "unsat" || l == "unknown":
			if r == "" {
				r = l
			} else {
				bad = true
			}
		default:
			bad = true
		}
	}
	if bad || r == "" || r == "unknown" {
		s.nUnknown++
		s.lastErr = strings.Join(lines, " | ")
		if bad || r == "" {
			// an error line or an unexpected reply (typically the late "push canceled" of an earlier
			// timed-out query): the stream cannot be trusted. Replace the process, replay the path and
			// decide this query in a fresh flat run.
			s.rebuild()
			if fr := s.flatSolve(ref, nil); fr == "sat" || fr == "unsat" {
				s.nUnknown--
				if fr == "sat" {
					s.nSat++
				} else {
					s.nUnsat++
				}
				return fr
			}
			return "unknown"
		}
		// z3's incremental core gives up on queries that its non-incremental tactics decide at once:
		// re-solve the whole path as one flat script in a fresh process before reporting unknown.
		// After a timeout z3 answers the next command with "push canceled", so the incremental
		// process is replaced and the path's assertions are replayed into the new one.
		s.rebuild()
		if fr := s.flatSolve(ref, nil); fr == "sat" || fr == "unsat" {
			s.nUnknown--
			r = fr
		} else {
			return "unknown"
		}
	}
	if r == "sat" {
		s.nSat++
	} else {
		s.nUnsat++
	}
	if s.cross > 0 && s.nCheck%s.cross == 0 {
		s.crossCheck(ref, r)
	}
	return r
}

// crossCheck re-decides the current query (path assertions + extra) as one flat script with an independent
// solver build (z3 5.1.0, "z3-new") and records agreement. A definite answer that differs from the primary
// solver's is reported as a check problem by the caller of the run (never silently ignored).
func (s *Solver) crossCheck(extraRef, primary string) {
	f, err := os.CreateTemp("", "gosym-cross-*.smt2")
	if err != nil {
		return
	}
	defer os.Remove(f.Name())
	var sb strings.Builder
	if s.logic != "" {
		sb.WriteString("(set-logic " + s.logic + ")\n")
	}
	for _, l := range s.pathLog {
		sb.WriteString(l)
		sb.WriteString("\n")
	}
	if extraRef != "" {
		sb.WriteString("(assert " + extraRef + ")\n")
	}
	sb.WriteString("(check-sat)\n")
	f.WriteString(sb.String())
	f.Close()
	s.nCross++
	out, _ := exec.Command("z3-new", "-T:30", f.Name()).CombinedOutput()
	first := strings.TrimSpace(string(out))
	if i := strings.IndexByte(first, '\n'); i >= 0 {
		first = strings.TrimSpace(first[:i])
	}
	switch {
	case first == primary:
		s.nCrossAgree++
	case first == "sat" || first == "unsat":
		s.crossDisagree = append(s.crossDisagree, fmt.Sprintf("z3 4.8.12 says %s, z3 5.1.0 says %s (query %d)", primary, first, s.nCheck))
	default:
		s.nCrossInconclusive++
	}
}

// PopCheck closes the scope opened by Check.
func (s *Solver) PopCheck() {
	if !s.poisoned && !s.skipPop {
		s.send("(pop 1)")
	}
	s.skipPop = false
	s.inQuery = false
}

// rebuild replaces the solver process and replays the current path's declarations and assertions.
func (s *Solver) rebuild() {
	log := append([]string(nil), s.pathLog...)
	was := s.inPath
	s.Close()
	s.nRestart++
	if err := s.start(); err != nil {
		panic(engineErr("solver restart failed: %v", err))
	}
	if was {
		s.inQuery = true // do not re-log
		s.send("(push 1)")
		for _, l := range log {
			s.send(l)
		}
		s.inQuery = false
		s.inPath = true
	}
	s.pathLog = log
	s.skipPop = true
	s.inQuery = true
}

// flatSolve runs the current path's assertions plus extraRef in a fresh one-shot solver process.
// With names != nil it also returns the model values in s.flatModel.
func (s *Solver) flatSolve(extraRef string, names []string) string {
	f, err := os.CreateTemp("", "gosym-flat-*.smt2")
	if err != nil {
		return "unknown"
	}
	defer os.Remove(f.Name())
	var sb strings.Builder
	sb.WriteString("(set-option :produce-models true)\n")
	if s.logic != "" {
		sb.WriteString("(set-logic " + s.logic + ")\n")
	}
	for _, l := range s.pathLog {
		sb.WriteString(l)
		sb.WriteString("\n")
	}
	if extraRef != "" {
		sb.WriteString("(assert " + extraRef + ")\n")
	}
	sb.WriteString("(check-sat)\n")
	if len(names) > 0 {
		sb.WriteString("(get-value (" + strings.Join(names, " ") + "))\n")
	}
	f.WriteString(sb.String())
	f.Close()
	s.nFlat++
	start := time.Now()
	tsec := s.timeout/1000 + 1
	out, _ := exec.Command("/usr/bin/z3", fmt.Sprintf("-T:%d", tsec), "-memory:8000", f.Name()).CombinedOutput()
	s.solveTime += time.Since(start)
	txt := strings.TrimSpace(string(out))
	first := txt
	rest := ""
	if i := strings.IndexByte(txt, '\n'); i >= 0 {
		first, rest = strings.TrimSpace(txt[:i]), txt[i+1:]
	}
	if strings.Contains(txt, "(error") && first != "sat" && first != "unsat" {
		s.lastErr = "flat: " + firstLine(txt)
		return "unknown"
	}
	if first == "sat" || first == "unsat" {
		s.flatUsed = true
		s.flatRef = extraRef
		s.flatModelTxt = rest
		return first
	}
	s.lastErr = "flat: " + first
	return "unknown"
}

// Model returns values for the given variables (must be called after a sat Check, before PopCheck).
func (s *Solver) Model(vars []*Term) (map[string]string, error) {
	res := map[string]string{}
	if len(vars) == 0 {
		return res, nil
	}
	if s.flatUsed {
		var names []string
		for _, v := range vars {
			if s.declVar[v.name] {
				names = append(names, smtName(v.name))
			}
		}
		if r := s.flatSolve(s.flatRef, names); r != "sat" {
			return res, fmt.Errorf("flat model: %s", r)
		}
		parseModel(s.flatModelTxt, res)
		return res, nil
	}
	const chunk = 200
	for i := 0; i < len(vars); i += chunk {
		j := i + chunk
		if j > len(vars) {
			j = len(vars)
		}
		var names []string
		for _, v := range vars[i:j] {
			if s.declVar[v.name] {
				names = append(names, smtName(v.name))
			}
		}
		if len(names) == 0 {
			continue
		}
		if s.poisoned {
			return res, fmt.Errorf("solver poisoned")
		}
		s.send("(get-value (" + strings.Join(names, " ") + "))")
		out := strings.Join(s.readUntilSync(), "\n")
		if strings.Contains(out, "(error") {
			s.poisoned = true
			return res, fmt.Errorf("get-value: %s", out)
		}
		parseModel(out, res)
	}
	return res, nil
}

// parseModel parses "((x #x0a) (|y z| true) (n (- 3)))".
func parseModel(out string, res map[string]string) {
	toks := tokenize(out)
	// expect ( ( name value ) ... )
	i := 0
	if i < len(toks) && toks[i] == "(" {
		i++
	}
	for i < len(toks) && toks[i] == "(" {
		i++
		if i >= len(toks) {
			break
		}
		name := toks[i]
		i++
		// value: atom or parenthesized
		var val string
		if i < len(toks) && toks[i] == "(" {
			depth := 0
			var parts []string
			for i < len(toks) {
				if toks[i] == "(" {
					depth++
				} else if toks[i] == ")" {
					depth--
				}
				parts = append(parts, toks[i])
				i++
				if depth == 0 {
					break
				}
			}
			val = strings.Join(parts, " ")
		} else if i < len(toks) {
			val = toks[i]
			i++
		}
		if i < len(toks) && toks[i] == ")" {
			i++
		}
		name = strings.Trim(name, "|")
		res[name] = val
	}
}

func tokenize(s string) []string {
	var toks []string
	i := 0
	for i < len(s) {
		ch := s[i]
		switch {
		case ch == '(' || ch == ')':
			toks = append(toks, string(ch))
			i++
		case ch == ' ' || ch == '\n' || ch == '\t' || ch == '\r':
			i++
		case ch == '|':
			j := i + 1
			for j < len(s) && s[j] != '|' {
				j++
			}
			toks = append(toks, s[i:j+1])
			i = j + 1
		default:
			j := i
			for j < len(s) && s[j] != '(' && s[j] != ')' && s[j] != ' ' && s[j] != '\n' && s[j] != '\t' && s[j] != '\r' {
				j++
			}
			toks = append(toks, s[i:j])
			i = j
		}
	}
	return toks
}

// parseBVValue converts "#x0a", "#b101", "(_ bv10 8)", "true", "false", "5", "( - 5 )" to a decimal string / bool string.
func parseValue(v string) string {
	v = strings.TrimSpace(v)
	switch {
	case strings.HasPrefix(v, "#x"):
		var n = new(bigInt)
		n.SetString(v[2:], 16)
		return n.String()
	case strings.HasPrefix(v, "#b"):
		var n = new(bigInt)
		n.SetString(v[2:], 2)
		return n.String()
	case strings.HasPrefix(v, "( _ bv"):
		f := strings.Fields(v)
		return strings.TrimPrefix(f[2], "bv")
	case strings.HasPrefix(v, "( -"):
		f := strings.Fields(v)
		return "-" + f[2]
	}
	return v
}
