package main

import (
	"fmt"
	"go/token"
	"go/types"
	"math"
	"strings"
	"unicode/utf8"

	"golang.org/x/tools/go/ssa"
)

func (in *Interp) unop(fr *frame, ins *ssa.UnOp, x value) value {
	c := in.ctx
	switch ins.Op {
	case token.MUL: // load
		return in.load(x)
	case token.NOT:
		return c.Not(x.(*Term))
	case token.SUB:
		switch v := x.(type) {
		case *Term:
			return c.BvNeg(v)
		case float64:
			return -v
		case float32:
			return -v
		}
	case token.XOR:
		return c.BvNot(x.(*Term))
	case token.ARROW:
		ch := x.(*ChanV)
		if ch == nil {
			panic(engineErr("concurrency: receive from nil channel"))
		}
		elemT := ins.X.Type().Underlying().(*types.Chan).Elem()
		if len(ch.buf) == 0 {
			if ch.closed {
				if ins.CommaOk {
					return tuple{in.zero(elemT), c.ff}
				}
				return in.zero(elemT)
			}
			panic(engineErr("concurrency: receive would block at %s", in.where(fr, ins.Pos())))
		}
		v := ch.buf[0]
		ch.buf = ch.buf[1:]
		if ins.CommaOk {
			return tuple{v, c.tt}
		}
		return v
	}
	panic(engineErr("unop %v on %T", ins.Op, x))
}

// equals returns a Bool term for x == y of static type T.
func (in *Interp) equals(T types.Type, x, y value) *Term {
	c := in.ctx
	if in.isSymF(x) || in.isSymF(y) {
		return in.symFCmp(token.EQL, x, y)
	}
	switch a := x.(type) {
	case *Term:
		if a.sort.K == SFP {
			return in.fpCmp(token.EQL, a, in.toFP(y))
		}
		return c.Eq(a, y.(*Term))
	case string, SymStr:
		xb, yb := in.strBytes(x), in.strBytes(y)
		if len(xb) != len(yb) {
			return c.ff
		}
		if xs, ok := x.(string); ok {
			if ys, ok := y.(string); ok {
				return c.Bool(xs == ys)
			}
		}
		r := c.tt
		for i := range xb {
			r = c.And(r, c.Eq(xb[i], yb[i]))
			if r.isFalse() {
				return r
			}
		}
		return r
	case float64:
		if yt, ok := y.(*Term); ok {
			return in.fpCmp(token.EQL, in.toFP(a), yt)
		}
		return c.Bool(a == y.(float64))
	case float32:
		return c.Bool(a == y.(float32))
	case complex128:
		return c.Bool(a == y.(complex128))
	case structure:
		b := y.(structure)
		st := T.Underlying().(*types.Struct)
		r := c.tt
		for i := range a {
			if st.Field(i).Name() == "_" {
				continue
			}
			r = c.And(r, in.equals(st.Field(i).Type(), a[i], b[i]))
			if r.isFalse() {
				return r
			}
		}
		return r
	case array:
		b := y.(array)
		et := T.Underlying().(*types.Array).Elem()
		r := c.tt
		for i := range a {
			r = c.And(r, in.equals(et, a[i], b[i]))
			if r.isFalse() {
				return r
			}
		}
		return r
	case iface:
		b := y.(iface)
		if a.t == nil || b.t == nil {
			return c.Bool(a.t == nil && b.t == nil)
		}
		if !types.Identical(a.t, b.t) {
			return c.ff
		}
		if !types.Comparable(a.t) {
			in.runtimePanic("comparing uncomparable type " + a.t.String())
		}
		return in.equals(a.t, a.v, b.v)
	case *value:
		switch b := y.(type) {
		case *value:
			return c.Bool(a == b)
		case SymPtr:
			return in.equals(T, y, x)
		}
	case SymPtr:
		switch b := y.(type) {
		case *value:
			if b == nil {
				return c.ff
			}
			if len(a.path) == 0 {
				r := c.ff
				for k := range a.arr {
					if &a.arr[k] == b {
						r = c.Eq(a.idx, c.I64(int64(k)))
					}
				}
				return r
			}
		case SymPtr:
			if len(a.arr) > 0 && len(b.arr) > 0 && &a.arr[0] == &b.arr[0] && fmt.Sprint(a.path) == fmt.Sprint(b.path) {
				return c.Eq(a.idx, b.idx)
			}
			return c.ff
		}
	case *MapV:
		return c.Bool(a == y.(*MapV))
	case *ChanV:
		return c.Bool(a == y.(*ChanV))
	case *ssa.Function:
		if b, ok := y.(*ssa.Function); ok {
			return c.Bool(a == b)
		}
		return c.Bool(a == nil && isNilFunc(y))
	case *closure:
		if b, ok := y.(*closure); ok {
			return c.Bool(a == b)
		}
		return c.ff
	case SliceV:
		// only comparison with nil is legal
		b := y.(SliceV)
		if b.back == nil && !b.nonnil {
			return c.Bool(a.back == nil && !a.nonnil)
		}
		if a.back == nil && !a.nonnil {
			return c.Bool(b.back == nil && !b.nonnil)
		}
	case *HashObj:
		return c.Bool(x == y)
	case *PubKeyObj:
		return c.Bool(x == y)
	case *SigObj:
		return c.Bool(x == y)
	case *ReflTypeObj:
		if o, ok := y.(*ReflTypeObj); ok {
			return c.Bool(types.Identical(a.t, o.t))
		}
		return c.ff
	case *BigObj:
		return c.Bool(x == y)
	case nil:
		return c.Bool(y == nil)
	}
	panic(engineErr("equals: unsupported %T vs %T (type %v)", x, y, T))
}

func isNilFunc(v value) bool {
	switch f := v.(type) {
	case *ssa.Function:
		return f == nil
	case *closure:
		return f == nil
	case nil:
		return true
	}
	return false
}

func (in *Interp) binop(op token.Token, T, TY types.Type, x, y value) value {
	c := in.ctx
	switch op {
	case token.EQL:
		return in.equals(T, x, y)
	case token.NEQ:
		return c.Not(in.equals(T, x, y))
	}
	if in.isSymF(x) || in.isSymF(y) {
		switch op {
		case token.LSS, token.LEQ, token.GTR, token.GEQ:
			return in.symFCmp(op, x, y)
		}
		return in.symFArith(op, x, y)
	}
	if in.isSymFP(x) || in.isSymFP(y) {
		return in.fpBinop(op, in.toFP(x), in.toFP(y))
	}
	switch a := x.(type) {
	case *Term:
		b := y.(*Term)
		if a.sort.K == SBool {
			switch op {
			case token.AND, token.LAND:
				return c.And(a, b)
			case token.OR, token.LOR:
				return c.Or(a, b)
			}
			panic(engineErr("bool binop %v", op))
		}
		w, signed, _ := intInfo(T)
		switch op {
		case token.ADD:
			return c.Add(a, b)
		case token.SUB:
			return c.Sub(a, b)
		case token.MUL:
			return c.Mul(a, b)
		case token.QUO:
			in.check(c.Not(c.Eq(b, c.BV(w, 0))), "integer divide by zero")
			if signed {
				return c.SDiv(a, b)
			}
			return c.UDiv(a, b)
		case token.REM:
			in.check(c.Not(c.Eq(b, c.BV(w, 0))), "integer divide by zero")
			if signed {
				return c.SRem(a, b)
			}
			return c.URem(a, b)
		case token.AND:
			return c.BvAnd(a, b)
		case token.OR:
			return c.BvOr(a, b)
		case token.XOR:
			return c.BvXor(a, b)
		case token.AND_NOT:
			return c.BvAnd(a, c.BvNot(b))
		case token.SHL, token.SHR:
			// shift count b has its own type TY
			wy, sy, _ := intInfo(TY)
			if sy {
				in.check(c.Sle(c.BV(wy, 0), b), "negative shift amount")
			}
			var cnt *Term
			var big *Term // count >= w
			if wy > w {
				big = c.Ule(c.BV(wy, uint64(w)), b)
				cnt = c.Extract(w-1, 0, b)
			} else {
				cnt = c.Zext(w, b)
				if w <= 64 && (wy < 8 && (1<<uint(wy)) <= w) {
					big = c.ff
				} else {
					big = c.Ule(c.BV(w, uint64(w)), cnt)
				}
			}
			var r, over *Term
			if op == token.SHL {
				r = c.Shl(a, cnt)
				over = c.BV(w, 0)
			} else if signed {
				r = c.Ashr(a, cnt)
				over = c.Ashr(a, c.BV(w, uint64(w-1)))
			} else {
				r = c.Lshr(a, cnt)
				over = c.BV(w, 0)
			}
			return c.Ite(big, over, r)
		case token.LSS:
			if signed {
				return c.Slt(a, b)
			}
			return c.Ult(a, b)
		case token.LEQ:
			if signed {
				return c.Sle(a, b)
			}
			return c.Ule(a, b)
		case token.GTR:
			if signed {
				return c.Slt(b, a)
			}
			return c.Ult(b, a)
		case token.GEQ:
			if signed {
				return c.Sle(b, a)
			}
			return c.Ule(b, a)
		}
	case float64:
		b := y.(float64)
		switch op {
		case token.ADD:
			return a + b
		case token.SUB:
			return a - b
		case token.MUL:
			return a * b
		case token.QUO:
			return a / b
		case token.LSS:
			return c.Bool(a < b)
		case token.LEQ:
			return c.Bool(a <= b)
		case token.GTR:
			return c.Bool(a > b)
		case token.GEQ:
			return c.Bool(a >= b)
		}
	case float32:
		b := y.(float32)
		switch op {
		case token.ADD:
			return a + b
		case token.SUB:
			return a - b
		case token.MUL:
			return a * b
		case token.QUO:
			return a / b
		case token.LSS:
			return c.Bool(a < b)
		case token.LEQ:
			return c.Bool(a <= b)
		case token.GTR:
			return c.Bool(a > b)
		case token.GEQ:
			return c.Bool(a >= b)
		}
	case string, SymStr:
		if op == token.ADD {
			xs, ok1 := x.(string)
			ys, ok2 := y.(string)
			if ok1 && ok2 {
				return xs + ys
			}
			return in.mkString(append(append([]*Term(nil), in.strBytes(x)...), in.strBytes(y)...))
		}
		cmp := in.compareBytes(in.strBytes(x), nil, in.strBytes(y), nil) // -1,0,1 as 64-bit
		z := c.zero64
		switch op {
		case token.LSS:
			return c.Slt(cmp, z)
		case token.LEQ:
			return c.Sle(cmp, z)
		case token.GTR:
			return c.Slt(z, cmp)
		case token.GEQ:
			return c.Sle(z, cmp)
		}
	}
	panic(engineErr("binop %v on %T, %T", op, x, y))
}

// compareBytes returns a 64-bit term in {-1,0,1} comparing byte sequences
// a[0:la) and b[0:lb) lexicographically; la/lb nil = full concrete lengths.
func (in *Interp) compareBytes(a []*Term, la *Term, b []*Term, lb *Term) *Term {
	c := in.ctx
	if la == nil {
		la = c.I64(int64(len(a)))
	}
	if lb == nil {
		lb = c.I64(int64(len(b)))
	}
	// result when common prefix exhausted: compare lengths
	lenCmp := c.Ite(c.Ult(la, lb), c.I64(-1), c.Ite(c.Eq(la, lb), c.zero64, c.one64))
	n := len(a)
	if len(b) < n {
		n = len(b)
	}
	r := lenCmp
	for i := n - 1; i >= 0; i-- {
		ii := c.I64(int64(i))
		inBoth := c.And(c.Ult(ii, la), c.Ult(ii, lb))
		differ := c.Not(c.Eq(a[i], b[i]))
		at := c.Ite(c.Ult(a[i], b[i]), c.I64(-1), c.one64)
		// if i within both: if differ -> at else continue(r); else lenCmp
		r = c.Ite(inBoth, c.Ite(differ, at, r), lenCmp)
	}
	return r
}

func (in *Interp) conv(dst, src types.Type, x value) value {
	c := in.ctx
	ud, us := dst.Underlying(), src.Underlying()
	// pointer / unsafe conversions
	switch ud.(type) {
	case *types.Pointer:
		return x
	case *types.Slice:
		switch us.(type) {
		case *types.Slice:
			return x
		case *types.Basic: // string -> []byte / []rune
			elem := ud.(*types.Slice).Elem().Underlying().(*types.Basic)
			b := in.strBytes(x)
			if elem.Kind() == types.Uint8 {
				return in.mkBytes(b)
			}
			// []rune: concrete only
			s, ok := concreteString(x)
			if !ok {
				panic(engineErr("string->[]rune on symbolic string"))
			}
			rs := []rune(s)
			back := make([]value, len(rs))
			for i, r := range rs {
				back[i] = c.BV(32, uint64(uint32(r)))
			}
			n := c.I64(int64(len(rs)))
			return SliceV{back: back, off: c.zero64, len: n, cap: n, nonnil: true}
		}
	case *types.Basic:
		bd := ud.(*types.Basic)
		if bd.Kind() == types.UnsafePointer {
			return x
		}
		if bd.Info()&types.IsString != 0 {
			switch s := us.(type) {
			case *types.Slice:
				sl := x.(SliceV)
				eb := s.Elem().Underlying().(*types.Basic)
				if eb.Kind() == types.Uint8 {
					if bs, ok := in.concreteBytes(sl); ok {
						return string(bs)
					}
					return in.mkString(in.sliceTerms(sl))
				}
				// []rune -> string
				ts := in.sliceTerms2(sl)
				var sb strings.Builder
				for _, t := range ts {
					if !t.isConst() {
						panic(engineErr("[]rune->string symbolic"))
					}
					sb.WriteRune(rune(int32(t.val)))
				}
				return sb.String()
			case *types.Basic:
				if s.Info()&types.IsString != 0 {
					return x
				}
				// integer -> string (rune)
				t := x.(*Term)
				if !t.isConst() {
					panic(engineErr("rune->string symbolic"))
				}
				_, signed, _ := intInfo(s)
				v := int64(t.val)
				if signed {
					v = t.signedVal()
				}
				if v < 0 || v > utf8.MaxRune {
					return "�"
				}
				return string(rune(v))
			}
		}
		if wd, _, ok := intInfo(bd); ok {
			switch v := x.(type) {
			case *Term:
				if v.sort.K == SFP {
					_, sdst, _ := intInfo(bd)
					if sdst {
						return c.fpOp(OFpToSBV, bvSort(wd), wd, v)
					}
					return c.fpOp(OFpToUBV, bvSort(wd), wd, v)
				}
				_, ssrc, _ := intInfo(us)
				if v.sort.W >= wd {
					return c.Extract(wd-1, 0, v)
				}
				if ssrc {
					return c.Sext(wd, v)
				}
				return c.Zext(wd, v)
			case float64:
				return in.floatToInt(v, bd)
			case float32:
				return in.floatToInt(float64(v), bd)
			case *value:
				// unsafe.Pointer -> uintptr
				if v == nil {
					return c.BV(64, 0)
				}
				return c.BV(64, 0xdead0000)
			}
		}
		if bd.Info()&types.IsFloat != 0 {
			var f float64
			switch v := x.(type) {
			case *Term:
				if v.sort.K == SFP {
					return v
				}
				if !v.isConst() {
					if bd.Kind() == types.Float32 {
						panic(engineErr("int->float32 conversion of symbolic value"))
					}
					_, ssrc, _ := intInfo(us)
					return in.symFFromInt(v, ssrc)
				}
				_, ssrc, _ := intInfo(us)
				if ssrc {
					f = float64(v.signedVal())
				} else {
					f = float64(v.val)
				}
			case float64:
				f = v
			case float32:
				f = float64(v)
			case SymF:
				return v
			default:
				panic(engineErr("conv to float from %T", x))
			}
			if bd.Kind() == types.Float32 {
				return float32(f)
			}
			return f
		}
	case *types.Interface, *types.Signature, *types.Map, *types.Chan, *types.Struct, *types.Array:
		return x
	}
	panic(engineErr("conv %v -> %v (%T)", src, dst, x))
}

func (in *Interp) sliceTerms2(s SliceV) []*Term { return in.sliceTerms(s) }

func (in *Interp) floatToInt(f float64, bd *types.Basic) value {
	w, signed, _ := intInfo(bd)
	if math.IsNaN(f) || math.IsInf(f, 0) {
		return in.ctx.BV(w, 1<<63)
	}
	if signed {
		return in.ctx.BV(w, uint64(int64(f)))
	}
	return in.ctx.BV(w, uint64(f))
}

// ---- builtins ----

func (in *Interp) callBuiltin(fr *frame, pos token.Pos, fn *ssa.Builtin, args []value) value {
	c := in.ctx
	switch fn.Name() {
	case "append":
		return in.appendOp(args[0].(SliceV), args[1], fn)
	case "copy":
		return in.copyOp(args[0].(SliceV), args[1])
	case "len":
		switch x := args[0].(type) {
		case string:
			return c.I64(int64(len(x)))
		case SymStr:
			return c.I64(int64(len(x.b)))
		case SliceV:
			return x.len
		case array:
			return c.I64(int64(len(x)))
		case *value:
			if x == nil {
				return c.zero64
			}
			return c.I64(int64(len((*x).(array))))
		case *MapV:
			if x == nil {
				return c.zero64
			}
			return c.I64(int64(x.n))
		case *ChanV:
			if x == nil {
				return c.zero64
			}
			return c.I64(int64(len(x.buf)))
		}
	case "cap":
		switch x := args[0].(type) {
		case SliceV:
			return x.cap
		case array:
			return c.I64(int64(len(x)))
		case *value:
			return c.I64(int64(len((*x).(array))))
		case *ChanV:
			return c.I64(int64(x.cap))
		}
	case "delete":
		m := args[0].(*MapV)
		if m != nil {
			in.mapDelete(m, args[1])
		}
		return nil
	case "panic":
		panic(targetPanic{v: args[0], msg: in.panicString(args[0])})
	case "recover":
		return in.doRecover(fr)
	case "print", "println":
		return nil
	case "close":
		args[0].(*ChanV).closed = true
		return nil
	case "min", "max":
		T := fn.Type().(*types.Signature).Params().At(0).Type()
		r := args[0]
		for _, a := range args[1:] {
			var lt *Term
			if fn.Name() == "min" {
				lt = in.binop(token.LSS, T, T, a, r).(*Term)
			} else {
				lt = in.binop(token.GTR, T, T, a, r).(*Term)
			}
			r = in.merge(lt, a, r)
		}
		return r
	case "clear":
		switch x := args[0].(type) {
		case SliceV:
			var elemT types.Type
			if sl, ok := fn.Type().(*types.Signature).Params().At(0).Type().Underlying().(*types.Slice); ok {
				elemT = sl.Elem()
			}
			n := in.sliceMax(x)
			for i := 0; i < n; i++ {
				var g *Term
				if !x.len.isConst() {
					g = c.Ult(c.I64(int64(i)), x.len)
				}
				in.sliceSet(x, i, in.zero(elemT), g)
			}
			return nil
		case *MapV:
			if x != nil {
				x.keys, x.vals, x.live, x.n, x.index = nil, nil, nil, 0, map[string]int{}
			}
			return nil
		}
	case "ssa:wrapnilchk":
		if p, ok := args[0].(*value); ok && p == nil {
			in.runtimePanic("value method called using nil pointer")
		}
		return args[0]
	case "String": // unsafe.String(ptr, len)
		n := in.concretize(in.to64(args[1], types.Typ[types.Int]), 1<<20, "unsafe.String len")
		if n == 0 {
			return ""
		}
		arr, off := in.ptrToBacking(args[0])
		b := make([]*Term, n)
		for i := range b {
			b[i] = arr[off+i].(*Term)
		}
		return in.mkString(b)
	case "StringData":
		b := in.strBytes(args[0])
		if len(b) == 0 {
			return (*value)(nil)
		}
		back := make([]value, len(b))
		for i, t := range b {
			back[i] = t
		}
		in.ps.backings = append(in.ps.backings, back)
		return &back[0]
	case "SliceData":
		s := args[0].(SliceV)
		if s.back == nil {
			return (*value)(nil)
		}
		off := in.concretize(s.off, len(s.back), "slice offset")
		if off >= len(s.back) {
			return (*value)(nil)
		}
		in.ps.backings = append(in.ps.backings, s.back)
		return &s.back[off]
	case "Slice": // unsafe.Slice(ptr, len)
		n := in.to64(args[1], types.Typ[types.Int])
		if p, ok := args[0].(*value); ok && p == nil {
			return SliceV{off: c.zero64, len: c.zero64, cap: c.zero64}
		}
		arr, off := in.ptrToBacking(args[0])
		return SliceV{back: arr, off: c.I64(int64(off)), len: n, cap: n, nonnil: true}
	}
	panic(engineErr("builtin %s on %T unsupported (at %s)", fn.Name(), firstOrNil(args), in.where(fr, pos)))
}

func firstOrNil(a []value) value {
	if len(a) > 0 {
		return a[0]
	}
	return nil
}

// ptrToBacking finds the backing array a pointer points into (registered by noteBacking).
func (in *Interp) ptrToBacking(p value) ([]value, int) {
	ptr, ok := p.(*value)
	if !ok || ptr == nil {
		panic(engineErr("unsafe pointer arithmetic on %T", p))
	}
	for _, b := range in.ps.backings {
		for i := range b {
			if &b[i] == ptr {
				return b, i
			}
		}
	}
	// single cell
	return []value{*ptr}, 0
}

func (in *Interp) doRecover(fr *frame) value {
	// recover() must be called directly by a deferred function of a panicking frame
	if fr != nil && fr.caller != nil && fr.caller.panicking {
		fr.caller.panicking = false
		p := fr.caller.panic
		fr.caller.panic = nil
		if tp, ok := p.(targetPanic); ok {
			return tp.v
		}
		panic(engineErr("recover of non-target panic %T", p))
	}
	return iface{}
}

func (in *Interp) appendOp(s SliceV, t value, fn *ssa.Builtin) value {
	return in.appendVals(s, t, fn)
}

func (in *Interp) appendVals(s SliceV, t value, fn *ssa.Builtin) value {
	c := in.ctx
	var src SliceV
	switch x := t.(type) {
	case SliceV:
		src = x
	case string, SymStr:
		src = in.mkBytes(in.strBytes(x))
	default:
		panic(engineErr("append of %T", t))
	}
	if src.len.isConst() && src.len.val == 0 {
		return s
	}
	newLen := c.Add(s.len, src.len)
	maxS, maxT := in.sliceMax(s), in.sliceMax(src)
	// read source elements first (may alias)
	srcVals := make([]value, maxT)
	for j := 0; j < maxT; j++ {
		srcVals[j] = copyVal(in.sliceGet(src, j))
	}
	fits := c.And(c.Ule(newLen, s.cap), c.Bool(s.back != nil))
	if in.decide(fits) {
		for j := 0; j < maxT; j++ {
			var g *Term
			if !src.len.isConst() {
				g = c.Ult(c.I64(int64(j)), src.len)
			}
			if s.len.isConst() {
				in.sliceSet(s, int(s.len.val)+j, srcVals[j], g)
			} else {
				in.symStore(s.back, c.Add(c.Add(s.off, s.len), c.I64(int64(j))), srcVals[j], g)
			}
		}
		return SliceV{back: s.back, off: s.off, len: newLen, cap: s.cap, nonnil: true}
	}
	// grow
	ncap := maxS + maxT
	var elemT types.Type
	if fn == nil {
		elemT = types.Typ[types.Uint8]
	} else if sl, ok := fn.Type().(*types.Signature).Params().At(0).Type().Underlying().(*types.Slice); ok {
		elemT = sl.Elem()
	}
	if s.len.isConst() && src.len.isConst() && s.cap.isConst() && elemT != nil {
		ncap = int(goGrowCap(int64(s.cap.val), int64(s.len.val+src.len.val), in.elemSize(elemT), !hasPointers(elemT)))
	} else if ncap < 8 {
		ncap = 8
	}
	back := make([]value, ncap)
	for i := 0; i < maxS; i++ {
		back[i] = copyVal(in.sliceGet(s, i))
	}
	for i := maxS; i < ncap; i++ {
		if elemT != nil {
			back[i] = in.zero(elemT)
		}
	}
	ns := SliceV{back: back, off: c.zero64, len: newLen, cap: c.I64(int64(ncap)), nonnil: true}
	for j := 0; j < maxT; j++ {
		var g *Term
		if !src.len.isConst() {
			g = c.Ult(c.I64(int64(j)), src.len)
		}
		if s.len.isConst() {
			in.sliceSet(ns, int(s.len.val)+j, srcVals[j], g)
		} else {
			in.symStore(back, c.Add(s.len, c.I64(int64(j))), srcVals[j], g)
		}
	}
	return ns
}

func (in *Interp) copyOp(dst SliceV, srcv value) value {
	c := in.ctx
	var src SliceV
	switch x := srcv.(type) {
	case SliceV:
		src = x
	case string, SymStr:
		src = in.mkBytes(in.strBytes(x))
	}
	n := c.Ite(c.Ult(dst.len, src.len), dst.len, src.len)
	maxN := in.sliceMax(dst)
	if m := in.sliceMax(src); m < maxN {
		maxN = m
	}
	vals := make([]value, maxN)
	for i := 0; i < maxN; i++ {
		vals[i] = copyVal(in.sliceGet(src, i))
	}
	for i := 0; i < maxN; i++ {
		var g *Term
		if !n.isConst() {
			g = c.Ult(c.I64(int64(i)), n)
		} else if uint64(i) >= n.val {
			break
		}
		in.sliceSet(dst, i, vals[i], g)
	}
	return n
}

// ---- maps ----

func (in *Interp) mapFind(m *MapV, key value) int {
	var sb strings.Builder
	if keyString(key, &sb) {
		ks := sb.String()
		if i, ok := m.index[ks]; ok && m.live[i] {
			return i
		}
		// also compare against symbolic-keyed entries
		for i := range m.keys {
			if !m.live[i] {
				continue
			}
			var sb2 strings.Builder
			if keyString(m.keys[i], &sb2) {
				continue
			}
			if in.decide(in.equals(m.keyT, key, m.keys[i])) {
				return i
			}
		}
		return -1
	}
	for i := range m.keys {
		if !m.live[i] {
			continue
		}
		if in.decide(in.equals(m.keyT, key, m.keys[i])) {
			return i
		}
	}
	return -1
}

func (in *Interp) mapInsert(m *MapV, key, val value) {
	if i := in.mapFind(m, key); i >= 0 {
		m.vals[i] = val
		return
	}
	key = copyVal(key)
	m.keys = append(m.keys, key)
	m.vals = append(m.vals, val)
	m.live = append(m.live, true)
	m.n++
	var sb strings.Builder
	if keyString(key, &sb) {
		m.index[sb.String()] = len(m.keys) - 1
	}
}

func (in *Interp) mapDelete(m *MapV, key value) {
	if i := in.mapFind(m, key); i >= 0 {
		m.live[i] = false
		m.n--
		var sb strings.Builder
		if keyString(m.keys[i], &sb) {
			delete(m.index, sb.String())
		}
	}
}

func (in *Interp) lookup(ins *ssa.Lookup, x, idx value) value {
	switch m := x.(type) {
	case *MapV:
		elemT := ins.X.Type().Underlying().(*types.Map).Elem()
		var v value
		ok := false
		if m != nil {
			if i := in.mapFind(m, idx); i >= 0 {
				v = copyVal(m.vals[i])
				ok = true
			}
		}
		if !ok {
			v = in.zero(elemT)
		}
		if ins.CommaOk {
			return tuple{v, in.ctx.Bool(ok)}
		}
		return v
	}
	panic(engineErr("lookup in %T", x))
}

func (in *Interp) rangeIter(x value, T types.Type) value {
	switch v := x.(type) {
	case *MapV:
		it := &mapIter{m: v}
		if v != nil {
			for i := range v.keys {
				if v.live[i] {
					it.order = append(it.order, i)
				}
			}
			if in.eng.allMapOrders && len(it.order) > 1 {
				// choose a permutation by successive choices
				rem := append([]int(nil), it.order...)
				var perm []int
				for len(rem) > 0 {
					k := in.choose(len(rem), "map iteration order")
					perm = append(perm, rem[k])
					rem = append(rem[:k], rem[k+1:]...)
				}
				it.order = perm
			}
		}
		return it
	case string, SymStr:
		return &strIter{s: v}
	}
	panic(engineErr("range over %T", x))
}

func (in *Interp) iterNext(itv value, ins *ssa.Next) value {
	c := in.ctx
	switch it := itv.(type) {
	case *mapIter:
		for it.pos < len(it.order) {
			i := it.order[it.pos]
			it.pos++
			if it.m.live[i] {
				return tuple{c.tt, copyVal(it.m.keys[i]), copyVal(it.m.vals[i])}
			}
		}
		return tuple{c.ff, nil, nil}
	case *strIter:
		b := in.strBytes(it.s)
		if it.pos >= len(b) {
			return tuple{c.ff, c.I64(0), c.BV(32, 0)}
		}
		// decode rune: concrete only unless ASCII-constrained
		t := b[it.pos]
		if t.isConst() && t.val < utf8.RuneSelf {
			p := it.pos
			it.pos++
			return tuple{c.tt, c.I64(int64(p)), c.BV(32, t.val)}
		}
		s, ok := concreteString(it.s)
		if !ok {
			panic(engineErr("range over symbolic non-ASCII string"))
		}
		r, sz := utf8.DecodeRuneInString(s[it.pos:])
		p := it.pos
		it.pos += sz
		return tuple{c.tt, c.I64(int64(p)), c.BV(32, uint64(uint32(r)))}
	}
	panic(engineErr("next on %T", itv))
}

// ---- symbolic floating point (float64 only)

func (in *Interp) isSymFP(v value) bool {
	t, ok := v.(*Term)
	return ok && t.sort.K == SFP
}

func (in *Interp) toFP(v value) *Term {
	switch x := v.(type) {
	case *Term:
		if x.sort.K == SFP {
			return x
		}
	case float64:
		return in.ctx.FP(math.Float64bits(x))
	}
	panic(engineErr("toFP: %T (float32 symbolic arithmetic unsupported)", v))
}

func (in *Interp) fpCmp(op token.Token, a, b *Term) *Term {
	c := in.ctx
	switch op {
	case token.EQL:
		return c.fpOp(OFpEq, sortBool, 0, a, b)
	case token.LSS:
		return c.fpOp(OFpLt, sortBool, 0, a, b)
	case token.LEQ:
		return c.fpOp(OFpLe, sortBool, 0, a, b)
	case token.GTR:
		return c.fpOp(OFpLt, sortBool, 0, b, a)
	case token.GEQ:
		return c.fpOp(OFpLe, sortBool, 0, b, a)
	}
	panic(engineErr("fpCmp %v", op))
}

func (in *Interp) fpBinop(op token.Token, a, b *Term) value {
	c := in.ctx
	switch op {
	case token.ADD:
		return c.fpOp(OFpAdd, sortFP, 0, a, b)
	case token.SUB:
		return c.fpOp(OFpSub, sortFP, 0, a, b)
	case token.MUL:
		return c.fpOp(OFpMul, sortFP, 0, a, b)
	case token.QUO:
		return c.fpOp(OFpDiv, sortFP, 0, a, b)
	case token.LSS, token.LEQ, token.GTR, token.GEQ:
		return in.fpCmp(op, a, b)
	}
	panic(engineErr("float binop %v on symbolic operands", op))
}
