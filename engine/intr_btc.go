package main

// btcd/bchd: the secp256k1 byte-point table (base64+zlib, tens of millions of instructions to
// unpack) is only needed for scalar multiplication, which no harness executes: skip loading it.

func init() {
	for _, p := range []string{"github.com/btcsuite/btcd/btcec.loadS256BytePoints", "github.com/gcash/bchd/bchec.loadS256BytePoints"} {
		intrinsicTable[p] = func(fr *frame, a []value) value { return iface{} }
	}
}
