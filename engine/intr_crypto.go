package main

// Model of ontology-crypto public keys and signatures.
//
// A public key is an opaque object carrying its canonical serialization (byte terms).
// Concrete encodings are decided by the real library (linked into the engine); symbolic
// encodings are "valid" according to an uninterpreted predicate constrained by the
// structural requirements of the real decoder.

import (
	"fmt"
	"go/types"

	okeypair "github.com/ontio/ontology-crypto/keypair"
	"golang.org/x/tools/go/ssa"
)

type PubKeyObj struct {
	b []*Term // canonical serialization
}

const ocPath = "github.com/ontio/ontology-crypto/"

func init() {
	intrinsicTable[ocPath+"keypair.DeserializePublicKey"] = pkDeserialize
	intrinsicTable[ocPath+"keypair.SerializePublicKey"] = pkSerialize
	intrinsicTable[ocPath+"keypair.ComparePublicKey"] = pkCompare
	intrinsicTable[ocPath+"keypair.SortPublicKeys"] = pkSort
}

func (in *Interp) pubKeyType() types.Type {
	if p := in.prog.ImportedPackage(ocPath + "ec"); p != nil {
		if m, ok := p.Members["PublicKey"].(*ssa.Type); ok {
			return types.NewPointer(m.Type())
		}
	}
	panic(engineErr("ontology-crypto/ec not loaded"))
}

func (in *Interp) mkPubKey(b []*Term) value {
	return iface{t: in.pubKeyType(), v: &PubKeyObj{b: b}}
}

func asPubKey(v value) *PubKeyObj {
	if i, ok := v.(iface); ok {
		if k, ok := i.v.(*PubKeyObj); ok {
			return k
		}
		if i.t == nil {
			return nil
		}
	}
	panic(engineErr("public key value is not an engine key object: %s", describe(v)))
}

func pkDeserialize(fr *frame, a []value) value {
	in := fr.in
	c := in.ctx
	s := a[0].(SliceV)
	if bs, ok := in.concreteBytes(s); ok {
		pk, err := okeypair.DeserializePublicKey(bs)
		if err != nil {
			return tuple{iface{}, in.mkError("deserializing public key failed: " + err.Error())}
		}
		canon := okeypair.SerializePublicKey(pk)
		ts := make([]*Term, len(canon))
		for i, x := range canon {
			ts[i] = c.byteConsts[x]
		}
		return tuple{in.mkPubKey(ts), iface{}}
	}
	b := in.sliceTerms(s)
	n := len(b)
	if n <= 3 {
		return tuple{iface{}, in.mkError("too short pubkey")}
	}
	in.ps.usedUF = true
	valid := c.UF(fmt.Sprintf("pkvalid_%d", n), sortBool, b...)
	// structural necessary conditions of the real decoder
	b0 := b[0]
	is := func(v byte) *Term { return c.Eq(b0, c.byteConsts[v]) }
	var shape *Term
	switch {
	case n == 33:
		shape = c.Or(is(2), is(3))
	case n == 65:
		shape = is(4)
	case n == 34:
		shape = c.And(is(0x14), c.Eq(b[1], c.byteConsts[1]))
	default:
		shape = c.ff
	}
	if n >= 35 {
		shape = c.Or(shape, c.Or(is(0x12), is(0x13)))
	}
	ok := c.And(valid, shape)
	if in.decide(ok) {
		if n == 33 {
			return tuple{in.mkPubKey(append([]*Term(nil), b...)), iface{}}
		}
		// non-canonical input form: canonical bytes are an uninterpreted function of the input
		canon := make([]*Term, 33)
		for i := range canon {
			canon[i] = c.UF(fmt.Sprintf("pkcanon_%d_%d", n, i), bvSort(8), b...)
		}
		return tuple{in.mkPubKey(canon), iface{}}
	}
	return tuple{iface{}, in.mkError("deserializing public key failed")}
}

func pkSerialize(fr *frame, a []value) value {
	k := asPubKey(a[0])
	if k == nil {
		fr.in.runtimePanic("SerializePublicKey of nil key (unknown public key type)")
	}
	return fr.in.mkBytes(append([]*Term(nil), k.b...))
}

// keyOrder is the order used by SortPublicKeys / ComparePublicKey. The real library orders
// ECDSA P-256 keys by (X, Y); for compressed keys 0x02/0x03||X this is X first, then the parity
// byte only for equal X, i.e. lexicographic order on X followed by the prefix.
func (in *Interp) pkCompareTerm(x, y *PubKeyObj) *Term {
	if len(x.b) != 33 || len(y.b) != 33 {
		panic(engineErr("key comparison on non-compressed key"))
	}
	xa := append(append([]*Term(nil), x.b[1:]...), x.b[0])
	ya := append(append([]*Term(nil), y.b[1:]...), y.b[0])
	return in.compareBytes(xa, nil, ya, nil)
}

func pkCompare(fr *frame, a []value) value {
	return fr.in.pkCompareTerm(asPubKey(a[0]), asPubKey(a[1]))
}

func pkSort(fr *frame, a []value) value {
	in := fr.in
	s := a[0].(SliceV)
	n := in.concretize(s.len, in.sliceMax(s), "SortPublicKeys length")
	keys := make([]value, n)
	for i := range keys {
		keys[i] = in.sliceGet(s, i)
	}
	// insertion sort, forks on symbolic comparisons; sorts a copy like the real function? The real
	// function sorts in place and returns the same slice.
	for i := 1; i < n; i++ {
		for j := i; j > 0; j-- {
			lt := in.ctx.Slt(in.pkCompareTerm(asPubKey(keys[j]), asPubKey(keys[j-1])), in.ctx.zero64)
			if !in.decide(lt) {
				break
			}
			keys[j], keys[j-1] = keys[j-1], keys[j]
		}
	}
	for i := range keys {
		in.sliceSet(s, i, keys[i], nil)
	}
	return s
}
