package main

// Unsigned interval reasoning over bit-vector terms. Intervals are used only to shrink the
// candidate sets of symbolic indices / lengths (fewer ite cells, shorter guarded loops); every
// use is sound because bounds are either structural or learned from asserted path constraints.

type interval struct{ lo, hi uint64 }

func fullRange(w int) interval { return interval{0, mask(w)} }

func (iv interval) meet(o interval) interval {
	if o.lo > iv.lo {
		iv.lo = o.lo
	}
	if o.hi < iv.hi {
		iv.hi = o.hi
	}
	return iv
}

func (in *Interp) rangeOf(t *Term) interval {
	if t.sort.K != SBV || t.sort.W > 64 {
		return interval{0, ^uint64(0)}
	}
	return in.rangeRec(t, 0)
}

func (in *Interp) rangeRec(t *Term, depth int) interval {
	w := t.sort.W
	full := fullRange(w)
	if t.isConst() {
		return interval{t.val, t.val}
	}
	if t.sort.K != SBV || w > 64 {
		return full
	}
	ps := in.ps
	if ps != nil && ps.rangeCache != nil {
		if iv, ok := ps.rangeCache[t]; ok {
			return iv
		}
	}
	r := full
	if depth < 40 {
		switch t.op {
		case OZext:
			r = in.rangeRec(t.args[0], depth+1)
		case OBvAdd:
			a, b := in.rangeRec(t.args[0], depth+1), in.rangeRec(t.args[1], depth+1)
			if t.args[1].isConst() && t.args[1].val > mask(w)>>1 {
				// x + (-k)
				k := (mask(w) - t.args[1].val) + 1
				if a.lo >= k {
					r = interval{a.lo - k, a.hi - k}
				}
			} else if a.hi <= mask(w)-b.hi && a.hi+b.hi >= a.hi {
				r = interval{a.lo + b.lo, a.hi + b.hi}
			}
		case OBvSub:
			a, b := in.rangeRec(t.args[0], depth+1), in.rangeRec(t.args[1], depth+1)
			if a.lo >= b.hi {
				r = interval{a.lo - b.hi, a.hi - b.lo}
			}
		case OIte:
			a, b := in.rangeRec(t.args[1], depth+1), in.rangeRec(t.args[2], depth+1)
			r = a
			if b.lo < r.lo {
				r.lo = b.lo
			}
			if b.hi > r.hi {
				r.hi = b.hi
			}
		case OBvAnd:
			a, b := in.rangeRec(t.args[0], depth+1), in.rangeRec(t.args[1], depth+1)
			h := a.hi
			if b.hi < h {
				h = b.hi
			}
			r = interval{0, h}
		case OBvURem:
			b := in.rangeRec(t.args[1], depth+1)
			if b.lo > 0 {
				r = interval{0, b.hi - 1}
			}
		case OBvUDiv:
			a, b := in.rangeRec(t.args[0], depth+1), in.rangeRec(t.args[1], depth+1)
			if b.lo > 0 {
				r = interval{a.lo / b.hi, a.hi / b.lo}
			}
		case OBvLshr:
			a := in.rangeRec(t.args[0], depth+1)
			if t.args[1].isConst() && t.args[1].val < 64 {
				r = interval{a.lo >> t.args[1].val, a.hi >> t.args[1].val}
			} else {
				r = interval{0, a.hi}
			}
		case OBvMul:
			a, b := in.rangeRec(t.args[0], depth+1), in.rangeRec(t.args[1], depth+1)
			if a.hi == 0 || b.hi <= mask(w)/maxU(a.hi, 1) {
				r = interval{a.lo * b.lo, a.hi * b.hi}
			}
		case OExtract:
			if t.p2 == 0 {
				a := in.rangeRec(t.args[0], depth+1)
				if a.hi <= mask(w) {
					r = a
				}
			}
		case OConcat:
			// high part zero-range?
			a := in.rangeRec(t.args[0], depth+1)
			lw := t.args[1].sort.W
			if a.hi == 0 {
				r = in.rangeRec(t.args[1], depth+1)
			} else if lw < 64 && a.hi <= mask(w)>>uint(lw) {
				r = interval{a.lo << uint(lw), a.hi<<uint(lw) | mask(lw)}
			}
		}
	}
	if ps != nil && ps.learned != nil {
		if iv, ok := ps.learned[t]; ok {
			r = r.meet(iv)
		}
	}
	if ps != nil && ps.rangeCache != nil {
		ps.rangeCache[t] = r
	}
	return r
}

func maxU(a, b uint64) uint64 {
	if a > b {
		return a
	}
	return b
}

// learn records bounds implied by an asserted constraint.
func (in *Interp) learn(t *Term) {
	ps := in.ps
	if ps == nil || ps.learned == nil {
		return
	}
	changed := false
	set := func(x *Term, iv interval) {
		if x.isConst() || x.sort.K != SBV || x.sort.W > 64 {
			return
		}
		old, ok := ps.learned[x]
		if !ok {
			old = fullRange(x.sort.W)
		}
		n := old.meet(iv)
		if n != old || !ok {
			ps.learned[x] = n
			changed = true
		}
	}
	var rec func(t *Term, pos bool)
	rec = func(t *Term, pos bool) {
		switch t.op {
		case ONot:
			rec(t.args[0], !pos)
		case OAnd:
			if pos {
				rec(t.args[0], true)
				rec(t.args[1], true)
			}
		case OOr:
			if !pos {
				rec(t.args[0], false)
				rec(t.args[1], false)
			}
		case OBvUle, OBvUlt:
			a, b := t.args[0], t.args[1]
			strict := t.op == OBvUlt
			if !pos {
				// not(a <= b) == b < a ; not(a < b) == b <= a
				a, b = b, a
				strict = !strict
			}
			if a.sort.W > 64 {
				return
			}
			ra, rb := in.rangeOf(a), in.rangeOf(b)
			m := mask(a.sort.W)
			// a <(=) b : a.hi <= b.hi(-1), b.lo >= a.lo(+1)
			if strict {
				if rb.hi > 0 {
					set(a, interval{0, rb.hi - 1})
				}
				if ra.lo < m {
					set(b, interval{ra.lo + 1, m})
				}
			} else {
				set(a, interval{0, rb.hi})
				set(b, interval{ra.lo, m})
			}
		case OBvSle, OBvSlt:
			a, b := t.args[0], t.args[1]
			strict := t.op == OBvSlt
			if !pos {
				a, b = b, a
				strict = !strict
			}
			if a.sort.W > 64 {
				return
			}
			half := mask(a.sort.W) >> 1
			ra, rb := in.rangeOf(a), in.rangeOf(b)
			// only when both are known non-negative, signed order == unsigned order
			if ra.hi <= half && rb.hi <= half {
				if strict {
					if rb.hi > 0 {
						set(a, interval{0, rb.hi - 1})
					}
					set(b, interval{ra.lo + 1, half})
				} else {
					set(a, interval{0, rb.hi})
					set(b, interval{ra.lo, half})
				}
			} else if a.isConst() && a.val <= half {
				// const(>=0) <(=)s b  =>  b is non-negative: b in [const(+1), half] as unsigned
				lo := a.val
				if strict {
					lo++
				}
				set(b, interval{lo, half})
			}
		case OEq:
			if !pos {
				return
			}
			a, b := t.args[0], t.args[1]
			if a.sort.K != SBV || a.sort.W > 64 {
				return
			}
			ra, rb := in.rangeOf(a), in.rangeOf(b)
			set(a, rb)
			set(b, ra)
		}
	}
	rec(t, true)
	if changed {
		ps.rangeCache = map[*Term]interval{}
	}
}
