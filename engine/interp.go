package main

import (
	"fmt"
	"go/constant"
	"go/token"
	"go/types"
	"math/big"
	"strings"

	"golang.org/x/tools/go/ssa"
)

// ---- path-level control (Go panics used for unwinding) ----

// targetPanic is a panic raised by interpreted code (or a modelled runtime panic).
type targetPanic struct {
	v   value // the panic value (iface)
	msg string
}

// pathEnd terminates the current path.
type pathEnd struct {
	kind string // "infeasible", "done", "cut", "unwind", "violation-stop"
	msg  string
}

type fnInfo struct {
	reg   map[ssa.Value]int
	nregs int
}

type deferred struct {
	fn    value
	args  []value
	instr *ssa.Defer
	tail  *deferred
}

type frame struct {
	in               *Interp
	caller           *frame
	fn               *ssa.Function
	info             *fnInfo
	block, prevBlock *ssa.BasicBlock
	regs             []value
	defers           *deferred
	result           value
	panicking        bool
	panic            interface{}
	callpos          token.Pos
}

// Interp is one worker's interpreter: own term context and solver.
type Interp struct {
	eng   *Engine
	prog  *ssa.Program
	ctx   *Ctx
	sol   *Solver
	sizes types.Sizes

	fnInfos    map[*ssa.Function]*fnInfo
	constCache map[*ssa.Const]value
	intrCache  map[*ssa.Function]intrinsicFn

	// per-path state
	ps     *PathState
	cur    *frame
	curPos token.Pos
}

type PathState struct {
	prefix         []int // decisions to replay
	trace          []int // decisions taken so far
	arity          []int // arity of each decision (2 = binary)
	steps          int
	depth          int
	globals        map[*ssa.Global]*value
	copied         map[*ssa.Package]bool
	copyMemo       map[interface{}]interface{}
	inputs         []*Term        // symbolic inputs in creation order
	inputNames     map[string]int // occurrence counters
	pcSize         int
	covers         []string
	events         []string             // bound cuts etc.
	hashApps       map[string][]hashApp // UF name -> applications (for axioms)
	forks          []pendingFork
	mutexes        map[*value]int
	initMode       bool
	funcsSeen      map[*ssa.Function]int
	choiceNames    []string
	storedGlobals  map[*ssa.Global]bool
	obligs         int
	violations     []Violation
	usedUF         bool
	backings       [][]value
	hashPending    map[string][]hashApp // concrete points not yet asserted, per UF name
	hashSymSeen    map[string]bool
	learned        map[*Term]interval
	sigs           map[*Term]*sigProv
	forbidReported map[string]bool
	guardOn        bool // lock-discipline monitor switched on (zzsym.Guard)
	rangeCache     map[*Term]interval
}

type hashApp struct {
	arg *Term
	res *Term
}

type pendingFork struct {
	prefix []int
}

func (in *Interp) info(fn *ssa.Function) *fnInfo {
	if fi, ok := in.fnInfos[fn]; ok {
		return fi
	}
	fi := &fnInfo{reg: map[ssa.Value]int{}}
	add := func(v ssa.Value) {
		fi.reg[v] = fi.nregs
		fi.nregs++
	}
	for _, p := range fn.Params {
		add(p)
	}
	for _, p := range fn.FreeVars {
		add(p)
	}
	for _, b := range fn.Blocks {
		for _, ins := range b.Instrs {
			if v, ok := ins.(ssa.Value); ok {
				add(v)
			}
		}
	}
	in.fnInfos[fn] = fi
	return fi
}

func (fr *frame) get(key ssa.Value) value {
	switch k := key.(type) {
	case nil:
		return nil
	case *ssa.Function, *ssa.Builtin:
		return key
	case *ssa.Const:
		return fr.in.constValue(k)
	case *ssa.Global:
		return fr.in.globalAddr(k)
	}
	if i, ok := fr.info.reg[key]; ok {
		v := fr.regs[i]
		return v
	}
	panic(engineErr("get: no value for %T %v in %v", key, key.Name(), fr.fn))
}

func (fr *frame) set(key ssa.Value, v value) {
	fr.regs[fr.info.reg[key]] = v
}

func (in *Interp) constValue(c *ssa.Const) value {
	if v, ok := in.constCache[c]; ok {
		return v
	}
	v := in.constValue0(c)
	in.constCache[c] = v
	return v
}

func (in *Interp) constValue0(c *ssa.Const) value {
	if c.Value == nil {
		return in.zero(c.Type())
	}
	T := c.Type()
	if b, ok := T.Underlying().(*types.Basic); ok {
		if w, signed, ok := intInfo(b); ok {
			iv := constant.ToInt(c.Value)
			if signed {
				if x, ok := constant.Int64Val(iv); ok {
					return in.ctx.BV(w, uint64(x))
				}
			}
			if x, ok := constant.Uint64Val(iv); ok {
				return in.ctx.BV(w, x)
			}
			if x, ok := constant.Int64Val(iv); ok {
				return in.ctx.BV(w, uint64(x))
			}
			panic(engineErr("const out of range: %v", c))
		}
		switch {
		case b.Info()&types.IsBoolean != 0:
			return in.ctx.Bool(constant.BoolVal(c.Value))
		case b.Info()&types.IsString != 0:
			if c.Value.Kind() == constant.String {
				return constant.StringVal(c.Value)
			}
			// int constant converted to string
			if x, ok := constant.Int64Val(constant.ToInt(c.Value)); ok {
				return string(rune(x))
			}
		case b.Kind() == types.Float32:
			f, _ := constant.Float64Val(c.Value)
			return float32(f)
		case b.Info()&types.IsFloat != 0:
			f, _ := constant.Float64Val(c.Value)
			return f
		case b.Info()&types.IsComplex != 0:
			re, _ := constant.Float64Val(constant.Real(c.Value))
			im, _ := constant.Float64Val(constant.Imag(c.Value))
			return complex(re, im)
		}
	}
	panic(engineErr("constValue: unsupported %v : %v", c, T))
}

// ---- decisions / forking ----

// decide resolves a boolean term to a concrete branch, forking when both sides are feasible.
func (in *Interp) decide(cond *Term) bool {
	if cond.isConst() {
		return cond.val == 1
	}
	ps := in.ps
	if ps.initMode {
		panic(engineErr("symbolic branch during package initialisation"))
	}
	k := len(ps.trace)
	if k < len(ps.prefix) {
		d := ps.prefix[k]
		ps.trace = append(ps.trace, d)
		ps.arity = append(ps.arity, 2)
		if d == 0 {
			in.assertPC(cond)
			return true
		}
		in.assertPC(in.ctx.Not(cond))
		return false
	}
	if k >= in.eng.maxBranches {
		panic(pathEnd{"unwind", fmt.Sprintf("more than %d symbolic decisions on one path", in.eng.maxBranches)})
	}
	in.eng.stats.branchQueries.Add(1)
	r := in.sol.Check(cond)
	in.sol.PopCheck()
	switch r {
	case "unsat":
		// cond impossible: the other side must be feasible (PC is satisfiable by invariant)
		in.assertPC(in.ctx.Not(cond))
		ps.trace = append(ps.trace, 1)
		ps.arity = append(ps.arity, 2)
		return false
	case "sat":
	default:
		panic(pathEnd{"unknown", "branch feasibility: " + in.sol.lastErr + " at " + in.where(in.cur, in.curPos)})
	}
	nc := in.ctx.Not(cond)
	in.eng.stats.branchQueries.Add(1)
	r2 := in.sol.Check(nc)
	in.sol.PopCheck()
	switch r2 {
	case "unsat":
		in.assertPC(cond)
		ps.trace = append(ps.trace, 0)
		ps.arity = append(ps.arity, 2)
		return true
	case "sat":
	default:
		panic(pathEnd{"unknown", "branch feasibility: " + in.sol.lastErr + " at " + in.where(in.cur, in.curPos)})
	}
	// both feasible: fork
	alt := append(append([]int(nil), ps.trace...), 1)
	ps.forks = append(ps.forks, pendingFork{alt})
	ps.trace = append(ps.trace, 0)
	ps.arity = append(ps.arity, 2)
	in.eng.stats.forks.Add(1)
	in.assertPC(cond)
	return true
}

// choose returns a value in [0,n), exploring all of them.
func (in *Interp) choose(n int, what string) int {
	if n <= 1 {
		return 0
	}
	ps := in.ps
	if ps.initMode {
		panic(engineErr("choice during package initialisation"))
	}
	k := len(ps.trace)
	if k < len(ps.prefix) {
		d := ps.prefix[k]
		ps.trace = append(ps.trace, d)
		ps.arity = append(ps.arity, n)
		return d
	}
	if k >= in.eng.maxBranches {
		panic(pathEnd{"unwind", fmt.Sprintf("more than %d decisions on one path", in.eng.maxBranches)})
	}
	for d := 1; d < n; d++ {
		alt := append(append([]int(nil), ps.trace...), d)
		ps.forks = append(ps.forks, pendingFork{alt})
	}
	in.eng.stats.forks.Add(int64(n - 1))
	ps.trace = append(ps.trace, 0)
	ps.arity = append(ps.arity, n)
	return 0
}

func (in *Interp) assertPC(t *Term) {
	if t.isConst() {
		if t.val == 0 {
			panic(pathEnd{"infeasible", ""})
		}
		return
	}
	in.ps.pcSize++
	in.sol.Assert(t)
	in.learn(t)
}

// assume adds a constraint; ends the path when it is infeasible.
func (in *Interp) assume(t *Term) {
	if t.isConst() {
		if t.val == 0 {
			panic(pathEnd{"infeasible", "assume false"})
		}
		return
	}
	in.eng.stats.branchQueries.Add(1)
	r := in.sol.Check(t)
	in.sol.PopCheck()
	switch r {
	case "sat":
		in.assertPC(t)
	case "unsat":
		panic(pathEnd{"infeasible", "assume"})
	default:
		panic(pathEnd{"unknown", "assume feasibility: " + in.sol.lastErr})
	}
}

// concretize forks over the feasible values of t (64-bit) within [0,max].
func (in *Interp) concretize(t *Term, max int, what string) int {
	if t.isConst() {
		return int(t.signedVal())
	}
	for v := 0; v <= max; v++ {
		if in.decide(in.ctx.Eq(t, in.ctx.BV(t.sort.W, uint64(v)))) {
			return v
		}
	}
	in.ps.events = append(in.ps.events, "bound-cut: "+what+fmt.Sprintf(" > %d", max))
	in.eng.stats.cuts.Add(1)
	panic(pathEnd{"cut", what})
}

// ---- runtime panics ----

func (in *Interp) runtimePanic(msg string) {
	if in.cur != nil {
		msg += " [at " + in.where(in.cur, in.curPos) + "]"
	}
	// value of type runtime.errorString if available
	if t := in.eng.runtimeErrorString; t != nil {
		panic(targetPanic{v: iface{t, msg}, msg: "runtime error: " + msg})
	}
	panic(targetPanic{v: iface{types.Typ[types.String], "runtime error: " + msg}, msg: "runtime error: " + msg})
}

// check forks on a runtime check: if !ok is feasible a panic path is explored.
func (in *Interp) check(ok *Term, msg string) {
	if ok.isConst() {
		if ok.val == 0 {
			in.runtimePanic(msg)
		}
		return
	}
	if !in.decide(ok) {
		in.runtimePanic(msg)
	}
}

// ---- calls ----

func (in *Interp) call(caller *frame, pos token.Pos, fn value, args []value) value {
	switch f := fn.(type) {
	case *ssa.Function:
		if f == nil {
			in.runtimePanic("invalid memory address or nil pointer dereference (nil func)")
		}
		return in.callSSA(caller, pos, f, args, nil)
	case *closure:
		return in.callSSA(caller, pos, f.fn, args, f.env)
	case *ssa.Builtin:
		return in.callBuiltin(caller, pos, f, args)
	case *value:
		if f == nil {
			in.runtimePanic("invalid memory address or nil pointer dereference (nil func)")
		}
	}
	panic(engineErr("cannot call %T", fn))
}

func (in *Interp) callSSA(caller *frame, pos token.Pos, fn *ssa.Function, args []value, env []value) value {
	ps := in.ps
	if ov, ok := in.eng.overrides[fn]; ok && (caller == nil || caller.fn != ov) {
		// a replacement that calls the function it replaces gets the original (wrapper semantics)
		return in.callSSA(caller, pos, ov, args, nil)
	}
	ext, cached := in.intrCache[fn]
	if !cached {
		name := fn.String()
		if ex, ok := intrinsicTable[name]; ok {
			ext = ex
		} else {
			ext = genericIntrinsic(fn, name)
		}
		in.intrCache[fn] = ext
	}
	if ext != nil {
		fr := &frame{in: in, caller: caller, fn: fn, callpos: pos}
		if r := ext(fr, args); r != (notHandled{}) {
			return r
		}
	}
	if fn.Blocks == nil {
		panic(engineErr("no code for function: %s (called from %s)", fn.String(), in.where(caller, pos)))
	}
	if fn.TypeParams().Len() > 0 && len(fn.TypeArgs()) == 0 {
		panic(engineErr("uninstantiated generic function %s", fn))
	}
	ps.depth++
	if ps.depth > in.eng.maxDepth {
		panic(pathEnd{"unwind", fmt.Sprintf("call depth > %d at %s", in.eng.maxDepth, fn)})
	}
	if ps.funcsSeen != nil {
		ps.funcsSeen[fn]++
	}
	fi := in.info(fn)
	fr := &frame{in: in, caller: caller, fn: fn, info: fi, callpos: pos}
	fr.regs = make([]value, fi.nregs)
	fr.block = fn.Blocks[0]
	for _, l := range fn.Locals {
		cell := new(value)
		*cell = in.zero(deref(l.Type()))
		fr.regs[fi.reg[l]] = cell
	}
	for i, p := range fn.Params {
		fr.regs[fi.reg[p]] = args[i]
	}
	for i, fv := range fn.FreeVars {
		fr.regs[fi.reg[fv]] = env[i]
	}
	for fr.block != nil {
		in.runFrame(fr)
	}
	ps.depth--
	return fr.result
}

func deref(T types.Type) types.Type {
	if p, ok := T.Underlying().(*types.Pointer); ok {
		return p.Elem()
	}
	panic(engineErr("deref of non-pointer %v", T))
}

func (in *Interp) where(fr *frame, pos token.Pos) string {
	s := ""
	if pos != token.NoPos {
		s = in.prog.Fset.Position(pos).String()
	}
	for f := fr; f != nil && len(s) < 600; f = f.caller {
		s += " <- " + f.fn.String()
	}
	return s
}

func (in *Interp) runFrame(fr *frame) {
	defer func() {
		if fr.block == nil {
			return // normal return
		}
		r := recover()
		switch x := r.(type) {
		case pathEnd:
			fr.block = nil
			panic(r)
		case engineError:
			fr.block = nil
			if !strings.Contains(x.msg, "\n  at ") {
				x.msg += "\n  at " + in.where(fr, token.NoPos)
			}
			panic(x)
		case targetPanic:
		default:
			// Go runtime error inside the engine: wrap as engine error with location
			fr.block = nil
			if _, ok := r.(wrappedGoPanic); ok {
				panic(r)
			}
			panic(wrappedGoPanic{r, in.where(fr, token.NoPos), stackTrace()})
		}
		fr.panicking = true
		fr.panic = r
		in.ps.depth = fr.depthAtEntry()
		fr.runDefers()
		fr.block = fr.fn.Recover
		if fr.block == nil {
			// recovered, function without named results: return zero values
			fr.result = in.zeroResults(fr.fn)
		}
	}()
	for {
		blk := fr.block
		// phis (parallel assignment)
		n := 0
		var tmp []value
		for _, ins := range blk.Instrs {
			phi, ok := ins.(*ssa.Phi)
			if !ok {
				break
			}
			n++
			for i, pred := range blk.Preds {
				if pred == fr.prevBlock {
					tmp = append(tmp, fr.get(phi.Edges[i]))
					break
				}
			}
		}
		for i := 0; i < n; i++ {
			fr.set(blk.Instrs[i].(*ssa.Phi), tmp[i])
		}
		jumped := false
		for _, ins := range blk.Instrs[n:] {
			in.ps.steps++
			if in.ps.steps > in.eng.maxSteps {
				panic(pathEnd{"unwind", fmt.Sprintf("more than %d instructions on one path (in %s)", in.eng.maxSteps, fr.fn)})
			}
			in.cur = fr
			if p := ins.Pos(); p != token.NoPos {
				in.curPos = p
			}
			switch in.visit(fr, ins) {
			case kReturn:
				return
			case kJump:
				jumped = true
			}
			if jumped {
				break
			}
		}
	}
}

type wrappedGoPanic struct {
	r     interface{}
	where string
	stack string
}

func (fr *frame) depthAtEntry() int {
	d := 0
	for f := fr; f != nil; f = f.caller {
		if f.info != nil {
			d++
		}
	}
	return d
}

func (in *Interp) zeroResults(fn *ssa.Function) value {
	res := fn.Signature.Results()
	switch res.Len() {
	case 0:
		return nil
	case 1:
		return in.zero(res.At(0).Type())
	}
	t := make(tuple, res.Len())
	for i := range t {
		t[i] = in.zero(res.At(i).Type())
	}
	return t
}

func (fr *frame) runDefer(d *deferred) {
	var ok bool
	defer func() {
		if !ok {
			r := recover()
			switch r.(type) {
			case pathEnd, engineError, wrappedGoPanic:
				panic(r)
			case targetPanic:
				fr.panicking = true
				fr.panic = r
			default:
				panic(wrappedGoPanic{r, fr.in.where(fr, token.NoPos), stackTrace()})
			}
		}
	}()
	fr.in.call(fr, d.instr.Pos(), d.fn, d.args)
	ok = true
}

func (fr *frame) runDefers() {
	for d := fr.defers; d != nil; d = d.tail {
		fr.runDefer(d)
	}
	fr.defers = nil
	if fr.panicking {
		panic(fr.panic)
	}
}

// notHandled is returned by a conditional intrinsic that wants the real body interpreted instead.
type notHandled struct{}

type continuation int

const (
	kNext continuation = iota
	kReturn
	kJump
)

func (in *Interp) prepareCall(fr *frame, call *ssa.CallCommon) (fn value, args []value) {
	v := fr.get(call.Value)
	if call.Method == nil {
		fn = v
	} else {
		recv := v.(iface)
		if recv.t == nil {
			in.runtimePanic("invalid memory address or nil pointer dereference (method call on nil interface)")
		}
		if eo, ok := recv.v.(engMethods); ok {
			fn = engMethod{eo, call.Method.Name()}
		} else {
			f := in.prog.LookupMethod(recv.t, call.Method.Pkg(), call.Method.Name())
			if f == nil {
				panic(engineErr("method set of %v lacks %s", recv.t, call.Method))
			}
			fn = f
		}
		args = append(args, recv.v)
	}
	for _, a := range call.Args {
		args = append(args, fr.get(a))
	}
	return
}

type engMethods interface {
	callMethod(in *Interp, fr *frame, name string, args []value) value
}
type engMethod struct {
	obj  engMethods
	name string
}

func (in *Interp) doCall(fr *frame, pos token.Pos, fn value, args []value) value {
	if em, ok := fn.(engMethod); ok {
		return em.obj.callMethod(in, fr, em.name, args[1:])
	}
	return in.call(fr, pos, fn, args)
}

func (in *Interp) visit(fr *frame, instr ssa.Instruction) continuation {
	c := in.ctx
	switch ins := instr.(type) {
	case *ssa.DebugRef:
	case *ssa.UnOp:
		fr.set(ins, in.unop(fr, ins, fr.get(ins.X)))
	case *ssa.BinOp:
		fr.set(ins, in.binop(ins.Op, ins.X.Type(), ins.Y.Type(), fr.get(ins.X), fr.get(ins.Y)))
	case *ssa.Call:
		fn, args := in.prepareCall(fr, &ins.Call)
		fr.set(ins, in.doCall(fr, ins.Pos(), fn, args))
	case *ssa.ChangeInterface:
		fr.set(ins, fr.get(ins.X))
	case *ssa.ChangeType:
		fr.set(ins, fr.get(ins.X))
	case *ssa.Convert:
		fr.set(ins, in.conv(ins.Type(), ins.X.Type(), fr.get(ins.X)))
	case *ssa.MultiConvert:
		fr.set(ins, in.conv(ins.Type(), ins.X.Type(), fr.get(ins.X)))
	case *ssa.SliceToArrayPointer:
		s := fr.get(ins.X).(SliceV)
		n := deref(ins.Type()).Underlying().(*types.Array).Len()
		in.check(c.Ule(c.I64(n), s.len), "cannot convert slice to array pointer: length too short")
		if s.back == nil {
			fr.set(ins, (*value)(nil))
			break
		}
		off := in.concretize(s.off, len(s.back), "slice offset")
		var cell value = array(s.back[off : off+int(n) : off+int(n)])
		fr.set(ins, &cell)
	case *ssa.MakeInterface:
		fr.set(ins, iface{t: ins.X.Type(), v: copyVal(fr.get(ins.X))})
	case *ssa.Extract:
		fr.set(ins, fr.get(ins.Tuple).(tuple)[ins.Index])
	case *ssa.Slice:
		fr.set(ins, in.sliceOp(ins, fr.get(ins.X), fr.get(ins.Low), fr.get(ins.High), fr.get(ins.Max)))
	case *ssa.Return:
		switch len(ins.Results) {
		case 0:
		case 1:
			fr.result = fr.get(ins.Results[0])
		default:
			res := make(tuple, len(ins.Results))
			for i, r := range ins.Results {
				res[i] = fr.get(r)
			}
			fr.result = res
		}
		fr.block = nil
		return kReturn
	case *ssa.RunDefers:
		fr.runDefers()
	case *ssa.Panic:
		v := fr.get(ins.X)
		panic(targetPanic{v: v, msg: in.panicString(v)})
	case *ssa.Send:
		ch := fr.get(ins.Chan).(*ChanV)
		if ch == nil {
			panic(engineErr("send on nil channel"))
		}
		if len(ch.buf) >= ch.cap {
			panic(engineErr("concurrency: send would block at %s", in.where(fr, ins.Pos())))
		}
		ch.buf = append(ch.buf, copyVal(fr.get(ins.X)))
	case *ssa.Store:
		if g, ok := ins.Addr.(*ssa.Global); ok && in.ps.storedGlobals != nil {
			in.ps.storedGlobals[g] = true
		}
		in.storeTo(fr.get(ins.Addr), fr.get(ins.Val))
	case *ssa.If:
		cond := fr.get(ins.Cond).(*Term)
		succ := 1
		if cond.isConst() {
			if cond.val == 1 {
				succ = 0
			}
		} else if in.decide(cond) {
			succ = 0
		}
		fr.prevBlock, fr.block = fr.block, fr.block.Succs[succ]
		return kJump
	case *ssa.Jump:
		fr.prevBlock, fr.block = fr.block, fr.block.Succs[0]
		return kJump
	case *ssa.Defer:
		fn, args := in.prepareCall(fr, &ins.Call)
		if ins.DeferStack != nil {
			panic(engineErr("defer stack (range-over-func) unsupported"))
		}
		fr.defers = &deferred{fn: fn, args: args, instr: ins, tail: fr.defers}
	case *ssa.Go:
		if in.eng.ignoreGo {
			in.ps.events = append(in.ps.events, "go statement skipped at "+in.prog.Fset.Position(ins.Pos()).String())
			break
		}
		panic(engineErr("concurrency: go statement at %s", in.where(fr, ins.Pos())))
	case *ssa.MakeChan:
		n := in.concretize(in.to64(fr.get(ins.Size), ins.Size.Type()), 1<<20, "chan size")
		fr.set(ins, &ChanV{cap: n})
	case *ssa.Alloc:
		cell := new(value)
		*cell = in.zero(deref(ins.Type()))
		if ins.Heap {
			fr.set(ins, cell)
		} else {
			// local: re-zero existing cell
			old := fr.get(ins).(*value)
			*old = *cell
		}
	case *ssa.MakeSlice:
		fr.set(ins, in.makeSlice(ins.Type().Underlying().(*types.Slice).Elem(), in.to64(fr.get(ins.Len), ins.Len.Type()), in.to64(fr.get(ins.Cap), ins.Cap.Type())))
	case *ssa.MakeMap:
		fr.set(ins, &MapV{keyT: ins.Type().Underlying().(*types.Map).Key(), index: map[string]int{}})
	case *ssa.Range:
		fr.set(ins, in.rangeIter(fr.get(ins.X), ins.X.Type()))
	case *ssa.Next:
		fr.set(ins, in.iterNext(fr.get(ins.Iter), ins))
	case *ssa.FieldAddr:
		if in.ps.guardOn {
			in.checkGuard(fr, ins)
		}
		fr.set(ins, in.fieldAddr(fr.get(ins.X), ins.Field))
	case *ssa.Field:
		fr.set(ins, fr.get(ins.X).(structure)[ins.Field])
	case *ssa.IndexAddr:
		fr.set(ins, in.indexAddr(fr.get(ins.X), in.to64(fr.get(ins.Index), ins.Index.Type())))
	case *ssa.Index:
		x := fr.get(ins.X)
		idx := in.to64(fr.get(ins.Index), ins.Index.Type())
		switch x := x.(type) {
		case array:
			in.check(c.Ult(idx, c.I64(int64(len(x)))), "index out of range")
			fr.set(ins, in.loadIndexed([]value(x), idx, nil))
		case string, SymStr:
			b := in.strBytes(x)
			in.check(c.Ult(idx, c.I64(int64(len(b)))), "index out of range")
			if idx.isConst() {
				fr.set(ins, b[idx.val])
			} else {
				var r *Term = b[0]
				for k := 1; k < len(b); k++ {
					r = c.Ite(c.Eq(idx, c.I64(int64(k))), b[k], r)
				}
				fr.set(ins, r)
			}
		default:
			panic(engineErr("Index on %T", x))
		}
	case *ssa.Lookup:
		fr.set(ins, in.lookup(ins, fr.get(ins.X), fr.get(ins.Index)))
	case *ssa.MapUpdate:
		m := fr.get(ins.Map).(*MapV)
		if m == nil {
			in.runtimePanic("assignment to entry in nil map")
		}
		in.mapInsert(m, fr.get(ins.Key), copyVal(fr.get(ins.Value)))
	case *ssa.TypeAssert:
		fr.set(ins, in.typeAssert(ins, fr.get(ins.X).(iface)))
	case *ssa.MakeClosure:
		var env []value
		for _, b := range ins.Bindings {
			env = append(env, fr.get(b))
		}
		fr.set(ins, &closure{ins.Fn.(*ssa.Function), env})
	case *ssa.Select:
		// only non-blocking select with default / ready buffered channels
		for i, st := range ins.States {
			ch := fr.get(st.Chan).(*ChanV)
			if st.Dir == types.RecvOnly && ch != nil && len(ch.buf) > 0 {
				v := ch.buf[0]
				ch.buf = ch.buf[1:]
				r := tuple{c.I64(int64(i)), c.tt}
				for j, st2 := range ins.States {
					if st2.Dir == types.RecvOnly {
						if j == i {
							r = append(r, v)
						} else {
							r = append(r, in.zero(st2.Chan.Type().Underlying().(*types.Chan).Elem()))
						}
					}
				}
				fr.set(ins, r)
				return kNext
			}
			if st.Dir == types.SendOnly && ch != nil && len(ch.buf) < ch.cap {
				ch.buf = append(ch.buf, copyVal(fr.get(st.Send)))
				r := tuple{c.I64(int64(i)), c.ff}
				for _, st2 := range ins.States {
					if st2.Dir == types.RecvOnly {
						r = append(r, in.zero(st2.Chan.Type().Underlying().(*types.Chan).Elem()))
					}
				}
				fr.set(ins, r)
				return kNext
			}
		}
		if ins.Blocking {
			panic(engineErr("concurrency: blocking select at %s", in.where(fr, ins.Pos())))
		}
		r := tuple{c.I64(-1), c.ff}
		for _, st2 := range ins.States {
			if st2.Dir == types.RecvOnly {
				r = append(r, in.zero(st2.Chan.Type().Underlying().(*types.Chan).Elem()))
			}
		}
		fr.set(ins, r)
	default:
		panic(engineErr("unsupported instruction %T: %v", instr, instr))
	}
	return kNext
}

func (in *Interp) panicString(v value) string {
	switch x := v.(type) {
	case iface:
		if x.t == nil {
			return "panic(nil)"
		}
		if s, ok := concreteString(x.v); ok {
			return s
		}
		// error values: try field 0 string of *errors.errorString
		if p, ok := x.v.(*value); ok && p != nil {
			if st, ok := (*p).(structure); ok && len(st) > 0 {
				if s, ok := concreteString(st[0]); ok {
					return x.t.String() + ": " + s
				}
			}
		}
		return "panic of type " + x.t.String()
	}
	return fmt.Sprintf("panic(%T)", v)
}

// to64 widens an integer value of type T to a 64-bit term.
func (in *Interp) to64(v value, T types.Type) *Term {
	if v == nil {
		return nil
	}
	t := v.(*Term)
	if t.sort.W == 64 {
		return t
	}
	_, signed, _ := intInfo(T)
	if signed {
		return in.ctx.Sext(64, t)
	}
	return in.ctx.Zext(64, t)
}

// ---- memory ----

func (in *Interp) load(addr value) value {
	switch p := addr.(type) {
	case *value:
		if p == nil {
			in.runtimePanic("invalid memory address or nil pointer dereference")
		}
		return copyVal(*p)
	case SymPtr:
		v := in.loadIndexed(p.arr, p.idx, p.path)
		return copyVal(v)
	}
	panic(engineErr("load from %T", addr))
}

func getPath(v value, path []int) value {
	for _, i := range path {
		switch x := v.(type) {
		case structure:
			v = x[i]
		case array:
			v = x[i]
		default:
			panic(engineErr("getPath into %T", v))
		}
	}
	return v
}

func cellPath(cell *value, path []int) *value {
	for _, i := range path {
		switch x := (*cell).(type) {
		case structure:
			cell = &x[i]
		case array:
			cell = &x[i]
		default:
			panic(engineErr("cellPath into %T", *cell))
		}
	}
	return cell
}

// loadIndexed reads arr[idx].path with idx possibly symbolic (already bounds-checked).
func (in *Interp) loadIndexed(arr []value, idx *Term, path []int) value {
	if idx.isConst() {
		if idx.val >= uint64(len(arr)) {
			panic(engineErr("loadIndexed: index %d beyond backing array %d (bound too small?)", idx.val, len(arr)))
		}
		return getPath(arr[idx.val], path)
	}
	lo, hi := in.idxRange(idx, len(arr))
	if lo > hi {
		panic(pathEnd{"infeasible", "empty index range"})
	}
	r := getPath(arr[hi], path)
	for k := hi - 1; k >= lo; k-- {
		r = in.merge(in.ctx.Eq(idx, in.ctx.I64(int64(k))), getPath(arr[k], path), r)
	}
	return r
}

// idxRange returns a conservative range for idx within [0,n-1].
func (in *Interp) idxRange(idx *Term, n int) (int, int) {
	lo, hi := 0, n-1
	iv := in.rangeOf(idx)
	if iv.lo > uint64(lo) {
		if iv.lo > uint64(hi) {
			return 1, 0
		}
		lo = int(iv.lo)
	}
	if iv.hi < uint64(hi) {
		hi = int(iv.hi)
	}
	return lo, hi
}

func (in *Interp) storeTo(addr value, v value) {
	switch p := addr.(type) {
	case *value:
		if p == nil {
			in.runtimePanic("invalid memory address or nil pointer dereference")
		}
		store(p, v)
		return
	case SymPtr:
		if p.idx.isConst() {
			store(cellPath(&p.arr[p.idx.val], p.path), v)
			return
		}
		lo, hi := in.idxRange(p.idx, len(p.arr))
		for k := lo; k <= hi; k++ {
			cell := cellPath(&p.arr[k], p.path)
			store(cell, in.merge(in.ctx.Eq(p.idx, in.ctx.I64(int64(k))), v, *cell))
		}
		return
	}
	panic(engineErr("store to %T", addr))
}

func (in *Interp) fieldAddr(x value, field int) value {
	switch p := x.(type) {
	case *value:
		if p == nil {
			in.runtimePanic("invalid memory address or nil pointer dereference")
		}
		st, ok := (*p).(structure)
		if !ok {
			panic(engineErr("FieldAddr on non-struct cell %T", *p))
		}
		return &st[field]
	case SymPtr:
		return SymPtr{p.arr, p.idx, append(append([]int(nil), p.path...), field)}
	}
	panic(engineErr("FieldAddr on %T", x))
}

func (in *Interp) indexAddr(x value, idx *Term) value {
	c := in.ctx
	switch p := x.(type) {
	case SliceV:
		in.check(c.Ult(idx, p.len), "index out of range")
		abs := c.Add(p.off, idx)
		if abs.isConst() {
			if abs.val >= uint64(len(p.back)) {
				panic(engineErr("indexAddr: index %d beyond backing array %d (allocation bound too small)", abs.val, len(p.back)))
			}
			return &p.back[abs.val]
		}
		return SymPtr{arr: p.back, idx: abs}
	case *value:
		if p == nil {
			in.runtimePanic("invalid memory address or nil pointer dereference")
		}
		a, ok := (*p).(array)
		if !ok {
			panic(engineErr("IndexAddr on non-array cell %T", *p))
		}
		in.check(c.Ult(idx, c.I64(int64(len(a)))), "index out of range")
		if idx.isConst() {
			return &a[idx.val]
		}
		return SymPtr{arr: []value(a), idx: idx}
	case SymPtr:
		// pointer to array inside symbolic-indexed element
		if !idx.isConst() {
			panic(engineErr("nested symbolic index"))
		}
		return SymPtr{p.arr, p.idx, append(append([]int(nil), p.path...), int(idx.val))}
	}
	panic(engineErr("IndexAddr on %T", x))
}

func (in *Interp) elemSize(T types.Type) int64 {
	defer func() { recover() }()
	return in.sizes.Sizeof(T)
}

func (in *Interp) makeSlice(elem types.Type, ln, cp *Term) value {
	c := in.ctx
	es := in.elemSize(elem)
	maxElems := int64(1) << 47
	if es > 1 {
		maxElems = (int64(1) << 47) / es
	}
	// runtime checks: 0 <= len <= cap <= maxElems
	in.check(c.Ule(cp, c.I64(maxElems)), "makeslice: cap out of range")
	in.check(c.Ule(ln, cp), "makeslice: len out of range")
	n := 0
	if cp.isConst() && ln.isConst() && cp.val > 65536 && ln.val <= 4096 {
		// capacity hint far above the length (e.g. make([]byte, 0, 4MiB)): model a smaller capacity.
		// Only cap() observations differ; append re-allocates earlier than the real runtime would.
		cp = c.I64(4096)
	}
	if cp.isConst() {
		n = int(cp.val)
		if n > in.eng.maxConcreteAlloc {
			in.ps.events = append(in.ps.events, fmt.Sprintf("bound-cut: concrete allocation of %d elements", n))
			in.eng.stats.cuts.Add(1)
			panic(pathEnd{"cut", "huge concrete allocation"})
		}
	} else {
		n = in.eng.maxAlloc
		bound := c.Ule(cp, c.I64(int64(n)))
		if !in.decide(bound) {
			in.ps.events = append(in.ps.events, fmt.Sprintf("bound-cut: make with symbolic size > MaxAlloc=%d", n))
			in.eng.stats.cuts.Add(1)
			panic(pathEnd{"cut", "symbolic allocation beyond MaxAlloc"})
		}
	}
	back := make([]value, n)
	if _, ok := elem.Underlying().(*types.Basic); ok {
		z := in.zero(elem)
		for i := range back {
			back[i] = z
		}
	} else {
		for i := range back {
			back[i] = in.zero(elem)
		}
	}
	return SliceV{back: back, off: c.zero64, len: ln, cap: cp, nonnil: true}
}

func (in *Interp) sliceOp(ins *ssa.Slice, x, lo, hi, max value) value {
	c := in.ctx
	var low, high, mx *Term
	if lo != nil {
		low = in.to64(lo, ins.Low.Type())
	} else {
		low = c.zero64
	}
	if hi != nil {
		high = in.to64(hi, ins.High.Type())
	}
	if max != nil {
		mx = in.to64(max, ins.Max.Type())
	}
	switch s := x.(type) {
	case string, SymStr:
		b := in.strBytes(s)
		n := c.I64(int64(len(b)))
		if high == nil {
			high = n
		}
		in.check(c.Ule(high, n), "slice bounds out of range")
		in.check(c.Ule(low, high), "slice bounds out of range")
		l := in.concretize(low, len(b), "string slice low")
		h := in.concretize(high, len(b), "string slice high")
		return in.mkString(b[l:h])
	case SliceV:
		if high == nil {
			high = s.len
		}
		if mx == nil {
			mx = s.cap
		}
		in.check(c.Ule(mx, s.cap), "slice bounds out of range")
		in.check(c.Ule(high, mx), "slice bounds out of range")
		in.check(c.Ule(low, high), "slice bounds out of range")
		if s.back == nil && !s.nonnil {
			return s
		}
		return SliceV{back: s.back, off: c.Add(s.off, low), len: c.Sub(high, low), cap: c.Sub(mx, low), nonnil: true}
	case *value:
		if s == nil {
			in.runtimePanic("invalid memory address or nil pointer dereference")
		}
		a := (*s).(array)
		n := c.I64(int64(len(a)))
		if high == nil {
			high = n
		}
		if mx == nil {
			mx = n
		}
		in.check(c.Ule(mx, n), "slice bounds out of range")
		in.check(c.Ule(high, mx), "slice bounds out of range")
		in.check(c.Ule(low, high), "slice bounds out of range")
		return SliceV{back: []value(a), off: low, len: c.Sub(high, low), cap: c.Sub(mx, low), nonnil: true}
	}
	panic(engineErr("slice of %T", x))
}

// sliceMax returns a concrete upper bound on the length of s.
func (in *Interp) sliceMax(s SliceV) int {
	if s.len.isConst() {
		return int(s.len.val)
	}
	if s.back == nil {
		return 0
	}
	m := len(s.back)
	if s.off.isConst() {
		m = len(s.back) - int(s.off.val)
	} else if lo := in.rangeOf(s.off).lo; lo < uint64(m) {
		m -= int(lo)
	}
	if hi := in.rangeOf(s.len).hi; hi < uint64(m) {
		m = int(hi)
	}
	return m
}

// sliceElem reads s[i] for concrete i with guard that i < len (caller's duty).
func (in *Interp) sliceGet(s SliceV, i int) value {
	if s.off.isConst() {
		return s.back[int(s.off.val)+i]
	}
	return in.loadIndexed(s.back, in.ctx.Add(s.off, in.ctx.I64(int64(i))), nil)
}

func (in *Interp) sliceSet(s SliceV, i int, v value, guard *Term) {
	c := in.ctx
	if s.off.isConst() {
		cell := &s.back[int(s.off.val)+i]
		if guard == nil || guard.isTrue() {
			store(cell, v)
		} else {
			store(cell, in.merge(guard, v, *cell))
		}
		return
	}
	idx := c.Add(s.off, c.I64(int64(i)))
	in.symStore(s.back, idx, v, guard)
}

func (in *Interp) symStore(arr []value, idx *Term, v value, guard *Term) {
	c := in.ctx
	if idx.isConst() {
		if idx.val >= uint64(len(arr)) {
			if guard != nil && !guard.isTrue() {
				return // guarded write outside the modelled window: guard must be false there
			}
			panic(engineErr("symStore: index beyond backing array"))
		}
		cell := &arr[idx.val]
		if guard == nil || guard.isTrue() {
			store(cell, v)
		} else {
			store(cell, in.merge(guard, v, *cell))
		}
		return
	}
	lo, hi := in.idxRange(idx, len(arr))
	for k := lo; k <= hi; k++ {
		cond := c.Eq(idx, c.I64(int64(k)))
		if guard != nil {
			cond = c.And(guard, cond)
		}
		store(&arr[k], in.merge(cond, v, arr[k]))
	}
}

// ---- type assertions ----

func (in *Interp) implements(t types.Type, it *types.Interface) bool {
	return types.Implements(t, it) || func() bool {
		m, _ := types.MissingMethod(t, it, true)
		return m == nil
	}()
}

func (in *Interp) typeAssert(ins *ssa.TypeAssert, x iface) value {
	var ok bool
	var v value
	if it, isI := ins.AssertedType.Underlying().(*types.Interface); isI {
		if x.t != nil && in.implements(x.t, it) {
			ok = true
			v = x
		}
	} else if x.t != nil && types.Identical(x.t, ins.AssertedType) {
		ok = true
		v = copyVal(x.v)
	}
	if ins.CommaOk {
		if !ok {
			v = in.zero(ins.AssertedType)
		}
		return tuple{v, in.ctx.Bool(ok)}
	}
	if !ok {
		ts := "nil"
		if x.t != nil {
			ts = x.t.String()
		}
		in.runtimePanic(fmt.Sprintf("interface conversion: interface is %s, not %s", ts, ins.AssertedType))
	}
	return v
}

// ---- helpers for building Go values from the engine ----

func (in *Interp) mkBytes(b []*Term) SliceV {
	back := make([]value, len(b))
	for i, t := range b {
		back[i] = t
	}
	n := in.ctx.I64(int64(len(b)))
	return SliceV{back: back, off: in.ctx.zero64, len: n, cap: n, nonnil: true}
}

func (in *Interp) mkConcreteBytes(b []byte) SliceV {
	back := make([]value, len(b))
	for i, x := range b {
		back[i] = in.ctx.byteConsts[x]
	}
	n := in.ctx.I64(int64(len(b)))
	return SliceV{back: back, off: in.ctx.zero64, len: n, cap: n, nonnil: true}
}

// sliceTerms returns the byte terms of a []byte with concrete length (concretizing the length by forking if needed).
func (in *Interp) sliceTerms(s SliceV) []*Term {
	n := in.concretize(s.len, in.sliceMax(s), "byte slice length")
	r := make([]*Term, n)
	for i := 0; i < n; i++ {
		r[i] = in.sliceGet(s, i).(*Term)
	}
	return r
}

// concreteBytes returns the bytes if the slice is fully concrete.
func (in *Interp) concreteBytes(s SliceV) ([]byte, bool) {
	if !s.len.isConst() || !s.off.isConst() {
		return nil, false
	}
	n := int(s.len.val)
	o := int(s.off.val)
	r := make([]byte, n)
	for i := 0; i < n; i++ {
		t, ok := s.back[o+i].(*Term)
		if !ok || !t.isConst() {
			return nil, false
		}
		r[i] = byte(t.val)
	}
	return r, true
}

func bigFromTerm(t *Term) *big.Int { return constBig(t) }

func shortFn(fn *ssa.Function) string {
	s := fn.String()
	s = strings.ReplaceAll(s, "github.com/polynetwork/poly/", "")
	return s
}
