package main

import (
	"bufio"
	"encoding/json"
	"flag"
	"fmt"
	"os"
	"os/exec"
	"path/filepath"
	"runtime"
	"sort"
	"strconv"
	"strings"
	"time"

	"golang.org/x/tools/go/ssa"
)

type HarnessSpec struct {
	Func       string         `json:"func"`
	Expect     string         `json:"expect"` // pass (default) | violation (witness twin)
	Tiers      []string       `json:"tiers"`  // default both
	Quick      map[string]int `json:"quick"`
	Thorough   map[string]int `json:"thorough"`
	Covers     []string       `json:"covers"` // mandatory cover labels
	MaxAlloc   int            `json:"max_alloc"`
	MaxSteps   int            `json:"max_steps"`
	MaxBranch  int            `json:"max_branches"`
	MaxPaths   int            `json:"max_paths"`
	MapOrders  bool           `json:"all_map_orders"`
	IgnoreGo   bool           `json:"ignore_go"`
	CollFree   []string       `json:"collision_free"`
	Note       string         `json:"note"`
	AllowCuts  bool           `json:"allow_cuts"`
	NoReplay   bool           `json:"no_replay"`
	TimeoutSec int            `json:"timeout_s"`
	ForbidEv   []string       `json:"forbid_events"` // a path recording an event containing one of these substrings is a violation
	Logic      string         `json:"logic"`         // e.g. QF_UFBV: lets z3 pick its bit-vector tactics (only for harnesses without Int terms)
}

type Spec struct {
	Property  string            `json:"property"`
	Package   string            `json:"package"`
	Dir       string            `json:"dir"`
	Files     []string          `json:"files"`
	ExtraPkgs []string          `json:"extra_packages"`
	Overrides map[string]string `json:"overrides"`
	Harnesses []HarnessSpec     `json:"harnesses"`
	Assumes   []string          `json:"assumptions"`
	Functions []string          `json:"functions_under_test"`
	Outside   []string          `json:"outside_claim"`
	TimeoutMs int               `json:"query_timeout_ms"`
	Level     string            `json:"level"`
	Guarded   []GuardSpec       `json:"guarded"`    // lock-discipline monitor, see guards.go
	MaskTests []string          `json:"mask_tests"` // additional dirs whose _test.go files get masked in replay
}

type KnownFinding struct {
	Status   string `json:"status"` // known | fixed
	Property string `json:"property"`
	Harness  string `json:"harness"`
	Match    string `json:"match"` // substring of "msg @ where"
	What     string `json:"what"`
	Commit   string `json:"commit,omitempty"`
}

// loadKnown parses /verif/known_findings.txt. Line formats:
//
//	known: property=C16 harness=ZZ_x match="substring of msg @ where" :: what fails
//	fixed: property=C02 <commit> <what failed>          (informational; suppresses nothing)
func loadKnown(path string) []KnownFinding {
	var out []KnownFinding
	f, err := os.Open(path)
	if err != nil {
		return nil
	}
	defer f.Close()
	sc := bufio.NewScanner(f)
	sc.Buffer(make([]byte, 1<<20), 1<<20)
	for sc.Scan() {
		line := strings.TrimSpace(sc.Text())
		if !strings.HasPrefix(line, "known:") {
			continue
		}
		rest := strings.TrimSpace(strings.TrimPrefix(line, "known:"))
		what := ""
		if i := strings.Index(rest, "::"); i >= 0 {
			what = strings.TrimSpace(rest[i+2:])
			rest = rest[:i]
		}
		k := KnownFinding{Status: "known", What: what}
		if i := strings.Index(rest, "match=\""); i >= 0 {
			m := rest[i+7:]
			if j := strings.Index(m, "\""); j >= 0 {
				k.Match = m[:j]
				rest = rest[:i] + m[j+1:]
			}
		}
		for _, f := range strings.Fields(rest) {
			if strings.HasPrefix(f, "property=") {
				k.Property = strings.TrimPrefix(f, "property=")
			}
			if strings.HasPrefix(f, "harness=") {
				k.Harness = strings.TrimPrefix(f, "harness=")
			}
		}
		if k.Property != "" && k.Match != "" {
			out = append(out, k)
		}
	}
	return out
}

var verifDir = "/verif"
var repoDir = "/repo"

func main() {
	if len(os.Args) < 2 {
		fmt.Fprintln(os.Stderr, "usage: gosym run|replay ...")
		os.Exit(2)
	}
	if v := os.Getenv("VERIF_DIR"); v != "" {
		verifDir = v
	}
	if v := os.Getenv("REPO_DIR"); v != "" {
		repoDir = v
	}
	switch os.Args[1] {
	case "run":
		os.Exit(cmdRun(os.Args[2:]))
	case "replay":
		os.Exit(cmdReplay(os.Args[2:]))
	case "thresholds":
		os.Exit(cmdThresholds(os.Args[2:]))
	}
	fmt.Fprintln(os.Stderr, "unknown command")
	os.Exit(2)
}

func buildOverlay(spec *Spec, specDir string) (map[string][]byte, error) {
	ov := map[string][]byte{}
	b, err := os.ReadFile(filepath.Join(verifDir, "zzsym", "sym.go"))
	if err != nil {
		return nil, err
	}
	ov[filepath.Join(repoDir, "zzsym", "sym.go")] = b
	for _, f := range spec.Files {
		b, err := os.ReadFile(filepath.Join(specDir, f))
		if err != nil {
			return nil, err
		}
		ov[filepath.Join(repoDir, spec.Dir, filepath.Base(f))] = b
	}
	return ov, nil
}

type hrun struct {
	spec HarnessSpec
	res  *HarnessResult
	ok   bool
	why  string
	pkg  string
}

type runCtx struct {
	tier                        string
	only                        string
	workers                     int
	noReplay                    bool
	verbose                     bool
	runs                        []*hrun
	exit                        int
	nViol                       int
	replayFiles                 []string
	nativeRuns                  int
	knownLines                  []string
	assumes                     []string
	outside                     []string
	loadS                       float64
	timeoutMs                   int
	crossEvery                  int
	cross, crossAgree, crossInc int
	solver                      string
	property                    string
}

type multiFlag []string

func (m *multiFlag) String() string     { return strings.Join(*m, ",") }
func (m *multiFlag) Set(v string) error { *m = append(*m, v); return nil }

func cmdRun(args []string) int {
	fs := flag.NewFlagSet("run", flag.ExitOnError)
	var specPaths multiFlag
	fs.Var(&specPaths, "spec", "spec.json (repeatable)")
	tier := fs.String("tier", "quick", "quick|thorough")
	only := fs.String("only", "", "run only harnesses whose name contains this")
	workers := fs.Int("workers", 0, "worker count (default: NumCPU)")
	evPath := fs.String("evidence", "", "evidence output")
	noReplay := fs.Bool("no-replay", false, "skip native replay")
	verbose := fs.Bool("v", false, "verbose")
	fs.Parse(args)
	if t := os.Getenv("VERIF_TIER"); t != "" && !flagSet(fs, "tier") {
		*tier = t
	}
	seed := 1
	if s := os.Getenv("VERIF_SEED"); s != "" {
		seed, _ = strconv.Atoi(s)
	}
	if *workers == 0 {
		*workers = runtime.NumCPU()
	}
	t0 := time.Now()
	rc := &runCtx{tier: *tier, only: *only, workers: *workers, noReplay: *noReplay, verbose: *verbose}
	for _, sp := range specPaths {
		if code := rc.runSpec(sp, *evPath); code == 2 && rc.exit == 0 {
			rc.exit = 2
		}
	}
	if rc.property == "" {
		fmt.Fprintln(os.Stderr, "no spec")
		return 2
	}
	if *evPath == "" {
		*evPath = filepath.Join(verifDir, "evidence", rc.property+".json")
	}
	rc.writeEvidence(*evPath, seed, t0)
	return rc.exit
}

func (rc *runCtx) fail(hr *hrun, code int, why string) {
	if hr != nil {
		hr.ok = false
		hr.why = why
		fmt.Printf("CHECK-PROBLEM property=%s harness=%s: %s\n", rc.property, hr.spec.Func, why)
	} else {
		fmt.Printf("CHECK-PROBLEM property=%s: %s\n", rc.property, why)
	}
	if rc.exit != 1 {
		rc.exit = code
	}
}

func (rc *runCtx) runSpec(specPath string, evPath string) int {
	t0 := time.Now()
	sb, err := os.ReadFile(specPath)
	if err != nil {
		fmt.Fprintln(os.Stderr, err)
		return 2
	}
	var spec Spec
	if err := json.Unmarshal(sb, &spec); err != nil {
		fmt.Fprintln(os.Stderr, "spec:", err)
		return 2
	}
	if rc.property == "" {
		rc.property = spec.Property
		if evPath == "" {
			os.Remove(filepath.Join(verifDir, "evidence", spec.Property+".json"))
		}
	}
	rc.assumes = appendUniq(rc.assumes, spec.Assumes...)
	rc.outside = appendUniq(rc.outside, spec.Outside...)
	specDir, _ := filepath.Abs(filepath.Dir(specPath))
	// anything to run in this tier?
	any := false
	for _, hs := range spec.Harnesses {
		if rc.only != "" && !strings.Contains(hs.Func, rc.only) {
			continue
		}
		if len(hs.Tiers) > 0 && !contains(hs.Tiers, rc.tier) {
			continue
		}
		any = true
	}
	if !any {
		return 0
	}
	overlay, err := buildOverlay(&spec, specDir)
	if err != nil {
		fmt.Fprintln(os.Stderr, err)
		return 2
	}
	patterns := append([]string{spec.Package}, spec.ExtraPkgs...)
	eng, err := Load(repoDir, overlay, patterns)
	if err != nil {
		fmt.Fprintln(os.Stderr, "load:", err)
		rc.fail(nil, 2, "load failed for "+spec.Package+": "+err.Error())
		return 2
	}
	if spec.TimeoutMs > 0 {
		eng.queryTimeoutMs = spec.TimeoutMs
	} else if rc.tier == "thorough" {
		eng.queryTimeoutMs = 120000
	}
	rc.timeoutMs = eng.queryTimeoutMs
	// cross-solver diffing: every N-th decided query is re-decided by z3 5.1.0 (z3-new) as a flat script
	eng.crossEvery = 400
	if rc.tier == "thorough" {
		eng.crossEvery = 100
	}
	if v := os.Getenv("GOSYM_CROSS"); v != "" {
		eng.crossEvery, _ = strconv.Atoi(v)
	}
	if _, err := exec.LookPath("z3-new"); err != nil {
		eng.crossEvery = 0
	}
	rc.crossEvery = eng.crossEvery
	rc.solver = eng.solverKind
	rc.loadS += time.Since(t0).Seconds()
	eng.InitShared()
	idx := eng.funcIndex()
	for callee, repl := range spec.Overrides {
		cf := idx[callee]
		rf := idx[repl]
		if rf == nil {
			rf = idx[spec.Package+"."+repl]
		}
		if cf == nil || rf == nil {
			rc.fail(nil, 2, fmt.Sprintf("override %s -> %s: function not found (callee %v, replacement %v)", callee, repl, cf != nil, rf != nil))
			return 2
		}
		eng.overrides[cf] = rf
	}
	if err := eng.resolveGuards(spec.Guarded); err != nil {
		rc.fail(nil, 2, err.Error())
		return 2
	}
	hpkg := eng.prog.ImportedPackage(spec.Package)
	if hpkg == nil {
		rc.fail(nil, 2, "harness package not found: "+spec.Package)
		return 2
	}
	known := loadKnown(filepath.Join(verifDir, "known_findings.txt"))
	for _, hs := range spec.Harnesses {
		if rc.only != "" && !strings.Contains(hs.Func, rc.only) {
			continue
		}
		if len(hs.Tiers) > 0 && !contains(hs.Tiers, rc.tier) {
			continue
		}
		fn := hpkg.Func(hs.Func)
		if fn == nil {
			rc.fail(nil, 2, fmt.Sprintf("harness %s not found in %s", hs.Func, spec.Package))
			continue
		}
		eng.params = map[string]int{}
		for k, v := range hs.Quick {
			eng.params[k] = v
		}
		if rc.tier == "thorough" {
			for k, v := range hs.Thorough {
				eng.params[k] = v
			}
		}
		eng.maxAlloc = pick(hs.MaxAlloc, 64)
		if v, ok := eng.params["max_alloc"]; ok {
			eng.maxAlloc = v
		}
		eng.maxSteps = pick(hs.MaxSteps, 3000000)
		eng.maxBranches = pick(hs.MaxBranch, 600)
		eng.logic = hs.Logic
		eng.forbidEvents = hs.ForbidEv
		eng.allMapOrders = hs.MapOrders
		eng.ignoreGo = hs.IgnoreGo
		eng.collisionFree = map[string]bool{}
		for _, k := range hs.CollFree {
			eng.collisionFree[k] = true
		}
		maxPaths := pick(hs.MaxPaths, 200000)
		var deadline time.Time
		if hs.TimeoutSec > 0 {
			deadline = time.Now().Add(time.Duration(hs.TimeoutSec) * time.Second)
		}
		res := eng.RunHarness(fn, rc.workers, maxPaths, deadline)
		hr := &hrun{spec: hs, res: res, ok: true, pkg: spec.Package}
		rc.runs = append(rc.runs, hr)
		if rc.verbose {
			fmt.Fprintf(os.Stderr, "%s: paths=%d ends=%v decisions=%d obligations=%d violations=%d covers=%v events=%v wall=%v solver=%v queries=%d\n",
				hs.Func, res.Paths, res.PathEnds, res.Decisions, res.Obligations, len(res.Violations), res.Covers, res.Events, res.Wall.Round(time.Millisecond), res.SolverTime.Round(time.Millisecond), res.Queries)
		}
		rc.cross += res.Cross
		rc.crossAgree += res.CrossAgree
		rc.crossInc += res.CrossInconclusive
		if len(res.CrossDisagree) > 0 {
			rc.fail(hr, 2, "SOLVER-DISAGREEMENT: "+res.CrossDisagree[0])
		}
		if len(res.EngineErrors) > 0 {
			rc.fail(hr, 2, "engine error: "+firstLine(res.EngineErrors[0]))
			if rc.verbose {
				fmt.Fprintln(os.Stderr, res.EngineErrors[0])
			}
			continue
		}
		if len(res.Unknowns) > 0 {
			rc.fail(hr, 2, "inconclusive solver answer: "+res.Unknowns[0])
		}
		if len(res.Unwinds) > 0 {
			rc.fail(hr, 2, "unwinding bound hit: "+res.Unwinds[0])
		}
		if res.Truncated {
			rc.fail(hr, 2, "exploration truncated (max paths / deadline)")
		}
		if res.PathEnds["cut"] > 0 && !hs.AllowCuts {
			rc.fail(hr, 2, fmt.Sprintf("%d paths cut at an allocation bound (not allowed for this harness)", res.PathEnds["cut"]))
		}
		if hs.Expect == "violation" {
			if len(res.Violations) == 0 {
				rc.fail(hr, 2, "witness twin did not produce a violation (vacuous harness?)")
			}
			continue
		}
		for _, cv := range hs.Covers {
			if res.Covers[cv] == 0 && len(res.Violations) == 0 {
				rc.fail(hr, 2, "VACUOUS: mandatory cover point not reached: "+cv)
			}
		}
		if res.PathEnds["done"] == 0 && len(res.Violations) == 0 {
			rc.fail(hr, 2, "VACUOUS: no path completed")
		}
		seen := map[string]bool{}
		for i := range res.Violations {
			v := &res.Violations[i]
			key := v.Kind + "|" + v.Msg + "|" + v.Where
			if seen[key] {
				continue
			}
			seen[key] = true
			rpDir := filepath.Join(verifDir, "evidence", "replay")
			if d := os.Getenv("GOSYM_REPLAY_DIR"); d != "" { // runs against scratch trees (seeded changes) keep their replay files apart
				rpDir = d
			}
			rp := filepath.Join(rpDir, fmt.Sprintf("%s-%s-%d.json", spec.Property, hs.Func, len(rc.replayFiles)))
			writeReplay(rp, &spec, specDir, v)
			rc.replayFiles = append(rc.replayFiles, rp)
			confirmed, out := true, ""
			// lock-discipline events come from the engine's monitor and have no native counterpart (the native
			// run has no monitor; a data race is not deterministic): reported from the engine's trace alone
			monitorOnly := v.Kind == "event" && strings.Contains(v.Msg, "unguarded access")
			if !rc.noReplay && !hs.NoReplay && !monitorOnly {
				rc.nativeRuns++
				confirmed, out = nativeReplay(&spec, specDir, rp, v)
			}
			desc := v.Msg + " @ " + shortWhere(v.Where)
			if kf := matchKnown(known, spec.Property, hs.Func, desc); kf != nil && confirmed {
				line := fmt.Sprintf("KNOWN-FINDING: property=%s %s", spec.Property, kf.What)
				if !contains(rc.knownLines, line) {
					rc.knownLines = append(rc.knownLines, line)
					fmt.Println(line)
				}
				continue
			}
			if !confirmed {
				rc.fail(hr, 2, "ENGINE-DISAGREEMENT: counterexample did not reproduce natively: "+desc+"\n"+out)
				continue
			}
			rc.nViol++
			rc.exit = 1
			fmt.Printf("VIOLATION property=%s replay=%s\n", spec.Property, rp)
			fmt.Printf("  harness=%s %s\n", hs.Func, desc)
		}
	}
	return 0
}

func appendUniq(l []string, xs ...string) []string {
	for _, x := range xs {
		if !contains(l, x) {
			l = append(l, x)
		}
	}
	return l
}

func (rc *runCtx) writeEvidence(evPath string, seed int, t0 time.Time) {
	ev := map[string]interface{}{}
	ev["property_id"] = rc.property
	ev["tier"] = rc.tier
	ev["seed"] = seed
	ev["level"] = "model_checking"
	ev["wall_s"] = time.Since(t0).Seconds()
	ev["violations"] = rc.nViol
	cov := map[string]interface{}{}
	var states, trans, obl int64
	var samples []interface{}
	funcs := map[string]int{}
	var hsum []interface{}
	var solverS float64
	queries := 0
	for _, r := range rc.runs {
		states += int64(r.res.Paths)
		trans += r.res.Decisions
		obl += r.res.Obligations
		solverS += r.res.SolverTime.Seconds()
		queries += r.res.Queries
		for f, n := range r.res.Funcs {
			funcs[f] += n
		}
		var ins []string
		for k := range r.res.Inputs {
			ins = append(ins, strings.TrimPrefix(k, "in!"))
		}
		sort.Strings(ins)
		if len(ins) > 24 {
			ins = append(ins[:24], fmt.Sprintf("... (%d inputs)", len(ins)))
		}
		hsum = append(hsum, map[string]interface{}{
			"harness": r.spec.Func, "package": r.pkg, "expect": orDefault(r.spec.Expect, "pass"), "ok": r.ok, "problem": r.why,
			"paths": r.res.Paths, "path_ends": r.res.PathEnds, "decisions": r.res.Decisions, "obligations_discharged_unsat": r.res.Obligations - int64(len(r.res.Violations)),
			"violations": len(r.res.Violations), "covers": r.res.Covers, "events": r.res.Events, "instructions": r.res.Steps,
			"solver_queries": r.res.Queries, "solver_s": r.res.SolverTime.Seconds(), "wall_s": r.res.Wall.Seconds(),
			"symbolic_inputs": ins, "bounds": boundsOf(r.spec, rc.tier), "note": r.spec.Note,
		})
		for _, s := range r.res.SamplePaths {
			if len(samples) < 12 {
				samples = append(samples, r.spec.Func+": "+s)
			}
		}
	}
	if len(samples) == 0 {
		samples = append(samples, "no completed path")
	}
	if states == 0 {
		states = 1
	}
	if trans == 0 {
		trans = 1
	}
	cov["states"] = states
	cov["transitions"] = trans
	cov["traces_validated_against_impl"] = rc.nativeRuns
	cov["samples"] = samples
	cov["obligations"] = obl
	cov["harnesses"] = hsum
	cov["functions_encoded"] = topFuncs(funcs, 60)
	cov["functions_encoded_count"] = len(funcs)
	cov["solver"] = map[string]interface{}{"kind": rc.solver, "queries": queries, "solver_s": solverS, "query_timeout_ms": rc.timeoutMs,
		"cross_check": map[string]interface{}{"second_solver": "z3 5.1.0 (z3-new), flat script, 30 s", "every_nth_query": rc.crossEvery,
			"queries_cross_checked": rc.cross, "agree": rc.crossAgree, "second_solver_inconclusive": rc.crossInc, "disagree": rc.cross - rc.crossAgree - rc.crossInc}}
	cov["load_s"] = rc.loadS
	cov["explanation"] = "states = symbolic paths explored to completion or termination; transitions = solver-decided symbolic branch decisions; every obligation is an SMT query PC && !assertion answered unsat"
	if rc.outside == nil {
		rc.outside = []string{}
	}
	cov["outside_claim"] = rc.outside
	cov["known_findings_reported"] = rc.knownLines
	cov["exhaustive"] = rc.exit == 0
	ev["coverage"] = cov
	if rc.assumes == nil {
		rc.assumes = []string{}
	}
	if rc.outside == nil {
		rc.outside = []string{}
	}
	ev["assumptions"] = rc.assumes
	eb, _ := json.MarshalIndent(ev, "", " ")
	os.MkdirAll(filepath.Dir(evPath), 0755)
	os.WriteFile(evPath, eb, 0644)
	fmt.Printf("property=%s tier=%s harnesses=%d paths=%d decisions=%d obligations=%d violations=%d known=%d wall=%.1fs exit=%d\n",
		rc.property, rc.tier, len(rc.runs), states, trans, obl, rc.nViol, len(rc.knownLines), time.Since(t0).Seconds(), rc.exit)
}

func flagSet(fs *flag.FlagSet, name string) bool {
	set := false
	fs.Visit(func(f *flag.Flag) {
		if f.Name == name {
			set = true
		}
	})
	return set
}

func boundsOf(hs HarnessSpec, tier string) map[string]int {
	m := map[string]int{}
	for k, v := range hs.Quick {
		m[k] = v
	}
	if tier == "thorough" {
		for k, v := range hs.Thorough {
			m[k] = v
		}
	}
	m["max_alloc"] = pick(hs.MaxAlloc, 64)
	m["max_steps"] = pick(hs.MaxSteps, 3000000)
	m["max_branches"] = pick(hs.MaxBranch, 600)
	return m
}

func topFuncs(m map[string]int, n int) []string {
	type kv struct {
		k string
		v int
	}
	var l []kv
	for k, v := range m {
		if strings.HasPrefix(k, "zzsym.") {
			continue
		}
		l = append(l, kv{k, v})
	}
	sort.Slice(l, func(i, j int) bool {
		pi, pj := isPolyFn(l[i].k), isPolyFn(l[j].k)
		if pi != pj {
			return pi
		}
		return l[i].v > l[j].v
	})
	var out []string
	for i, e := range l {
		if i >= n {
			break
		}
		out = append(out, fmt.Sprintf("%s x%d", e.k, e.v))
	}
	return out
}

func isPolyFn(s string) bool {
	return !stdlibLike(s) && !strings.Contains(s, "github.com/") && !strings.Contains(s, "golang.org/")
}

func stdlibLike(s string) bool {
	s = strings.TrimLeft(s, "(*")
	first := s
	if i := strings.IndexAny(s, "/."); i >= 0 {
		first = s[:i]
	}
	switch first {
	case "bytes", "io", "encoding", "errors", "sort", "strings", "strconv", "math", "fmt", "sync", "unicode", "crypto", "hash", "golang", "container", "bufio", "os", "time", "reflect", "runtime", "internal":
		return true
	}
	return false
}

func orDefault(s, d string) string {
	if s == "" {
		return d
	}
	return s
}

func pick(v, d int) int {
	if v > 0 {
		return v
	}
	return d
}

func contains(l []string, s string) bool {
	for _, x := range l {
		if x == s {
			return true
		}
	}
	return false
}

func shortWhere(w string) string {
	w = strings.ReplaceAll(w, repoDir+"/", "")
	if i := strings.Index(w, " <- "); i >= 0 {
		rest := w[i+4:]
		parts := strings.Split(rest, " <- ")
		if len(parts) > 3 {
			parts = parts[:3]
		}
		return w[:i] + " <- " + strings.Join(parts, " <- ")
	}
	return w
}

func matchKnown(known []KnownFinding, prop, harness, desc string) *KnownFinding {
	for i := range known {
		k := &known[i]
		if k.Status != "known" || k.Property != prop {
			continue
		}
		if k.Harness != "" && k.Harness != harness {
			continue
		}
		if k.Match != "" && !strings.Contains(desc, k.Match) {
			continue
		}
		return k
	}
	return nil
}

func writeReplay(path string, spec *Spec, specDir string, v *Violation) {
	os.MkdirAll(filepath.Dir(path), 0755)
	m := map[string]interface{}{
		"property": spec.Property, "harness": v.Harness, "kind": v.Kind, "msg": v.Msg, "where": v.Where,
		"inputs": v.Inputs, "params": v.Params, "trace": v.Trace, "package": spec.Package, "dir": spec.Dir, "files": spec.Files, "spec_dir": specDir,
		"uses_uninterpreted_functions": v.UsesUF,
	}
	b, _ := json.MarshalIndent(m, "", " ")
	os.WriteFile(path, b, 0644)
}

// nativeReplay compiles the harness into the real package and runs it with the model's inputs.
// It returns whether the violation reproduced (assert failed / panic) and the output.
func nativeReplay(spec *Spec, specDir, replayPath string, v *Violation) (bool, string) {
	tmp, err := os.MkdirTemp("", "gosym-replay-")
	if err != nil {
		return false, err.Error()
	}
	defer os.RemoveAll(tmp)
	repl := map[string]string{}
	repl[filepath.Join(repoDir, "zzsym", "sym.go")] = filepath.Join(verifDir, "zzsym", "sym.go")
	for _, f := range spec.Files {
		repl[filepath.Join(repoDir, spec.Dir, filepath.Base(f))] = filepath.Join(specDir, f)
	}
	pkgName := packageNameOf(filepath.Join(specDir, spec.Files[0]))
	// mask existing test files of the package (several do not compile)
	ents, _ := os.ReadDir(filepath.Join(repoDir, spec.Dir))
	mask := filepath.Join(tmp, "mask.go")
	os.WriteFile(mask, []byte("package "+pkgName+"\n"), 0644)
	maskExt := filepath.Join(tmp, "mask_ext.go")
	os.WriteFile(maskExt, []byte("package "+pkgName+"_test\n"), 0644)
	for _, en := range ents {
		if strings.HasSuffix(en.Name(), "_test.go") {
			p := filepath.Join(repoDir, spec.Dir, en.Name())
			if packageNameOf(p) == pkgName {
				repl[p] = mask
			} else {
				repl[p] = maskExt
			}
		}
	}
	test := filepath.Join(tmp, "zz_replay_test.go")
	src := fmt.Sprintf(`package %s

import (
	"fmt"
	"runtime/debug"
	"testing"

	"github.com/polynetwork/poly/zzsym"
)

func TestZZReplay(t *testing.T) {
	defer func() {
		if r := recover(); r != nil {
			fmt.Printf("ZZSYM-PANIC %%v\n%%s\n", r, debug.Stack())
			t.Fatalf("panic: %%v", r)
		}
	}()
	%s()
	if len(zzsym.Failed) > 0 {
		t.Fatalf("assertions failed: %%v", zzsym.Failed)
	}
	fmt.Println("ZZSYM-REPLAY-PASSED")
}
`, pkgName, v.Harness)
	os.WriteFile(test, []byte(src), 0644)
	repl[filepath.Join(repoDir, spec.Dir, "zz_replay_test.go")] = test
	ovb, _ := json.Marshal(map[string]interface{}{"Replace": repl})
	ovf := filepath.Join(tmp, "overlay.json")
	os.WriteFile(ovf, ovb, 0644)
	cmd := exec.Command("go", "test", "-tags", "verif", "-vet=off", "-count=1", "-run", "^TestZZReplay$", "-timeout", "300s", "-overlay", ovf, "./"+spec.Dir+"/")
	cmd.Dir = repoDir
	cmd.Env = append(os.Environ(), "GOFLAGS=-mod=mod", "GOPROXY=off", "GOSUMDB=off", "GOTOOLCHAIN=local", "ZZSYM_REPLAY="+replayPath)
	out, _ := cmd.CombinedOutput()
	s := string(out)
	if v.Kind == "assert" && strings.Contains(s, "ZZSYM-ASSERT-FAILED "+v.Msg) {
		// (the native run continues after a failed assertion; a later failed Assume is irrelevant)
		if i, j := strings.Index(s, "ZZSYM-ASSERT-FAILED "+v.Msg), strings.Index(s, "ZZSYM-ASSUME-FAILED"); j < 0 || i < j {
			return true, s
		}
	}
	if strings.Contains(s, "ZZSYM-ASSUME-FAILED") {
		return false, "replay violated a harness assumption:\n" + tail(s, 2000)
	}
	if v.Kind == "panic" && (strings.Contains(s, "ZZSYM-PANIC") || strings.Contains(s, "panic:") || strings.Contains(s, "fatal error:")) {
		return true, s
	}
	return false, tail(s, 3000)
}

func tail(s string, n int) string {
	if len(s) > n {
		return s[len(s)-n:]
	}
	return s
}

func packageNameOf(file string) string {
	b, err := os.ReadFile(file)
	if err != nil {
		return "main"
	}
	for _, line := range strings.Split(string(b), "\n") {
		line = strings.TrimSpace(line)
		if strings.HasPrefix(line, "package ") {
			f := strings.Fields(line)
			return f[1]
		}
	}
	return "main"
}

func cmdReplay(args []string) int {
	if len(args) < 1 {
		fmt.Fprintln(os.Stderr, "usage: gosym replay <file>")
		return 2
	}
	b, err := os.ReadFile(args[0])
	if err != nil {
		fmt.Fprintln(os.Stderr, err)
		return 2
	}
	var m struct {
		Property string            `json:"property"`
		Harness  string            `json:"harness"`
		Kind     string            `json:"kind"`
		Msg      string            `json:"msg"`
		Dir      string            `json:"dir"`
		Files    []string          `json:"files"`
		Inputs   map[string]string `json:"inputs"`
		SpecDir  string            `json:"spec_dir"`
	}
	if err := json.Unmarshal(b, &m); err != nil {
		fmt.Fprintln(os.Stderr, err)
		return 2
	}
	spec := &Spec{Property: m.Property, Dir: m.Dir, Files: m.Files}
	specDir := filepath.Join(verifDir, "harness", m.Property)
	if m.SpecDir != "" {
		specDir = m.SpecDir
	}
	abs, _ := filepath.Abs(args[0])
	ok, out := nativeReplay(spec, specDir, abs, &Violation{Harness: m.Harness, Kind: m.Kind, Msg: m.Msg})
	fmt.Println(out)
	if ok {
		fmt.Printf("VIOLATION property=%s replay=%s\n", m.Property, abs)
		return 1
	}
	fmt.Println("replay did not reproduce a violation")
	return 0
}

var _ = ssa.InstantiateGenerics

func execOutput(name string, args ...string) (string, error) {
	out, err := exec.Command(name, args...).CombinedOutput()
	return string(out), err
}
