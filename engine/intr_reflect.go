package main

// Minimal reflect model: enough for package-level `var t = reflect.TypeOf(x)[.Elem()]` initialisers.
// Anything that would actually use reflection on values is an engine error.

import (
	"go/types"

	"golang.org/x/tools/go/ssa"
)

type ReflTypeObj struct{ t types.Type }

func (r *ReflTypeObj) callMethod(in *Interp, fr *frame, name string, args []value) value {
	switch name {
	case "Elem":
		switch u := r.t.Underlying().(type) {
		case *types.Pointer:
			return in.reflType(u.Elem())
		case *types.Slice:
			return in.reflType(u.Elem())
		case *types.Array:
			return in.reflType(u.Elem())
		case *types.Map:
			return in.reflType(u.Elem())
		}
	case "String":
		return r.t.String()
	case "Name":
		if n, ok := r.t.(*types.Named); ok {
			return n.Obj().Name()
		}
		return ""
	}
	panic(engineErr("reflection: Type.%s on %v is not modelled", name, r.t))
}

func (in *Interp) reflType(t types.Type) value {
	var dyn types.Type = types.Typ[types.UnsafePointer]
	if p := in.prog.ImportedPackage("reflect"); p != nil {
		if m, ok := p.Members["rtype"].(*ssa.Type); ok {
			dyn = types.NewPointer(m.Type())
		}
	}
	return iface{t: dyn, v: &ReflTypeObj{t}}
}

func init() {
	intrinsicTable["reflect.TypeOf"] = func(fr *frame, a []value) value {
		x := a[0].(iface)
		if x.t == nil {
			return iface{}
		}
		return fr.in.reflType(x.t)
	}
}

// sync/atomic.Value (implemented with unsafe in the standard library)
func init() {
	cell := func(a []value) *value {
		p := a[0].(*value)
		st := (*p).(structure)
		return &st[0]
	}
	intrinsicTable["(*sync/atomic.Value).Store"] = func(fr *frame, a []value) value {
		if x, ok := a[1].(iface); ok && x.t == nil {
			fr.in.runtimePanic("sync/atomic: store of nil value into Value")
		}
		*cell(a) = a[1]
		return nil
	}
	intrinsicTable["(*sync/atomic.Value).Load"] = func(fr *frame, a []value) value {
		v := *cell(a)
		if v == nil {
			return iface{}
		}
		return v
	}
	intrinsicTable["(*sync/atomic.Value).Swap"] = func(fr *frame, a []value) value {
		c := cell(a)
		old := *c
		*c = a[1]
		if old == nil {
			return iface{}
		}
		return old
	}
}
