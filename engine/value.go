package main

import (
	"fmt"
	"go/types"
	"math/big"
	"strings"

	"golang.org/x/tools/go/ssa"
)

type bigInt = big.Int

type value interface{}

type structure []value
type array []value
type tuple []value

type iface struct {
	t types.Type // dynamic type; nil for nil interface
	v value
}

type closure struct {
	fn  *ssa.Function
	env []value
}

// SliceV is a Go slice: window [off, off+len) of backing array back, capacity cap.
// off/len/cap are 64-bit terms (often constants). nil slice: back == nil.
type SliceV struct {
	back          []value
	off, len, cap *Term
	nonnil        bool // distinguishes empty non-nil slice
}

// SymStr is a string with concrete length and (possibly) symbolic bytes.
type SymStr struct{ b []*Term }

// SymPtr points to arr[idx](.path...) with symbolic idx.
type SymPtr struct {
	arr  []value
	idx  *Term // 64-bit
	path []int // struct field / array index selectors below the element
}

// EngObj is an engine-implemented object (hash state, big.Int, ...), referenced through pointers.
type HashObj struct {
	kind string // sha256, sha512, ripemd160, keccak256 ...
	buf  []*Term
}

type BigObj struct {
	t *Term // Int sort
}

type ChanV struct {
	buf    []value
	cap    int
	closed bool
}

type MapV struct {
	keyT  types.Type
	keys  []value
	vals  []value
	live  []bool
	index map[string]int // canonical concrete key -> position
	n     int            // number of live entries
}

type bad struct{}

// rangeIter kinds
type mapIter struct {
	m     *MapV
	order []int
	pos   int
}
type strIter struct {
	s   value
	pos int
}

func (c *Ctx) I64(v int64) *Term { return c.BV(64, uint64(v)) }
func (c *Ctx) Byte(v byte) *Term { return c.byteConsts[v] }
func isConstTerm(v value) bool   { t, ok := v.(*Term); return ok && t.isConst() }
func termOf(v value) *Term       { return v.(*Term) }
func constInt(t *Term) int64     { return int64(t.val) }
func (t *Term) constBool() bool  { return t.val == 1 }
func (t *Term) isTrue() bool     { return t.isConst() && t.val == 1 }
func (t *Term) isFalse() bool    { return t.isConst() && t.val == 0 }
func (t *Term) signedVal() int64 { return signExt(t.val, t.sort.W) }

// basicInfo returns bit width and signedness of an integer-like basic type.
func intInfo(T types.Type) (w int, signed bool, ok bool) {
	b, isB := T.Underlying().(*types.Basic)
	if !isB {
		return 0, false, false
	}
	switch b.Kind() {
	case types.Int8:
		return 8, true, true
	case types.Int16:
		return 16, true, true
	case types.Int32:
		return 32, true, true
	case types.Int64, types.Int, types.UntypedInt, types.UntypedRune:
		return 64, true, true
	case types.Uint8:
		return 8, false, true
	case types.Uint16:
		return 16, false, true
	case types.Uint32:
		return 32, false, true
	case types.Uint64, types.Uint, types.Uintptr:
		return 64, false, true
	}
	return 0, false, false
}

func isFloat(T types.Type) bool {
	b, ok := T.Underlying().(*types.Basic)
	return ok && b.Info()&types.IsFloat != 0
}

func isString(T types.Type) bool {
	b, ok := T.Underlying().(*types.Basic)
	return ok && b.Info()&types.IsString != 0
}

func isBool(T types.Type) bool {
	b, ok := T.Underlying().(*types.Basic)
	return ok && b.Info()&types.IsBoolean != 0
}

// zero returns the zero value of type T.
func (in *Interp) zero(T types.Type) value {
	c := in.ctx
	switch t := T.Underlying().(type) {
	case *types.Basic:
		if w, _, ok := intInfo(t); ok {
			if w == 8 {
				return c.byteConsts[0]
			}
			return c.BV(w, 0)
		}
		switch {
		case t.Kind() == types.UntypedNil:
			return nil
		case t.Info()&types.IsBoolean != 0:
			return c.ff
		case t.Info()&types.IsString != 0:
			return ""
		case t.Kind() == types.Float32:
			return float32(0)
		case t.Info()&types.IsFloat != 0:
			return float64(0)
		case t.Kind() == types.UnsafePointer:
			return (*value)(nil)
		case t.Info()&types.IsComplex != 0:
			return complex128(0)
		}
		panic(engineErr("zero: unsupported basic type %v", T))
	case *types.Pointer:
		return (*value)(nil)
	case *types.Array:
		a := make(array, t.Len())
		if _, ok := t.Elem().Underlying().(*types.Basic); ok {
			z := in.zero(t.Elem())
			for i := range a {
				a[i] = z
			}
		} else {
			for i := range a {
				a[i] = in.zero(t.Elem())
			}
		}
		return a
	case *types.Struct:
		s := make(structure, t.NumFields())
		for i := range s {
			s[i] = in.zero(t.Field(i).Type())
		}
		return s
	case *types.Tuple:
		if t.Len() == 1 {
			return in.zero(t.At(0).Type())
		}
		s := make(tuple, t.Len())
		for i := range s {
			s[i] = in.zero(t.At(i).Type())
		}
		return s
	case *types.Slice:
		return SliceV{off: c.zero64, len: c.zero64, cap: c.zero64}
	case *types.Interface:
		return iface{}
	case *types.Map:
		return (*MapV)(nil)
	case *types.Chan:
		return (*ChanV)(nil)
	case *types.Signature:
		return (*ssa.Function)(nil)
	}
	panic(engineErr("zero: unsupported type %v", T))
}

// copyVal makes a copy of aggregate values (struct/array are value types).
func copyVal(v value) value {
	switch v := v.(type) {
	case structure:
		a := make(structure, len(v))
		for i, x := range v {
			a[i] = copyVal(x)
		}
		return a
	case array:
		a := make(array, len(v))
		for i, x := range v {
			a[i] = copyVal(x)
		}
		return a
	}
	return v
}

// store writes v into *addr, in place for aggregates so that interior pointers stay valid.
func store(addr *value, v value) {
	switch rhs := v.(type) {
	case structure:
		lhs, ok := (*addr).(structure)
		if !ok || len(lhs) != len(rhs) {
			*addr = copyVal(v)
			return
		}
		for i := range lhs {
			store(&lhs[i], rhs[i])
		}
	case array:
		lhs, ok := (*addr).(array)
		if !ok || len(lhs) != len(rhs) {
			*addr = copyVal(v)
			return
		}
		for i := range lhs {
			store(&lhs[i], rhs[i])
		}
	default:
		*addr = v
	}
}

// merge returns ite(cond, a, b) over structured values.
func (in *Interp) merge(cond *Term, a, b value) value {
	if cond.isConst() {
		if cond.val == 1 {
			return a
		}
		return b
	}
	switch x := a.(type) {
	case *Term:
		y, ok := b.(*Term)
		if !ok {
			panic(engineErr("merge: mismatched values %T %T", a, b))
		}
		return in.ctx.Ite(cond, x, y)
	case structure:
		y := b.(structure)
		r := make(structure, len(x))
		for i := range x {
			r[i] = in.merge(cond, x[i], y[i])
		}
		return r
	case array:
		y := b.(array)
		r := make(array, len(x))
		for i := range x {
			r[i] = in.merge(cond, x[i], y[i])
		}
		return r
	case SliceV:
		y, ok := b.(SliceV)
		if ok && sameBacking(x, y) {
			return SliceV{back: x.back, off: in.ctx.Ite(cond, x.off, y.off), len: in.ctx.Ite(cond, x.len, y.len), cap: in.ctx.Ite(cond, x.cap, y.cap), nonnil: x.nonnil}
		}
	case string:
		if y, ok := b.(string); ok && x == y {
			return a
		}
		xb, yb := in.strBytes(a), in.strBytes(b)
		if len(xb) == len(yb) {
			r := make([]*Term, len(xb))
			for i := range xb {
				r[i] = in.ctx.Ite(cond, xb[i], yb[i])
			}
			return SymStr{r}
		}
	case SymStr:
		xb, yb := in.strBytes(a), in.strBytes(b)
		if len(xb) == len(yb) {
			r := make([]*Term, len(xb))
			for i := range xb {
				r[i] = in.ctx.Ite(cond, xb[i], yb[i])
			}
			return SymStr{r}
		}
	case *value:
		if y, ok := b.(*value); ok && x == y {
			return a
		}
	case float64:
		if y, ok := b.(float64); ok && x == y {
			return a
		}
	case iface:
		y, ok := b.(iface)
		if ok && x.t == nil && y.t == nil {
			return a
		}
		if ok && x.t != nil && y.t != nil && types.Identical(x.t, y.t) {
			return iface{x.t, in.merge(cond, x.v, y.v)}
		}
	}
	// cannot merge without forking: decide on cond
	if in.decide(cond) {
		return a
	}
	return b
}

func sameBacking(x, y SliceV) bool {
	if x.back == nil || y.back == nil {
		return x.back == nil && y.back == nil
	}
	return len(x.back) > 0 && len(y.back) > 0 && &x.back[0] == &y.back[0] && len(x.back) == len(y.back)
}

// strBytes returns the byte terms of a string value.
func (in *Interp) strBytes(v value) []*Term {
	switch s := v.(type) {
	case string:
		r := make([]*Term, len(s))
		for i := 0; i < len(s); i++ {
			r[i] = in.ctx.byteConsts[s[i]]
		}
		return r
	case SymStr:
		return s.b
	}
	panic(engineErr("strBytes: not a string: %T", v))
}

// mkString builds a string value from byte terms, concrete when possible.
func (in *Interp) mkString(b []*Term) value {
	for _, t := range b {
		if !t.isConst() {
			return SymStr{append([]*Term(nil), b...)}
		}
	}
	bs := make([]byte, len(b))
	for i, t := range b {
		bs[i] = byte(t.val)
	}
	return string(bs)
}

func strLen(v value) int {
	switch s := v.(type) {
	case string:
		return len(s)
	case SymStr:
		return len(s.b)
	}
	panic(engineErr("strLen: not a string: %T", v))
}

// concreteString returns the Go string if v is fully concrete.
func concreteString(v value) (string, bool) {
	switch s := v.(type) {
	case string:
		return s, true
	case SymStr:
		bs := make([]byte, len(s.b))
		for i, t := range s.b {
			if !t.isConst() {
				return "", false
			}
			bs[i] = byte(t.val)
		}
		return string(bs), true
	}
	return "", false
}

// keyString gives a canonical encoding of a fully concrete value usable as a map key; ok=false if symbolic.
func keyString(v value, sb *strings.Builder) bool {
	switch x := v.(type) {
	case *Term:
		if !x.isConst() {
			return false
		}
		if x.big != nil {
			fmt.Fprintf(sb, "B%s;", x.big.String())
		} else {
			fmt.Fprintf(sb, "%d.%d;", x.sort.W, x.val)
		}
		return true
	case string:
		fmt.Fprintf(sb, "s%d:%s;", len(x), x)
		return true
	case SymStr:
		s, ok := concreteString(x)
		if !ok {
			return false
		}
		fmt.Fprintf(sb, "s%d:%s;", len(s), s)
		return true
	case structure:
		sb.WriteString("{")
		for _, e := range x {
			if !keyString(e, sb) {
				return false
			}
		}
		sb.WriteString("}")
		return true
	case array:
		sb.WriteString("[")
		for _, e := range x {
			if !keyString(e, sb) {
				return false
			}
		}
		sb.WriteString("]")
		return true
	case iface:
		if x.t == nil {
			sb.WriteString("nil;")
			return true
		}
		sb.WriteString("i<" + x.t.String() + ">")
		return keyString(x.v, sb)
	case *value:
		fmt.Fprintf(sb, "p%p;", x)
		return true
	case float64:
		fmt.Fprintf(sb, "f%v;", x)
		return true
	case float32:
		fmt.Fprintf(sb, "f%v;", x)
		return true
	case nil:
		sb.WriteString("nil;")
		return true
	case *MapV, *ChanV, *HashObj, *BigObj, *ssa.Function, *closure:
		fmt.Fprintf(sb, "p%p;", x)
		return true
	}
	return false
}

type engineError struct{ msg string }

func (e engineError) Error() string { return e.msg }

func engineErr(f string, args ...interface{}) engineError {
	return engineError{fmt.Sprintf(f, args...)}
}

// describe renders a value for diagnostics.
func describe(v value) string {
	switch x := v.(type) {
	case *Term:
		return x.String()
	case string:
		return fmt.Sprintf("%q", x)
	case structure:
		var p []string
		for _, e := range x {
			p = append(p, describe(e))
		}
		return "{" + strings.Join(p, ",") + "}"
	case array:
		if len(x) > 40 {
			return fmt.Sprintf("[%d]...", len(x))
		}
		var p []string
		for _, e := range x {
			p = append(p, describe(e))
		}
		return "[" + strings.Join(p, ",") + "]"
	case iface:
		if x.t == nil {
			return "nil-iface"
		}
		return "iface<" + x.t.String() + ">(" + describe(x.v) + ")"
	case SliceV:
		return fmt.Sprintf("slice(off=%v,len=%v,cap=%v)", x.off, x.len, x.cap)
	}
	return fmt.Sprintf("%T", v)
}
