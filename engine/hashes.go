package main

import (
	"golang.org/x/crypto/ripemd160"
	"golang.org/x/crypto/sha3"
)

func ripemd160Sum(b []byte) []byte { h := ripemd160.New(); h.Write(b); return h.Sum(nil) }
func keccak256Sum(b []byte) []byte { h := sha3.NewLegacyKeccak256(); h.Write(b); return h.Sum(nil) }
func sha3_256Sum(b []byte) []byte  { d := sha3.Sum256(b); return d[:] }
