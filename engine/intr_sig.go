package main

// Signatures. A signature made through zzsym.Signature(name, signer, msg) is 64 opaque symbolic
// bytes whose provenance (signer index term, message bytes) is kept in a per-path registry;
// ontology-crypto's Deserialize/Verify are intercepted:
//   Verify(key, data, sig) <=> key is table key `signer` && data == msg          (registered signature)
//   concrete key, data and signature bytes                                     -> the real library decides
//   anything else: uninterpreted predicate sigvalid(key, data, sig).
// Natively zzsym.Signature produces a real ECDSA signature with the table's private key (or a
// fresh outsider key), so models replay exactly.

import (
	"encoding/hex"
	"fmt"

	okeypair "github.com/ontio/ontology-crypto/keypair"
	osig "github.com/ontio/ontology-crypto/signature"
)

var tableKeyHex = []string{
	"039d33596861caa2a107af3cabf184df2b352d59f92960d548e2548470af90d2ba",
	"025ef9a33bf9de5620695af6db9f6334d09cc4e2c57fe171f6d9e1053a9f533749",
	"0314ba31a5af08ddee4b34a5570e86ce3c74f832107163becd867ae85088b790d2",
	"030562d8d2b0f37b45ba0eefa9c66e83080a74305601b72ba613cfdf3253bfa3e1",
	"02b70d844f2f82feeca5cdbec3f0f870807408e6a9781b5e8183574ddb15ea7a5a",
	"034bd0188f7b87f958fdde01c72ddacb6ddc2d65bfe047af047bba6c1d8459e075",
	"032cf3f13186e23bf4d7b1ef069c324da5c231ddae28d250b834e00d0f8f3cb480",
	"027f089cdef1a143e231b9cf782aa2fd4663ef3f347da1c646c6cc32819cab02ad",
	"02ec1eb8e3e3ddefeb7ab86e5efe0d3028bbe9a1ec19fd3918c0368c46b4f1d299",
	"036c10034bef2bc0cc8c6154b2c3be35bf57ca203e2ed3aa1c8afb68e1b3d4add4",
	"03d7b5f3e30b5d69b2ab69ca8714681dd947b24020de46f3b1bea6b9bb141d56dc",
	"02c8bb34e46b144e77d567a6eaa1eae84d24dd75028d69a45dc6ac1e5143d1eb4f",
}

var tableKeys [][]byte

type sigProv struct {
	bytes  []*Term
	signer *Term // 64-bit
	msg    []*Term
}

// SigObj is the engine's *signature.Signature.
type SigObj struct {
	prov *sigProv
	raw  []*Term
}

func init() {
	for _, h := range tableKeyHex {
		b, _ := hex.DecodeString(h)
		tableKeys = append(tableKeys, b)
	}
	intrinsicTable[zzsymPath+".Signature"] = zzSignature
	intrinsicTable[zzsymPath+".PubKey"] = func(fr *frame, a []value) value {
		in := fr.in
		i := in.concretize(a[0].(*Term), len(tableKeys)-1, "PubKey index")
		ts := make([]*Term, 33)
		for k, x := range tableKeys[i] {
			ts[k] = in.ctx.byteConsts[x]
		}
		return in.mkPubKey(ts)
	}
	intrinsicTable[ocPath+"signature.Deserialize"] = sigDeserialize
	intrinsicTable[ocPath+"signature.Verify"] = sigVerify
}

func zzSignature(fr *frame, a []value) value {
	in := fr.in
	name := constStr(a[0])
	signer := a[1].(*Term)
	msg := in.sliceTerms(a[2].(SliceV))
	base := in.inputName(name)
	b := make([]*Term, 64)
	for i := range b {
		t := in.ctx.Var(fmt.Sprintf("%s!sig%d", base, i), bvSort(8))
		in.sol.ref(t)
		b[i] = t
	}
	if in.ps.sigs == nil {
		in.ps.sigs = map[*Term]*sigProv{}
	}
	in.ps.sigs[b[0]] = &sigProv{bytes: b, signer: signer, msg: append([]*Term(nil), msg...)}
	return in.mkBytes(b)
}

func (in *Interp) lookupSig(b []*Term) *sigProv {
	if len(b) != 64 || in.ps.sigs == nil {
		return nil
	}
	p := in.ps.sigs[b[0]]
	if p == nil {
		return nil
	}
	for i := range b {
		if b[i] != p.bytes[i] {
			return nil
		}
	}
	return p
}

func sigDeserialize(fr *frame, a []value) value {
	in := fr.in
	s := a[0].(SliceV)
	b := in.sliceTerms(s)
	if len(b) < 2 {
		return tuple{(*value)(nil), in.mkError("failed deserializing signature: invalid argument")}
	}
	if p := in.lookupSig(b); p != nil {
		return tuple{&SigObj{prov: p, raw: b}, iface{}}
	}
	// concrete bytes: the real library decides well-formedness
	allConst := true
	bs := make([]byte, len(b))
	for i, t := range b {
		if !t.isConst() {
			allConst = false
			break
		}
		bs[i] = byte(t.val)
	}
	if allConst {
		if _, err := osig.Deserialize(bs); err != nil {
			return tuple{(*value)(nil), in.mkError(err.Error())}
		}
		return tuple{&SigObj{raw: b}, iface{}}
	}
	in.ps.usedUF = true
	wf := in.ctx.UF(fmt.Sprintf("sigwf_%d", len(b)), sortBool, b...)
	if in.decide(wf) {
		return tuple{&SigObj{raw: b}, iface{}}
	}
	return tuple{(*value)(nil), in.mkError("failed deserializing signature")}
}

// keyIndexTerm returns the table index of a key as a 64-bit term (-1 if not a table key).
func (in *Interp) keyIndexTerm(k *PubKeyObj) *Term {
	c := in.ctx
	r := c.I64(-1)
	for i := len(tableKeys) - 1; i >= 0; i-- {
		if len(k.b) != len(tableKeys[i]) {
			continue
		}
		eq := c.tt
		for j, x := range tableKeys[i] {
			eq = c.And(eq, c.Eq(k.b[j], c.byteConsts[x]))
			if eq.isFalse() {
				break
			}
		}
		r = c.Ite(eq, c.I64(int64(i)), r)
	}
	return r
}

func sigVerify(fr *frame, a []value) value {
	in := fr.in
	c := in.ctx
	key := asPubKey(a[0])
	so, _ := a[2].(*SigObj)
	data := a[1].(SliceV)
	if key == nil || so == nil {
		return c.ff
	}
	d := in.sliceTerms(data)
	if len(d) == 0 {
		return c.ff
	}
	if so.prov != nil {
		p := so.prov
		if len(d) != len(p.msg) {
			return c.ff
		}
		ok := c.Eq(in.keyIndexTerm(key), p.signer)
		// an outsider signer (index outside the table) matches no table key; keyIndexTerm is -1 for
		// non-table keys, which must not match signer == -1
		ok = c.And(ok, c.Sle(c.zero64, p.signer))
		for i := range d {
			ok = c.And(ok, c.Eq(d[i], p.msg[i]))
			if ok.isFalse() {
				break
			}
		}
		return ok
	}
	// fully concrete: real verification
	allConst := true
	for _, l := range [][]*Term{key.b, d, so.raw} {
		for _, t := range l {
			if !t.isConst() {
				allConst = false
			}
		}
	}
	if allConst {
		toB := func(l []*Term) []byte {
			r := make([]byte, len(l))
			for i, t := range l {
				r[i] = byte(t.val)
			}
			return r
		}
		pk, err := okeypair.DeserializePublicKey(toB(key.b))
		if err != nil {
			return c.ff
		}
		sg, err := osig.Deserialize(toB(so.raw))
		if err != nil {
			return c.ff
		}
		return c.Bool(osig.Verify(pk, toB(d), sg))
	}
	in.ps.usedUF = true
	args := append(append(append([]*Term(nil), key.b...), d...), so.raw...)
	return c.UF(fmt.Sprintf("sigvalid_%d_%d_%d", len(key.b), len(d), len(so.raw)), sortBool, args...)
}
