package main

import (
	"encoding/hex"

	"golang.org/x/tools/go/ssa"
)

// Well-known constants whose initialisers need reflection (rlpHash at package init): the engine
// installs their published values instead of leaving the globals poisoned.
var globalPresets = map[string]string{
	"github.com/ethereum/go-ethereum/core/types.EmptyUncleHash": "1dcc4de8dec75d7aab85b567b6ccd41ad312451b948a7413f0a142fd40d49347",
	"github.com/ethereum/go-ethereum/core/types.EmptyRootHash":  "56e81f171bcc55a6ff8345e692c0f86e5b48e01b996cadc001622fb5e363b421",
}

func (e *Engine) installPresets() {
	ctx := NewCtx()
	for name, hx := range globalPresets {
		i := lastDot(name)
		pkg := e.prog.ImportedPackage(name[:i])
		if pkg == nil {
			continue
		}
		g, ok := pkg.Members[name[i+1:]].(*ssa.Global)
		if !ok {
			continue
		}
		b, _ := hex.DecodeString(hx)
		arr := make(array, len(b))
		for k, x := range b {
			arr[k] = ctx.byteConsts[x]
		}
		cell := new(value)
		*cell = arr
		e.shared[g] = cell
		delete(e.poisoned, g)
	}
}

func lastDot(s string) int {
	for i := len(s) - 1; i >= 0; i-- {
		if s[i] == '.' {
			return i
		}
	}
	return -1
}
