package main

// `gosym thresholds`: threshold expressions are sliced out of the real SSA of the functions that
// decide quorums (the integer expression feeding a comparison or a call argument), evaluated
// symbolically with the engine's own operator encoder over free 64-bit variables for the slice's
// leaves (len(...) calls, loop-carried counters), and compared by z3 with the formulas the property
// states, for all values below the stated bound. Nothing is re-typed from the source: if the code's
// formula changes, the extracted term changes.

import (
	"encoding/json"
	"flag"
	"fmt"
	"go/token"
	"go/types"
	"os"
	"path/filepath"
	"sort"
	"strconv"
	"strings"
	"time"

	"golang.org/x/tools/go/ssa"
)

type ThrSite struct {
	Name     string            `json:"name"`
	Package  string            `json:"package"`
	Function string            `json:"function"` // ssa function String()
	Kind     string            `json:"kind"`     // "cond" | "callarg"
	Callee   string            `json:"callee"`   // for callarg: substring of callee name
	Arg      int               `json:"arg"`
	Vars     map[string]string `json:"vars"`    // SMT name -> leaf name (e.g. "N": "len(vbftPeerInfo)")
	Allowed  []string          `json:"allowed"` // SMT-LIB terms over the vars (Bool for cond, BV64 for callarg)
	Assume   []string          `json:"assume"`  // SMT-LIB Bool terms
	MinSites int               `json:"min_sites"`
}

type ThrSpec struct {
	Property string    `json:"property"`
	Sites    []ThrSite `json:"sites"`
	Lemmas   []struct {
		Name    string   `json:"name"`
		Vars    []string `json:"vars"`
		Assume  []string `json:"assume"`
		Formula string   `json:"formula"`
	} `json:"lemmas"`
	Assumes []string `json:"assumptions"`
	Outside []string `json:"outside_claim"`
}

type sliceEval struct {
	in      *Interp
	leaves  map[string]*Term // leaf name -> var
	isLeaf  map[string]bool
	phiPick map[*ssa.Phi]int
	phis    []*ssa.Phi
	bad     string
	active  map[*ssa.Phi]bool
}

func exprName(v ssa.Value) string {
	switch x := v.(type) {
	case *ssa.Parameter:
		return x.Name()
	case *ssa.FreeVar:
		return x.Name()
	case *ssa.Global:
		return x.Name()
	case *ssa.Alloc:
		return x.Comment
	case *ssa.Phi:
		return x.Comment
	case *ssa.UnOp:
		if x.Op == token.MUL {
			return exprName(x.X)
		}
	case *ssa.FieldAddr:
		st := deref(x.X.Type()).Underlying().(*types.Struct)
		return exprName(x.X) + "." + st.Field(x.Field).Name()
	case *ssa.Field:
		st := x.X.Type().Underlying().(*types.Struct)
		return exprName(x.X) + "." + st.Field(x.Field).Name()
	case *ssa.Lookup:
		return exprName(x.X) + "[]"
	case *ssa.Extract:
		return exprName(x.Tuple) + "#" + strconv.Itoa(x.Index)
	case *ssa.Call:
		if b, ok := x.Call.Value.(*ssa.Builtin); ok && b.Name() == "len" {
			return "len(" + exprName(x.Call.Args[0]) + ")"
		}
		if f := x.Call.StaticCallee(); f != nil {
			return f.Name() + "()"
		}
	case *ssa.ChangeType:
		return exprName(x.X)
	case *ssa.Convert:
		return exprName(x.X)
	}
	return v.Name()
}

func (se *sliceEval) leaf(name string, T types.Type) value {
	w, _, ok := intInfo(T)
	if !ok {
		se.bad = "non-integer leaf " + name
		return se.in.ctx.zero64
	}
	if t, ok := se.leaves[name]; ok {
		if t.sort.W != w {
			return se.in.conv(T, types.Typ[types.Int64], t)
		}
		return t
	}
	t := se.in.ctx.Var("leaf!"+name, bvSort(w))
	se.leaves[name] = t
	return t
}

func (se *sliceEval) eval(v ssa.Value) value {
	in := se.in
	switch x := v.(type) {
	case *ssa.Const:
		return in.constValue(x)
	case *ssa.BinOp:
		switch x.Op {
		case token.QUO, token.REM:
			// division by a constant only (no panic path)
			if _, ok := x.Y.(*ssa.Const); !ok {
				return se.leaf(exprName(v), v.Type())
			}
		}
		return in.binop(x.Op, x.X.Type(), x.Y.Type(), se.eval(x.X), se.eval(x.Y))
	case *ssa.UnOp:
		if x.Op == token.SUB || x.Op == token.XOR || x.Op == token.NOT {
			return in.unop(nil, x, se.eval(x.X))
		}
	case *ssa.Convert:
		if _, _, ok := intInfo(x.Type()); ok {
			if _, _, ok2 := intInfo(x.X.Type()); ok2 {
				return in.conv(x.Type(), x.X.Type(), se.eval(x.X))
			}
		}
	case *ssa.ChangeType:
		return se.eval(x.X)
	case *ssa.Phi:
		if !se.isLeaf[x.Comment] && !se.active[x] {
			if _, seen := se.phiPick[x]; !seen {
				se.phiPick[x] = 0
				se.phis = append(se.phis, x)
			}
			if se.active == nil {
				se.active = map[*ssa.Phi]bool{}
			}
			se.active[x] = true
			r := se.eval(x.Edges[se.phiPick[x]])
			delete(se.active, x)
			return r
		}
	}
	return se.leaf(exprName(v), v.Type())
}

func smtIdent(s string) string { return smtName(s) }

func cmdThresholds(args []string) int {
	fs := flag.NewFlagSet("thresholds", flag.ExitOnError)
	specPath := fs.String("spec", "", "thresholds spec json")
	tier := fs.String("tier", "quick", "tier")
	evPath := fs.String("evidence", "", "evidence file")
	fs.Int("workers", 0, "ignored (accepted for interface compatibility)")
	fs.Bool("v", false, "ignored")
	fs.String("only", "", "ignored")
	fs.Parse(args)
	if t := os.Getenv("VERIF_TIER"); t != "" && !flagSet(fs, "tier") {
		*tier = t
	}
	seed := 1
	if s := os.Getenv("VERIF_SEED"); s != "" {
		seed, _ = strconv.Atoi(s)
	}
	t0 := time.Now()
	b, err := os.ReadFile(*specPath)
	if err != nil {
		fmt.Fprintln(os.Stderr, err)
		return 2
	}
	var spec ThrSpec
	if err := json.Unmarshal(b, &spec); err != nil {
		fmt.Fprintln(os.Stderr, "spec:", err)
		return 2
	}
	if *evPath == "" {
		*evPath = filepath.Join(verifDir, "evidence", spec.Property+".json")
	}
	os.Remove(*evPath)
	exit := 0
	nObl, nDis, nViol := 0, 0, 0
	var samples []interface{}
	var sitesOut []interface{}
	funcsEncoded := map[string]bool{}
	queries := 0
	var solverT time.Duration
	problem := func(msg string) {
		fmt.Printf("CHECK-PROBLEM property=%s: %s\n", spec.Property, msg)
		if exit != 1 {
			exit = 2
		}
	}
	// group sites by package (one load each)
	byPkg := map[string][]ThrSite{}
	var pkgOrder []string
	for _, s := range spec.Sites {
		if _, ok := byPkg[s.Package]; !ok {
			pkgOrder = append(pkgOrder, s.Package)
		}
		byPkg[s.Package] = append(byPkg[s.Package], s)
	}
	runZ3 := func(script string) (string, string) {
		f, _ := os.CreateTemp("", "gosym-thr-*.smt2")
		defer os.Remove(f.Name())
		f.WriteString(script)
		f.Close()
		st := time.Now()
		out, _ := execOutput("/usr/bin/z3", "-T:120", f.Name())
		solverT += time.Since(st)
		queries++
		txt := strings.TrimSpace(out)
		first := txt
		rest := ""
		if i := strings.IndexByte(txt, '\n'); i >= 0 {
			first, rest = strings.TrimSpace(txt[:i]), txt[i+1:]
		}
		if strings.Contains(txt, "(error") && first != "sat" && first != "unsat" {
			return "error", txt
		}
		return first, rest
	}
	for _, pkgPath := range pkgOrder {
		eng, err := Load(repoDir, map[string][]byte{}, []string{pkgPath})
		if err != nil {
			problem("load " + pkgPath + ": " + err.Error())
			continue
		}
		idx := eng.funcIndex()
		in, err := eng.newInterp()
		if err != nil {
			problem(err.Error())
			continue
		}
		in.ps = &PathState{initMode: true, inputNames: map[string]int{}}
		for _, site := range byPkg[pkgPath] {
			fn := idx[site.Function]
			if fn == nil || fn.Blocks == nil {
				problem(fmt.Sprintf("site %s: function %s not found", site.Name, site.Function))
				continue
			}
			funcsEncoded[shortFn(fn)] = true
			wantLeaves := map[string]bool{}
			for _, l := range site.Vars {
				wantLeaves[l] = true
			}
			type target struct {
				v   ssa.Value
				pos token.Pos
				op  string
			}
			var targets []target
			for _, blk := range fn.Blocks {
				for _, ins := range blk.Instrs {
					switch x := ins.(type) {
					case *ssa.BinOp:
						if site.Kind == "cond" {
							switch x.Op {
							case token.LSS, token.LEQ, token.GTR, token.GEQ:
								targets = append(targets, target{x, x.Pos(), x.Op.String()})
							}
						}
					case *ssa.Call:
						if site.Kind == "callarg" {
							name := ""
							if f := x.Call.StaticCallee(); f != nil {
								name = f.String()
							}
							if name != "" && strings.Contains(name, site.Callee) && site.Arg < len(x.Call.Args) {
								targets = append(targets, target{x.Call.Args[site.Arg], x.Pos(), "arg"})
							}
						}
					}
				}
			}
			matched := 0
			for _, tg := range targets {
				// enumerate phi-edge combinations
				picks := map[*ssa.Phi]int{}
				for {
					se := &sliceEval{in: in, leaves: map[string]*Term{}, isLeaf: wantLeaves, phiPick: map[*ssa.Phi]int{}}
					for k, v := range picks {
						se.phiPick[k] = v
					}
					func() {
						defer func() {
							if r := recover(); r != nil {
								se.bad = fmt.Sprint(r)
							}
						}()
						_ = se.eval(tg.v)
					}()
					val := value(nil)
					if se.bad == "" {
						func() {
							defer func() {
								if r := recover(); r != nil {
									se.bad = fmt.Sprint(r)
								}
							}()
							se2 := &sliceEval{in: in, leaves: se.leaves, isLeaf: wantLeaves, phiPick: se.phiPick}
							val = se2.eval(tg.v)
						}()
					}
					if os.Getenv("GOSYM_THR_DEBUG") != "" {
						var ls []string
						for l := range se.leaves {
							ls = append(ls, l)
						}
						sort.Strings(ls)
						p := eng.fset.Position(tg.pos)
						fmt.Fprintf(os.Stderr, "  candidate %s:%d op=%s leaves=%v bad=%q\n", filepath.Base(p.Filename), p.Line, tg.op, ls, se.bad)
					}
					// leaf set must equal the wanted set
					same := se.bad == "" && len(se.leaves) == len(wantLeaves)
					if same {
						for l := range se.leaves {
							if !wantLeaves[l] {
								same = false
							}
						}
					}
					if same {
						matched++
						term := val.(*Term)
						// build script
						var sb strings.Builder
						for smt, leafN := range site.Vars {
							lt := se.leaves[leafN]
							fmt.Fprintf(&sb, "(declare-const %s (_ BitVec %d))\n", smtIdent(lt.name), lt.sort.W)
							if lt.sort.W == 64 {
								fmt.Fprintf(&sb, "(define-fun %s () (_ BitVec 64) %s)\n", smt, smtIdent(lt.name))
							} else {
								fmt.Fprintf(&sb, "(define-fun %s () (_ BitVec 64) ((_ zero_extend %d) %s))\n", smt, 64-lt.sort.W, smtIdent(lt.name))
							}
						}
						for _, a := range site.Assume {
							fmt.Fprintf(&sb, "(assert %s)\n", a)
						}
						pos := eng.fset.Position(tg.pos)
						where := fmt.Sprintf("%s:%d", strings.TrimPrefix(pos.Filename, repoDir+"/"), pos.Line)
						codeTerm := term.String()
						okIdx := -1
						var lastModel string
						for i, f := range site.Allowed {
							script := sb.String()
							if site.Kind == "cond" {
								script += fmt.Sprintf("(assert (xor %s %s))\n", codeTerm, f)
							} else {
								ct := codeTerm
								if term.sort.W < 64 {
									ct = fmt.Sprintf("((_ sign_extend %d) %s)", 64-term.sort.W, ct)
								}
								script += fmt.Sprintf("(assert (not (= %s %s)))\n", ct, f)
							}
							var names []string
							for smt := range site.Vars {
								names = append(names, smt)
							}
							sort.Strings(names)
							script += "(check-sat)\n(get-value (" + strings.Join(names, " ") + "))\n"
							r, rest := runZ3(script)
							if r == "unsat" {
								okIdx = i
								break
							}
							if r == "sat" {
								lastModel = strings.TrimSpace(rest)
							} else {
								problem(fmt.Sprintf("site %s at %s: solver answered %s", site.Name, where, r))
							}
						}
						nObl++
						rec := map[string]interface{}{"site": site.Name, "where": where, "kind": site.Kind, "code_term": codeTerm}
						if okIdx >= 0 {
							nDis++
							rec["equivalent_to"] = site.Allowed[okIdx]
							rec["verdict"] = "unsat (equivalent for all values within the assumptions)"
						} else {
							nViol++
							exit = 1
							rec["verdict"] = "differs from every allowed formula"
							rec["counterexample"] = lastModel
							rp := filepath.Join(replayDir(), fmt.Sprintf("%s-%s-%d.json", spec.Property, site.Name, nViol))
							os.MkdirAll(filepath.Dir(rp), 0755)
							rb, _ := json.MarshalIndent(rec, "", " ")
							os.WriteFile(rp, rb, 0644)
							fmt.Printf("VIOLATION property=%s replay=%s\n", spec.Property, rp)
							fmt.Printf("  site=%s %s: code computes %s ; counterexample %s\n", site.Name, where, codeTerm, strings.ReplaceAll(lastModel, "\n", " "))
						}
						if len(samples) < 16 {
							samples = append(samples, rec)
						}
						sitesOut = append(sitesOut, rec)
					}
					// next combination
					adv := false
					for _, p := range se.phis {
						if picks[p]+1 < len(p.Edges) {
							picks[p]++
							adv = true
							break
						}
						picks[p] = 0
					}
					if !adv || len(se.phis) == 0 {
						break
					}
				}
			}
			min := site.MinSites
			if min == 0 {
				min = 1
			}
			if matched < min {
				problem(fmt.Sprintf("site %s: expected at least %d threshold expression(s) over leaves %v in %s, found %d (code restructured?)", site.Name, min, keysOf(wantLeaves), site.Function, matched))
			}
		}
		in.sol.Close()
	}
	// pure arithmetic lemmas
	for _, lm := range spec.Lemmas {
		var sb strings.Builder
		for _, v := range lm.Vars {
			fmt.Fprintf(&sb, "(declare-const %s (_ BitVec 64))\n", v)
		}
		for _, a := range lm.Assume {
			fmt.Fprintf(&sb, "(assert %s)\n", a)
		}
		fmt.Fprintf(&sb, "(assert (not %s))\n(check-sat)\n(get-value (%s))\n", lm.Formula, strings.Join(lm.Vars, " "))
		r, rest := runZ3(sb.String())
		nObl++
		rec := map[string]interface{}{"lemma": lm.Name, "formula": lm.Formula, "assume": lm.Assume}
		switch r {
		case "unsat":
			nDis++
			rec["verdict"] = "unsat (valid for all values within the assumptions)"
		case "sat":
			nViol++
			exit = 1
			rec["verdict"] = "counterexample"
			rec["counterexample"] = strings.TrimSpace(rest)
			rp := filepath.Join(replayDir(), fmt.Sprintf("%s-lemma-%s.json", spec.Property, lm.Name))
			os.MkdirAll(filepath.Dir(rp), 0755)
			rb, _ := json.MarshalIndent(rec, "", " ")
			os.WriteFile(rp, rb, 0644)
			fmt.Printf("VIOLATION property=%s replay=%s\n", spec.Property, rp)
		default:
			problem("lemma " + lm.Name + ": solver answered " + r)
		}
		if len(samples) < 24 {
			samples = append(samples, rec)
		}
	}
	if len(samples) == 0 {
		samples = append(samples, "nothing checked")
	}
	var fl []string
	for f := range funcsEncoded {
		fl = append(fl, f)
	}
	sort.Strings(fl)
	assumes := spec.Assumes
	if assumes == nil {
		assumes = []string{}
	}
	outside := spec.Outside
	if outside == nil {
		outside = []string{}
	}
	ev := map[string]interface{}{
		"property_id": spec.Property, "tier": *tier, "seed": seed, "level": "model_checking", "wall_s": time.Since(t0).Seconds(), "violations": nViol,
		"assumptions": assumes,
		"coverage": map[string]interface{}{
			"states": maxInt(nObl, 1), "transitions": maxInt(queries, 1), "traces_validated_against_impl": 0, "samples": samples,
			"obligations": nObl, "discharged": nDis, "functions_encoded": fl, "outside_claim": outside,
			"solver":      map[string]interface{}{"kind": "z3", "queries": queries, "solver_s": solverT.Seconds()},
			"explanation": "states = obligations (one per extracted threshold expression and phi-edge variant, plus arithmetic lemmas); transitions = solver queries; each obligation is a bit-vector equivalence/validity query answered unsat for all values within the stated assumptions",
			"exhaustive":  exit == 0,
		},
	}
	eb, _ := json.MarshalIndent(ev, "", " ")
	os.MkdirAll(filepath.Dir(*evPath), 0755)
	os.WriteFile(*evPath, eb, 0644)
	fmt.Printf("property=%s tier=%s obligations=%d discharged=%d violations=%d queries=%d wall=%.1fs exit=%d\n", spec.Property, *tier, nObl, nDis, nViol, queries, time.Since(t0).Seconds(), exit)
	return exit
}

func keysOf(m map[string]bool) []string {
	var k []string
	for x := range m {
		k = append(k, x)
	}
	sort.Strings(k)
	return k
}

func maxInt(a, b int) int {
	if a > b {
		return a
	}
	return b
}

// replayDir is evidence/replay unless GOSYM_REPLAY_DIR redirects it (runs against scratch trees).
func replayDir() string {
	if d := os.Getenv("GOSYM_REPLAY_DIR"); d != "" {
		return d
	}
	return filepath.Join(verifDir, "evidence", "replay")
}
