package main

import (
	"fmt"
	"go/types"
	"strings"
	"sync"

	"golang.org/x/tools/go/ssa"
)

// Lock-discipline monitor (spec "guarded"): while switched on by zzsym.Guard(true), every FieldAddr of a guarded
// struct field executed while the struct's mutex field is not held (read or write) records the event
// "unguarded access to <Struct>.<field> in <function>". With "write": true a MapUpdate / delete / Store through
// the field additionally needs the exclusive lock — approximated at function granularity: the access is
// reported when the mutex is only read-locked and the enclosing function contains a write through that field.
// Harnesses list "unguarded access" under forbid_events. This decides, for every path the harness explores,
// that the shared state is touched only inside its critical sections; it says nothing about the order of
// critical sections of different goroutines (that is the sequential specification's part).

type GuardSpec struct {
	Struct string `json:"struct"` // import/path.TypeName
	Field  string `json:"field"`
	Mutex  string `json:"mutex"` // field name of the sync.Mutex / sync.RWMutex (embedded: the type name)
}

type guard struct {
	named        *types.Named
	field, mutex int
	label        string
}

func (e *Engine) resolveGuards(specs []GuardSpec) error {
	e.guards = nil
	for _, g := range specs {
		i := strings.LastIndex(g.Struct, ".")
		if i < 0 {
			return fmt.Errorf("guarded: bad struct name %q", g.Struct)
		}
		pkg := e.prog.ImportedPackage(g.Struct[:i])
		if pkg == nil {
			return fmt.Errorf("guarded: package %q not loaded", g.Struct[:i])
		}
		obj := pkg.Pkg.Scope().Lookup(g.Struct[i+1:])
		if obj == nil {
			return fmt.Errorf("guarded: type %q not found", g.Struct)
		}
		named, _ := obj.Type().(*types.Named)
		st, _ := obj.Type().Underlying().(*types.Struct)
		if named == nil || st == nil {
			return fmt.Errorf("guarded: %q is not a struct type", g.Struct)
		}
		fi, mi := -1, -1
		for k := 0; k < st.NumFields(); k++ {
			if st.Field(k).Name() == g.Field {
				fi = k
			}
			if st.Field(k).Name() == g.Mutex {
				mi = k
			}
		}
		if fi < 0 || mi < 0 {
			return fmt.Errorf("guarded: %s: field %q or mutex %q not found", g.Struct, g.Field, g.Mutex)
		}
		e.guards = append(e.guards, guard{named, fi, mi, g.Struct[i+1:] + "." + g.Field})
	}
	return nil
}

func (in *Interp) checkGuard(fr *frame, ins *ssa.FieldAddr) {
	pt, ok := ins.X.Type().Underlying().(*types.Pointer)
	if !ok {
		return
	}
	for _, g := range in.eng.guards {
		if ins.Field != g.field || !types.Identical(pt.Elem(), g.named) {
			continue
		}
		p, ok := fr.get(ins.X).(*value)
		if !ok || p == nil {
			return
		}
		st, ok := (*p).(structure)
		if !ok {
			return
		}
		held := in.ps.mutexes[&st[g.mutex]]
		if held == 0 {
			in.ps.events = append(in.ps.events, "unguarded access to "+g.label+" in "+fr.fn.String())
		} else if held > 0 && writesThrough(fr.fn, g) {
			in.ps.events = append(in.ps.events, "unguarded access (write under a read lock) to "+g.label+" in "+fr.fn.String())
		}
	}
}

var (
	writesCache = map[string]bool{}
	writesMu    sync.Mutex
)

// does fn store to, or update/delete in a map loaded from, the guarded field?
func writesThrough(fn *ssa.Function, g guard) bool {
	key := fn.String() + "|" + g.label
	writesMu.Lock()
	defer writesMu.Unlock()
	if w, ok := writesCache[key]; ok {
		return w
	}
	w := false
	isField := func(v ssa.Value) bool {
		fa, ok := v.(*ssa.FieldAddr)
		if !ok || fa.Field != g.field {
			return false
		}
		pt, ok := fa.X.Type().Underlying().(*types.Pointer)
		return ok && types.Identical(pt.Elem(), g.named)
	}
	fromField := func(v ssa.Value) bool {
		u, ok := v.(*ssa.UnOp)
		return ok && isField(u.X)
	}
	for _, b := range fn.Blocks {
		for _, ins := range b.Instrs {
			switch x := ins.(type) {
			case *ssa.Store:
				if isField(x.Addr) {
					w = true
				}
			case *ssa.MapUpdate:
				if fromField(x.Map) {
					w = true
				}
			case *ssa.Call:
				if bi, ok := x.Call.Value.(*ssa.Builtin); ok && bi.Name() == "delete" && len(x.Call.Args) > 0 && fromField(x.Call.Args[0]) {
					w = true
				}
			}
		}
	}
	writesCache[key] = w
	return w
}

func init() {
	intrinsicTable[zzsymPath+".Guard"] = func(fr *frame, a []value) value {
		t, _ := a[0].(*Term)
		fr.in.ps.guardOn = t != nil && t.isConst() && t.val != 0
		return nil
	}
}
