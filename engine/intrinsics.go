package main

import (
	"crypto/sha256"
	"crypto/sha512"
	"fmt"
	"go/types"
	"math"
	"strings"

	"golang.org/x/tools/go/ssa"
)

var intrinsicTable = map[string]intrinsicFn{}

func init() {
	for k, v := range map[string]intrinsicFn{
		// ---- harness API
		zzsymPath + ".Bool":       zzBool,
		zzsymPath + ".U8":         func(fr *frame, a []value) value { return zzInt(fr, a, 8) },
		zzsymPath + ".U16":        func(fr *frame, a []value) value { return zzInt(fr, a, 16) },
		zzsymPath + ".U32":        func(fr *frame, a []value) value { return zzInt(fr, a, 32) },
		zzsymPath + ".U64":        func(fr *frame, a []value) value { return zzInt(fr, a, 64) },
		zzsymPath + ".I8":         func(fr *frame, a []value) value { return zzInt(fr, a, 8) },
		zzsymPath + ".I16":        func(fr *frame, a []value) value { return zzInt(fr, a, 16) },
		zzsymPath + ".I32":        func(fr *frame, a []value) value { return zzInt(fr, a, 32) },
		zzsymPath + ".I64":        func(fr *frame, a []value) value { return zzInt(fr, a, 64) },
		zzsymPath + ".Int":        func(fr *frame, a []value) value { return zzInt(fr, a, 64) },
		zzsymPath + ".Bytes":      zzBytes,
		zzsymPath + ".BytesUpTo":  zzBytesUpTo,
		zzsymPath + ".Assume":     zzAssume,
		zzsymPath + ".Assert":     zzAssert,
		zzsymPath + ".Cover":      zzCover,
		zzsymPath + ".Param":      zzParam,
		zzsymPath + ".Choose":     zzChoose,
		zzsymPath + ".Symbolic":   func(fr *frame, a []value) value { return fr.in.ctx.tt },
		zzsymPath + ".Note":       func(fr *frame, a []value) value { return nil },
		zzsymPath + ".Event":      zzEvent,
		zzsymPath + ".Concretize": zzConcretize,
		zzsymPath + ".Ite64": func(fr *frame, a []value) value {
			return fr.in.ctx.Ite(a[0].(*Term), a[1].(*Term), a[2].(*Term))
		},
		zzsymPath + ".IsSymbolic": func(fr *frame, a []value) value {
			t, ok := a[0].(*Term)
			return fr.in.ctx.Bool(ok && !t.isConst())
		},

		// ---- bytealg / bytes
		"internal/bytealg.Equal":           bytesEqual,
		"bytes.Equal":                      bytesEqual,
		"internal/bytealg.Compare":         bytesCompare,
		"bytes.Compare":                    bytesCompare,
		"internal/bytealg.IndexByte":       indexByte,
		"internal/bytealg.IndexByteString": indexByte,
		"bytes.IndexByte":                  indexByte,
		"strings.IndexByte":                indexByte,
		"internal/bytealg.MakeNoZero": func(fr *frame, a []value) value {
			n := a[0].(*Term)
			return fr.in.makeSlice(types.Typ[types.Uint8], n, n)
		},
		"internal/bytealg.CountString": countByte,
		"internal/bytealg.Count":       countByte,
		"internal/bytealg.Index":       concreteIndex,
		"internal/bytealg.IndexString": concreteIndex,
		"strings.Index":                concreteIndex,
		"bytes.Index":                  concreteIndex,

		// ---- hashes
		"crypto/sha256.Sum256":                        func(fr *frame, a []value) value { return hashSum(fr, "sha256", 32, a[0].(SliceV)) },
		"crypto/sha512.Sum512":                        func(fr *frame, a []value) value { return hashSum(fr, "sha512", 64, a[0].(SliceV)) },
		"crypto/sha256.New":                           func(fr *frame, a []value) value { return newHashObj(fr, "sha256", 32, 64) },
		"crypto/sha512.New":                           func(fr *frame, a []value) value { return newHashObj(fr, "sha512", 64, 128) },
		"golang.org/x/crypto/ripemd160.New":           func(fr *frame, a []value) value { return newHashObj(fr, "ripemd160", 20, 64) },
		"golang.org/x/crypto/sha3.NewLegacyKeccak256": func(fr *frame, a []value) value { return newHashObj(fr, "keccak256", 32, 136) },
		"golang.org/x/crypto/sha3.New256":             func(fr *frame, a []value) value { return newHashObj(fr, "sha3_256", 32, 136) },
		"golang.org/x/crypto/sha3.Sum256":             func(fr *frame, a []value) value { return hashSum(fr, "sha3_256", 32, a[0].(SliceV)) },

		// ---- sync
		"(*sync.Mutex).Lock":               mutexOp(+1, true),
		"(*sync.Mutex).Unlock":             mutexOp(-1, true),
		"(*sync.Mutex).TryLock":            func(fr *frame, a []value) value { mutexOp(+1, true)(fr, a); return fr.in.ctx.tt },
		"(*sync.RWMutex).Lock":             mutexOp(+1, true),
		"(*sync.RWMutex).Unlock":           mutexOp(-1, true),
		"(*sync.RWMutex).RLock":            mutexOp(+1, false),
		"(*sync.RWMutex).RUnlock":          mutexOp(-1, false),
		"(*sync.WaitGroup).Add":            noop,
		"(*sync.WaitGroup).Done":           noop,
		"(*sync.WaitGroup).Wait":           noop,
		"(*sync.Once).Do":                  onceDo,
		"(*sync.Pool).Get":                 poolGet,
		"(*sync.Pool).Put":                 noop,
		"sync.runtime_registerPoolCleanup": noop,
		"sync.runtime_notifyListCheck":     noop,

		"time.runtimeNano": func(fr *frame, a []value) value { return fr.in.ctx.I64(1000000) },
		"time.now": func(fr *frame, a []value) value {
			in := fr.in
			if !in.ps.initMode {
				in.ps.events = append(in.ps.events, "clock consulted: "+in.where(fr.caller, fr.callpos))
			}
			return tuple{in.ctx.I64(1700000000), in.ctx.BV(32, 0), in.ctx.I64(2000000)}
		},
		"time.Sleep":           noop,
		"runtime.KeepAlive":    noop,
		"runtime.GC":           noop,
		"runtime.Gosched":      noop,
		"runtime.SetFinalizer": noop,
		"runtime.GOMAXPROCS":   func(fr *frame, a []value) value { return fr.in.ctx.I64(1) },
		"runtime.NumCPU":       func(fr *frame, a []value) value { return fr.in.ctx.I64(1) },

		// ---- fmt
		"fmt.Errorf":   fmtErrorf,
		"fmt.Sprintf":  fmtSprintf,
		"fmt.Sprint":   fmtSprint,
		"fmt.Sprintln": fmtSprint,
		"fmt.Println":  fmtNoop2,
		"fmt.Printf":   fmtNoop2,
		"fmt.Print":    fmtNoop2,
		"fmt.Fprintf":  fmtNoop2,
		"fmt.Fprintln": fmtNoop2,
		"fmt.Fprint":   fmtNoop2,

		// ---- math (concrete floats)
		"math.Log2":  math1(math.Log2),
		"math.Log":   math1(math.Log),
		"math.Log10": math1(math.Log10),
		"math.Ceil":  math1(math.Ceil),
		"math.Floor": math1(math.Floor),
		"math.Sqrt":  math1(math.Sqrt),
		"math.Abs":   math1(math.Abs),
		"math.Trunc": math1(math.Trunc),
		"math.Exp":   math1(math.Exp),
		"math.Pow": func(fr *frame, a []value) value {
			return math.Pow(a[0].(float64), a[1].(float64))
		},
		"math.Float64bits": func(fr *frame, a []value) value {
			return fr.in.ctx.BV(64, math.Float64bits(a[0].(float64)))
		},
		"math.Float64frombits": func(fr *frame, a []value) value {
			t := a[0].(*Term)
			if !t.isConst() {
				panic(engineErr("Float64frombits on symbolic value"))
			}
			return math.Float64frombits(t.val)
		},
		"math.Float32bits": func(fr *frame, a []value) value {
			return fr.in.ctx.BV(32, uint64(math.Float32bits(a[0].(float32))))
		},
		"math.Float32frombits": func(fr *frame, a []value) value {
			t := a[0].(*Term)
			if !t.isConst() {
				panic(engineErr("Float32frombits on symbolic value"))
			}
			return math.Float32frombits(uint32(t.val))
		},
		"sort.Slice":       sortSlice,
		"sort.SliceStable": sortSlice,
	} {
		intrinsicTable[k] = v
	}
	for _, w := range []string{"32", "64"} {
		for _, k := range []string{"Int", "Uint"} {
			T := k + w
			intrinsicTable["sync/atomic.Load"+T] = atomicLoad
			intrinsicTable["sync/atomic.Store"+T] = atomicStore
			intrinsicTable["sync/atomic.Add"+T] = atomicAdd
			intrinsicTable["sync/atomic.Swap"+T] = atomicSwap
			intrinsicTable["sync/atomic.CompareAndSwap"+T] = atomicCAS
		}
	}
	intrinsicTable["sync/atomic.LoadPointer"] = atomicLoad
	intrinsicTable["sync/atomic.StorePointer"] = atomicStore
	intrinsicTable["sync/atomic.LoadUintptr"] = atomicLoad
	intrinsicTable["sync/atomic.StoreUintptr"] = atomicStore
	intrinsicTable["sync/atomic.CompareAndSwapPointer"] = atomicCAS
	intrinsicTable["sync/atomic.CompareAndSwapUintptr"] = atomicCAS
	intrinsicTable["sync/atomic.AddUintptr"] = atomicAdd
}

func noop(fr *frame, a []value) value { return nil }

// genericIntrinsic supplies intrinsics by package-level rules.
func genericIntrinsic(fn *ssa.Function, name string) intrinsicFn {
	if fn.Pkg == nil {
		// methods of instantiated generics etc.
		return nil
	}
	path := fn.Pkg.Pkg.Path()
	// assembly kernels with a pure-Go twin in the same package (math/big: addVV -> addVV_g, ...)
	if fn.Blocks == nil && fn.Signature.Recv() == nil {
		if g := fn.Pkg.Func(fn.Name() + "_g"); g != nil && g.Blocks != nil && types.Identical(g.Signature, fn.Signature) {
			return func(fr *frame, a []value) value {
				return fr.in.callSSA(fr.caller, fr.callpos, g, a, nil)
			}
		}
	}
	switch path {
	case polyMod + "/common/log", "log":
		return func(fr *frame, a []value) value {
			if strings.Contains(name, "Fatal") || strings.Contains(name, "Panic") {
				panic(targetPanic{v: iface{types.Typ[types.String], "log fatal"}, msg: "log.Fatal called"})
			}
			return fr.in.zeroResults(fn)
		}
	}
	return nil
}

// ---- zzsym ----

func constStr(v value) string {
	s, ok := concreteString(v)
	if !ok {
		panic(engineErr("zzsym: name/label must be a concrete string"))
	}
	return s
}

func (in *Interp) inputName(base string) string {
	ps := in.ps
	n := ps.inputNames[base]
	ps.inputNames[base] = n + 1
	if n == 0 {
		return "in!" + base
	}
	return fmt.Sprintf("in!%s#%d", base, n+1)
}

func (in *Interp) newInput(base string, s Sort) *Term {
	if in.ps.initMode {
		panic(engineErr("symbolic input during init"))
	}
	t := in.ctx.Var(in.inputName(base), s)
	in.ps.inputs = append(in.ps.inputs, t)
	// make sure it's declared in the solver even if unconstrained
	in.sol.ref(t)
	return t
}

func zzBool(fr *frame, a []value) value {
	return fr.in.newInput(constStr(a[0]), sortBool)
}

func zzInt(fr *frame, a []value, w int) value {
	return fr.in.newInput(constStr(a[0]), bvSort(w))
}

func zzBytes(fr *frame, a []value) value {
	in := fr.in
	name := constStr(a[0])
	n := in.concretize(a[1].(*Term), 1<<16, "zzsym.Bytes length")
	base := in.inputName(name)
	b := make([]*Term, n)
	for i := range b {
		t := in.ctx.Var(fmt.Sprintf("%s!%d", base, i), bvSort(8))
		in.ps.inputs = append(in.ps.inputs, t)
		in.sol.ref(t)
		b[i] = t
	}
	return in.mkBytes(b)
}

func zzBytesUpTo(fr *frame, a []value) value {
	in := fr.in
	name := constStr(a[0])
	max := in.concretize(a[1].(*Term), 1<<16, "zzsym.BytesUpTo max")
	base := in.inputName(name)
	b := make([]*Term, max)
	for i := range b {
		t := in.ctx.Var(fmt.Sprintf("%s!%d", base, i), bvSort(8))
		in.ps.inputs = append(in.ps.inputs, t)
		in.sol.ref(t)
		b[i] = t
	}
	ln := in.ctx.Var(base+"!len", bvSort(64))
	in.ps.inputs = append(in.ps.inputs, ln)
	in.sol.ref(ln)
	in.assertPC(in.ctx.Ule(ln, in.ctx.I64(int64(max))))
	s := in.mkBytes(b)
	s.len = ln
	s.cap = ln
	return s
}

func zzAssume(fr *frame, a []value) value {
	fr.in.assume(a[0].(*Term))
	return nil
}

func zzAssert(fr *frame, a []value) value {
	in := fr.in
	cond := a[0].(*Term)
	msg := constStr(a[1])
	in.ps.obligs++
	in.eng.stats.obligations.Add(1)
	if cond.isConst() {
		if cond.val == 1 {
			in.eng.stats.discharged.Add(1)
			return nil
		}
	}
	r := in.sol.Check(in.ctx.Not(cond))
	switch r {
	case "unsat":
		in.sol.PopCheck()
		in.eng.stats.discharged.Add(1)
		return nil
	case "sat":
		fn := harnessOf(fr)
		v := in.violationFromModel(fn, "assert", msg, in.where(fr.caller, fr.callpos))
		in.sol.PopCheck()
		in.ps.violations = append(in.ps.violations, *v)
		// continue on the side where the assertion holds, if any
		in.assume(cond)
		return nil
	}
	in.sol.PopCheck()
	panic(pathEnd{"unknown", "assertion '" + msg + "': " + in.sol.lastErr})
}

func harnessOf(fr *frame) *ssa.Function {
	f := fr
	for f.caller != nil {
		f = f.caller
	}
	return f.fn
}

func zzCover(fr *frame, a []value) value {
	in := fr.in
	// reachable by construction (path condition is satisfiable by invariant)
	in.ps.covers = append(in.ps.covers, constStr(a[0]))
	return nil
}

func zzEvent(fr *frame, a []value) value {
	fr.in.ps.events = append(fr.in.ps.events, constStr(a[0]))
	return nil
}

func zzParam(fr *frame, a []value) value {
	name := constStr(a[0])
	v, ok := fr.in.eng.params[name]
	if !ok {
		panic(engineErr("zzsym.Param(%q): not set in spec", name))
	}
	return fr.in.ctx.I64(int64(v))
}

func zzChoose(fr *frame, a []value) value {
	in := fr.in
	name := constStr(a[0])
	n := in.concretize(a[1].(*Term), 1<<16, "Choose n")
	// a named symbolic input constrained to the chosen value so that it appears in models
	t := in.newInput(name, bvSort(64))
	k := in.choose(n, name)
	in.assertPC(in.ctx.Eq(t, in.ctx.I64(int64(k))))
	return in.ctx.I64(int64(k))
}

func zzConcretize(fr *frame, a []value) value {
	in := fr.in
	t := a[0].(*Term)
	max := in.concretize(a[1].(*Term), 1<<20, "Concretize max")
	return in.ctx.I64(int64(in.concretize(t, max, "zzsym.Concretize")))
}

// ---- bytes ----

func (in *Interp) seqOf(v value) ([]*Term, *Term) {
	switch s := v.(type) {
	case SliceV:
		n := in.sliceMax(s)
		r := make([]*Term, n)
		for i := 0; i < n; i++ {
			r[i] = in.sliceGet(s, i).(*Term)
		}
		return r, s.len
	case string, SymStr:
		b := in.strBytes(s)
		return b, in.ctx.I64(int64(len(b)))
	}
	panic(engineErr("seqOf %T", v))
}

func bytesEqual(fr *frame, a []value) value {
	in := fr.in
	c := in.ctx
	x, lx := in.seqOf(a[0])
	y, ly := in.seqOf(a[1])
	r := c.Eq(lx, ly)
	n := len(x)
	if len(y) < n {
		n = len(y)
	}
	for i := 0; i < n && !r.isFalse(); i++ {
		var g *Term
		if lx.isConst() {
			if uint64(i) >= lx.val {
				break
			}
			g = c.tt
		} else {
			g = c.Ult(c.I64(int64(i)), lx)
		}
		r = c.And(r, c.Implies(g, c.Eq(x[i], y[i])))
	}
	return r
}

func bytesCompare(fr *frame, a []value) value {
	in := fr.in
	x, lx := in.seqOf(a[0])
	y, ly := in.seqOf(a[1])
	return in.compareBytes(x, lx, y, ly)
}

func indexByte(fr *frame, a []value) value {
	in := fr.in
	c := in.ctx
	x, lx := in.seqOf(a[0])
	b := a[1].(*Term)
	r := c.I64(-1)
	for i := len(x) - 1; i >= 0; i-- {
		g := c.And(c.Ult(c.I64(int64(i)), lx), c.Eq(x[i], b))
		r = c.Ite(g, c.I64(int64(i)), r)
	}
	return r
}

func countByte(fr *frame, a []value) value {
	in := fr.in
	c := in.ctx
	x, lx := in.seqOf(a[0])
	b := a[1].(*Term)
	r := c.zero64
	for i := range x {
		g := c.And(c.Ult(c.I64(int64(i)), lx), c.Eq(x[i], b))
		r = c.Add(r, c.Ite(g, c.one64, c.zero64))
	}
	return r
}

func concreteIndex(fr *frame, a []value) value {
	in := fr.in
	s1, ok1 := in.concreteSeq(a[0])
	s2, ok2 := in.concreteSeq(a[1])
	if ok2 && len(s2) == 1 && !ok1 {
		// one-byte concrete needle in symbolic data: same as IndexByte (what the library does for n == 1)
		return indexByte(fr, []value{a[0], in.ctx.BV(8, uint64(s2[0]))})
	}
	if !ok1 || !ok2 {
		panic(engineErr("Index on symbolic data"))
	}
	return in.ctx.I64(int64(strings.Index(s1, s2)))
}

func (in *Interp) concreteSeq(v value) (string, bool) {
	switch s := v.(type) {
	case SliceV:
		b, ok := in.concreteBytes(s)
		return string(b), ok
	}
	return concreteString(v)
}

// ---- hashes ----

func (h *HashObj) callMethod(in *Interp, fr *frame, name string, args []value) value {
	c := in.ctx
	switch name {
	case "Write":
		b := in.sliceTerms(args[0].(SliceV))
		h.buf = append(h.buf, b...)
		return tuple{c.I64(int64(len(b))), iface{}}
	case "Sum":
		d := in.hashTerms(h.kind, h.outLen(), h.buf)
		pre := args[0].(SliceV)
		return in.appendVals(pre, in.mkBytes(d), nil)
	case "Reset":
		h.buf = nil
		return nil
	case "Size":
		return c.I64(int64(h.outLen()))
	case "BlockSize":
		return c.I64(64)
	case "Read": // sha3 ShakeHash-like: read digest
		d := in.hashTerms(h.kind, h.outLen(), h.buf)
		dst := args[0].(SliceV)
		n := in.concretize(dst.len, in.sliceMax(dst), "hash Read len")
		for i := 0; i < n && i < len(d); i++ {
			in.sliceSet(dst, i, d[i], nil)
		}
		return tuple{c.I64(int64(n)), iface{}}
	}
	panic(engineErr("hash object method %s unsupported", name))
}

func (h *HashObj) outLen() int {
	switch h.kind {
	case "sha512":
		return 64
	case "ripemd160":
		return 20
	}
	return 32
}

func newHashObj(fr *frame, kind string, out, block int) value {
	h := &HashObj{kind: kind}
	// dynamic type: the declared result type of the constructor (an interface); use a private marker type
	return iface{t: fr.in.eng.hashMarkerType(fr.fn), v: h}
}

func (e *Engine) hashMarkerType(fn *ssa.Function) types.Type {
	// Use the function's result type (hash.Hash). Type assertions on it are rare.
	return fn.Signature.Results().At(0).Type()
}

func hashSum(fr *frame, kind string, out int, s SliceV) value {
	in := fr.in
	d := in.hashTerms(kind, out, in.sliceTerms(s))
	arr := make(array, out)
	for i := range arr {
		arr[i] = d[i]
	}
	return arr
}

// hashTerms returns the digest bytes: concrete when the input is concrete, else a UF application.
// Concrete points are asserted as equations over the UF once a symbolic application of the same
// family/length exists on the path, so both views stay consistent.
func (in *Interp) hashTerms(kind string, out int, data []*Term) []*Term {
	c := in.ctx
	ps := in.ps
	concrete := true
	for _, t := range data {
		if !t.isConst() {
			concrete = false
			break
		}
	}
	res := make([]*Term, out)
	whole := func(b []*Term) *Term {
		t := b[0]
		for _, x := range b[1:] {
			t = c.Concat(t, x)
		}
		return t
	}
	name := fmt.Sprintf("%s_%d", kind, len(data))
	if concrete {
		bs := make([]byte, len(data))
		for i, t := range data {
			bs[i] = byte(t.val)
		}
		digest := nativeHash(kind, bs)
		for i := range res {
			res[i] = c.byteConsts[digest[i]]
		}
		if ps.initMode || len(data) == 0 || ps.hashPending == nil {
			return res
		}
		app := hashApp{arg: whole(data), res: whole(res)}
		if ps.hashSymSeen[name] {
			in.assertPC(c.Eq(c.UF(name, bvSort(out*8), app.arg), app.res))
		} else {
			ps.hashPending[name] = append(ps.hashPending[name], app)
		}
		if in.eng.collisionFree[kind] {
			in.injectivity(kind, app)
		}
		return res
	}
	if len(data) == 0 {
		panic(engineErr("symbolic empty hash input"))
	}
	ps.usedUF = true
	arg := whole(data)
	appT := c.UF(name, bvSort(out*8), arg)
	for i := range res {
		hi := (out-i)*8 - 1
		res[i] = c.Extract(hi, hi-7, appT)
	}
	if !ps.hashSymSeen[name] {
		ps.hashSymSeen[name] = true
		for _, p := range ps.hashPending[name] {
			in.assertPC(c.Eq(c.UF(name, bvSort(out*8), p.arg), p.res))
		}
		ps.hashPending[name] = nil
	}
	if in.eng.collisionFree[kind] {
		in.injectivity(kind, hashApp{arg: arg, res: appT})
	}
	return res
}

// injectivity adds H(a)=H(b) => a=b against all earlier applications of the same family on this path
// (the explicit, per-harness collision-resistance assumption).
func (in *Interp) injectivity(kind string, app hashApp) {
	c := in.ctx
	ps := in.ps
	for _, prev := range ps.hashApps[kind] {
		if prev.arg == app.arg {
			return
		}
	}
	for _, prev := range ps.hashApps[kind] {
		if prev.res.isConst() && app.res.isConst() {
			continue
		}
		var sameArg *Term
		if prev.arg.sort != app.arg.sort {
			sameArg = c.ff
		} else {
			sameArg = c.Eq(prev.arg, app.arg)
		}
		in.assertPC(c.Implies(c.Eq(prev.res, app.res), sameArg))
	}
	ps.hashApps[kind] = append(ps.hashApps[kind], app)
}

func nativeHash(kind string, b []byte) []byte {
	switch kind {
	case "sha256":
		d := sha256.Sum256(b)
		return d[:]
	case "sha512":
		d := sha512.Sum512(b)
		return d[:]
	case "ripemd160":
		return ripemd160Sum(b)
	case "keccak256":
		return keccak256Sum(b)
	case "sha3_256":
		return sha3_256Sum(b)
	}
	panic(engineErr("nativeHash: unknown kind %s", kind))
}

// ---- sync ----

func mutexOp(delta int, write bool) intrinsicFn {
	return func(fr *frame, a []value) value {
		in := fr.in
		p, _ := a[0].(*value)
		if p == nil {
			in.runtimePanic("invalid memory address or nil pointer dereference (nil mutex)")
		}
		st := in.ps.mutexes[p]
		// state: 0 free, -1 write-locked, n>0 readers
		if delta > 0 {
			if write {
				if st != 0 {
					panic(engineErr("concurrency: Lock of a held mutex would deadlock at %s", in.where(fr.caller, fr.callpos)))
				}
				in.ps.mutexes[p] = -1
			} else {
				if st < 0 {
					panic(engineErr("concurrency: RLock of a write-held mutex would deadlock at %s", in.where(fr.caller, fr.callpos)))
				}
				in.ps.mutexes[p] = st + 1
			}
		} else {
			if write {
				if st != -1 {
					panic(targetPanic{v: iface{types.Typ[types.String], "sync: unlock of unlocked mutex"}, msg: "fatal error: sync: unlock of unlocked mutex"})
				}
				in.ps.mutexes[p] = 0
			} else {
				if st <= 0 {
					panic(targetPanic{v: iface{types.Typ[types.String], "sync: RUnlock of unlocked RWMutex"}, msg: "fatal error: sync: RUnlock of unlocked RWMutex"})
				}
				in.ps.mutexes[p] = st - 1
			}
		}
		return nil
	}
}

func onceDo(fr *frame, a []value) value {
	in := fr.in
	p := a[0].(*value)
	st := (*p).(structure)
	// field 0 is the done flag (atomic.Uint32 struct or uint32 depending on version)
	done := false
	switch d := st[0].(type) {
	case *Term:
		done = d.val != 0
	case structure:
		for _, f := range d {
			if t, ok := f.(*Term); ok && t.isConst() && t.val != 0 {
				done = true
			}
		}
	}
	if done {
		return nil
	}
	switch d := st[0].(type) {
	case *Term:
		st[0] = in.ctx.BV(d.sort.W, 1)
	case structure:
		for i, f := range d {
			if t, ok := f.(*Term); ok && t.sort.K == SBV {
				d[i] = in.ctx.BV(t.sort.W, 1)
			}
		}
	}
	in.call(fr, fr.callpos, a[1], nil)
	return nil
}

func poolGet(fr *frame, a []value) value {
	in := fr.in
	p := a[0].(*value)
	st := (*p).(structure)
	// last field is New func() any
	newFn := st[len(st)-1]
	if isNilFunc(newFn) {
		return iface{}
	}
	return in.call(fr, fr.callpos, newFn, nil)
}

func atomicLoad(fr *frame, a []value) value { return fr.in.load(a[0]) }
func atomicStore(fr *frame, a []value) value {
	fr.in.storeTo(a[0], a[1])
	return nil
}
func atomicAdd(fr *frame, a []value) value {
	in := fr.in
	v := in.ctx.Add(in.load(a[0]).(*Term), a[1].(*Term))
	in.storeTo(a[0], v)
	return v
}
func atomicSwap(fr *frame, a []value) value {
	in := fr.in
	old := in.load(a[0])
	in.storeTo(a[0], a[1])
	return old
}
func atomicCAS(fr *frame, a []value) value {
	in := fr.in
	old := in.load(a[0])
	var eq *Term
	switch o := old.(type) {
	case *Term:
		eq = in.ctx.Eq(o, a[1].(*Term))
	default:
		eq = in.ctx.Bool(old == a[1])
	}
	if in.decide(eq) {
		in.storeTo(a[0], a[2])
		return in.ctx.tt
	}
	return in.ctx.ff
}

// ---- fmt ----

func (in *Interp) mkError(msg string) value {
	ep := in.prog.ImportedPackage("errors")
	if ep == nil {
		panic(engineErr("errors package not loaded"))
	}
	T := ep.Members["errorString"].Type()
	cell := new(value)
	*cell = structure{msg}
	return iface{t: types.NewPointer(T), v: cell}
}

// goNative converts an interpreter value to a printable Go value (best effort).
func (in *Interp) goNative(v value, depth int) interface{} {
	switch x := v.(type) {
	case *Term:
		if !x.isConst() {
			return "<sym>"
		}
		if x.sort.K == SBool {
			return x.val == 1
		}
		if x.big != nil {
			return x.big.String()
		}
		return x.val
	case string:
		return x
	case SymStr:
		if s, ok := concreteString(x); ok {
			return s
		}
		return "<symstr>"
	case float64, float32:
		return x
	case iface:
		if x.t == nil {
			return nil
		}
		// error / Stringer: try Error() or String()
		if depth < 3 {
			for _, m := range []string{"Error", "String"} {
				if f := in.lookupMethodByName(x.t, m); f != nil && f.Signature.Params().Len() == 0 && f.Signature.Results().Len() == 1 && isString(f.Signature.Results().At(0).Type()) {
					r := in.tryCall(f, []value{x.v})
					if s, ok := concreteString(r); ok {
						return s
					}
				}
			}
		}
		// named integer types print signed when the type is signed
		if t, ok := x.v.(*Term); ok && t.isConst() && t.sort.K == SBV {
			if _, signed, ok := intInfo(x.t); ok && signed {
				return t.signedVal()
			}
		}
		return in.goNative(x.v, depth+1)
	case SliceV:
		if b, ok := in.concreteBytes(x); ok {
			if len(x.back) > 0 {
				if t, ok := x.back[0].(*Term); ok && t.sort.W == 8 {
					return b
				}
			}
		}
		return "<slice>"
	case array:
		bs := make([]byte, len(x))
		for i, e := range x {
			t, ok := e.(*Term)
			if !ok || !t.isConst() || t.sort.W != 8 {
				return "<array>"
			}
			bs[i] = byte(t.val)
		}
		return bs
	case *value:
		if x == nil {
			return nil
		}
		return "<ptr>"
	}
	return fmt.Sprintf("<%T>", v)
}

func (in *Interp) lookupMethodByName(t types.Type, name string) *ssa.Function {
	ms := in.prog.MethodSets.MethodSet(t)
	for i := 0; i < ms.Len(); i++ {
		sel := ms.At(i)
		if sel.Obj().Name() == name {
			return in.prog.MethodValue(sel)
		}
	}
	return nil
}

func (in *Interp) tryCall(f *ssa.Function, args []value) (r value) {
	defer func() {
		if x := recover(); x != nil {
			if _, ok := x.(pathEnd); ok {
				panic(x)
			}
			r = nil
		}
	}()
	return in.callSSA(nil, 0, f, args, nil)
}

func (in *Interp) formatArgs(format string, va value) string {
	s := va.(SliceV)
	n := in.concretize(s.len, in.sliceMax(s), "varargs")
	args := make([]interface{}, n)
	for i := 0; i < n; i++ {
		args[i] = in.goNative(in.sliceGet(s, i), 0)
	}
	return fmt.Sprintf(format, args...)
}

func fmtErrorf(fr *frame, a []value) value {
	f, ok := concreteString(a[0])
	if !ok {
		f = "<symbolic format>"
	}
	f = strings.ReplaceAll(f, "%w", "%v")
	return fr.in.mkError(fr.in.formatArgs(f, a[1]))
}

func fmtSprintf(fr *frame, a []value) value {
	f, ok := concreteString(a[0])
	if !ok {
		return "<symbolic format>"
	}
	return fr.in.formatArgs(f, a[1])
}

func fmtSprint(fr *frame, a []value) value {
	in := fr.in
	s := a[0].(SliceV)
	n := in.concretize(s.len, in.sliceMax(s), "varargs")
	args := make([]interface{}, n)
	for i := 0; i < n; i++ {
		args[i] = in.goNative(in.sliceGet(s, i), 0)
	}
	return fmt.Sprint(args...)
}

func fmtNoop2(fr *frame, a []value) value { return fr.in.zeroResults(fr.fn) }

func math1(f func(float64) float64) intrinsicFn {
	return func(fr *frame, a []value) value { return f(a[0].(float64)) }
}

// ---- sort.Slice: insertion sort driven by the interpreted less function ----

func sortSlice(fr *frame, a []value) value {
	in := fr.in
	x := a[0].(iface)
	s, ok := x.v.(SliceV)
	if !ok {
		panic(engineErr("sort.Slice of %T", x.v))
	}
	n := in.concretize(s.len, in.sliceMax(s), "sort.Slice length")
	less := a[1]
	c := in.ctx
	for i := 1; i < n; i++ {
		for j := i; j > 0; j-- {
			r := in.call(fr, fr.callpos, less, []value{c.I64(int64(j)), c.I64(int64(j - 1))}).(*Term)
			if !in.decide(r) {
				break
			}
			vj := copyVal(in.sliceGet(s, j))
			vi := copyVal(in.sliceGet(s, j-1))
			in.sliceSet(s, j, vi, nil)
			in.sliceSet(s, j-1, vj, nil)
		}
	}
	return nil
}
