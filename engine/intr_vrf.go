package main

// vrf.ValidatePublicKey on engine key objects (added for the node_manager harnesses: C32/C33/C34/C18).
//
// The real function type-switches on the key and asks whether the curve has a VRF hash. The engine's key
// objects carry the canonical serialization; for a concrete key the real library decides, for a symbolic
// key the answer is an uninterpreted predicate of the canonical bytes.

import (
	"fmt"

	okeypair "github.com/ontio/ontology-crypto/keypair"
	ovrf "github.com/ontio/ontology-crypto/vrf"
)

func init() {
	intrinsicTable[ocPath+"vrf.ValidatePublicKey"] = vrfValidatePublicKey
}

func vrfValidatePublicKey(fr *frame, a []value) value {
	in := fr.in
	c := in.ctx
	k := asPubKey(a[0])
	if k == nil {
		return c.ff
	}
	bs := make([]byte, len(k.b))
	for i, t := range k.b {
		if !t.isConst() {
			in.ps.usedUF = true
			return c.UF(fmt.Sprintf("vrfvalid_%d", len(k.b)), sortBool, k.b...)
		}
		bs[i] = byte(t.val)
	}
	pk, err := okeypair.DeserializePublicKey(bs)
	if err != nil {
		return c.ff
	}
	if ovrf.ValidatePublicKey(pk) {
		return c.tt
	}
	return c.ff
}
