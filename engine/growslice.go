package main

import "go/types"

// Capacity growth of append, as implemented by the Go 1.23 runtime (growslice + malloc size classes).
// Aliasing after append and cap() are observable (poly's coin selector slices with cap()-1), so the
// engine follows the runtime exactly whenever lengths are concrete.

var sizeClasses = []int64{0, 8, 16, 24, 32, 48, 64, 80, 96, 112, 128, 144, 160, 176, 192, 208, 224, 240, 256, 288, 320, 352, 384, 416, 448, 480, 512, 576, 640, 704, 768, 896, 1024, 1152, 1280, 1408, 1536, 1792, 2048, 2304, 2688, 3072, 3200, 3456, 4096, 4864, 5120, 5376, 6144, 6528, 6784, 6912, 8192, 9472, 9728, 10240, 10880, 12288, 13568, 14336, 16384, 18432, 19072, 20480, 21760, 24576, 27264, 28672, 32768}

func roundupsize(size int64, noscan bool) int64 {
	reqSize := size
	if !noscan && reqSize > 512 {
		reqSize += 8 // malloc header
	}
	if reqSize <= 32768-8 || (noscan && reqSize <= 32768) {
		for _, c := range sizeClasses {
			if c >= reqSize {
				return c - (reqSize - size)
			}
		}
	}
	// large object: whole pages
	const page = 8192
	return (size + page - 1) / page * page
}

func hasPointers(T types.Type) bool {
	switch t := T.Underlying().(type) {
	case *types.Basic:
		return t.Kind() == types.String || t.Kind() == types.UnsafePointer
	case *types.Array:
		return t.Len() > 0 && hasPointers(t.Elem())
	case *types.Struct:
		for i := 0; i < t.NumFields(); i++ {
			if hasPointers(t.Field(i).Type()) {
				return true
			}
		}
		return false
	}
	return true
}

func goGrowCap(oldCap, newLen int64, elemSize int64, noscan bool) int64 {
	newcap := oldCap
	doublecap := newcap + newcap
	if newLen > doublecap {
		newcap = newLen
	} else if oldCap < 256 {
		newcap = doublecap
	} else {
		for {
			newcap += (newcap + 3*256) >> 2
			if newcap >= newLen {
				break
			}
		}
	}
	if elemSize <= 0 {
		return newcap
	}
	mem := roundupsize(newcap*elemSize, noscan)
	return mem / elemSize
}
