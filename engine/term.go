package main

// SMT term DAG with constant folding. Sorts: Bool, BitVec(w), Int.
// Constants of width <= 64 are kept in val; Int constants in big.

import (
	"fmt"
	"math/big"
	"strings"
)

type SortKind uint8

const (
	SBool SortKind = iota
	SBV
	SInt
	SFP // IEEE double
)

type Sort struct {
	K SortKind
	W int // bit width for SBV
}

func (s Sort) String() string {
	switch s.K {
	case SBool:
		return "Bool"
	case SInt:
		return "Int"
	case SFP:
		return "(_ FloatingPoint 11 53)"
	}
	return fmt.Sprintf("(_ BitVec %d)", s.W)
}

var sortBool = Sort{SBool, 0}
var sortInt = Sort{SInt, 0}
var sortFP = Sort{SFP, 0}

func bvSort(w int) Sort { return Sort{SBV, w} }

type Op uint8

const (
	OConst Op = iota
	OVar
	OUF // uninterpreted function application: name, args
	ONot
	OAnd
	OOr
	OEq
	OIte
	OBvAdd
	OBvSub
	OBvMul
	OBvUDiv
	OBvURem
	OBvSDiv
	OBvSRem
	OBvAnd
	OBvOr
	OBvXor
	OBvNot
	OBvNeg
	OBvShl
	OBvLshr
	OBvAshr
	OBvUlt
	OBvUle
	OBvSlt
	OBvSle
	OConcat
	OExtract // p1=hi p2=lo
	OZext    // to sort width
	OSext
	OIntAdd
	OIntSub
	OIntMul
	OIntDiv // SMT-LIB div (euclidean-ish floor for positive divisor)
	OIntMod
	OIntLe
	OIntLt
	OIntNeg
	OBv2Nat
	OInt2Bv
	OFpFromUBV
	OFpFromSBV
	OFpAdd
	OFpSub
	OFpMul
	OFpDiv
	OFpLt
	OFpLe
	OFpEq
	OFpNeg
	OFpToUBV // p1 = width
	OFpToSBV
)

var opNames = map[Op]string{
	ONot: "not", OAnd: "and", OOr: "or", OEq: "=", OIte: "ite",
	OBvAdd: "bvadd", OBvSub: "bvsub", OBvMul: "bvmul", OBvUDiv: "bvudiv", OBvURem: "bvurem",
	OBvSDiv: "bvsdiv", OBvSRem: "bvsrem", OBvAnd: "bvand", OBvOr: "bvor", OBvXor: "bvxor",
	OBvNot: "bvnot", OBvNeg: "bvneg", OBvShl: "bvshl", OBvLshr: "bvlshr", OBvAshr: "bvashr",
	OBvUlt: "bvult", OBvUle: "bvule", OBvSlt: "bvslt", OBvSle: "bvsle", OConcat: "concat",
	OIntAdd: "+", OIntSub: "-", OIntMul: "*", OIntDiv: "div", OIntMod: "mod", OIntLe: "<=", OIntLt: "<",
	OIntNeg: "-", OBv2Nat: "bv2nat",
}

type Term struct {
	op     Op
	sort   Sort
	args   []*Term
	val    uint64   // const BV<=64 / bool (0/1)
	big    *big.Int // const Int or wide BV
	name   string   // var / UF name
	p1, p2 int
	id     int
	size   int // dag size estimate (tree size, saturating)
}

func (t *Term) isConst() bool { return t.op == OConst }

// Ctx owns hash-consing tables. One per worker.
type Ctx struct {
	tab           map[string]*Term
	nextID        int
	vars          []*Term // declared vars in creation order
	ufs           map[string]ufSig
	tt, ff        *Term
	byteConsts    [256]*Term
	zero64, one64 *Term
}

type ufSig struct {
	args []Sort
	ret  Sort
}

func NewCtx() *Ctx {
	c := &Ctx{tab: map[string]*Term{}, ufs: map[string]ufSig{}}
	c.tt = &Term{op: OConst, sort: sortBool, val: 1, id: -1, size: 1}
	c.ff = &Term{op: OConst, sort: sortBool, val: 0, id: -2, size: 1}
	for i := range c.byteConsts {
		c.byteConsts[i] = &Term{op: OConst, sort: bvSort(8), val: uint64(i), id: -3, size: 1}
	}
	c.zero64 = c.BV(64, 0)
	c.one64 = c.BV(64, 1)
	return c
}

func mask(w int) uint64 {
	if w >= 64 {
		return ^uint64(0)
	}
	return (uint64(1) << uint(w)) - 1
}

func (c *Ctx) Bool(b bool) *Term {
	if b {
		return c.tt
	}
	return c.ff
}

func (c *Ctx) BV(w int, v uint64) *Term {
	if w > 64 {
		panic("BV const too wide; use BVBig")
	}
	if w == 8 && c.byteConsts[0] != nil {
		return c.byteConsts[v&0xff]
	}
	return &Term{op: OConst, sort: bvSort(w), val: v & mask(w), id: -3, size: 1}
}

func (c *Ctx) BVBig(w int, v *big.Int) *Term {
	if w <= 64 {
		return c.BV(w, v.Uint64())
	}
	m := new(big.Int).Lsh(big.NewInt(1), uint(w))
	x := new(big.Int).Mod(v, m)
	return &Term{op: OConst, sort: bvSort(w), big: x, id: -3, size: 1}
}

func (c *Ctx) IntConst(v *big.Int) *Term {
	return &Term{op: OConst, sort: sortInt, big: new(big.Int).Set(v), id: -3, size: 1}
}

func (c *Ctx) mk(op Op, s Sort, name string, p1, p2 int, args ...*Term) *Term {
	var sb strings.Builder
	fmt.Fprintf(&sb, "%d|%d.%d|%s|%d|%d", op, s.K, s.W, name, p1, p2)
	for _, a := range args {
		if a.isConst() {
			if a.big != nil {
				fmt.Fprintf(&sb, "|c%d.%d:%s", a.sort.K, a.sort.W, a.big.String())
			} else {
				fmt.Fprintf(&sb, "|c%d.%d:%d", a.sort.K, a.sort.W, a.val)
			}
		} else {
			fmt.Fprintf(&sb, "|%d", a.id)
		}
	}
	k := sb.String()
	if t, ok := c.tab[k]; ok {
		return t
	}
	sz := 1
	for _, a := range args {
		sz += a.size
		if sz > 1<<30 {
			sz = 1 << 30
		}
	}
	c.nextID++
	t := &Term{op: op, sort: s, args: append([]*Term(nil), args...), name: name, p1: p1, p2: p2, id: c.nextID, size: sz}
	c.tab[k] = t
	return t
}

func (c *Ctx) Var(name string, s Sort) *Term {
	k := fmt.Sprintf("%d|%d.%d|%s|0|0", OVar, s.K, s.W, name)
	if t, ok := c.tab[k]; ok {
		return t
	}
	t := c.mk(OVar, s, name, 0, 0)
	c.vars = append(c.vars, t)
	return t
}

func (c *Ctx) UF(name string, ret Sort, args ...*Term) *Term {
	if _, ok := c.ufs[name]; !ok {
		sig := ufSig{ret: ret}
		for _, a := range args {
			sig.args = append(sig.args, a.sort)
		}
		c.ufs[name] = sig
	}
	return c.mk(OUF, ret, name, 0, 0, args...)
}

func signExt(v uint64, w int) int64 {
	if w >= 64 {
		return int64(v)
	}
	sh := uint(64 - w)
	return int64(v<<sh) >> sh
}

func (c *Ctx) Not(a *Term) *Term {
	if a.isConst() {
		return c.Bool(a.val == 0)
	}
	if a.op == ONot {
		return a.args[0]
	}
	return c.mk(ONot, sortBool, "", 0, 0, a)
}

func (c *Ctx) And(a, b *Term) *Term {
	if a.isConst() {
		if a.val == 0 {
			return c.ff
		}
		return b
	}
	if b.isConst() {
		if b.val == 0 {
			return c.ff
		}
		return a
	}
	if a == b {
		return a
	}
	return c.mk(OAnd, sortBool, "", 0, 0, a, b)
}

func (c *Ctx) Or(a, b *Term) *Term {
	if a.isConst() {
		if a.val == 1 {
			return c.tt
		}
		return b
	}
	if b.isConst() {
		if b.val == 1 {
			return c.tt
		}
		return a
	}
	if a == b {
		return a
	}
	return c.mk(OOr, sortBool, "", 0, 0, a, b)
}

func (c *Ctx) Implies(a, b *Term) *Term { return c.Or(c.Not(a), b) }

func constEq(a, b *Term) bool {
	if a.big != nil || b.big != nil {
		if a.big == nil || b.big == nil {
			return false
		}
		return a.big.Cmp(b.big) == 0
	}
	return a.val == b.val
}

func (c *Ctx) Eq(a, b *Term) *Term {
	if a.sort != b.sort {
		panic(fmt.Sprintf("Eq sort mismatch %v %v", a.sort, b.sort))
	}
	if a.isConst() && b.isConst() {
		return c.Bool(constEq(a, b))
	}
	if a == b {
		return c.tt
	}
	if a.sort.K == SBool {
		if a.isConst() {
			if a.val == 1 {
				return b
			}
			return c.Not(b)
		}
		if b.isConst() {
			if b.val == 1 {
				return a
			}
			return c.Not(a)
		}
	}
	if a.isConst() && !b.isConst() {
		a, b = b, a
	}
	// ite(c, k1, k2) == k  folding (common after merges)
	if b.isConst() && a.op == OIte && a.args[1].isConst() && a.args[2].isConst() {
		t1 := constEq(a.args[1], b)
		t2 := constEq(a.args[2], b)
		switch {
		case t1 && t2:
			return c.tt
		case t1:
			return a.args[0]
		case t2:
			return c.Not(a.args[0])
		default:
			return c.ff
		}
	}
	if a.isConst() && !b.isConst() {
		a, b = b, a
	}
	if !a.isConst() && !b.isConst() && a.id > b.id {
		a, b = b, a
	}
	return c.mk(OEq, sortBool, "", 0, 0, a, b)
}

func (c *Ctx) Ite(cond, a, b *Term) *Term {
	if cond.isConst() {
		if cond.val == 1 {
			return a
		}
		return b
	}
	if a == b {
		return a
	}
	if a.isConst() && b.isConst() && constEq(a, b) && a.sort == b.sort {
		return a
	}
	if a.sort.K == SBool {
		if a.isConst() && b.isConst() {
			if a.val == 1 {
				return cond
			}
			return c.Not(cond)
		}
		if a.isConst() {
			if a.val == 1 {
				return c.Or(cond, b)
			}
			return c.And(c.Not(cond), b)
		}
		if b.isConst() {
			if b.val == 1 {
				return c.Or(c.Not(cond), a)
			}
			return c.And(cond, a)
		}
	}
	return c.mk(OIte, a.sort, "", 0, 0, cond, a, b)
}

func (c *Ctx) bvBin(op Op, a, b *Term) *Term {
	if a.sort != b.sort || a.sort.K != SBV {
		panic(fmt.Sprintf("bvBin %s sort mismatch %v %v", opNames[op], a.sort, b.sort))
	}
	w := a.sort.W
	if a.isConst() && b.isConst() && w <= 64 {
		x, y := a.val, b.val
		var r uint64
		switch op {
		case OBvAdd:
			r = x + y
		case OBvSub:
			r = x - y
		case OBvMul:
			r = x * y
		case OBvUDiv:
			if y == 0 {
				r = mask(w)
			} else {
				r = x / y
			}
		case OBvURem:
			if y == 0 {
				r = x
			} else {
				r = x % y
			}
		case OBvSDiv:
			sx, sy := signExt(x, w), signExt(y, w)
			if sy == 0 {
				if sx >= 0 {
					r = mask(w)
				} else {
					r = 1
				}
			} else if sy == -1 {
				r = uint64(-sx)
			} else {
				r = uint64(sx / sy)
			}
		case OBvSRem:
			sx, sy := signExt(x, w), signExt(y, w)
			if sy == 0 {
				r = x
			} else if sy == -1 {
				r = 0
			} else {
				r = uint64(sx % sy)
			}
		case OBvAnd:
			r = x & y
		case OBvOr:
			r = x | y
		case OBvXor:
			r = x ^ y
		case OBvShl:
			if y >= uint64(w) {
				r = 0
			} else {
				r = x << y
			}
		case OBvLshr:
			if y >= uint64(w) {
				r = 0
			} else {
				r = x >> y
			}
		case OBvAshr:
			sx := signExt(x, w)
			if y >= uint64(w) {
				if sx < 0 {
					r = mask(w)
				} else {
					r = 0
				}
			} else {
				r = uint64(sx >> y)
			}
		}
		return c.BV(w, r)
	}
	// identities
	switch op {
	case OBvAdd:
		if a.isConst() && a.big == nil && a.val == 0 {
			return b
		}
		if b.isConst() && b.big == nil && b.val == 0 {
			return a
		}
		if a.isConst() {
			a, b = b, a
		}
		// (x + k1) + k2
		if b.isConst() && w <= 64 && a.op == OBvAdd && a.args[1].isConst() {
			return c.bvBin(OBvAdd, a.args[0], c.BV(w, a.args[1].val+b.val))
		}
	case OBvSub:
		if b.isConst() && b.big == nil && b.val == 0 {
			return a
		}
		if a == b {
			return c.BVBig(w, big.NewInt(0))
		}
		if b.isConst() && w <= 64 {
			return c.bvBin(OBvAdd, a, c.BV(w, -b.val))
		}
	case OBvMul:
		if a.isConst() {
			a, b = b, a
		}
		if b.isConst() && b.big == nil {
			if b.val == 0 {
				return b
			}
			if b.val == 1 {
				return a
			}
		}
	case OBvAnd:
		if a.isConst() {
			a, b = b, a
		}
		if b.isConst() && b.big == nil {
			if b.val == 0 {
				return b
			}
			if b.val == mask(w) && w <= 64 {
				return a
			}
		}
		if a == b {
			return a
		}
	case OBvOr:
		// byte assembly  zext(x) | zext(y)<<k  with k = width(x)  ==>  zext(concat(y, x))
		if ia, sa, ok := placed(a); ok {
			if ib, sb, ok := placed(b); ok {
				if sa > sb {
					ia, sa, ib, sb = ib, sb, ia, sa
				}
				if sb == sa+ia.sort.W && sb+ib.sort.W <= w {
					cc := c.Concat(ib, ia)
					r := c.Zext(w, cc)
					if sa > 0 {
						r = c.bvBin(OBvShl, r, c.BVBig(w, big.NewInt(int64(sa))))
					}
					return r
				}
			}
		}
		if a.isConst() {
			a, b = b, a
		}
		if b.isConst() && b.big == nil {
			if b.val == 0 {
				return a
			}
			if b.val == mask(w) && w <= 64 {
				return b
			}
		}
		if a == b {
			return a
		}
		// (zext x) << k | zext y patterns left to solver
	case OBvXor:
		if a.isConst() {
			a, b = b, a
		}
		if b.isConst() && b.big == nil && b.val == 0 {
			return a
		}
	case OBvShl, OBvLshr, OBvAshr:
		if b.isConst() && b.big == nil && b.val == 0 {
			return a
		}
		// byte extraction pattern: extract handled in Extract
	case OBvUDiv:
		if b.isConst() && b.big == nil && b.val == 1 {
			return a
		}
	}
	return c.mk(op, a.sort, "", 0, 0, a, b)
}

func (c *Ctx) Add(a, b *Term) *Term  { return c.bvBin(OBvAdd, a, b) }
func (c *Ctx) Sub(a, b *Term) *Term  { return c.bvBin(OBvSub, a, b) }
func (c *Ctx) Mul(a, b *Term) *Term  { return c.bvBin(OBvMul, a, b) }
func (c *Ctx) UDiv(a, b *Term) *Term { return c.bvBin(OBvUDiv, a, b) }
func (c *Ctx) URem(a, b *Term) *Term { return c.bvBin(OBvURem, a, b) }
func (c *Ctx) SDiv(a, b *Term) *Term { return c.bvBin(OBvSDiv, a, b) }
func (c *Ctx) SRem(a, b *Term) *Term { return c.bvBin(OBvSRem, a, b) }
func (c *Ctx) BvAnd(a, b *Term) *Term {
	return c.bvBin(OBvAnd, a, b)
}
func (c *Ctx) BvOr(a, b *Term) *Term  { return c.bvBin(OBvOr, a, b) }
func (c *Ctx) BvXor(a, b *Term) *Term { return c.bvBin(OBvXor, a, b) }
func (c *Ctx) Shl(a, b *Term) *Term   { return c.bvBin(OBvShl, a, b) }
func (c *Ctx) Lshr(a, b *Term) *Term  { return c.bvBin(OBvLshr, a, b) }
func (c *Ctx) Ashr(a, b *Term) *Term  { return c.bvBin(OBvAshr, a, b) }

func (c *Ctx) BvNot(a *Term) *Term {
	if a.isConst() && a.big == nil {
		return c.BV(a.sort.W, ^a.val)
	}
	return c.mk(OBvNot, a.sort, "", 0, 0, a)
}
func (c *Ctx) BvNeg(a *Term) *Term {
	if a.isConst() && a.big == nil {
		return c.BV(a.sort.W, -a.val)
	}
	return c.mk(OBvNeg, a.sort, "", 0, 0, a)
}

func (c *Ctx) bvCmp(op Op, a, b *Term) *Term {
	if a.sort != b.sort || a.sort.K != SBV {
		panic(fmt.Sprintf("bvCmp sort mismatch %v %v", a.sort, b.sort))
	}
	w := a.sort.W
	if a.isConst() && b.isConst() && w <= 64 {
		switch op {
		case OBvUlt:
			return c.Bool(a.val < b.val)
		case OBvUle:
			return c.Bool(a.val <= b.val)
		case OBvSlt:
			return c.Bool(signExt(a.val, w) < signExt(b.val, w))
		case OBvSle:
			return c.Bool(signExt(a.val, w) <= signExt(b.val, w))
		}
	}
	if a == b {
		return c.Bool(op == OBvUle || op == OBvSle)
	}
	if op == OBvUlt && b.isConst() && b.big == nil && b.val == 0 {
		return c.ff
	}
	if op == OBvUle && a.isConst() && a.big == nil && a.val == 0 {
		return c.tt
	}
	return c.mk(op, sortBool, "", 0, 0, a, b)
}

func (c *Ctx) Ult(a, b *Term) *Term { return c.bvCmp(OBvUlt, a, b) }
func (c *Ctx) Ule(a, b *Term) *Term { return c.bvCmp(OBvUle, a, b) }
func (c *Ctx) Slt(a, b *Term) *Term { return c.bvCmp(OBvSlt, a, b) }
func (c *Ctx) Sle(a, b *Term) *Term { return c.bvCmp(OBvSle, a, b) }

func (c *Ctx) Extract(hi, lo int, a *Term) *Term {
	w := hi - lo + 1
	if w == a.sort.W {
		return a
	}
	if a.isConst() {
		if a.big != nil {
			x := new(big.Int).Rsh(a.big, uint(lo))
			return c.BVBig(w, x)
		}
		return c.BV(w, a.val>>uint(lo))
	}
	switch a.op {
	case OExtract:
		return c.Extract(hi+a.p2, lo+a.p2, a.args[0])
	case OConcat:
		lw := a.args[1].sort.W
		if hi < lw {
			return c.Extract(hi, lo, a.args[1])
		}
		if lo >= lw {
			return c.Extract(hi-lw, lo-lw, a.args[0])
		}
	case OZext:
		iw := a.args[0].sort.W
		if hi < iw {
			return c.Extract(hi, lo, a.args[0])
		}
		if lo >= iw {
			return c.BVBig(w, big.NewInt(0))
		}
	case OSext:
		iw := a.args[0].sort.W
		if hi < iw {
			return c.Extract(hi, lo, a.args[0])
		}
	case OBvLshr:
		// extract(hi,lo, x >> k) = extract(hi+k, lo+k, x) when hi+k < W
		if a.args[1].isConst() && a.args[1].big == nil {
			k := int(a.args[1].val)
			if hi+k < a.sort.W {
				return c.Extract(hi+k, lo+k, a.args[0])
			}
			if lo+k >= a.sort.W {
				return c.BVBig(w, big.NewInt(0))
			}
		}
	case OBvShl:
		if a.args[1].isConst() && a.args[1].big == nil {
			k := int(a.args[1].val)
			if lo >= k {
				return c.Extract(hi-k, lo-k, a.args[0])
			}
			if hi < k {
				return c.BVBig(w, big.NewInt(0))
			}
		}
	case OBvOr, OBvAnd, OBvXor:
		// distribute extraction over bitwise ops when it simplifies to a leaf-ish term
		x := c.Extract(hi, lo, a.args[0])
		y := c.Extract(hi, lo, a.args[1])
		if x.isConst() || y.isConst() {
			return c.bvBin(a.op, x, y)
		}
	case OIte:
		if a.args[1].isConst() || a.args[2].isConst() {
			return c.Ite(a.args[0], c.Extract(hi, lo, a.args[1]), c.Extract(hi, lo, a.args[2]))
		}
	}
	return c.mk(OExtract, bvSort(w), "", hi, lo, a)
}

func (c *Ctx) Concat(a, b *Term) *Term {
	w := a.sort.W + b.sort.W
	if a.isConst() && b.isConst() {
		if w <= 64 {
			return c.BV(w, a.val<<uint(b.sort.W)|b.val)
		}
		x := constBig(a)
		x.Lsh(x, uint(b.sort.W))
		x.Or(x, constBig(b))
		return c.BVBig(w, x)
	}
	// concat(extract(h,m+1,x), extract(m,l,x)) = extract(h,l,x)
	if a.op == OExtract && b.op == OExtract && a.args[0] == b.args[0] && a.p2 == b.p1+1 {
		return c.Extract(a.p1, b.p2, a.args[0])
	}
	if a.isConst() && a.big == nil && a.val == 0 {
		return c.Zext(w, b)
	}
	return c.mk(OConcat, bvSort(w), "", 0, 0, a, b)
}

func constBig(a *Term) *big.Int {
	if a.big != nil {
		return new(big.Int).Set(a.big)
	}
	return new(big.Int).SetUint64(a.val)
}

func (c *Ctx) Zext(w int, a *Term) *Term {
	if w == a.sort.W {
		return a
	}
	if w < a.sort.W {
		return c.Extract(w-1, 0, a)
	}
	if a.isConst() {
		if w <= 64 {
			return c.BV(w, a.val)
		}
		return c.BVBig(w, constBig(a))
	}
	if a.op == OZext {
		return c.Zext(w, a.args[0])
	}
	return c.mk(OZext, bvSort(w), "", w-a.sort.W, 0, a)
}

func (c *Ctx) Sext(w int, a *Term) *Term {
	if w == a.sort.W {
		return a
	}
	if w < a.sort.W {
		return c.Extract(w-1, 0, a)
	}
	if a.isConst() && w <= 64 {
		return c.BV(w, uint64(signExt(a.val, a.sort.W)))
	}
	if a.op == OZext {
		return c.Zext(w, a.args[0])
	}
	return c.mk(OSext, bvSort(w), "", w-a.sort.W, 0, a)
}

// ---- Int theory

func (c *Ctx) intBin(op Op, a, b *Term) *Term {
	if a.isConst() && b.isConst() {
		r := new(big.Int)
		switch op {
		case OIntAdd:
			return c.IntConst(r.Add(a.big, b.big))
		case OIntSub:
			return c.IntConst(r.Sub(a.big, b.big))
		case OIntMul:
			return c.IntConst(r.Mul(a.big, b.big))
		case OIntDiv:
			if b.big.Sign() != 0 {
				// SMT-LIB div: floor for positive divisor, ceil for negative (Euclidean)
				m := new(big.Int)
				r.DivMod(a.big, b.big, m)
				return c.IntConst(r)
			}
		case OIntMod:
			if b.big.Sign() != 0 {
				m := new(big.Int)
				r.DivMod(a.big, b.big, m)
				return c.IntConst(m)
			}
		case OIntLe:
			return c.Bool(a.big.Cmp(b.big) <= 0)
		case OIntLt:
			return c.Bool(a.big.Cmp(b.big) < 0)
		}
	}
	s := sortInt
	if op == OIntLe || op == OIntLt {
		s = sortBool
	}
	return c.mk(op, s, "", 0, 0, a, b)
}

func (c *Ctx) Bv2Nat(a *Term) *Term {
	if a.isConst() {
		return c.IntConst(constBig(a))
	}
	return c.mk(OBv2Nat, sortInt, "", 0, 0, a)
}

func (c *Ctx) Int2Bv(w int, a *Term) *Term {
	if a.isConst() {
		return c.BVBig(w, a.big)
	}
	if a.op == OBv2Nat && len(a.args) == 1 { // int2bv_w(bv2nat(x)): x itself, truncated or zero-extended to w bits
		x := a.args[0]
		switch {
		case x.sort.W == w:
			return x
		case x.sort.W > w:
			return c.Extract(w-1, 0, x)
		default:
			return c.Zext(w, x)
		}
	}
	return c.mk(OInt2Bv, bvSort(w), "", w, 0, a)
}

// ---- printing

func constString(t *Term) string {
	switch t.sort.K {
	case SBool:
		if t.val == 1 {
			return "true"
		}
		return "false"
	case SFP:
		return fmt.Sprintf("(fp #b%d #b%011b #x%013x)", t.val>>63, (t.val>>52)&0x7ff, t.val&((1<<52)-1))
	case SInt:
		if t.big.Sign() < 0 {
			return "(- " + new(big.Int).Neg(t.big).String() + ")"
		}
		return t.big.String()
	}
	w := t.sort.W
	if t.big != nil {
		return fmt.Sprintf("(_ bv%s %d)", t.big.String(), w)
	}
	if w%4 == 0 {
		return fmt.Sprintf("#x%0*x", w/4, t.val)
	}
	return fmt.Sprintf("(_ bv%d %d)", t.val, w)
}

func smtName(s string) string {
	ok := true
	for _, r := range s {
		if !(r >= 'a' && r <= 'z' || r >= 'A' && r <= 'Z' || r >= '0' && r <= '9' || r == '_' || r == '.' || r == '!' || r == '$') {
			ok = false
			break
		}
	}
	if ok && s != "" {
		return s
	}
	return "|" + strings.ReplaceAll(strings.ReplaceAll(s, "|", "!"), "\\", "/") + "|"
}

// head renders the operator application with the given rendered args.
func (t *Term) render(args []string) string {
	switch t.op {
	case OConst:
		return constString(t)
	case OVar:
		return smtName(t.name)
	case OUF:
		if len(args) == 0 {
			return smtName(t.name)
		}
		return "(" + smtName(t.name) + " " + strings.Join(args, " ") + ")"
	case OExtract:
		return fmt.Sprintf("((_ extract %d %d) %s)", t.p1, t.p2, args[0])
	case OZext:
		return fmt.Sprintf("((_ zero_extend %d) %s)", t.p1, args[0])
	case OSext:
		return fmt.Sprintf("((_ sign_extend %d) %s)", t.p1, args[0])
	case OInt2Bv:
		return fmt.Sprintf("((_ int2bv %d) %s)", t.p1, args[0])
	case OFpFromUBV:
		return "((_ to_fp_unsigned 11 53) RNE " + args[0] + ")"
	case OFpFromSBV:
		return "((_ to_fp 11 53) RNE " + args[0] + ")"
	case OFpAdd:
		return "(fp.add RNE " + args[0] + " " + args[1] + ")"
	case OFpSub:
		return "(fp.sub RNE " + args[0] + " " + args[1] + ")"
	case OFpMul:
		return "(fp.mul RNE " + args[0] + " " + args[1] + ")"
	case OFpDiv:
		return "(fp.div RNE " + args[0] + " " + args[1] + ")"
	case OFpLt:
		return "(fp.lt " + args[0] + " " + args[1] + ")"
	case OFpLe:
		return "(fp.leq " + args[0] + " " + args[1] + ")"
	case OFpEq:
		return "(fp.eq " + args[0] + " " + args[1] + ")"
	case OFpNeg:
		return "(fp.neg " + args[0] + ")"
	case OFpToUBV:
		return fmt.Sprintf("((_ fp.to_ubv %d) RTZ %s)", t.p1, args[0])
	case OFpToSBV:
		return fmt.Sprintf("((_ fp.to_sbv %d) RTZ %s)", t.p1, args[0])
	}
	return "(" + opNames[t.op] + " " + strings.Join(args, " ") + ")"
}

// String renders fully inline (for debugging / small terms).
func (t *Term) String() string {
	if t.size > 200 {
		return fmt.Sprintf("<term#%d size %d>", t.id, t.size)
	}
	args := make([]string, len(t.args))
	for i, a := range t.args {
		args[i] = a.String()
	}
	return t.render(args)
}

// ---- floating point (IEEE double)

func (c *Ctx) FP(bits uint64) *Term {
	return &Term{op: OConst, sort: sortFP, val: bits, id: -3, size: 1}
}

func (c *Ctx) fpOp(op Op, s Sort, p1 int, args ...*Term) *Term {
	return c.mk(op, s, "", p1, 0, args...)
}

// placed recognises  zext(inner) << k  (k constant, possibly 0) and returns inner and k.
func placed(t *Term) (*Term, int, bool) {
	if t.isConst() {
		return nil, 0, false
	}
	switch t.op {
	case OZext:
		return t.args[0], 0, true
	case OBvShl:
		if t.args[1].isConst() && t.args[1].big == nil && t.args[0].op == OZext {
			return t.args[0].args[0], int(t.args[1].val), true
		}
	}
	return nil, 0, false
}
